"""Validate a seeded change and run the matching check against it.
usage: seedtest.py <seed-dir> [--keep] [--prop Cxx]
The seed dir contains patch.diff, demo.py, meta.json.  Works in a scratch worktree of /repo (removed afterwards)."""
import os, sys, json, subprocess, shutil, time

VERIF = os.path.dirname(os.path.dirname(os.path.abspath(__file__)))


def sh(cmd, cwd=None, env=None, timeout=1800):
    e = dict(os.environ)
    e.update(env or {})
    p = subprocess.run(cmd, shell=True, cwd=cwd, env=e, stdout=subprocess.PIPE, stderr=subprocess.STDOUT, timeout=timeout)
    return p.returncode, p.stdout.decode("utf-8", "replace")


def main():
    sd = os.path.abspath(sys.argv[1])
    meta = json.load(open(os.path.join(sd, "meta.json")))
    prop = meta["property"]
    if "--prop" in sys.argv:
        prop = sys.argv[sys.argv.index("--prop") + 1]
    wt = "/tmp/wt-seedtest-%d" % os.getpid()
    sh("git -C /repo worktree add --detach -q %s HEAD" % wt)
    res = {"seed": sd, "property": prop}
    try:
        env = {"PYTHONPATH": wt, "PYTHONDONTWRITEBYTECODE": "1"}
        rc, out = sh("/venv/bin/python -B %s" % os.path.join(sd, "demo.py"), cwd=wt, env=env)
        res["demo_pristine_rc"] = rc
        rc, out = sh("git apply %s" % os.path.join(sd, "patch.diff"), cwd=wt)
        res["apply_rc"] = rc
        if rc != 0:
            res["apply_out"] = out[-500:]
        rc, out = sh("/venv/bin/python -B %s" % os.path.join(sd, "demo.py"), cwd=wt, env=env)
        res["demo_patched_rc"] = rc
        res["demo_patched_tail"] = out[-300:]
        rc, out = sh("/venv/bin/python -B -m pytest -q -p no:cacheprovider --timeout=900 tests --ignore=tests/test_visualization.py -x -q 2>&1 | tail -3", cwd=wt, env=env)
        res["tests_tail"] = out.strip()[-200:]
        res["tests_pass"] = ("passed" in out and "failed" not in out and "error" not in out.lower())
        t0 = time.time()
        rc, out = sh("./check %s --tier quick" % prop, cwd=VERIF, env={"VERIF_REPO": wt})
        res["check_rc"] = rc
        res["check_wall"] = round(time.time() - t0, 1)
        res["check_tail"] = "\n".join(out.strip().splitlines()[-6:])
        res["detected"] = (rc == 1 and "VIOLATION property=%s" % prop in out)
        res["with_input"] = res["detected"] and any(("VIOLATION" in l and "no-failing-input-found" not in l) for l in out.splitlines())
        res["valid_seed"] = (res["demo_pristine_rc"] == 0 and res["apply_rc"] == 0 and res["demo_patched_rc"] != 0 and res["tests_pass"])
    finally:
        if "--keep" not in sys.argv:
            sh("git -C /repo worktree remove --force %s" % wt)
    print(json.dumps(res, indent=1))
    return 0


if __name__ == "__main__":
    sys.exit(main())
