"""Validate a seeded change and run the matching check against it.
usage: seedtest.py <seed-dir> [--keep] [--prop Cxx]
The seed dir contains patch.diff, demo.py, meta.json.  Works in a scratch worktree of /repo (removed afterwards)."""
import os, sys, json, subprocess, shutil, time

VERIF = os.path.dirname(os.path.dirname(os.path.abspath(__file__)))


def sh(cmd, cwd=None, env=None, timeout=1800):
    e = dict(os.environ)
    e.update(env or {})
    p = subprocess.run(cmd, shell=True, cwd=cwd, env=e, stdout=subprocess.PIPE, stderr=subprocess.STDOUT, timeout=timeout)
    return p.returncode, p.stdout.decode("utf-8", "replace")


def main():
    sd = os.path.abspath(sys.argv[1])
    meta = json.load(open(os.path.join(sd, "meta.json")))
    prop = meta["property"]
    if "--prop" in sys.argv:
        prop = sys.argv[sys.argv.index("--prop") + 1]
    wt = "/tmp/wt-seedtest-%d" % os.getpid()
    sh("git -C /repo worktree add --detach -q %s HEAD" % wt)
    res = {"seed": sd, "property": prop}
    try:
        env = {"PYTHONPATH": wt, "PYTHONDONTWRITEBYTECODE": "1"}
        rc, out = sh("/venv/bin/python -B %s" % os.path.join(sd, "demo.py"), cwd=wt, env=env)
        res["demo_pristine_rc"] = rc
        rc, out = sh("git apply %s" % os.path.join(sd, "patch.diff"), cwd=wt)
        res["apply_rc"] = rc
        if rc != 0:
            res["apply_out"] = out[-500:]
        rc, out = sh("/venv/bin/python -B %s" % os.path.join(sd, "demo.py"), cwd=wt, env=env)
        res["demo_patched_rc"] = rc
        res["demo_patched_tail"] = out[-300:]
        rc, out = sh("/venv/bin/python -B -m pytest -q -p no:cacheprovider --timeout=900 tests --ignore=tests/test_visualization.py -q", cwd=wt, env=env)
        res["tests_tail"] = out.strip()[-120:]
        res["tests_pass"] = (rc == 0)
        t0 = time.time()
        rc, out = sh("./check %s --tier quick" % prop, cwd=VERIF, env={"VERIF_REPO": wt})
        res["check_rc"] = rc
        res["check_wall"] = round(time.time() - t0, 1)
        res["check_tail"] = "\n".join(out.strip().splitlines()[-6:])
        res["detected"] = (rc == 1 and "VIOLATION property=%s" % prop in out)
        res["with_input"] = res["detected"] and any(("VIOLATION" in l and "no-failing-input-found" not in l) for l in out.splitlines())
        res["valid_seed"] = (res["demo_pristine_rc"] == 0 and res["apply_rc"] == 0 and res["demo_patched_rc"] != 0 and res["tests_pass"])
    finally:
        if "--keep" not in sys.argv:
            sh("git -C /repo worktree remove --force %s" % wt)
    print(json.dumps(res, indent=1))
    if "--save" in sys.argv and res.get("valid_seed"):
        name = os.path.basename(sd.rstrip("/"))
        dst = os.path.join(VERIF, "seeded", name)
        os.makedirs(dst, exist_ok=True)
        for f in ("patch.diff", "demo.py"):
            shutil.copy(os.path.join(sd, f), os.path.join(dst, f))
        meta.update({"breaks_property": prop, "confirmed": {"demo_passes_on_pristine_tree": True, "demo_fails_with_patch": True, "existing_test_suite_passes_with_patch": True},
                     "check_result": {"command": "VERIF_REPO=<scratch worktree with patch> ./check %s --tier quick" % prop, "detected": res["detected"],
                                      "with_failing_input": res["with_input"], "wall_s": res["check_wall"], "tail": res["check_tail"]}})
        json.dump(meta, open(os.path.join(dst, "meta.json"), "w"), indent=1)
        print("saved to", dst)
    return 0


if __name__ == "__main__":
    sys.exit(main())
