"""Prints a markdown table of the confirmed seeded changes under /verif/seeded and whether the checks caught them."""
import os, json
V = os.path.dirname(os.path.dirname(os.path.abspath(__file__)))
rows = []
for d in sorted(os.listdir(os.path.join(V, "seeded"))):
    mp = os.path.join(V, "seeded", d, "meta.json")
    if not os.path.exists(mp):
        continue
    m = json.load(open(mp))
    cr = m.get("check_result", {})
    rows.append("| %s | %s | %s | %s | %s |" % (d, m.get("breaks_property", m.get("property")), (m.get("summary") or "").replace("|", "/")[:160],
                                              (m.get("needs") or "").replace("|", "/")[:160],
                                              ("caught, failing input" if cr.get("with_failing_input") else ("caught (no input)" if cr.get("detected") else "MISSED"))))
print("| seed | property | change | needs | ./check result |\n|---|---|---|---|---|")
print("\n".join(rows))
