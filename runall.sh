#!/bin/sh
# Runs every registered check (quick by default) sequentially and prints one summary line each.
cd "$(dirname "$0")" || exit 2
tier="${1:-quick}"
for id in $(python3 -c "import json;print(' '.join(c['property_id'] for c in json.load(open('MANIFEST.json'))['checks']))"); do
  start=$(date +%s)
  out=$(./check "$id" --tier "$tier" 2>&1); rc=$?
  end=$(date +%s)
  echo "== $id rc=$rc $((end-start))s :: $(echo "$out" | grep -E "^$id tier|VIOLATION|KNOWN-FINDING" | tr '\n' '|' | cut -c1-400)"
done
