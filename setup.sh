#!/bin/sh
# setup_cmd: full .vo build of the whole Coq development (offline, files on disk only) + forbidden-token scan
cd "$(dirname "$0")/coq" || exit 2
find . -name '*.v' | sed 's|^\./||' | sort > .files
cat _CoqProject.head .files > _CoqProject
rm -f .files
coq_makefile -f _CoqProject -o Makefile || exit 2
timeout 14000 make -j"$(nproc)" > .build.log 2>&1
rc=$?
tail -15 .build.log
test $rc = 0 || { echo "setup: make failed"; exit 1; }
for f in $(find . -name '*.v'); do test -f "${f}o" || { echo "not built: $f"; exit 1; }; done
cd .. && PYTHONPATH=/repo /venv/bin/python -B -c "
import sys; sys.path.insert(0,'harness'); import core
b = core.forbidden_scan()
print('forbidden tokens:', b)
sys.exit(1 if b else 0)" || exit 1
echo setup-ok
