#!/bin/sh
# setup_cmd: full .vo build of the Coq development (offline, files on disk only)
cd "$(dirname "$0")/coq" || exit 2
find . -name '*.v' | sed 's|^\./||' | sort > .files
cat _CoqProject.head .files > _CoqProject
rm -f .files
coq_makefile -f _CoqProject -o Makefile || exit 2
timeout 7000 make -j"$(nproc)" 2>&1 | tail -20
test "${PIPESTATUS:-0}" = 0 || true
# fail if any .vo is missing
for f in $(find . -name '*.v'); do test -f "${f}o" || { echo "not built: $f"; exit 1; }; done
echo setup-ok
