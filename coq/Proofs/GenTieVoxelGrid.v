(* Ties: generated linalg.frange (a generator: the list of the values it yields) and _voxelize.generate_voxel_grid
   (Gen/LinalgC.v, Gen/VoxelizeB.v) = Model/Geom2D.v (frange), Model/Voxel.v (generate_voxel_grid).
   The while loop of frange has no bound that is an int expression of the source: the generated function takes the bound as the extra
   parameter py_fuel, as the model takes `fuel`; with the same bound both sides make the same passes (OutOfFuel <-> Crash).
   No law of the scalar operations is used, except by generate_voxel_grid with use_cubes = True: min( *steps ) keeps the first minimal
   element (pymin: y < x), the model's omin tests x <= y; they agree when <= is the negation of the flipped < (le_lt_law; Rops, Qops). *)
From Coq Require Import List ZArith Arith Bool Lia QArith.
From NV Require Import Scalar.Ops Model.Common Model.Geom2D Model.Voxel Gen.Prelude Gen.PreludeExt Gen.PreludeExt2 Gen.LinalgInternal Gen.Linalg
  Gen.LinalgC Gen.VoxelizeB Proofs.GenTieLib Proofs.GenTieLib2 Proofs.GenTieEvalLib.
Import ListNotations.
Local Open Scope nat_scope.

Section Tie.
Context {T : Type} (K : ops T).
Notation "0" := (o0 K).

(* ---- frange ---- *)
Lemma frange_gwhile (x0 stop step eps : T) : forall fuel i x (acc : list T),
  (do '(i, x, py_yielded) <- gwhile fuel (fun '(i, x, py_yielded) => GOk (oltb K (oadd K x eps) stop))
       (fun '(i, x, py_yielded) =>
          let i := oadd K i (o1 K) in let x := oadd K x0 (omul K i step) in let py_yielded := py_yielded ++ [x] in
          GOk (i, x, py_yielded)) (i, x, acc) ;;
   do py_yielded <- (if oltb K x stop then let py_yielded := py_yielded ++ [stop] in GOk py_yielded else GOk py_yielded) ;;
   GOk py_yielded)
  = match frange_loop K fuel x0 stop step eps i x with Some l => GOk (acc ++ l) | None => GErr OutOfFuel end.
Proof.
  induction fuel as [|fuel IH]; intros i x acc; [reflexivity|].
  rewrite gwhile_unfold. cbn [gbind frange_loop].
  destruct (oltb K (oadd K x eps) stop).
  - cbn [gbind]. cbv zeta. rewrite IH. destruct (frange_loop K fuel x0 stop step eps _ _); [|reflexivity].
    now rewrite <- app_assoc.
  - cbn [gbind]. destruct (oltb K x stop); cbn [gbind]; [reflexivity|]. now rewrite app_nil_r.
Qed.

(* ALL inputs, every bound: OutOfFuel <-> Crash *)
Theorem frange_tie (fuel : nat) (start stop step : T) :
  LinalgC.frange K start stop step (Z.of_nat fuel) =
  res_to_gres (fun x => x) ValueError OutOfFuel (Geom2D.frange K fuel start stop step).
Proof.
  unfold LinalgC.frange, Geom2D.frange. rewrite Nat2Z.id.
  pose proof (frange_gwhile start stop step (odiv K step (o2 K)) fuel 0 start ([] ++ [start])) as H.
  etransitivity; [exact H|].
  destruct (frange_loop K fuel start stop step _ 0 start); reflexivity.
Qed.

(* ---- generate_voxel_grid ---- *)
Definition le_lt_law : Prop := forall x y : T, oleb K x y = negb (oltb K y x).

Lemma pymin_omin (H : le_lt_law) (x y : T) : pymin K x y = omin K x y.
Proof. unfold pymin, omin. rewrite H. destruct (oltb K y x); reflexivity. Qed.

Lemma voxel_loops (r0 r1 r2 steps : list T) :
  (do v_20 <- znth [r0; r1; r2] 0%Z ;;
   do voxel_grid <- gfor v_20 (fun u voxel_grid =>
     do v_21 <- znth [r0; r1; r2] 1%Z ;;
     do voxel_grid <- gfor v_21 (fun v voxel_grid =>
       do v_22 <- znth [r0; r1; r2] 2%Z ;;
       do voxel_grid <- gfor v_22 (fun w voxel_grid =>
         let bbmin := [u; v; w] in
         let bbmax := map (fun '(k, l) => oadd K k l) (combine bbmin steps) in
         let voxel_grid := voxel_grid ++ [[bbmin; bbmax]] in
         GOk voxel_grid) voxel_grid ;;
       GOk voxel_grid) voxel_grid ;;
     GOk voxel_grid) [] ;;
   GOk voxel_grid)
  = GOk (flat_map (fun u => flat_map (fun v => map (fun w => let bbmin := [u; v; w] in [bbmin; vadd K bbmin steps]) r2) r1) r0).
Proof.
  change (znth [r0; r1; r2] 0%Z) with (GOk r0). cbn [gbind].
  rewrite (gfor_append_nested r0 _ (fun u => flat_map (fun v => map (fun w => let bbmin := [u; v; w] in [bbmin; vadd K bbmin steps]) r2) r1)).
  - reflexivity.
  - intros u acc _. change (znth [r0; r1; r2] 1%Z) with (GOk r1). cbn [gbind].
    rewrite (gfor_append_nested r1 _ (fun v => map (fun w => let bbmin := [u; v; w] in [bbmin; vadd K bbmin steps]) r2)).
    + reflexivity.
    + intros v acc' _. change (znth [r0; r1; r2] 2%Z) with (GOk r2). cbn [gbind].
      rewrite (gfor_append_gen r2 _ (fun w => let bbmin := [u; v; w] in [bbmin; vadd K bbmin steps])).
      * reflexivity.
      * intros w acc'' _. cbv zeta. do 5 f_equal. unfold vadd. apply map_ext. intros [k l]. reflexivity.
Qed.

(* wf: three sizes, a box of two corners with (at least) three coordinates.  GeomdlException (a size <= 1) <-> Rejected,
   OutOfFuel <-> Crash.  use_cubes = True needs le_lt_law. *)
Theorem generate_voxel_grid_tie (fuel : nat) (bbox : list (list T)) (s0 s1 s2 : nat) (use_cubes : bool) :
  (use_cubes = true -> le_lt_law) ->
  2 <= length bbox -> 3 <= length (nth 0 bbox []) -> 3 <= length (nth 1 bbox []) ->
  VoxelizeB.generate_voxel_grid K bbox [Z.of_nat s0; Z.of_nat s1; Z.of_nat s2] use_cubes (Z.of_nat fuel) =
  res_to_gres (fun x => x) GeomdlError OutOfFuel (Voxel.generate_voxel_grid K fuel bbox [s0; s1; s2] use_cubes).
Proof.
  intros Hlaw Hb Hlo Hhi. unfold VoxelizeB.generate_voxel_grid, Voxel.generate_voxel_grid.
  cbv zeta. cbn [nth].
  change (znth [Z.of_nat s0; Z.of_nat s1; Z.of_nat s2] 0%Z) with (GOk (Z.of_nat s0)).
  change (znth [Z.of_nat s0; Z.of_nat s1; Z.of_nat s2] 1%Z) with (GOk (Z.of_nat s1)).
  change (znth [Z.of_nat s0; Z.of_nat s1; Z.of_nat s2] 2%Z) with (GOk (Z.of_nat s2)).
  cbn [gbind].
  assert (Eleb : forall s, (Z.of_nat s <=? 1)%Z = Nat.leb s 1).
  { intros s. destruct (Z.leb_spec (Z.of_nat s) 1); destruct (Nat.leb_spec s 1); auto; lia. }
  rewrite !Eleb.
  destruct (Nat.leb_spec s0 1) as [H0|H0]; cbn [gbind orb]; [reflexivity|].
  destruct (Nat.leb_spec s1 1) as [H1|H1]; cbn [gbind orb]; [reflexivity|].
  destruct (Nat.leb_spec s2 1) as [H2|H2]; cbn [gbind orb]; [reflexivity|].
  set (lo := nth 0 bbox []) in *. set (hi := nth 1 bbox []) in *.
  assert (E0 : znth bbox 0%Z = GOk lo) by (apply (znth_lit0 bbox []); lia).
  assert (E1 : znth bbox 1%Z = GOk hi) by (apply (znth_lit1 bbox []); lia).
  change (zrange 0 3 1) with [0%Z; 1%Z; 2%Z].
  assert (Elit : forall (l : list T), 3 <= length l ->
            znth l 0%Z = GOk (nth 0 l 0) /\ znth l 1%Z = GOk (nth 1 l 0) /\ znth l 2%Z = GOk (nth 2 l 0)).
  { intros l Hl. split; [|split]; [apply (znth_lit0 l 0)|apply (znth_lit1 l 0)|apply (znth_lit2 l 0)]; lia. }
  destruct (Elit lo Hlo) as (Elo0 & Elo1 & Elo2). destruct (Elit hi Hhi) as (Ehi0 & Ehi1 & Ehi2).
  assert (Eof : forall s, 1 < s -> ofZ K (Z.of_nat s - 1) = ofnat K (s - 1)).
  { intros s Hs. replace (Z.of_nat s - 1)%Z with (Z.of_nat (s - 1)) by lia. apply ofZ_of_nat. }
  (* the steps *)
  cbn [gmapM]. rewrite E1, E0. cbn [gbind].
  rewrite Ehi0, Ehi1, Ehi2, Elo0, Elo1, Elo2. cbn [gbind].
  change (znth [Z.of_nat s0; Z.of_nat s1; Z.of_nat s2] 0%Z) with (GOk (Z.of_nat s0)).
  change (znth [Z.of_nat s0; Z.of_nat s1; Z.of_nat s2] 1%Z) with (GOk (Z.of_nat s1)).
  change (znth [Z.of_nat s0; Z.of_nat s1; Z.of_nat s2] 2%Z) with (GOk (Z.of_nat s2)).
  cbn [gbind]. rewrite !Eof by lia.
  cbn [seq map nth].
  set (st0 := odiv K (osub K (nth 0 hi 0) (nth 0 lo 0)) (ofnat K (s0 - 1))).
  set (st1 := odiv K (osub K (nth 1 hi 0) (nth 1 lo 0)) (ofnat K (s1 - 1))).
  set (st2 := odiv K (osub K (nth 2 hi 0) (nth 2 lo 0)) (ofnat K (s2 - 1))).
  (* cubes *)
  set (steps := if use_cubes then repeat (vmin3 K [st0; st1; st2]) 3 else [st0; st1; st2]) in *.
  assert (Lsteps : length steps = 3) by (unfold steps; destruct use_cubes; reflexivity).
  match goal with |- gbind ?m ?k = _ => assert (Em : m = GOk steps) end.
  { destruct use_cubes; [|reflexivity]. cbn [pymin_list gbind fold_left map]. unfold steps, vmin3. cbn [tl hd fold_left repeat].
    rewrite !(pymin_omin (Hlaw eq_refl)). reflexivity. }
  rewrite Em. cbn [gbind]. clear Em.
  (* the three ranges *)
  destruct (Elit steps ltac:(lia)) as (Est0 & Est1 & Est2).
  rewrite ?E0, ?E1. cbn [gbind].
  rewrite ?Elo0, ?Elo1, ?Elo2, ?Ehi0, ?Ehi1, ?Ehi2. cbn [gbind].
  rewrite Est0, Est1, Est2. cbn [gbind].
  rewrite !frange_tie.
  assert (Hnr : forall a b c, Geom2D.frange K fuel a b c <> Rejected).
  { intros a b c. unfold Geom2D.frange. destruct (frange_loop K fuel a b c _ _ _); discriminate. }
  destruct (Geom2D.frange K fuel (nth 0 lo 0) (nth 0 hi 0) (nth 0 steps 0)) as [r0| |] eqn:F0; cbn [res_to_gres gbind res_bind];
    [|exfalso; exact (Hnr _ _ _ F0)|reflexivity].
  destruct (Geom2D.frange K fuel (nth 1 lo 0) (nth 1 hi 0) (nth 1 steps 0)) as [r1| |] eqn:F1; cbn [res_to_gres gbind res_bind];
    [|exfalso; exact (Hnr _ _ _ F1)|reflexivity].
  destruct (Geom2D.frange K fuel (nth 2 lo 0) (nth 2 hi 0) (nth 2 steps 0)) as [r2| |] eqn:F2; cbn [res_to_gres gbind res_bind];
    [|exfalso; exact (Hnr _ _ _ F2)|reflexivity].
  apply voxel_loops.
Qed.
End Tie.

Require Import Reals Lra.
Lemma Rops_le_lt_law : le_lt_law Rops.
Proof.
  intros x y. cbn [oleb oltb Rops]. unfold Rleb, Rltb. destruct (Rle_dec x y); destruct (Rlt_dec y x); try reflexivity; exfalso; lra.
Qed.
Lemma Qops_le_lt_law : le_lt_law Qops.
Proof. intros x y. cbn [oleb oltb Qops]. destruct (Qle_bool x y); reflexivity. Qed.

Definition frange_tie_R := @frange_tie R Rops.
Definition frange_tie_Q := @frange_tie Q Qops.
Definition generate_voxel_grid_tie_R fuel bbox s0 s1 s2 use_cubes :=
  @generate_voxel_grid_tie R Rops fuel bbox s0 s1 s2 use_cubes (fun _ => Rops_le_lt_law).
Definition generate_voxel_grid_tie_Q fuel bbox s0 s1 s2 use_cubes :=
  @generate_voxel_grid_tie Q Qops fuel bbox s0 s1 s2 use_cubes (fun _ => Qops_le_lt_law).

(* ---- examples (the values geomdl returns) ---- *)
Local Open Scope Q_scope.
Example frange_ex :
  LinalgC.frange Qops 0 1 (1 # 4) 10 = GOk [0; 1 # 4; 1 # 2; 3 # 4; 1]
  /\ Geom2D.frange Qops 10 0 1 (1 # 4) = Ok [0; 1 # 4; 1 # 2; 3 # 4; 1]
  /\ LinalgC.frange Qops 0 1 (3 # 10) 10 = GOk [0; 3 # 10; 3 # 5; 9 # 10; 1]
  /\ LinalgC.frange Qops 0 1 (1 # 4) 3 = GErr OutOfFuel /\ Geom2D.frange Qops 3 0 1 (1 # 4) = Crash.
Proof. split; [|split; [|split; [|split]]]; vm_compute; reflexivity. Qed.
Example generate_voxel_grid_ex :
  VoxelizeB.generate_voxel_grid Qops [[0; 0; 0]; [1; 2; 4]] [2; 2; 3]%Z false 10 =
    res_to_gres (fun x => x) GeomdlError OutOfFuel (Voxel.generate_voxel_grid Qops 10 [[0; 0; 0]; [1; 2; 4]] [2; 2; 3]%nat false)
  /\ (exists g, Voxel.generate_voxel_grid Qops 10 [[0; 0; 0]; [1; 2; 4]] [2; 2; 3]%nat false = Ok g /\ length g = 12%nat
                /\ nth 5 g [] = [[0; 2; 4]; [1; 4; 6]])
  /\ (exists g, VoxelizeB.generate_voxel_grid Qops [[0; 0; 0]; [1; 2; 4]] [2; 2; 3]%Z true 10 = GOk g /\ length g = 30%nat
                /\ nth 1 g [] = [[0; 0; 1]; [1; 1; 2]])
  /\ VoxelizeB.generate_voxel_grid Qops [[0; 0; 0]; [1; 2; 4]] [2; 1; 3]%Z false 10 = GErr GeomdlError.
Proof.
  split; [vm_compute; reflexivity|]. split; [eexists; split; [vm_compute; reflexivity|split; reflexivity]|].
  split; [eexists; split; [vm_compute; reflexivity|split; reflexivity]|]. vm_compute. reflexivity.
Qed.
