(* C18: the polyline through the evaluated points is at least as long as its chord
   (triangle inequality in R^n from the two-dimensional Minkowski inequality). *)
From Coq Require Import List Reals Lra Lia Arith Bool Psatz.
From NV Require Import Scalar.Ops Model.Common Model.Basis Model.Knots Model.Eval Model.Hull Proofs.LinComb.
Import ListNotations.
Open Scope R_scope.

Definition dist (a b : list R) : R := sqrt (sqdist Rops a b).
(* what operations.length_curve computes from the evaluated points *)
Definition polyline_len (pts : list (list R)) : R := sumT Rops (map sqrt (polyline_sq Rops pts)).

Lemma sqdist_nil_l b : sqdist Rops [] b = 0. Proof. reflexivity. Qed.
Lemma sqdist_nil_r a : sqdist Rops a [] = 0. Proof. destruct a; reflexivity. Qed.
Lemma sqdist_cons x a y b : sqdist Rops (x :: a) (y :: b) = (x - y) * (x - y) + sqdist Rops a b.
Proof. reflexivity. Qed.
Lemma sqdist_nonneg : forall a b, 0 <= sqdist Rops a b.
Proof.
  induction a as [|x a IH]; intros [|y b]; rewrite ?sqdist_nil_l, ?sqdist_nil_r, ?sqdist_cons; try lra.
  specialize (IH b). pose proof (Rle_0_sqr (x - y)) as Hq. unfold Rsqr in Hq. lra.
Qed.
Lemma sqdist_refl : forall a, sqdist Rops a a = 0.
Proof. induction a as [|x a IH]; [reflexivity|]. rewrite sqdist_cons, IH. lra. Qed.

Lemma sq_nonneg z : 0 <= z * z.
Proof. pose proof (Rle_0_sqr z) as H. unfold Rsqr in H. exact H. Qed.

(* sqrt((a+b)^2 + (s+t)^2) <= sqrt(a^2+s^2) + sqrt(b^2+t^2) *)
Lemma minkowski2 a b s t : sqrt ((a + b) * (a + b) + (s + t) * (s + t)) <= sqrt (a * a + s * s) + sqrt (b * b + t * t).
Proof.
  set (A := sqrt (a * a + s * s)). set (B := sqrt (b * b + t * t)).
  assert (HA : 0 <= A) by apply sqrt_pos. assert (HB : 0 <= B) by apply sqrt_pos.
  pose proof (sq_nonneg a). pose proof (sq_nonneg s). pose proof (sq_nonneg b). pose proof (sq_nonneg t).
  assert (EA : A * A = a * a + s * s) by (apply sqrt_sqrt; lra).
  assert (EB : B * B = b * b + t * t) by (apply sqrt_sqrt; lra).
  assert (HAB : 0 <= A * B) by (apply Rmult_le_pos; assumption).
  assert (Hcs : a * b + s * t <= A * B).
  { apply Rsqr_incr_0_var; [|exact HAB]. unfold Rsqr.
    replace ((A * B) * (A * B)) with ((A * A) * (B * B)) by ring. rewrite EA, EB.
    assert (E : (a * a + s * s) * (b * b + t * t) - (a * b + s * t) * (a * b + s * t) = (a * t - s * b) * (a * t - s * b)) by ring.
    pose proof (sq_nonneg (a * t - s * b)). lra. }
  rewrite <- (sqrt_square (A + B)) by lra. apply sqrt_le_1_alt.
  replace ((A + B) * (A + B)) with (A * A + B * B + 2 * (A * B)) by ring. rewrite EA, EB.
  replace ((a + b) * (a + b) + (s + t) * (s + t)) with (a * a + s * s + (b * b + t * t) + 2 * (a * b + s * t)) by ring. lra.
Qed.

Lemma sqrt_mono_plus c r s : 0 <= r -> r <= s -> sqrt (c * c + r * r) <= sqrt (c * c + s * s).
Proof. intros. apply sqrt_le_1_alt. assert (r * r <= s * s) by (apply Rmult_le_compat; lra). lra. Qed.

Theorem dist_triangle : forall a b c, length a = length b -> length b = length c -> dist a c <= dist a b + dist b c.
Proof.
  unfold dist. induction a as [|x a IH]; intros [|y b] [|z c] H1 H2; cbn [length] in *; try discriminate.
  - rewrite !sqdist_nil_l, sqrt_0. lra.
  - rewrite !sqdist_cons.
    pose proof (sqdist_nonneg a c) as Nac. pose proof (sqdist_nonneg a b) as Nab. pose proof (sqdist_nonneg b c) as Nbc.
    specialize (IH b c ltac:(lia) ltac:(lia)).
    set (r := sqrt (sqdist Rops a c)) in *. set (s := sqrt (sqdist Rops a b)) in *. set (t := sqrt (sqdist Rops b c)) in *.
    assert (Hr : 0 <= r) by apply sqrt_pos. assert (Hs : 0 <= s) by apply sqrt_pos. assert (Ht : 0 <= t) by apply sqrt_pos.
    rewrite <- (sqrt_sqrt (sqdist Rops a c)) by assumption. rewrite <- (sqrt_sqrt (sqdist Rops a b)) by assumption.
    rewrite <- (sqrt_sqrt (sqdist Rops b c)) by assumption. fold r s t.
    replace (x - z) with ((x - y) + (y - z)) by lra.
    eapply Rle_trans; [apply (sqrt_mono_plus _ r (s + t)); lra|]. apply minkowski2.
Qed.

Lemma last_indep {A} : forall (r : list A) c a b, last (c :: r) a = last (c :: r) b.
Proof. induction r as [|d r IH]; intros c a b; [reflexivity|]. change (last (d :: r) a = last (d :: r) b). apply IH. Qed.
Lemma last_cons2 {A} (a b : A) r : last (b :: r) a = last r b.
Proof. destruct r as [|c r]; [reflexivity|]. change (last (c :: r) a = last (c :: r) b). apply last_indep. Qed.

Lemma polyline_len_cons a b r : polyline_len (a :: b :: r) = dist a b + polyline_len (b :: r).
Proof. reflexivity. Qed.

(* the end-to-end chord is never longer than the polyline *)
Theorem chord_le_polyline dim : forall pts a, Forall (fun q => length q = dim) (a :: pts) ->
  dist a (last pts a) <= polyline_len (a :: pts).
Proof.
  induction pts as [|b r IH]; intros a Hd.
  - cbn [last]. unfold dist, polyline_len. rewrite sqdist_refl, sqrt_0. cbn. lra.
  - rewrite last_cons2, polyline_len_cons.
    apply Forall_cons_iff in Hd. destruct Hd as [Ha Hd]. pose proof Hd as Hd'. apply Forall_cons_iff in Hd'. destruct Hd' as [Hb Hr].
    specialize (IH b Hd).
    assert (Hl : length (last r b) = dim).
    { clear IH Hd. revert b Hb. induction r as [|c r IHr]; intros b Hb; [exact Hb|].
      rewrite last_cons2. apply Forall_cons_iff in Hr. destruct Hr as [Hc Hr']. apply IHr; auto. }
    pose proof (dist_triangle a b (last r b) ltac:(lia) ltac:(lia)). lra.
Qed.
