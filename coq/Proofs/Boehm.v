From Coq Require Import Reals Lra Lia Arith Bool.
Open Scope R_scope.

Section CdB.
Variable U : nat -> R.
Hypothesis Usorted : forall i, U i <= U (S i).

Lemma U_mono i j : (i <= j)%nat -> U i <= U j.
Proof. induction 1; [lra| ]. specialize (Usorted m). lra. Qed.

Definition ind (a b u : R) : R := if Rle_dec a u then if Rlt_dec u b then 1 else 0 else 0.

Fixpoint N (p i : nat) (u : R) : R :=
  match p with
  | O => ind (U i) (U (S i)) u
  | S q => (u - U i) / (U (i + S q) - U i) * N q i u
         + (U (i + S q + 1) - u) / (U (i + S q + 1) - U (S i)) * N q (S i) u
  end.

Lemma N_support p : forall i u, (u < U i \/ U (i + p + 1) <= u) -> N p i u = 0.
Proof.
  induction p as [|q IH]; intros i u H; cbn [N].
  - unfold ind. replace (i+0+1)%nat with (S i) in H by lia.
    destruct (Rle_dec (U i) u); destruct (Rlt_dec u (U (S i))); try lra.
  - rewrite (IH i u), (IH (S i) u); try lra.
    + destruct H as [H|H]; [left|right].
      * pose proof (Usorted i). lra.
      * replace (S i + q + 1)%nat with (i + S q + 1)%nat by lia. exact H.
    + destruct H as [H|H]; [left; exact H|right].
      assert (U (i + q + 1) <= U (i + S q + 1)) by (apply U_mono; lia). lra.
Qed.

Lemma N_empty p i u : U i = U (i + p + 1) -> N p i u = 0.
Proof. intros H. apply N_support. destruct (Rlt_dec u (U i)); [left; auto|right; lra]. Qed.
End CdB.

Section Wform.
Variable V : nat -> R.
Hypothesis Vsorted : forall i, V i <= V (S i).
Definition Wq (q j : nat) (u : R) : R := (u - V j) / (V (j + q + 1) - V j).

Lemma N_rec_W q i u :
  N V (S q) i u = Wq q i u * N V q i u + (1 - Wq q (S i) u) * N V q (S i) u.
Proof.
  cbn [N]. unfold Wq.
  replace (i + S q)%nat with (i + q + 1)%nat by lia.
  replace (i + q + 1 + 1)%nat with (S i + q + 1)%nat by lia.
  f_equal.
  destruct (Req_dec (V (S i + q + 1) - V (S i)) 0) as [Hz|Hz].
  - rewrite (N_empty V Vsorted q (S i) u) by lra. lra.
  - f_equal. field. exact Hz.
Qed.
End Wform.

Section Boehm.
Variable U : nat -> R.
Hypothesis Usorted : forall i, U i <= U (S i).
Variables (k : nat) (t : R).
Hypothesis Ht : U k <= t < U (S k).

Definition Ub (i : nat) : R := if (i <=? k)%nat then U i else if (i =? S k)%nat then t else U (pred i).

Lemma Ub_le i : (i <= k)%nat -> Ub i = U i.
Proof. intros. unfold Ub. destruct (Nat.leb_spec i k); [reflexivity|lia]. Qed.
Lemma Ub_mid : Ub (S k) = t.
Proof. unfold Ub. destruct (Nat.leb_spec (S k) k); [lia|]. rewrite Nat.eqb_refl. reflexivity. Qed.
Lemma Ub_gt i : (S k < i)%nat -> Ub i = U (pred i).
Proof. intros. unfold Ub. destruct (Nat.leb_spec i k); [lia|]. destruct (Nat.eqb_spec i (S k)); [lia|reflexivity]. Qed.

Lemma Ub_sorted : forall i, Ub i <= Ub (S i).
Proof.
  intros i. destruct (lt_eq_lt_dec i k) as [[H|H]|H].
  - rewrite !Ub_le by lia. apply Usorted.
  - subst i. rewrite Ub_le by lia. rewrite Ub_mid. lra.
  - destruct (Nat.eq_dec i (S k)) as [E|E].
    + subst i. rewrite Ub_mid, Ub_gt by lia. simpl. lra.
    + rewrite !Ub_gt by lia. replace (pred (S i)) with (S (pred i)) by lia. apply Usorted.
Qed.

Definition alpha (p i : nat) : R :=
  if (i + p <=? k)%nat then 1 else if (k <? i)%nat then 0 else (t - U i) / (U (i + p) - U i).

Lemma alpha_one p i : (i + p <= k)%nat -> alpha p i = 1.
Proof. intros. unfold alpha. destruct (Nat.leb_spec (i+p) k); [reflexivity|lia]. Qed.
Lemma alpha_zero p i : (k < i)%nat -> alpha p i = 0.
Proof. intros. unfold alpha. destruct (Nat.leb_spec (i+p) k); [lia|]. destruct (Nat.ltb_spec k i); [reflexivity|lia]. Qed.
Lemma alpha_frac p i : (i <= k < i + p)%nat -> alpha p i = (t - U i) / (U (i + p) - U i).
Proof. intros. unfold alpha. destruct (Nat.leb_spec (i+p) k); [lia|]. destruct (Nat.ltb_spec k i); [lia|reflexivity]. Qed.

Lemma Um i j : (i <= j)%nat -> U i <= U j.
Proof. apply U_mono; exact Usorted. Qed.

Notation Nb := (N Ub).
Notation Wb := (Wq Ub).
Notation W := (Wq U).

(* coefficient lemmas, in product form *)
Lemma LemA q j u : (W q j u * alpha q j) * Nb q j u = (alpha (S q) j * Wb q j u) * Nb q j u.
Proof.
  destruct (le_lt_dec (j + q + 1) k) as [H1|H1].
  - rewrite !alpha_one by lia. unfold Wq. rewrite !Ub_le by lia. ring.
  - destruct (le_lt_dec j k) as [H2|H2].
    + destruct (Nat.eq_dec (j + q) k) as [H3|H3].
      * (* j+q = k *)
        rewrite alpha_one by lia. rewrite alpha_frac by lia.
        unfold Wq. rewrite Ub_le by lia. replace (j + q + 1)%nat with (S k) by lia.
        replace (j + S q)%nat with (S k) by lia. rewrite Ub_mid.
        pose proof (Um j k ltac:(lia)).
        destruct (Req_dec (t - U j) 0) as [Hz|Hz].
        -- rewrite (N_empty Ub Ub_sorted q j u).
           ++ ring.
           ++ rewrite Ub_le by lia. replace (j + q + 1)%nat with (S k) by lia. rewrite Ub_mid. lra.
        -- field. split; lra.
      * (* j <= k < j+q *)
        rewrite !alpha_frac by lia. unfold Wq. rewrite Ub_le by lia.
        rewrite Ub_gt by lia. replace (pred (j + q + 1)) with (j + q)%nat by lia.
        replace (j + S q)%nat with (j + q + 1)%nat by lia.
        pose proof (Um j k ltac:(lia)). pose proof (Um (S k) (j+q) ltac:(lia)). pose proof (Um (j+q) (j+q+1) ltac:(lia)).
        field. split; lra.
    + rewrite !alpha_zero by lia. ring.
Qed.

Lemma LemC q j u : ((1 - W q j u) * (1 - alpha q (S j))) * Nb q (S j) u
                 = ((1 - alpha (S q) j) * (1 - Wb q (S j) u)) * Nb q (S j) u.
Proof.
  destruct (le_lt_dec (j + q + 1) k) as [H1|H1].
  - rewrite !alpha_one by lia. ring.
  - destruct (le_lt_dec j k) as [H2|H2].
    + destruct (Nat.eq_dec (j + q) k) as [H3|H3].
      * (* j+q = k *)
        rewrite (alpha_frac (S q) j) by lia. replace (j + S q)%nat with (S k) by lia.
        unfold Wq. replace (j + q + 1)%nat with (S k) by lia.
        replace (S j + q + 1)%nat with (S (S k)) by lia. rewrite (Ub_gt (S (S k))) by lia. cbn [pred].
        pose proof (Um j k ltac:(lia)).
        destruct q as [|q'].
        -- (* q = 0, j = k *)
           assert (j = k) by lia. subst j. rewrite alpha_zero by lia. rewrite Ub_mid.
           field. split; lra.
        -- rewrite alpha_frac by lia. rewrite Ub_le by lia.
           replace (S j + S q')%nat with (S k) by lia.
           pose proof (Um (S j) k ltac:(lia)).
           field. split; lra.
      * (* j <= k < j+q *)
        rewrite (alpha_frac (S q) j) by lia. replace (j + S q)%nat with (j + q + 1)%nat by lia.
        unfold Wq. replace (S j + q + 1)%nat with (S (j + q + 1)) by lia.
        rewrite (Ub_gt (S (j+q+1))) by lia. cbn [pred].
        pose proof (Um j k ltac:(lia)). pose proof (Um (S k) (j+q+1) ltac:(lia)).
        destruct (Nat.eq_dec j k) as [E|E].
        -- subst j. rewrite alpha_zero by lia. rewrite Ub_mid. field. split; lra.
        -- rewrite alpha_frac by lia. rewrite Ub_le by lia. replace (S j + q)%nat with (j + q + 1)%nat by lia.
           pose proof (Um (S j) k ltac:(lia)). field. split; lra.
    + rewrite !alpha_zero by lia. unfold Wq. rewrite !Ub_gt by lia. cbn [pred].
      replace (pred (S j + q + 1)) with (j + q + 1)%nat by lia. ring.
Qed.

Lemma LemB q i u :
  (W q i u * (1 - alpha q (S i)) + (1 - W q (S i) u) * alpha q (S i)) * Nb q (S i) u
  = (alpha (S q) i * (1 - Wb q (S i) u) + (1 - alpha (S q) (S i)) * Wb q (S i) u) * Nb q (S i) u.
Proof.
  set (j := S i).
  destruct (le_lt_dec (j + q + 1) k) as [H1|H1].
  - rewrite !alpha_one by lia. unfold Wq. rewrite !Ub_le by lia. ring.
  - destruct (le_lt_dec j k) as [H2|H2].
    + destruct (Nat.eq_dec (j + q) k) as [H3|H3].
      * (* j+q = k *)
        rewrite (alpha_one q j) by lia. rewrite (alpha_one (S q) i) by lia.
        rewrite (alpha_frac (S q) j) by lia. replace (j + S q)%nat with (S k) by lia.
        replace (W q i u * (1 - 1)) with 0 by ring.
        unfold Wq. rewrite (Ub_le j) by lia. replace (j + q + 1)%nat with (S k) by lia. rewrite Ub_mid.
        pose proof (Um j k ltac:(lia)).
        destruct (Req_dec (t - U j) 0) as [Hz|Hz].
        -- rewrite (N_empty Ub Ub_sorted q j u).
           ++ ring.
           ++ rewrite Ub_le by lia. replace (j + q + 1)%nat with (S k) by lia. rewrite Ub_mid. lra.
        -- field. split; lra.
      * (* j <= k < j+q *)
        rewrite (alpha_frac q j) by lia. rewrite (alpha_frac (S q) i) by lia. rewrite (alpha_frac (S q) j) by lia.
        unfold Wq. rewrite (Ub_le j) by lia. rewrite (Ub_gt (j+q+1)) by lia.
        replace (pred (j + q + 1)) with (j + q)%nat by lia.
        replace (i + S q)%nat with (j + q)%nat by lia. replace (i + q + 1)%nat with (j + q)%nat by lia.
        replace (j + S q)%nat with (j + q + 1)%nat by lia.
        pose proof (Um i j ltac:(lia)). pose proof (Um j k ltac:(lia)). pose proof (Um (S k) (j+q) ltac:(lia)). pose proof (Um (j+q) (j+q+1) ltac:(lia)).
        field. repeat split; lra.
    + destruct (Nat.eq_dec j (S k)) as [E|E].
      * (* i = k *)
        assert (i = k) by lia. subst i.
        rewrite (alpha_zero q j) by lia. rewrite (alpha_zero (S q) j) by lia. rewrite (alpha_frac (S q) k) by lia.
        replace (W q k u * (1 - 0) + (1 - W q j u) * 0) with (W q k u) by ring.
        unfold Wq. replace j with (S k) by lia. rewrite Ub_mid. rewrite (Ub_gt (S k + q + 1)) by lia.
        replace (pred (S k + q + 1)) with (k + q + 1)%nat by lia. replace (k + S q)%nat with (k + q + 1)%nat by lia.
        pose proof (Um (S k) (k+q+1) ltac:(lia)).
        field. split; lra.
      * rewrite (alpha_zero q j) by lia. rewrite (alpha_zero (S q) j) by lia. rewrite (alpha_zero (S q) i) by lia.
        unfold Wq. rewrite !Ub_gt by lia. subst j. cbn [pred]. replace (pred (S i + q + 1)) with (i + q + 1)%nat by lia. ring.
Qed.

Theorem Boehm p : forall i u,
  N U p i u = alpha p i * Nb p i u + (1 - alpha p (S i)) * Nb p (S i) u.
Proof.
  induction p as [|q IH]; intros i u.
  - cbn [N].
    destruct (lt_eq_lt_dec i k) as [[H|H]|H].
    + rewrite !alpha_one by lia. rewrite !Ub_le by lia. ring.
    + subst i. rewrite alpha_one by lia. rewrite alpha_zero by lia.
      rewrite Ub_le by lia. rewrite Ub_mid. rewrite Ub_gt by lia. cbn [pred].
      unfold ind. destruct (Rle_dec (U k) u); destruct (Rlt_dec u t); destruct (Rle_dec t u); destruct (Rlt_dec u (U (S k))); lra.
    + rewrite !alpha_zero by lia. rewrite (Ub_gt (S i)), (Ub_gt (S (S i))) by lia. cbn [pred]. ring.
  - rewrite (N_rec_W U Usorted). rewrite (IH i u), (IH (S i) u).
    rewrite !(N_rec_W Ub Ub_sorted).
    pose proof (LemA q i u) as EA. pose proof (LemB q i u) as EB. pose proof (LemC q (S i) u) as EC.
    lra.
Qed.
End Boehm.

Section CurveLevel.
Variable U : nat -> R.
Hypothesis Usorted : forall i, U i <= U (S i).
Variables (k : nat) (t : R).
Hypothesis Ht : U k <= t < U (S k).
Notation Ub := (Ub U k t).
Notation alpha := (alpha U k t).

Fixpoint sumf (f : nat -> R) (n : nat) : R := match n with O => 0 | S m => sumf f m + f m end.

Lemma sumf_ext f g n : (forall i, (i < n)%nat -> f i = g i) -> sumf f n = sumf g n.
Proof. induction n; intros H; cbn; [reflexivity|]. rewrite IHn, H by (intros; auto; lia). reflexivity. Qed.

Lemma sumf_shift (a b : nat -> R) n :
  sumf (fun i => a i + b (S i)) n = sumf (fun i => a i + b i) (S n) - a n - b O.
Proof. induction n; cbn in *; [lra|]. rewrite IHn. cbn. lra. Qed.

(* scalar control values; vectors follow coordinate-wise *)
Theorem insert1_preserves_curve p n (P : nat -> R) u :
  (p <= k)%nat -> (k < n)%nat ->
  let Q := fun i => alpha p i * P i + (1 - alpha p i) * P (pred i) in
  sumf (fun i => N U p i u * P i) n = sumf (fun i => N Ub p i u * Q i) (S n).
Proof.
  intros Hp Hn Q.
  rewrite (sumf_ext _ (fun i => (alpha p i * N Ub p i u * P i) + ((1 - alpha p (S i)) * N Ub p (S i) u * P (pred (S i))))).
  2:{ intros i _. rewrite (Boehm U Usorted k t Ht p i u). cbn [pred]. ring. }
  rewrite (sumf_shift (fun i => alpha p i * N Ub p i u * P i) (fun j => (1 - alpha p j) * N Ub p j u * P (pred j))).
  rewrite (alpha_zero U k t p n) by lia. rewrite (alpha_one U k t p 0) by lia.
  replace (0 * N Ub p n u * P n) with 0 by ring. replace ((1 - 1) * N Ub p 0 u * P (pred 0)) with 0 by ring.
  rewrite !Rminus_0_r. apply sumf_ext. intros i _. subst Q. cbn beta. ring.
Qed.
End CurveLevel.
