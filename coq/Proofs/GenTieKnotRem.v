(* Tie: generated helpers.knot_removal_kv = Model/KnotRem.v knot_removal_kv, for every scalar instance. *)
From Coq Require Import List ZArith Arith Bool Lia QArith.
From NV Require Import Scalar.Ops Model.Common Model.KnotRem Gen.Prelude Gen.Helpers Proofs.GenTieLib.
Import ListNotations.
Local Open Scope nat_scope.

Section Tie.
Context {T : Type} (K : ops T).
Notation "0" := (o0 K).

(* wf: span + 1 <= len(knotvector) and, when knots are removed (r >= 1), r <= span + 1 (k - r would wrap around) *)
Theorem knot_removal_kv_tie (U : list T) (span r : nat) :
  S span <= length U -> r <= S span ->
  Helpers.knot_removal_kv K U (Z.of_nat span) (Z.of_nat r) = GOk (KnotRem.knot_removal_kv U span r).
Proof.
  intros Hs Hr. unfold Helpers.knot_removal_kv, KnotRem.knot_removal_kv.
  destruct (Z.ltb_spec (Z.of_nat r) 1); destruct (Nat.ltb_spec r 1); try lia; [reflexivity|].
  unfold zlen. set (n := length U) in *.
  replace (Z.of_nat span + 1)%Z with (Z.of_nat (S span)) by lia. rewrite zrange_nat.
  match goal with |- context [gfor (map Z.of_nat (seq (S span) (n - S span))) ?ff U] =>
    destruct (gfor_seq_inv (fun kp (kv : list T) => length kv = n
                  /\ (forall j, j < S span - r -> nth j kv 0 = nth j U 0)
                  /\ (forall k, S span <= k < kp -> nth (k - r) kv 0 = nth k U 0)) ff (n - S span) (S span))
      with (s := U) as (kv & E & Lkv & Hlo & Hhi)
  end.
  { intros k kv Hk (Lk & Hl & Hh). cbn [gbind].
    rewrite (znth_Z U _ 0) by (fold n; lia). cbn [gbind]. rewrite Nat2Z.id.
    rewrite zset_Z by lia. cbn [gbind]. replace (Z.to_nat (Z.of_nat k - Z.of_nat r)) with (k - r) by lia.
    eexists. split; [reflexivity|]. rewrite upd_length. split; auto. split.
    - intros j Hj. rewrite nth_upd_other by lia. auto.
    - intros k' Hk'. rewrite nth_upd. destruct (Nat.eqb_spec (k - r) (k' - r)) as [E|Hne].
      + replace k' with k by lia. destruct (Nat.ltb_spec (k - r) (length kv)); [reflexivity|lia].
      + apply Hh. lia. }
  { split; auto. split; auto. intros k Hk. lia. }
  rewrite E. cbn [gbind]. f_equal.
  replace (S span + (n - S span)) with n in Hhi by lia.
  unfold zslice, zclamp. rewrite Lkv.
  destruct (Z.ltb_spec 0 0); [lia|]. destruct (Z.ltb_spec (- Z.of_nat r) 0); [|lia].
  change (Z.to_nat 0) with O. rewrite Nat.min_0_r. change (skipn O kv) with kv.
  replace (Z.to_nat (Z.max 0 (Z.of_nat n + - Z.of_nat r)) - O) with (n - r) by lia.
  apply nth_ext with (d := 0) (d' := 0).
  - rewrite app_length, !firstn_length, skipn_length, Lkv. fold n. lia.
  - intros j Hj. rewrite firstn_length, Lkv in Hj. rewrite nth_firstn_lt by lia.
    destruct (Nat.lt_ge_cases j (S span - r)).
    + rewrite app_nth1 by (rewrite firstn_length; fold n; lia). rewrite nth_firstn_lt by lia. apply Hlo. lia.
    + rewrite app_nth2 by (rewrite firstn_length; fold n; lia). rewrite firstn_length. fold n.
      replace (Nat.min (S span - r) n) with (S span - r) by lia. rewrite nth_skipn_add.
      replace j with ((j + r) - r) at 1 by lia. rewrite Hhi by lia. f_equal. lia.
Qed.
End Tie.

Definition knot_removal_kv_tie_R := @knot_removal_kv_tie _ Rops.
Definition knot_removal_kv_tie_Q := @knot_removal_kv_tie _ Qops.

Local Open Scope Q_scope.
Example knot_removal_kv_ex :
  Helpers.knot_removal_kv Qops [0; 0; 0; 0; 1#4; 1#2; 1#2; 3#4; 1; 1; 1; 1] 6 1 = GOk [0; 0; 0; 0; 1#4; 1#2; 3#4; 1; 1; 1; 1]
  /\ KnotRem.knot_removal_kv [0; 0; 0; 0; 1#4; 1#2; 1#2; 3#4; 1; 1; 1; 1] 6 1 = [0; 0; 0; 0; 1#4; 1#2; 3#4; 1; 1; 1; 1]
  /\ Helpers.knot_removal_kv Qops [0; 0; 0; 0; 1#4; 1#2; 1#2; 3#4; 1; 1; 1; 1] 6 2 = GOk [0; 0; 0; 0; 1#4; 3#4; 1; 1; 1; 1]
  /\ Helpers.knot_removal_kv Qops [0; 0; 1; 1] 2 0 = GOk [0; 0; 1; 1].
Proof. repeat split; vm_compute; reflexivity. Qed.
