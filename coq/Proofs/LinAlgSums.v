(* Finite sums over index ranges (sumr) at the real instance, and list-indexing lemmas used by the
   linear-algebra proofs. *)
From Coq Require Import List Reals Lra Lia Arith Bool.
From NV Require Import Scalar.Ops Model.Common Model.LinAlg.
Import ListNotations.
Open Scope R_scope.

Notation sumR := (sumr Rops).
Notation g2 := (get2 Rops).

Lemma sumT_app (a b : list R) : sumT Rops (a ++ b) = sumT Rops a + sumT Rops b.
Proof. induction a as [|x a IH]; cbn [app sumT]; rsimp; [lra|rewrite IH; lra]. Qed.

Lemma sumr_0 a f : sumR a 0 f = 0.
Proof. reflexivity. Qed.
Lemma sumr_cons a n f : sumR a (S n) f = f a + sumR (S a) n f.
Proof. reflexivity. Qed.
Lemma sumr_S a n f : sumR a (S n) f = sumR a n f + f (a + n)%nat.
Proof.
  unfold sumr. rewrite seq_S, map_app, sumT_app. cbn [map sumT]. rsimp. lra.
Qed.
Lemma sumr_ext a n f g : (forall i, (a <= i < a + n)%nat -> f i = g i) -> sumR a n f = sumR a n g.
Proof.
  revert a. induction n as [|n IH]; intros a H; [reflexivity|].
  rewrite !sumr_cons. rewrite (H a) by lia. rewrite (IH (S a)); [reflexivity|]. intros i Hi. apply H. lia.
Qed.
Lemma sumr_zero a n f : (forall i, (a <= i < a + n)%nat -> f i = 0) -> sumR a n f = 0.
Proof.
  revert a. induction n as [|n IH]; intros a H; [reflexivity|].
  rewrite sumr_cons, (H a) by lia. rewrite IH; [lra|]. intros i Hi. apply H. lia.
Qed.
Lemma sumr_split a n m f : sumR a (n + m) f = sumR a n f + sumR (a + n) m f.
Proof.
  revert a. induction n as [|n IH]; intros a.
  - cbn [Nat.add]. rewrite sumr_0, Nat.add_0_r. lra.
  - cbn [Nat.add]. rewrite !sumr_cons, IH. replace (S a + n)%nat with (a + S n)%nat by lia. lra.
Qed.
Lemma sumr_plus a n f g : sumR a n (fun i => f i + g i) = sumR a n f + sumR a n g.
Proof. revert a. induction n as [|n IH]; intros a; [rewrite !sumr_0; lra|]. rewrite !sumr_cons, IH. lra. Qed.
Lemma sumr_minus a n f g : sumR a n (fun i => f i - g i) = sumR a n f - sumR a n g.
Proof. revert a. induction n as [|n IH]; intros a; [rewrite !sumr_0; lra|]. rewrite !sumr_cons, IH. lra. Qed.
Lemma sumr_scale a n c f : sumR a n (fun i => c * f i) = c * sumR a n f.
Proof. revert a. induction n as [|n IH]; intros a; [rewrite !sumr_0; lra|]. rewrite !sumr_cons, IH. lra. Qed.
Lemma sumr_scale_r a n c f : sumR a n (fun i => f i * c) = sumR a n f * c.
Proof. revert a. induction n as [|n IH]; intros a; [rewrite !sumr_0; lra|]. rewrite !sumr_cons, IH. lra. Qed.
Lemma sumr_shift a n f : sumR (S a) n f = sumR a n (fun i => f (S i)).
Proof. unfold sumr. rewrite <- seq_shift, map_map. reflexivity. Qed.
Lemma sumr_shift0 a n f : sumR a n f = sumR 0 n (fun i => f (a + i)%nat).
Proof.
  revert f. induction a as [|a IH]; intros f; [reflexivity|].
  rewrite sumr_shift, IH. apply sumr_ext. intros i _. f_equal.
Qed.
(* only index k contributes *)
Lemma sumr_single a n k f : (a <= k < a + n)%nat -> (forall i, (a <= i < a + n)%nat -> i <> k -> f i = 0) -> sumR a n f = f k.
Proof.
  intros Hk H. replace n with ((k - a) + S (a + n - S k))%nat by lia.
  rewrite sumr_split, sumr_cons. replace (a + (k - a))%nat with k by lia.
  rewrite !sumr_zero; [lra| |]; intros i Hi; apply H; lia.
Qed.
Lemma sumr_swap a n b m (f : nat -> nat -> R) :
  sumR a n (fun i => sumR b m (fun j => f i j)) = sumR b m (fun j => sumR a n (fun i => f i j)).
Proof.
  revert a. induction n as [|n IH]; intros a.
  - rewrite sumr_0. symmetry. apply sumr_zero. intros; apply sumr_0.
  - rewrite sumr_cons, IH, <- sumr_plus. apply sumr_ext. intros j _. rewrite sumr_cons. reflexivity.
Qed.
Lemma sumr_nonneg a n f : (forall i, (a <= i < a + n)%nat -> 0 <= f i) -> 0 <= sumR a n f.
Proof.
  revert a. induction n as [|n IH]; intros a H; [rewrite sumr_0; lra|].
  rewrite sumr_cons. assert (0 <= f a) by (apply H; lia). assert (0 <= sumR (S a) n f) by (apply IH; intros; apply H; lia). lra.
Qed.

(* ---- list indexing ---- *)
Lemma nth_map_seq {A} (f : nat -> A) a n i d : (i < n)%nat -> nth i (map f (seq a n)) d = f (a + i)%nat.
Proof.
  intros H. rewrite (nth_indep _ d (f 0%nat)) by (rewrite map_length, seq_length; exact H).
  rewrite (map_nth f (seq a n) 0%nat i). rewrite seq_nth by exact H. reflexivity.
Qed.
Lemma nth_map' {A B} (f : A -> B) (l : list A) i d d' : (i < length l)%nat -> nth i (map f l) d = f (nth i l d').
Proof.
  intros H. rewrite (nth_indep _ d (f d')) by (rewrite map_length; exact H). apply map_nth.
Qed.
Lemma nth_map_seq_out {A} (f : nat -> A) a n i d : (n <= i)%nat -> nth i (map f (seq a n)) d = d.
Proof. intros H. apply nth_overflow. rewrite map_length, seq_length. exact H. Qed.
Lemma map_nth_seq {A} (l : list A) d : map (fun i => nth i l d) (seq 0 (length l)) = l.
Proof.
  apply (nth_ext _ _ d d); [rewrite map_length, seq_length; reflexivity|].
  intros i Hi. rewrite map_length, seq_length in Hi. rewrite nth_map_seq by exact Hi. reflexivity.
Qed.
Lemma length_upd {A} (l : list A) i x : length (upd l i x) = length l.
Proof. revert i. induction l as [|y l IH]; intros [|i]; cbn; auto. Qed.
Lemma nth_upd {A} (l : list A) k x i d :
  nth i (upd l k x) d = if andb (Nat.eqb i k) (Nat.ltb k (length l)) then x else nth i l d.
Proof.
  revert k i. induction l as [|y l IH]; intros k i.
  - cbn [upd length]. rewrite Bool.andb_false_r. reflexivity.
  - destruct k as [|k]; destruct i as [|i]; cbn [upd nth length]; try reflexivity.
    rewrite IH. replace (S k <? S (length l))%nat with (k <? length l)%nat by reflexivity. reflexivity.
Qed.
Lemma nth_swap {A} (d : A) (l : list A) a b i : (a < length l)%nat -> (b < length l)%nat ->
  nth i (swap d l a b) d = if Nat.eqb i b then nth a l d else if Nat.eqb i a then nth b l d else nth i l d.
Proof.
  intros Ha Hb. unfold swap. rewrite nth_upd, length_upd, nth_upd.
  apply Nat.ltb_lt in Ha, Hb. rewrite Ha, Hb, !Bool.andb_true_r. reflexivity.
Qed.
Lemma length_swap {A} (d : A) (l : list A) a b : length (swap d l a b) = length l.
Proof. unfold swap. rewrite !length_upd. reflexivity. Qed.

Lemma isz_R x : isz Rops x = true <-> x = 0.
Proof.
  unfold isz, oeqb. rsimp. unfold Rleb. destruct (Rle_dec x 0), (Rle_dec 0 x); cbn; split; intros; try discriminate; try lra; auto.
Qed.
Lemma isz_false x : x <> 0 -> isz Rops x = false.
Proof. intros H. destruct (isz Rops x) eqn:E; [apply isz_R in E; contradiction|reflexivity]. Qed.
Lemma isz_0 : isz Rops 0 = true.
Proof. apply isz_R. reflexivity. Qed.

Lemma get2_map_seq (f : nat -> nat -> R) r c i j : (i < r)%nat -> (j < c)%nat ->
  g2 (map (fun i => map (fun j => f i j) (seq 0 c)) (seq 0 r)) i j = f i j.
Proof.
  intros Hi Hj. unfold get2. rewrite (nth_map_seq (fun i => map (fun j => f i j) (seq 0 c))) by exact Hi.
  rewrite (nth_map_seq (f (0 + i)%nat)) by exact Hj. reflexivity.
Qed.
