(* Theorems about Model.LinAlg at the real instance: helpers equal their definitions, Doolittle's
   factorisation L*U = A (all sizes), forward/backward substitution, lu_solve. *)
From Coq Require Import List Reals Lra Lia Arith Bool NArith.
From NV Require Import Scalar.Ops Model.Common Model.Knots Model.LinAlg Proofs.LinAlgSums.
Import ListNotations.
Open Scope R_scope.

(* ------------------------------------------------------------------ vector helpers *)
Lemma vdot_sum : forall a b : list R,
  vdot Rops a b = sumR 0 (Nat.min (length a) (length b)) (fun i => nth i a 0 * nth i b 0).
Proof.
  induction a as [|x a IH]; intros [|y b]; try reflexivity.
  cbn [length Nat.min]. rewrite sumr_cons, sumr_shift. cbn [nth].
  unfold vdot in *. cbn [combine map sumT fst snd]. rsimp. rewrite IH. reflexivity.
Qed.
Theorem vector_dot_spec a b : a <> [] -> b <> [] ->
  vector_dot Rops a b = Ok (sumR 0 (Nat.min (length a) (length b)) (fun i => nth i a 0 * nth i b 0)).
Proof. intros Ha Hb. unfold vector_dot. destruct a, b; try contradiction. cbn [isnil orb]. rewrite vdot_sum. reflexivity. Qed.

Definition cross3 (a b : list R) : list R :=
  [nth 1 a 0 * nth 2 b 0 - nth 2 a 0 * nth 1 b 0; nth 2 a 0 * nth 0 b 0 - nth 0 a 0 * nth 2 b 0; nth 0 a 0 * nth 1 b 0 - nth 1 a 0 * nth 0 b 0].
Theorem vector_cross_spec a0 a1 a2 b0 b1 b2 :
  let a := [a0; a1; a2] in let b := [b0; b1; b2] in
  vector_cross Rops a b = Ok (cross3 a b) /\
  vdot Rops a (cross3 a b) = 0 /\ vdot Rops b (cross3 a b) = 0 /\
  vdot Rops (cross3 a b) (cross3 a b) = vdot Rops a a * vdot Rops b b - vdot Rops a b * vdot Rops a b.
Proof.
  cbv zeta. split; [reflexivity|]. unfold vdot, cross3. cbn [combine map sumT fst snd nth]. rsimp. repeat split; ring.
Qed.
Theorem vector_cross_2d a0 a1 b0 b1 :
  vector_cross Rops [a0; a1] [b0; b1] = Ok [0; 0; a0 * b1 - a1 * b0].
Proof. unfold vector_cross. cbn [isnil orb pad3]. rsimp. f_equal. f_equal; [ring|f_equal; ring]. Qed.

Theorem vector_norm2_spec v : vector_norm2 Rops v = sumR 0 (length v) (fun i => nth i v 0 * nth i v 0) /\ 0 <= vector_norm2 Rops v.
Proof.
  unfold vector_norm2. rewrite vdot_sum, Nat.min_id. split; [reflexivity|].
  apply sumr_nonneg. intros i _. nra.
Qed.
Theorem vector_normalize_spec v : v <> [] ->
  (0 < vector_norm2 Rops v -> vector_normalize Rops v = Ok (v, vector_norm2 Rops v)) /\
  (vector_norm2 Rops v = 0 -> vector_normalize Rops v = Rejected).
Proof.
  intros Hv. unfold vector_normalize. destruct v; [contradiction|]. cbn [isnil]. rsimp. unfold Rltb.
  split; intros H; destruct (Rlt_dec _ _); try reflexivity; lra.
Qed.

(* ------------------------------------------------------------------ matrix helpers *)
Definition rect (r c : nat) (m : list (list R)) : Prop := length m = r /\ forall row, In row m -> length row = c.
Lemma rect_nth r c m i : rect r c m -> (i < r)%nat -> length (nth i m []) = c.
Proof. intros [H1 H2] Hi. apply H2, nth_In. lia. Qed.
Lemma rect_hd r c m : rect r c m -> (0 < r)%nat -> length (hd [] m) = c.
Proof. intros [H1 H2] Hr. destruct m; [cbn in H1; lia|]. apply H2. left. reflexivity. Qed.

Theorem transpose_entry r c m i j : rect r c m -> (0 < r)%nat -> (i < c)%nat -> (j < r)%nat ->
  g2 (transpose Rops m) i j = g2 m j i.
Proof.
  intros Hm Hr Hi Hj. unfold transpose. rewrite (rect_hd r c m Hm Hr). unfold get2.
  rewrite nth_map_seq by exact Hi. destruct Hm as [H1 _]. rewrite (nth_map' _ m j _ []) by lia. reflexivity.
Qed.
Lemma transpose_rect r c m : rect r c m -> (0 < r)%nat -> rect c r (transpose Rops m).
Proof.
  intros Hm Hr. unfold transpose. rewrite (rect_hd r c m Hm Hr). split; [rewrite map_length, seq_length; reflexivity|].
  intros row Hin. apply in_map_iff in Hin. destruct Hin as [i [<- _]]. rewrite map_length. apply Hm.
Qed.
Lemma mat_ext r c (m m' : list (list R)) : rect r c m -> rect r c m' ->
  (forall i j, (i < r)%nat -> (j < c)%nat -> g2 m i j = g2 m' i j) -> m = m'.
Proof.
  intros Hm Hm' H. apply (nth_ext _ _ [] []); [destruct Hm, Hm'; lia|].
  intros i Hi. assert (Hi' : (i < r)%nat) by (destruct Hm; lia).
  apply (nth_ext _ _ 0 0); [rewrite (rect_nth r c m), (rect_nth r c m'); auto|].
  intros j Hj. rewrite (rect_nth r c m) in Hj by auto. apply H; assumption.
Qed.
Theorem transpose_involutive r c m : rect r c m -> (0 < r)%nat -> (0 < c)%nat ->
  transpose Rops (transpose Rops m) = m.
Proof.
  intros Hm Hr Hc. apply (mat_ext r c); [apply transpose_rect; [apply transpose_rect|]; assumption|assumption|].
  intros i j Hi Hj. rewrite (transpose_entry c r) by (try apply transpose_rect; assumption).
  apply (transpose_entry r c); assumption.
Qed.

Theorem mmul_entry a b i j : (i < length a)%nat -> (j < length (hd [] b))%nat ->
  g2 (mmul Rops a b) i j = sumR 0 (length b) (fun k => g2 a i k * g2 b k j).
Proof.
  intros Hi Hj. unfold mmul, get2.
  rewrite (nth_map' _ a i _ []) by exact Hi. rewrite nth_map_seq by exact Hj. reflexivity.
Qed.
Lemma mmul_rect a b : rect (length a) (length (hd [] b)) (mmul Rops a b).
Proof.
  unfold mmul. split; [apply map_length|]. intros row Hin. apply in_map_iff in Hin. destruct Hin as [ra [<- _]].
  rewrite map_length, seq_length. reflexivity.
Qed.
Theorem mvmul_entry a v i : (i < length a)%nat ->
  nth i (mvmul Rops a v) 0 = sumR 0 (length v) (fun k => g2 a i k * nth k v 0).
Proof.
  intros Hi. unfold mvmul, get2. rewrite (nth_map' _ a i _ []) by exact Hi. reflexivity.
Qed.
Theorem matrix_multiply_spec a b r0 : hd [] a = r0 -> a <> [] -> b <> [] -> length r0 = length b ->
  matrix_multiply Rops a b = Ok (mmul Rops a b).
Proof.
  intros H Ha Hb HL. unfold matrix_multiply. destruct a as [|x a]; [contradiction|]. cbn [hd] in H. subst x.
  rewrite HL, Nat.eqb_refl. cbn [negb]. destruct b; [contradiction|reflexivity].
Qed.
Lemma identity_entry n i j : (i < n)%nat -> (j < n)%nat -> g2 (matrix_identity Rops n) i j = if Nat.eqb j i then 1 else 0.
Proof. intros Hi Hj. unfold matrix_identity. rewrite (get2_map_seq (fun j i => if Nat.eqb i j then 1 else 0)) by assumption. reflexivity. Qed.
Lemma identity_rect n : rect n n (matrix_identity Rops n).
Proof.
  unfold matrix_identity. split; [rewrite map_length, seq_length; reflexivity|].
  intros row Hin. apply in_map_iff in Hin. destruct Hin as [i [<- _]]. rewrite map_length, seq_length. reflexivity.
Qed.

(* ------------------------------------------------------------------ binomial coefficient *)
Fixpoint chooseN (k i : nat) : N :=
  match i, k with
  | O, _ => 1%N
  | S _, O => 0%N
  | S i', S k' => (chooseN k' i' + chooseN k' i)%N
  end.
Lemma chooseN_gt k : forall i, (k < i)%nat -> chooseN k i = 0%N.
Proof.
  induction k as [|k IH]; intros [|i] H; try lia; [reflexivity|].
  cbn [chooseN]. rewrite !IH by lia. reflexivity.
Qed.
Lemma factN_pos n : (factN n <> 0)%N.
Proof. induction n as [|n IH]; cbn [factN]; [discriminate|]. apply N.neq_mul_0. split; [lia|exact IH]. Qed.
Lemma chooseN_fact k : forall i, (i <= k)%nat -> (chooseN k i * (factN (k - i) * factN i) = factN k)%N.
Proof.
  induction k as [|k IH]; intros i Hi.
  - replace i with O by lia. reflexivity.
  - destruct i as [|i]; [cbn [chooseN]; rewrite Nat.sub_0_r; cbn [factN]; lia|].
    cbn [chooseN]. destruct (Nat.eq_dec i k) as [->|Hne].
    + rewrite (chooseN_gt k (S k)) by lia. rewrite N.add_0_r. replace (S k - S k)%nat with O by lia.
      specialize (IH k (le_n k)). rewrite Nat.sub_diag in IH. cbn [factN] in *.
      transitivity (N.of_nat (S k) * (chooseN k k * (1 * factN k)))%N; [ring|rewrite IH; reflexivity].
    + assert (H1 := IH i ltac:(lia)). assert (H2 := IH (S i) ltac:(lia)).
      replace (S k - S i)%nat with (k - i)%nat by lia.
      replace (k - i)%nat with (S (k - S i)) in * by lia.
      set (a := chooseN k i) in *. set (b := chooseN k (S i)) in *.
      set (fi := factN i) in *. set (fd := factN (k - S i)) in *.
      assert (E1 : factN (S (k - S i)) = (N.of_nat (S (k - S i)) * fd)%N) by reflexivity.
      assert (E2 : factN (S i) = (N.of_nat (S i) * fi)%N) by reflexivity.
      assert (E3 : factN (S k) = (N.of_nat (S k) * factN k)%N) by reflexivity.
      rewrite E1 in *. rewrite E2 in *. rewrite E3.
      replace (N.of_nat (S k)) with (N.of_nat (S i) + N.of_nat (S (k - S i)))%N by lia.
      transitivity (N.of_nat (S i) * (a * (N.of_nat (S (k - S i)) * fd * fi)) + N.of_nat (S (k - S i)) * (b * (fd * (N.of_nat (S i) * fi))))%N; [ring|].
      rewrite H1, H2. ring.
Qed.
Theorem binomial_is_choose k i : binomial_coefficient k i = chooseN k i.
Proof.
  unfold binomial_coefficient. destruct (Nat.ltb_spec k i) as [H|H]; [symmetry; apply chooseN_gt; exact H|].
  rewrite <- (chooseN_fact k i H). apply N.div_mul. apply N.neq_mul_0. split; apply factN_pos.
Qed.
Theorem binomial_factorial k i : (i <= k)%nat ->
  (binomial_coefficient k i * (factN (k - i) * factN i) = factN k)%N.
Proof. intros H. rewrite binomial_is_choose. apply chooseN_fact, H. Qed.
Theorem binomial_pascal k i :
  binomial_coefficient (S k) (S i) = (binomial_coefficient k i + binomial_coefficient k (S i))%N.
Proof. rewrite !binomial_is_choose. reflexivity. Qed.
Theorem binomial_edges k : binomial_coefficient k 0 = 1%N /\ binomial_coefficient k k = 1%N /\ forall i, (k < i)%nat -> binomial_coefficient k i = 0%N.
Proof.
  repeat split.
  - rewrite binomial_is_choose. destruct k; reflexivity.
  - assert (H := binomial_factorial k k (le_n k)). rewrite Nat.sub_diag in H. cbn [factN] in H.
    rewrite N.mul_1_l in H. apply N.mul_cancel_r with (p := factN k); [apply factN_pos|]. lia.
  - intros i H. rewrite binomial_is_choose. apply chooseN_gt, H.
Qed.

(* ------------------------------------------------------------------ linspace *)
Lemma ofnat_INR n : ofnat Rops n = INR n.
Proof. induction n as [|n IH]; [reflexivity|]. cbn [ofnat]. rsimp. rewrite IH, S_INR. reflexivity. Qed.
Theorem linspace_spec tol start stop num : tol < Rabs (start - stop) -> (1 < num)%nat ->
  let l := linspace Rops tol start stop num in
  length l = num /\
  (forall i, (i < num)%nat -> nth i l 0 = start + INR i * (stop - start) / INR (num - 1)) /\
  nth 0 l 0 = start /\ nth (num - 1) l 0 = stop.
Proof.
  intros Htol Hnum. cbv zeta. unfold linspace. rsimp.
  assert (Habs : oabs Rops (start - stop) = Rabs (start - stop)).
  { unfold oabs, oneg. rsimp. unfold Rleb, Rabs. destruct (Rle_dec 0 (start - stop)), (Rcase_abs (start - stop)); lra. }
  rewrite Habs. unfold Rleb. destruct (Rle_dec _ _); [lra|].
  destruct (Nat.ltb_spec 1 num); [|lia].
  assert (Hentry : forall i, (i < num)%nat ->
     nth i (map (fun x => start + ofnat Rops x * (stop - start) / ofnat Rops (Nat.pred num)) (seq 0 num)) 0
     = start + INR i * (stop - start) / INR (num - 1)).
  { intros i Hi. rewrite (nth_map_seq (fun x => start + ofnat Rops x * (stop - start) / ofnat Rops (Nat.pred num))) by exact Hi.
    rewrite !ofnat_INR. replace (Nat.pred num) with (num - 1)%nat by lia. reflexivity. }
  assert (Hn1 : INR (num - 1) <> 0) by (apply not_0_INR; lia).
  repeat split.
  - rewrite map_length, seq_length. reflexivity.
  - exact Hentry.
  - rewrite Hentry by lia. cbn [INR]. field. exact Hn1.
  - rewrite Hentry by lia. field. exact Hn1.
Qed.

(* ------------------------------------------------------------------ Doolittle: L U = A *)
(* abstract form: entries defined by Doolittle's equations *)
Theorem LU_abstract (Lf Uf Af : nat -> nat -> R) (n : nat) :
  (forall i k, (i < n)%nat -> (k < n)%nat ->
     Uf i k = if Nat.ltb k i then 0 else Af i k - sumR 0 i (fun j => Lf i j * Uf j k)) ->
  (forall i k, (i < n)%nat -> (k < n)%nat ->
     Lf k i = if Nat.ltb k i then 0 else if Nat.eqb k i then 1 else (Af k i - sumR 0 i (fun j => Lf k j * Uf j i)) / Uf i i) ->
  (forall i, (i < n)%nat -> Uf i i <> 0) ->
  forall r c, (r < n)%nat -> (c < n)%nat -> sumR 0 n (fun j => Lf r j * Uf j c) = Af r c.
Proof.
  intros HU HL Hp r c Hr Hc. destruct (le_lt_dec r c) as [Hrc|Hrc].
  - replace n with (r + S (n - S r))%nat by lia. rewrite sumr_split, sumr_cons. cbn [Nat.add].
    rewrite (sumr_zero (S r)).
    2:{ intros j Hj. rewrite (HL j r) by lia. destruct (Nat.ltb_spec r j); [lra|lia]. }
    rewrite (HL r r) by lia. rewrite Nat.ltb_irrefl, Nat.eqb_refl.
    rewrite (HU r c) by lia. destruct (Nat.ltb_spec c r); [lia|]. lra.
  - replace n with (c + S (n - S c))%nat by lia. rewrite sumr_split, sumr_cons. cbn [Nat.add].
    rewrite (sumr_zero (S c)).
    2:{ intros j Hj. rewrite (HU j c) by lia. destruct (Nat.ltb_spec c j); [lra|lia]. }
    rewrite (HL c r) by lia. destruct (Nat.ltb_spec r c); [lia|]. destruct (Nat.eqb_spec r c); [lia|].
    assert (Hu := Hp c Hc). field. exact Hu.
Qed.

Section Doolittle.
Variable A : list (list R).
Let n := length A.
Definition urow_of (Lc Ur : list (list R)) (i : nat) : list R :=
  map (fun k => if Nat.ltb k i then 0 else g2 A i k - lu_sum Rops Lc Ur i i k) (seq 0 n).
Definition lcol_of (Lc Ur : list (list R)) (i : nat) (piv : R) : list R :=
  map (fun k => if Nat.ltb k i then 0 else if Nat.eqb k i then 1 else if isz Rops piv then 0
                else (g2 A k i - lu_sum Rops Lc Ur i k i) / piv) (seq 0 n).
Lemma step_eq Lc Ur i :
  doolittle_step Rops A n (Lc, Ur) i = (Lc ++ [lcol_of Lc Ur i (nth i (urow_of Lc Ur i) 0)], Ur ++ [urow_of Lc Ur i]).
Proof. reflexivity. Qed.
Lemma lu_sum_ext Lc Ur Lc' Ur' i r c :
  (forall j, (j < i)%nat -> nth j Lc [] = nth j Lc' []) -> (forall j, (j < i)%nat -> nth j Ur [] = nth j Ur' []) ->
  lu_sum Rops Lc Ur i r c = lu_sum Rops Lc' Ur' i r c.
Proof. intros H1 H2. unfold lu_sum. apply sumr_ext. intros j Hj. unfold get2. rewrite H1, H2 by lia. reflexivity. Qed.
Lemma urow_ext Lc Ur Lc' Ur' i :
  (forall j, (j < i)%nat -> nth j Lc [] = nth j Lc' []) -> (forall j, (j < i)%nat -> nth j Ur [] = nth j Ur' []) ->
  urow_of Lc Ur i = urow_of Lc' Ur' i.
Proof. intros H1 H2. unfold urow_of. apply map_ext. intros k. rewrite (lu_sum_ext Lc Ur Lc' Ur') by assumption. reflexivity. Qed.
Lemma lcol_ext Lc Ur Lc' Ur' i piv :
  (forall j, (j < i)%nat -> nth j Lc [] = nth j Lc' []) -> (forall j, (j < i)%nat -> nth j Ur [] = nth j Ur' []) ->
  lcol_of Lc Ur i piv = lcol_of Lc' Ur' i piv.
Proof. intros H1 H2. unfold lcol_of. apply map_ext. intros k. rewrite (lu_sum_ext Lc Ur Lc' Ur') by assumption. reflexivity. Qed.

Lemma doolittle_fold : forall len a Lc Ur, length Lc = a -> length Ur = a ->
  let st := fold_left (doolittle_step Rops A n) (seq a len) (Lc, Ur) in
  length (fst st) = (a + len)%nat /\ length (snd st) = (a + len)%nat /\
  (forall j, (j < a)%nat -> nth j (fst st) [] = nth j Lc []) /\
  (forall j, (j < a)%nat -> nth j (snd st) [] = nth j Ur []) /\
  (forall i, (a <= i < a + len)%nat ->
     nth i (snd st) [] = urow_of (fst st) (snd st) i /\
     nth i (fst st) [] = lcol_of (fst st) (snd st) i (nth i (nth i (snd st) []) 0)).
Proof.
  induction len as [|len IH]; intros a Lc Ur HLc HUr; cbv zeta.
  - cbn [seq fold_left fst snd]. repeat split; try lia; auto; intros; lia.
  - cbn [seq fold_left]. rewrite step_eq.
    set (ur := urow_of Lc Ur a). set (lc := lcol_of Lc Ur a (nth a ur 0)).
    specialize (IH (S a) (Lc ++ [lc]) (Ur ++ [ur])).
    rewrite !app_length in IH. cbn [length] in IH. specialize (IH ltac:(lia) ltac:(lia)). cbv zeta in IH.
    set (st := fold_left (doolittle_step Rops A n) (seq (S a) len) (Lc ++ [lc], Ur ++ [ur])) in *.
    destruct IH as (L1 & L2 & P1 & P2 & E).
    assert (Q1 : forall j, (j < a)%nat -> nth j (fst st) [] = nth j Lc []).
    { intros j Hj. rewrite P1 by lia. apply app_nth1. lia. }
    assert (Q2 : forall j, (j < a)%nat -> nth j (snd st) [] = nth j Ur []).
    { intros j Hj. rewrite P2 by lia. apply app_nth1. lia. }
    repeat split; try lia; auto.
    + destruct (Nat.eq_dec i a) as [->|Hne]; [|apply E; lia].
      rewrite P2 by lia. rewrite app_nth2 by lia. rewrite HUr, Nat.sub_diag. cbn [nth].
      apply urow_ext; intros j Hj; symmetry; auto.
    + destruct (Nat.eq_dec i a) as [->|Hne]; [|apply E; lia].
      rewrite P1, P2 by lia. rewrite !app_nth2 by lia. rewrite HUr, HLc, Nat.sub_diag. cbn [nth].
      apply lcol_ext; intros j Hj; symmetry; auto.
Qed.

Let Lc := fst (doolittle_cols Rops A).
Let Ur := snd (doolittle_cols Rops A).
Lemma doolittle_cols_spec :
  length Lc = n /\ length Ur = n /\
  forall i, (i < n)%nat -> nth i Ur [] = urow_of Lc Ur i /\ nth i Lc [] = lcol_of Lc Ur i (g2 Ur i i).
Proof.
  destruct (doolittle_fold n 0 [] [] eq_refl eq_refl) as (L1 & L2 & _ & _ & E).
  repeat split; try assumption; apply E; lia.
Qed.
Lemma U_entry i k : (i < n)%nat -> (k < n)%nat ->
  g2 Ur i k = if Nat.ltb k i then 0 else g2 A i k - sumR 0 i (fun j => g2 Lc j i * g2 Ur j k).
Proof.
  intros Hi Hk. destruct doolittle_cols_spec as (_ & _ & E). destruct (E i Hi) as [E1 _].
  unfold get2 at 1. rewrite E1. unfold urow_of.
  rewrite (nth_map_seq (fun k => if Nat.ltb k i then 0 else g2 A i k - lu_sum Rops Lc Ur i i k)) by exact Hk. reflexivity.
Qed.
Lemma L_entry i k : (i < n)%nat -> (k < n)%nat ->
  g2 Lc i k = if Nat.ltb k i then 0 else if Nat.eqb k i then 1 else if isz Rops (g2 Ur i i) then 0
              else (g2 A k i - sumR 0 i (fun j => g2 Lc j k * g2 Ur j i)) / g2 Ur i i.
Proof.
  intros Hi Hk. destruct doolittle_cols_spec as (_ & _ & E). destruct (E i Hi) as [_ E2].
  unfold get2 at 1. rewrite E2. unfold lcol_of.
  rewrite (nth_map_seq (fun k => if Nat.ltb k i then 0 else if Nat.eqb k i then 1 else if isz Rops (g2 Ur i i) then 0
     else (g2 A k i - lu_sum Rops Lc Ur i k i) / g2 Ur i i)) by exact Hk. reflexivity.
Qed.
Lemma Ur_rect : rect n n Ur.
Proof.
  destruct doolittle_cols_spec as (_ & HU & E). split; [exact HU|].
  intros row Hin. destruct (In_nth _ _ [] Hin) as [i [Hi <-]]. rewrite HU in Hi.
  destruct (E i Hi) as [E1 _]. rewrite E1. unfold urow_of. rewrite map_length, seq_length. reflexivity.
Qed.

Definition Lm := fst (doolittle Rops A).
Definition Um := snd (doolittle Rops A).
Lemma Um_eq : Um = Ur. Proof. reflexivity. Qed.
Lemma Lm_entry r c : (r < n)%nat -> (c < n)%nat -> g2 Lm r c = g2 Lc c r.
Proof. intros Hr Hc. unfold Lm, doolittle, cols_to_rows. cbn [fst]. apply (get2_map_seq (fun r j => g2 Lc j r)); assumption. Qed.
Lemma Lm_rect : rect n n Lm.
Proof.
  unfold Lm, doolittle, cols_to_rows. cbn [fst]. split; [rewrite map_length, seq_length; reflexivity|].
  intros row Hin. apply in_map_iff in Hin. destruct Hin as [i [<- _]]. rewrite map_length, seq_length. reflexivity.
Qed.

Theorem doolittle_LU_entries : (forall i, (i < n)%nat -> g2 Um i i <> 0) ->
  (forall i j, (i < n)%nat -> (j < n)%nat -> (i < j)%nat -> g2 Lm i j = 0) /\
  (forall i, (i < n)%nat -> g2 Lm i i = 1) /\
  (forall i j, (i < n)%nat -> (j < n)%nat -> (j < i)%nat -> g2 Um i j = 0) /\
  (forall r c, (r < n)%nat -> (c < n)%nat -> sumR 0 n (fun j => g2 Lm r j * g2 Um j c) = g2 A r c).
Proof.
  intros Hp. rewrite Um_eq in *. repeat split.
  - intros i j Hi Hj Hij. rewrite Lm_entry, L_entry by assumption. destruct (Nat.ltb_spec i j); [reflexivity|lia].
  - intros i Hi. rewrite Lm_entry, L_entry by assumption. rewrite Nat.ltb_irrefl, Nat.eqb_refl. reflexivity.
  - intros i j Hi Hj Hij. rewrite U_entry by assumption. destruct (Nat.ltb_spec j i); [reflexivity|lia].
  - intros r c Hr Hc.
    rewrite (sumr_ext 0 n _ (fun j => g2 Lc j r * g2 Ur j c)) by (intros j Hj; rewrite Lm_entry by lia; reflexivity).
    apply (LU_abstract (fun r j => g2 Lc j r) (g2 Ur) (g2 A) n); try assumption.
    + intros i k Hi Hk. apply U_entry; assumption.
    + intros i k Hi Hk. rewrite L_entry by assumption. rewrite (isz_false _ (Hp i Hi)). reflexivity.
Qed.
End Doolittle.

Lemma is_square_rect A : is_square A = true -> rect (length A) (length A) A.
Proof.
  intros H. split; [reflexivity|]. unfold is_square in H. rewrite forallb_forall in H.
  intros row Hin. apply Nat.eqb_eq, H, Hin.
Qed.

(* [G] the factors returned by lu_decomposition multiply back to A *)
Theorem doolittle_LU A : is_square A = true ->
  let n := length A in let L := fst (doolittle Rops A) in let U := snd (doolittle Rops A) in
  (forall i, (i < n)%nat -> g2 U i i <> 0) ->
  lu_decomposition Rops A = Ok (L, U) /\
  (forall i j, (i < n)%nat -> (j < n)%nat -> (i < j)%nat -> g2 L i j = 0) /\
  (forall i, (i < n)%nat -> g2 L i i = 1) /\
  (forall i j, (i < n)%nat -> (j < n)%nat -> (j < i)%nat -> g2 U i j = 0) /\
  mmul Rops L U = A.
Proof.
  intros Hsq n L U Hp. destruct (doolittle_LU_entries A Hp) as (H1 & H2 & H3 & H4).
  split; [unfold lu_decomposition; rewrite Hsq; destruct (doolittle Rops A); reflexivity|].
  repeat split; try assumption.
  destruct (Nat.eq_dec n 0) as [Hn|Hn].
  - subst n L U. apply length_zero_iff_nil in Hn. rewrite Hn. reflexivity.
  - assert (HU : rect n n U) by apply Ur_rect. assert (HL : rect n n L) by apply Lm_rect.
    assert (Hhd : length (hd [] U) = n) by (apply (rect_hd n n); [exact HU|lia]).
    apply (mat_ext n n).
    + pose proof (mmul_rect L U) as Hr. rewrite Hhd in Hr. destruct HL as [HL1 _]. rewrite HL1 in Hr. exact Hr.
    + apply is_square_rect, Hsq.
    + intros i j Hi Hj. rewrite mmul_entry by (destruct HL; lia). destruct HU as [HU1 _]. rewrite HU1. apply H4; assumption.
Qed.
