(* Linear combinations as computed by the evaluators (left folds of axpy from the zero vector):
   component formula, linear functionals, convex-combination bounds, commutation with affine maps.
   Shared by C18 (hull) and C10 (affine maps).  Real-number instance. *)
From Coq Require Import List Reals Lra Lia Arith Bool.
From NV Require Import Scalar.Ops Model.Common Model.Basis Model.Knots Model.Eval.
Import ListNotations.
Open Scope R_scope.

(* finite sums over an index list *)
Definition Sg (g : nat -> R) (l : list nat) : R := sumT Rops (map g l).

Lemma Sg_nil g : Sg g [] = 0. Proof. reflexivity. Qed.
Lemma Sg_cons g a l : Sg g (a :: l) = g a + Sg g l. Proof. reflexivity. Qed.
Lemma Sg_ext g h l : (forall i, In i l -> g i = h i) -> Sg g l = Sg h l.
Proof. induction l; intros H; [reflexivity|]. rewrite !Sg_cons, IHl, (H a); auto with datatypes. Qed.
Lemma Sg_plus g h l : Sg (fun i => g i + h i) l = Sg g l + Sg h l.
Proof. induction l; rewrite ?Sg_nil, ?Sg_cons; [lra|]. rewrite IHl. lra. Qed.
Lemma Sg_scale_r g b l : Sg (fun i => g i * b) l = Sg g l * b.
Proof. induction l; rewrite ?Sg_nil, ?Sg_cons; [lra|]. rewrite IHl. lra. Qed.
Lemma Sg_scale_l g b l : Sg (fun i => b * g i) l = b * Sg g l.
Proof. induction l; rewrite ?Sg_nil, ?Sg_cons; [lra|]. rewrite IHl. lra. Qed.
Lemma Sg_nonneg g l : (forall i, In i l -> 0 <= g i) -> 0 <= Sg g l.
Proof. induction l; intros H; rewrite ?Sg_nil, ?Sg_cons; [lra|]. assert (0 <= g a) by auto with datatypes. assert (0 <= Sg g l) by auto with datatypes. lra. Qed.
Lemma Sg_le g h l : (forall i, In i l -> g i <= h i) -> Sg g l <= Sg h l.
Proof. induction l; intros H; rewrite ?Sg_nil, ?Sg_cons; [lra|]. assert (g a <= h a) by auto with datatypes. assert (Sg g l <= Sg h l) by auto with datatypes. lra. Qed.

(* sum of a list = sum of its entries by index *)
Lemma sumT_Sg_shift (l : list R) : forall s, sumT Rops l = Sg (fun i => nth (i - s) l 0) (seq s (length l)).
Proof.
  induction l as [|x r IH]; intros s; [reflexivity|].
  cbn [length seq]. rewrite Sg_cons. cbn [sumT]. rsimp. replace (s - s)%nat with 0%nat by lia. cbn [nth].
  rewrite (IH (S s)). f_equal. apply Sg_ext. intros i Hi. apply in_seq in Hi.
  replace (i - s)%nat with (S (i - S s)) by lia. reflexivity.
Qed.
Lemma sumT_Sg (l : list R) : sumT Rops l = Sg (fun i => nth i l 0) (seq 0 (length l)).
Proof. rewrite (sumT_Sg_shift l 0). apply Sg_ext. intros i _. rewrite Nat.sub_0_r. reflexivity. Qed.

(* weighted sums are bounded by the bounds of the terms *)
Lemma Sg_weighted_bounds (c x : nat -> R) lo hi l :
  (forall i, In i l -> 0 <= c i) -> (forall i, In i l -> lo <= x i <= hi) ->
  lo * Sg c l <= Sg (fun i => c i * x i) l <= hi * Sg c l.
Proof.
  induction l as [|a l IH]; intros Hc Hx; rewrite ?Sg_nil, ?Sg_cons; [lra|].
  destruct IH as [I1 I2]; auto with datatypes.
  assert (0 <= c a) by auto with datatypes. assert (lo <= x a <= hi) by auto with datatypes.
  assert (lo * c a <= c a * x a) by nra. assert (c a * x a <= hi * c a) by nra. split; lra.
Qed.

(* a convex combination of positive numbers is positive *)
Lemma Sg_zero_coeffs (c w : nat -> R) l : (forall i, In i l -> 0 <= c i) -> (forall i, In i l -> 0 < w i) ->
  Sg (fun i => c i * w i) l = 0 -> Sg c l = 0.
Proof.
  induction l as [|a l IH]; intros Hc Hw; rewrite ?Sg_nil, ?Sg_cons; [lra|]. intros H0.
  assert (Ha : 0 <= c a) by auto with datatypes. assert (Hwa : 0 < w a) by auto with datatypes.
  assert (Hr : 0 <= Sg (fun i => c i * w i) l).
  { apply Sg_nonneg. intros i Hi. apply Rmult_le_pos; [|left]; auto with datatypes. }
  assert (H1 : 0 <= c a * w a) by (apply Rmult_le_pos; lra).
  assert (H2 : c a * w a = 0) by lra. assert (H3 : Sg (fun i => c i * w i) l = 0) by lra.
  rewrite IH; auto with datatypes. apply Rmult_integral in H2. destruct H2; lra.
Qed.
Lemma Sg_convex_pos (c w : nat -> R) l : (forall i, In i l -> 0 <= c i) -> Sg c l = 1 -> (forall i, In i l -> 0 < w i) ->
  0 < Sg (fun i => c i * w i) l.
Proof.
  intros Hc H1 Hw. assert (H : 0 <= Sg (fun i => c i * w i) l).
  { apply Sg_nonneg. intros i Hi. apply Rmult_le_pos; [|left]; auto. }
  destruct H as [H|H]; [exact H|]. symmetry in H. apply Sg_zero_coeffs in H; auto. lra.
Qed.

(* ---- vectors ---- *)
Lemma axpy_length k (pt acc : list R) : length pt = length acc -> length (axpy Rops k pt acc) = length acc.
Proof. intros H. unfold axpy. rewrite map_length, combine_length. lia. Qed.
Lemma axpy_nth k : forall (pt acc : list R) c, length pt = length acc ->
  nth c (axpy Rops k pt acc) 0 = nth c acc 0 + k * nth c pt 0.
Proof.
  unfold axpy. induction pt as [|x pt IH]; intros [|a acc] c H; cbn [length] in H; try discriminate.
  - destruct c; cbn; lra.
  - destruct c; cbn [combine map nth fst snd]; rsimp; [lra|]. apply IH. lia.
Qed.
Lemma vzero_length d : length (vzero Rops d) = d.
Proof. apply repeat_length. Qed.
Lemma vzero_nth d c : nth c (vzero Rops d) 0 = 0.
Proof. unfold vzero. cbn [o0 Rops]. revert c. induction d; intros [|c]; cbn; auto. Qed.

Lemma vdot_nil_r (d : list R) : vdot Rops d [] = 0.
Proof. unfold vdot. destruct d; reflexivity. Qed.
Lemma vdot_cons a d x v : vdot Rops (a :: d) (x :: v) = a * x + vdot Rops d v.
Proof. reflexivity. Qed.
Lemma vdot_axpy k : forall (d pt acc : list R), length pt = length acc -> length d = length acc ->
  vdot Rops d (axpy Rops k pt acc) = vdot Rops d acc + k * vdot Rops d pt.
Proof.
  induction d as [|a d IH]; intros pt acc H1 H2.
  - unfold vdot; cbn. lra.
  - destruct acc as [|y acc]; cbn [length] in *; try discriminate. destruct pt as [|x pt]; cbn [length] in *; try discriminate.
    unfold axpy. cbn [combine map fst snd]. rewrite !vdot_cons. fold (axpy Rops k pt acc). rewrite IH by lia. rsimp. lra.
Qed.
Lemma vdot_vzero d n : vdot Rops d (vzero Rops n) = 0.
Proof.
  revert n. induction d as [|a d IH]; intros n; [reflexivity|]. destruct n; [reflexivity|].
  unfold vzero. cbn [repeat]. rewrite vdot_cons. fold (vzero Rops n). rewrite IH. cbn [o0 Rops]. lra.
Qed.

(* ---- linear functionals on vectors of a fixed length ---- *)
Definition linfun (dim : nat) (phi : list R -> R) : Prop :=
  phi (vzero Rops dim) = 0 /\
  forall k pt acc, length pt = dim -> length acc = dim -> phi (axpy Rops k pt acc) = phi acc + k * phi pt.

Lemma linfun_vdot dim d : length d = dim -> linfun dim (vdot Rops d).
Proof. intros H. split; [apply vdot_vzero|]. intros. apply vdot_axpy; lia. Qed.
Lemma linfun_nth dim c : linfun dim (fun x => nth c x 0).
Proof. split; [apply vzero_nth|]. intros. apply axpy_nth; lia. Qed.
Lemma linfun_scale dim m phi : linfun dim phi -> linfun dim (fun x => m * phi x).
Proof. intros [H0 H]. split; [rewrite H0; lra|]. intros. rewrite H by assumption. lra. Qed.
Lemma linfun_plus dim phi psi : linfun dim phi -> linfun dim psi -> linfun dim (fun x => phi x + psi x).
Proof. intros [H0 H] [G0 G]. split; [rewrite H0, G0; lra|]. intros. rewrite H, G by assumption. lra. Qed.
Lemma linfun_minus dim phi psi : linfun dim phi -> linfun dim psi -> linfun dim (fun x => phi x - psi x).
Proof. intros [H0 H] [G0 G]. split; [rewrite H0, G0; lra|]. intros. rewrite H, G by assumption. lra. Qed.

(* ---- the evaluators' accumulation loop ---- *)
Section Fold.
Variable dim : nat.
Variables (cf : nat -> R) (pf : nat -> list R).

Definition fold_axpy (l : list nat) (acc : list R) : list R :=
  fold_left (fun acc i => axpy Rops (cf i) (pf i) acc) l acc.

Lemma fold_axpy_length l : forall acc, length acc = dim -> (forall i, In i l -> length (pf i) = dim) ->
  length (fold_axpy l acc) = dim.
Proof.
  induction l as [|a l IH]; intros acc Ha Hp; [exact Ha|]. cbn [fold_axpy fold_left]. apply IH.
  - rewrite axpy_length; rewrite ?Hp; auto with datatypes.
  - auto with datatypes.
Qed.

Lemma fold_axpy_linfun phi l : linfun dim phi -> forall acc, length acc = dim -> (forall i, In i l -> length (pf i) = dim) ->
  phi (fold_axpy l acc) = phi acc + Sg (fun i => cf i * phi (pf i)) l.
Proof.
  intros [H0 H]. induction l as [|a l IH]; intros acc Ha Hp; [cbn [fold_axpy fold_left]; rewrite Sg_nil; lra|].
  cbn [fold_axpy fold_left]. fold (fold_axpy l (axpy Rops (cf a) (pf a) acc)). rewrite IH.
  - rewrite H; auto with datatypes. rewrite Sg_cons. lra.
  - rewrite axpy_length; rewrite ?Hp; auto with datatypes.
  - auto with datatypes.
Qed.

(* from the zero vector: the value of every linear functional is the weighted sum *)
Lemma lincomb_linfun phi l : linfun dim phi -> (forall i, In i l -> length (pf i) = dim) ->
  phi (fold_axpy l (vzero Rops dim)) = Sg (fun i => cf i * phi (pf i)) l.
Proof. intros Hl Hp. rewrite fold_axpy_linfun; auto using vzero_length. destruct Hl as [H0 _]. rewrite H0. lra. Qed.

Lemma lincomb_length l : (forall i, In i l -> length (pf i) = dim) -> length (fold_axpy l (vzero Rops dim)) = dim.
Proof. intros. apply fold_axpy_length; auto using vzero_length. Qed.

(* convex combination: every linear functional of the result lies between the bounds of the terms *)
Lemma lincomb_bounds phi l lo hi : linfun dim phi -> (forall i, In i l -> length (pf i) = dim) ->
  (forall i, In i l -> 0 <= cf i) -> Sg cf l = 1 -> (forall i, In i l -> lo <= phi (pf i) <= hi) ->
  lo <= phi (fold_axpy l (vzero Rops dim)) <= hi.
Proof.
  intros Hl Hp Hc H1 Hb. rewrite lincomb_linfun by assumption.
  pose proof (Sg_weighted_bounds cf (fun i => phi (pf i)) lo hi l Hc Hb) as H. rewrite H1 in H. lra.
Qed.
Lemma lincomb_nonneg phi l : linfun dim phi -> (forall i, In i l -> length (pf i) = dim) ->
  (forall i, In i l -> 0 <= cf i) -> (forall i, In i l -> 0 <= phi (pf i)) -> 0 <= phi (fold_axpy l (vzero Rops dim)).
Proof.
  intros Hl Hp Hc Hb. rewrite lincomb_linfun by assumption. apply Sg_nonneg. intros i Hi. apply Rmult_le_pos; auto.
Qed.
Lemma lincomb_pos phi l : linfun dim phi -> (forall i, In i l -> length (pf i) = dim) ->
  (forall i, In i l -> 0 <= cf i) -> Sg cf l = 1 -> (forall i, In i l -> 0 < phi (pf i)) -> 0 < phi (fold_axpy l (vzero Rops dim)).
Proof. intros Hl Hp Hc H1 Hb. rewrite lincomb_linfun by assumption. apply Sg_convex_pos; auto. Qed.
End Fold.

Lemma fold_axpy_ext cf cf' pf pf' l acc : (forall i, In i l -> cf i = cf' i) -> (forall i, In i l -> pf i = pf' i) ->
  fold_axpy cf pf l acc = fold_axpy cf' pf' l acc.
Proof.
  revert acc. induction l as [|a l IH]; intros acc Hc Hp; [reflexivity|]. cbn [fold_axpy fold_left].
  rewrite (Hc a), (Hp a) by auto with datatypes. apply IH; auto with datatypes.
Qed.

(* ---- affine maps between vector spaces: every output component is a linear functional plus a constant ---- *)
Definition affine_map (dim dim' : nat) (f : list R -> list R) : Prop :=
  (forall x, length x = dim -> length (f x) = dim') /\
  forall r, (r < dim')%nat -> exists phi b, linfun dim phi /\ forall x, length x = dim -> nth r (f x) 0 = phi x + b.

(* a combination whose coefficients sum to one commutes with every affine map *)
Theorem lincomb_affine dim dim' f cf pf l : affine_map dim dim' f ->
  (forall i, In i l -> length (pf i) = dim) -> Sg cf l = 1 ->
  fold_axpy cf (fun i => f (pf i)) l (vzero Rops dim') = f (fold_axpy cf pf l (vzero Rops dim)).
Proof.
  intros [Hlen Hcomp] Hp H1.
  assert (HL : length (fold_axpy cf pf l (vzero Rops dim)) = dim) by (apply lincomb_length; assumption).
  assert (HL' : length (fold_axpy cf (fun i => f (pf i)) l (vzero Rops dim')) = dim').
  { apply lincomb_length. intros i Hi. apply Hlen, Hp, Hi. }
  apply nth_ext with (d := 0) (d' := 0); [rewrite HL', Hlen; auto|].
  intros r Hr. rewrite HL' in Hr. destruct (Hcomp r Hr) as [phi [b [Hphi Hf]]].
  rewrite (lincomb_linfun dim' cf (fun i => f (pf i)) (fun x => nth r x 0) l (linfun_nth dim' r)).
  2:{ intros i Hi. apply Hlen, Hp, Hi. }
  rewrite Hf by exact HL. rewrite (lincomb_linfun dim cf pf phi l Hphi Hp).
  rewrite (Sg_ext _ (fun i => cf i * phi (pf i) + cf i * b)).
  - rewrite Sg_plus, Sg_scale_r, H1. lra.
  - intros i Hi. rewrite Hf by (apply Hp, Hi). lra.
Qed.

(* the matrix form  x |-> A x + b  is an affine map *)
Definition aff (A : list (list R)) (b : list R) (x : list R) : list R :=
  vadd Rops (map (fun row => vdot Rops row x) A) b.

Lemma vadd_length (a b : list R) : length a = length b -> length (vadd Rops a b) = length a.
Proof. intros H. unfold vadd. rewrite map_length, combine_length. lia. Qed.
Lemma vadd_nth : forall (a b : list R) c, length a = length b -> nth c (vadd Rops a b) 0 = nth c a 0 + nth c b 0.
Proof.
  unfold vadd. induction a as [|x a IH]; intros [|y b] c H; cbn [length] in H; try discriminate.
  - destruct c; cbn; lra.
  - destruct c; cbn [combine map nth fst snd]; rsimp; [lra|]. apply IH. lia.
Qed.
Lemma vsub_length (a b : list R) : length a = length b -> length (vsub Rops a b) = length a.
Proof. intros H. unfold vsub. rewrite map_length, combine_length. lia. Qed.
Lemma vsub_nth : forall (a b : list R) c, length a = length b -> nth c (vsub Rops a b) 0 = nth c a 0 - nth c b 0.
Proof.
  unfold vsub. induction a as [|x a IH]; intros [|y b] c H; cbn [length] in H; try discriminate.
  - destruct c; cbn; lra.
  - destruct c; cbn [combine map nth fst snd]; rsimp; [lra|]. apply IH. lia.
Qed.
Lemma vscale_length m (a : list R) : length (vscale Rops m a) = length a.
Proof. apply map_length. Qed.
Lemma vscale_nth m : forall (a : list R) c, nth c (vscale Rops m a) 0 = m * nth c a 0.
Proof. unfold vscale. induction a as [|x a IH]; intros [|c]; cbn [map nth]; rsimp; try lra. apply IH. Qed.

Theorem matrix_affine dim A b : length b = length A -> (forall row, In row A -> length row = dim) ->
  affine_map dim (length A) (aff A b).
Proof.
  intros Hb Hrows. split.
  - intros x Hx. unfold aff. rewrite vadd_length; rewrite map_length; auto.
  - intros r Hr. exists (vdot Rops (nth r A [])), (nth r b 0). split.
    + apply linfun_vdot. apply Hrows. apply nth_In. exact Hr.
    + intros x Hx. unfold aff. rewrite vadd_nth by (rewrite map_length; auto).
      f_equal. rewrite (nth_indep _ 0 (vdot Rops [] x)) by (rewrite map_length; exact Hr).
      apply (map_nth (fun row => vdot Rops row x)).
Qed.

(* ---- the evaluators of Model.Eval are such loops ---- *)
Lemma curve_point_at_fold dim p P span Ns :
  curve_point_at Rops dim p P span Ns =
  fold_axpy (fun i => nth i Ns 0) (fun i => pt_at P (span - p + i)) (seq 0 (S p)) (vzero Rops dim).
Proof. reflexivity. Qed.

Lemma surface_point_at_fold dim pu pv sv P su_ sv_ Nu Nv :
  surface_point_at Rops dim pu pv sv P su_ sv_ Nu Nv =
  fold_axpy (fun k => nth k Nu 0)
    (fun k => fold_axpy (fun l => nth l Nv 0) (fun l => pt_at P ((sv_ - pv) + l + sv * ((su_ - pu) + k))) (seq 0 (S pv)) (vzero Rops dim))
    (seq 0 (S pu)) (vzero Rops dim).
Proof. reflexivity. Qed.

(* ---- unit coefficient vectors select one term ---- *)
Lemma Sg_app g l1 l2 : Sg g (l1 ++ l2) = Sg g l1 + Sg g l2.
Proof. induction l1; cbn [app]; rewrite ?Sg_nil, ?Sg_cons; [lra|]. rewrite IHl1. lra. Qed.
Lemma Sg_zero g l : (forall i, In i l -> g i = 0) -> Sg g l = 0.
Proof. induction l; intros H; rewrite ?Sg_nil, ?Sg_cons; [lra|]. rewrite IHl, (H a); auto with datatypes. lra. Qed.
Lemma Sg_unit (c x : nat -> R) l a : NoDup l -> In a l -> c a = 1 -> (forall i, In i l -> i <> a -> c i = 0) ->
  Sg (fun i => c i * x i) l = x a.
Proof.
  induction l as [|b l IH]; intros Hnd Hin H1 H0; [destruct Hin|].
  inversion Hnd as [|? ? Hnb Hnd']; subst. rewrite Sg_cons. destruct Hin as [E|Hin].
  - subst b. rewrite H1. rewrite Sg_zero; [lra|]. intros i Hi. rewrite (H0 i); auto with datatypes; [lra|]. intro E; subst; contradiction.
  - rewrite IH; auto with datatypes. rewrite (H0 b); auto with datatypes; [lra|]. intro E; subst; contradiction.
Qed.
Lemma lincomb_unit dim cf pf l a : NoDup l -> In a l -> cf a = 1 -> (forall i, In i l -> i <> a -> cf i = 0) ->
  (forall i, In i l -> length (pf i) = dim) -> fold_axpy cf pf l (vzero Rops dim) = pf a.
Proof.
  intros Hnd Hin H1 H0 Hp. apply nth_ext with (d := 0) (d' := 0).
  - rewrite (lincomb_length dim); auto. symmetry; auto.
  - intros c _. rewrite (lincomb_linfun dim cf pf (fun x => nth c x 0) l (linfun_nth dim c) Hp). apply (Sg_unit cf (fun i => nth c (pf i) 0)); assumption.
Qed.

(* two combinations with the same coefficients agree under linear functionals that agree term by term *)
Lemma lincomb_transport d1 d2 g1 g2 cf pf1 pf2 l : linfun d1 g1 -> linfun d2 g2 ->
  (forall i, In i l -> length (pf1 i) = d1) -> (forall i, In i l -> length (pf2 i) = d2) ->
  (forall i, In i l -> g1 (pf1 i) = g2 (pf2 i)) ->
  g1 (fold_axpy cf pf1 l (vzero Rops d1)) = g2 (fold_axpy cf pf2 l (vzero Rops d2)).
Proof.
  intros H1 H2 L1 L2 E. rewrite (lincomb_linfun d1 cf pf1 g1 l H1 L1), (lincomb_linfun d2 cf pf2 g2 l H2 L2).
  apply Sg_ext. intros i Hi. rewrite E by exact Hi. reflexivity.
Qed.
