(* The two cell rules of surface_trim_tessellate that carry the "within one sampling cell" claim of C15:
   a cell whose four corners are all classified inside a trim yields nothing; with no trim curve crossing and no corner
   inside (here: no trims at all) the cell yields exactly the two fan triangles of the untrimmed tessellation. *)
From Coq Require Import List Arith Bool Lia.
From NV Require Import Scalar.Ops Model.Common Model.Geom2D Model.Tess.
Import ListNotations.

Section R.
Context {T : Type} (K : ops T).

(* [G, by definition] all four corners inside after classification => no vertices, no triangles *)
Theorem trim_cell_all_inside rtol tol tols trims s corners vidx tidx :
  let s1 := fold_left (fun st p => upd st (snd p) (classify_vertex K tols trims (fst p) (vget K st (snd p))))
                      (combine (seq 0 4) corners) s in
  forallb vinside (map (vget K s1) corners) = true ->
  surface_trim_tessellate K rtol tol tols trims s corners vidx tidx = (s1, [], []).
Proof. cbv zeta. intros H. unfold surface_trim_tessellate. rewrite H. reflexivity. Qed.

Lemma upd_nth_same {A} (d : A) : forall (l : list A) i, upd l i (nth i l d) = l.
Proof.
  induction l as [|x l IH]; intros [|i]; simpl; try reflexivity. f_equal. apply IH.
Qed.
Lemma classify_no_trims tols idx o : classify_vertex K tols [] idx o = o.
Proof. destruct o; reflexivity. Qed.

Lemma classify_fold_no_trims tols : forall (l : list (nat * nat)) s,
  fold_left (fun st p => upd st (snd p) (classify_vertex K tols [] (fst p) (vget K st (snd p)))) l s = s.
Proof.
  induction l as [|p l IH]; intros s; [reflexivity|].
  cbn [fold_left].
  replace (upd s (snd p) (classify_vertex K tols [] (fst p) (vget K s (snd p)))) with s; [apply IH|].
  rewrite classify_no_trims. unfold vget. symmetry. apply upd_nth_same.
Qed.

(* [G] the "kept whole" rule: if after classification no corner is inside a trim and no trim segment crosses a cell edge,
   the cell yields its four corners and exactly the two fan triangles (v1,v2,v3), (v1,v3,v4), each kept unless its own
   centre of mass is trimmed; no vertex is created *)
Theorem trim_cell_no_crossing rtol tol tols trims s c1 c2 c3 c4 vidx tidx :
  let s1 := fold_left (fun st p => upd st (snd p) (classify_vertex K tols trims (fst p) (vget K st (snd p))))
                      (combine (seq 0 4) [c1; c2; c3; c4]) s in
  vinside (vget K s1 c1) = false -> vinside (vget K s1 c2) = false ->
  vinside (vget K s1 c3) = false -> vinside (vget K s1 c4) = false ->
  cell_intersections K rtol tol
    [(vuv (vget K s1 c1), vuv (vget K s1 c2)); (vuv (vget K s1 c2), vuv (vget K s1 c3));
     (vuv (vget K s1 c3), vuv (vget K s1 c4)); (vuv (vget K s1 c4), vuv (vget K s1 c1))] trims = [] ->
  surface_trim_tessellate K rtol tol tols trims s [c1; c2; c3; c4] vidx tidx =
  (s1, [c1; c2; c3; c4], filter (tri_kept K trims s1) [(tidx, (c1, c2, c3)); (S tidx, (c1, c3, c4))]).
Proof.
  cbv zeta. intros H1 H2 H3 H4 Hx. unfold surface_trim_tessellate.
  set (s1 := fold_left _ (combine (seq 0 4) [c1; c2; c3; c4]) s) in *.
  cbn [map forallb]. rewrite H1. cbn [andb].
  cbn [app hd tl combine map fst snd]. rewrite Hx.
  match goal with |- context [fold_left ?f (seq 0 4) ?i] => set (F := f) end.
  assert (HF : forall tv nvi idx a b,
            nth idx [c1; c2; c3; c4; c1] 0 = a -> nth (S idx) [c1; c2; c3; c4; c1] 0 = b ->
            vinside (vget K s1 a) = false -> vinside (vget K s1 b) = false ->
            F (s1, tv, nvi) idx = (s1, tv ++ [a], nvi)).
  { intros tv nvi idx a b Ea Eb Ha Hb. subst F. cbv beta iota zeta.
    rewrite Ea, Eb, Ha, Hb. reflexivity. }
  clearbody F. cbn [seq fold_left].
  rewrite (HF [] 0 0 c1 c2 eq_refl eq_refl H1 H2).
  rewrite (HF _ 0 1 c2 c3 eq_refl eq_refl H2 H3).
  rewrite (HF _ 0 2 c3 c4 eq_refl eq_refl H3 H4).
  rewrite (HF _ 0 3 c4 c1 eq_refl eq_refl H4 H1).
  cbn [app polygon_triangulate tl combine map fst snd number_from length seq].
  reflexivity.
Qed.

(* [G] no trims at all: the trim-aware callback produces exactly the untrimmed fan, creates no vertex, drops nothing *)
Theorem trim_cell_no_trims rtol tol tols s c1 c2 c3 c4 vidx tidx :
  vinside (vget K s c1) = false -> vinside (vget K s c2) = false ->
  vinside (vget K s c3) = false -> vinside (vget K s c4) = false ->
  surface_trim_tessellate K rtol tol tols [] s [c1; c2; c3; c4] vidx tidx =
  (s, [c1; c2; c3; c4], [(tidx, (c1, c2, c3)); (S tidx, (c1, c3, c4))]).
Proof.
  intros H1 H2 H3 H4.
  pose proof (trim_cell_no_crossing rtol tol tols [] s c1 c2 c3 c4 vidx tidx) as H. cbv zeta in H.
  rewrite classify_fold_no_trims in H. rewrite (H H1 H2 H3 H4 eq_refl). reflexivity.
Qed.
End R.
