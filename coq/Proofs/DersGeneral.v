(* helpers.basis_function_ders (Algorithm A2.3) computes the algebraic derivatives dN of Eq. 2.9 - which are the
   analytic derivatives by DerivAnalytic.v - for ALL degrees, sorted knot vectors, spans, orders <= degree.

     ders_general_pieces (every real u, span fixed):
        nth r (nth k (basis_function_ders Rops p U span u order) []) 0 = dNk (Ufun U) span k p (span - p + r) u
     ders_general (u in the half-open span [U_span, U_span+1)):
        nth r (nth k (basis_function_ders Rops p U span u order) []) 0 = dN (Ufun U) k p (span - p + r) u
     ders_rows_sum_to_zero_general (every real u): rows k >= 1 sum to zero.

   dNk = k-th derivative of the polynomial piece Nk of the Cox-de Boor function on that span (DerivAnalytic.v); on the
   half-open span Nk = N and dNk = dN.  The algorithm is a formal (rational-function) computation on the knots of the
   window, so it computes the piece for every u; this also covers the closed right end of the domain, where geomdl
   evaluates u = U_{span+1} with the last non-empty span.

   Chain:  (1) DersNdu.ndu_table_spec(_pieces)   the ndu table: basis functions of all degrees + knot differences
           (2) DersEq210.eq_2_10(_pieces)        Eq. 2.10 at specification level, coefficients [acoef]
           (3) here: the loop over k of [ders_for_r] keeps  a[s1][j] = a_{k,j}  on the active index range
               J_k = { j | k <= r + j, r + j <= p, j <= k }  (the functions N_{i+j,p-k} that do not vanish on the span)
               and emits  d_k = sum_{j=0..k} a_{k,j} N_{i+j,p-k}(u)   (the skipped terms are zero: the piece vanishes);
           (4) the factor loop produces p!/(p-k)! = ff p k. *)
From Coq Require Import List Reals Lra Lia Arith Bool.
From NV Require Import Scalar.Ops Model.Common Model.Basis Proofs.Boehm Proofs.BasisR Proofs.DersRow0
                       Proofs.DerivAnalytic Proofs.DersEq210 Proofs.DersNdu.
Import ListNotations.
Open Scope R_scope.

(* ------------------------------------------------------------------------------------------------ *)
(* rectangular functional arrays                                                                      *)
Definition wfr (m : list (list R)) (nr nc : nat) : Prop :=
  length m = nr /\ forall i, (i < nr)%nat -> length (nth i m []) = nc.

Lemma set2_wfr m nr nc i j x : wfr m nr nc -> wfr (set2 m i j x) nr nc.
Proof.
  intros [L H]. unfold set2. split; [rewrite upd_length; exact L|].
  intros i' Hi'. destruct (Nat.eq_dec i i') as [->|Hne].
  - rewrite nth_upd_same by lia. rewrite upd_length. apply H. exact Hi'.
  - rewrite nth_upd_other by exact Hne. apply H. exact Hi'.
Qed.
Lemma get2_set2_same_r m nr nc i j x :
  wfr m nr nc -> (i < nr)%nat -> (j < nc)%nat -> get2 Rops (set2 m i j x) i j = x.
Proof.
  intros [L H] Hi Hj. unfold get2, set2. rewrite nth_upd_same by lia. apply nth_upd_same.
  rewrite H by exact Hi. exact Hj.
Qed.
Lemma nth_repeat_in {A} (x d : A) n i : (i < n)%nat -> nth i (repeat x n) d = x.
Proof. revert i. induction n as [|n IH]; intros [|i] Hi; cbn [repeat nth]; try lia; auto. apply IH. lia. Qed.
Lemma mk2_wfr nr nc (x : R) : wfr (mk2 nr nc x) nr nc.
Proof.
  unfold mk2. split; [apply repeat_length|]. intros i Hi. rewrite nth_repeat_in by exact Hi. apply repeat_length.
Qed.
Lemma get2_mk2 nr nc (x : R) i j : (i < nr)%nat -> (j < nc)%nat -> get2 Rops (mk2 nr nc x) i j = x.
Proof. intros Hi Hj. unfold get2, mk2. rewrite nth_repeat_in by exact Hi. apply nth_repeat_in. exact Hj. Qed.

Lemma nth_map_seq_gen {B} (f : nat -> B) a n j d : (j < n)%nat -> nth j (map f (seq a n)) d = f (a + j)%nat.
Proof.
  intros H. rewrite (nth_indep _ d (f 0%nat)) by (rewrite map_length, seq_length; exact H).
  rewrite map_nth. rewrite seq_nth by exact H. reflexivity.
Qed.

Lemma ofnat_INR' n : ofnat Rops n = INR n.
Proof. induction n as [|n IH]; [reflexivity|]. cbn [ofnat]. rewrite IH, S_INR. reflexivity. Qed.

(* ------------------------------------------------------------------------------------------------ *)
(* the loop body of ders_for_r, split in its three phases                                             *)
Section Loop.
Variables (p : nat) (ndu : list (list R)) (r : nat).

Definition kstep (st : list (list R) * nat * nat * list R) (k : nat) : list (list R) * nat * nat * list R :=
  let '(a, s1, s2, out) := st in
  let rk := Nat.sub r k in
  let pk := Nat.sub p k in
  let '(a, d) := if Nat.leb k r then
                    let v := get2 Rops a s1 0 / get2 Rops ndu (S pk) rk in
                    (set2 a s2 0 v, v * get2 Rops ndu rk pk)
                 else (a, 0) in
  let j1 := if Nat.leb k (S r) then 1%nat else Nat.sub k r in
  let j2 := if Nat.leb (Nat.pred r) pk then Nat.pred k else Nat.sub p r in
  let '(a, d) := fold_left (fun (ad : list (list R) * R) j =>
                    let '(a, d) := ad in
                    let idx := Nat.sub (Nat.add r j) k in
                    let v := (get2 Rops a s1 j - get2 Rops a s1 (Nat.pred j)) / get2 Rops ndu (S pk) idx in
                    (set2 a s2 j v, d + v * get2 Rops ndu idx pk)) (seq j1 (Nat.sub (S j2) j1)) (a, d) in
  let '(a, d) := if Nat.leb r pk then
                    let v := (0 - get2 Rops a s1 (Nat.pred k)) / get2 Rops ndu (S pk) r in
                    (set2 a s2 k v, d + v * get2 Rops ndu r pk)
                 else (a, d) in
  (a, s2, s1, out ++ [d]).

Lemma ders_for_r_unfold order :
  ders_for_r Rops p order ndu r =
  let '(_, _, _, out) := fold_left kstep (seq 1 order) (mk2 2 (S p) 1, 0%nat, 1%nat, []) in out.
Proof. reflexivity. Qed.

Definition ph1 (k : nat) (a : list (list R)) (s1 s2 : nat) : list (list R) * R :=
  if Nat.leb k r then
    let v := get2 Rops a s1 0 / get2 Rops ndu (S (p - k)) (r - k) in
    (set2 a s2 0 v, v * get2 Rops ndu (r - k) (p - k))
  else (a, 0).
Definition ph2body (k s1 s2 : nat) (ad : list (list R) * R) (j : nat) : list (list R) * R :=
  let '(a, d) := ad in
  let v := (get2 Rops a s1 j - get2 Rops a s1 (Nat.pred j)) / get2 Rops ndu (S (p - k)) (r + j - k) in
  (set2 a s2 j v, d + v * get2 Rops ndu (r + j - k) (p - k)).
Definition ph3 (k s1 s2 : nat) (ad : list (list R) * R) : list (list R) * R :=
  let '(a, d) := ad in
  if Nat.leb r (p - k) then
    let v := (0 - get2 Rops a s1 (Nat.pred k)) / get2 Rops ndu (S (p - k)) r in
    (set2 a s2 k v, d + v * get2 Rops ndu r (p - k))
  else (a, d).
Definition jlo (k : nat) : nat := if Nat.leb k (S r) then 1%nat else (k - r)%nat.
Definition jhi (k : nat) : nat := if Nat.leb (Nat.pred r) (p - k) then Nat.pred k else (p - r)%nat.

Lemma kstep_phases a s1 s2 out k :
  kstep (a, s1, s2, out) k =
  (fst (ph3 k s1 s2 (fold_left (ph2body k s1 s2) (seq (jlo k) (S (jhi k) - jlo k)) (ph1 k a s1 s2))), s2, s1,
   out ++ [snd (ph3 k s1 s2 (fold_left (ph2body k s1 s2) (seq (jlo k) (S (jhi k) - jlo k)) (ph1 k a s1 s2)))]).
Proof.
  unfold kstep, ph1, ph3, jlo, jhi. fold (ph2body k s1 s2).
  destruct (Nat.leb k r);
    (match goal with |- context [fold_left ?f ?l ?x] => destruct (fold_left f l x) as [a2 d2] end);
    destruct (Nat.leb r (p - k)); reflexivity.
Qed.
End Loop.

(* ------------------------------------------------------------------------------------------------ *)
(* the invariant of the loop over k, against an abstract table with the ndu specification            *)
Section Step.
Variables (V : nat -> R) (s p r : nat) (u : R) (ndu : list (list R)).
Hypothesis Hps : (p <= s)%nat.
Hypothesis Hrp : (r <= p)%nat.
Hypothesis Hup : forall a b, (a <= b)%nat -> (b <= p)%nat -> get2 Rops ndu a b = Nk V s b (s - b + a) u.
Hypothesis Hlo : forall a b, (b < a)%nat -> (a <= p)%nat ->
  get2 Rops ndu a b = V (s + b + 1)%nat - V (s + 1 - (a - b))%nat.

Notation i := (s - p + r)%nat.
Notation A := (acoef V p i).

(* the j-th term of Eq. 2.10 for derivative order k *)
Definition term (k j : nat) : R := A k j * Nk V s (p - k) (i + j) u.

Lemma den_eq k j : (1 <= k <= p)%nat -> (k <= r + j)%nat -> (r + j <= p)%nat ->
  get2 Rops ndu (S (p - k)) (r + j - k) = V (i + j + (p - k) + 1)%nat - V (i + j)%nat.
Proof. intros. rewrite Hlo by lia. f_equal; f_equal; lia. Qed.
Lemma num_eq k j : (k <= p)%nat -> (k <= r + j)%nat -> (r + j <= p)%nat ->
  get2 Rops ndu (r + j - k) (p - k) = Nk V s (p - k) (i + j) u.
Proof. intros. rewrite Hup by lia. f_equal. lia. Qed.

(* skipped terms vanish *)
Lemma term_lo k j : (k <= p)%nat -> (r + j < k)%nat -> term k j = 0.
Proof. intros. unfold term. rewrite Nk_support by lia. ring. Qed.
Lemma term_hi k j : (p < r + j)%nat -> term k j = 0.
Proof. intros. unfold term. rewrite Nk_support by lia. ring. Qed.

Lemma acoef_step_pos k' j : (1 <= j)%nat ->
  A (S k') j = (A k' j - A k' (Nat.pred j)) / (V (i + j + (p - S k') + 1)%nat - V (i + j)%nat).
Proof. intros Hj. destruct j as [|j']; [lia|reflexivity]. Qed.
Lemma acoef_step_0 k' :
  A (S k') 0 = A k' 0 / (V (i + 0 + (p - S k') + 1)%nat - V (i + 0)%nat).
Proof. rewrite acoef_S, Rminus_0_r. reflexivity. Qed.

(* what row s1 is assumed to hold before step k = S k' *)
Definition row_ok (k' : nat) (a : list (list R)) (s1 : nat) : Prop :=
  forall c, (k' <= r + c)%nat -> (r + c <= p)%nat -> (c <= k')%nat -> get2 Rops a s1 c = A k' c.

(* phase 1: j = 0 *)
Lemma ph1_spec k' a s1 s2 :
  (S k' <= p)%nat -> wfr a 2 (S p) -> (s2 < 2)%nat -> s1 <> s2 -> row_ok k' a s1 ->
  wfr (fst (ph1 p ndu r (S k') a s1 s2)) 2 (S p) /\
  (forall c, get2 Rops (fst (ph1 p ndu r (S k') a s1 s2)) s1 c = get2 Rops a s1 c) /\
  ((S k' <= r)%nat -> get2 Rops (fst (ph1 p ndu r (S k') a s1 s2)) s2 0 = A (S k') 0) /\
  (forall c, (1 <= c)%nat -> get2 Rops (fst (ph1 p ndu r (S k') a s1 s2)) s2 c = get2 Rops a s2 c) /\
  snd (ph1 p ndu r (S k') a s1 s2) = term (S k') 0.
Proof.
  intros Hk W Hs2 Hne Hrow. unfold ph1.
  destruct (Nat.leb_spec (S k') r) as [Hle|Hgt]; cbn [fst snd].
  - assert (Ev : get2 Rops a s1 0 / get2 Rops ndu (S (p - S k')) (r - S k') = A (S k') 0).
    { rewrite Hrow by lia. replace (r - S k')%nat with (r + 0 - S k')%nat by lia.
      rewrite den_eq by lia. symmetry. apply acoef_step_0. }
    rewrite Ev. split; [|split; [|split; [|split]]].
    + apply set2_wfr. exact W.
    + intros c. apply get2_set2_other. intros E. injection E; intros; congruence.
    + intros _. apply (get2_set2_same_r _ 2 (S p)); [exact W|exact Hs2|lia].
    + intros c Hc. apply get2_set2_other. intros E. injection E; intros; lia.
    + unfold term. replace (r - S k')%nat with (r + 0 - S k')%nat by lia. rewrite num_eq by lia. reflexivity.
  - split; [exact W|]. split; [reflexivity|]. split; [intros Hc; lia|]. split; [reflexivity|].
    symmetry. apply term_lo; lia.
Qed.

(* phase 2: the middle indices *)
Lemma ph2_spec k' a0 s1 s2 j1 :
  (S k' <= p)%nat -> (s2 < 2)%nat -> s1 <> s2 -> row_ok k' a0 s1 ->
  forall m a d, wfr a 2 (S p) -> (forall c, get2 Rops a s1 c = get2 Rops a0 s1 c) ->
  (forall j, (j1 <= j < j1 + m)%nat -> (1 <= j <= k')%nat /\ (S k' <= r + j)%nat /\ (r + j <= p)%nat) ->
  let res := fold_left (ph2body p ndu r (S k') s1 s2) (seq j1 m) (a, d) in
  wfr (fst res) 2 (S p) /\
  (forall c, get2 Rops (fst res) s1 c = get2 Rops a0 s1 c) /\
  (forall c, (j1 <= c < j1 + m)%nat -> get2 Rops (fst res) s2 c = A (S k') c) /\
  (forall c, ~ (j1 <= c < j1 + m)%nat -> get2 Rops (fst res) s2 c = get2 Rops a s2 c) /\
  snd res = d + rsum (term (S k')) j1 m.
Proof.
  intros Hk Hs2 Hne Hrow. induction m as [|m IH]; intros a d W Hs1 Hrange.
  - cbn [seq fold_left fst snd]. rewrite rsum_0.
    split; [exact W|]. split; [exact Hs1|]. split; [intros; lia|]. split; [reflexivity|]. ring.
  - destruct (IH a d W Hs1) as (W' & R1 & R2 & Fr & Sd). { intros j Hj. apply Hrange. lia. }
    clear IH. cbv zeta. rewrite seq_S, fold_left_app. cbn [fold_left].
    destruct (fold_left (ph2body p ndu r (S k') s1 s2) (seq j1 m) (a, d)) as [am dm]. cbn [fst snd] in *.
    destruct (Hrange (j1 + m)%nat ltac:(lia)) as (Hj & Hj' & Hj'').
    unfold ph2body.
    assert (Ev : (get2 Rops am s1 (j1 + m) - get2 Rops am s1 (Nat.pred (j1 + m)))
                 / get2 Rops ndu (S (p - S k')) (r + (j1 + m) - S k') = A (S k') (j1 + m)).
    { rewrite !R1, !Hrow by lia. rewrite den_eq by lia. symmetry. apply acoef_step_pos. lia. }
    rewrite Ev. cbn [fst snd]. split; [|split; [|split; [|split]]].
    + apply set2_wfr. exact W'.
    + intros c. rewrite get2_set2_other by (intros E; injection E; intros; congruence). apply R1.
    + intros c Hc. destruct (Nat.eq_dec c (j1 + m)) as [->|Hne'].
      * apply (get2_set2_same_r _ 2 (S p)); [exact W'|exact Hs2|lia].
      * rewrite get2_set2_other by (intros E; injection E; intros; congruence). apply R2. lia.
    + intros c Hc. rewrite get2_set2_other by (intros E; injection E; intros; lia). apply Fr. lia.
    + rewrite rsum_S, Sd, num_eq by lia. unfold term. ring.
Qed.

(* phase 3: j = k *)
Lemma ph3_spec k' a0 s1 s2 a d :
  (S k' <= p)%nat -> (s2 < 2)%nat -> s1 <> s2 -> row_ok k' a0 s1 ->
  wfr a 2 (S p) -> (forall c, get2 Rops a s1 c = get2 Rops a0 s1 c) ->
  let res := ph3 p ndu r (S k') s1 s2 (a, d) in
  wfr (fst res) 2 (S p) /\
  ((r + S k' <= p)%nat -> get2 Rops (fst res) s2 (S k') = A (S k') (S k')) /\
  (forall c, c <> S k' -> get2 Rops (fst res) s2 c = get2 Rops a s2 c) /\
  snd res = d + term (S k') (S k').
Proof.
  intros Hk Hs2 Hne Hrow W Hs1. cbv zeta. unfold ph3.
  destruct (Nat.leb_spec r (p - S k')) as [Hle|Hgt]; cbn [fst snd Nat.pred].
  - assert (Ev : (0 - get2 Rops a s1 k') / get2 Rops ndu (S (p - S k')) r = A (S k') (S k')).
    { rewrite Hs1, Hrow by lia. replace (get2 Rops ndu (S (p - S k')) r) with (get2 Rops ndu (S (p - S k')) (r + S k' - S k'))
        by (f_equal; lia).
      rewrite den_eq by lia. rewrite acoef_step_pos by lia. cbn [Nat.pred].
      rewrite (acoef_above V p i k' (S k')) by lia. reflexivity. }
    rewrite Ev. split; [|split; [|split]].
    + apply set2_wfr. exact W.
    + intros _. apply (get2_set2_same_r _ 2 (S p)); [exact W|exact Hs2|lia].
    + intros c Hc. apply get2_set2_other. intros E. injection E; intros; congruence.
    + unfold term. replace (get2 Rops ndu r (p - S k')) with (get2 Rops ndu (r + S k' - S k') (p - S k'))
        by (f_equal; lia).
      rewrite num_eq by lia. reflexivity.
  - split; [exact W|]. split; [intros Hc; lia|]. split; [reflexivity|].
    rewrite (term_hi (S k') (S k')) by lia. ring.
Qed.

(* the loop invariant after m iterations *)
Definition inv (m : nat) (st : list (list R) * nat * nat * list R) : Prop :=
  let '(a, s1, s2, out) := st in
  wfr a 2 (S p) /\ (s1 < 2)%nat /\ (s2 < 2)%nat /\ s1 <> s2 /\ row_ok m a s1 /\
  length out = m /\ forall k, (1 <= k <= m)%nat -> nth (k - 1) out 0 = sumf (term k) (S k).

Lemma kstep_inv m st : (S m <= p)%nat -> inv m st -> inv (S m) (kstep p ndu r st (S m)).
Proof.
  intros Hk. destruct st as [[[a s1] s2] out]. intros (W & Hs1 & Hs2 & Hne & Hrow & Hlen & Hout).
  rewrite kstep_phases.
  (* phase 1 *)
  destruct (ph1_spec m a s1 s2 Hk W Hs2 Hne Hrow) as (W1 & R1 & Z1 & F1 & D1).
  destruct (ph1 p ndu r (S m) a s1 s2) as [a1 d1]. cbn [fst snd] in *.
  (* the range of the middle loop *)
  assert (Hj1 : jlo r (S m) = (if Nat.leb (S m) (S r) then 1 else S m - r)%nat) by reflexivity.
  assert (Hj2 : jhi p r (S m) = (if Nat.leb (Nat.pred r) (p - S m) then m else p - r)%nat) by reflexivity.
  set (j1 := jlo r (S m)) in *. set (j2 := jhi p r (S m)) in *.
  assert (Hj1' : (1 <= j1 /\ (S m <= S r -> j1 = 1) /\ (S r < S m -> j1 = S m - r))%nat).
  { rewrite Hj1. destruct (Nat.leb_spec (S m) (S r)); lia. }
  assert (Hj2' : (j2 <= m /\ (Nat.pred r <= p - S m -> j2 = m) /\ (p - S m < Nat.pred r -> j2 = p - r))%nat).
  { rewrite Hj2. destruct (Nat.leb_spec (Nat.pred r) (p - S m)); lia. }
  clear Hj1 Hj2.
  assert (Hle12 : (j1 <= S j2)%nat) by lia.
  (* phase 2 *)
  destruct (ph2_spec m a s1 s2 j1 Hk Hs2 Hne Hrow (S j2 - j1) a1 d1 W1 R1) as (W2 & R2 & Z2 & F2 & D2).
  { intros j Hj. lia. }
  destruct (fold_left (ph2body p ndu r (S m) s1 s2) (seq j1 (S j2 - j1)) (a1, d1)) as [a2 d2]. cbn [fst snd] in *.
  (* phase 3 *)
  destruct (ph3_spec m a s1 s2 a2 d2 Hk Hs2 Hne Hrow W2 R2) as (W3 & Z3 & F3 & D3).
  destruct (ph3 p ndu r (S m) s1 s2 (a2, d2)) as [a3 d3]. cbn [fst snd] in *.
  unfold inv. split; [exact W3|]. split; [exact Hs2|]. split; [exact Hs1|]. split; [congruence|].
  split; [|split].
  - (* the new row *)
    intros c Hc1 Hc2 Hc3. destruct (Nat.eq_dec c (S m)) as [->|Hcm].
    + apply Z3. lia.
    + rewrite F3 by exact Hcm. destruct (Nat.eq_dec c 0) as [->|Hc0].
      * rewrite F2 by lia. apply Z1. lia.
      * apply Z2. lia.
  - rewrite app_length, Hlen. cbn [length]. lia.
  - intros k Hkr. destruct (Nat.eq_dec k (S m)) as [->|Hkm].
    + rewrite app_nth2 by lia. replace (S m - 1 - length out)%nat with 0%nat by lia. cbn [nth].
      rewrite D3, D2, D1, sumf_SS_rsum. f_equal. f_equal.
      symmetry. apply rsum_sub; try lia.
      * intros j Hj. apply term_lo; lia.
      * intros j Hj. apply term_hi. lia.
    + rewrite app_nth1 by lia. apply Hout. lia.
Qed.

Lemma inv_init : inv 0 (mk2 2 (S p) 1, 0%nat, 1%nat, []).
Proof.
  unfold inv. split; [apply mk2_wfr|]. split; [lia|]. split; [lia|]. split; [lia|].
  split; [|split; [reflexivity|intros; lia]].
  - intros c H1 H2 H3. assert (c = 0%nat) by lia. subst c. rewrite get2_mk2 by lia. reflexivity.
Qed.

Lemma kfold_inv m : (m <= p)%nat -> inv m (fold_left (kstep p ndu r) (seq 1 m) (mk2 2 (S p) 1, 0%nat, 1%nat, [])).
Proof.
  induction m as [|m IH]; intros Hm.
  - cbn [seq fold_left]. apply inv_init.
  - rewrite seq_S, fold_left_app. cbn [fold_left Nat.add]. apply kstep_inv; [lia|]. apply IH. lia.
Qed.

(* ---- (3) the derivative column of function index r before multiplication by p!/(p-k)! ---- *)
Theorem ders_for_r_spec order k :
  (order <= p)%nat -> (1 <= k <= order)%nat ->
  nth (k - 1) (ders_for_r Rops p order ndu r) 0
  = sumf (fun j => acoef V p i k j * Nk V s (p - k) (i + j) u) (S k).
Proof.
  intros Ho Hk. rewrite ders_for_r_unfold. pose proof (kfold_inv order Ho) as H.
  destruct (fold_left (kstep p ndu r) (seq 1 order) (mk2 2 (S p) 1, 0%nat, 1%nat, [])) as [[[a s1] s2] out].
  destruct H as (_ & _ & _ & _ & _ & _ & Hout). apply Hout. exact Hk.
Qed.

Corollary ders_for_r_dNk order k :
  (forall m, V m <= V (S m)) -> (order <= p)%nat -> (1 <= k <= order)%nat ->
  nth (k - 1) (ders_for_r Rops p order ndu r) 0 * ff p k = dNk V s k p i u.
Proof.
  intros Vsorted Ho Hk. rewrite ders_for_r_spec by assumption. rewrite (eq_2_10_pieces V Vsorted s k p i u). ring.
Qed.
End Step.

(* ------------------------------------------------------------------------------------------------ *)
(* the factor loop                                                                                    *)
Definition facs_of (p order : nat) : list R :=
  snd (fold_left (fun (st : R * list R) k => let '(f, acc) := st in (f * ofnat Rops (p - k), acc ++ [f]))
                 (seq 1 order) (ofnat Rops p, [])).

Lemma facs_fold p m :
  let st := fold_left (fun (st : R * list R) k => let '(f, acc) := st in (f * ofnat Rops (p - k), acc ++ [f]))
                      (seq 1 m) (ofnat Rops p, []) in
  fst st = ff p (S m) /\ length (snd st) = m /\
  forall k, (1 <= k <= m)%nat -> nth (k - 1) (snd st) 0 = ff p k.
Proof.
  induction m as [|m IH]; cbv zeta.
  - cbn [seq fold_left fst snd length]. rewrite ofnat_INR'. cbn [ff]. rewrite Nat.sub_0_r.
    repeat split; [ring|]. intros k Hk. lia.
  - cbv zeta in IH. rewrite seq_S, fold_left_app. cbn [fold_left Nat.add].
    destruct (fold_left _ (seq 1 m) (ofnat Rops p, [])) as [f acc]. cbn [fst snd] in *.
    destruct IH as (Hf & Hl & Hn). rewrite ofnat_INR'. repeat split.
    + rewrite Hf. rewrite (ff_S p (S m)). reflexivity.
    + rewrite app_length, Hl. cbn [length]. lia.
    + intros k Hk. destruct (Nat.eq_dec k (S m)) as [->|Hne].
      * rewrite app_nth2 by lia. replace (S m - 1 - length acc)%nat with 0%nat by lia. cbn [nth]. exact Hf.
      * rewrite app_nth1 by lia. apply Hn. lia.
Qed.

Lemma facs_nth p order k : (1 <= k <= order)%nat -> nth (k - 1) (facs_of p order) 0 = ff p k.
Proof. intros Hk. unfold facs_of. apply (facs_fold p order). exact Hk. Qed.

(* ------------------------------------------------------------------------------------------------ *)
(* the final theorem                                                                                  *)
Lemma bfd_unfold p U span u order :
  basis_function_ders Rops p U span u order =
  map (fun j => get2 Rops (ndu_table Rops p U span u) j p) (seq 0 (S p)) ::
  map (fun k => map (fun r =>
         nth (Nat.pred k) (nth r (map (ders_for_r Rops p order (ndu_table Rops p U span u)) (seq 0 (S p))) []) 0
         * nth (Nat.pred k) (facs_of p order) 0) (seq 0 (S p))) (seq 1 order).
Proof. reflexivity. Qed.

Section Final.
Variables (U : list R) (span : nat) (p : nat).
Hypothesis Usorted : sortedR U.
Hypothesis Hp : (p <= span)%nat.
Hypothesis HL : (span + p < length U)%nat.
Hypothesis HL1 : (span + 1 < length U)%nat.

(* ---- the most general form: for the given span, EVERY real u (also outside the span, e.g. the closed right end of
        the domain u = U_{span+1}), every row k <= order <= p and function index r <= p: the entry is the k-th
        derivative of the polynomial piece of N_{span-p+r,p} on that span ---- *)
Theorem ders_general_pieces u order k r :
  (order <= p)%nat -> (k <= order)%nat -> (r <= p)%nat ->
  nth r (nth k (basis_function_ders Rops p U span u order) []) 0 = dNk (Ufun U) span k p (span - p + r) u.
Proof.
  intros Ho Hk Hr. rewrite bfd_unfold.
  destruct (ndu_table_spec_pieces U span u p Hp HL HL1) as (Hup & Hlo).
  destruct k as [|k'].
  - cbn [nth dNk]. rewrite nth_map_seq_gen by lia. cbn [Nat.add]. apply Hup; lia.
  - cbn [nth]. rewrite nth_map_seq_gen by lia. rewrite nth_map_seq_gen by lia.
    rewrite nth_map_seq_gen by lia. cbn [Nat.add Nat.pred].
    replace k' with (S k' - 1)%nat at 1 2 by lia.
    rewrite facs_nth by lia.
    apply (ders_for_r_dNk (Ufun U) span p r u (ndu_table Rops p U span u) Hp Hr); try lia.
    + intros a b Hab Hb. apply Hup; assumption.
    + intros a b Hab Ha. apply Hlo; assumption.
    + apply Ufun_sorted. exact Usorted.
Qed.

Lemma Hu_fun u : knR U span <= u < knR U (span + 1) -> Ufun U span <= u < Ufun U (S span).
Proof.
  intros Hu. replace (S span) with (span + 1)%nat by (clear; lia).
  rewrite !Ufun_in by (clear - HL1; lia). exact Hu.
Qed.

(* ---- u in the half-open span: the algebraic derivatives dN (Eq. 2.9) of the Cox-de Boor functions ---- *)
Theorem ders_general u order k r :
  knR U span <= u < knR U (span + 1) ->
  (order <= p)%nat -> (k <= order)%nat -> (r <= p)%nat ->
  nth r (nth k (basis_function_ders Rops p U span u order) []) 0 = dN (Ufun U) k p (span - p + r) u.
Proof.
  intros Hu Ho Hk Hr. rewrite ders_general_pieces by assumption. symmetry.
  apply dN_eq_dNk; [apply Ufun_sorted; exact Usorted|apply Hu_fun; exact Hu].
Qed.

(* the rows as lists *)
Lemma bfd_row_length u order k : (k <= order)%nat ->
  length (nth k (basis_function_ders Rops p U span u order) []) = S p.
Proof.
  intros Hk. rewrite bfd_unfold. destruct k as [|k']; cbn [nth].
  - rewrite map_length, seq_length. reflexivity.
  - rewrite nth_map_seq_gen by lia. rewrite map_length, seq_length. reflexivity.
Qed.

Theorem ders_general_row_pieces u order k :
  (order <= p)%nat -> (k <= order)%nat ->
  nth k (basis_function_ders Rops p U span u order) []
  = map (fun r => dNk (Ufun U) span k p (span - p + r) u) (seq 0 (S p)).
Proof.
  intros Ho Hk. apply (nth_ext _ _ 0 0).
  - rewrite bfd_row_length by exact Hk. rewrite map_length, seq_length. reflexivity.
  - intros r Hr. rewrite bfd_row_length in Hr by exact Hk.
    rewrite nth_map_seq_gen by exact Hr. cbn [Nat.add]. apply ders_general_pieces; try assumption. lia.
Qed.

Theorem ders_general_row u order k :
  knR U span <= u < knR U (span + 1) ->
  (order <= p)%nat -> (k <= order)%nat ->
  nth k (basis_function_ders Rops p U span u order) []
  = map (fun r => dN (Ufun U) k p (span - p + r) u) (seq 0 (S p)).
Proof.
  intros Hu Ho Hk. rewrite ders_general_row_pieces by assumption. apply map_ext. intros r. symmetry.
  apply dN_eq_dNk; [apply Ufun_sorted; exact Usorted|apply Hu_fun; exact Hu].
Qed.

Lemma sumT_map_seq (f : nat -> R) : forall n a, sumT Rops (map f (seq a n)) = sumf (fun t => f (a + t)%nat) n.
Proof.
  induction n as [|n IH]; intros a; [reflexivity|].
  cbn [seq map sumT]. rewrite IH. rewrite (sumf_S_rsum (fun t => f (a + t)%nat)). unfold rsum. rsimp.
  rewrite Nat.add_0_r. f_equal. apply sumf_ext. intros t _. f_equal. lia.
Qed.

(* ---- corollary: derivative rows sum to zero - for every real u (in particular on the whole closed domain) ---- *)
Theorem ders_rows_sum_to_zero_general u order k :
  (order <= p)%nat -> (1 <= k <= order)%nat ->
  sumT Rops (nth k (basis_function_ders Rops p U span u order) []) = 0.
Proof.
  intros Ho Hk. rewrite ders_general_row_pieces by lia. rewrite sumT_map_seq. cbn [Nat.add].
  apply (dNk_row_sum_zero (Ufun U) span k p u Hp). lia.
Qed.
End Final.

Print Assumptions ders_for_r_spec.
Print Assumptions ders_general_pieces.
Print Assumptions ders_general.
Print Assumptions ders_rows_sum_to_zero_general.
