(* Tie: the numerical part of fitting.approximate_curve (Gen/FittingC.v, centripetal = False) = Fit.approximate_curve (least squares with
   fixed end points, Eqs 9.63 - 9.67).  Composition of compute_params_curve_tie, compute_knot_vector2_tie, basis_function_one_tie,
   matrix_transpose_tie, matrix_multiply_tie, lu_decomposition_tie and the substitution ties with the loops that build N, Rk, R and write
   the solution columns into the control points.  Under approx_laws K = nat_laws K (left sums vs right sums, float(int)) + commutativity
   of the multiplication (the source computes c * N0(u_k), the model N0(u_k) * c). *)
From Coq Require Import List ZArith Arith Bool Lia QArith.
From NV Require Import Scalar.Ops Model.Common Model.Basis Model.LinAlg Model.Fit
  Gen.Prelude Gen.PreludeExt Gen.PreludeExt2 Gen.LinalgInternal Gen.Linalg Gen.Helpers Gen.Fitting Gen.FittingB Gen.FittingC
  Proofs.GenTieLib Proofs.GenTieLib2 Proofs.GenTieBasisOne Proofs.GenTieDersLib Proofs.GenTieSums Proofs.GenTieLinAlg Proofs.GenTieSubst
  Proofs.GenTieLU Proofs.GenTieLUSolve Proofs.GenTieDegree Proofs.GenTieFit Proofs.GenTieEvalLib Proofs.GenTieFitB.
Import ListNotations.
Local Open Scope nat_scope.

Record approx_laws {T : Type} (K : ops T) : Prop := mkApproxLaws {
  al_nat : nat_laws K;
  al_mul_comm : forall x y, omul K x y = omul K y x }.

(* range(1, n) *)
Lemma zrange_1 (n : nat) : zrange 1 (Z.of_nat n) 1 = map Z.of_nat (seq 1 (n - 1)).
Proof. change 1%Z with (Z.of_nat 1) at 1. apply zrange_nat. Qed.

(* zip of three lists where the second and third are maps *)
Lemma combine3_map {A B C B' C'} (f : B -> B') (g : C -> C') : forall (a : list A) (b : list B) (c : list C),
  combine (combine a (map f b)) (map g c) = map (fun x => (fst (fst x), f (snd (fst x)), g (snd x))) (combine (combine a b) c).
Proof.
  induction a as [|x a IH]; intros [|y b] [|z c]; simpl; auto. now rewrite IH.
Qed.

Lemma combine3_length {A B C} (a : list A) (b : list B) (c : list C) (d : nat) :
  length a = d -> length b = d -> length c = d -> length (combine (combine a b) c) = d.
Proof. intros. rewrite !combine_length. lia. Qed.

(* enumerate(l) *)
Lemma combine_seq_nth_off {A B} (g : nat -> B) (d : A) : forall (l : list A) a,
  combine (map g (seq a (length l))) l = map (fun n => (g n, nth (n - a) l d)) (seq a (length l)).
Proof.
  induction l as [|x l IH]; intros a; [reflexivity|]. cbn [length seq map combine]. rewrite Nat.sub_diag. cbn [nth]. f_equal.
  rewrite IH. apply map_ext_in. intros n Hn. apply in_seq in Hn. replace (n - a) with (S (n - S a)) by lia. reflexivity.
Qed.
Lemma combine_seq_nth {A B} (g : nat -> B) (l : list A) (d : A) :
  combine (map g (seq 0 (length l))) l = map (fun n => (g n, nth n l d)) (seq 0 (length l)).
Proof. rewrite (combine_seq_nth_off g d l 0). apply map_ext. intros n. now rewrite Nat.sub_0_r. Qed.

Lemma zset_lit0 {A} (l : list A) v : 1 <= length l -> zset l 0%Z v = GOk (upd l 0 v).
Proof. intros H. exact (zset_nat l 0 v H). Qed.
Lemma zset_m1 {A} (l : list A) v : 1 <= length l -> zset l (-1)%Z v = GOk (upd l (length l - 1) v).
Proof. intros H. change (-1)%Z with (- Z.of_nat 1)%Z. unfold zset. rewrite zidx_neg by lia. now rewrite list_upd_eq. Qed.

Section Tie.
Context {T : Type} (K : ops T) (AL : approx_laws K).
Notation "0" := (o0 K).
Let NL : nat_laws K := al_nat K AL.
Let LW : sum_laws K := nl_sum K NL.

Notation bf1 := (Basis.basis_function_one K).

(* ---- the matrix N ---- *)
Lemma loop_N (p c r : nat) (kv uk : list T) :
  c + p + 1 <= length kv -> r <= length uk -> 1 <= r -> 1 <= c ->
  gfor (zrange 1 (Z.of_nat r - 1) 1) (fun i matrix_n =>
    do m_temp <- gfor (zrange 1 (Z.of_nat c - 1) 1) (fun j m_temp =>
      do v_4 <- znth uk i ;;
      do v_5 <- Helpers.basis_function_one K (Z.of_nat p) kv j v_4 ;;
      GOk (m_temp ++ [v_5])) [] ;;
    GOk (matrix_n ++ [m_temp])) []
  = GOk (approx_N K p c kv uk r).
Proof.
  intros Hkv Huk Hr Hc. unfold approx_N.
  replace (Z.of_nat r - 1)%Z with (Z.of_nat (r - 1)) by lia. rewrite zrange_1. replace (r - 1 - 1) with (r - 2) by lia.
  rewrite (gfor_map Z.of_nat).
  rewrite (gfor_append_gen (seq 1 (r - 2)) _ (fun i => map (fun j => bf1 p kv j (nth i uk 0)) (seq 1 (c - 2)))).
  - reflexivity.
  - intros i acc Hi. apply in_seq in Hi.
    replace (Z.of_nat c - 1)%Z with (Z.of_nat (c - 1)) by lia. rewrite zrange_1. replace (c - 1 - 1) with (c - 2) by lia.
    rewrite (gfor_map Z.of_nat).
    rewrite (gfor_append_gen (seq 1 (c - 2)) _ (fun j => bf1 p kv j (nth i uk 0))).
    + reflexivity.
    + intros j acc' Hj. apply in_seq in Hj. rewrite (znth_nat uk i 0) by lia. cbn [gbind].
      rewrite (basis_function_one_tie K p kv j) by lia. reflexivity.
Qed.

(* ---- Rk (Eq. 9.63) ---- *)
Lemma loop_Rk (p c r : nat) (kv uk : list T) (pts : list (list T)) (pt0 ptm : list T) :
  c + p + 1 <= length kv -> r <= length uk -> length pts = r -> 1 <= c -> 1 <= r ->
  pt0 = nth 0 pts [] -> ptm = nth (Nat.pred r) pts [] ->
  gfor (zrange 1 (Z.of_nat r - 1) 1) (fun i rk =>
    do ptk <- znth pts i ;;
    do v_14 <- znth uk i ;;
    do n0p <- Helpers.basis_function_one K (Z.of_nat p) kv 0 v_14 ;;
    do v_16 <- znth uk i ;;
    do nnp <- Helpers.basis_function_one K (Z.of_nat p) kv (Z.of_nat c - 1) v_16 ;;
    GOk (rk ++ [map (fun '(a, b, c) => osub K (osub K a b) c)
                  (combine (combine ptk (map (fun c => omul K c n0p) pt0)) (map (fun c => omul K c nnp) ptm))])) []
  = GOk (approx_Rk K p c kv uk pts).
Proof.
  intros Hkv Huk Lp Hc Hr -> ->. unfold approx_Rk. rewrite Lp.
  replace (Z.of_nat r - 1)%Z with (Z.of_nat (r - 1)) by lia. rewrite zrange_1. replace (r - 1 - 1) with (r - 2) by lia.
  rewrite (gfor_map Z.of_nat).
  rewrite (gfor_append_gen (seq 1 (r - 2)) _ (fun i =>
    let n0 := bf1 p kv 0 (nth i uk 0) in let nn := bf1 p kv (Nat.pred c) (nth i uk 0) in
    map (fun abc => osub K (osub K (fst (fst abc)) (omul K n0 (snd (fst abc)))) (omul K nn (snd abc)))
        (combine (combine (nth i pts []) (nth 0 pts [])) (nth (Nat.pred r) pts [])))).
  - reflexivity.
  - intros i acc Hi. apply in_seq in Hi.
    rewrite (znth_nat pts i []) by lia. cbn [gbind]. rewrite (znth_nat uk i 0) by lia. cbn [gbind].
    change 0%Z with (Z.of_nat 0). rewrite (basis_function_one_tie K p kv 0) by lia. cbn [gbind].
    replace (Z.of_nat c - 1)%Z with (Z.of_nat (Nat.pred c)) by lia.
    rewrite (basis_function_one_tie K p kv (Nat.pred c)) by lia. cbn [gbind].
    f_equal. f_equal. f_equal. cbv zeta. rewrite combine3_map, map_map. apply map_ext. intros [[a b] c']. cbn [fst snd].
    now rewrite (al_mul_comm K AL b), (al_mul_comm K AL c').
Qed.

(* ---- R (Eq. 9.67): row j - 1 accumulates, coordinate by coordinate, the rows of Rk scaled by N_j(u_k) ---- *)
Lemma loop_R (p c dim : nat) (kv uk : list T) (rk Minit : list (list T)) :
  Minit = repeat (repeat 0 dim) (c - 2) ->
  c + p + 1 <= length kv -> length rk + 1 <= length uk -> (forall row, In row rk -> length row = dim) -> 2 <= c ->
  gfor (zrange 1 (Z.of_nat c - 1) 1) (fun i vector_r =>
    do ru_tmp <- gfor (combine (zrange 0 (zlen rk) 1) rk) (fun '(idx, pt) ru_tmp =>
      do v_20 <- gmapM (fun q => do v_18 <- znth uk (idx + 1)%Z ;; do v_19 <- Helpers.basis_function_one K (Z.of_nat p) kv i v_18 ;;
                                GOk (omul K q v_19)) pt ;;
      GOk (ru_tmp ++ [v_20])) [] ;;
    do vector_r <- gfor (zrange 0 (Z.of_nat dim) 1) (fun d vector_r =>
      do vector_r <- gfor (zrange 0 (zlen ru_tmp) 1) (fun idx vector_r =>
        do v_21 <- znth vector_r (i - 1)%Z ;;
        do v_22 <- znth v_21 d ;;
        do v_23 <- znth ru_tmp idx ;;
        do v_24 <- znth v_23 d ;;
        do v_25 <- znth vector_r (i - 1)%Z ;;
        do v_26 <- zset v_25 d (oadd K v_22 v_24) ;;
        do vector_r <- zset vector_r (i - 1)%Z v_26 ;;
        GOk vector_r) vector_r ;;
      GOk vector_r) vector_r ;;
    GOk vector_r) Minit
  = GOk (approx_R K p c dim kv uk rk).
Proof.
  intros -> Hkv Huk Hrk Hc. unfold approx_R. set (L := length rk).
  replace (Z.of_nat c - 1)%Z with (Z.of_nat (c - 1)) by lia. rewrite zrange_1. replace (c - 1 - 1) with (c - 2) by lia.
  rewrite <- seq_shift, !map_map, (gfor_map (fun x => Z.of_nat (S x))).
  set (M0 := repeat (repeat 0 dim) (c - 2)).
  set (B := fun (j n : nat) => bf1 p kv j (nth (S n) uk 0)).
  rewrite (gfor_fill [] _ (fun k => map (fun d => sumr K 0 L (fun n => omul K (get2 K rk n d) (B (S k) n))) (seq 0 dim)) M0 (c - 2)).
  - rewrite skipn_all2 by (unfold M0; rewrite repeat_length; lia). now rewrite app_nil_r.
  - unfold M0. rewrite repeat_length. lia.
  - intros k M' Hk LM' Hrest. unfold M0 in LM'. rewrite repeat_length in LM'.
    (* ru_tmp *)
    unfold zlen. fold L. rewrite zrange_0_nat. unfold L. rewrite (combine_seq_nth Z.of_nat rk []). fold L.
    rewrite (gfor_map (fun n => (Z.of_nat n, nth n rk []))).
    rewrite (gfor_append_gen (seq 0 L) _ (fun n => map (fun q => omul K q (B (S k) n)) (nth n rk []))).
    2:{ intros n acc Hn. apply in_seq in Hn.
        rewrite (gmapM_ok _ (fun q => omul K q (B (S k) n))); [reflexivity|].
        intros q _. replace (Z.of_nat n + 1)%Z with (Z.of_nat (S n)) by lia.
        rewrite (znth_nat uk (S n) 0) by (unfold L in *; lia). cbn [gbind].
        rewrite (basis_function_one_tie K p kv (S k)) by lia. reflexivity. }
    cbn [gbind app]. set (ru := map (fun n => map (fun q => omul K q (B (S k) n)) (nth n rk [])) (seq 0 L)).
    assert (Lru : length ru = L) by (unfold ru; now rewrite map_length, seq_length).
    assert (Hru : forall n d, n < L -> d < dim -> nth d (nth n ru []) 0 = omul K (get2 K rk n d) (B (S k) n)).
    { intros n d Hn Hd. unfold ru. rewrite nth_map_seq by lia.
      rewrite (nth_map_lt _ _ d 0) by (rewrite (Hrk (nth n rk [])); [lia|apply nth_In; unfold L in Hn; lia]). reflexivity. }
    assert (Hrul : forall n, n < L -> length (nth n ru []) = dim).
    { intros n Hn. unfold ru. rewrite nth_map_seq by lia. rewrite map_length. apply Hrk. apply nth_In. unfold L in Hn. lia. }
    (* the coordinate loop: only row k is rewritten *)
    unfold zlen. rewrite Lru. rewrite !zrange_0_nat, (gfor_map Z.of_nat).
    replace (Z.of_nat (S k) - 1)%Z with (Z.of_nat k) by lia.
    assert (Hrow : nth k M' [] = repeat 0 dim).
    { rewrite Hrest by lia. unfold M0. now rewrite nth_repeat_lt by lia. }
    rewrite (gfor_rowQ [] (fun row => length row = dim) (seq 0 dim) _ k
               (fun row d => upd row d (fold_left (fun acc n => oadd K acc (nth d (nth n ru []) 0)) (seq 0 L) (nth d row 0)))).
    + cbn [gbind]. f_equal. f_equal. rewrite Hrow.
      rewrite (fold_fill 0 (fun d x => fold_left (fun acc n => oadd K acc (nth d (nth n ru []) 0)) (seq 0 L) x) (repeat 0 dim) dim)
        by (rewrite repeat_length; lia).
      rewrite skipn_all2 by (rewrite repeat_length; lia). rewrite app_nil_r.
      apply map_ext_in. intros d Hd. apply in_seq in Hd. rewrite nth_repeat_lt by lia.
      rewrite (fold_acc_sumT K LW (fun n => nth d (nth n ru []) 0) (seq 0 L)). unfold sumr. f_equal.
      apply map_ext_in. intros n Hn. apply in_seq in Hn. apply Hru; lia.
    + lia.
    + rewrite Hrow. now rewrite repeat_length.
    + intros row d _ Hl. now rewrite upd_length.
    + intros d M2 Hd LM2 Hl. apply in_seq in Hd.
      rewrite (gfor_map Z.of_nat).
      rewrite (gfor_cell 0 (seq 0 L) _ k d (fun acc n => oadd K acc (nth d (nth n ru []) 0))).
      * reflexivity.
      * lia.
      * lia.
      * intros n M3 Hn LM3 Hl3. apply in_seq in Hn.
        rewrite (znth_nat M3 k []) by lia. cbn [gbind].
        rewrite (znth_nat (nth k M3 []) d 0) by lia. cbn [gbind].
        rewrite (znth_nat ru n []) by lia. cbn [gbind].
        rewrite (znth_nat (nth n ru []) d 0) by (rewrite Hrul; lia). cbn [gbind].
        rewrite zset_nat by lia. cbn [gbind]. rewrite zset_nat by lia. reflexivity.
Qed.
(* ---- the solution columns written into the control points: rows 1 .. c-2 of a table whose row 0 / c-1 are the end points ---- *)
Lemma loop_cols (c dim : nat) (Lm Um vecR : list (list T)) (pt0 ptm : list T) :
  3 <= c -> length vecR = c - 2 -> (forall r, In r vecR -> length r = dim) ->
  (forall i, i < c - 2 -> i < length (nth i Lm []) /\ oeqb K (get2 K Lm i i) 0 = false
                          /\ c - 2 <= length (nth i Um []) /\ oeqb K (get2 K Um i i) 0 = false) ->
  exists X, solve_columns K Lm Um vecR = Ok X /\
  gfor (zrange 0 (Z.of_nat dim) 1) (fun i ctrlpts =>
    do b <- gmapM (fun pt => do v_27 <- znth pt i ;; GOk v_27) vecR ;;
    do y <- Linalg.forward_substitution K Lm b ;;
    do x <- Linalg.backward_substitution K Um y ;;
    do ctrlpts <- gfor (zrange 1 (Z.of_nat c - 1) 1) (fun j ctrlpts =>
      do v_31 <- znth x (j - 1)%Z ;;
      do v_32 <- znth ctrlpts j ;;
      do v_33 <- zset v_32 i v_31 ;;
      do ctrlpts <- zset ctrlpts j v_33 ;;
      GOk ctrlpts) ctrlpts ;;
    GOk ctrlpts) (upd (upd (repeat (repeat 0 dim) c) 0 pt0) (c - 1) ptm)
  = GOk ([pt0] ++ X ++ [ptm]).
Proof.
  intros Hc LR HR Hsub. set (n := c - 2) in *.
  assert (Hn : 1 <= n) by (unfold n; lia).
  assert (HneR : vecR <> []) by (intros E; rewrite E in LR; simpl in LR; lia).
  unfold solve_columns.
  assert (Ehd : length (hd [] vecR) = dim) by (apply HR; destruct vecR; [congruence|simpl; auto]).
  rewrite Ehd.
  assert (Hf : forallb (fun r => Nat.leb dim (length r)) vecR = true).
  { apply forallb_forall. intros r Hr. apply Nat.leb_le. rewrite (HR r Hr). lia. }
  rewrite Hf.
  set (G := fun i => res_bind (LinAlg.forward_substitution K Lm (column K vecR i)) (LinAlg.backward_substitution K Um)).
  assert (Hcol : forall i, i < dim -> exists xt, G i = Ok xt /\ length xt = n
            /\ (forall B (k : list T -> gres B),
                 (do b <- gmapM (fun pt : list T => do v_27 <- znth pt (Z.of_nat i) ;; GOk v_27) vecR ;;
                  do y <- Linalg.forward_substitution K Lm b ;; do x <- Linalg.backward_substitution K Um y ;; k x) = k xt)).
  { intros i Hi.
    assert (Lc : length (column K vecR i) = n) by (unfold column; now rewrite map_length).
    destruct (forward_substitution_ok K LW Lm (column K vecR i)) as (y & Ey & EyG & Ly).
    { intros E. apply (f_equal (@length T)) in E. simpl in E. lia. }
    { intros j Hj. rewrite Lc in Hj. apply Hsub; lia. }
    { intros j Hj. rewrite Lc in Hj. apply Hsub; lia. }
    destruct (backward_substitution_ok K LW Um y) as (xt & Ex & ExG & Lx).
    { intros E. apply (f_equal (@length T)) in E. simpl in E. lia. }
    { intros j Hj. rewrite Ly, Lc in *. apply Hsub; lia. }
    { intros j Hj. rewrite Ly, Lc in *. apply Hsub; lia. }
    exists xt. unfold G. rewrite Ey. cbn [res_bind]. split; [exact Ex|]. split; [lia|].
    intros B k. rewrite (gmapM_ok _ (fun r : list T => nth i r 0)).
    2:{ intros r Hr. rewrite (znth_nat r i 0) by (rewrite (HR r Hr); lia). reflexivity. }
    cbn [gbind]. fold (column K vecR i). rewrite EyG. cbn [gbind]. rewrite ExG. reflexivity. }
  set (sol := fun i => match G i with Ok col => col | _ => [] end).
  assert (Hsol : forall i, i < dim -> G i = Ok (sol i) /\ length (sol i) = n).
  { intros i Hi. destruct (Hcol i Hi) as (xt & EG & Lx & _). unfold sol. rewrite EG. auto. }
  fold G. rewrite (res_all_ok G sol).
  2:{ intros i Hi. apply in_seq in Hi. apply Hsol. lia. }
  cbn [res_map]. eexists. split; [reflexivity|]. rewrite LR. fold n.
  (* the loop over the columns *)
  set (rowj := fun (ip j : nat) => map (fun i => nth (j - 1) (sol i) 0) (seq 0 ip) ++ repeat 0 (dim - ip)).
  set (C0 := upd (upd (repeat (repeat 0 dim) c) 0 pt0) (c - 1) ptm).
  rewrite zrange_0_nat.
  match goal with |- gfor (map Z.of_nat (seq O dim)) ?ff C0 = _ =>
    destruct (gfor_seq_inv (fun ip (C : list (list T)) => length C = c /\ nth 0 C [] = pt0 /\ nth (c - 1) C [] = ptm
                  /\ forall j, 1 <= j <= n -> nth j C [] = rowj ip j) ff dim O) with (s := C0) as (CF & EF & LF & F0 & Fm & Fmid)
  end.
  { intros i C Hi (LC & C0' & Cm & Cmid).
    destruct (Hcol i ltac:(lia)) as (xt & EG & Lx & Egen). rewrite Egen.
    assert (Exs : sol i = xt) by (unfold sol; now rewrite EG).
    replace (Z.of_nat c - 1)%Z with (Z.of_nat (c - 1)) by lia. rewrite zrange_1. replace (c - 1 - 1) with n by (unfold n; lia).
    match goal with |- exists t, gbind (gfor (map Z.of_nat (seq 1 n)) ?gg C) _ = _ /\ _ =>
      destruct (gfor_seq_inv (fun jp (C' : list (list T)) => length C' = c /\ nth 0 C' [] = pt0 /\ nth (c - 1) C' [] = ptm
                    /\ forall j, 1 <= j <= n -> nth j C' [] = if j <? jp then rowj (S i) j else rowj i j) gg n 1)
        with (s := C) as (C2 & E2 & L2 & C20 & C2m & C2mid)
    end.
    { intros j C' Hj (LC' & C0'' & Cm' & Cmid').
      replace (Z.of_nat j - 1)%Z with (Z.of_nat (j - 1)) by lia.
      rewrite (znth_nat xt (j - 1) 0) by lia. cbn [gbind].
      rewrite (znth_nat C' j []) by (unfold n in *; lia). cbn [gbind].
      assert (Erow : nth j C' [] = rowj i j).
      { rewrite Cmid' by lia. destruct (Nat.ltb_spec j j); [lia|reflexivity]. }
      assert (Lrow : length (rowj i j) = dim).
      { unfold rowj. rewrite app_length, map_length, seq_length, repeat_length. lia. }
      rewrite Erow. rewrite zset_nat by lia. cbn [gbind]. rewrite zset_nat by (unfold n in *; lia). cbn [gbind].
      eexists. split; [reflexivity|]. rewrite upd_length. split; [exact LC'|].
      split; [rewrite nth_upd_other by lia; exact C0''|]. split; [rewrite nth_upd_other by (unfold n in *; lia); exact Cm'|].
      intros j' Hj'. destruct (Nat.eq_dec j' j) as [->|Hne].
      - rewrite nth_upd_same by (unfold n in *; lia). destruct (Nat.ltb_spec j (S j)); [|lia].
        unfold rowj. replace (dim - i) with (S (dim - S i)) by lia. cbn [repeat].
        rewrite upd_app_at by (now rewrite map_length, seq_length).
        rewrite seq_S, map_app, <- app_assoc. cbn [map app Nat.add]. rewrite Exs. reflexivity.
      - rewrite nth_upd_other by lia. rewrite Cmid' by lia.
        destruct (Nat.ltb_spec j' j); destruct (Nat.ltb_spec j' (S j)); try reflexivity; lia. }
    { split; [exact LC|]. split; [exact C0'|]. split; [exact Cm|]. intros j Hj. rewrite Cmid by lia.
      destruct (Nat.ltb_spec j 1); [lia|reflexivity]. }
    rewrite E2. cbn [gbind]. eexists. split; [reflexivity|]. split; [exact L2|]. split; [exact C20|]. split; [exact C2m|].
    intros j Hj. rewrite C2mid by lia. destruct (Nat.ltb_spec j (1 + n)); [reflexivity|lia]. }
  { unfold C0. rewrite !upd_length, repeat_length. split; [reflexivity|]. split.
    - rewrite nth_upd_other by lia. rewrite nth_upd_same by (rewrite repeat_length; lia). reflexivity.
    - split; [rewrite nth_upd_same by (rewrite upd_length, repeat_length; lia); reflexivity|].
      intros j Hj. rewrite nth_upd_other by (unfold n in *; lia). rewrite nth_upd_other by lia.
      rewrite nth_repeat_lt by (unfold n in *; lia). unfold rowj. cbn [seq map app]. now rewrite Nat.sub_0_r. }
  rewrite EF. f_equal. cbn [Nat.add] in *.
  apply nth_ext with (d := []) (d' := []).
  - rewrite LF. cbn [app length]. rewrite app_length, map_length, seq_length. cbn [length]. unfold n. lia.
  - intros j Hj. rewrite LF in Hj.
    destruct (Nat.eq_dec j 0) as [->|Hj0]; [rewrite F0; reflexivity|].
    destruct (Nat.eq_dec j (c - 1)) as [->|Hjm].
    + rewrite Fm. cbn [app]. change (pt0 :: ?l) with ([pt0] ++ l). rewrite app_nth2 by (cbn [length]; lia). cbn [length].
      rewrite app_nth2 by (rewrite map_length, seq_length; unfold n; lia). rewrite map_length, seq_length.
      replace (c - 1 - 1 - n) with 0%nat by (unfold n; lia). reflexivity.
    + rewrite Fmid by (unfold n; lia). cbn [app]. destruct j as [|j']; [lia|]. cbn [nth].
      rewrite app_nth1 by (rewrite map_length, seq_length; unfold n; lia).
      rewrite nth_map_seq by (unfold n; lia). unfold rowj. rewrite Nat.sub_diag. cbn [repeat]. rewrite app_nil_r.
      rewrite map_map. apply map_ext. intros i. now replace (S j' - 1) with j' by lia.
Qed.
(* ---- shapes on the model side ---- *)
Lemma ckv2_length (p r c : nat) (uk : list T) : p < c -> length (Fit.compute_knot_vector2 K p r c uk) = c + p + 1.
Proof.
  intros H. unfold Fit.compute_knot_vector2. cbv zeta. rewrite !app_length, !repeat_length, map_length, seq_length. lia.
Qed.

Lemma approxN_shape (p c r : nat) (kv uk : list T) :
  length (approx_N K p c kv uk r) = r - 2 /\ forall row, In row (approx_N K p c kv uk r) -> length row = c - 2.
Proof.
  unfold approx_N. split; [now rewrite map_length, seq_length|].
  intros row Hr. apply in_map_iff in Hr. destruct Hr as (i & <- & _). now rewrite map_length, seq_length.
Qed.

Lemma approxRk_shape (p c d : nat) (kv uk : list T) (pts : list (list T)) :
  (forall pt, In pt pts -> length pt = d) ->
  length (approx_Rk K p c kv uk pts) = length pts - 2 /\ forall row, In row (approx_Rk K p c kv uk pts) -> length row = d.
Proof.
  intros Hd. unfold approx_Rk. cbv zeta. split; [now rewrite map_length, seq_length|].
  intros row Hr. apply in_map_iff in Hr. destruct Hr as (i & <- & Hi). apply in_seq in Hi.
  rewrite map_length. apply combine3_length; apply Hd; apply nth_In; lia.
Qed.

Lemma approxR_shape (p c dim : nat) (kv uk : list T) (rk : list (list T)) :
  length (approx_R K p c dim kv uk rk) = c - 2 /\ forall row, In row (approx_R K p c dim kv uk rk) -> length row = dim.
Proof.
  unfold approx_R. split; [now rewrite map_length, seq_length|].
  intros row Hr. apply in_map_iff in Hr. destruct Hr as (j & <- & _). now rewrite map_length, seq_length.
Qed.

(* N^T N exists: the three model calls succeed on an a x b matrix with a, b >= 1 *)
Lemma normal_matrix_ok (Nm : list (list T)) (a b : nat) :
  1 <= a -> 1 <= b -> length Nm = a -> (forall row, In row Nm -> length row = b) ->
  LinAlg.matrix_transpose K Nm = Ok (transpose K Nm) /\
  LinAlg.matrix_multiply K (transpose K Nm) Nm = Ok (mmul K (transpose K Nm) Nm) /\
  LinAlg.lu_decomposition K (mmul K (transpose K Nm) Nm) = Ok (LinAlg.doolittle K (mmul K (transpose K Nm) Nm)) /\
  length (transpose K Nm) = b /\ (forall row, In row (transpose K Nm) -> length row = a).
Proof.
  intros Ha Hb LN HN.
  destruct Nm as [|r0 Nr]; [simpl in LN; lia|]. set (Nm := r0 :: Nr) in *.
  assert (Lr0 : length r0 = b) by (apply HN; simpl; auto).
  assert (Lt : length (transpose K Nm) = b) by (unfold transpose; rewrite map_length, seq_length; exact Lr0).
  assert (Ht : forall row, In row (transpose K Nm) -> length row = a).
  { intros row Hr. unfold transpose in Hr. apply in_map_iff in Hr. destruct Hr as (i & <- & _). now rewrite map_length. }
  split; [|split; [|split; [|split; [exact Lt|exact Ht]]]].
  - change (LinAlg.matrix_transpose K Nm) with
      (if forallb (fun r => Nat.leb (length r0) (length r)) Nm then Ok (transpose K Nm) else Crash).
    replace (forallb (fun r => Nat.leb (length r0) (length r)) Nm) with true; [reflexivity|].
    symmetry. apply forallb_forall. intros r Hr. apply Nat.leb_le. rewrite (HN r Hr). lia.
  - unfold LinAlg.matrix_multiply.
    destruct (transpose K Nm) as [|t0 tr] eqn:Et; [simpl in Lt; lia|]. rewrite <- Et in *.
    rewrite (Ht t0) by (rewrite Et; simpl; auto). rewrite LN, Nat.eqb_refl. reflexivity.
  - unfold LinAlg.lu_decomposition. replace (is_square (mmul K (transpose K Nm) Nm)) with true; [reflexivity|].
    symmetry. unfold is_square, mmul. rewrite map_length. apply forallb_forall. intros row Hr.
    apply in_map_iff in Hr. destruct Hr as (ra & <- & _). rewrite map_length, seq_length, Lt. cbn [hd Nm]. rewrite Lr0. apply Nat.eqb_refl.
Qed.

(* The numerical part of approximate_curve (centripetal = False) with ctrlpts_size = c given.  dist = linalg.point_distance is
   uninterpreted (any total function).  wf: at least 3 data points and 3 control points, degree < c, c - degree <= number of data points,
   all points have d coordinates.  Solvability: the LU factors of N^T N have no zero on their diagonals (where that fails Python raises
   ZeroDivisionError and the model crashes - not tied, as for lu_solve).  ZeroDivisionError of compute_params_curve <-> Crash. *)
Theorem approximate_curve_tie (pts : list (list T)) (p c d : nat) (dist : list T -> list T -> gres T) (dm : list T -> list T -> T) :
  (forall a b, dist a b = GOk (dm a b)) -> 3 <= length pts -> 3 <= c -> p < c -> c - p <= length pts ->
  (forall pt, In pt pts -> length pt = d) ->
  (forall uk Lm Um, Fit.compute_params_curve K (chords_of dm pts) = Ok uk ->
     let Nm := approx_N K p c (Fit.compute_knot_vector2 K p (length pts) c uk) uk (length pts) in
     LinAlg.lu_decomposition K (mmul K (transpose K Nm) Nm) = Ok (Lm, Um) ->
     forall i, i < c - 2 -> i < length (nth i Lm []) /\ oeqb K (get2 K Lm i i) 0 = false
                             /\ c - 2 <= length (nth i Um []) /\ oeqb K (get2 K Um i i) 0 = false) ->
  FittingC.approximate_curve__centripetal_false K pts (Z.of_nat p) (Z.of_nat c) dist =
  res_to_gres (fun Pkv => mk_curvedata2 (Z.of_nat p) (fst Pkv) (snd Pkv)) ValueError ZeroDivisionError
    (Fit.approximate_curve K pts p c (chords_of dm pts)).
Proof.
  intros Hdist Hr Hc Hpc Hcr Hd Hsolv.
  set (r := length pts) in *.
  assert (Hne : pts <> []) by (intros E; unfold r in Hr; rewrite E in Hr; simpl in Hr; lia).
  unfold FittingC.approximate_curve__centripetal_false, Fit.approximate_curve.
  assert (E0 : znth pts 0%Z = GOk (nth 0 pts [])) by (apply (znth_lit0 pts []); fold r; lia).
  assert (Em : znth pts (-1)%Z = GOk (nth (Nat.pred r) pts [])).
  { rewrite (znth_last pts []) by exact Hne. rewrite last_nth. fold r. now replace (r - 1) with (Nat.pred r) by lia. }
  assert (Ld0 : length (nth 0 pts []) = d) by (apply Hd; apply nth_In; fold r; lia).
  rewrite E0. cbn [gbind]. change (zlen pts) with (Z.of_nat r). change (zlen (nth 0 pts [])) with (Z.of_nat (length (nth 0 pts []))). rewrite Ld0.
  rewrite (compute_params_curve_tie K LW pts dist dm Hdist Hne). fold (chords_of dm pts).
  destruct (Fit.compute_params_curve K (chords_of dm pts)) as [uk| |] eqn:Euk; cbn [res_to_gres gbind res_bind]; try reflexivity.
  assert (Luk : length uk = r).
  { rewrite (cpc_length K _ _ Euk). unfold chords_of. rewrite map_length, seq_length. fold r. lia. }
  rewrite (compute_knot_vector2_tie K NL p r c uk) by lia. cbn [gbind].
  set (kv := Fit.compute_knot_vector2 K p r c uk) in *.
  assert (Lkv : length kv = c + p + 1) by (unfold kv; now apply ckv2_length).
  (* N, N^T N, its LU factors *)
  rewrite (loop_N p c r kv uk) by lia. cbn [gbind].
  set (Nm := approx_N K p c kv uk r) in *.
  destruct (approxN_shape p c r kv uk) as [LN HN]. fold Nm in LN, HN.
  destruct (normal_matrix_ok Nm (r - 2) (c - 2)) as (Et & Emul & Elu & Lt & Ht); try lia; auto.
  rewrite (matrix_transpose_tie K Nm) by (intros row Hrow; rewrite (HN row Hrow), (HN (hd [] Nm)); [lia|destruct Nm; [simpl in LN; lia|simpl; auto]]).
  rewrite Et. cbn [res_to_gres gbind].
  rewrite (matrix_multiply_tie K LW (transpose K Nm) Nm).
  2:{ intros ra Hra. rewrite (Ht ra Hra). lia. }
  2:{ intros rb Hrb. rewrite (HN rb Hrb), (HN (hd [] Nm)); [lia|destruct Nm; [simpl in LN; lia|simpl; auto]]. }
  rewrite Emul. cbn [res_to_gres gbind].
  rewrite (lu_decomposition_tie K LW), Elu. cbn [res_to_gres gbind].
  set (NtN := mmul K (transpose K Nm) Nm) in *.
  destruct (LinAlg.doolittle K NtN) as [Lm Um] eqn:Edl.
  (* the control point table with its two fixed end points *)
  replace (Z.of_nat c) with (Z.of_nat c) by reflexivity.
  rewrite !map_const_zrange, !Nat2Z.id. cbn [gbind].
  rewrite zset_lit0 by (rewrite repeat_length; lia). cbn [gbind]. rewrite ?Em. cbn [gbind].
  rewrite zset_m1 by (rewrite upd_length, repeat_length; lia).
  rewrite upd_length, repeat_length. cbn [gbind]. rewrite ?E0. cbn [gbind]. rewrite ?Em. cbn [gbind].
  (* Rk, R *)
  rewrite (loop_Rk p c r kv uk pts (nth 0 pts []) (nth (Nat.pred r) pts [])) by (auto; lia). cbn [gbind].
  set (rk := approx_Rk K p c kv uk pts) in *.
  destruct (approxRk_shape p c d kv uk pts Hd) as [Lrk Hrk]. fold rk in Lrk, Hrk. fold r in Lrk.
  match goal with |- context [gfor (zrange 1 (Z.of_nat c - 1) 1) _ ?M0] =>
    rewrite (loop_R p c d kv uk rk M0) by (first [f_equal; lia | auto; lia]) end.
  cbn [gbind].
  set (vecR := approx_R K p c d kv uk rk) in *.
  destruct (approxR_shape p c d kv uk rk) as [LR HR]. fold vecR in LR, HR.
  (* the solution *)
  destruct (loop_cols c d Lm Um vecR (nth 0 pts []) (nth (Nat.pred r) pts [])) as (X & EX & Eloop); auto.
  { apply (Hsolv uk Lm Um eq_refl). exact Elu. }
  replace (c - 1) with (c - 1) by reflexivity. rewrite Eloop. cbn [gbind].
  (* the model *)
  unfold approx_1d. cbv zeta. fold r. fold kv.
  replace (length (hd [] pts)) with d by (destruct pts; [congruence|simpl in *; symmetry; apply Hd; simpl; auto]).
  fold Nm. rewrite Et. cbn [res_bind]. rewrite Emul. cbn [res_bind]. fold NtN. rewrite Elu. cbn [res_bind fst snd].
  fold rk vecR. rewrite EX. reflexivity.
Qed.
End Tie.

Require Import Reals Lra Qabs.
Lemma Rops_approx_laws : approx_laws Rops.
Proof. constructor; [apply Rops_nat_laws|]. intros x y. cbn [omul Rops]. apply Rmult_comm. Qed.
Lemma Qops_approx_laws : approx_laws Qops.
Proof.
  constructor; [apply Qops_nat_laws|]. intros x y. cbn [omul Qops]. apply Qred_complete. apply Qmult_comm.
Qed.

Definition approximate_curve_tie_R := @approximate_curve_tie _ Rops Rops_approx_laws.
Definition approximate_curve_tie_Q := @approximate_curve_tie _ Qops Qops_approx_laws.

(* ---- example: 6 data points, degree 2, 4 control points, dm = |x1 - x0| (unit chords); the values geomdl returns when
   linalg.point_distance is replaced by that function ---- *)
Local Open Scope Q_scope.
Definition exDmA (a b : list Q) : Q := Qabs (nth 0 a 0 - nth 0 b 0).
Definition exAP : list (list Q) := [[0; 0]; [1; 1]; [2; 0]; [3; 2]; [4; 1]; [5; 3]].
Example approximate_curve_ex :
  FittingC.approximate_curve__centripetal_false Qops exAP 2 4 (fun a b => GOk (exDmA a b)) =
    GOk (mk_curvedata2 2 [[0; 0]; [1; 1471 # 1740]; [7 # 2; 799 # 1160]; [5; 3]] [0; 0; 0; 2 # 5; 1; 1; 1])
  /\ Fit.approximate_curve Qops exAP 2 4 (chords_of exDmA exAP) =
    Ok ([[0; 0]; [1; 1471 # 1740]; [7 # 2; 799 # 1160]; [5; 3]], [0; 0; 0; 2 # 5; 1; 1; 1]).
Proof. split; vm_compute; reflexivity. Qed.
