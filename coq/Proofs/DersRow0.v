(* C02 [G]: row 0 of helpers.basis_function_ders (A2.3) is helpers.basis_function (A2.2):
   the upper triangle of the ndu table holds the basis functions of all lower degrees, ndu[r][j] = N_{span-j+r, j}.
   Holds for every degree, knot vector, span, parameter and requested order (pure program equivalence:
   both scans evaluate the same expressions, no hypothesis on the knots is needed). *)
From Coq Require Import List Reals Lra Lia Arith Bool.
From NV Require Import Scalar.Ops Model.Common Model.Basis.
Import ListNotations.
Open Scope R_scope.

(* ---- functional 2-D arrays ---- *)
Lemma upd_length {A} (l : list A) i x : length (upd l i x) = length l.
Proof. revert i; induction l; destruct i; simpl; auto. Qed.
Lemma nth_upd_same {A} (l : list A) i x d : (i < length l)%nat -> nth i (upd l i x) d = x.
Proof. revert i; induction l; destruct i; simpl; intros; try lia; auto. apply IHl. lia. Qed.
Lemma nth_upd_other {A} (l : list A) i j x d : i <> j -> nth j (upd l i x) d = nth j l d.
Proof. revert i j; induction l; destruct i, j; simpl; intros; try congruence; auto. Qed.

Lemma nth_map_in' {A B} (f : A -> B) (l : list A) n d d' : (n < length l)%nat -> nth n (map f l) d = f (nth n l d').
Proof. revert n; induction l; intros [|n] H; simpl in *; try lia; auto. apply IHl. lia. Qed.

Definition wf (m : list (list R)) (n : nat) : Prop := length m = n /\ forall i, (i < n)%nat -> length (nth i m []) = n.

Lemma set2_wf m n i j x : wf m n -> wf (set2 m i j x) n.
Proof.
  intros [L H]. unfold set2. split; [rewrite upd_length; exact L|].
  intros i' Hi'. destruct (Nat.eq_dec i i') as [->|Hne].
  - rewrite nth_upd_same by lia. rewrite upd_length. apply H. exact Hi'.
  - rewrite nth_upd_other by exact Hne. apply H. exact Hi'.
Qed.
Lemma get2_set2_same m n i j x : wf m n -> (i < n)%nat -> (j < n)%nat -> get2 Rops (set2 m i j x) i j = x.
Proof.
  intros [L H] Hi Hj. unfold get2, set2. rewrite nth_upd_same by lia. apply nth_upd_same. rewrite H by exact Hi. exact Hj.
Qed.
Lemma get2_set2_other m i j x i' j' : (i, j) <> (i', j') -> get2 Rops (set2 m i j x) i' j' = get2 Rops m i' j'.
Proof.
  intros Hne. unfold get2, set2. destruct (Nat.eq_dec i i') as [->|Hi].
  - assert (j <> j') by congruence.
    destruct (lt_dec i' (length m)) as [Hl|Hl].
    + rewrite nth_upd_same by exact Hl. apply nth_upd_other. assumption.
    + assert (E : upd m i' (upd (nth i' m []) j x) = m).
      { clear - Hl. revert i' Hl. induction m; intros [|i'] Hl; simpl in *; try lia; auto. f_equal. apply IHm. lia. }
      rewrite E. reflexivity.
  - rewrite nth_upd_other by exact Hi. reflexivity.
Qed.
Lemma mk2_wf n x : wf (mk2 n n x) n.
Proof.
  unfold mk2. split; [apply repeat_length|]. intros i Hi.
  assert (E : nth i (repeat (repeat x n) n) [] = repeat x n).
  { clear - Hi. revert i Hi. generalize (repeat x n) as row. induction n; intros row [|i] Hi; simpl; try lia; auto. apply IHn. lia. }
  rewrite E. apply repeat_length.
Qed.

Section Row0.
Variables (U : list R) (span : nat) (u : R).
Notation lft := (Basis.left Rops U span u).
Notation rgt := (Basis.right Rops U span u).
Notation bf q := (basis_function Rops q U span u).

Lemma inner_length j : forall l r s, length (Basis.inner Rops U span u j r l s) = S (length l).
Proof. induction l; simpl; intros; auto. Qed.
Lemma bf_len q : length (bf q) = S q.
Proof. induction q; simpl; auto. rewrite inner_length, IHq. reflexivity. Qed.

Definition body (j : nat) (st : list (list R) * R) (r : nat) : list (list R) * R :=
  let '(nd, saved) := st in
  let d := oadd Rops (rgt (S r)) (lft (Nat.sub j r)) in
  let nd1 := set2 nd j r d in
  let temp := odiv Rops (get2 Rops nd1 r (Nat.pred j)) d in
  let nd2 := set2 nd1 r j (oadd Rops saved (omul Rops (rgt (S r)) temp)) in
  (nd2, omul Rops (lft (Nat.sub j r)) temp).

Definition touched (j r0 a b : nat) : Prop := (a = j /\ r0 <= b < j)%nat \/ (b = j /\ r0 <= a < j)%nat.

Lemma inner_loop n j : (0 < j < n)%nat -> forall rest r0 nd saved, (r0 + length rest = j)%nat -> wf nd n ->
  (forall m, (m < length rest)%nat -> get2 Rops nd (r0 + m) (j - 1) = nth m rest 0) ->
  let res := fold_left (body j) (seq r0 (length rest)) (nd, saved) in
  wf (fst res) n /\
  (forall a b, ~ touched j r0 a b -> get2 Rops (fst res) a b = get2 Rops nd a b) /\
  (forall m, (m < length rest)%nat -> get2 Rops (fst res) (r0 + m) j = nth m (Basis.inner Rops U span u j r0 rest saved) 0) /\
  snd res = nth (length rest) (Basis.inner Rops U span u j r0 rest saved) 0.
Proof.
  intros Hj. induction rest as [|x rest IH]; intros r0 nd saved Hlen Hwf Hcol; cbn [length seq fold_left].
  - cbn [fst snd Basis.inner nth]. repeat split; auto; try apply Hwf. intros m Hm. cbn in Hm. lia.
  - cbn [length] in Hlen.
    set (d := oadd Rops (rgt (S r0)) (lft (j - r0))).
    set (nd1 := set2 nd j r0 d).
    assert (Hread : get2 Rops nd1 r0 (Nat.pred j) = x).
    { unfold nd1. rewrite get2_set2_other by (intros E; injection E; lia).
      replace (Nat.pred j) with (j - 1)%nat by lia. specialize (Hcol 0%nat ltac:(cbn; lia)).
      rewrite Nat.add_0_r in Hcol. exact Hcol. }
    set (temp := odiv Rops x d).
    set (nd2 := set2 nd1 r0 j (oadd Rops saved (omul Rops (rgt (S r0)) temp))).
    assert (Hstep : body j (nd, saved) r0 = (nd2, omul Rops (lft (j - r0)) temp)).
    { unfold body. fold d. fold nd1. rewrite Hread. fold temp. fold nd2. reflexivity. }
    rewrite Hstep.
    assert (Hwf2 : wf nd2 n) by (unfold nd2, nd1; apply set2_wf, set2_wf; exact Hwf).
    assert (Hframe2 : forall a b, ~ touched j r0 a b -> get2 Rops nd2 a b = get2 Rops nd a b).
    { intros a b Hnt. unfold nd2, nd1. rewrite !get2_set2_other; auto.
      - intros E. injection E as <- <-. apply Hnt. left. lia.
      - intros E. injection E as <- <-. apply Hnt. right. lia. }
    specialize (IH (S r0) nd2 (omul Rops (lft (j - r0)) temp) ltac:(lia) Hwf2).
    destruct IH as [W [Fr [Col Sv]]].
    { intros m Hm. rewrite Hframe2 by (unfold touched; lia).
      specialize (Hcol (S m) ltac:(cbn; lia)). cbn [nth] in Hcol. rewrite <- Hcol. f_equal. lia. }
    cbn [Basis.inner]. fold d. fold temp.
    split; [exact W|]. split; [|split].
    + intros a b Hnt. rewrite Fr by (unfold touched in *; lia). apply Hframe2. exact Hnt.
    + intros [|m] Hm.
      * cbn [nth]. rewrite Nat.add_0_r. rewrite Fr by (unfold touched; lia).
        unfold nd2. apply (get2_set2_same _ n); [apply set2_wf; exact Hwf|lia|lia].
      * cbn [nth]. replace (r0 + S m)%nat with (S r0 + m)%nat by lia. apply Col. cbn in Hm. lia.
    + exact Sv.
Qed.

(* upper triangle up to column j holds the basis functions of degree <= j *)
Definition upper (T : list (list R)) (n j : nat) : Prop :=
  wf T n /\ forall j' r, (j' <= j)%nat -> (r <= j')%nat -> get2 Rops T r j' = nth r (bf j') 0.

Definition column (ndu : list (list R)) (j : nat) : list (list R) :=
  let '(ndu', saved) := fold_left (body j) (seq 0 j) (ndu, o0 Rops) in set2 ndu' j j saved.

Lemma ndu_table_fold p : ndu_table Rops p U span u = fold_left column (seq 1 p) (mk2 (S p) (S p) (o1 Rops)).
Proof. reflexivity. Qed.

Lemma column_upper n j T : (S j < n)%nat -> upper T n j -> upper (column T (S j)) n (S j).
Proof.
  intros Hj [Hwf Hup]. unfold column.
  pose proof (inner_loop n (S j) ltac:(lia) (bf j) 0%nat T (o0 Rops)) as H.
  rewrite bf_len in H. specialize (H ltac:(lia) Hwf).
  destruct H as [W [Fr [Col Sv]]].
  { intros m Hm. cbn [Nat.add]. replace (S j - 1)%nat with j by lia. apply Hup; lia. }
  destruct (fold_left (body (S j)) (seq 0 (S j)) (T, o0 Rops)) as [T' saved] eqn:E. cbn [fst snd] in *.
  split; [apply set2_wf; exact W|].
  intros j' r Hj' Hr.
  destruct (Nat.eq_dec j' (S j)) as [->|Hne].
  - cbn [basis_function]. destruct (Nat.eq_dec r (S j)) as [->|Hr2].
    + rewrite (get2_set2_same _ n) by (auto; lia). exact Sv.
    + rewrite get2_set2_other by (intros E2; injection E2; lia). apply (Col r). lia.
  - rewrite get2_set2_other by (intros E2; injection E2; lia).
    rewrite Fr by (unfold touched; lia). apply Hup; lia.
Qed.

Lemma columns_upper n : forall m j T, (j + m < n)%nat -> upper T n j -> upper (fold_left column (seq (S j) m) T) n (j + m).
Proof.
  induction m as [|m IH]; intros j T Hn HT; cbn [seq fold_left].
  - rewrite Nat.add_0_r. exact HT.
  - replace (j + S m)%nat with (S j + m)%nat by lia. apply IH; [lia|]. apply column_upper; [lia|exact HT].
Qed.

Theorem ndu_upper p : upper (ndu_table Rops p U span u) (S p) p.
Proof.
  rewrite ndu_table_fold. apply (columns_upper (S p) p 0%nat); [lia|].
  split; [apply mk2_wf|]. intros j' r Hj' Hr. assert (j' = 0%nat) by lia. assert (r = 0%nat) by lia. subst. reflexivity.
Qed.

(* row 0 of A2.3 (for any requested order) is A2.2 *)
Theorem ders_row0_is_basis_function p order :
  nth 0 (basis_function_ders Rops p U span u order) [] = basis_function Rops p U span u.
Proof.
  unfold basis_function_ders. cbn [nth].
  destruct (ndu_upper p) as [_ Hup].
  apply (nth_ext _ _ 0 0).
  - rewrite map_length, seq_length, bf_len. reflexivity.
  - intros r Hr. rewrite map_length, seq_length in Hr.
    rewrite (nth_map_in' _ _ _ _ 0%nat) by (rewrite seq_length; exact Hr).
    rewrite seq_nth by exact Hr. cbn [Nat.add]. apply Hup; lia.
Qed.
End Row0.
