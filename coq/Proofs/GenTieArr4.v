(* Four-level nested lists as arrays M[k][l][i][j] (the tables of helpers.surface_deriv_cpts): get4 / set4, rectangular
   shapes, and the continuation forms of the accesses the generated code makes. *)
From Coq Require Import List ZArith Arith Bool Lia.
From NV Require Import Scalar.Ops Model.Common Gen.Prelude Gen.PreludeExt Proofs.GenTieLib Proofs.GenTieLib2.
Import ListNotations.
Local Open Scope nat_scope.

Section Arr4.
Context {A : Type} (d : A).
Notation L1 := (list A). Notation L2 := (list (list A)). Notation L3 := (list (list (list A))). Notation L4 := (list (list (list (list A)))).

Definition get4 (M : L4) (k l i j : nat) : A := nth j (nth i (nth l (nth k M []) []) []) d.
Definition set4 (M : L4) (k l i j : nat) (v : A) : L4 :=
  upd M k (upd (nth k M []) l (upd (nth l (nth k M []) []) i (upd (nth i (nth l (nth k M []) []) []) j v))).
Definition shape4 (a b c e : nat) (M : L4) : Prop :=
  length M = a /\ forall k, k < a -> length (nth k M []) = b /\ forall l, l < b -> length (nth l (nth k M []) []) = c
    /\ forall i, i < c -> length (nth i (nth l (nth k M []) []) []) = e.

Lemma shape4_set4 a b c e M k l i j v : shape4 a b c e M -> shape4 a b c e (set4 M k l i j v).
Proof.
  intros (H1 & H2). unfold set4. split; [now rewrite upd_length|].
  intros k' Hk'. rewrite nth_upd, H1. destruct (H2 k' Hk') as (H3 & H4).
  destruct (Nat.eqb_spec k k') as [->|]; [|split; auto].
  destruct (Nat.ltb_spec k' a); [|lia]. rewrite upd_length. split; [exact H3|].
  intros l' Hl'. rewrite nth_upd, H3. destruct (H4 l' Hl') as (H5 & H6).
  destruct (Nat.eqb_spec l l') as [->|]; [|split; auto].
  destruct (Nat.ltb_spec l' b); [|lia]. rewrite upd_length. split; [exact H5|].
  intros i' Hi'. rewrite nth_upd, H5. specialize (H6 i' Hi').
  destruct (Nat.eqb_spec i i') as [->|]; [|auto].
  destruct (Nat.ltb_spec i' c); [|lia]. now rewrite upd_length.
Qed.

Lemma get4_set4 a b c e M k l i j v k' l' i' j' : shape4 a b c e M -> k < a -> l < b -> i < c -> j < e ->
  get4 (set4 M k l i j v) k' l' i' j' =
  if andb (andb (Nat.eqb k k') (Nat.eqb l l')) (andb (Nat.eqb i i') (Nat.eqb j j')) then v else get4 M k' l' i' j'.
Proof.
  intros (H1 & H2) Hk Hl Hi Hj. destruct (H2 k Hk) as (H3 & H4). destruct (H4 l Hl) as (H5 & H6). specialize (H6 i Hi).
  unfold get4, set4. rewrite nth_upd, H1.
  destruct (Nat.eqb_spec k k') as [<-|]; cbn [andb]; [|reflexivity].
  destruct (Nat.ltb_spec k a); [|lia]. rewrite nth_upd, H3.
  destruct (Nat.eqb_spec l l') as [<-|]; cbn [andb]; [|reflexivity].
  destruct (Nat.ltb_spec l b); [|lia]. rewrite nth_upd, H5.
  destruct (Nat.eqb_spec i i') as [<-|]; cbn [andb]; [|reflexivity].
  destruct (Nat.ltb_spec i c); [|lia]. rewrite nth_upd, H6.
  destruct (Nat.eqb_spec j j') as [<-|]; [|reflexivity].
  destruct (Nat.ltb_spec j e); [reflexivity|lia].
Qed.

(* the generated  M[k][l][i][j] = v  *)
Lemma zset4k a b c e (M : L4) (k l i j : Z) v {B} (cont : L4 -> gres B) :
  shape4 a b c e M -> (0 <= k < Z.of_nat a)%Z -> (0 <= l < Z.of_nat b)%Z -> (0 <= i < Z.of_nat c)%Z -> (0 <= j < Z.of_nat e)%Z ->
  gbind (znth M k) (fun r1 => gbind (znth r1 l) (fun r2 => gbind (znth r2 i) (fun r3 =>
    gbind (zset r3 j v) (fun r3' => gbind (zset r2 i r3') (fun r2' => gbind (zset r1 l r2') (fun r1' => gbind (zset M k r1') cont))))))
  = cont (set4 M (Z.to_nat k) (Z.to_nat l) (Z.to_nat i) (Z.to_nat j) v).
Proof.
  intros (H1 & H2) Hk Hl Hi Hj.
  destruct (H2 (Z.to_nat k) ltac:(lia)) as (H3 & H4). destruct (H4 (Z.to_nat l) ltac:(lia)) as (H5 & H6).
  specialize (H6 (Z.to_nat i) ltac:(lia)).
  rewrite (znth_Z M k []) by lia. cbn [gbind]. rewrite (znth_Z _ l []) by lia. cbn [gbind].
  rewrite (znth_Z _ i []) by lia. cbn [gbind]. rewrite zset_Z by lia. cbn [gbind].
  rewrite zset_Z by lia. cbn [gbind]. rewrite zset_Z by lia. cbn [gbind]. rewrite zset_Z by lia. reflexivity.
Qed.

(* the generated read of a row M[k][l][i] *)
Lemma zget3k a b c e (M : L4) (k l i : Z) {B} (cont : L1 -> gres B) :
  shape4 a b c e M -> (0 <= k < Z.of_nat a)%Z -> (0 <= l < Z.of_nat b)%Z -> (0 <= i < Z.of_nat c)%Z ->
  gbind (znth M k) (fun r1 => gbind (znth r1 l) (fun r2 => gbind (znth r2 i) cont))
  = cont (nth (Z.to_nat i) (nth (Z.to_nat l) (nth (Z.to_nat k) M []) []) []).
Proof.
  intros (H1 & H2) Hk Hl Hi. destruct (H2 (Z.to_nat k) ltac:(lia)) as (H3 & H4). destruct (H4 (Z.to_nat l) ltac:(lia)) as (H5 & H6).
  rewrite (znth_Z M k []) by lia. cbn [gbind]. rewrite (znth_Z _ l []) by lia. cbn [gbind].
  rewrite (znth_Z _ i []) by lia. reflexivity.
Qed.

Lemma shape4_repeat a b c e (x : A) : shape4 a b c e (repeat (repeat (repeat (repeat x e) c) b) a).
Proof.
  split; [apply repeat_length|]. intros k Hk. rewrite nth_repeat_lt by lia. split; [apply repeat_length|].
  intros l Hl. rewrite nth_repeat_lt by lia. split; [apply repeat_length|].
  intros i Hi. rewrite nth_repeat_lt by lia. apply repeat_length.
Qed.

Lemma get4_set4_eq a b c e M k l i j v : shape4 a b c e M -> k < a -> l < b -> i < c -> j < e ->
  get4 (set4 M k l i j v) k l i j = v.
Proof. intros. rewrite (get4_set4 a b c e) by assumption. now rewrite !Nat.eqb_refl. Qed.

Lemma get4_set4_neq a b c e M k l i j v k' l' i' j' : shape4 a b c e M -> k < a -> l < b -> i < c -> j < e ->
  (k, l, i, j) <> (k', l', i', j') -> get4 (set4 M k l i j v) k' l' i' j' = get4 M k' l' i' j'.
Proof.
  intros W Hk Hl Hi Hj Hne. rewrite (get4_set4 a b c e) by assumption.
  destruct (Nat.eqb_spec k k'); destruct (Nat.eqb_spec l l'); destruct (Nat.eqb_spec i i'); destruct (Nat.eqb_spec j j');
    cbn [andb]; try reflexivity. subst. congruence.
Qed.

(* a double loop  for X in range(a1, a1+n1): for Y in inner(X): M[pk][pl][pi][pj] = val  whose positions are pairwise different *)
Lemma set4_loop2 a b c e (n1 : nat) (n2 : nat -> nat) (a1 a2 : nat)
   (pk pl pi pj : nat -> nat -> nat) (val : nat -> nat -> A)
   (inner : Z -> list Z) (body : Z -> Z -> L4 -> gres L4) (M0 : L4) :
  shape4 a b c e M0 ->
  (forall x, x < n1 -> inner (Z.of_nat (a1 + x)) = map Z.of_nat (seq a2 (n2 x))) ->
  (forall x y, x < n1 -> y < n2 x -> pk x y < a /\ pl x y < b /\ pi x y < c /\ pj x y < e) ->
  (forall x y M, x < n1 -> y < n2 x -> shape4 a b c e M ->
      body (Z.of_nat (a1 + x)) (Z.of_nat (a2 + y)) M = GOk (set4 M (pk x y) (pl x y) (pi x y) (pj x y) (val x y))) ->
  (forall x y x' y', x < n1 -> y < n2 x -> x' < n1 -> y' < n2 x' ->
      (pk x y, pl x y, pi x y, pj x y) = (pk x' y', pl x' y', pi x' y', pj x' y') -> x = x' /\ y = y') ->
  exists M', gfor (map Z.of_nat (seq a1 n1)) (fun X M => gbind (gfor (inner X) (fun Y M => body X Y M) M) (fun M => GOk M)) M0 = GOk M'
    /\ shape4 a b c e M'
    /\ (forall x y, x < n1 -> y < n2 x -> get4 M' (pk x y) (pl x y) (pi x y) (pj x y) = val x y)
    /\ (forall k l i j, (forall x y, x < n1 -> y < n2 x -> (pk x y, pl x y, pi x y, pj x y) <> (k, l, i, j)) ->
          get4 M' k l i j = get4 M0 k l i j).
Proof.
  intros W0 Hinner Hb Hbody Hinj.
  destruct (gfor_seq_inv (fun xa (M : L4) => shape4 a b c e M
      /\ (forall x y, a1 + x < xa -> x < n1 -> y < n2 x -> get4 M (pk x y) (pl x y) (pi x y) (pj x y) = val x y)
      /\ (forall k l i j, (forall x y, a1 + x < xa -> x < n1 -> y < n2 x -> (pk x y, pl x y, pi x y, pj x y) <> (k, l, i, j)) ->
            get4 M k l i j = get4 M0 k l i j))
    (fun X M => gbind (gfor (inner X) (fun Y M => body X Y M) M) (fun M => GOk M)) n1 a1) with (s := M0) as (M' & E & W' & H1 & H2).
  - intros xa M Hxa (W & Hv & Hf). set (x := xa - a1). assert (Ex : xa = a1 + x) by (unfold x; lia). assert (Hx : x < n1) by lia.
    rewrite Ex, (Hinner x Hx).
    destruct (gfor_seq_inv (fun ya (M2 : L4) => shape4 a b c e M2
        /\ (forall x' y', (a1 + x' < xa \/ (x' = x /\ a2 + y' < ya)) -> x' < n1 -> y' < n2 x' ->
              get4 M2 (pk x' y') (pl x' y') (pi x' y') (pj x' y') = val x' y')
        /\ (forall k l i j, (forall x' y', (a1 + x' < xa \/ (x' = x /\ a2 + y' < ya)) -> x' < n1 -> y' < n2 x' ->
              (pk x' y', pl x' y', pi x' y', pj x' y') <> (k, l, i, j)) -> get4 M2 k l i j = get4 M0 k l i j))
      (fun Y M => body (Z.of_nat (a1 + x)) Y M) (n2 x) a2) with (s := M) as (M2 & E2 & W2 & Hv2 & Hf2).
    + intros ya M2 Hya (W2 & Hv2 & Hf2). set (y := ya - a2). assert (Ey : ya = a2 + y) by (unfold y; lia). assert (Hy : y < n2 x) by lia.
      rewrite Ey, (Hbody x y M2 Hx Hy W2). eexists. split; [reflexivity|].
      destruct (Hb x y Hx Hy) as (B1 & B2 & B3 & B4).
      split; [now apply shape4_set4|]. split.
      * intros x' y' Hc Hx' Hy'.
        destruct (Nat.eq_dec x' x) as [->|Hnx]; [destruct (Nat.eq_dec y' y) as [->|Hny]|].
        -- now apply (get4_set4_eq a b c e).
        -- rewrite (get4_set4_neq a b c e);
             [| exact W2 | exact B1 | exact B2 | exact B3 | exact B4 | intros Heq; destruct (Hinj x y x y' Hx Hy Hx Hy' Heq); lia].
           apply Hv2; auto. destruct Hc as [Hc|[_ Hc]]; [left; exact Hc|right; split; [reflexivity|lia]].
        -- rewrite (get4_set4_neq a b c e);
             [| exact W2 | exact B1 | exact B2 | exact B3 | exact B4 | intros Heq; destruct (Hinj x y x' y' Hx Hy Hx' Hy' Heq); lia].
           apply Hv2; auto. destruct Hc as [Hc|[Hc _]]; [left; exact Hc|congruence].
      * intros k l i j Hne. rewrite (get4_set4_neq a b c e);
          [| exact W2 | exact B1 | exact B2 | exact B3 | exact B4 | apply Hne; [right; split; [reflexivity|lia] | exact Hx | exact Hy]].
        apply Hf2. intros x' y' Hc Hx' Hy'. apply Hne; auto. destruct Hc as [Hc|[Hc1 Hc2]]; [left; exact Hc|right; split; [exact Hc1|lia]].
    + split; [exact W|]. split.
      * intros x' y' [Hc|[_ Hc]] Hx' Hy'; [apply Hv; auto|lia].
      * intros k l i j Hne. apply Hf. intros x' y' Hc Hx' Hy'. apply Hne; auto.
    + rewrite E2. cbn [gbind]. eexists. split; [reflexivity|]. split; [exact W2|]. split.
      * intros x' y' Hc Hx' Hy'. apply Hv2; auto. destruct (Nat.eq_dec x' x) as [->|]; [right; split; [reflexivity|lia]|left; lia].
      * intros k l i j Hne. apply Hf2. intros x' y' Hc Hx' Hy'. apply Hne; auto. destruct Hc as [Hc|[-> _]]; lia.
  - split; [exact W0|]. split; [intros x y Hc; lia|]. intros. reflexivity.
  - exists M'. split; [exact E|]. split; [exact W'|]. split.
    + intros x y Hx Hy. apply H1; auto. lia.
    + intros k l i j Hne. apply H2. intros x y _ Hx Hy. now apply Hne.
Qed.
End Arr4.
