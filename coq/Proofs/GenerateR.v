(* C03: knotvector.generate produces valid knot vectors: documented length, non-decreasing, end multiplicities p+1, accepted by check. *)
From Coq Require Import List Reals Lra Lia Arith Bool.
From NV Require Import Scalar.Ops Model.Common Model.Knots Proofs.KnotsR Proofs.EvalR.
Import ListNotations.
Open Scope R_scope.

Definition nthsorted (l : list R) : Prop := forall i j, (i <= j < length l)%nat -> nth i l 0 <= nth j l 0.

Lemma nondecr_of_nthsorted l prev : nthsorted l -> (forall x, In x l -> prev <= x) -> nondecr prev l.
Proof.
  revert prev. induction l as [|a l IH]; intros prev Hs Hp; cbn [nondecr]; [exact I|].
  split; [apply Hp; left; reflexivity|].
  apply IH.
  - intros i j Hij. apply (Hs (S i) (S j)). cbn [length]. lia.
  - intros x Hx. destruct (In_nth l x 0 Hx) as [k [Hk Ek]]. rewrite <- Ek. apply (Hs 0%nat (S k)). cbn [length]. lia.
Qed.

Lemma linspace01_nth tol8 n i : tol8 < 1 -> (2 <= n)%nat -> (i < n)%nat ->
  nth i (linspace Rops tol8 0 1 n) 0 = INR i / INR (n - 1).
Proof.
  intros Ht Hn Hi. rewrite linspace_nth; try assumption.
  - unfold Rdiv. ring.
  - rewrite Rabs_minus_sym. replace (1 - 0) with 1 by ring. rewrite Rabs_R1. exact Ht.
Qed.
Lemma linspace01_length tol8 n : tol8 < 1 -> (2 <= n)%nat -> length (linspace Rops tol8 0 1 n) = n.
Proof.
  intros Ht Hn. apply linspace_length; [|exact Hn].
  rewrite Rabs_minus_sym. replace (1 - 0) with 1 by ring. rewrite Rabs_R1. exact Ht.
Qed.

(* the three blocks of a clamped generated knot vector *)
Lemma gen_nth tol8 p m i : tol8 < 1 -> (2 <= m)%nat -> (i < p + m + p)%nat ->
  nth i (repeat 0 p ++ linspace Rops tol8 0 1 m ++ repeat 1 p) 0 =
  if lt_dec i p then 0 else if lt_dec i (p + m) then INR (i - p) / INR (m - 1) else 1.
Proof.
  intros Ht Hm Hi. destruct (lt_dec i p) as [H1|H1].
  - rewrite app_nth1 by (rewrite repeat_length; exact H1). apply nth_repeat.
  - rewrite app_nth2 by (rewrite repeat_length; lia). rewrite repeat_length.
    destruct (lt_dec i (p + m)) as [H2|H2].
    + rewrite app_nth1 by (rewrite linspace01_length by assumption; lia). apply linspace01_nth; try assumption; lia.
    + rewrite app_nth2 by (rewrite linspace01_length by assumption; lia). rewrite linspace01_length by assumption.
      rewrite (nth_indep _ 0 1) by (rewrite repeat_length; lia). apply nth_repeat.
Qed.

Lemma frac_bounds k m : (2 <= m)%nat -> (k < m)%nat -> 0 <= INR k / INR (m - 1) <= 1.
Proof.
  intros Hm Hk. assert (0 < INR (m - 1)) by (apply lt_0_INR; lia).
  assert (0 <= INR k) by apply pos_INR. assert (INR k <= INR (m - 1)) by (apply le_INR; lia).
  split.
  - apply Rmult_le_pos; [assumption|]. left. apply Rinv_0_lt_compat. assumption.
  - apply (Rmult_le_reg_r (INR (m - 1))); [assumption|]. unfold Rdiv. rewrite Rmult_assoc, Rinv_l by lra. lra.
Qed.

Lemma frac_mono a b m : (2 <= m)%nat -> (a <= b)%nat -> INR a / INR (m - 1) <= INR b / INR (m - 1).
Proof.
  intros Hm Hab. assert (0 < INR (m - 1)) by (apply lt_0_INR; lia).
  unfold Rdiv. apply Rmult_le_compat_r; [left; apply Rinv_0_lt_compat; assumption|apply le_INR; exact Hab].
Qed.

Lemma gen_sorted tol8 p m : tol8 < 1 -> (2 <= m)%nat -> nthsorted (repeat 0 p ++ linspace Rops tol8 0 1 m ++ repeat 1 p).
Proof.
  intros Ht Hm i j Hij.
  rewrite !app_length, !repeat_length, linspace01_length in Hij by assumption.
  rewrite !gen_nth by (try assumption; lia).
  destruct (lt_dec i p), (lt_dec j p), (lt_dec i (p + m)), (lt_dec j (p + m)); try lia; try lra.
  - apply (frac_bounds (j - p) m); lia.
  - apply frac_mono; lia.
  - apply (frac_bounds (i - p) m); lia.
Qed.

(* [G] for every degree p >= 1 and count n >= p + 1: the clamped generated vector has length n + p + 1, is non-decreasing,
   starts with p+1 zeros, ends with p+1 ones, and passes check *)
Theorem generate_clamped_valid tol8 p n : 0 <= tol8 < 1 -> (1 <= p)%nat -> (p + 1 <= n)%nat ->
  exists U, generate Rops tol8 p n true = Ok U /\ length U = (n + p + 1)%nat /\ nthsorted U /\
    (forall i, (i <= p)%nat -> nth i U 0 = 0) /\ (forall i, (n <= i < n + p + 1)%nat -> nth i U 0 = 1) /\
    check Rops p U n = Ok true.
Proof.
  intros [Ht0 Ht] Hp Hn. unfold generate.
  destruct (Nat.eqb_spec p 0); [lia|]. destruct (Nat.eqb_spec n 0); [lia|]. cbn [orb].
  set (m := (n + 2 - S p)%nat). assert (Hm : (2 <= m)%nat) by (unfold m; lia).
  rsimp. eexists. split; [reflexivity|].
  assert (HL : length (repeat 0 p ++ linspace Rops tol8 0 1 m ++ repeat 1 p) = (n + p + 1)%nat).
  { rewrite !app_length, !repeat_length, linspace01_length by assumption. unfold m. lia. }
  split; [exact HL|]. split; [apply gen_sorted; assumption|]. split; [|split].
  - intros i Hi. rewrite gen_nth by (try assumption; unfold m; lia).
    destruct (lt_dec i p); [reflexivity|]. destruct (lt_dec i (p + m)); [|unfold m in *; lia].
    replace (i - p)%nat with 0%nat by lia. cbn [INR]. unfold Rdiv. ring.
  - intros i Hi. rewrite gen_nth by (try assumption; unfold m; lia).
    destruct (lt_dec i p); [lia|]. destruct (lt_dec i (p + m)); [|reflexivity].
    assert (i = n) by (unfold m in *; lia). subst i. replace (n - p)%nat with (m - 1)%nat by (unfold m; lia).
    assert (0 < INR (m - 1)) by (apply lt_0_INR; lia). field. lra.
  - destruct (repeat 0 p ++ linspace Rops tol8 0 1 m ++ repeat 1 p) as [|f U'] eqn:E; [cbn in HL; lia|].
    apply check_spec. split; [rewrite HL; lia|].
    apply nondecr_of_nthsorted.
    + intros i j Hij. pose proof (gen_sorted tol8 p m Ht Hm (S i) (S j)) as H. rewrite E in H. apply H. cbn [length]. lia.
    + intros x Hx. destruct (In_nth U' x 0 Hx) as [k [Hk Ek]]. rewrite <- Ek.
      pose proof (gen_sorted tol8 p m Ht Hm 0%nat (S k)) as H. rewrite E in H. apply H. cbn [length]. lia.
Qed.
