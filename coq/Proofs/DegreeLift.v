(* C08: from scalar control values to points of any dimension (and flattened rows of points), end points,
   rejection.  The coordinate-wise behaviour of Model.Degree is the free theorem of its abstract point type
   (Paramcoq): every coordinate of the output is the scalar algorithm run on that coordinate of the input. *)
From Coq Require Import List Reals Lra Lia Arith Bool ZArith.
From Param Require Import Param.
From NV Require Import Scalar.Ops Model.Common Model.Degree Proofs.DegreeR.
Import ListNotations.
Open Scope R_scope.

Realizer binom as binom_R := (nat2_R_proof binom).
Parametricity Recursive ofnat_bin.
Parametricity Recursive degree_elevation_core.
Parametricity Recursive degree_reduction_core.

Lemma Rops_eq : ops_R R R (fun a b => a = b) Rops Rops.
Proof.
  constructor; try reflexivity; try (intros a a' -> b b' ->; reflexivity);
    intros a a' -> b b' ->; apply bool_R_refl.
Qed.

Lemma nth_map_in {A B} (f : A -> B) (l : list A) n d d' : (n < length l)%nat -> nth n (map f l) d = f (nth n l d').
Proof. revert n; induction l; intros [|n] H; simpl in *; try lia; auto. apply IHl. lia. Qed.

Section Lift.
Variables (d c : nat).
Hypothesis Hc : (c < d)%nat.
Definition PtR (pt : list R) (x : R) : Type := ((length pt = d) * (nth c pt 0 = x))%type.

Lemma zipw_R (f1 f2 : R -> R -> R) :
  (forall a a', a = a' -> forall b b', b = b' -> f1 a b = f2 a' b') ->
  forall p1 x1, PtR p1 x1 -> forall p2 x2, PtR p2 x2 -> PtR (lzipw f1 p1 p2) (szipw f2 x1 x2).
Proof.
  intros Hf p1 x1 [L1 E1] p2 x2 [L2 E2]. unfold PtR, lzipw, szipw. split.
  - rewrite map_length, combine_length. lia.
  - rewrite (nth_map_in _ _ _ _ (0, 0)) by (rewrite combine_length; lia). rewrite combine_nth by lia. cbn [fst snd]. rewrite E1, E2. apply Hf; reflexivity.
Qed.

Lemma zlike_R p1 x1 : PtR p1 x1 -> PtR (lzlike Rops p1) (szlike Rops x1).
Proof.
  intros [L1 E1]. unfold PtR, lzlike, szlike. split.
  - rewrite map_length. exact L1.
  - rewrite (nth_map_in _ _ _ _ 0) by lia. reflexivity.
Qed.

Lemma listR_of_Forall P : Forall (fun pt => length pt = d) P -> list_R _ _ PtR P (coord c P).
Proof.
  induction P as [|x l IH]; intros HF; cbn; constructor.
  - split; [exact (Forall_inv HF)|reflexivity].
  - apply IH. exact (Forall_inv_tail HF).
Qed.

Lemma listR_inv Q1 Q2 : list_R _ _ PtR Q1 Q2 -> coord c Q1 = Q2 /\ Forall (fun pt => length pt = d) Q1.
Proof.
  induction 1 as [|q1 q2 [L E] Q1 Q2 HR [IH1 IH2]]; [split; [reflexivity|constructor]|].
  split; [cbn [coord map]; fold (coord c Q1); rewrite E, IH1; reflexivity|constructor; auto].
Qed.

Lemma hd_coord pd P : hd 0 (coord c (pd :: P)) = nth c pd 0.
Proof. reflexivity. Qed.

Theorem elev_core_coord pd P p t : Forall (fun pt => length pt = d) (pd :: P) ->
  coord c (degree_elevation_core Rops lzipw (lzlike Rops) pd p (pd :: P) t) = degree_elevation_sc Rops p (coord c (pd :: P)) t /\
  Forall (fun pt => length pt = d) (degree_elevation_core Rops lzipw (lzlike Rops) pd p (pd :: P) t).
Proof.
  intros HF. apply listR_inv. unfold degree_elevation_sc. rewrite hd_coord.
  apply (degree_elevation_core_R R R (fun a b => a = b) Rops Rops Rops_eq (list R) R PtR lzipw szipw).
  - intros f1 f2 Hf. apply zipw_R. intros; apply Hf; assumption.
  - exact zlike_R.
  - split; [exact (Forall_inv HF)|reflexivity].
  - apply nat_R_refl.
  - apply listR_of_Forall. exact HF.
  - apply nat_R_refl.
Qed.

Theorem red_core_coord pd P p : Forall (fun pt => length pt = d) (pd :: P) ->
  coord c (degree_reduction_core Rops lzipw (lzlike Rops) pd p (pd :: P)) = degree_reduction_sc Rops p (coord c (pd :: P)) /\
  Forall (fun pt => length pt = d) (degree_reduction_core Rops lzipw (lzlike Rops) pd p (pd :: P)).
Proof.
  intros HF. apply listR_inv. unfold degree_reduction_sc. rewrite hd_coord.
  apply (degree_reduction_core_R R R (fun a b => a = b) Rops Rops Rops_eq (list R) R PtR lzipw szipw).
  - intros f1 f2 Hf. apply zipw_R. intros; apply Hf; assumption.
  - exact zlike_R.
  - split; [exact (Forall_inv HF)|reflexivity].
  - apply nat_R_refl.
  - apply listR_of_Forall. exact HF.
Qed.
End Lift.

(* two polygons of d-dimensional points with equal coordinate lists are equal *)
Lemma pts_ext d : forall P Q : list (list R), length P = length Q ->
  Forall (fun pt => length pt = d) P -> Forall (fun pt => length pt = d) Q ->
  (forall c, (c < d)%nat -> coord c P = coord c Q) -> P = Q.
Proof.
  induction P as [|p P IH]; intros [|q Q] HL HP HQ HC; try discriminate; [reflexivity|].
  inversion HP; subst. inversion HQ; subst. f_equal.
  - apply (nth_ext _ _ 0 0); [congruence|]. intros n Hn. specialize (HC n ltac:(lia)). unfold coord in HC. cbn [map] in HC. injection HC as E1 E2. exact E1.
  - apply IH; auto. intros c0 Hc0. specialize (HC c0 Hc0). unfold coord in HC. cbn [map] in HC. injection HC as E1 E2. exact E2.
Qed.

(* ---- lengths ---- *)
Lemma upd_length {A} (l : list A) i x : length (upd l i x) = length l.
Proof. revert i; induction l; destruct i; simpl; auto. Qed.

Lemma fold_upd_length {A B} (f : list A -> B -> nat) (g : list A -> B -> A) (l : list B) : forall a,
  length (fold_left (fun a i => upd a (f a i) (g a i)) l a) = length a.
Proof. induction l; simpl; intros; auto. rewrite IHl. apply upd_length. Qed.

Lemma red_core_length {Pt} (zipw : (R -> R -> R) -> Pt -> Pt -> Pt) zlike pd p P :
  length (degree_reduction_core Rops zipw zlike pd p P) = p.
Proof.
  unfold degree_reduction_core. cbv zeta.
  match goal with |- length (if ?b then _ else _) = _ => destruct b end;
    rewrite ?upd_length;
    rewrite (fold_upd_length (fun _ i => i)); rewrite (fold_upd_length (fun _ i => i));
    rewrite !upd_length; apply repeat_length.
Qed.

Lemma elev_core_length {Pt} (zipw : (R -> R -> R) -> Pt -> Pt -> Pt) zlike pd p P t :
  length (degree_elevation_core Rops zipw zlike pd p P t) = (p + 1 + t)%nat.
Proof. unfold degree_elevation_core. rewrite map_length, seq_length. reflexivity. Qed.

Lemma coord_length c P : length (coord c P) = length P.
Proof. apply map_length. Qed.

(* ---- points: elevation preserves every coordinate function of the curve ---- *)
Theorem elevation_preserves_bezier_pts : forall p t, (1 <= p <= 8)%nat -> (1 <= t <= 4)%nat ->
  forall d P Q, Forall (fun pt => length pt = d) P ->
  degree_elevation_pts Rops p P (Z.of_nat t) = Ok Q ->
  forall c x, (c < d)%nat -> bezier (p + t) (coord c Q) x = bezier p (coord c P) x.
Proof.
  intros p t Hp Ht d P Q HF HQ c x Hc. unfold degree_elevation_pts, degree_elevation in HQ.
  destruct P as [|pd P]; [discriminate|].
  destruct (Nat.eqb_spec (p + 1) (length (pd :: P))) as [HL|]; [|discriminate]. cbn [negb] in HQ.
  destruct (Z.leb_spec (Z.of_nat t) 0); [lia|]. rewrite Nat2Z.id in HQ. injection HQ as <-.
  destruct (elev_core_coord d c Hc pd P p t HF) as [-> _].
  apply elevation_preserves_bezier_sc; auto. rewrite coord_length. lia.
Qed.

(* ---- points: t reductions undo an elevation by t ---- *)
Fixpoint reduce_n_pts (t p : nat) (Q : list (list R)) : res (list (list R)) :=
  match t with O => Ok Q | S t' => res_bind (degree_reduction_pts Rops p Q) (reduce_n_pts t' (p - 1)) end.

Lemma reduce_n_pts_spec d : (0 < d)%nat -> forall t p Q, (t <= p - 1)%nat -> length Q = (p + 1)%nat -> Forall (fun pt => length pt = d) Q ->
  exists Rf, reduce_n_pts t p Q = Ok Rf /\ length Rf = (p + 1 - t)%nat /\ Forall (fun pt => length pt = d) Rf /\
             forall c, (c < d)%nat -> coord c Rf = reduce_n t p (coord c Q).
Proof.
  intros Hd. induction t as [|t IH]; intros p Q Ht HL HF.
  - exists Q. cbn. repeat split; auto. lia.
  - cbn [reduce_n_pts reduce_n]. unfold degree_reduction_pts, degree_reduction.
    destruct Q as [|pd Q]; [cbn in HL; lia|].
    destruct (Nat.eqb_spec (p + 1) (length (pd :: Q))) as [_|]; [|lia]. cbn [negb].
    destruct (Nat.ltb_spec p 2); [lia|]. cbn [res_bind].
    set (Q1 := degree_reduction_core Rops lzipw (lzlike Rops) pd p (pd :: Q)).
    assert (HL1 : length Q1 = (p - 1 + 1)%nat) by (unfold Q1; rewrite red_core_length; lia).
    assert (HF1 : Forall (fun pt => length pt = d) Q1) by apply (red_core_coord d 0 Hd pd Q p HF).
    destruct (IH (p - 1)%nat Q1 ltac:(lia) HL1 HF1) as [Rf [E1 [E2 [E3 E4]]]].
    exists Rf. repeat split; auto; try lia.
    intros c Hc. rewrite (E4 c Hc). f_equal.
    apply (red_core_coord d c Hc pd Q p HF).
Qed.

Theorem reduction_inverts_elevation_pts : forall p t, (1 <= p <= 8)%nat -> (1 <= t <= 4)%nat ->
  forall d P Q, (0 < d)%nat -> Forall (fun pt => length pt = d) P ->
  degree_elevation_pts Rops p P (Z.of_nat t) = Ok Q -> reduce_n_pts t (p + t) Q = Ok P.
Proof.
  intros p t Hp Ht d P Q Hd HF HQ. unfold degree_elevation_pts, degree_elevation in HQ.
  destruct P as [|pd P]; [discriminate|].
  destruct (Nat.eqb_spec (p + 1) (length (pd :: P))) as [HL|]; [|discriminate]. cbn [negb] in HQ.
  destruct (Z.leb_spec (Z.of_nat t) 0); [lia|]. rewrite Nat2Z.id in HQ. injection HQ as <-.
  set (Q := degree_elevation_core Rops lzipw (lzlike Rops) pd p (pd :: P) t).
  assert (HLQ : length Q = (p + t + 1)%nat) by (unfold Q; rewrite elev_core_length; lia).
  assert (HFQ : Forall (fun pt => length pt = d) Q) by apply (elev_core_coord d 0 Hd pd P p t HF).
  destruct (reduce_n_pts_spec d Hd t (p + t)%nat Q ltac:(lia) HLQ HFQ) as [Rf [E1 [E2 [E3 E4]]]].
  rewrite E1. f_equal. apply (pts_ext d); auto; [lia|].
  intros c Hc. rewrite (E4 c Hc). unfold Q.
  destruct (elev_core_coord d c Hc pd P p t HF) as [-> _].
  apply reduction_inverts_elevation_sc; auto. rewrite coord_length. lia.
Qed.

(* ---- [G] rejection: non-Bezier input (length <> degree + 1) and non-positive counts, any point type ---- *)
Theorem elevation_rejects {Pt} (zipw : (R -> R -> R) -> Pt -> Pt -> Pt) zlike p (P : list Pt) (num : Z) :
  length P <> (p + 1)%nat \/ (num <= 0)%Z -> degree_elevation Rops zipw zlike p P num = Rejected.
Proof.
  intros H. unfold degree_elevation. destruct P as [|pd P]; [reflexivity|].
  destruct (Nat.eqb_spec (p + 1) (length (pd :: P))); cbn [negb]; [|reflexivity].
  destruct (Z.leb_spec num 0); [reflexivity|]. destruct H; [congruence|lia].
Qed.
Theorem elevation_accepts {Pt} (zipw : (R -> R -> R) -> Pt -> Pt -> Pt) zlike p (P : list Pt) (num : Z) :
  length P = (p + 1)%nat -> (0 < num)%Z -> exists Q, degree_elevation Rops zipw zlike p P num = Ok Q /\ length Q = (p + 1 + Z.to_nat num)%nat.
Proof.
  intros HL Hn. unfold degree_elevation. destruct P as [|pd P]; [cbn in HL; lia|].
  destruct (Nat.eqb_spec (p + 1) (length (pd :: P))); [|congruence]. cbn [negb].
  destruct (Z.leb_spec num 0); [lia|]. eexists; split; [reflexivity|apply elev_core_length].
Qed.
Theorem reduction_rejects {Pt} (zipw : (R -> R -> R) -> Pt -> Pt -> Pt) zlike p (P : list Pt) :
  length P <> (p + 1)%nat \/ (p < 2)%nat -> degree_reduction Rops zipw zlike p P = Rejected.
Proof.
  intros H. unfold degree_reduction. destruct P as [|pd P]; [reflexivity|].
  destruct (Nat.eqb_spec (p + 1) (length (pd :: P))); cbn [negb]; [|reflexivity].
  destruct (Nat.ltb_spec p 2); [reflexivity|]. destruct H; [congruence|lia].
Qed.

(* ---- [G] end points are kept, all degrees and counts, points of any dimension ---- *)
Lemma binom_gt : forall k i, (k < i)%nat -> binom k i = 0%nat.
Proof. induction k; intros [|i] H; try lia; cbn [binom]; [reflexivity|]. rewrite !IHk by lia. reflexivity. Qed.
Lemma binom_diag k : binom k k = 1%nat.
Proof. induction k; cbn [binom]; [reflexivity|]. rewrite IHk, binom_gt by lia. reflexivity. Qed.
Lemma binom_0 k : binom k 0 = 1%nat.
Proof. destruct k; reflexivity. Qed.

Lemma lzipw_unit : forall (z pt : list R), length z = length pt ->
  lzipw (fun p1 p2 => oadd Rops p1 (omul Rops (odiv Rops (omul Rops 1 1) 1) p2)) (lzlike Rops z) pt = pt.
Proof. unfold lzipw, lzlike. induction z as [|b z IH]; intros [|a pt] H; try discriminate; cbn; [reflexivity|]. f_equal; [field|apply IH; cbn in H; lia]. Qed.

Theorem elevation_first_point pd P p t :
  nth 0 (degree_elevation_core Rops lzipw (lzlike Rops) pd p (pd :: P) t) pd = pd.
Proof.
  unfold degree_elevation_core. replace (p + 1 + t)%nat with (S (p + t)) by lia. cbn [seq map nth].
  unfold elev_point. cbn [Nat.sub Nat.min]. rewrite Nat.min_0_r. cbn [seq fold_left nth].
  unfold elev_coeff, binomial_coefficient. cbn [Nat.sub]. rewrite !binom_0. cbn [ofnatb ofnat_bin Nat.eqb].
  apply lzipw_unit. reflexivity.
Qed.

Theorem elevation_last_point d pd P p t : length (pd :: P) = (p + 1)%nat -> Forall (fun pt => length pt = d) (pd :: P) ->
  nth (p + t) (degree_elevation_core Rops lzipw (lzlike Rops) pd p (pd :: P) t) pd = nth p (pd :: P) pd.
Proof.
  intros HL HF. unfold degree_elevation_core.
  rewrite (nth_indep _ pd (elev_point Rops lzipw (lzlike Rops) pd p t (pd :: P) 0)) by (rewrite map_length, seq_length; lia).
  rewrite map_nth. rewrite seq_nth by lia. cbn [Nat.add].
  unfold elev_point. replace (p + t - t)%nat with p by lia. rewrite Nat.min_l by lia.
  replace (S p - p)%nat with 1%nat by lia. cbn [seq fold_left].
  unfold elev_coeff, binomial_coefficient. replace (p + t - p)%nat with t by lia. rewrite !binom_diag.
  cbn [ofnatb ofnat_bin Nat.eqb].
  apply lzipw_unit. change (nth 0 (pd :: P) pd) with pd. rewrite Forall_forall in HF. rewrite (HF pd) by (left; reflexivity).
  symmetry. apply HF. apply nth_In. lia.
Qed.

Theorem elevation_fixes_endpoints_pts p num d P Q : Forall (fun pt => length pt = d) P ->
  degree_elevation_pts Rops p P num = Ok Q ->
  length Q = (p + 1 + Z.to_nat num)%nat /\ nth 0 Q [] = nth 0 P [] /\ nth (p + Z.to_nat num) Q [] = nth p P [].
Proof.
  intros HF HQ. unfold degree_elevation_pts, degree_elevation in HQ.
  destruct P as [|pd P]; [discriminate|].
  destruct (Nat.eqb_spec (p + 1) (length (pd :: P))) as [HL|]; [|discriminate]. cbn [negb] in HQ.
  destruct (Z.leb_spec num 0); [discriminate|]. injection HQ as <-.
  split; [apply elev_core_length|]. split.
  - rewrite (nth_indep _ [] pd) by (rewrite elev_core_length; lia). rewrite elevation_first_point. reflexivity.
  - rewrite (nth_indep _ [] pd) by (rewrite elev_core_length; lia).
    rewrite (elevation_last_point d) by (auto; lia). apply nth_indep. lia.
Qed.
