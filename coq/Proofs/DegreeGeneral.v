(* C08, general degree and general count (no bound on the degree p or on the count t).
   About Model.Degree at the real-number instance:
   1. binomial_coefficient is the binomial number k!/(i!(k-i)!) (0 when i > k)
   2. degree elevation by t of a degree-p polygon defines the same Bezier curve (all p, all t)
   3. elevation by one is  Q_i = i/(p+1) P_(i-1) + (1 - i/(p+1)) P_i ; the (repaired) reduction sweeps invert it (all p >= 1)
   4. elevation by t+1 = elevation by one of the elevation by t; t reductions invert an elevation by t (all p >= 1, t >= 1)
   5. the same for control points of any dimension (through the coordinate-wise lift of Proofs/DegreeLift.v) *)
From Coq Require Import List Reals Lra Lia Arith Bool ZArith.
From NV Require Import Scalar.Ops Model.Common Model.Degree Proofs.DegreeR Proofs.DegreeGenSums Proofs.DegreeLift.
Import ListNotations.
Open Scope R_scope.

(* ================= 1. the binomial coefficient ================= *)
Lemma binomial_coefficient_binom k i : binomial_coefficient Rops k i = INR (binom k i).
Proof. apply ofnatb_INR'. Qed.

(* C k i is the standard library's  INR (fact k) / (INR (fact i) * INR (fact (k - i))) *)
Theorem binomial_coefficient_is_choose : forall k i,
  binomial_coefficient Rops k i = if (i <=? k)%nat then C k i else 0.
Proof.
  intros k i. rewrite binomial_coefficient_binom. destruct (Nat.leb_spec i k) as [H|H].
  - apply binom_C. exact H.
  - rewrite binom_above by exact H. reflexivity.
Qed.

(* the integer quotient the Python function evaluates *)
Theorem binom_is_factorial_quotient : forall k i,
  binom k i = if (i <=? k)%nat then (fact k / (fact (k - i) * fact i))%nat else 0%nat.
Proof.
  intros k i. destruct (Nat.leb_spec i k) as [H|H]; [apply binom_div_fact|apply binom_above]; exact H.
Qed.

(* ================= 2. elevation preserves the curve ================= *)
(* numerator of Eq. 5.36 without its index window: terms outside the window vanish *)
Definition wE (p t i j : nat) : R := if (j <=? i)%nat then INR (binom p j) * INR (binom t (i - j)) else 0.
Definition SE (p t : nat) (a : list R) (i : nat) : R := rsum (fun j => wE p t i j * nth j a 0) (S p).

Lemma elev_coeff_R p t i j :
  elev_coeff Rops p t i j = INR (binom p j) * INR (binom t (i - j)) / INR (binom (p + t) i).
Proof. unfold elev_coeff, binomial_coefficient. rewrite !ofnatb_INR'. reflexivity. Qed.

Lemma elev_point_sum pdef p t a i :
  elev_point Rops szipw (szlike Rops) pdef p t a i =
  rsum (fun k => elev_coeff Rops p t i (i - t + k) * nth (i - t + k) a pdef) (S (Nat.min p i) - (i - t)).
Proof.
  unfold elev_point. cbv zeta.
  etransitivity; [apply (fold_left_rsum (fun j => elev_coeff Rops p t i j * nth j a pdef))|].
  unfold szlike. rsimp. lra.
Qed.

Lemma elevS_length p a t : length (elevS p a t) = (p + 1 + t)%nat.
Proof. unfold degree_elevation_sc, degree_elevation_core. rewrite map_length, seq_length. reflexivity. Qed.

(* Eq. 5.36, every degree and count *)
Lemma elev_nth p t a i : length a = (p + 1)%nat -> (i <= p + t)%nat ->
  nth i (elevS p a t) 0 = SE p t a i / INR (binom (p + t) i).
Proof.
  intros Ha Hi. unfold degree_elevation_sc, degree_elevation_core.
  rewrite nth_map_seq0 by lia. rewrite elev_point_sum.
  unfold SE. rewrite <- rsum_div.
  set (s := (i - t)%nat). set (len := (S (Nat.min p i) - s)%nat).
  pose proof (binom_INR_pos (p + t) i Hi) as HC.
  rewrite (rsum_window (fun j => wE p t i j * nth j a 0 / INR (binom (p + t) i)) s len (S p)).
  - apply rsum_ext. intros k Hk. rewrite elev_coeff_R. unfold wE.
    destruct (Nat.leb_spec (s + k) i) as [_|Hf]; [|unfold len, s in *; lia].
    rewrite (nth_indep a _ 0) by (unfold len, s in *; lia). field. lra.
  - unfold len, s. lia.
  - intros j Hj. unfold wE. destruct (Nat.leb_spec j i) as [Hji|_].
    + rewrite (binom_above t (i - j)) by (unfold s in Hj; lia). change (INR 0) with 0. field. lra.
    + field. lra.
  - intros j Hj. unfold wE. destruct (Nat.leb_spec j i) as [Hji|_]; [unfold len, s in Hj; lia|]. field. lra.
Qed.

Theorem elevation_preserves_bezier_general : forall p t a, length a = (p + 1)%nat ->
  forall x, bezier (p + t) (elevS p a t) x = bezier p a x.
Proof.
  intros p t a Ha x. unfold bezier. rewrite !sumT_map_seq0.
  transitivity (rsum (fun i => rsum (fun j => x ^ i * (1 - x) ^ (p + t - i) * (wE p t i j * nth j a 0)) (S p)) (S (p + t))).
  - apply rsum_ext. intros i Hi. rewrite rsum_scal. rewrite elev_nth by (auto; lia).
    rewrite bernstein_INR. unfold SE.
    pose proof (binom_INR_pos (p + t) i ltac:(lia)) as HC. field. lra.
  - rewrite rsum_swap. apply rsum_ext. intros j Hj.
    replace (S (p + t)) with (j + (S t + (p - j)))%nat by lia.
    rewrite rsum_shift.
    2:{ intros i Hi. unfold wE. destruct (Nat.leb_spec j i); [lia|]. ring. }
    rewrite (rsum_trunc _ (S t)); [|lia|].
    2:{ intros k Hk. unfold wE. destruct (Nat.leb_spec j (j + k)); [|lia].
        rewrite (binom_above t (j + k - j)) by lia. change (INR 0) with 0. ring. }
    transitivity (rsum (fun k => (bernstein p j x * nth j a 0) * (INR (binom t k) * x ^ k * (1 - x) ^ (t - k))) (S t)).
    + apply rsum_ext. intros k Hk. unfold wE. destruct (Nat.leb_spec j (j + k)); [|lia].
      replace (j + k - j)%nat with k by lia.
      replace (p + t - (j + k))%nat with ((p - j) + (t - k))%nat by lia.
      rewrite !pow_add, bernstein_INR. ring.
    + rewrite rsum_scal, binom_theorem. replace (x + (1 - x)) with 1 by ring. rewrite pow1. ring.
Qed.

(* ================= 3. elevation by one and its inverse ================= *)
Theorem elevation_by_one_formula : forall p a i, length a = (p + 1)%nat -> (i <= p + 1)%nat ->
  nth i (elevS p a 1) 0 = INR i / INR (p + 1) * nth (i - 1) a 0 + (1 - INR i / INR (p + 1)) * nth i a 0.
Proof.
  intros p a i Ha Hi. unfold degree_elevation_sc, degree_elevation_core.
  rewrite nth_map_seq0 by lia. rewrite elev_point_sum. rewrite Nat.add_1_r in *.
  assert (HN : 0 < INR (S p)) by (apply lt_0_INR; lia).
  destruct (Nat.eq_dec i 0) as [->|H0]; [|destruct (Nat.eq_dec i (S p)) as [->|H1]].
  - cbn [Nat.sub]. rewrite Nat.min_0_r. cbn [Nat.sub rsum Nat.add]. rewrite elev_coeff_R.
    cbn [Nat.sub]. rewrite !binom_n0. change (INR 1) with 1. change (INR 0) with 0.
    rewrite (nth_indep a (hd _ a) 0) by lia. field. lra.
  - replace (S (Nat.min p (S p)) - (S p - 1))%nat with 1%nat by lia. cbn [rsum].
    rewrite Nat.add_0_r. replace (S p - 1)%nat with p by lia. rewrite elev_coeff_R.
    replace (S p - p)%nat with 1%nat by lia. replace (p + 1)%nat with (S p) by lia.
    rewrite !binom_nn. change (INR 1) with 1.
    rewrite (nth_indep a (hd _ a) 0) by lia. rewrite (@nth_overflow R a (S p) 0) by lia. field. lra.
  - replace (S (Nat.min p i) - (i - 1))%nat with 2%nat by lia. cbn [rsum].
    rewrite Nat.add_0_r. replace (i - 1 + 1)%nat with i by lia. rewrite !elev_coeff_R.
    replace (i - (i - 1))%nat with 1%nat by lia. rewrite Nat.sub_diag.
    replace (p + 1)%nat with (S p) by lia.
    change (binom 1 1) with 1%nat. change (binom 1 0) with 1%nat. change (INR 1) with 1.
    rewrite !(nth_indep a (hd _ a) 0) by lia.
    destruct i as [|i']; [lia|]. replace (S i' - 1)%nat with i' by lia.
    pose proof (binom_absorb_R p i') as A1. pose proof (binom_absorb_R2 p (S i')) as A2.
    pose proof (binom_INR_pos (S p) (S i') ltac:(lia)) as HB.
    set (B := INR (binom (S p) (S i'))) in *. set (N := INR (S p)) in *. set (I := INR (S i')) in *.
    replace (INR (binom p i')) with (B * I / N) by (rewrite A1; field; lra).
    replace (INR (binom p (S i'))) with (B * (N - I) / N) by (rewrite A2; field; lra).
    field. lra.
Qed.

Section Reduce.
Variables (q : nat) (Qe b : list R).
Hypothesis Hq : (2 <= q)%nat.
Hypothesis HQe : length Qe = S q.
Hypothesis Hb : length b = q.
Hypothesis Helev : forall i, (i <= q)%nat ->
  nth i Qe 0 = INR i / INR q * nth (i - 1) b 0 + (1 - INR i / INR q) * nth i b 0.
Notation pdef := (hd 0 Qe).

Definition fstep (a : list R) (i : nat) : list R :=
  let alpha := ofnatb Rops i / ofnatb Rops q in
  upd a i (szipw (fun c1 c2 => (c1 - alpha * c2) / (1 - alpha)) (nth i Qe pdef) (nth (i - 1) a pdef)).
Definition bstep (a : list R) (i : nat) : list R :=
  let alpha := ofnatb Rops (i + 1) / ofnatb Rops q in
  upd a i (szipw (fun c1 c2 => (c1 - (1 - alpha) * c2) / alpha) (nth (i + 1) Qe pdef) (nth (i + 1) a pdef)).
Definition red_a0 : list R :=
  upd (upd (repeat (szlike Rops (nth 0 Qe pdef)) q) 0 (nth 0 Qe pdef)) (q - 1) (nth (length Qe - 1) Qe pdef).
Definition red_mid (r : nat) (a2 : list R) : R :=
  let al := ofnatb Rops r / ofnatb Rops q in
  let left := szipw (fun c1 c2 => (c1 - al * c2) / (1 - al)) (nth r Qe pdef) (nth (r - 1) a2 pdef) in
  let ar := ofnatb Rops (r + 1) / ofnatb Rops q in
  let right := szipw (fun c1 c2 => (c1 - (1 - ar) * c2) / ar) (nth (r + 1) Qe pdef) (nth (r + 1) a2 pdef) in
  szipw (fun pl pr => (1 / o2 Rops) * (pl + pr)) left right.

(* the model, with its loop bodies named *)
Lemma red_core_eq :
  reduceS q Qe =
  let odd := Nat.odd q in
  let r := Nat.div2 (q - 1) in
  let nfwd := if Nat.eqb q 2 then 0%nat else if odd then (r - 1)%nat else r in
  let a1 := fold_left fstep (seq 1 nfwd) red_a0 in
  let a2 := fold_left bstep (rev (seq (r + 1) (q - 2 - r))) a1 in
  if odd then upd a2 r (red_mid r a2) else a2.
Proof. reflexivity. Qed.

(* a agrees with b below lo and from hi on *)
Definition Inv (lo hi : nat) (a : list R) : Prop :=
  length a = q /\ forall j, (j < q)%nat -> (j < lo \/ hi <= j)%nat -> nth j a pdef = nth j b 0.

Lemma Hq_pos : 0 < INR q.
Proof. apply lt_0_INR. lia. Qed.

Lemma a0_inv : Inv 1 (q - 1) red_a0.
Proof.
  pose proof Hq_pos as Hp. unfold red_a0. split.
  - rewrite !upd_len. apply repeat_length.
  - intros j Hj Hc. assert (j = 0 \/ j = q - 1)%nat as [-> | ->] by lia.
    + rewrite nth_upd_other by lia. rewrite nth_upd_same by (rewrite repeat_length; lia).
      rewrite (nth_indep Qe _ 0) by lia. rewrite Helev by lia. change (INR 0) with 0. field. lra.
    + rewrite nth_upd_same by (rewrite upd_len, repeat_length; lia).
      rewrite HQe. replace (S q - 1)%nat with q by lia.
      rewrite (nth_indep Qe _ 0) by lia. rewrite Helev by lia. field. lra.
Qed.

Lemma fwd_inv hi : forall n s a, (1 <= s)%nat -> (s + n <= q)%nat -> Inv s hi a ->
  Inv (s + n) hi (fold_left fstep (seq s n) a).
Proof.
  pose proof Hq_pos as Hp.
  induction n as [|n IH]; intros s a Hs Hn HI.
  - rewrite Nat.add_0_r. exact HI.
  - cbn [seq fold_left]. replace (s + S n)%nat with (S s + n)%nat by lia. apply IH; try lia.
    destruct HI as [HL HI]. split.
    + unfold fstep. cbv zeta. rewrite upd_len. exact HL.
    + intros j Hj Hc. unfold fstep. cbv zeta. destruct (Nat.eq_dec j s) as [->|Hne].
      * rewrite nth_upd_same by lia. unfold szipw. rewrite !ofnatb_INR'.
        rewrite (HI (s - 1)%nat) by lia.
        rewrite (nth_indep Qe _ 0) by lia. rewrite Helev by lia.
        assert (INR s < INR q) by (apply lt_INR; lia). field. lra.
      * rewrite nth_upd_other by lia. apply HI; lia.
Qed.

Lemma bwd_inv lo s : forall n a, (s + n <= q - 1)%nat -> Inv lo (s + n) a ->
  Inv lo s (fold_left bstep (rev (seq s n)) a).
Proof.
  pose proof Hq_pos as Hp.
  induction n as [|n IH]; intros a Hn HI.
  - rewrite Nat.add_0_r in HI. exact HI.
  - rewrite seq_S, rev_app_distr. cbn [rev app fold_left]. apply IH; [lia|].
    destruct HI as [HL HI]. split.
    + unfold bstep. cbv zeta. rewrite upd_len. exact HL.
    + intros j Hj Hc. unfold bstep. cbv zeta. destruct (Nat.eq_dec j (s + n)) as [->|Hne].
      * rewrite nth_upd_same by lia. unfold szipw. rewrite !ofnatb_INR'.
        rewrite (HI (s + n + 1)%nat) by lia.
        rewrite (nth_indep Qe _ 0) by lia. rewrite Helev by lia.
        replace (s + n + 1 - 1)%nat with (s + n)%nat by lia.
        assert (0 < INR (s + n + 1)) by (apply lt_0_INR; lia). field. lra.
      * rewrite nth_upd_other by lia. apply HI; lia.
Qed.

Theorem reduce_of_elev1 : reduceS q Qe = b.
Proof.
  pose proof Hq_pos as Hp.
  rewrite red_core_eq. cbv zeta.
  destruct (Nat.Even_or_Odd q) as [[m Hm]|[m Hm]].
  - (* even degree: the two sweeps meet *)
    assert (Ho : Nat.odd q = false).
    { rewrite <- Nat.negb_even. replace (Nat.even q) with true; [reflexivity|].
      symmetry. apply Nat.even_spec. exists m. exact Hm. }
    assert (Hr : Nat.div2 (q - 1) = (m - 1)%nat).
    { replace (q - 1)%nat with (S (2 * (m - 1))) by lia. apply Nat.div2_succ_double. }
    rewrite Ho, Hr.
    assert (Hnf : (if Nat.eqb q 2 then 0%nat else (m - 1)%nat) = (m - 1)%nat).
    { destruct (Nat.eqb_spec q 2); [lia|reflexivity]. }
    rewrite Hnf.
    pose proof (fwd_inv (q - 1) (m - 1) 1 red_a0 ltac:(lia) ltac:(lia) a0_inv) as I1.
    assert (I1' : Inv (1 + (m - 1)) (m - 1 + 1 + (q - 2 - (m - 1))) (fold_left fstep (seq 1 (m - 1)) red_a0)).
    { replace (m - 1 + 1 + (q - 2 - (m - 1)))%nat with (q - 1)%nat by lia. exact I1. }
    pose proof (bwd_inv _ (m - 1 + 1) (q - 2 - (m - 1)) _ ltac:(lia) I1') as [L2 I2].
    apply (nth_ext _ _ pdef 0); [lia|]. intros j Hj. apply I2; lia.
  - (* odd degree: the middle point is the mean of the two sweeps *)
    assert (Ho : Nat.odd q = true) by (apply Nat.odd_spec; exists m; exact Hm).
    assert (Hr : Nat.div2 (q - 1) = m).
    { replace (q - 1)%nat with (2 * m)%nat by lia. apply Nat.div2_double. }
    rewrite Ho, Hr.
    destruct (Nat.eqb_spec q 2) as [E2|_]; [lia|].
    pose proof (fwd_inv (q - 1) (m - 1) 1 red_a0 ltac:(lia) ltac:(lia) a0_inv) as I1.
    assert (I1' : Inv (1 + (m - 1)) (m + 1 + (q - 2 - m)) (fold_left fstep (seq 1 (m - 1)) red_a0)).
    { replace (m + 1 + (q - 2 - m))%nat with (q - 1)%nat by lia. exact I1. }
    pose proof (bwd_inv _ (m + 1) (q - 2 - m) _ ltac:(lia) I1') as [L2 I2].
    set (a2 := fold_left bstep (rev (seq (m + 1) (q - 2 - m))) (fold_left fstep (seq 1 (m - 1)) red_a0)) in *.
    apply (nth_ext _ _ pdef 0); [rewrite upd_len; lia|]. rewrite upd_len. intros j Hj.
    destruct (Nat.eq_dec j m) as [->|Hne].
    + rewrite nth_upd_same by lia. unfold red_mid. cbv zeta. unfold szipw, o2. rsimp.
      rewrite !ofnatb_INR'.
      rewrite (I2 (m - 1)%nat) by lia. rewrite (I2 (m + 1)%nat) by lia.
      rewrite !(nth_indep Qe pdef 0) by lia. rewrite !Helev by lia.
      replace (m + 1 - 1)%nat with m by lia.
      assert (INR m < INR q) by (apply lt_INR; lia).
      assert (0 < INR (m + 1)) by (apply lt_0_INR; lia). field. lra.
    + rewrite nth_upd_other by lia. apply I2; lia.
Qed.
End Reduce.

Theorem reduction_inverts_elevation_by_one_general : forall p a, (1 <= p)%nat -> length a = (p + 1)%nat ->
  reduceS (p + 1) (elevS p a 1) = a.
Proof.
  intros p a Hp Ha. apply reduce_of_elev1.
  - lia.
  - rewrite elevS_length. lia.
  - exact Ha.
  - intros i Hi. apply elevation_by_one_formula; assumption.
Qed.

(* ================= 4. elevation by t+1 = elevation by one after elevation by t ================= *)
Lemma wE_pascal p t i j : wE p t i j + wE p t (S i) j = wE p (S t) (S i) j.
Proof.
  unfold wE. destruct (Nat.leb_spec j i) as [H|H]; destruct (Nat.leb_spec j (S i)) as [H'|H']; try lia.
  - replace (S i - j)%nat with (S (i - j)) by lia. rewrite binom_pascal, plus_INR. ring.
  - replace (S i - j)%nat with 0%nat by lia. rewrite !binom_n0. ring.
  - ring.
Qed.

Lemma SE_pascal p t a i : SE p t a i + SE p t a (S i) = SE p (S t) a (S i).
Proof.
  unfold SE. rewrite <- rsum_plus. apply rsum_ext. intros j Hj. rewrite <- wE_pascal. ring.
Qed.

Lemma SE_top p t a : SE p t a (S (p + t)) = 0.
Proof.
  unfold SE. apply rsum_zero. intros j Hj. unfold wE. destruct (Nat.leb_spec j (S (p + t))); [|ring].
  rewrite (binom_above t) by lia. change (INR 0) with 0. ring.
Qed.

Lemma SE_0 p t a : SE p (S t) a 0 = SE p t a 0.
Proof.
  unfold SE. apply rsum_ext. intros j Hj. unfold wE. destruct (Nat.leb_spec j 0); [|reflexivity].
  replace (0 - j)%nat with 0%nat by lia. rewrite !binom_n0. reflexivity.
Qed.

Theorem elevation_succ : forall p t a, length a = (p + 1)%nat ->
  elevS (p + t) (elevS p a t) 1 = elevS p a (S t).
Proof.
  intros p t a Ha.
  assert (HL : length (elevS p a t) = (p + t + 1)%nat) by (rewrite elevS_length; lia).
  apply (nth_ext _ _ 0 0); [rewrite !elevS_length; lia|].
  rewrite elevS_length. intros i Hi.
  rewrite elevation_by_one_formula by (auto; lia).
  rewrite (elev_nth p (S t) a i) by (auto; lia).
  rewrite (Nat.add_succ_r p t). rewrite !(Nat.add_1_r (p + t)).
  set (n := (p + t)%nat) in *.
  assert (HN : 0 < INR (S n)) by (apply lt_0_INR; lia).
  destruct i as [|i].
  - cbn [Nat.sub]. rewrite (elev_nth p t a 0) by (auto; lia). fold n.
    rewrite !binom_n0, SE_0. change (INR 0) with 0. change (INR 1) with 1. field. lra.
  - replace (S i - 1)%nat with i by lia. destruct (Nat.eq_dec i n) as [->|Hne].
    + rewrite (elev_nth p t a n) by (auto; unfold n; lia). fold n.
      rewrite (nth_overflow (elevS p a t)) by lia.
      rewrite <- SE_pascal. unfold n at 4. rewrite SE_top. rewrite !binom_nn. change (INR 1) with 1. field. lra.
    + rewrite (elev_nth p t a i) by (auto; unfold n; lia). rewrite (elev_nth p t a (S i)) by (auto; unfold n; lia). fold n.
      rewrite <- SE_pascal.
      pose proof (binom_absorb_R n i) as A1. pose proof (binom_absorb_R2 n (S i)) as A2.
      pose proof (binom_INR_pos (S n) (S i) ltac:(lia)) as HB.
      assert (HI : 0 < INR (S i)) by (apply lt_0_INR; lia).
      assert (HIN : INR (S i) < INR (S n)) by (apply lt_INR; lia).
      set (B := INR (binom (S n) (S i))) in *. set (N := INR (S n)) in *. set (I := INR (S i)) in *.
      replace (INR (binom n i)) with (B * I / N) by (rewrite A1; field; lra).
      replace (INR (binom n (S i))) with (B * (N - I) / N) by (rewrite A2; field; lra).
      field. lra.
Qed.

(* elevation by t is t elevations by one *)
Fixpoint elev_iter (t p : nat) (a : list R) : list R :=
  match t with O => a | S t' => elevS (p + t') (elev_iter t' p a) 1 end.

Theorem elevation_by_t_is_iterated : forall t p a, (1 <= t)%nat -> length a = (p + 1)%nat ->
  elev_iter t p a = elevS p a t.
Proof.
  induction t as [|t IH]; intros p a Ht Ha; [lia|].
  destruct t as [|t].
  - cbn [elev_iter]. rewrite Nat.add_0_r. reflexivity.
  - change (elev_iter (S (S t)) p a) with (elevS (p + S t) (elev_iter (S t) p a) 1).
    rewrite IH by (auto; lia). apply elevation_succ. exact Ha.
Qed.

Theorem reduction_inverts_elevation_general : forall t p a, (1 <= p)%nat -> (1 <= t)%nat -> length a = (p + 1)%nat ->
  reduce_n t (p + t) (elevS p a t) = a.
Proof.
  induction t as [|t IH]; intros p a Hp Ht Ha; [lia|].
  destruct t as [|t].
  - cbn [reduce_n]. apply reduction_inverts_elevation_by_one_general; assumption.
  - change (reduce_n (S (S t)) (p + S (S t)) (elevS p a (S (S t))))
      with (reduce_n (S t) (p + S (S t) - 1) (reduceS (p + S (S t)) (elevS p a (S (S t))))).
    rewrite <- elevation_succ by exact Ha.
    replace (p + S (S t))%nat with (p + S t + 1)%nat by lia.
    rewrite reduction_inverts_elevation_by_one_general by (try rewrite elevS_length; lia).
    replace (p + S t + 1 - 1)%nat with (p + S t)%nat by lia.
    apply IH; auto; lia.
Qed.

(* ================= 5. control points of any dimension ================= *)
Theorem elevation_preserves_bezier_pts_general : forall p t, (1 <= t)%nat ->
  forall d P Q, Forall (fun pt => length pt = d) P ->
  degree_elevation_pts Rops p P (Z.of_nat t) = Ok Q ->
  forall c x, (c < d)%nat -> bezier (p + t) (coord c Q) x = bezier p (coord c P) x.
Proof.
  intros p t Ht d P Q HF HQ c x Hc. unfold degree_elevation_pts, degree_elevation in HQ.
  destruct P as [|pd P]; [discriminate|].
  destruct (Nat.eqb_spec (p + 1) (length (pd :: P))) as [HL|]; [|discriminate]. cbn [negb] in HQ.
  destruct (Z.leb_spec (Z.of_nat t) 0); [lia|]. rewrite Nat2Z.id in HQ. injection HQ as <-.
  destruct (elev_core_coord d c Hc pd P p t HF) as [-> _].
  apply elevation_preserves_bezier_general. rewrite coord_length. lia.
Qed.

Theorem reduction_inverts_elevation_pts_general : forall p t, (1 <= p)%nat -> (1 <= t)%nat ->
  forall d P Q, (0 < d)%nat -> Forall (fun pt => length pt = d) P ->
  degree_elevation_pts Rops p P (Z.of_nat t) = Ok Q -> reduce_n_pts t (p + t) Q = Ok P.
Proof.
  intros p t Hp Ht d P Q Hd HF HQ. unfold degree_elevation_pts, degree_elevation in HQ.
  destruct P as [|pd P]; [discriminate|].
  destruct (Nat.eqb_spec (p + 1) (length (pd :: P))) as [HL|]; [|discriminate]. cbn [negb] in HQ.
  destruct (Z.leb_spec (Z.of_nat t) 0); [lia|]. rewrite Nat2Z.id in HQ. injection HQ as <-.
  set (Q := degree_elevation_core Rops lzipw (lzlike Rops) pd p (pd :: P) t).
  assert (HLQ : length Q = (p + t + 1)%nat) by (unfold Q; rewrite elev_core_length; lia).
  assert (HFQ : Forall (fun pt => length pt = d) Q) by apply (elev_core_coord d 0 Hd pd P p t HF).
  destruct (reduce_n_pts_spec d Hd t (p + t)%nat Q ltac:(lia) HLQ HFQ) as [Rf [E1 [E2 [E3 E4]]]].
  rewrite E1. f_equal. apply (pts_ext d); auto; [lia|].
  intros c Hc. rewrite (E4 c Hc). unfold Q.
  destruct (elev_core_coord d c Hc pd P p t HF) as [-> _].
  apply reduction_inverts_elevation_general; auto. rewrite coord_length. lia.
Qed.

Print Assumptions binomial_coefficient_is_choose.
Print Assumptions binom_is_factorial_quotient.
Print Assumptions elevation_preserves_bezier_general.
Print Assumptions elevation_by_one_formula.
Print Assumptions reduction_inverts_elevation_by_one_general.
Print Assumptions elevation_succ.
Print Assumptions elevation_by_t_is_iterated.
Print Assumptions reduction_inverts_elevation_general.
Print Assumptions elevation_preserves_bezier_pts_general.
Print Assumptions reduction_inverts_elevation_pts_general.
