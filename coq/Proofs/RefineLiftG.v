(* Direction lifting, generic: if the new control net of a surface / volume is fibre-wise the result of a curve
   operation that preserves every curve point (new knot vector V, new fibres F), then every surface / volume point
   is preserved.  (Same sum manipulations as Proofs/InsertDirR.v, InsertVolR.v, with the curve operation abstract.) *)
From Coq Require Import List Reals Lra Lia Arith Bool.
From NV Require Import Scalar.Ops Model.Common Model.Basis Model.KnotIns Model.InsertKnot
  Proofs.Boehm Proofs.BasisR Proofs.KnotInsR Proofs.InsertKnotR Proofs.InsertDirR Proofs.InsertVolR.
Import ListNotations.
Local Open Scope nat_scope.

Lemma curve_pt_col (g : surf (T:=R)) j c t : j < s_sv g ->
  curve_pt (s_pu g) (s_Uu g) (col_u g j) c t =
  sumf (fun i => N (Ufun (s_Uu g)) (s_pu g) i t * coord c (s_P g) (j + s_sv g * i))%R (s_su g).
Proof.
  intros Hj. unfold curve_pt. assert (Hcol : length (col_u g j) = s_su g) by (unfold col_u; rewrite map_length, seq_length; reflexivity).
  rewrite Hcol. apply sumf_ext. intros i Hi. f_equal. unfold coord, col_u, getp at 1. rewrite nth_map_seq by exact Hi. reflexivity.
Qed.

Lemma curve_pt_row (g : surf (T:=R)) i c t : i < s_su g ->
  curve_pt (s_pv g) (s_Uv g) (row_v g i) c t =
  sumf (fun j => N (Ufun (s_Uv g)) (s_pv g) j t * coord c (s_P g) (j + s_sv g * i))%R (s_sv g).
Proof.
  intros Hi. unfold curve_pt. assert (Hrow : length (row_v g i) = s_sv g) by (unfold row_v; rewrite map_length, seq_length; reflexivity).
  rewrite Hrow. apply sumf_ext. intros j Hj. f_equal. unfold coord, row_v, getp at 1. rewrite nth_map_seq by exact Hj. reflexivity.
Qed.

Section SurfU.
Variables (g : surf (T:=R)) (V : list R) (n' : nat) (Pn : list (list R)) (F : nat -> list (list R)) (dim : nat).
Hypothesis HFl : forall j, j < s_sv g -> length (F j) = n'.
Hypothesis HFc : forall j, j < s_sv g -> forall c t, c < dim ->
  curve_pt (s_pu g) V (F j) c t = curve_pt (s_pu g) (s_Uu g) (col_u g j) c t.
Hypothesis Hnet : forall i j, i < n' -> j < s_sv g -> getp Pn (j + s_sv g * i) = getp (F j) i.

Theorem surf_lift_u c tu tv : c < dim ->
  surf_pt (mkS (s_pu g) (s_pv g) V (s_Uv g) n' (s_sv g) Pn) c tu tv = surf_pt g c tu tv.
Proof.
  intros Hc. unfold surf_pt. cbn [s_pu s_pv s_Uu s_Uv s_su s_sv s_P].
  rewrite (sumf_ext _ (fun i => sumf (fun j => N (Ufun (s_Uv g)) (s_pv g) j tv *
             (N (Ufun V) (s_pu g) i tu * coord c Pn (j + s_sv g * i)))%R (s_sv g))).
  2:{ intros i _. rewrite <- sumf_scal. apply sumf_ext. intros j _. ring. }
  rewrite sumf_swap.
  rewrite (sumf_ext (fun i => N (Ufun (s_Uu g)) (s_pu g) i tu * sumf _ (s_sv g))%R
                    (fun i => sumf (fun j => N (Ufun (s_Uv g)) (s_pv g) j tv *
             (N (Ufun (s_Uu g)) (s_pu g) i tu * coord c (s_P g) (j + s_sv g * i)))%R (s_sv g))).
  2:{ intros i _. rewrite <- sumf_scal. apply sumf_ext. intros j _. ring. }
  rewrite (sumf_swap _ (s_su g)).
  apply sumf_ext. intros j Hj. rewrite !sumf_scal. f_equal.
  rewrite <- (curve_pt_col g j c tu Hj). rewrite <- (HFc j Hj c tu Hc).
  unfold curve_pt. rewrite (HFl j Hj). apply sumf_ext. intros i Hi. f_equal. unfold coord. rewrite Hnet by assumption. reflexivity.
Qed.
End SurfU.

Section SurfV.
Variables (g : surf (T:=R)) (V : list R) (n' : nat) (Pn : list (list R)) (F : nat -> list (list R)) (dim : nat).
Hypothesis HFl : forall i, i < s_su g -> length (F i) = n'.
Hypothesis HFc : forall i, i < s_su g -> forall c t, c < dim ->
  curve_pt (s_pv g) V (F i) c t = curve_pt (s_pv g) (s_Uv g) (row_v g i) c t.
Hypothesis Hnet : forall i j, i < s_su g -> j < n' -> getp Pn (j + n' * i) = getp (F i) j.

Theorem surf_lift_v c tu tv : c < dim ->
  surf_pt (mkS (s_pu g) (s_pv g) (s_Uu g) V (s_su g) n' Pn) c tu tv = surf_pt g c tu tv.
Proof.
  intros Hc. unfold surf_pt. cbn [s_pu s_pv s_Uu s_Uv s_su s_sv s_P].
  apply sumf_ext. intros i Hi. f_equal.
  rewrite <- (curve_pt_row g i c tv Hi). rewrite <- (HFc i Hi c tv Hc).
  unfold curve_pt. rewrite (HFl i Hi). apply sumf_ext. intros j Hj. f_equal. unfold coord. rewrite Hnet by assumption. reflexivity.
Qed.
End SurfV.

(* ---------- volumes ---------- *)
Lemma curve_pt_fib_u (g : vol (T:=R)) j l c t :
  curve_pt (v_pu g) (v_Uu g) (fib_u g j l) c t =
  sumf (fun i => N (Ufun (v_Uu g)) (v_pu g) i t * coord c (v_P g) (vidx g i j l))%R (v_su g).
Proof.
  unfold curve_pt. assert (Hf : length (fib_u g j l) = v_su g) by (unfold fib_u; rewrite map_length, seq_length; reflexivity).
  rewrite Hf. apply sumf_ext. intros i Hi. f_equal. unfold coord, fib_u, getp at 1. rewrite nth_map_seq by exact Hi. reflexivity.
Qed.
Lemma curve_pt_fib_v (g : vol (T:=R)) i l c t :
  curve_pt (v_pv g) (v_Uv g) (fib_v g i l) c t =
  sumf (fun j => N (Ufun (v_Uv g)) (v_pv g) j t * coord c (v_P g) (vidx g i j l))%R (v_sv g).
Proof.
  unfold curve_pt. assert (Hf : length (fib_v g i l) = v_sv g) by (unfold fib_v; rewrite map_length, seq_length; reflexivity).
  rewrite Hf. apply sumf_ext. intros j Hj. f_equal. unfold coord, fib_v, getp at 1. rewrite nth_map_seq by exact Hj. reflexivity.
Qed.
Lemma curve_pt_fib_w (g : vol (T:=R)) i j c t :
  curve_pt (v_pw g) (v_Uw g) (fib_w g i j) c t =
  sumf (fun l => N (Ufun (v_Uw g)) (v_pw g) l t * coord c (v_P g) (vidx g i j l))%R (v_sw g).
Proof.
  unfold curve_pt. assert (Hf : length (fib_w g i j) = v_sw g) by (unfold fib_w; rewrite map_length, seq_length; reflexivity).
  rewrite Hf. apply sumf_ext. intros l Hl. f_equal. unfold coord, fib_w, getp at 1. rewrite nth_map_seq by exact Hl. reflexivity.
Qed.

Section VolW.
Variables (g : vol (T:=R)) (V : list R) (n' : nat) (Pn : list (list R)) (F : nat -> nat -> list (list R)) (dim : nat).
Hypothesis HFl : forall i j, i < v_su g -> j < v_sv g -> length (F i j) = n'.
Hypothesis HFc : forall i j, i < v_su g -> j < v_sv g -> forall c t, c < dim ->
  curve_pt (v_pw g) V (F i j) c t = curve_pt (v_pw g) (v_Uw g) (fib_w g i j) c t.
Hypothesis Hnet : forall i j l, i < v_su g -> j < v_sv g -> l < n' ->
  getp Pn (j + i * v_sv g + l * v_su g * v_sv g) = getp (F i j) l.

Theorem vol_lift_w c tu tv tw : c < dim ->
  vol_pt (mkV (v_pu g) (v_pv g) (v_pw g) (v_Uu g) (v_Uv g) V (v_su g) (v_sv g) n' Pn) c tu tv tw = vol_pt g c tu tv tw.
Proof.
  intros Hc. unfold vol_pt. cbn [v_pu v_pv v_pw v_Uu v_Uv v_Uw v_su v_sv v_sw v_P].
  apply sumf_ext. intros i Hi. f_equal. apply sumf_ext. intros j Hj. f_equal.
  rewrite <- (curve_pt_fib_w g i j c tw). rewrite <- (HFc i j Hi Hj c tw Hc).
  unfold curve_pt. rewrite (HFl i j Hi Hj). apply sumf_ext. intros l Hl. f_equal. unfold coord.
  unfold vidx. cbn [v_su v_sv v_sw]. rewrite Hnet by assumption. reflexivity.
Qed.
End VolW.

Section VolV.
Variables (g : vol (T:=R)) (V : list R) (n' : nat) (Pn : list (list R)) (F : nat -> nat -> list (list R)) (dim : nat).
Hypothesis HFl : forall i l, i < v_su g -> l < v_sw g -> length (F i l) = n'.
Hypothesis HFc : forall i l, i < v_su g -> l < v_sw g -> forall c t, c < dim ->
  curve_pt (v_pv g) V (F i l) c t = curve_pt (v_pv g) (v_Uv g) (fib_v g i l) c t.
Hypothesis Hnet : forall i j l, i < v_su g -> j < n' -> l < v_sw g ->
  getp Pn (j + i * n' + l * v_su g * n') = getp (F i l) j.

Theorem vol_lift_v c tu tv tw : c < dim ->
  vol_pt (mkV (v_pu g) (v_pv g) (v_pw g) (v_Uu g) V (v_Uw g) (v_su g) n' (v_sw g) Pn) c tu tv tw = vol_pt g c tu tv tw.
Proof.
  intros Hc. unfold vol_pt. cbn [v_pu v_pv v_pw v_Uu v_Uv v_Uw v_su v_sv v_sw v_P].
  apply sumf_ext. intros i Hi. f_equal.
  rewrite sum_swap2. rewrite (sum_swap2 _ _ _ (v_sv g)).
  apply sumf_ext. intros l Hl. f_equal.
  rewrite <- (curve_pt_fib_v g i l c tv). rewrite <- (HFc i l Hi Hl c tv Hc).
  unfold curve_pt. rewrite (HFl i l Hi Hl). apply sumf_ext. intros j Hj. f_equal. unfold coord.
  unfold vidx. cbn [v_su v_sv v_sw]. rewrite Hnet by assumption. reflexivity.
Qed.
End VolV.

Section VolU.
Variables (g : vol (T:=R)) (V : list R) (n' : nat) (Pn : list (list R)) (F : nat -> nat -> list (list R)) (dim : nat).
Hypothesis HFl : forall j l, j < v_sv g -> l < v_sw g -> length (F j l) = n'.
Hypothesis HFc : forall j l, j < v_sv g -> l < v_sw g -> forall c t, c < dim ->
  curve_pt (v_pu g) V (F j l) c t = curve_pt (v_pu g) (v_Uu g) (fib_u g j l) c t.
Hypothesis Hnet : forall i j l, i < n' -> j < v_sv g -> l < v_sw g ->
  getp Pn (j + i * v_sv g + l * n' * v_sv g) = getp (F j l) i.

Theorem vol_lift_u c tu tv tw : c < dim ->
  vol_pt (mkV (v_pu g) (v_pv g) (v_pw g) V (v_Uv g) (v_Uw g) n' (v_sv g) (v_sw g) Pn) c tu tv tw = vol_pt g c tu tv tw.
Proof.
  intros Hc. unfold vol_pt. cbn [v_pu v_pv v_pw v_Uu v_Uv v_Uw v_su v_sv v_sw v_P].
  rewrite sum_swap2. rewrite (sum_swap2 _ _ _ (v_su g)).
  apply sumf_ext. intros j Hj. f_equal.
  rewrite sum_swap2. rewrite (sum_swap2 _ _ _ (v_su g)).
  apply sumf_ext. intros l Hl. f_equal.
  rewrite <- (curve_pt_fib_u g j l c tu). rewrite <- (HFc j l Hj Hl c tu Hc).
  unfold curve_pt. rewrite (HFl j l Hj Hl). apply sumf_ext. intros i Hi. f_equal. unfold coord.
  unfold vidx. cbn [v_su v_sv v_sw]. rewrite Hnet by assumption. reflexivity.
Qed.
End VolU.
