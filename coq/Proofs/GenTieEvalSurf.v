(* Ties: generated evaluators.SurfaceEvaluator.evaluate / SurfaceEvaluatorRational.evaluate  =  Model/Eval.v
   (surface_evalpts, project), for every scalar instance.  No law of the scalar operations is used.
   The loop over the parametric directions (linspace, find_spans, basis_functions per direction) is shared with the volumes. *)
From Coq Require Import List ZArith Arith Bool Lia QArith.
From NV Require Import Scalar.Ops Model.Common Model.Basis Model.Knots Model.Eval
  Gen.Prelude Gen.PreludeExt Gen.Linalg Gen.Helpers Gen.Evaluators
  Proofs.GenTieLib Proofs.GenTieLib2 Proofs.GenTieKnots Proofs.GenTieSpan Proofs.GenTieBasis Proofs.GenTieEvalLib Proofs.GenTieEvalCurve.
Import ListNotations.
Local Open Scope nat_scope.

Lemma znth_map_nat (l : list nat) i : i < length l -> znth (map Z.of_nat l) (Z.of_nat i) = GOk (Z.of_nat (nth i l 0)).
Proof. intros H. rewrite (znth_nat _ i (Z.of_nat 0)) by (now rewrite map_length). now rewrite map_nth. Qed.

Section Tie.
Context {T : Type} (K : ops T).

(* ================= the loop over the parametric directions (SurfaceEvaluator.evaluate and VolumeEvaluator.evaluate) ============ *)
Definition dir_body (func : Z -> list T -> Z -> T -> gres Z) (start stop : list T) (sample_size : list Z) (precision : Z)
    (degree : list Z) (knotvector : list (list T)) (size : list Z) :=
  (fun idx '(spans, basis) =>
    do v_1 <- znth start idx ;;
    do v_2 <- znth stop idx ;;
    do v_3 <- znth sample_size idx ;;
    do knots <- Linalg.linspace K v_1 v_2 v_3 precision ;;
    do v_5 <- znth degree idx ;;
    do v_6 <- znth knotvector idx ;;
    do v_7 <- znth size idx ;;
    do v_8 <- Helpers.find_spans K v_5 v_6 v_7 knots func ;;
    do spans <- zset spans idx v_8 ;;
    do v_9 <- znth degree idx ;;
    do v_10 <- znth knotvector idx ;;
    do v_11 <- znth spans idx ;;
    do v_12 <- Helpers.basis_functions K v_9 v_10 v_11 knots ;;
    do basis <- zset basis idx v_12 ;;
    GOk (spans, basis)).

Section Dir.
Variable func : Z -> list T -> Z -> T -> gres Z.
Variables (ps ns : list nat) (Us : list (list T)) (starts stops : list T) (samples : list Z) (prec : Z) (d : nat).
Hypotheses (Lp : length ps = d) (Ln : length ns = d) (LU : length Us = d) (Ls : length starts = d) (Lt : length stops = d)
  (Lm : length samples = d).
Definition dP (k : nat) : nat := nth k ps 0.
Definition dU (k : nat) : list T := nth k Us [].
Definition dN (k : nat) : nat := nth k ns 0.
(* degree < number of control points and number of control points + degree <= len(knot vector), per direction *)
Hypothesis wf : forall k, k < d -> dP k < dN k /\ dN k + dP k <= length (dU k).
Hypothesis Hf : forall k u, k < d ->
  func (Z.of_nat (dP k)) (dU k) (Z.of_nat (dN k)) u = GOk (Z.of_nat (Basis.find_span_linear K (dP k) (dU k) (dN k) u)).
Definition dknots (k : nat) : list T :=
  Knots.linspace K (lit_10e_8 K) (nth k starts (o0 K)) (nth k stops (o0 K)) (Z.to_nat (nth k samples 0%Z)).
Definition dSP (k : nat) : list nat := map (Basis.find_span_linear K (dP k) (dU k) (dN k)) (dknots k).
Definition dBS (k : nat) : list (list T) := Basis.basis_functions K (dP k) (dU k) (dSP k) (dknots k).

Lemma dir_loop :
  gfor (zrange 0 (Z.of_nat d) 1) (dir_body func starts stops samples prec (map Z.of_nat ps) Us (map Z.of_nat ns))
       (map (fun _ => @nil Z) (zrange 0 (Z.of_nat d) 1), map (fun _ => @nil (list T)) (zrange 0 (Z.of_nat d) 1))
  = GOk (map (fun k => map Z.of_nat (dSP k)) (seq 0 d), map dBS (seq 0 d)).
Proof.
  rewrite !map_const_zrange, Nat2Z.id, zrange_0_nat.
  destruct (gfor_seq_inv
    (fun i (st : list (list Z) * list (list (list T))) => length (fst st) = d /\ length (snd st) = d /\
       forall k, k < i -> nth k (fst st) [] = map Z.of_nat (dSP k) /\ nth k (snd st) [] = dBS k)
    (dir_body func starts stops samples prec (map Z.of_nat ps) Us (map Z.of_nat ns)) d 0) with (s := (repeat (@nil Z) d, repeat (@nil (list T)) d))
    as (t & E & H1 & H2 & H3).
  - intros i [spans basis] Hi (I1 & I2 & I3). cbn [fst snd] in *.
    unfold dir_body.
    rewrite (znth_nat starts i (o0 K)), (znth_nat stops i (o0 K)), (znth_nat samples i 0%Z) by lia. cbn [gbind].
    rewrite linspace_tie. cbn [gbind]. fold (dknots i).
    rewrite (znth_map_nat ps i), (znth_nat Us i []), (znth_map_nat ns i) by lia. cbn [gbind].
    fold (dP i) (dU i) (dN i).
    destruct (wf i) as [W1 W2]; [lia|].
    destruct (spans_basis K func (dP i) (dU i) (dN i) (dknots i) W1 W2) as [E1 E2]; [intros u; apply Hf; lia|].
    cbv zeta in E1, E2. fold (dSP i) in E1, E2.
    rewrite E1. cbn [gbind].
    rewrite zset_nat by lia. cbn [gbind].
    rewrite (znth_nat _ i []) by (rewrite upd_length; lia). rewrite nth_upd_same by lia.
    cbn [gbind]. rewrite E2. cbn [gbind]. fold (dBS i).
    rewrite zset_nat by lia. cbn [gbind].
    eexists. split; [reflexivity|]. cbn [fst snd]. rewrite !upd_length. repeat split; auto.
    + destruct (Nat.eq_dec k i) as [->|Hne]; [apply nth_upd_same; lia|].
      rewrite nth_upd_other by lia. apply I3. lia.
    + destruct (Nat.eq_dec k i) as [->|Hne]; [apply nth_upd_same; lia|].
      rewrite nth_upd_other by lia. apply I3. lia.
  - cbn [fst snd]. rewrite !repeat_length. repeat split; auto; lia.
  - rewrite E. f_equal. destruct t as [spans basis]. cbn [fst snd] in *. f_equal.
    + apply (nth_ext _ _ [] []); [now rewrite map_length, seq_length|].
      intros k Hk. rewrite (nth_map_lt _ _ k 0) by (rewrite seq_length; lia).
      rewrite seq_nth by lia. apply H3. lia.
    + apply (nth_ext _ _ [] []); [now rewrite map_length, seq_length|].
      intros k Hk. rewrite (nth_map_lt _ _ k 0) by (rewrite seq_length; lia).
      rewrite seq_nth by lia. apply H3. lia.
Qed.

(* what the point loops need of the tables *)
Lemma dSP_length k : length (dSP k) = length (dknots k).
Proof. unfold dSP. apply map_length. Qed.
Lemma dBS_length k : length (dBS k) = length (dknots k).
Proof. unfold dBS, dSP. apply basis_functions_length. Qed.
Lemma dSP_nth k i : i < length (dknots k) ->
  nth i (dSP k) 0 = Basis.find_span_linear K (dP k) (dU k) (dN k) (nth i (dknots k) (o0 K)).
Proof. intros H. unfold dSP. now apply nth_map_lt. Qed.
Lemma dBS_nth k i : i < length (dknots k) ->
  nth i (dBS k) [] = Basis.basis_function K (dP k) (dU k) (nth i (dSP k) 0) (nth i (dknots k) (o0 K)).
Proof. intros H. unfold dBS, dSP. rewrite nth_basis_functions by auto. now rewrite (nth_map_lt _ _ i (o0 K)). Qed.
Lemma dSP_bounds k i : k < d -> i < length (dknots k) -> dP k <= nth i (dSP k) 0 < dN k.
Proof. intros Hk H. rewrite dSP_nth by auto. apply find_span_linear_bounds. now apply wf. Qed.
Lemma dBS_row_length k i : i < length (dknots k) -> length (nth i (dBS k) []) = S (dP k).
Proof. intros H. rewrite dBS_nth by auto. apply bf_length. Qed.
End Dir.

(* ================= SurfaceEvaluator.evaluate ================= *)
(* datadict of a surface (Surface.data): degree = (pu, pv), knotvector = (Uu, Uv), size = (su, sv), pdimension = 2,
   sample_size = (nu, nv), control_points = P (flat, v fastest) *)
Definition surf_dd (dd : geomdata T) (pu pv : nat) (Uu Uv : list T) (su sv : nat) (P : list (list T)) (nu nv : Z) : Prop :=
  geomdata_degree dd = [Z.of_nat pu; Z.of_nat pv] /\ geomdata_knotvector dd = [Uu; Uv] /\
  geomdata_size dd = [Z.of_nat su; Z.of_nat sv] /\ geomdata_sample_size dd = [nu; nv] /\
  geomdata_pdimension dd = 2%Z /\ geomdata_control_points dd = P.

(* wf: per direction degree < size and size + degree <= len(knot vector); size_u * size_v <= len(control points) *)
Theorem SurfaceEvaluator_evaluate_tie_gen (func : Z -> list T -> Z -> T -> gres Z) (dd : geomdata T)
    (pu pv : nat) (Uu Uv : list T) (su sv : nat) (P : list (list T)) (nu nv : Z) (s0 s1 t0 t1 : T) :
  surf_dd dd pu pv Uu Uv su sv P nu nv ->
  pu < su -> su + pu <= length Uu -> pv < sv -> sv + pv <= length Uv -> su * sv <= length P ->
  (forall u, func (Z.of_nat pu) Uu (Z.of_nat su) u = GOk (Z.of_nat (Basis.find_span_linear K pu Uu su u))) ->
  (forall v, func (Z.of_nat pv) Uv (Z.of_nat sv) v = GOk (Z.of_nat (Basis.find_span_linear K pv Uv sv v))) ->
  Evaluators.SurfaceEvaluator_evaluate K func dd [s0; t0] [s1; t1] =
  GOk (surface_evalpts K (lit_10e_8 K) (Z.to_nat (eval_dim dd)) pu pv Uu Uv su sv P s0 s1 t0 t1 (Z.to_nat nu) (Z.to_nat nv)).
Proof.
  intros (Hd & Hk & Hs & Hn & Hpd & Hc) Hpu Hlu Hpv Hlv HP Hfu Hfv.
  unfold Evaluators.SurfaceEvaluator_evaluate. cbv zeta. fold (eval_dim dd).
  rewrite Hd, Hk, Hs, Hn, Hpd, Hc.
  set (ps := [pu; pv]). set (ns := [su; sv]). set (Us := [Uu; Uv]).
  set (starts := [s0; t0]). set (stops := [s1; t1]). set (samples := [nu; nv]).
  assert (wf : forall k, k < 2 -> dP ps k < dN ns k /\ dN ns k + dP ps k <= length (dU Us k)).
  { intros [|[|k]] Hk2; try lia; unfold dP, dN, dU; simpl; lia. }
  assert (Hf : forall k u, k < 2 -> func (Z.of_nat (dP ps k)) (dU Us k) (Z.of_nat (dN ns k)) u =
                 GOk (Z.of_nat (Basis.find_span_linear K (dP ps k) (dU Us k) (dN ns k) u))).
  { intros [|[|k]] u Hk2; try lia; unfold dP, dN, dU; simpl; auto. }
  change [Z.of_nat pu; Z.of_nat pv] with (map Z.of_nat ps). change [Z.of_nat su; Z.of_nat sv] with (map Z.of_nat ns).
  change 2%Z with (Z.of_nat 2).
  change (gfor (zrange 0 (Z.of_nat 2) 1) ?f) with (gfor (zrange 0 (Z.of_nat 2) 1) (dir_body func starts stops samples (geomdata_precision dd) (map Z.of_nat ps) Us (map Z.of_nat ns))).
  rewrite (dir_loop func ps ns Us starts stops samples (geomdata_precision dd) 2) by auto.
  cbn [gbind map seq].
  set (SP0 := dSP ps ns Us starts stops samples 0). set (SP1 := dSP ps ns Us starts stops samples 1).
  set (BS0 := dBS ps ns Us starts stops samples 0). set (BS1 := dBS ps ns Us starts stops samples 1).
  set (kn0 := dknots starts stops samples 0). set (kn1 := dknots starts stops samples 1).
  change (map Z.of_nat ps) with [Z.of_nat pu; Z.of_nat pv]. change (map Z.of_nat ns) with [Z.of_nat su; Z.of_nat sv].
  assert (L0 : length SP0 = length kn0) by apply dSP_length.
  assert (L1 : length SP1 = length kn1) by apply dSP_length.
  assert (Z1 : forall A (a b : A), znth [a; b] 1 = GOk b) by reflexivity.
  rewrite !Z1, !znth_0. cbn [gbind].
  rewrite zlen_nat, map_length, zrange_0_nat, gfor_map.
  rewrite (gfor_append_nested _ _ (fun i => map (fun j =>
     surface_point_at K (Z.to_nat (eval_dim dd)) pu pv sv P (nth i SP0 0) (nth j SP1 0) (nth i BS0 []) (nth j BS1 [])) (seq 0 (length kn1)))).
  - cbn [gbind app]. f_equal. unfold surface_evalpts.
    change (Knots.linspace K (lit_10e_8 K) s0 s1 (Z.to_nat nu)) with kn0.
    change (Knots.linspace K (lit_10e_8 K) t0 t1 (Z.to_nat nv)) with kn1.
    rewrite <- (flat_map_nth_seq (fun u => map (fun v => surface_point K (Z.to_nat (eval_dim dd)) pu pv Uu Uv su sv P u v) kn1) kn0 (o0 K)).
    rewrite L0. apply flat_map_ext_in. intros i Hi. apply in_seq in Hi.
    rewrite <- (map_nth_seq (fun v => surface_point K (Z.to_nat (eval_dim dd)) pu pv Uu Uv su sv P (nth i kn0 (o0 K)) v) kn1 (o0 K)).
    apply map_seq_ext. intros j Hj. unfold surface_point.
    unfold BS0, BS1. rewrite !dBS_nth by (fold kn0; fold kn1; lia).
    unfold SP0, SP1. rewrite !dSP_nth by (fold kn0; fold kn1; lia). reflexivity.
  - intros i acc Hi. apply in_seq in Hi.
    rewrite znth_map_nat by lia. cbn [gbind].
    rewrite zlen_nat, map_length, zrange_0_nat, gfor_map, L1.
    rewrite (gfor_append_gen _ _ (fun j =>
       surface_point_at K (Z.to_nat (eval_dim dd)) pu pv sv P (nth i SP0 0) (nth j SP1 0) (nth i BS0 []) (nth j BS1 []))); [reflexivity|].
    intros j acc2 Hj. apply in_seq in Hj.
    rewrite znth_map_nat by lia. cbn [gbind].
    assert (B0 : pu <= nth i SP0 0 < su) by (apply (dSP_bounds ps ns Us starts stops samples 2 wf 0 i); [lia|fold kn0; lia]).
    assert (B1 : pv <= nth j SP1 0 < sv) by (apply (dSP_bounds ps ns Us starts stops samples 2 wf 1 j); [lia|fold kn1; lia]).
    assert (R0 : length (nth i BS0 []) = S pu) by (apply (dBS_row_length ps ns Us starts stops samples 0 i); fold kn0; lia).
    assert (R1 : length (nth j BS1 []) = S pv) by (apply (dBS_row_length ps ns Us starts stops samples 1 j); fold kn1; lia).
    assert (LB0 : length BS0 = length kn0) by apply dBS_length.
    assert (LB1 : length BS1 = length kn1) by apply dBS_length.
    replace (Z.of_nat pu + 1)%Z with (Z.of_nat (S pu)) by lia.
    rewrite zrange_0_nat, gfor_map, zeros_vzero.
    rewrite (gfor_pure _ _ (fun spt k =>
       axpy K (nth k (nth i BS0 []) (o0 K))
         (fold_left (fun tmp l => axpy K (nth l (nth j BS1 []) (o0 K))
              (pt_at P (nth j SP1 0 - pv + l + sv * (nth i SP0 0 - pu + k))) tmp) (seq 0 (S pv)) (vzero K (Z.to_nat (eval_dim dd)))) spt)).
    + reflexivity.
    + intros k spt Hk_. apply in_seq in Hk_.
      replace (Z.of_nat pv + 1)%Z with (Z.of_nat (S pv)) by lia.
      rewrite zrange_0_nat, gfor_map.
      rewrite (gfor_pure _ _ (fun tmp l => axpy K (nth l (nth j BS1 []) (o0 K))
              (pt_at P (nth j SP1 0 - pv + l + sv * (nth i SP0 0 - pu + k))) tmp)).
      * cbn [gbind].
        rewrite (gmapM_axpy2 K BS0 (Z.of_nat i) (Z.of_nat k) (nth i BS0 []) (nth k (nth i BS0 []) (o0 K)));
          [reflexivity|apply znth_nat; lia|apply znth_nat; lia].
      * intros l tmp Hl. apply in_seq in Hl.
        replace (Z.of_nat (nth j SP1 0%nat) - Z.of_nat pv + Z.of_nat l + Z.of_nat sv * (Z.of_nat (nth i SP0 0%nat) - Z.of_nat pu + Z.of_nat k))%Z
          with (Z.of_nat (nth j SP1 0%nat - pv + l + sv * (nth i SP0 0%nat - pu + k)))
          by (rewrite !Nat2Z.inj_add, Nat2Z.inj_mul, Nat2Z.inj_add, !Nat2Z.inj_sub by lia; reflexivity).
        rewrite (znth_nat P _ []) by nia. cbn [gbind].
        rewrite (gmapM_axpy2 K BS1 (Z.of_nat j) (Z.of_nat l) (nth j BS1 []) (nth l (nth j BS1 []) (o0 K)));
          [reflexivity|apply znth_nat; lia|apply znth_nat; lia].
Qed.

Theorem SurfaceEvaluator_evaluate_tie (dd : geomdata T)
    (pu pv : nat) (Uu Uv : list T) (su sv : nat) (P : list (list T)) (nu nv : Z) (s0 s1 t0 t1 : T) :
  surf_dd dd pu pv Uu Uv su sv P nu nv ->
  pu < su -> su + pu <= length Uu -> pv < sv -> sv + pv <= length Uv -> su * sv <= length P ->
  Evaluators.SurfaceEvaluator_evaluate K (Helpers.find_span_linear K) dd [s0; t0] [s1; t1] =
  GOk (surface_evalpts K (lit_10e_8 K) (Z.to_nat (eval_dim dd)) pu pv Uu Uv su sv P s0 s1 t0 t1 (Z.to_nat nu) (Z.to_nat nv)).
Proof.
  intros. apply SurfaceEvaluator_evaluate_tie_gen; auto; intros; apply find_span_linear_tie; lia.
Qed.

(* ---- rational surfaces ---- *)
Lemma surface_point_length (dim pu pv : nat) (Uu Uv : list T) (su sv : nat) (P : list (list T)) (u v : T) :
  pu < su -> pv < sv -> su * sv <= length P -> (forall pt, In pt P -> length pt = dim) ->
  length (surface_point K dim pu pv Uu Uv su sv P u v) = dim.
Proof.
  intros Hpu Hpv HP Hdim. unfold surface_point, surface_point_at.
  pose proof (find_span_linear_bounds K pu Uu su u Hpu). pose proof (find_span_linear_bounds K pv Uv sv v Hpv).
  apply (fold_axpy_length K (fun k => nth k (Basis.basis_function K pu Uu (Basis.find_span_linear K pu Uu su u) u) (o0 K))).
  - apply repeat_length.
  - intros k Hk. apply in_seq in Hk.
    apply (fold_axpy_length K (fun l => nth l (Basis.basis_function K pv Uv (Basis.find_span_linear K pv Uv sv v) v) (o0 K))).
    + apply repeat_length.
    + intros l Hl. apply in_seq in Hl. apply Hdim. apply nth_In. nia.
Qed.

(* wf in addition: every (weighted) control point has exactly `dimension` >= 1 coordinates *)
Theorem SurfaceEvaluatorRational_evaluate_tie_gen (func : Z -> list T -> Z -> T -> gres Z) (dd : geomdata T)
    (pu pv : nat) (Uu Uv : list T) (su sv : nat) (P : list (list T)) (nu nv : Z) (s0 s1 t0 t1 : T) :
  surf_dd dd pu pv Uu Uv su sv P nu nv ->
  pu < su -> su + pu <= length Uu -> pv < sv -> sv + pv <= length Uv -> su * sv <= length P ->
  (1 <= eval_dim dd)%Z -> (forall pt, In pt P -> Z.of_nat (length pt) = eval_dim dd) ->
  (forall u, func (Z.of_nat pu) Uu (Z.of_nat su) u = GOk (Z.of_nat (Basis.find_span_linear K pu Uu su u))) ->
  (forall v, func (Z.of_nat pv) Uv (Z.of_nat sv) v = GOk (Z.of_nat (Basis.find_span_linear K pv Uv sv v))) ->
  Evaluators.SurfaceEvaluatorRational_evaluate K func dd [s0; t0] [s1; t1] =
  GOk (map (project K)
        (surface_evalpts K (lit_10e_8 K) (Z.to_nat (eval_dim dd)) pu pv Uu Uv su sv P s0 s1 t0 t1 (Z.to_nat nu) (Z.to_nat nv))).
Proof.
  intros Hdd Hpu Hlu Hpv Hlv HP Hdim Hpts Hfu Hfv.
  unfold Evaluators.SurfaceEvaluatorRational_evaluate. cbv zeta.
  rewrite (SurfaceEvaluator_evaluate_tie_gen func dd pu pv Uu Uv su sv P nu nv s0 s1 t0 t1) by auto. cbn [gbind].
  fold (eval_dim dd). rewrite project_loop; [reflexivity|].
  intros pt Hin. unfold surface_evalpts in Hin. apply in_flat_map in Hin. destruct Hin as (u & _ & Hin).
  apply in_map_iff in Hin. destruct Hin as (v & <- & _).
  assert (L : length (surface_point K (Z.to_nat (eval_dim dd)) pu pv Uu Uv su sv P u v) = Z.to_nat (eval_dim dd)).
  { apply surface_point_length; auto. intros pt Hpt. specialize (Hpts pt Hpt). lia. }
  split; [lia|]. intros E. rewrite E in L. simpl in L. lia.
Qed.

Theorem SurfaceEvaluatorRational_evaluate_tie (dd : geomdata T)
    (pu pv : nat) (Uu Uv : list T) (su sv : nat) (P : list (list T)) (nu nv : Z) (s0 s1 t0 t1 : T) :
  surf_dd dd pu pv Uu Uv su sv P nu nv ->
  pu < su -> su + pu <= length Uu -> pv < sv -> sv + pv <= length Uv -> su * sv <= length P ->
  (1 <= eval_dim dd)%Z -> (forall pt, In pt P -> Z.of_nat (length pt) = eval_dim dd) ->
  Evaluators.SurfaceEvaluatorRational_evaluate K (Helpers.find_span_linear K) dd [s0; t0] [s1; t1] =
  GOk (map (project K)
        (surface_evalpts K (lit_10e_8 K) (Z.to_nat (eval_dim dd)) pu pv Uu Uv su sv P s0 s1 t0 t1 (Z.to_nat nu) (Z.to_nat nv))).
Proof.
  intros. apply SurfaceEvaluatorRational_evaluate_tie_gen; auto; intros; apply find_span_linear_tie; lia.
Qed.
End Tie.

Definition SurfaceEvaluator_evaluate_tie_R := @SurfaceEvaluator_evaluate_tie _ Rops.
Definition SurfaceEvaluator_evaluate_tie_Q := @SurfaceEvaluator_evaluate_tie _ Qops.
Definition SurfaceEvaluatorRational_evaluate_tie_R := @SurfaceEvaluatorRational_evaluate_tie _ Rops.
Definition SurfaceEvaluatorRational_evaluate_tie_Q := @SurfaceEvaluatorRational_evaluate_tie _ Qops.

(* ---- non-vacuity: degrees (2, 1), 4 x 3 weighted control points (v fastest), an interior knot in u, 3 x 2 samples; the values
   are what geomdl returns for this surface ---- *)
Local Open Scope Q_scope.
Definition exUu : list Q := [0; 0; 0; 1#2; 1; 1; 1].
Definition exUv : list Q := [0; 0; 1#2; 1; 1].
Definition exPs : list (list Q) :=
  [[0; 0; 0; 1]; [0; 1; 1; 1]; [0; 2; 0; 1];   [1; 0; 1; 1]; [2; 2; 4; 2]; [1; 2; 1; 1];
   [2; 0; 0; 1]; [2; 1; 2; 1]; [4; 4; 0; 2];   [3; 0; 1; 1]; [3; 1; 0; 1]; [3; 2; 1; 1]].
Definition exdds (rat : bool) : geomdata Q :=
  mk_geomdata rat (if rat then 3 else 4)%Z 2%Z [3%Z; 2%Z] 18%Z [2%Z; 1%Z] [exUu; exUv] [4%Z; 3%Z] exPs.
Example SurfaceEvaluator_evaluate_ex :
  Evaluators.SurfaceEvaluator_evaluate Qops (Helpers.find_span_linear Qops) (exdds false) [0; 1#4] [1; 3#4] =
    GOk (surface_evalpts Qops (lit_10e_8 Qops) 4 2 1 exUu exUv 4 3 exPs 0 1 (1#4) (3#4) 3 2)
  /\ surf_dd (exdds false) 2 1 exUu exUv 4 3 exPs 3 2
  /\ (2 < 4 /\ 4 + 2 <= length exUu /\ 1 < 3 /\ 3 + 1 <= length exUv /\ 4 * 3 <= length exPs)%nat.
Proof.
  split; [vm_compute; reflexivity|]. split; [unfold surf_dd; repeat split|unfold exPs, exUu, exUv; simpl; lia].
Qed.
Example SurfaceEvaluator_evaluate_values :
  surface_evalpts Qops (lit_10e_8 Qops) 4 2 1 exUu exUv 4 3 exPs 0 1 (1#4) (3#4) 3 2 =
  [[0; 1#2; 1#2; 1]; [0; 3#2; 1#2; 1]; [7#4; 3#4; 7#4; 5#4]; [9#4; 9#4; 7#4; 3#2]; [3; 1#2; 1#2; 1]; [3; 3#2; 1#2; 1]].
Proof. vm_compute. reflexivity. Qed.
Example SurfaceEvaluatorRational_evaluate_ex :
  Evaluators.SurfaceEvaluatorRational_evaluate Qops (Helpers.find_span_linear Qops) (exdds true) [0; 1#4] [1; 3#4] =
    GOk (map (project Qops) (surface_evalpts Qops (lit_10e_8 Qops) 4 2 1 exUu exUv 4 3 exPs 0 1 (1#4) (3#4) 3 2))
  /\ map (project Qops) (surface_evalpts Qops (lit_10e_8 Qops) 4 2 1 exUu exUv 4 3 exPs 0 1 (1#4) (3#4) 3 2) =
     [[0; 1#2; 1#2]; [0; 3#2; 1#2]; [7#5; 3#5; 7#5]; [3#2; 3#2; 7#6]; [3; 1#2; 1#2]; [3; 3#2; 1#2]]
  /\ eval_dim (exdds true) = 4%Z.
Proof. split; [vm_compute; reflexivity|]. split; vm_compute; reflexivity. Qed.
