(* Tie: generated linalg.lu_solve = Model/LinAlg.v lu_solve, under sum_laws K, for the non-raising case: the matrix
   decomposes (it is square), the right-hand side is a non-empty matrix whose rows are not shorter than its first row,
   and the substitutions meet no short row and no zero pivot. *)
From Coq Require Import List ZArith Arith Bool Lia QArith.
From NV Require Import Scalar.Ops Model.Common Model.LinAlg Gen.Prelude Gen.LinalgInternal Gen.Linalg
  Proofs.GenTieLib Proofs.GenTieBasisOne Proofs.GenTieDersLib Proofs.GenTieSums Proofs.GenTieSubst Proofs.GenTieLU.
Import ListNotations.
Local Open Scope nat_scope.

Lemma res_all_ok {A B} (f : A -> res B) (g : A -> B) (l : list A) :
  (forall x, In x l -> f x = Ok (g x)) -> res_all (map f l) = Ok (map g l).
Proof.
  induction l; simpl; intros H; auto.
  rewrite H by auto. simpl. rewrite IHl by auto. reflexivity.
Qed.

Section Tie.
Context {T : Type} (K : ops T) (LW : sum_laws K).
Notation "0" := (o0 K).
Notation g2 := (get2 K).

Theorem lu_solve_tie (A b L U : list (list T)) :
  b <> [] ->
  (forall r, In r b -> length (hd [] b) <= length r) ->
  LinAlg.lu_decomposition K A = Ok (L, U) ->
  (forall i, i < length b -> i < length (nth i L []) /\ oeqb K (g2 L i i) 0 = false
                             /\ length b <= length (nth i U []) /\ oeqb K (g2 U i i) 0 = false) ->
  Linalg.lu_solve K A b = res_to_gres (fun x => x) ValueError IndexError (LinAlg.lu_solve K A b)
  /\ exists x, LinAlg.lu_solve K A b = Ok x.
Proof.
  intros Hne Hrows HLU Hsub. unfold Linalg.lu_solve, LinAlg.lu_solve.
  destruct b as [|b0 br] eqn:Eb; [congruence|]. rewrite <- Eb in *. clear Hne.
  assert (Ez : znth b 0%Z = GOk b0) by (rewrite Eb; apply znth_0). rewrite Ez. cbn [gbind].
  rewrite (lu_decomposition_tie K LW), HLU. cbn [res_to_gres gbind res_bind fst snd].
  assert (Ehd : hd [] b = b0) by (rewrite Eb; reflexivity). rewrite Ehd in Hrows.
  unfold solve_columns. rewrite Ehd.
  set (dim := length b0) in *. set (nx := length b) in *.
  assert (Hnx : 1 <= nx) by (subst nx; rewrite Eb; simpl; lia).
  assert (Hf : forallb (fun r => Nat.leb dim (length r)) b = true).
  { apply forallb_forall. intros r Hr. apply Nat.leb_le. now apply Hrows. }
  rewrite Hf. unfold zlen. fold dim nx.
  rewrite !map_const_zrange, !Nat2Z.id, !zrange_0_nat. fold (mk2 nx dim 0).
  (* the solution of column i *)
  set (G := fun i => res_bind (LinAlg.forward_substitution K L (column K b i)) (LinAlg.backward_substitution K U)).
  assert (Hcol : forall i, i < dim -> exists xt, G i = Ok xt /\ length xt = nx
            /\ (do bt <- gmapM (fun b1 : list T => do v_3 <- znth b1 (Z.of_nat i) ;; GOk v_3) b ;;
                do y <- Linalg.forward_substitution K L bt ;; Linalg.backward_substitution K U y) = GOk xt).
  { intros i Hi.
    rewrite (gmapM_ok _ (fun r : list T => nth i r 0)).
    2:{ intros r Hr. rewrite (znth_nat r i 0) by (specialize (Hrows r Hr); lia). reflexivity. }
    cbn [gbind]. fold (column K b i).
    assert (Lc : length (column K b i) = nx) by (unfold column; now rewrite map_length).
    destruct (forward_substitution_ok K LW L (column K b i)) as (y & Ey & EyG & Ly).
    { intros E. apply (f_equal (@length T)) in E. simpl in E. lia. }
    { intros j Hj. rewrite Lc in Hj. apply Hsub; lia. }
    { intros j Hj. rewrite Lc in Hj. apply Hsub; lia. }
    rewrite EyG. cbn [gbind].
    destruct (backward_substitution_ok K LW U y) as (xt & Ex & ExG & Lx).
    { intros E. apply (f_equal (@length T)) in E. simpl in E. lia. }
    { intros j Hj. rewrite Ly, Lc in *. apply Hsub; lia. }
    { intros j Hj. rewrite Ly, Lc in *. apply Hsub; lia. }
    exists xt. unfold G. rewrite Ey. cbn [res_bind]. split; [exact Ex|]. split; [lia|exact ExG]. }
  set (sol := fun i => match G i with Ok c => c | _ => [] end).
  (* the loop over the columns *)
  match goal with |- context [gfor (map Z.of_nat (seq O dim)) ?ff (mk2 nx dim 0)] =>
    destruct (gfor_seq_inv (fun ip (X : list (list T)) => wfm nx dim X
                  /\ (forall j i, i < ip -> j < nx -> g2 X j i = nth j (sol i) 0)) ff dim O)
      with (s := mk2 nx dim 0) as (XF & EF & WF & HF)
  end.
  { intros i X Hi (WX & HX). cbn [gbind].
    destruct (Hcol i ltac:(lia)) as (xt & EG & Lxt & Egen).
    (* the three calls, re-associated *)
    match goal with |- exists t, ?lhs = GOk t /\ _ =>
      match lhs with gbind ?m1 (fun bt => gbind (@?m2 bt) (fun y => gbind (@?m3 y) ?k)) =>
        assert (Eassoc : lhs = gbind (gbind m1 (fun bt => gbind (m2 bt) m3)) k)
      end
    end.
    { destruct (gmapM _ b); cbn [gbind]; auto. destruct (Linalg.forward_substitution K L a); reflexivity. }
    rewrite Eassoc. clear Eassoc. rewrite Egen. cbn [gbind].
    match goal with |- context [gfor (map Z.of_nat (seq O nx)) ?ff X] =>
      destruct (gfor_seq_inv (fun jp (X' : list (list T)) => wfm nx dim X'
                    /\ (forall j c, c <> i -> g2 X' j c = g2 X j c)
                    /\ (forall j, j < jp -> g2 X' j i = nth j xt 0)) ff nx O) with (s := X) as (X2 & E2 & W2 & H2a & H2b)
    end.
    { intros j X' Hj (WX' & Ha & Hb). cbn [gbind].
      rewrite (znth_nat xt j 0) by lia. cbn [gbind].
      rewrite (zset2k nx dim X') by (first [assumption|lia]). rewrite !Nat2Z.id.
      eexists. split; [reflexivity|]. split; [now apply wfm_set2|]. split.
      - intros j' c Hc. rewrite (get_set2_other K nx dim) by (auto; lia). auto.
      - intros j' Hj'. destruct (Nat.eq_dec j' j) as [->|Hn].
        + rewrite (get_set2_same K nx dim) by (first [assumption|lia]). reflexivity.
        + rewrite (get_set2_other K nx dim) by (auto; lia). apply Hb. lia. }
    { split; auto. split; auto. intros j Hj. lia. }
    rewrite E2. cbn [gbind]. eexists. split; [reflexivity|]. split; [assumption|].
    intros j i' Hi' Hj. destruct (Nat.eq_dec i' i) as [->|Hn].
    - rewrite H2b by lia. unfold sol. now rewrite EG.
    - rewrite H2a by auto. apply HX; lia. }
  { split; [apply mk2_wfm|]. intros j i Hi. lia. }
  rewrite EF. cbn [gbind].
  (* the model *)
  fold G. rewrite (res_all_ok G sol).
  2:{ intros i Hi. apply in_seq in Hi. destruct (Hcol i ltac:(lia)) as (xt & EG & _). unfold sol. now rewrite EG. }
  cbn [res_map res_to_gres]. split; [|eexists; reflexivity]. f_equal.
  destruct WF as [WF1 WF2]. apply nth_ext with (d := []) (d' := []).
  - now rewrite map_length, seq_length.
  - intros j Hj. rewrite WF1 in Hj. rewrite nth_map_seq by lia.
    apply nth_ext with (d := 0) (d' := 0).
    + rewrite WF2 by lia. now rewrite !map_length, seq_length.
    + intros i Hi. rewrite WF2 in Hi by lia. fold (g2 XF j i). rewrite HF by lia.
      rewrite map_map. rewrite nth_map_seq by lia. reflexivity.
Qed.
End Tie.

Definition lu_solve_tie_R := @lu_solve_tie _ Rops Rops_sum_laws.
Definition lu_solve_tie_Q := @lu_solve_tie _ Qops Qops_sum_laws.

(* ---- non-vacuity ---- *)
Local Open Scope Q_scope.
Example lu_solve_ex :
  Linalg.lu_solve Qops [[4; 3; 2]; [2; 1; 3]; [3; 4; 1]] [[1; 2]; [3; 4]; [5; 6]] = GOk [[-3; -40#13]; [3; 42#13]; [2; 30#13]]
  /\ LinAlg.lu_solve Qops [[4; 3; 2]; [2; 1; 3]; [3; 4; 1]] [[1; 2]; [3; 4]; [5; 6]] = Ok [[-3; -40#13]; [3; 42#13]; [2; 30#13]]
  /\ Linalg.lu_solve Qops [[0; 1]; [1; 0]] [[1]; [2]] = GErr ZeroDivisionError
  /\ LinAlg.lu_solve Qops [[0; 1]; [1; 0]] [[1]; [2]] = Crash.
Proof. repeat split; vm_compute; reflexivity. Qed.
