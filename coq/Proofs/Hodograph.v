(* C02 [G]: the control points of A3.3 (order 1) define the derivative curve, relative to the algebraic derivative of the
   Cox-de Boor functions (Eq. 2.7):  dN1 p i u = p * (N_{i,p-1}(u) / (U_{i+p}-U_i) - N_{i+1,p-1}(u) / (U_{i+p+1}-U_{i+1})).
   For every degree p >= 1, sorted knot sequence (any multiplicities; x/0 = 0), number of control points n and u in the domain
   [U_p, U_n):   sum_{i<n} dN1 p i u * P_i  =  sum_{i<n-1} N_{i+1,p-1}(u) * Q_i   with  Q_i = p (P_{i+1}-P_i) / (U_{i+p+1}-U_{i+1})
   (Abel summation; the two boundary terms vanish because N_{0,p-1} and N_{n,p-1} are zero on the domain).
   The model's curve_deriv_cpts row 1 is exactly Q (deriv_row_is_Q).  That dN1 is the analytic derivative is NOT proved here. *)
From Coq Require Import List Reals Lra Lia Arith Bool.
From NV Require Import Scalar.Ops Model.Common Model.Basis Model.Knots Model.Eval Model.Degree Model.Derivs Proofs.Boehm.
Import ListNotations.
Open Scope R_scope.

Fixpoint Rsum (f : nat -> R) (n : nat) : R := match n with O => 0 | S m => Rsum f m + f m end.

Section H.
Variable U : nat -> R.
Hypothesis Usorted : forall i, U i <= U (S i).
Variable p' : nat.                      (* p = S p' >= 1 *)
Notation p := (S p').
Variable P : nat -> R.
Variable u : R.

Definition dN1 (i : nat) : R :=
  INR p * (N U p' i u / (U (i + p) - U i) - N U p' (S i) u / (U (i + p + 1) - U (S i))).
Definition Qc (i : nat) : R := INR p * (P (S i) - P i) / (U (i + p + 1) - U (S i)).

Lemma abel n : Rsum (fun i => dN1 i * P i) (S n) =
  Rsum (fun i => N U p' (S i) u * Qc i) n
  + INR p * N U p' 0 u / (U p - U 0) * P 0 - INR p * N U p' (S n) u / (U (S n + p) - U (S n)) * P n.
Proof.
  induction n as [|n IH].
  - cbn [Rsum]. unfold dN1. replace (0 + p + 1)%nat with (1 + p)%nat by lia. replace (0 + p)%nat with p by lia.
    unfold Rdiv. ring.
  - change (Rsum (fun i => dN1 i * P i) (S (S n))) with (Rsum (fun i => dN1 i * P i) (S n) + dN1 (S n) * P (S n)).
    rewrite IH. cbn [Rsum]. unfold dN1, Qc.
    replace (n + p + 1)%nat with (S n + p)%nat by lia. replace (S n + p + 1)%nat with (S (S n) + p)%nat by lia.
    unfold Rdiv. ring.
Qed.

Theorem hodograph_control_points n : U p <= u < U (S n) ->
  Rsum (fun i => dN1 i * P i) (S n) = Rsum (fun i => N U p' (S i) u * Qc i) n.
Proof.
  intros [Hlo Hhi]. rewrite abel.
  rewrite (N_support U Usorted p' 0 u) by (right; replace (0 + p' + 1)%nat with p by lia; exact Hlo).
  rewrite (N_support U Usorted p' (S n) u) by (left; exact Hhi).
  unfold Rdiv. ring.
Qed.
End H.

(* the model: row 1 of helpers.curve_deriv_cpts over the whole control polygon (rs = (0, n-1)) holds the points Q_i, coordinate-wise *)
Lemma nth_map_seq' {A} (f : nat -> A) a n k d : (k < n)%nat -> nth k (map f (seq a n)) d = f (a + k)%nat.
Proof.
  intros H. rewrite (nth_indep _ d (f 0%nat)) by (rewrite map_length, seq_length; exact H).
  rewrite map_nth. rewrite seq_nth by exact H. reflexivity.
Qed.

Lemma ofnat_INR n : ofnat Rops n = INR n.
Proof. induction n as [|n IH]; [reflexivity|]. cbn [ofnat]. rewrite IH. rsimp. rewrite S_INR. reflexivity. Qed.

Theorem deriv_row_is_Q (p : nat) (kv : list R) (cpts : list (list R)) (n i c : nat) :
  (S i < n)%nat -> length cpts = n -> (c < length (nth (S i) cpts []))%nat -> (c < length (nth i cpts []))%nat ->
  nth c (nth i (nth 1 (curve_deriv_cpts Rops p kv cpts 0 (n - 1) 1) []) []) 0 =
  INR p * (nth c (nth (S i) cpts []) 0 - nth c (nth i cpts []) 0) / (kn Rops kv (i + p + 1) - kn Rops kv (i + 1)).
Proof.
  intros Hi Hn Hc1 Hc0. unfold curve_deriv_cpts. change (seq 1 1) with [1%nat]. cbn [fold_left fst snd app nth].
  unfold deriv_row. replace (S (n - 1 - 0) - 1)%nat with (n - 1)%nat by lia. replace (S (n - 1 - 0)) with n by lia.
  rewrite nth_map_seq' by lia. cbn [Nat.add].
  unfold pt_at. rewrite !nth_map_seq' by lia. cbn [Nat.add].
  set (a := nth (S i) cpts []) in *. set (b := nth i cpts []) in *.
  assert (E : forall (f : R * R -> R) (l1 l2 : list R) c0, (c0 < length l1)%nat -> (c0 < length l2)%nat ->
              nth c0 (map f (combine l1 l2)) 0 = f (nth c0 l1 0, nth c0 l2 0)).
  { clear. intros f l1 l2 c0. revert l1 l2. induction c0 as [|c0 IH]; intros [|x l1] [|y l2] H1 H2; simpl in *; try lia; [reflexivity|]. apply IH; lia. }
  rewrite E by assumption. cbn [fst snd]. rsimp.
  replace (p + 1 - 1)%nat with p by lia. rewrite ofnat_INR.
  replace (0 + i + p + 1)%nat with (i + p + 1)%nat by lia. replace (0 + i + 1)%nat with (i + 1)%nat by lia. reflexivity.
Qed.
