(* C05, general theorems about A5.4 (Model.KnotRefine.refine_pts = helpers.knot_refinement after the list X has
   been built), for every degree p >= 1, every sorted U, every sorted list X of new knots inside the domain:
   - refine_kv_is_merge   : the returned knot vector is the sorted merge of U and X;
   - refine_preserves_curve : the returned (knot vector, control points) define the same curve, every coordinate,
     every parameter, provided no knot ends up with multiplicity above p and the tolerance of the algorithm's
     "alpha = 0" test does not confuse distinct knots.
   Proof: loop invariant (Proofs/RefineGenI.v); every outer iteration is one Boehm insertion. *)
From Coq Require Import List Reals Lra Lia Arith Bool Permutation.
From NV Require Import Scalar.Ops Model.Common Model.Basis Model.KnotIns Model.InsertKnot Model.KnotRefine
  Proofs.Boehm Proofs.BasisR Proofs.KnotInsR Proofs.InsertKnotR Proofs.KnotRefineR Proofs.RefineGenS Proofs.RefineGenI.
Import ListNotations.
Local Open Scope nat_scope.

Section Final.
Variables (tol : R) (p : nat) (U : list R) (P : list (list R)) (X : list R) (dim : nat).
Hypothesis Hp1 : 1 <= p.
Hypothesis Usorted : sortedR U.
Hypothesis HpP : p < length P.
Hypothesis HlenU : length U = length P + p + 1.
Hypothesis Xne : X <> [].
Hypothesis Xsorted : sortedR X.
Hypothesis Xlo : (knR U p <= nth 0 X 0)%R.
Hypothesis Xhi : (nth (length X - 1) X 0 < knR U (length P))%R.

Let a := find_span_linear Rops p U (S (length P - 1)) (nth 0 X 0%R).
Let b := S (find_span_linear Rops p U (S (length P - 1)) (nth (length X - 1) X 0%R)).

Lemma Inv_init : Inv tol p U P X dim X (rinit p U P X a b).
Proof.
  destruct (a_spec p U P X Hp1 HpP HlenU Xne Xsorted Xlo Xhi) as [Ha [Ha1 Ha2]]. fold a in Ha, Ha1, Ha2.
  destruct (b_spec p U P X Hp1 HpP HlenU Xne Xsorted Xlo Xhi) as [Hb [Hb1 Hb2]]. fold b in Hb, Hb1, Hb2.
  pose proof (a_lt_b p U P X Hp1 Usorted HpP HlenU Xne Xsorted Xlo Xhi) as Hab. fold a b in Hab.
  pose proof (Xlen p U P X Hp1 HpP HlenU Xne Xsorted Xlo Xhi) as HX1.
  unfold rinit. cbv zeta.
  set (r := length X - 1). set (n := length P - 1). set (m := n + p + 1).
  set (new0 := repeat [] (n + r + 2)).
  set (new1 := fold_left (fun nw j => upd nw j (getA [] P j)) (seq 0 (S (a - p))) new0).
  set (new2 := fold_left (fun nw j => upd nw (j + r + 1) (getA [] P j)) (seq (b - 1) (S n - (b - 1))) new1).
  set (kv0 := repeat 0%R (m + r + 2)).
  set (kv1 := fold_left (fun kv j => upd kv j (knR U j)) (seq 0 (S a)) kv0).
  set (kv2 := fold_left (fun kv j => upd kv (j + r + 1) (knR U j)) (seq (b + p) (S m - (b + p))) kv1).
  assert (HLn : length new2 = length P + length X).
  { unfold new2, new1, new0. rewrite !fold_upd_length, repeat_length. unfold n, r. lia. }
  assert (HLn1 : length new1 = length P + length X).
  { unfold new1, new0. rewrite !fold_upd_length, repeat_length. unfold n, r. lia. }
  assert (HLk : length kv2 = length U + length X).
  { unfold kv2, kv1, kv0. rewrite !fold_upd_length, repeat_length. unfold m, n, r. lia. }
  assert (HLk1 : length kv1 = length U + length X).
  { unfold kv1, kv0. rewrite !fold_upd_length, repeat_length. unfold m, n, r. lia. }
  assert (Hkv2 : forall j, nth j kv2 0%R =
     if andb (Nat.leb (b + p + (r + 1)) j) (Nat.ltb j (length U + length X)) then knR U (j - (r + 1)) else nth j kv1 0%R).
  { intros j. unfold kv2.
    rewrite (fold_left_ext (fun kv j0 => upd kv (j0 + r + 1) (knR U j0)) (fun kv j0 => upd kv (j0 + (r + 1)) (knR U j0)))
      by (intros; f_equal; lia).
    rewrite nth_fold_upd_shift, HLk1.
    destruct (Nat.leb_spec (b + p + (r + 1)) j); destruct (Nat.ltb_spec j (b + p + (S m - (b + p)) + (r + 1)));
    destruct (Nat.ltb_spec j (length U + length X)); cbn [andb]; auto; unfold m, n, r in *; lia. }
  assert (Hnw2 : forall j, nth j new2 [] =
     if andb (Nat.leb (b - 1 + (r + 1)) j) (Nat.ltb j (length P + length X)) then nth (j - (r + 1)) P [] else nth j new1 []).
  { intros j. unfold new2.
    rewrite (fold_left_ext (fun nw j0 => upd nw (j0 + r + 1) (getA [] P j0)) (fun nw j0 => upd nw (j0 + (r + 1)) (getA [] P j0)))
      by (intros; f_equal; lia).
    rewrite nth_fold_upd_shift, HLn1.
    destruct (Nat.leb_spec (b - 1 + (r + 1)) j); destruct (Nat.ltb_spec j (b - 1 + (S n - (b - 1)) + (r + 1)));
    destruct (Nat.ltb_spec j (length P + length X)); cbn [andb]; auto; unfold n, r in *; lia. }
  assert (EW : Wl U kv2 (b + p - 1) (b + p + r) = U).
  { unfold Wl. replace (S (b + p - 1)) with (b + p) by lia.
    rewrite <- (firstn_skipn (b + p) U) at 2. f_equal.
    apply (nth_ext _ _ 0%R 0%R).
    - rewrite !skipn_length, HLk. unfold r. lia.
    - intros j Hj. rewrite skipn_length, HLk in Hj. rewrite !nth_skipn_add, Hkv2.
      destruct (Nat.leb_spec (b + p + (r + 1)) (S (b + p + r) + j)); [|lia].
      destruct (Nat.ltb_spec (S (b + p + r) + j) (length U + length X)); [|unfold r in *; lia].
      cbn [andb]. unfold kn. cbn [o0 Rops]. f_equal. lia. }
  assert (ER : Rl p P new2 (b + p - 1) (b + p + r) = P).
  { unfold Rl. replace (b + p - 1 - p) with (b - 1) by lia. replace (b + p + r - p) with (b + r) by lia.
    rewrite <- (firstn_skipn (b - 1) P) at 2. f_equal.
    apply (nth_ext _ _ [] []).
    - rewrite !skipn_length, HLn. unfold r. lia.
    - intros j Hj. rewrite skipn_length, HLn in Hj. rewrite !nth_skipn_add, Hnw2.
      destruct (Nat.leb_spec (b - 1 + (r + 1)) (b + r + j)); [|lia].
      destruct (Nat.ltb_spec (b + r + j) (length P + length X)); [|unfold r in *; lia].
      cbn [andb]. f_equal. lia. }
  unfold Inv. cbv zeta. rewrite EW, ER.
  split; [lia|]. split; [lia|]. split; [unfold r; lia|]. split; [exact HLk|]. split; [exact HLn|].
  split. { exists []. rewrite app_nil_r. reflexivity. }
  split; [exact Usorted|].
  split. { f_equal. lia. }
  split.
  { intros x' Hx'. destruct (X_in_dom p U P X Hp1 HpP HlenU Xne Xsorted Xlo Xhi x' Hx') as [[_ H2] _]. fold b in H2.
    assert (knR U b <= knR U (S (b + p - 1)))%R by (apply Usorted; lia). lra. }
  split.
  { intros w Hw. rewrite Hkv2. destruct (Nat.leb_spec (b + p + (r + 1)) w); [lia|]. cbn [andb].
    unfold kv1. rewrite nth_fold_upd_copy. unfold kv0. rewrite repeat_length.
    destruct (Nat.leb_spec 0 w); [|lia]. destruct (Nat.ltb_spec w (0 + S a)); [|lia].
    destruct (Nat.ltb_spec w (m + r + 2)); [|unfold m, n, r in *; lia]. reflexivity. }
  split.
  { intros w Hw. rewrite Hnw2. destruct (Nat.leb_spec (b - 1 + (r + 1)) w); [lia|]. cbn [andb].
    unfold new1. rewrite nth_fold_upd_copy. unfold new0. rewrite repeat_length.
    destruct (Nat.leb_spec 0 w); [|lia]. destruct (Nat.ltb_spec w (0 + S (a - p))); [|lia].
    destruct (Nat.ltb_spec w (n + r + 2)); [|unfold n, r in *; lia]. reflexivity. }
  split; [apply Permutation_refl|].
  split; [intros E; congruence|].
  intros [_ [_ Hdim]]. split; [|reflexivity].
  intros w Hw. apply Hdim. exact Hw.
Qed.

(* the result of A5.4: everything the invariant says once all of X has been processed *)
Theorem refine_pts_spec :
  let '(Q, V) := refine_pts Rops tol p U P X in
  length V = length U + length X /\ Permutation V (X ++ U) /\ sortedR V /\
  length Q = length P + length X /\
  (Hyps tol p U P X dim ->
    (forall w, w < length Q -> length (getp Q w) = dim) /\
    (forall c t, c < dim -> curve_pt p V Q c t = curve_pt p U P c t)).
Proof.
  rewrite refine_pts_fold. cbv zeta. fold a b.
  pose proof (Inv_fold tol p U P X dim Hp1 Usorted HpP HlenU Xne Xsorted Xlo Xhi X _ Inv_init) as H. fold a in H.
  destruct (fold_left (rstep tol p U P a) (rev X) (rinit p U P X a b)) as [[[nwF kvF] i] k].
  unfold Inv in H. cbv zeta in H. fold a in H.
  destruct H as [_ [HiU [Hk [HLk [HLn [_ [Hs [_ [_ [Hkv [Hnw [HPerm [Hia HC]]]]]]]]]]]]].
  specialize (Hia eq_refl). cbn [length] in Hk. subst i. rewrite Nat.add_0_r in Hk. subst k.
  destruct (a_spec p U P X Hp1 HpP HlenU Xne Xsorted Xlo Xhi) as [Ha _]. fold a in Ha.
  assert (EW : Wl U kvF a a = kvF).
  { unfold Wl. rewrite <- (firstn_skipn (S a) kvF) at 2. f_equal.
    apply (nth_ext _ _ 0%R 0%R).
    - rewrite !firstn_length. lia.
    - intros j Hj. rewrite firstn_length in Hj. rewrite !nth_firstn_lt by lia. symmetry. apply Hkv. lia. }
  assert (ER : Rl p P nwF a a = nwF).
  { unfold Rl. rewrite <- (firstn_skipn (a - p) nwF) at 2. f_equal.
    apply (nth_ext _ _ [] []).
    - rewrite !firstn_length. lia.
    - intros j Hj. rewrite firstn_length in Hj. rewrite !nth_firstn_lt by lia. symmetry. apply Hnw. lia. }
  rewrite EW in *. rewrite ER in *. cbn [app] in HPerm.
  split; [exact HLk|]. split; [exact HPerm|]. split; [exact Hs|]. split; [exact HLn|]. exact HC.
Qed.
End Final.

(* ---------- [G] 1. the knot vector returned by A5.4 is the sorted merge of U and X ---------- *)
Theorem refine_kv_is_merge : forall (tol : R) (p : nat) (U : list R) (P : list (list R)) (X : list R),
  1 <= p -> sortedR U -> p < length P -> length U = length P + p + 1 ->
  X <> [] -> sortedR X -> (knR U p <= nth 0 X 0)%R -> (nth (length X - 1) X 0 < knR U (length P))%R ->
  let V := snd (refine_pts Rops tol p U P X) in
  Permutation V (U ++ X) /\ sortedR V /\ length V = length U + length X.
Proof.
  intros tol p U P X H1 H2 H3 H4 H5 H6 H7 H8. cbv zeta.
  pose proof (refine_pts_spec tol p U P X 0 H1 H2 H3 H4 H5 H6 H7 H8) as H.
  destruct (refine_pts Rops tol p U P X) as [Q V]. cbn [snd].
  destruct H as [HL [HP [HS _]]]. split; [|split; assumption].
  eapply Permutation_trans; [exact HP|apply Permutation_app_comm].
Qed.

(* ---------- [G] 2. A5.4 leaves every curve point unchanged ---------- *)
Theorem refine_preserves_curve : forall (tol : R) (p : nat) (U : list R) (P : list (list R)) (X : list R) (dim : nat),
  1 <= p -> sortedR U -> p < length P -> length U = length P + p + 1 ->
  X <> [] -> sortedR X -> (knR U p <= nth 0 X 0)%R -> (nth (length X - 1) X 0 < knR U (length P))%R ->
  (forall x y, In x X -> In y (X ++ U) -> (x < y)%R -> (tol <= y - x)%R) ->
  (forall x, In x X -> count_occ Req_EM_T (X ++ U) x <= p) ->
  (forall i, i < length P -> length (getp P i) = dim) ->
  let '(Q, V) := refine_pts Rops tol p U P X in
  length Q = length P + length X /\ (forall w, w < length Q -> length (getp Q w) = dim) /\
  forall c t, c < dim -> curve_pt p V Q c t = curve_pt p U P c t.
Proof.
  intros tol p U P X dim H1 H2 H3 H4 H5 H6 H7 H8 H9 H10 H11.
  pose proof (refine_pts_spec tol p U P X dim H1 H2 H3 H4 H5 H6 H7 H8) as H.
  destruct (refine_pts Rops tol p U P X) as [Q V].
  destruct H as [_ [_ [_ [HL HC]]]]. destruct (HC (conj H9 (conj H10 H11))) as [Hd Hc].
  split; [exact HL|]. split; assumption.
Qed.

Print Assumptions refine_kv_is_merge.
Print Assumptions refine_preserves_curve.
