(* Tie: generated helpers.degree_reduction = Model/Degree.v degree_reduction_pts (points = lists of coordinates), for
   ALL inputs (GeomdlException <-> Rejected), with the keyword check_num = True.
   The source builds its scalars as float(i) (unary ofnat), the model as ofnatb (binary digits): they agree under
   nat_laws K = sum_laws K + (0 + 1 = 1) + (2 * x = x + x), proved for Rops and Qops. *)
From Coq Require Import List ZArith Arith Bool Lia QArith Qreals Reals Lra.
From NV Require Import Scalar.Ops Model.Common Model.Degree Gen.Prelude Gen.Helpers
  Proofs.GenTieLib Proofs.GenTieSpan Proofs.GenTieSums Proofs.GenTieSubst.
Import ListNotations.
Local Open Scope nat_scope.

Record nat_laws {T : Type} (K : ops T) : Prop := mkNatLaws {
  nl_sum : sum_laws K;
  nl_01 : oadd K (o0 K) (o1 K) = o1 K;
  nl_2x : forall x, omul K (o2 K) x = oadd K x x }.

Lemma Rops_nat_laws : nat_laws Rops.
Proof. constructor; [apply Rops_sum_laws| |]; intros; unfold o2; rsimp; lra. Qed.

Lemma Qops_nat_laws : nat_laws Qops.
Proof.
  constructor; [apply Qops_sum_laws| |]; intros; unfold o2; cbn [oadd omul o0 o1 Qops].
  - reflexivity.
  - apply Qred_complete. rewrite Qred_correct. ring.
Qed.

Lemma rev_seq a n : rev (seq a n) = map (fun k => a + n - 1 - k) (seq 0 n).
Proof.
  revert a; induction n; intros a; [reflexivity|].
  rewrite seq_S, rev_app_distr. cbn [rev app]. cbn [seq map]. f_equal; [lia|].
  rewrite IHn. rewrite <- seq_shift, map_map. apply map_ext_in. intros k Hk. apply in_seq in Hk. lia.
Qed.

Lemma fold_left_map' {A B C} (g : A -> B -> A) (h : C -> B) (l : list C) a :
  fold_left g (map h l) a = fold_left (fun acc x => g acc (h x)) l a.
Proof. revert a; induction l; simpl; auto. Qed.

Lemma odd_Z (p : nat) : negb (Z.of_nat p mod 2 =? 0)%Z = Nat.odd p.
Proof.
  pose proof (Nat.div2_odd p) as Hd. set (k := Nat.div2 p) in *. destruct (Nat.odd p); cbn [Nat.b2n] in Hd.
  - assert (E : (Z.of_nat p mod 2 = 1)%Z).
    { rewrite Hd, Nat2Z.inj_add, Nat2Z.inj_mul, Z.add_comm, Z.mul_comm, Z_mod_plus_full. reflexivity. }
    now rewrite E.
  - assert (E : (Z.of_nat p mod 2 = 0)%Z).
    { rewrite Hd, Nat.add_0_r, Nat2Z.inj_mul, Z.mul_comm, Z_mod_mult. reflexivity. }
    now rewrite E.
Qed.

Lemma zset_neg {A} (l : list A) k v : 1 <= k <= length l -> zset l (- Z.of_nat k) v = GOk (upd l (length l - k) v).
Proof. intros H. unfold zset. rewrite zidx_neg by auto. now rewrite list_upd_eq. Qed.

Section Tie.
Context {T : Type} (K : ops T) (NL : nat_laws K).
Notation "0" := (o0 K).
Let LW := nl_sum K NL.

Lemma add_0_sum x y : oadd K 0 (oadd K x y) = oadd K x y.
Proof. rewrite (sl_0_comm K LW). apply (sl_sum_0 K LW). Qed.

Lemma ofnat_1 : ofnat K 1 = o1 K.
Proof. simpl. apply (nl_01 K NL). Qed.

Lemma ofnat_add a b : 1 <= b -> ofnat K (a + b) = oadd K (ofnat K a) (ofnat K b).
Proof.
  intros Hb. destruct b as [|b]; [lia|]. clear Hb. induction b.
  - rewrite Nat.add_1_r, ofnat_1. reflexivity.
  - rewrite Nat.add_succ_r. cbn [ofnat]. rewrite IHb. cbn [ofnat].
    now rewrite (sl_assoc K LW (ofnat K a) (oadd K (ofnat K b) (o1 K)) (o1 K)).
Qed.

Lemma ofnat_bin_ofnat : forall fuel n, n <= fuel -> ofnat_bin K fuel n = ofnat K n.
Proof.
  induction fuel; intros n Hn.
  - assert (n = O) by lia. subst. reflexivity.
  - cbn [ofnat_bin]. destruct (Nat.eqb_spec n O) as [->|H0]; [reflexivity|].
    destruct (Nat.eqb_spec n 1) as [->|H1]; [now rewrite ofnat_1|].
    pose proof (Nat.div2_odd n) as Hd. set (m := Nat.div2 n) in *.
    assert (Hm : 1 <= m) by (destruct (Nat.odd n); cbn [Nat.b2n] in Hd; lia).
    rewrite IHfuel by (destruct (Nat.odd n); cbn [Nat.b2n] in Hd; lia).
    rewrite (nl_2x K NL). rewrite <- ofnat_add by exact Hm.
    clearbody m. destruct (Nat.odd n); cbn [Nat.b2n] in Hd; subst n.
    + replace (2 * m + 1) with (S (m + m)) by lia. reflexivity.
    + replace (2 * m + 0) with (m + m) by lia. reflexivity.
Qed.

Lemma ofZ_ofnatb (n : nat) : ofZ K (Z.of_nat n) = ofnatb K n.
Proof. rewrite ofZ_of_nat. unfold ofnatb. now rewrite ofnat_bin_ofnat. Qed.

Lemma lzipw_gen (f : T -> T -> T) (a b : list T) :
  map (fun '(c1, c2) => f c1 c2) (combine a b) = lzipw f a b.
Proof. unfold lzipw. apply map_ext. intros [x y]. reflexivity. Qed.

Lemma map_const_repeat {A B} (c : B) (l : list A) : map (fun _ => c) l = repeat c (length l).
Proof. induction l; simpl; congruence. Qed.

(* all inputs; check_num = True *)
Theorem degree_reduction_tie (p : nat) (P : list (list T)) :
  Helpers.degree_reduction K (Z.of_nat p) P true =
  res_to_gres (fun x => x) GeomdlError IndexError (Degree.degree_reduction_pts K p P).
Proof.
  unfold Helpers.degree_reduction, degree_reduction_pts, Degree.degree_reduction.
  destruct P as [|P0 Pr] eqn:EP.
  { unfold zlen. simpl length. destruct (Z.eqb_spec (Z.of_nat p + 1) (Z.of_nat O)); [lia|reflexivity]. }
  rewrite <- EP in *. unfold zlen.
  destruct (Z.eqb_spec (Z.of_nat p + 1) (Z.of_nat (length P))); destruct (Nat.eqb_spec (p + 1) (length P)); try lia;
    cbn [negb]; [|reflexivity].
  destruct (Z.ltb_spec (Z.of_nat p) 2); destruct (Nat.ltb_spec p 2); try lia; [reflexivity|].
  cbn [gbind res_to_gres]. unfold degree_reduction_core.
  assert (HP0 : nth O P P0 = P0) by (rewrite EP; reflexivity).
  assert (Ez : znth P 0%Z = GOk P0) by (rewrite EP; apply znth_0).
  (* the array of zero points *)
  rewrite (gmapM_ok _ (fun _ : Z => repeat 0 (length P0))).
  2:{ intros x _. rewrite Ez. cbn [gbind]. unfold zlen. rewrite map_const_zrange, Nat2Z.id. reflexivity. }
  cbn [gbind]. rewrite map_const_zrange, Nat2Z.id. rewrite Ez. cbn [gbind].
  rewrite (zset_Z _ 0%Z) by (rewrite repeat_length; lia). cbn [gbind]. change (Z.to_nat 0) with O.
  change (-1)%Z with (- Z.of_nat 1)%Z.
  rewrite (znth_neg P 1 P0) by lia. cbn [gbind].
  rewrite zset_neg by (rewrite upd_length, repeat_length; lia). cbn [gbind]. rewrite upd_length, repeat_length.
  rewrite HP0. unfold lzlike. rewrite (map_const_repeat 0 P0).
  set (a0 := upd (upd (repeat (repeat 0 (length P0)) p) O P0) (p - 1) (nth (length P - 1) P P0)).
  assert (La0 : length a0 = p) by (unfold a0; now rewrite !upd_length, repeat_length).
  rewrite odd_Z. replace (if Nat.odd p then true else false) with (Nat.odd p) by (destruct (Nat.odd p); reflexivity).
  replace (Z.of_nat p - 1)%Z with (Z.of_nat (p - 1)) by lia. rewrite rtrunc_rdiv2 by lia. rewrite <- div2_Z.
  set (r := Nat.div2 (p - 1)).
  assert (Hr : 2 * r <= p - 1 /\ p - 1 <= 2 * r + 1).
  { unfold r. pose proof (Nat.div2_odd (p - 1)) as Hd. destruct (Nat.odd (p - 1)); simpl in Hd; lia. }
  assert (Hodd : Nat.odd p = true -> p = 2 * r + 1 \/ p = 2 * r + 2).
  { intros _. lia. }
  set (nfwd := if Nat.eqb p 2 then O else if Nat.odd p then r - 1 else r).
  (* r1 *)
  match goal with |- gbind ?A _ = _ => assert (EA : exists r1 : Z, A = GOk r1 /\ zrange 1 (r1 + 1) 1 = map Z.of_nat (seq 1 nfwd)) end.
  { unfold nfwd. destruct (Z.eqb_spec (Z.of_nat p) 2); destruct (Nat.eqb_spec p 2); try lia.
    - eexists. split; [reflexivity|]. rewrite zrange_step1. assert (r = O) by lia.
      replace (Z.to_nat (Z.of_nat r - 2 + 1 - 1)) with O by lia. reflexivity.
    - destruct (Nat.odd p) eqn:Eo.
      + assert (1 <= r).
        { pose proof (Nat.div2_odd p) as Hd. rewrite Eo in Hd. simpl in Hd. lia. }
        eexists. split; [reflexivity|].
        replace (Z.of_nat r - 1 + 1)%Z with (Z.of_nat (S (r - 1))) by lia. apply zrange_1_nat.
      + eexists. split; [reflexivity|]. replace (Z.of_nat r + 1)%Z with (Z.of_nat (S r)) by lia. apply zrange_1_nat. }
  destruct EA as (r1 & EA & Er1). rewrite EA. cbn [gbind]. rewrite Er1. clear EA Er1 r1.
  assert (Hnf : nfwd <= r) by (unfold nfwd; destruct (Nat.eqb p 2); [lia|destruct (Nat.odd p); lia]).
  assert (HlenP : length P = p + 1) by lia.
  (* forward loop *)
  match goal with |- context [gfor (map Z.of_nat (seq 1 nfwd)) ?ff a0] =>
    match goal with |- context [fold_left ?gg (seq 1 nfwd) a0] =>
      destruct (gfor_seq_fold (fun (_ : nat) (a b : list (list T)) => a = b /\ length b = p) ff gg nfwd 1)
        with (s := a0) (s' := a0) as (a1 & E1 & -> & La1)
    end
  end.
  { intros i a a' Hi [<- La]. cbn [gbind].
    rewrite (znth_Z P _ P0) by lia. cbn [gbind]. rewrite (znth_Z a _ P0) by lia. cbn [gbind].
    rewrite zset_Z by lia. cbn [gbind]. rewrite !Nat2Z.id.
    replace (Z.to_nat (Z.of_nat i - 1)) with (i - 1) by lia.
    rewrite !ofZ_ofnatb, lzipw_gen.
    eexists. split; [reflexivity|]. rewrite upd_length. auto. }
  { auto. }
  rewrite E1. cbn [gbind]. clear E1.
  match goal with |- context [fold_left ?gg (seq 1 nfwd) a0] => set (a1 := fold_left gg (seq 1 nfwd) a0) in * end.
  (* backward loop *)
  rewrite zrange_down, gfor_map, rev_seq, fold_left_map'.
  replace (Z.to_nat (Z.of_nat p - 2 - Z.of_nat r)) with (p - 2 - r) by lia.
  match goal with |- context [gfor (seq O (p - 2 - r)) ?ff a1] =>
    match goal with |- context [fold_left ?gg (seq O (p - 2 - r)) a1] =>
      destruct (gfor_fold_seq0 (fun (_ : nat) (a b : list (list T)) => a = b /\ length b = p) ff gg (p - 2 - r) O)
        with (s := a1) (s' := a1) as (a2 & E2 & -> & La2)
    end
  end.
  { intros k a a' Hk [<- La]. cbn [gbind].
    set (i := p - 2 - k).
    replace (Z.of_nat p - 2 - Z.of_nat k)%Z with (Z.of_nat i) by lia.
    replace (r + 1 + (p - 2 - r) - 1 - k) with i by lia.
    replace (Z.of_nat i + 1)%Z with (Z.of_nat (i + 1)) by lia.
    rewrite (znth_Z P _ P0) by lia. cbn [gbind]. rewrite (znth_Z a _ P0) by lia. cbn [gbind].
    rewrite zset_Z by lia. cbn [gbind]. rewrite !Nat2Z.id.
    rewrite !ofZ_ofnatb, lzipw_gen.
    eexists. split; [reflexivity|]. rewrite upd_length. auto. }
  { auto. }
  rewrite E2. cbn [gbind]. clear E2.
  match goal with |- context [fold_left ?gg (seq O (p - 2 - r)) a1] => set (a2 := fold_left gg (seq O (p - 2 - r)) a1) in * end.
  (* the middle point for odd degrees *)
  destruct (Nat.odd p) eqn:Eo; [|reflexivity].
  assert (Hr1 : 1 <= r /\ r + 1 < p).
  { pose proof (Nat.div2_odd p) as Hd. rewrite Eo in Hd. simpl in Hd. lia. }
  replace (Z.of_nat r - 1)%Z with (Z.of_nat (r - 1)) by lia.
  replace (Z.of_nat r + 1)%Z with (Z.of_nat (r + 1)) by lia.
  rewrite !(znth_Z P _ P0) by lia. cbn [gbind]. rewrite !(znth_Z a2 _ P0) by lia. cbn [gbind].
  rewrite zset_Z by lia. cbn [gbind]. rewrite !Nat2Z.id.
  rewrite !ofZ_ofnatb, !lzipw_gen. reflexivity.
Qed.
End Tie.

Definition degree_reduction_tie_R := @degree_reduction_tie _ Rops Rops_nat_laws.
Definition degree_reduction_tie_Q := @degree_reduction_tie _ Qops Qops_nat_laws.

(* ---- non-vacuity: degrees 2, 3 (odd: the averaged middle point), 4 and 5, and a rejected input ---- *)
Local Open Scope Q_scope.
Example degree_reduction_ex :
  Helpers.degree_reduction Qops 3 [[0; 0]; [1; 2]; [3; 2]; [4; 0]] true = GOk [[0; 0]; [2; 3]; [4; 0]]
  /\ degree_reduction_pts Qops 3 [[0; 0]; [1; 2]; [3; 2]; [4; 0]] = Ok [[0; 0]; [2; 3]; [4; 0]]
  /\ Helpers.degree_reduction Qops 2 [[0; 0]; [1; 2]; [3; 2]] true = GOk (match degree_reduction_pts Qops 2 [[0; 0]; [1; 2]; [3; 2]] with Ok x => x | _ => [] end)
  /\ Helpers.degree_reduction Qops 4 [[0; 0]; [1; 2]; [2; 3]; [3; 2]; [4; 0]] true = GOk (match degree_reduction_pts Qops 4 [[0; 0]; [1; 2]; [2; 3]; [3; 2]; [4; 0]] with Ok x => x | _ => [] end)
  /\ Helpers.degree_reduction Qops 5 [[0; 0]; [1; 2]; [2; 3]; [3; 3]; [4; 2]; [5; 0]] true = GOk (match degree_reduction_pts Qops 5 [[0; 0]; [1; 2]; [2; 3]; [3; 3]; [4; 2]; [5; 0]] with Ok x => x | _ => [] end)
  /\ Helpers.degree_reduction Qops 3 [[0; 0]; [1; 2]; [3; 2]] true = GErr GeomdlError
  /\ degree_reduction_pts Qops 3 [[0; 0]; [1; 2]; [3; 2]] = Rejected.
Proof. repeat split; vm_compute; reflexivity. Qed.
