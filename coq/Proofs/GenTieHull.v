(* Tie: generated linalg.convex_hull (Gen/LinalgGeom.v) = Model/Geom2D.v convex_hull.
   The source decides with ==, <, and the three-valued cmp; the model with < only: the two agree under order_laws K
   (< is asymmetric, == excludes <, and not == and not < gives >), which hold at Rops and Qops. *)
From Coq Require Import List ZArith Arith Bool Lia QArith Reals Qreals Lra.
From NV Require Import Scalar.Ops Model.Common Model.Geom2D Gen.Prelude Gen.PreludeExt Gen.LinalgGeom Proofs.GenTieLib Proofs.GenTieLib2.
Import ListNotations.
Local Open Scope nat_scope.

Record order_laws {T : Type} (K : ops T) : Prop := mkOrderLaws {
  ol_asym : forall x y, oltb K x y = true -> oltb K y x = false;
  ol_eq_lt : forall x y, oeqb K x y = true -> oltb K x y = false /\ oltb K y x = false;
  ol_total : forall x y, oeqb K x y = false -> oltb K x y = false -> oltb K y x = true }.

Lemma Rops_order_laws : order_laws Rops.
Proof.
  constructor; intros x y; unfold oeqb; cbn [oltb oleb Rops]; unfold Rltb, Rleb;
    repeat destruct (Rlt_dec _ _); repeat destruct (Rle_dec _ _); cbn [andb]; intros; try split; try reflexivity; try discriminate; lra.
Qed.

Lemma Qops_order_laws : order_laws Qops.
Proof.
  constructor; intros x y; unfold oeqb; cbn [oltb oleb Qops];
    destruct (Qle_bool x y) eqn:E1; destruct (Qle_bool y x) eqn:E2; cbn [andb negb]; intros; try split; try reflexivity; try discriminate.
  exfalso. destruct (Qlt_le_dec x y) as [H1|H1].
  - apply Qlt_le_weak in H1. apply Qle_bool_iff in H1. congruence.
  - apply Qle_bool_iff in H1. congruence.
Qed.

(* the local definitions (constants, nested functions) of a generated function become hypotheses *)
Ltac intro_let n :=
  lazymatch goal with |- (let x := ?v in @?f x) = ?rhs => change (let x := v in f x = rhs); intro n; cbv beta end.

Section Tie.
Context {T : Type} (K : ops T) (OL : order_laws K).

Lemma pylist_ltb_pt (a b : list T) : pylist_ltb K a b = pt_ltb K a b.
Proof.
  revert b; induction a as [|x a IH]; destruct b as [|y b]; try reflexivity.
  cbn [pylist_ltb pt_ltb]. rewrite IH.
  destruct (oeqb K x y) eqn:E.
  - destruct (ol_eq_lt K OL x y E) as [-> ->]. reflexivity.
  - destruct (oltb K x y) eqn:E1; [reflexivity|]. now rewrite (ol_total K OL x y E E1).
Qed.

Lemma pylist_eqb_pt (a b : list T) : pylist_eqb K a b = pt_eqb K a b.
Proof. reflexivity. Qed.      (* the two fixpoints are the same term *)

Lemma py_sorted_sort (l : list (list T)) : py_sorted_pts K l = sort_pts K l.
Proof.
  unfold py_sorted_pts, sort_pts. induction l as [|p l IH]; [reflexivity|]. cbn [fold_right]. rewrite IH.
  generalize (fold_right (insert_pt K) [] l). intros s. induction s as [|q s IHs]; [reflexivity|].
  cbn [py_insert_pt insert_pt]. rewrite pylist_ltb_pt, IHs. reflexivity.
Qed.

Lemma insert_pt_In p q (l : list (list T)) : In q (insert_pt K p l) -> q = p \/ In q l.
Proof.
  induction l as [|a l IH]; cbn [insert_pt]; intros H.
  - destruct H as [<-|[]]. now left.
  - destruct (pt_ltb K p a).
    + destruct H as [<-|H]; [now left|now right].
    + destruct H as [<-|H]; [right; now left|]. destruct (IH H); [now left|right; now right].
Qed.
Lemma sort_pts_In q (l : list (list T)) : In q (sort_pts K l) -> In q l.
Proof.
  unfold sort_pts. induction l as [|p l IH]; cbn [fold_right]; intros H; [exact H|].
  destruct (insert_pt_In _ _ _ H) as [->|H']; [now left|right; auto].
Qed.

Definition pts2 (l : list (list T)) : Prop := forall p, In p l -> 2 <= length p.

Lemma pop_nonleft_sub (stk : list (list T)) r p : In p (pop_nonleft K stk r) -> In p stk.
Proof.
  induction stk as [|h1 tl IH]; [auto|]. cbn [pop_nonleft]. destruct tl as [|h2 tl']; [auto|].
  destruct (oltb K (o0 K) _); [auto|]. intros H. right. apply IH, H.
Qed.
Lemma keep_left_pts2 (stk : list (list T)) r : pts2 stk -> 2 <= length r -> pts2 (keep_left K stk r).
Proof.
  intros Hs Hr p. unfold keep_left. destruct (pop_nonleft K stk r) as [|h s] eqn:E.
  - intros [<-|[]]. exact Hr.
  - destruct (pt_eqb K h r).
    + intros H. apply Hs. apply (pop_nonleft_sub stk r). rewrite E. exact H.
    + intros [<-|H]; [exact Hr|]. apply Hs. apply (pop_nonleft_sub stk r). rewrite E. exact H.
Qed.

Lemma znth_m1_rev {A} (h : A) (tl : list A) : znth (rev (h :: tl)) (-1) = GOk h.
Proof.
  rewrite (znth_last _ h) by (cbn [rev]; destruct (rev tl); discriminate).
  cbn [rev]. now rewrite last_last.
Qed.
Lemma znth_m2_rev {A} (h1 h2 : A) (tl : list A) : znth (rev (h1 :: h2 :: tl)) (-2) = GOk h2.
Proof.
  change (-2)%Z with (- Z.of_nat 2)%Z. rewrite (znth_neg _ 2 h2) by (rewrite rev_length; simpl; lia).
  cbn [rev]. rewrite <- !app_assoc. cbn [app]. rewrite !app_length. cbn [length].
  replace (length (rev tl) + 2 - 2) with (length (rev tl)) by lia. now rewrite nth_middle.
Qed.
Lemma zpop_rev {A} (h : A) (tl : list A) : zpop (rev (h :: tl)) = GOk (rev tl).
Proof.
  cbn [rev]. unfold zpop. destruct (rev tl ++ [h]) eqn:E; [destruct (rev tl); discriminate|]. rewrite <- E. now rewrite removelast_last.
Qed.

Lemma slice_mid {A} (u : list A) :
  gmapM (fun i => do v <- znth u i ;; GOk v) (zrange 1 (zlen u - 1) 1) = GOk (removelast (tl u)).
Proof.
  destruct u as [|a u]; [reflexivity|]. unfold zlen. cbn [length tl].
  replace (Z.of_nat (S (length u)) - 1)%Z with (Z.of_nat (length u)) by lia.
  change 1%Z with (Z.of_nat 1) at 1. rewrite zrange_nat.
  rewrite (gmapM_ok _ (fun i => nth (Z.to_nat i) (a :: u) a)).
  - f_equal. rewrite map_map.
    destruct u as [|b u] using rev_ind; [reflexivity|]. rewrite removelast_last, app_length. cbn [length].
    replace (length u + 1 - 1) with (length u) by lia.
    apply nth_ext with (d := a) (d' := a); [now rewrite map_length, seq_length|].
    intros i Hi. rewrite map_length, seq_length in Hi.
    rewrite (nth_indep _ a (nth (Z.to_nat (Z.of_nat 0)) (a :: u ++ [b]) a)) by (now rewrite map_length, seq_length).
    rewrite (map_nth (fun x => nth (Z.to_nat (Z.of_nat x)) (a :: u ++ [b]) a)), seq_nth by exact Hi.
    rewrite Nat2Z.id. cbn [Nat.add nth]. now rewrite app_nth1.
  - intros i Hi. apply in_map_iff in Hi. destruct Hi as (n & <- & Hn). apply in_seq in Hn.
    rewrite (znth_nat (a :: u) n a) by (cbn [length]; lia). now rewrite Nat2Z.id.
Qed.

(* wf: every point has (at least) two coordinates (IndexError otherwise) *)
Theorem convex_hull_tie (pts : list (list T)) :
  pts2 pts -> LinalgGeom.convex_hull K pts = GOk (Geom2D.convex_hull K pts).
Proof.
  intros Hpts. cbv beta delta [LinalgGeom.convex_hull].
  intro_let turn_left. intro_let turn_right. intro_let turn_none. intro_let cmp. intro_let turn. intro_let kl.
  intro_let points0.
  assert (Hturn : forall p q r, 2 <= length p -> 2 <= length q -> 2 <= length r ->
            turn p q r = GOk (Z.b2z (oltb K (o0 K) (Geom2D.is_left K p q r)) - Z.b2z (oltb K (Geom2D.is_left K p q r) (o0 K)))%Z).
  { intros p q r Hp Hq Hr. unfold turn, cmp.
    rewrite !(znth_lit0 p (o0 K)), !(znth_lit1 p (o0 K)), !(znth_lit0 q (o0 K)), !(znth_lit1 q (o0 K)),
      !(znth_lit0 r (o0 K)), !(znth_lit1 r (o0 K)) by lia. reflexivity. }
  assert (Hwhile : forall r stk, pts2 stk -> 2 <= length r ->
            gwhile (S (length stk))
              (fun hull => do v_13 <- (if (1 <? zlen hull)%Z then do v_10 <- znth hull (-2) ;; do v_11 <- znth hull (-1) ;;
                                         do v_12 <- turn v_10 v_11 r ;; GOk (negb (v_12 =? turn_left)%Z) else GOk false) ;; GOk v_13)
              (fun hull => do hull <- zpop hull ;; GOk hull) (rev stk) = GOk (rev (pop_nonleft K stk r))).
  { intros r stk Hs Hr. induction stk as [|h1 tl IH]; [reflexivity|].
    rewrite gwhile_unfold. unfold zlen. rewrite rev_length.
    destruct tl as [|h2 tl'].
    - reflexivity.
    - replace (1 <? Z.of_nat (length (h1 :: h2 :: tl')))%Z with true by (symmetry; apply Z.ltb_lt; cbn [length]; lia).
      rewrite znth_m2_rev, znth_m1_rev. cbn [gbind].
      rewrite Hturn by (auto; apply Hs; cbn [In]; auto). cbn [gbind]. cbn [pop_nonleft].
      subst turn_left.
      destruct (oltb K (o0 K) (Geom2D.is_left K h2 h1 r)) eqn:E.
      + rewrite (ol_asym K OL _ _ E). reflexivity.
      + assert (Hne : negb (Z.b2z false - Z.b2z (oltb K (Geom2D.is_left K h2 h1 r) (o0 K)) =? 1)%Z = true) by (destruct (oltb K _ (o0 K)); reflexivity).
        rewrite Hne. rewrite zpop_rev. cbn [gbind]. apply IH. intros p Hp. apply Hs. now right. }
  assert (Hkeep : forall r stk, pts2 stk -> 2 <= length r -> kl (rev stk) r = GOk (rev (Geom2D.keep_left K stk r))).
  { intros r stk Hs Hr. unfold kl.
    replace (Z.to_nat (zlen (rev stk) + 1)) with (S (length stk)) by (unfold zlen; rewrite rev_length; lia).
    rewrite Hwhile by auto. cbn [gbind]. unfold Geom2D.keep_left.
    destruct (pop_nonleft K stk r) as [|h s]; [reflexivity|].
    replace (zlen (rev (h :: s)) =? 0)%Z with false
      by (symmetry; apply Z.eqb_neq; unfold zlen; rewrite rev_length; cbn [length]; lia).
    rewrite znth_m1_rev. cbn [gbind]. rewrite pylist_eqb_pt. destruct (pt_eqb K h r); reflexivity. }
  assert (Hfold : forall l stk, pts2 stk -> pts2 l ->
            gfor l (fun x acc => kl acc x) (rev stk) = GOk (rev (fold_left (Geom2D.keep_left K) l stk))).
  { induction l as [|r l IH]; intros stk Hs Hl; [reflexivity|]. cbn [gfor fold_left].
    rewrite Hkeep by (auto; apply Hl; now left). cbn [gbind]. apply IH.
    - apply keep_left_pts2; auto. apply Hl. now left.
    - intros p Hp. apply Hl. now right. }
  subst points0. rewrite py_sorted_sort.
  assert (Hsorted : pts2 (sort_pts K pts)) by (intros p Hp; apply Hpts, sort_pts_In, Hp).
  assert (E1 := Hfold (sort_pts K pts) [] ltac:(intros p []) Hsorted).
  assert (E2 := Hfold (rev (sort_pts K pts)) [] ltac:(intros p []) ltac:(intros p Hp; apply Hsorted, in_rev, Hp)).
  cbn [rev] in E1, E2. rewrite E1. cbn [gbind]. rewrite E2. cbn [gbind].
  rewrite slice_mid. reflexivity.
Qed.
End Tie.

Definition convex_hull_tie_R := @convex_hull_tie _ Rops Rops_order_laws.
Definition convex_hull_tie_Q := @convex_hull_tie _ Qops Qops_order_laws.

(* ---- non-vacuity ---- *)
Local Open Scope Q_scope.
Example convex_hull_ex :
  let pts := [[1; 1]; [0; 0]; [2; 0]; [1; 1#2]; [2; 2]; [0; 2]; [1; 0]; [2; 0]] in
  LinalgGeom.convex_hull Qops pts = GOk [[0; 0]; [2; 0]; [2; 2]; [0; 2]]
  /\ Geom2D.convex_hull Qops pts = [[0; 0]; [2; 0]; [2; 2]; [0; 2]]
  /\ LinalgGeom.convex_hull Qops [[1; 1]; [0]; [2; 2]] = GErr IndexError
  /\ LinalgGeom.convex_hull Qops [] = GOk [].
Proof. repeat split; vm_compute; reflexivity. Qed.
