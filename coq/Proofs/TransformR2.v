(* C10: the shape-level statements: one theorem for all kinds (curve / surface / volume, rational or not),
   the three operations, containers element by element. *)
From Coq Require Import List Reals Lra Lia Arith Bool.
From NV Require Import Scalar.Ops Model.Common Model.Basis Model.Knots Model.Eval Model.Homog Model.Hull Model.Transform
  Proofs.BasisR Proofs.LinComb Proofs.HomogR Proofs.HullR Proofs.TransformR.
Import ListNotations.
Open Scope R_scope.

(* well-formed shapes: control points of spatial dimension dim (weighted points with positive weights if rational) *)
Definition pts_ok (dim : nat) (sh : shape R) : Prop :=
  if sh_rational sh
  then exists P W, sh_pts sh = hom_combine Rops P W /\ length W = length P /\
                   Forall (fun q => length q = dim) P /\ Forall (fun w => 0 < w) W
  else Forall (fun q => length q = dim) (sh_pts sh).
(* parametric directions: sorted knot vectors of the right length, parameters inside the closed domain *)
Definition dirs_ok (sh : shape R) (prm : list R) : Prop :=
  match sh_deg sh, sh_kv sh, sh_size sh, prm with
  | [p], [U], [n], [u] => n = length (sh_pts sh) /\ dir_ok p U n u
  | [pu; pv], [Uu; Uv], [su; sv], [u; v] => length (sh_pts sh) = (su * sv)%nat /\ dir_ok pu Uu su u /\ dir_ok pv Uv sv v
  | [pu; pv; pw], [Uu; Uv; Uw], [su; sv; sw], [u; v; w] =>
      length (sh_pts sh) = (su * sv * sw)%nat /\ dir_ok pu Uu su u /\ dir_ok pv Uv sv v /\ dir_ok pw Uw sw w
  | _, _, _, _ => False
  end.

Lemma pos_nonzero (W : list R) : Forall (fun w => 0 < w) W -> Forall (fun w => w <> 0) W.
Proof. apply Forall_impl. intros a Ha. lra. Qed.

Lemma first_len dim (P : list (list R)) : (0 < length P)%nat -> Forall (fun q => length q = dim) P -> length (nth 0 P []) = dim.
Proof. intros H HP. rewrite Forall_forall in HP. apply HP, nth_In, H. Qed.
Lemma first_len_hom dim (P : list (list R)) W : (0 < length P)%nat -> length W = length P -> Forall (fun q => length q = dim) P ->
  length (nth 0 (hom_combine Rops P W) []) = S dim.
Proof.
  intros H HW HP. change (nth 0 (hom_combine Rops P W) []) with (pt_at (hom_combine Rops P W) 0).
  rewrite pt_at_hom by assumption. rewrite hom_point_length. f_equal. apply first_len; assumption.
Qed.
Lemma map_Forall_len dim f (P : list (list R)) : affine_map dim dim f -> Forall (fun q => length q = dim) P -> Forall (fun q => length q = dim) (map f P).
Proof. intros [Hl _] HP. apply Forall_forall. intros q Hq. apply in_map_iff in Hq. destruct Hq as [x [<- Hx]]. apply Hl. rewrite Forall_forall in HP. auto. Qed.

Lemma dirs_ok_nonempty sh prm : dirs_ok sh prm -> (0 < length (sh_pts sh))%nat.
Proof.
  unfold dirs_ok, dir_ok.
  destruct (sh_deg sh) as [|p [|pv [|pw [|p4 pr]]]]; destruct (sh_kv sh) as [|U [|Uv [|Uw [|U4 Ur]]]]; destruct (sh_size sh) as [|n [|sv [|sw [|s4 sr]]]];
    destruct prm as [|u [|v [|w [|u4 ur]]]]; try contradiction.
  - intros [-> [_ [H _]]]. lia.
  - intros [E [[_ [H1 _]] [_ [H2 _]]]]. rewrite E. nia.
  - intros [E [[_ [H1 _]] [[_ [H2 _]] [_ [H3 _]]]]]. rewrite E. assert (0 < n * sv)%nat by nia. nia.
Qed.

(* ---- THE statement: mapping the control points (through the unweighted view, weights unchanged) moves every
        evaluated point by the same affine map ---- *)
Theorem sh_eval_on_ctrlpts dim f sh prm : affine_map dim dim f -> pts_ok dim sh -> dirs_ok sh prm ->
  sh_eval Rops (on_ctrlpts Rops f sh) prm = res_map f (sh_eval Rops sh prm).
Proof.
  intros Hf Hp Hd. pose proof (dirs_ok_nonempty sh prm Hd) as Hne.
  unfold pts_ok in Hp. unfold sh_eval, on_ctrlpts. cbn [sh_rational sh_deg sh_kv sh_size sh_pts].
  unfold dirs_ok in Hd.
  destruct (sh_rational sh) eqn:Er.
  - (* rational *)
    destruct Hp as [P [W [EP [HW [HP Wp]]]]]. rewrite EP in *.
    rewrite hom_weights_combine by exact HW. rewrite hom_unweight_combine by (auto using pos_nonzero).
    assert (LP : length (hom_combine Rops P W) = length P) by (apply hom_combine_length; exact HW).
    rewrite LP in *.
    rewrite (first_len_hom dim P W) by assumption.
    rewrite (first_len_hom dim (map f P) W) by (rewrite ?map_length; auto using map_Forall_len).
    destruct (sh_deg sh) as [|p [|pv [|pw [|p4 pr]]]]; destruct (sh_kv sh) as [|U [|Uv [|Uw [|U4 Ur]]]]; destruct (sh_size sh) as [|n [|sv [|sw [|s4 sr]]]];
      destruct prm as [|u [|v [|w [|u4 ur]]]]; try contradiction; cbn [res_map]; f_equal.
    + destruct Hd as [-> Hd]. apply (rational_curve_affine dim dim f P W); assumption.
    + destruct Hd as [E [H1 H2]]. apply (rational_surface_affine dim dim f P W); assumption.
    + destruct Hd as [E [H1 [H2 H3]]]. apply (rational_volume_affine dim dim f P W); assumption.
  - (* polynomial *)
    rewrite (first_len dim (sh_pts sh)) by assumption.
    rewrite (first_len dim (map f (sh_pts sh))) by (rewrite ?map_length; auto using map_Forall_len).
    destruct (sh_deg sh) as [|p [|pv [|pw [|p4 pr]]]]; destruct (sh_kv sh) as [|U [|Uv [|Uw [|U4 Ur]]]]; destruct (sh_size sh) as [|n [|sv [|sw [|s4 sr]]]];
      destruct prm as [|u [|v [|w [|u4 ur]]]]; try contradiction; cbn [res_map]; f_equal.
    + destruct Hd as [-> Hd]. apply (curve_affine dim dim f); assumption.
    + destruct Hd as [E [H1 H2]]. apply (surface_affine dim dim f); assumption.
    + destruct Hd as [E [H1 [H2 H3]]]. apply (volume_affine dim dim f); assumption.
Qed.

(* the mapped shape is again well formed (needed to chain the three steps of rotate) *)
Lemma on_ctrlpts_pts_ok dim f sh : affine_map dim dim f -> pts_ok dim sh -> pts_ok dim (on_ctrlpts Rops f sh).
Proof.
  intros Hf Hp. unfold pts_ok, on_ctrlpts in *. cbn [sh_rational sh_pts]. destruct (sh_rational sh).
  - destruct Hp as [P [W [EP [HW [HP Wp]]]]]. exists (map f P), W. rewrite EP.
    rewrite hom_weights_combine by exact HW. rewrite hom_unweight_combine by (auto using pos_nonzero).
    repeat split; auto using map_Forall_len. rewrite map_length. exact HW.
  - apply map_Forall_len; assumption.
Qed.
Lemma on_ctrlpts_dirs_ok f sh prm dim : affine_map dim dim f -> pts_ok dim sh -> dirs_ok sh prm -> dirs_ok (on_ctrlpts Rops f sh) prm.
Proof.
  intros Hf Hp Hd. unfold dirs_ok, on_ctrlpts in *. cbn [sh_deg sh_kv sh_size sh_pts sh_rational].
  assert (EL : length (if sh_rational sh then hom_combine Rops (map f (hom_unweight Rops (sh_pts sh))) (hom_weights Rops (sh_pts sh)) else map f (sh_pts sh)) = length (sh_pts sh)).
  { unfold pts_ok in Hp. destruct (sh_rational sh).
    - destruct Hp as [P [W [EP [HW [HP Wp]]]]]. rewrite EP. rewrite hom_weights_combine by exact HW.
      rewrite hom_unweight_combine by (auto using pos_nonzero). rewrite !hom_combine_length; rewrite ?map_length; auto.
    - apply map_length. }
  rewrite EL. exact Hd.
Qed.

(* ---- rotate = translate to the origin, rotate about the axis, translate back ---- *)
Theorem sh_eval_rotate dim axis c s origin sh prm :
  (axis <= 2)%nat -> ((axis = 2 /\ 2 <= dim) \/ 3 <= dim)%nat -> length origin = dim -> pts_ok dim sh -> dirs_ok sh prm ->
  sh_eval Rops (rotate_shape Rops axis c s origin sh) prm =
  res_map (fun x => tr_point Rops (back_origin Rops origin) (rot_axis Rops axis c s (tr_point Rops (neg_origin Rops origin) x))) (sh_eval Rops sh prm).
Proof.
  intros Ha Hdm Ho Hp Hd. unfold rotate_shape.
  assert (A1 : affine_map dim dim (tr_point Rops (neg_origin Rops origin))) by (apply tr_point_affine; unfold neg_origin; rewrite map_length; exact Ho).
  assert (A2 : affine_map dim dim (rot_axis Rops axis c s)) by (apply rot_axis_affine; assumption).
  assert (A3 : affine_map dim dim (tr_point Rops (back_origin Rops origin))) by (apply tr_point_affine; unfold back_origin, neg_origin; rewrite !map_length; exact Ho).
  set (s1 := on_ctrlpts Rops (tr_point Rops (neg_origin Rops origin)) sh).
  set (s2 := on_ctrlpts Rops (rot_axis Rops axis c s) s1).
  assert (P1 : pts_ok dim s1) by (apply on_ctrlpts_pts_ok; assumption).
  assert (D1 : dirs_ok s1 prm) by (apply (on_ctrlpts_dirs_ok _ _ _ dim); assumption).
  assert (P2 : pts_ok dim s2) by (apply on_ctrlpts_pts_ok; assumption).
  assert (D2 : dirs_ok s2 prm) by (apply (on_ctrlpts_dirs_ok _ _ _ dim); assumption).
  rewrite (sh_eval_on_ctrlpts dim _ s2 prm A3 P2 D2). unfold s2.
  rewrite (sh_eval_on_ctrlpts dim _ s1 prm A2 P1 D1). unfold s1.
  rewrite (sh_eval_on_ctrlpts dim _ sh prm A1 Hp Hd).
  destruct (sh_eval Rops sh prm); reflexivity.
Qed.

(* the rotation step itself: the origin is a fixed point and, for c^2 + s^2 = 1, distances to it are preserved and the
   axis coordinate is unchanged (3-dimensional points) *)
Lemma rotation_fixes_origin axis c s x y z : (axis <= 2)%nat ->
  tr_point Rops (back_origin Rops [x;y;z]) (rot_axis Rops axis c s (tr_point Rops (neg_origin Rops [x;y;z]) [x;y;z])) = [x;y;z].
Proof.
  intros Ha. destruct axis as [|[|[|a]]]; try lia; unfold tr_point, back_origin, neg_origin, rot_axis, rot_x, rot_y, rot_z, vadd, c0, c1, c2;
    cbn [map combine fst snd nth length Nat.sub repeat app skipn]; rsimp; repeat f_equal; ring.
Qed.
Lemma rotation_isometry axis c s x y z : (axis <= 2)%nat -> c * c + s * s = 1 ->
  let r := rot_axis Rops axis c s [x;y;z] in
  nth 0 r 0 * nth 0 r 0 + nth 1 r 0 * nth 1 r 0 + nth 2 r 0 * nth 2 r 0 = x * x + y * y + z * z /\ nth axis r 0 = nth axis [x;y;z] 0.
Proof.
  intros Ha Hcs. destruct axis as [|[|[|a]]]; try lia; unfold rot_axis, rot_x, rot_y, rot_z, c0, c1, c2;
    cbn [nth length Nat.sub repeat app skipn]; rsimp; split; try reflexivity.
  - replace (x * x + y * y + z * z) with (x * x + (c * c + s * s) * (y * y + z * z)) by (rewrite Hcs; ring). ring.
  - replace (x * x + y * y + z * z) with ((c * c + s * s) * (x * x + z * z) + y * y) by (rewrite Hcs; ring). ring.
  - replace (x * x + y * y + z * z) with ((c * c + s * s) * (x * x + y * y) + z * z) by (rewrite Hcs; ring). ring.
Qed.

(* ---- the operations on element lists (single shape = one element; container = its elements) ---- *)
Definition elems_ok (dim : nat) (elems : list (shape R)) (prms : list (list R)) : Prop :=
  Forall2 (fun sh prm => pts_ok dim sh /\ dirs_ok sh prm) elems prms.

Lemma Forall2_map_eval (g : shape R -> shape R) (h : list R -> list R) elems prms dim :
  elems_ok dim elems prms ->
  (forall sh prm, pts_ok dim sh -> dirs_ok sh prm -> sh_eval Rops (g sh) prm = res_map h (sh_eval Rops sh prm)) ->
  Forall2 (fun shp prm => sh_eval Rops (fst shp) prm = res_map h (sh_eval Rops (snd shp) prm)) (combine (map g elems) elems) prms.
Proof.
  intros Hok Hg. induction Hok as [|sh prm elems prms [Hp Hd] Hrest IH]; [constructor|].
  cbn [map combine]. constructor; [cbn [fst snd]; apply Hg; assumption|exact IH].
Qed.

Lemma sh_dimension_ok dim sh prm : pts_ok dim sh -> dirs_ok sh prm -> sh_dimension sh = dim.
Proof.
  intros Hp Hd. pose proof (dirs_ok_nonempty sh prm Hd) as Hne. unfold sh_dimension, pts_ok in *. destruct (sh_rational sh).
  - destruct Hp as [P [W [EP [HW [HP Wp]]]]]. rewrite EP in *. rewrite hom_combine_length in Hne by exact HW.
    rewrite (first_len_hom dim P W) by assumption. reflexivity.
  - apply first_len; assumption.
Qed.

Theorem translate_elems_spec dim vec elems prms out : elems_ok dim elems prms -> translate_elems Rops vec elems = Ok out ->
  out = map (on_ctrlpts Rops (tr_point Rops vec)) elems /\
  Forall2 (fun shp prm => sh_eval Rops (fst shp) prm = res_map (tr_point Rops vec) (sh_eval Rops (snd shp) prm)) (combine out elems) prms.
Proof.
  intros Hok Ht. unfold translate_elems in Ht. destruct vec as [|v0 vec]; [discriminate|].
  destruct elems as [|e0 elems].
  - injection Ht as <-. split; [reflexivity|]. inversion Hok. constructor.
  - destruct (Nat.eqb_spec (length (v0 :: vec)) (sh_dimension e0)) as [E|E]; [|discriminate]. injection Ht as <-.
    split; [reflexivity|]. apply (Forall2_map_eval _ _ _ _ dim Hok). intros sh prm Hp Hd.
    apply (sh_eval_on_ctrlpts dim); auto. apply tr_point_affine.
    inversion Hok as [|? ? ? ? [Hp0 Hd0] _]; subst. rewrite E. apply (sh_dimension_ok dim e0 y); assumption.
Qed.

Theorem scale_elems_spec dim m elems prms out : elems_ok dim elems prms -> scale_elems Rops m elems = Ok out ->
  out = map (on_ctrlpts Rops (sc_point Rops m)) elems /\
  Forall2 (fun shp prm => sh_eval Rops (fst shp) prm = res_map (sc_point Rops m) (sh_eval Rops (snd shp) prm)) (combine out elems) prms.
Proof.
  intros Hok Ht. injection Ht as <-. split; [reflexivity|]. apply (Forall2_map_eval _ _ _ _ dim Hok). intros sh prm Hp Hd.
  apply (sh_eval_on_ctrlpts dim); auto. apply sc_point_affine.
Qed.

Theorem rotate_elems_spec dim axis c s elems prms out : elems_ok dim elems prms -> (2 <= dim)%nat -> (dim = 2 \/ axis <= 2)%nat ->
  rotate_elems Rops axis c s elems = Ok out ->
  exists e0 rest origin ax, elems = e0 :: rest /\ ax = (if Nat.eqb dim 2 then 2 else axis)%nat /\
    sh_eval Rops e0 (sh_start Rops e0) = Ok origin /\
    (length origin = dim ->
     Forall2 (fun shp prm => sh_eval Rops (fst shp) prm =
        res_map (fun x => tr_point Rops (back_origin Rops origin) (rot_axis Rops ax c s (tr_point Rops (neg_origin Rops origin) x))) (sh_eval Rops (snd shp) prm))
       (combine out elems) prms).
Proof.
  intros Hok Hd2 Hax Hr. unfold rotate_elems in Hr. destruct elems as [|e0 rest]; [discriminate|].
  inversion Hok as [|? prm0 ? prms' [Hp0 Hd0] Hrest]; subst.
  rewrite (sh_dimension_ok dim e0 prm0 Hp0 Hd0) in Hr.
  set (ax := (if Nat.eqb dim 2 then 2 else axis)%nat) in *.
  destruct (Nat.ltb_spec 2 ax) as [Hlt|Hle]; [discriminate|].
  destruct (sh_eval Rops e0 (sh_start Rops e0)) as [origin| |] eqn:Eo; cbn [res_bind] in Hr; try discriminate.
  injection Hr as <-. exists e0, rest, origin, ax. repeat split; auto.
  intros Ho. apply (Forall2_map_eval _ _ _ _ dim Hok). intros sh prm Hp Hd.
  apply (sh_eval_rotate dim); auto.
  unfold ax. destruct (Nat.eqb_spec dim 2); [left; lia|right; lia].
Qed.

(* ---- the evaluated point has the spatial dimension of the shape ---- *)
Lemma curve_point_length d p U (P : list (list R)) u : dir_ok p U (length P) u -> Forall (fun q => length q = d) P ->
  length (curve_point Rops d p U P u) = d.
Proof.
  intros Hd HP. destruct (dir_coeffs p U (length P) u Hd) as [Hk _]. cbv zeta in Hk. unfold curve_point. rewrite curve_point_at_fold.
  apply lincomb_length. intros i Hi. apply in_seq in Hi. rewrite Forall_forall in HP. apply HP, nth_In. lia.
Qed.
Lemma surface_point_length d pu pv su sv Uu Uv (P : list (list R)) u v : dir_ok pu Uu su u -> dir_ok pv Uv sv v ->
  length P = (su * sv)%nat -> Forall (fun q => length q = d) P -> length (surface_point Rops d pu pv Uu Uv su sv P u v) = d.
Proof.
  intros Hdu Hdv HL HP. destruct (dir_coeffs pu Uu su u Hdu) as [Hku _]. destruct (dir_coeffs pv Uv sv v Hdv) as [Hkv _]. cbv zeta in *.
  unfold surface_point. rewrite surface_point_at_fold. apply lincomb_length. intros k Hk. apply lincomb_length. intros l Hl.
  apply in_seq in Hk, Hl. rewrite Forall_forall in HP. apply HP, nth_In. rewrite HL. apply idx2_lt; lia.
Qed.
Lemma volume_point_length d pu pv pw su sv sw Uu Uv Uw (P : list (list R)) u v w : dir_ok pu Uu su u -> dir_ok pv Uv sv v -> dir_ok pw Uw sw w ->
  length P = (su * sv * sw)%nat -> Forall (fun q => length q = d) P -> length (volume_point Rops d pu pv pw Uu Uv Uw su sv sw P u v w) = d.
Proof.
  intros Hdu Hdv Hdw HL HP. destruct (dir_coeffs pu Uu su u Hdu) as [Hku _]. destruct (dir_coeffs pv Uv sv v Hdv) as [Hkv _].
  destruct (dir_coeffs pw Uw sw w Hdw) as [Hkw _]. cbv zeta in *.
  rewrite volume_point_fold. cbv zeta. apply lincomb_length. intros a Ha. apply lincomb_length. intros b Hb. apply lincomb_length. intros c Hc.
  apply in_seq in Ha, Hb, Hc. rewrite Forall_forall in HP. apply HP, nth_In. rewrite HL. apply idx3_lt; lia.
Qed.
Lemma project_length d (v : list R) : length v = S d -> length (project Rops v) = d.
Proof. intros H. unfold project. rewrite map_length. apply (split_last v d H). Qed.
Lemma hom_Forall_len d (P : list (list R)) W : length W = length P -> Forall (fun q => length q = d) P ->
  Forall (fun q => length q = S d) (hom_combine Rops P W).
Proof.
  intros HW HP. apply Forall_forall. intros q Hq. apply (In_nth _ _ []) in Hq. destruct Hq as [i [Hi <-]].
  rewrite hom_combine_length in Hi by exact HW. change (nth i (hom_combine Rops P W) []) with (pt_at (hom_combine Rops P W) i).
  rewrite pt_at_hom by assumption. rewrite hom_point_length. f_equal. rewrite Forall_forall in HP. apply HP, nth_In, Hi.
Qed.

Theorem sh_eval_length dim sh prm x : pts_ok dim sh -> dirs_ok sh prm -> sh_eval Rops sh prm = Ok x -> length x = dim.
Proof.
  intros Hp Hd. pose proof (dirs_ok_nonempty sh prm Hd) as Hne. unfold pts_ok in Hp. unfold sh_eval, dirs_ok in *.
  destruct (sh_rational sh).
  - destruct Hp as [P [W [EP [HW [HP Wp]]]]]. rewrite EP in *.
    assert (LP : length (hom_combine Rops P W) = length P) by (apply hom_combine_length; exact HW). rewrite LP in *.
    rewrite (first_len_hom dim P W) by assumption. pose proof (hom_Forall_len dim P W HW HP) as HF.
    destruct (sh_deg sh) as [|p [|pv [|pw [|p4 pr]]]]; destruct (sh_kv sh) as [|U [|Uv [|Uw [|U4 Ur]]]]; destruct (sh_size sh) as [|n [|sv [|sw [|s4 sr]]]];
      destruct prm as [|u [|v [|w [|u4 ur]]]]; try contradiction; intros E; injection E as <-; apply project_length.
    + destruct Hd as [-> Hd]. apply curve_point_length; [rewrite LP; exact Hd|exact HF].
    + destruct Hd as [E [H1 H2]]. apply surface_point_length; auto. rewrite LP. exact E.
    + destruct Hd as [E [H1 [H2 H3]]]. apply volume_point_length; auto. rewrite LP. exact E.
  - rewrite (first_len dim (sh_pts sh)) by assumption.
    destruct (sh_deg sh) as [|p [|pv [|pw [|p4 pr]]]]; destruct (sh_kv sh) as [|U [|Uv [|Uw [|U4 Ur]]]]; destruct (sh_size sh) as [|n [|sv [|sw [|s4 sr]]]];
      destruct prm as [|u [|v [|w [|u4 ur]]]]; try contradiction; intros E; injection E as <-.
    + destruct Hd as [-> Hd]. apply curve_point_length; assumption.
    + destruct Hd as [E [H1 H2]]. apply surface_point_length; assumption.
    + destruct Hd as [E [H1 [H2 H3]]]. apply volume_point_length; assumption.
Qed.

(* weights unchanged; knot vectors, degrees, sizes, rationality untouched *)
Theorem on_ctrlpts_keeps dim f sh : affine_map dim dim f -> pts_ok dim sh ->
  let sh' := on_ctrlpts Rops f sh in
  sh_rational sh' = sh_rational sh /\ sh_deg sh' = sh_deg sh /\ sh_kv sh' = sh_kv sh /\ sh_size sh' = sh_size sh /\
  (sh_rational sh = true -> hom_weights Rops (sh_pts sh') = hom_weights Rops (sh_pts sh) /\
                            hom_unweight Rops (sh_pts sh') = map f (hom_unweight Rops (sh_pts sh))) /\
  (sh_rational sh = false -> sh_pts sh' = map f (sh_pts sh)).
Proof.
  intros Hf Hp. cbv zeta. unfold on_ctrlpts. cbn [sh_rational sh_deg sh_kv sh_size sh_pts]. repeat split; auto.
  - unfold pts_ok in Hp. rewrite H in *. destruct Hp as [P [W [EP [HW [HP Wp]]]]]. rewrite EP.
    rewrite (hom_weights_combine P W HW). rewrite (hom_unweight_combine P W HW (pos_nonzero W Wp)).
    apply hom_weights_combine. rewrite map_length. exact HW.
  - unfold pts_ok in Hp. rewrite H in *. destruct Hp as [P [W [EP [HW [HP Wp]]]]]. rewrite EP.
    rewrite hom_weights_combine by exact HW. rewrite (hom_unweight_combine P W) by (auto using pos_nonzero).
    apply hom_unweight_combine; [rewrite map_length; exact HW|auto using pos_nonzero].
  - intros H. rewrite H. reflexivity.
Qed.
