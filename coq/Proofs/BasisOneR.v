(* A2.4 (helpers.basis_function_one) and A2.5 (helpers.basis_function_ders_one) of Model.Basis at the
   real instance: the triangular tables with the zero-detection shortcuts compute the Cox-de Boor
   functions N (Boehm.v) and the algebraic derivatives of Eq. 2.9.

   Key remark: over R (where x / 0 = 0) both branches of every `if N[j+1] == 0` test compute the same
   value (if N[j+1] = 0 then temp = 0), so the shortcuts are exactly the 0/0 := 0 convention which is
   also the one of the specification N.  The table invariants are therefore purely algebraic and hold for
   the raw knot function `knR U`; sortedness is only needed for the early `return 0` (N_support) and
   the index bound  i + p + 1 < length U  only to pass from `knR U` to the total function `Ufun U`. *)
From Coq Require Import List Reals Lra Lia Arith Bool.
From NV Require Import Scalar.Ops Model.Common Model.Basis Proofs.Boehm Proofs.BasisR.
Import ListNotations.
Open Scope R_scope.

(* ------------------------------------------------------------------------------------------------ *)
(* small list facts                                                                                  *)
Lemma length_upd {A} (l : list A) : forall j x, length (upd l j x) = length l.
Proof. induction l as [|a l IH]; intros [|j] x; cbn [upd length]; auto. Qed.
Lemma nth_upd_eq {A} (l : list A) : forall j x d, (j < length l)%nat -> nth j (upd l j x) d = x.
Proof.
  induction l as [|a l IH]; intros [|j] x d H; cbn [upd length nth] in *; try lia; auto.
  apply IH. lia.
Qed.
Lemma nth_upd_neq {A} (l : list A) : forall j m x d, j <> m -> nth m (upd l j x) d = nth m l d.
Proof.
  induction l as [|a l IH]; intros [|j] [|m] x d H; cbn [upd nth]; try reflexivity; try lia.
  apply IH. lia.
Qed.

Lemma nth_map_seq (f : nat -> R) a n j d : (j < n)%nat -> nth j (map f (seq a n)) d = f (a + j)%nat.
Proof.
  intros H. rewrite (nth_indep _ d (f 0%nat)) by (rewrite map_length, seq_length; exact H).
  rewrite map_nth. rewrite seq_nth by exact H. reflexivity.
Qed.

(* ------------------------------------------------------------------------------------------------ *)
(* decidable tests at Rops                                                                           *)
Lemma Rleb_true x y : Rleb x y = true <-> x <= y.
Proof. unfold Rleb. destruct (Rle_dec x y); split; intros; auto; congruence. Qed.
Lemma Rltb_true x y : Rltb x y = true <-> x < y.
Proof. unfold Rltb. destruct (Rlt_dec x y); split; intros; auto; congruence. Qed.
Lemma oeqb_R x y : oeqb Rops x y = true <-> x = y.
Proof.
  unfold oeqb. rsimp. rewrite andb_true_iff, !Rleb_true. split; intros; [lra|subst; lra].
Qed.
Lemma isz_R x : isz Rops x = true <-> x = 0.
Proof. unfold isz. apply oeqb_R. Qed.
Lemma ofnat_INR n : ofnat Rops n = INR n.
Proof. induction n as [|n IH]; [reflexivity|]. cbn [ofnat]. rewrite IH, S_INR. reflexivity. Qed.

Lemma half_open_ind a b u : (if in_half_open Rops a b u then 1 else 0) = ind a b u.
Proof.
  unfold in_half_open, ind. rsimp. unfold Rleb, Rltb.
  destruct (Rle_dec a u); destruct (Rlt_dec u b); reflexivity.
Qed.

(* ------------------------------------------------------------------------------------------------ *)
(* the specification: extensionality in the knots actually used, derivative spec (Eq. 2.9)           *)
Lemma N_ext (V W : nat -> R) p : forall i u,
  (forall m, (i <= m <= i + p + 1)%nat -> V m = W m) -> N V p i u = N W p i u.
Proof.
  induction p as [|q IH]; intros i u H; cbn [N].
  - rewrite (H i), (H (S i)) by lia. reflexivity.
  - rewrite (IH i u), (IH (S i) u) by (intros; apply H; lia).
    rewrite (H i), (H (S i)), (H (i + S q)%nat), (H (i + S q + 1)%nat) by lia. reflexivity.
Qed.

Lemma N_step (V : nat -> R) q n u :
  N V (S q) n u = (u - V n) / (V (n + S q)%nat - V n) * N V q n u
                + (V (S (n + S q)) - u) * (N V q (S n) u / (V (S (n + S q)) - V (S n))).
Proof. cbn [N]. replace (n + S q + 1)%nat with (S (n + S q)) by lia. unfold Rdiv. ring. Qed.

(* dN V d p i u : the d-th derivative of N_{i,p} at u as given by Eq. 2.9 of The NURBS Book
   (purely algebraic: no limit is taken; 0/0 := 0 as for N) *)
Fixpoint dN (V : nat -> R) (d : nat) : nat -> nat -> R -> R :=
  match d with
  | O => fun p i u => N V p i u
  | S j => fun p i u =>
      match p with
      | O => 0
      | S q => INR (S q) * (dN V j q i u / (V (i + S q)%nat - V i)
                            - dN V j q (S i) u / (V (i + S q + 1)%nat - V (S i)))
      end
  end.

Lemma dN_0 V p i u : dN V 0 p i u = N V p i u. Proof. reflexivity. Qed.
Lemma dN_S0 V j i u : dN V (S j) 0 i u = 0. Proof. reflexivity. Qed.
Lemma dN_SS V j q i u : dN V (S j) (S q) i u =
  INR (S q) * (dN V j q i u / (V (i + S q)%nat - V i) - dN V j q (S i) u / (V (i + S q + 1)%nat - V (S i))).
Proof. reflexivity. Qed.

Lemma dN_ext (V W : nat -> R) d : forall p i u,
  (forall m, (i <= m <= i + p + 1)%nat -> V m = W m) -> dN V d p i u = dN W d p i u.
Proof.
  induction d as [|d IH]; intros p i u H.
  - cbn [dN]. apply N_ext. exact H.
  - destruct p as [|q]; [reflexivity|]. rewrite !dN_SS.
    rewrite (IH q i u), (IH q (S i) u) by (intros; apply H; lia).
    rewrite (H i), (H (S i)), (H (i + S q)%nat), (H (i + S q + 1)%nat) by lia. reflexivity.
Qed.

Lemma dN_support (V : nat -> R) (Vs : forall i, V i <= V (S i)) d : forall p i u,
  (u < V i \/ V (i + p + 1)%nat <= u) -> dN V d p i u = 0.
Proof.
  induction d as [|d IH]; intros p i u H.
  - cbn [dN]. apply N_support; assumption.
  - destruct p as [|q]; [reflexivity|]. rewrite dN_SS.
    rewrite (IH q i u), (IH q (S i) u).
    + unfold Rdiv. ring.
    + destruct H as [H|H]; [left|right].
      * pose proof (Vs i). lra.
      * replace (S i + q + 1)%nat with (i + S q + 1)%nat by lia. exact H.
    + destruct H as [H|H]; [left; exact H|right].
      assert (V (i + q + 1)%nat <= V (i + S q + 1)%nat) by (apply U_mono; [exact Vs|lia]). lra.
Qed.

(* ================================================================================================ *)
(* A2.4 : basis_function_one                                                                         *)
(* ================================================================================================ *)
Section One.
Variables (U : list R) (i : nat) (u : R).
Notation V := (knR U).
Notation Nn := (N (knR U)).

(* the body of the inner loop of one_table_step *)
Definition ostep (k : nat) (st : list R * R) (j : nat) : list R * R :=
  let '(Nl, saved) := st in
  let Uleft := knR U (S (i + j)) in
  let Uright := knR U (S (i + j + k)) in
  if isz Rops (nth (S j) Nl 0) then (upd Nl j saved, 0)
  else let temp := nth (S j) Nl 0 / (Uright - Uleft) in
       (upd Nl j (saved + (Uright - u) * temp), (u - Uleft) * temp).

(* the zero-detection shortcut does not change the value *)
Lemma ostep_eq k Nl s j :
  ostep k (Nl, s) j =
  (upd Nl j (s + (V (S (i + j + k)) - u) * (nth (S j) Nl 0 / (V (S (i + j + k)) - V (S (i + j))))),
   (u - V (S (i + j))) * (nth (S j) Nl 0 / (V (S (i + j + k)) - V (S (i + j))))).
Proof.
  unfold ostep. destruct (isz Rops (nth (S j) Nl 0)) eqn:E; [|reflexivity].
  apply isz_R in E. rewrite E. f_equal; [f_equal|]; unfold Rdiv; ring.
Qed.

Lemma one_table_step_unfold p k Nl :
  one_table_step Rops U i u p k Nl =
  fst (fold_left (ostep k) (seq 0 (S (p - k)))
         (Nl, if isz Rops (nth 0 Nl 0) then 0 else ((u - V i) * nth 0 Nl 0) / (V (i + k)%nat - V i))).
Proof. reflexivity. Qed.

(* inner loop invariant: after m steps positions < m hold degree q+1, positions >= m are untouched,
   saved is the first term of the recursion for position m *)
Lemma inner_fold q (N0 : list R) s0 L :
  (forall j, (j <= L)%nat -> nth j N0 0 = Nn q (i + j) u) ->
  s0 = (u - V (i + 0)%nat) / (V (i + 0 + S q)%nat - V (i + 0)%nat) * Nn q (i + 0) u ->
  forall m, (m <= L)%nat -> (m <= length N0)%nat ->
  length (fst (fold_left (ostep (S q)) (seq 0 m) (N0, s0))) = length N0 /\
  (forall j, (j < m)%nat -> nth j (fst (fold_left (ostep (S q)) (seq 0 m) (N0, s0))) 0 = Nn (S q) (i + j) u) /\
  (forall j, (m <= j)%nat -> nth j (fst (fold_left (ostep (S q)) (seq 0 m) (N0, s0))) 0 = nth j N0 0) /\
  snd (fold_left (ostep (S q)) (seq 0 m) (N0, s0))
    = (u - V (i + m)%nat) / (V (i + m + S q)%nat - V (i + m)%nat) * Nn q (i + m) u.
Proof.
  intros H Hs0. induction m as [|m IH]; intros HmL Hlen.
  - cbn [seq fold_left fst snd]. repeat split; auto. intros; lia.
  - destruct (IH ltac:(lia) ltac:(lia)) as (Hl & Hlt & Hge & Hs). clear IH.
    rewrite seq_S, fold_left_app. cbn [fold_left Nat.add].
    destruct (fold_left (ostep (S q)) (seq 0 m) (N0, s0)) as [Nm sm]. cbn [fst snd] in *.
    rewrite ostep_eq. cbn [fst snd].
    assert (Hx : nth (S m) Nm 0 = Nn q (S (i + m)) u).
    { rewrite Hge by lia. rewrite H by lia. f_equal. lia. }
    repeat split.
    + rewrite length_upd. exact Hl.
    + intros j Hj. destruct (Nat.eq_dec j m) as [->|Hne].
      * rewrite nth_upd_eq by lia. rewrite Hx, Hs. rewrite N_step. reflexivity.
      * rewrite nth_upd_neq by lia. apply Hlt. lia.
    + intros j Hj. rewrite nth_upd_neq by lia. apply Hge. lia.
    + rewrite Hx. replace (i + S m)%nat with (S (i + m)) by lia.
      replace (S (i + m) + S q)%nat with (S (i + m + S q)) by lia. unfold Rdiv. ring.
Qed.

(* one column of the table *)
Lemma one_table_step_spec p q (N0 : list R) :
  (S q <= p)%nat -> (p < length N0)%nat ->
  (forall j, (j <= p - q)%nat -> nth j N0 0 = Nn q (i + j) u) ->
  length (one_table_step Rops U i u p (S q) N0) = length N0 /\
  (forall j, (j <= p - S q)%nat -> nth j (one_table_step Rops U i u p (S q) N0) 0 = Nn (S q) (i + j) u).
Proof.
  intros Hq Hlen H. rewrite one_table_step_unfold.
  match goal with |- context [fold_left _ _ (N0, ?s)] => set (s0 := s) end.
  assert (Hs0 : s0 = (u - V (i + 0)%nat) / (V (i + 0 + S q)%nat - V (i + 0)%nat) * Nn q (i + 0) u).
  { subst s0. pose proof (H 0%nat ltac:(lia)) as H0. rewrite Nat.add_0_r in *.
    destruct (isz Rops (nth 0 N0 0)) eqn:E.
    - apply isz_R in E. rewrite <- H0, E. ring.
    - rewrite H0. unfold Rdiv. ring. }
  destruct (inner_fold q N0 s0 (p - q) H Hs0 (S (p - S q)) ltac:(lia) ltac:(lia)) as (Hl & Hlt & _ & _).
  split; [exact Hl|]. intros j Hj. apply Hlt. lia.
Qed.

(* the whole table *)
Lemma table_fold p (N0 : list R) :
  (p < length N0)%nat ->
  (forall j, (j <= p)%nat -> nth j N0 0 = Nn 0 (i + j) u) ->
  forall m, (m <= p)%nat ->
  length (fold_left (fun Nl k => one_table_step Rops U i u p k Nl) (seq 1 m) N0) = length N0 /\
  (forall j, (j <= p - m)%nat ->
     nth j (fold_left (fun Nl k => one_table_step Rops U i u p k Nl) (seq 1 m) N0) 0 = Nn m (i + j) u).
Proof.
  intros Hlen H0. induction m as [|m IH]; intros Hm.
  - cbn [seq fold_left]. split; [reflexivity|]. intros j Hj. apply H0. lia.
  - destruct (IH ltac:(lia)) as (Hl & Hn). clear IH.
    rewrite seq_S, fold_left_app. cbn [fold_left Nat.add].
    set (Nm := fold_left (fun Nl k => one_table_step Rops U i u p k Nl) (seq 1 m) N0) in *.
    destruct (one_table_step_spec p m Nm ltac:(lia) ltac:(lia) Hn) as (Hl' & Hn').
    split; [congruence|exact Hn'].
Qed.

Definition table0 (p : nat) : list R :=
  map (fun j => if in_half_open Rops (V (i + j)%nat) (V (S (i + j))) u then 1 else 0) (seq 0 (S p)).

Lemma table0_nth p j : (j <= p)%nat -> nth j (table0 p) 0 = Nn 0 (i + j) u.
Proof.
  intros Hj. unfold table0. rewrite nth_map_seq by lia. cbn [Nat.add N]. apply half_open_ind.
Qed.
Lemma table0_length p : length (table0 p) = S p.
Proof. unfold table0. rewrite map_length, seq_length. reflexivity. Qed.

(* the table part of A2.4 computes N_{i,p}(u) over the raw knot function, for every input *)
Lemma bf_one_table p :
  nth 0 (fold_left (fun Nl k => one_table_step Rops U i u p k Nl) (seq 1 p) (table0 p ++ [0])) 0 = Nn p i u.
Proof.
  destruct (table_fold p (table0 p ++ [0])) with (m := p) as (_ & Hn).
  - rewrite app_length, table0_length. cbn [length]. lia.
  - intros j Hj. rewrite app_nth1 by (rewrite table0_length; lia). apply table0_nth. exact Hj.
  - lia.
  - rewrite Hn by lia. rewrite Nat.add_0_r. reflexivity.
Qed.

Lemma bf_one_unfold p :
  basis_function_one Rops p U i u =
  if orb (andb (Nat.eqb i 0) (oeqb Rops u (V 0%nat)))
         (andb (Nat.eqb (i + (p + 2)) (length U)) (oeqb Rops u (V (Nat.pred (length U)))))
  then 1
  else if orb (Rltb u (V i)) (Rleb (V (S (i + p))) u) then 0
  else nth 0 (fold_left (fun Nl k => one_table_step Rops U i u p k Nl) (seq 1 p) (table0 p ++ [0])) 0.
Proof. reflexivity. Qed.

Lemma special_true_iff p :
  orb (andb (Nat.eqb i 0) (oeqb Rops u (V 0%nat)))
      (andb (Nat.eqb (i + (p + 2)) (length U)) (oeqb Rops u (V (Nat.pred (length U))))) = true
  <-> (i = 0%nat /\ u = V 0%nat) \/ ((i + p + 2)%nat = length U /\ u = V (length U - 1)%nat).
Proof.
  rewrite orb_true_iff, !andb_true_iff, !Nat.eqb_eq, !oeqb_R.
  replace (Nat.pred (length U)) with (length U - 1)%nat by lia.
  replace (i + (p + 2))%nat with (i + p + 2)%nat by lia. reflexivity.
Qed.

Lemma outside_true_iff p :
  orb (Rltb u (V i)) (Rleb (V (S (i + p))) u) = true <-> (u < V i \/ V (i + p + 1)%nat <= u).
Proof.
  rewrite orb_true_iff, Rltb_true, Rleb_true. replace (S (i + p)) with (i + p + 1)%nat by lia. reflexivity.
Qed.

(* ---- 1. main theorem ---- *)
Theorem bf_one_is_cox_de_boor p :
  sortedR U -> (i + p + 1 < length U)%nat ->
  ~ (i = 0%nat /\ u = knR U 0) ->
  ~ ((i + p + 2)%nat = length U /\ u = knR U (length U - 1)) ->
  basis_function_one Rops p U i u = N (Ufun U) p i u.
Proof.
  intros Hs HL Hn1 Hn2. rewrite bf_one_unfold.
  destruct (orb (andb (Nat.eqb i 0) _) _) eqn:Esp.
  { apply special_true_iff in Esp. tauto. }
  destruct (orb (Rltb u (V i)) _) eqn:Eout.
  - apply outside_true_iff in Eout. symmetry. apply N_support.
    + apply Ufun_sorted. exact Hs.
    + rewrite !Ufun_in by lia. exact Eout.
  - rewrite bf_one_table. apply N_ext. intros m Hm. symmetry. apply Ufun_in. lia.
Qed.

(* same statement with the hypothesis "u strictly inside the knot range" *)
Corollary bf_one_is_cox_de_boor_interior p :
  sortedR U -> (i + p + 1 < length U)%nat ->
  knR U 0 < u < knR U (length U - 1) ->
  basis_function_one Rops p U i u = N (Ufun U) p i u.
Proof. intros Hs HL Hu. apply bf_one_is_cox_de_boor; auto; intros [_ E]; lra. Qed.

(* ---- 2. the two special cases ---- *)
(* what the model does: it answers 1 exactly under the two end conditions (whatever the knots are) *)
Theorem bf_one_ends p :
  (i = 0%nat /\ u = knR U 0) \/ ((i + p + 2)%nat = length U /\ u = knR U (length U - 1)) ->
  basis_function_one Rops p U i u = 1.
Proof.
  intros H. rewrite bf_one_unfold. apply special_true_iff in H. rewrite H. reflexivity.
Qed.
End One.

(* the first special case agrees with Cox-de Boor for a knot vector clamped at the start:
   U_0 = ... = U_p < U_{p+1}  gives  N_{0,p}(U_0) = 1 *)
Lemma N_clamped_start (V : nat -> R) p :
  (forall j, (j <= p)%nat -> V j = V 0%nat) -> V 0%nat < V (S p) ->
  forall q, (q <= p)%nat -> N V q (p - q) (V 0%nat) = 1.
Proof.
  intros Hc Hlt. induction q as [|q IH]; intros Hq.
  - cbn [N]. rewrite Nat.sub_0_r. rewrite (Hc p) by lia. unfold ind.
    destruct (Rle_dec (V 0%nat) (V 0%nat)); destruct (Rlt_dec (V 0%nat) (V (S p))); lra.
  - rewrite N_step. replace (S (p - S q)) with (p - q)%nat by lia. rewrite IH by lia.
    replace (S (p - S q + S q)) with (S p) by lia.
    rewrite (Hc (p - S q)%nat), (Hc (p - q)%nat) by lia.
    replace (V 0%nat - V 0%nat) with 0 by ring. unfold Rdiv at 1. rewrite !Rmult_0_l, Rplus_0_l.
    field. lra.
Qed.

Theorem bf_one_start_clamped (U : list R) p :
  (S p < length U)%nat -> (forall j, (j <= p)%nat -> knR U j = knR U 0) -> knR U 0 < knR U (S p) ->
  basis_function_one Rops p U 0 (knR U 0) = N (Ufun U) p 0 (knR U 0)
  /\ N (Ufun U) p 0 (knR U 0) = 1.
Proof.
  intros HL Hc Hlt.
  assert (E : N (Ufun U) p 0 (knR U 0) = 1).
  { rewrite <- (Ufun_in U 0) by lia.
    assert (H := N_clamped_start (Ufun U) p). rewrite <- (Nat.sub_diag p) at 1. apply H; try lia.
    - intros j Hj. rewrite !Ufun_in by lia. apply Hc. exact Hj.
    - rewrite !Ufun_in by lia. exact Hlt. }
  split; [|exact E]. rewrite E. apply bf_one_ends. left. split; reflexivity.
Qed.

(* the second special case is the closed-right-end convention: the half-open Cox-de Boor function of
   the last index is 0 at the last knot, the model answers 1 ... *)
Theorem bf_one_end_convention (U : list R) p i :
  sortedR U -> (i + p + 2)%nat = length U ->
  basis_function_one Rops p U i (knR U (length U - 1)) = 1
  /\ N (Ufun U) p i (knR U (length U - 1)) = 0.
Proof.
  intros Hs HL. split.
  - apply bf_one_ends. right. split; [exact HL|reflexivity].
  - apply N_support; [apply Ufun_sorted; exact Hs|]. right.
    rewrite Ufun_in by lia. replace (i + p + 1)%nat with (length U - 1)%nat by lia. lra.
Qed.

(* ... which is the continuous extension when the vector is clamped at the end
   (U_i < U_{i+1} = ... = U_{i+p+1} = b):  N_{i,p}(u) = ((u - U_i)/(b - U_i))^p on [U_i, b), -> 1 as u -> b *)
Lemma N_clamped_end_power (V : nat -> R) (Vs : forall i, V i <= V (S i)) p i b u :
  (forall j, (1 <= j <= p + 1)%nat -> V (i + j)%nat = b) -> V i <= u < b ->
  forall q, (q <= p)%nat -> N V q i u = ((u - V i) / (b - V i)) ^ q.
Proof.
  intros Hc Hu. induction q as [|q IH]; intros Hq.
  - cbn [N pow]. replace (S i) with (i + 1)%nat by lia. rewrite Hc by lia. unfold ind.
    destruct (Rle_dec (V i) u); destruct (Rlt_dec u b); lra.
  - cbn [N pow]. rewrite IH by lia.
    rewrite (N_empty V Vs q (S i) u).
    + rewrite (Hc (S q)) by lia. ring.
    + replace (S i) with (i + 1)%nat by lia. replace (i + 1 + q + 1)%nat with (i + (q + 2))%nat by lia.
      rewrite !Hc by lia. reflexivity.
Qed.

Theorem bf_one_end_clamped_power (U : list R) p i u :
  sortedR U -> (i + p + 2)%nat = length U ->
  (forall j, (1 <= j <= p + 1)%nat -> knR U (i + j) = knR U (length U - 1)) ->
  knR U i <= u < knR U (length U - 1) -> ~ (i = 0%nat /\ u = knR U 0) ->
  basis_function_one Rops p U i u = ((u - knR U i) / (knR U (length U - 1) - knR U i)) ^ p.
Proof.
  intros Hs HL Hc Hu Hn0.
  rewrite bf_one_is_cox_de_boor; try assumption; try lia.
  - rewrite <- (Ufun_in U i) by lia.
    apply (N_clamped_end_power (Ufun U) (Ufun_sorted U Hs) p i); try lia.
    + intros j Hj. rewrite Ufun_in by lia. apply Hc. exact Hj.
    + rewrite Ufun_in by lia. exact Hu.
  - intros [_ E]. lra.
Qed.

(* ================================================================================================ *)
(* A2.5 : basis_function_ders_one                                                                    *)
(* ================================================================================================ *)
Section DersOne.
Variables (U : list R) (i : nat) (u : R).
Notation V := (knR U).
Notation Nn := (N (knR U)).
Notation dNn := (dN (knR U)).

(* ---- the value table, stored by columns ---- *)
Definition dstep (k : nat) (prev : list R) (cs : list R * R) (j : nat) : list R * R :=
  let '(cur, saved) := cs in
  let Uleft := knR U (S (i + j)) in
  let Uright := knR U (S (i + j + k)) in
  if isz Rops (nth (S j) prev 0) then (upd cur j saved, 0)
  else let temp := nth (S j) prev 0 / (Uright - Uleft) in
       (upd cur j (saved + (Uright - u) * temp), (u - Uleft) * temp).

Lemma dstep_eq k prev cur s j :
  dstep k prev (cur, s) j =
  (upd cur j (s + (V (S (i + j + k)) - u) * (nth (S j) prev 0 / (V (S (i + j + k)) - V (S (i + j))))),
   (u - V (S (i + j))) * (nth (S j) prev 0 / (V (S (i + j + k)) - V (S (i + j))))).
Proof.
  unfold dstep. destruct (isz Rops (nth (S j) prev 0)) eqn:E; [|reflexivity].
  apply isz_R in E. rewrite E. f_equal; [f_equal|]; unfold Rdiv; ring.
Qed.

Definition ocol (p : nat) (st : list (list R) * list R) (k : nat) : list (list R) * list R :=
  let '(cols, prev) := st in
  let saved0 := if isz Rops (nth 0 prev 0) then 0
                else ((u - V i) * nth 0 prev 0) / (V (i + k)%nat - V i) in
  let '(cur, _) := fold_left (dstep k prev) (seq 0 (S (p - k))) (repeat 0 (S p), saved0) in
  (cols ++ [cur], cur).

Lemma ders_one_cols_unfold p :
  ders_one_cols Rops p U i u = fst (fold_left (ocol p) (seq 1 p) ([table0 U i u p], table0 U i u p)).
Proof. reflexivity. Qed.

Lemma dinner_fold q (prev cur0 : list R) s0 L :
  (forall j, (j <= L)%nat -> nth j prev 0 = Nn q (i + j) u) ->
  s0 = (u - V (i + 0)%nat) / (V (i + 0 + S q)%nat - V (i + 0)%nat) * Nn q (i + 0) u ->
  forall m, (m <= L)%nat -> (m <= length cur0)%nat ->
  length (fst (fold_left (dstep (S q) prev) (seq 0 m) (cur0, s0))) = length cur0 /\
  (forall j, (j < m)%nat -> nth j (fst (fold_left (dstep (S q) prev) (seq 0 m) (cur0, s0))) 0 = Nn (S q) (i + j) u) /\
  snd (fold_left (dstep (S q) prev) (seq 0 m) (cur0, s0))
    = (u - V (i + m)%nat) / (V (i + m + S q)%nat - V (i + m)%nat) * Nn q (i + m) u.
Proof.
  intros H Hs0. induction m as [|m IH]; intros HmL Hlen.
  - cbn [seq fold_left fst snd]. repeat split; auto. intros; lia.
  - destruct (IH ltac:(lia) ltac:(lia)) as (Hl & Hlt & Hs). clear IH.
    rewrite seq_S, fold_left_app. cbn [fold_left Nat.add].
    destruct (fold_left (dstep (S q) prev) (seq 0 m) (cur0, s0)) as [Nm sm]. cbn [fst snd] in *.
    rewrite dstep_eq. cbn [fst snd].
    assert (Hx : nth (S m) prev 0 = Nn q (S (i + m)) u).
    { rewrite H by lia. f_equal. lia. }
    repeat split.
    + rewrite length_upd. exact Hl.
    + intros j Hj. destruct (Nat.eq_dec j m) as [->|Hne].
      * rewrite nth_upd_eq by lia. rewrite Hx, Hs. rewrite N_step. reflexivity.
      * rewrite nth_upd_neq by lia. apply Hlt. lia.
    + rewrite Hx. replace (i + S m)%nat with (S (i + m)) by lia.
      replace (S (i + m) + S q)%nat with (S (i + m + S q)) by lia. unfold Rdiv. ring.
Qed.

(* invariant of the column loop *)
Definition cols_ok (p m : nat) (st : list (list R) * list R) : Prop :=
  length (fst st) = S m /\ snd st = nth m (fst st) [] /\
  forall k, (k <= m)%nat -> length (nth k (fst st) []) = S p /\
     forall j, (j <= p - k)%nat -> nth j (nth k (fst st) []) 0 = Nn k (i + j) u.

Lemma cols_fold p : forall m, (m <= p)%nat ->
  cols_ok p m (fold_left (ocol p) (seq 1 m) ([table0 U i u p], table0 U i u p)).
Proof.
  induction m as [|m IH]; intros Hm.
  - cbn [seq fold_left]. unfold cols_ok. cbn [fst snd length]. repeat split; auto.
    + assert (k = 0%nat) by lia. subst k. cbn [nth]. apply table0_length.
    + intros j Hj. assert (k = 0%nat) by lia. subst k. cbn [nth]. apply table0_nth. lia.
  - specialize (IH ltac:(lia)). rewrite seq_S, fold_left_app. cbn [fold_left Nat.add].
    destruct (fold_left (ocol p) (seq 1 m) ([table0 U i u p], table0 U i u p)) as [cols prev].
    destruct IH as (Hlen & Hprev & Hk). cbn [fst snd] in *.
    destruct (Hk m ltac:(lia)) as (Hlp & Hnp). rewrite <- Hprev in Hlp, Hnp.
    unfold ocol.
    match goal with |- context [fold_left _ _ (repeat 0 (S p), ?s)] => set (s0 := s) end.
    assert (Hs0 : s0 = (u - V (i + 0)%nat) / (V (i + 0 + S m)%nat - V (i + 0)%nat) * Nn m (i + 0) u).
    { subst s0. pose proof (Hnp 0%nat ltac:(lia)) as H0. rewrite Nat.add_0_r in *.
      destruct (isz Rops (nth 0 prev 0)) eqn:E.
      - apply isz_R in E. rewrite <- H0, E. ring.
      - rewrite H0. unfold Rdiv. ring. }
    destruct (dinner_fold m prev (repeat 0 (S p)) s0 (p - m) Hnp Hs0 (S (p - S m)))
      as (Hl & Hlt & _); [lia|rewrite repeat_length; lia|].
    destruct (fold_left (dstep (S m) prev) (seq 0 (S (p - S m))) (repeat 0 (S p), s0)) as [cur sv].
    cbn [fst snd] in *. unfold cols_ok. cbn [fst snd].
    assert (Hcur : nth (S m) (cols ++ [cur]) [] = cur).
    { rewrite app_nth2 by lia. rewrite Hlen, Nat.sub_diag. reflexivity. }
    split; [rewrite app_length; cbn [length]; lia|].
    split; [symmetry; exact Hcur|].
    intros k Hkm. destruct (Nat.eq_dec k (S m)) as [->|Hne].
    + rewrite Hcur. split; [rewrite Hl, repeat_length; reflexivity|]. intros j Hj. apply Hlt. lia.
    + rewrite app_nth1 by lia. apply Hk. lia.
Qed.

Lemma ders_one_cols_spec p k :
  (k <= p)%nat ->
  length (nth k (ders_one_cols Rops p U i u) []) = S p /\
  forall j, (j <= p - k)%nat -> nth j (nth k (ders_one_cols Rops p U i u) []) 0 = Nn k (i + j) u.
Proof.
  intros Hk. rewrite ders_one_cols_unfold.
  destruct (cols_fold p p (le_n p)) as (_ & _ & H). apply H. exact Hk.
Qed.

(* ---- the derivative loop ---- *)
Definition kstep (pk jj : nat) (c : R) (ns : list R * R) (j : nat) : list R * R :=
  let '(ND, saved) := ns in
  let Uleft := knR U (S (i + j)) in
  let Uright := knR U (S (i + j + pk + jj)) in
  if isz Rops (nth (S j) ND 0) then (upd ND j (c * saved), 0)
  else let temp := nth (S j) ND 0 / (Uright - Uleft) in
       (upd ND j (c * (saved - temp)), temp).

Lemma kstep_eq pk jj c ND s j :
  kstep pk jj c (ND, s) j =
  (upd ND j (c * (s - nth (S j) ND 0 / (V (S (i + j + pk + jj)) - V (S (i + j))))),
   nth (S j) ND 0 / (V (S (i + j + pk + jj)) - V (S (i + j)))).
Proof.
  unfold kstep. destruct (isz Rops (nth (S j) ND 0)) eqn:E; [|reflexivity].
  apply isz_R in E. rewrite E. f_equal; [f_equal|]; unfold Rdiv; ring.
Qed.

Definition kcol (p k : nat) (ND : list R) (jj : nat) : list R :=
  fst (fold_left (kstep (p - k) jj (ofnat Rops (p - k + jj)))
         (seq 0 (S (k - jj)))
         (ND, if isz Rops (nth 0 ND 0) then 0 else nth 0 ND 0 / (V (i + (p - k) + jj)%nat - V i))).

Lemma ders_one_k_unfold p cols k :
  ders_one_k Rops p U i u cols k =
  nth 0 (fold_left (kcol p k) (seq 1 k) (firstn (S k) (nth (p - k) cols []) ++ [0])) 0.
Proof. reflexivity. Qed.

Lemma kinner_fold d q pk jj (ND0 : list R) s0 L :
  (pk + jj = S q)%nat ->
  (forall j, (j <= L)%nat -> nth j ND0 0 = dNn d q (i + j) u) ->
  s0 = dNn d q (i + 0) u / (V (i + 0 + S q)%nat - V (i + 0)%nat) ->
  forall m, (m <= L)%nat -> (m <= length ND0)%nat ->
  length (fst (fold_left (kstep pk jj (INR (S q))) (seq 0 m) (ND0, s0))) = length ND0 /\
  (forall j, (j < m)%nat ->
     nth j (fst (fold_left (kstep pk jj (INR (S q))) (seq 0 m) (ND0, s0))) 0 = dNn (S d) (S q) (i + j) u) /\
  (forall j, (m <= j)%nat ->
     nth j (fst (fold_left (kstep pk jj (INR (S q))) (seq 0 m) (ND0, s0))) 0 = nth j ND0 0) /\
  snd (fold_left (kstep pk jj (INR (S q))) (seq 0 m) (ND0, s0))
    = dNn d q (i + m) u / (V (i + m + S q)%nat - V (i + m)%nat).
Proof.
  intros Hpk H Hs0. induction m as [|m IH]; intros HmL Hlen.
  - cbn [seq fold_left fst snd]. repeat split; auto. intros; lia.
  - destruct (IH ltac:(lia) ltac:(lia)) as (Hl & Hlt & Hge & Hs). clear IH.
    rewrite seq_S, fold_left_app. cbn [fold_left Nat.add].
    destruct (fold_left (kstep pk jj (INR (S q))) (seq 0 m) (ND0, s0)) as [Nm sm]. cbn [fst snd] in *.
    rewrite kstep_eq. cbn [fst snd].
    assert (Hx : nth (S m) Nm 0 = dNn d q (S (i + m)) u).
    { rewrite Hge by lia. rewrite H by lia. f_equal. lia. }
    replace (S (i + m + pk + jj)) with (i + m + S q + 1)%nat by lia.
    repeat split.
    + rewrite length_upd. exact Hl.
    + intros j Hj. destruct (Nat.eq_dec j m) as [->|Hne].
      * rewrite nth_upd_eq by lia. rewrite Hx, Hs. rewrite dN_SS. reflexivity.
      * rewrite nth_upd_neq by lia. apply Hlt. lia.
    + intros j Hj. rewrite nth_upd_neq by lia. apply Hge. lia.
    + rewrite Hx. replace (i + S m)%nat with (S (i + m)) by lia.
      replace (S (i + m) + S q)%nat with (i + m + S q + 1)%nat by lia. reflexivity.
Qed.

Lemma kcol_spec p k d (ND0 : list R) :
  (k <= p)%nat -> (d < k)%nat -> (k < length ND0)%nat ->
  (forall j, (j <= k - d)%nat -> nth j ND0 0 = dNn d (p - k + d) (i + j) u) ->
  length (kcol p k ND0 (S d)) = length ND0 /\
  (forall j, (j <= k - S d)%nat -> nth j (kcol p k ND0 (S d)) 0 = dNn (S d) (p - k + S d) (i + j) u).
Proof.
  intros Hk Hd Hlen H. unfold kcol.
  match goal with |- context [fold_left _ _ (ND0, ?s)] => set (s0 := s) end.
  rewrite ofnat_INR. replace (p - k + S d)%nat with (S (p - k + d)) by lia.
  assert (Hs0 : s0 = dNn d (p - k + d) (i + 0) u / (V (i + 0 + S (p - k + d))%nat - V (i + 0)%nat)).
  { subst s0. pose proof (H 0%nat ltac:(lia)) as H0. rewrite Nat.add_0_r in *.
    replace (i + (p - k) + S d)%nat with (i + S (p - k + d))%nat by lia.
    destruct (isz Rops (nth 0 ND0 0)) eqn:E.
    - apply isz_R in E. rewrite <- H0, E. unfold Rdiv. ring.
    - rewrite H0. reflexivity. }
  destruct (kinner_fold d (p - k + d) (p - k) (S d) ND0 s0 (k - d) ltac:(lia) H Hs0 (S (k - S d))
              ltac:(lia) ltac:(lia)) as (Hl & Hlt & _ & _).
  split; [exact Hl|]. intros j Hj. apply Hlt. lia.
Qed.

Lemma kfold p k (ND0 : list R) :
  (k <= p)%nat -> (k < length ND0)%nat ->
  (forall j, (j <= k)%nat -> nth j ND0 0 = Nn (p - k) (i + j) u) ->
  forall m, (m <= k)%nat ->
  length (fold_left (kcol p k) (seq 1 m) ND0) = length ND0 /\
  (forall j, (j <= k - m)%nat -> nth j (fold_left (kcol p k) (seq 1 m) ND0) 0 = dNn m (p - k + m) (i + j) u).
Proof.
  intros Hk Hlen H0. induction m as [|m IH]; intros Hm.
  - cbn [seq fold_left]. split; [reflexivity|]. intros j Hj. rewrite Nat.add_0_r. cbn [dN]. apply H0. lia.
  - destruct (IH ltac:(lia)) as (Hl & Hn). clear IH.
    rewrite seq_S, fold_left_app. cbn [fold_left Nat.add].
    set (Nm := fold_left (kcol p k) (seq 1 m) ND0) in *.
    destruct (kcol_spec p k m Nm Hk ltac:(lia) ltac:(lia) Hn) as (Hl' & Hn').
    split; [congruence|exact Hn'].
Qed.

Lemma ders_one_k_spec p k :
  (k <= p)%nat -> ders_one_k Rops p U i u (ders_one_cols Rops p U i u) k = dNn k p i u.
Proof.
  intros Hk. rewrite ders_one_k_unfold.
  destruct (ders_one_cols_spec p (p - k) ltac:(lia)) as (Hlc & Hnc).
  set (col := nth (p - k) (ders_one_cols Rops p U i u) []) in *.
  assert (Hfl : length (firstn (S k) col) = S k) by (rewrite firstn_length; lia).
  destruct (kfold p k (firstn (S k) col ++ [0]) Hk) with (m := k) as (_ & Hn).
  - rewrite app_length, Hfl. cbn [length]. lia.
  - intros j Hj. rewrite app_nth1 by lia.
    rewrite <- (firstn_skipn (S k) col) in Hnc. rewrite <- Hnc by lia.
    rewrite app_nth1 by lia. reflexivity.
  - lia.
  - rewrite Hn by lia. rewrite Nat.add_0_r. f_equal. lia.
Qed.

Lemma ders_one_unfold p order :
  basis_function_ders_one Rops p U i u order =
  if orb (Rltb u (V i)) (Rleb (V (S (i + p))) u) then repeat 0 (S order)
  else nth 0 (nth p (ders_one_cols Rops p U i u) []) 0
       :: map (ders_one_k Rops p U i u (ders_one_cols Rops p U i u)) (seq 1 order).
Proof. reflexivity. Qed.

Lemma nth_repeat0 k n : nth k (repeat 0 n) 0 = 0.
Proof. revert k; induction n; intros [|k]; cbn; auto. Qed.

(* ---- 3. row 0 (the value), and the zero vector outside the support ---- *)
Theorem ders_one_outside p order :
  (u < knR U i \/ knR U (i + p + 1) <= u) ->
  basis_function_ders_one Rops p U i u order = repeat 0 (S order).
Proof.
  intros H. rewrite ders_one_unfold. apply outside_true_iff in H. rewrite H. reflexivity.
Qed.

Theorem ders_one_row0 p order :
  sortedR U -> (i + p + 1 < length U)%nat ->
  nth 0 (basis_function_ders_one Rops p U i u order) 0 = N (Ufun U) p i u.
Proof.
  intros Hs HL. rewrite ders_one_unfold.
  destruct (orb (Rltb u (V i)) _) eqn:Eout.
  - apply outside_true_iff in Eout. cbn [repeat nth]. symmetry. apply N_support.
    + apply Ufun_sorted. exact Hs.
    + rewrite !Ufun_in by lia. exact Eout.
  - cbn [nth]. destruct (ders_one_cols_spec p p (le_n p)) as (_ & Hn).
    rewrite Hn by lia. rewrite Nat.add_0_r. apply N_ext. intros m Hm. symmetry. apply Ufun_in. lia.
Qed.

(* on the support, row 0 is what basis_function_one returns (away from its two special cases) *)
Corollary ders_one_row0_bf_one p order :
  sortedR U -> (i + p + 1 < length U)%nat ->
  ~ (i = 0%nat /\ u = knR U 0) ->
  ~ ((i + p + 2)%nat = length U /\ u = knR U (length U - 1)) ->
  nth 0 (basis_function_ders_one Rops p U i u order) 0 = basis_function_one Rops p U i u.
Proof. intros. rewrite ders_one_row0, bf_one_is_cox_de_boor; auto. Qed.

(* ---- 4. every entry k <= min(order, p) is the algebraic derivative of Eq. 2.9 ---- *)
Theorem ders_one_is_dN p order k :
  sortedR U -> (i + p + 1 < length U)%nat -> (k <= order)%nat -> (k <= p)%nat ->
  nth k (basis_function_ders_one Rops p U i u order) 0 = dN (Ufun U) k p i u.
Proof.
  intros Hs HL Hko Hkp.
  destruct k as [|k]; [cbn [dN]; apply ders_one_row0; assumption|].
  rewrite ders_one_unfold.
  destruct (orb (Rltb u (V i)) _) eqn:Eout.
  - apply outside_true_iff in Eout. rewrite nth_repeat0. symmetry. apply dN_support.
    + apply Ufun_sorted. exact Hs.
    + rewrite !Ufun_in by lia. exact Eout.
  - cbn [nth]. rewrite nth_map_seq by lia. cbn [Nat.add].
    rewrite ders_one_k_spec by lia. apply dN_ext. intros m Hm. symmetry. apply Ufun_in. lia.
Qed.
End DersOne.

Print Assumptions bf_one_is_cox_de_boor.
Print Assumptions bf_one_is_cox_de_boor_interior.
Print Assumptions bf_one_ends.
Print Assumptions bf_one_start_clamped.
Print Assumptions bf_one_end_convention.
Print Assumptions bf_one_end_clamped_power.
Print Assumptions ders_one_outside.
Print Assumptions ders_one_row0.
Print Assumptions ders_one_row0_bf_one.
Print Assumptions ders_one_is_dN.
