(* C20: the winding-number test linalg.wn_poly (Model/Geom2D.v) on CONVEX polygons.
   For a strictly convex polygon given counter-clockwise (every vertex other than the two end points strictly left of
   every edge) and a point p that is not on the boundary:   wn_poly p polygon = true  <->  p strictly left of every edge;
   clockwise: <-> strictly right of every edge.  Triangles of both orientations are the case n = 3.
   (Left turns at consecutive triples alone do NOT characterise convexity - a pentagram {5/2} has them - so convexity is
   stated globally.)
   Route: the model's count is  sum_i [up_i][L_i > 0] - [down_i][L_i < 0]  (up_i: y_i <= p_y < y_{i+1}, down_i: y_{i+1} <= p_y < y_i,
   L_i = is_left v_i v_{i+1} p).  A closed chain has as many up as down edges (telescoping); strict convexity allows at most
   one of each (the two crossing points of the line y = p_y would each be weakly left of the other edge); an interior
   point sees an up edge (extreme-vertex argument), so the count is 1; for a point off the boundary that is not interior
   the contributions of the up and the down edge cancel.  All algebra is polynomial identities + linear reasoning. *)
From Coq Require Import List Arith Bool Lia Reals Lra ZArith Psatz.
From NV Require Import Scalar.Ops Model.Common Model.Geom2D Proofs.Geom2DR.
Import ListNotations.
Open Scope R_scope.

(* ---------------------------------------------------------------- the orientation determinant on coordinates *)
Definition Lf (xa ya xb yb xq yq : R) : R := (xb - xa) * (yq - ya) - (xq - xa) * (yb - ya).

Local Notation X := (cx Rops).
Local Notation Y := (cy Rops).
Local Notation IL := (is_left Rops).

Lemma IL_Lf (a b q : list R) : IL a b q = Lf (X a) (Y a) (X b) (Y b) (X q) (Y q).
Proof. unfold is_left, Lf. rsimp. reflexivity. Qed.

(* two upward edges a->b, c->d crossing the line y = yp: each crossing point is weakly left of the other edge *)
Lemma two_up_identity xa ya xb yb xc yc xd yd yp :
  (yd - yp) * Lf xa ya xb yb xc yc + (yp - yc) * Lf xa ya xb yb xd yd +
  (yb - yp) * Lf xc yc xd yd xa ya + (yp - ya) * Lf xc yc xd yd xb yb = 0.
Proof. unfold Lf. ring. Qed.

(* an upward edge a->b and a downward edge c->e *)
Lemma up_down_identity xa ya xb yb xc yc xe ye xp yp :
  (yc - ye) * Lf xa ya xb yb xp yp + (yb - ya) * Lf xc yc xe ye xp yp =
  (yp - ye) * Lf xa ya xb yb xc yc + (yc - yp) * Lf xa ya xb yb xe ye.
Proof. unfold Lf. ring. Qed.

(* p on the line y = yp between the crossing points of the up edge a->b and the down edge c->e: any edge f->g *)
Lemma between_identity xa ya xb yb xc yc xe ye xf yf xg yg xp yp :
  Lf xf yf xg yg xp yp * ((yc - ye) * Lf xa ya xb yb xp yp + (yb - ya) * Lf xc yc xe ye xp yp) =
  Lf xa ya xb yb xp yp * ((yp - ye) * Lf xf yf xg yg xc yc + (yc - yp) * Lf xf yf xg yg xe ye) +
  Lf xc yc xe ye xp yp * ((yb - yp) * Lf xf yf xg yg xa ya + (yp - ya) * Lf xf yf xg yg xb yb).
Proof. unfold Lf. ring. Qed.

(* at a vertex a with neighbours z (before) and b (after) *)
Lemma vertex_identity xz yz xa ya xb yb xp yp :
  Lf xz yz xa ya xb yb * (yp - ya) =
  - Lf xa ya xb yb xp yp * (ya - yz) + Lf xz yz xa ya xp yp * (yb - ya).
Proof. unfold Lf. ring. Qed.

(* p on the line of the edge a->b, z before a, c after b *)
Lemma seg_identity1 xa ya xb yb xp yp :
  ((xb - xa) * (xb - xa) + (yb - ya) * (yb - ya)) * ((xp - xa) * (xp - xb) + (yp - ya) * (yp - yb)) =
  ((xp - xa) * (xb - xa) + (yp - ya) * (yb - ya)) * ((xp - xb) * (xb - xa) + (yp - yb) * (yb - ya)) +
  Lf xa ya xb yb xp yp * Lf xa ya xb yb xp yp.
Proof. unfold Lf. ring. Qed.
Lemma seg_identity2 xz yz xa ya xb yb xp yp :
  ((xb - xa) * (xb - xa) + (yb - ya) * (yb - ya)) * Lf xz yz xa ya xp yp =
  Lf xz yz xa ya xb yb * ((xp - xa) * (xb - xa) + (yp - ya) * (yb - ya)) +
  ((xa - xz) * (xb - xa) + (ya - yz) * (yb - ya)) * Lf xa ya xb yb xp yp.
Proof. unfold Lf. ring. Qed.
Lemma seg_identity3 xa ya xb yb xc yc xp yp :
  ((xb - xa) * (xb - xa) + (yb - ya) * (yb - ya)) * Lf xb yb xc yc xp yp =
  - Lf xa ya xb yb xc yc * ((xp - xb) * (xb - xa) + (yp - yb) * (yb - ya)) +
  ((xc - xb) * (xb - xa) + (yc - yb) * (yb - ya)) * Lf xa ya xb yb xp yp.
Proof. unfold Lf. ring. Qed.

(* ---------------------------------------------------------------- finite sums of integers *)
Open Scope Z_scope.
Fixpoint sumZ (f : nat -> Z) (n : nat) : Z :=
  match n with O => 0 | S m => sumZ f m + f m end.

Lemma sumZ_ext f g n : (forall i, (i < n)%nat -> f i = g i) -> sumZ f n = sumZ g n.
Proof. induction n as [|n IH]; intros H; [reflexivity|]. cbn [sumZ]. rewrite IH, H by (intros; auto with arith); auto. Qed.

Lemma sumZ_zero f n : (forall i, (i < n)%nat -> f i = 0) -> sumZ f n = 0.
Proof. induction n as [|n IH]; intros H; [reflexivity|]. cbn [sumZ]. rewrite IH, H by (intros; auto with arith); auto. Qed.

Lemma sumZ_single f n u : (u < n)%nat -> (forall i, (i < n)%nat -> i <> u -> f i = 0) -> sumZ f n = f u.
Proof.
  induction n as [|n IH]; intros Hu H; [lia|]. cbn [sumZ]. destruct (Nat.eq_dec u n) as [->|Hne].
  - rewrite sumZ_zero; [lia|]. intros i Hi. apply H; lia.
  - rewrite IH, (H n) by (try lia; intros; apply H; lia). lia.
Qed.

Lemma sumZ_two f n u d : (u < n)%nat -> (d < n)%nat -> u <> d ->
  (forall i, (i < n)%nat -> i <> u -> i <> d -> f i = 0) -> sumZ f n = f u + f d.
Proof.
  induction n as [|n IH]; intros Hu Hd Hud H; [lia|]. cbn [sumZ].
  destruct (Nat.eq_dec u n) as [->|Hnu]; [|destruct (Nat.eq_dec d n) as [->|Hnd]].
  - rewrite (sumZ_single f n d); [lia|lia|]. intros i Hi Hid. apply H; lia.
  - rewrite (sumZ_single f n u); [lia|lia|]. intros i Hi Hiu. apply H; lia.
  - rewrite IH, (H n) by (try lia; intros; apply H; lia). lia.
Qed.

Lemma sumZ_tele (g : nat -> Z) n : sumZ (fun i => g i - g (S i)) n = g O - g n.
Proof. induction n as [|n IH]; cbn [sumZ]; [lia|rewrite IH; lia]. Qed.

Lemma sumZ_plus f g n : sumZ (fun i => f i + g i) n = sumZ f n + sumZ g n.
Proof. induction n as [|n IH]; cbn [sumZ]; [lia|rewrite IH; lia]. Qed.

Lemma sumZ_opp f n : sumZ (fun i => - f i) n = - sumZ f n.
Proof. induction n as [|n IH]; cbn [sumZ]; [lia|rewrite IH; lia]. Qed.

Lemma sumZ_ge f n d : (forall i, (i < n)%nat -> 0 <= f i) -> (d < n)%nat -> f d <= sumZ f n.
Proof.
  induction n as [|n IH]; intros H Hd; [lia|]. cbn [sumZ].
  assert (H0 : 0 <= sumZ f n).
  { clear IH Hd. induction n as [|m IHm]; cbn [sumZ]; [lia|]. pose proof (H m ltac:(lia)).
    assert (0 <= sumZ f m) by (apply IHm; intros; apply H; lia). lia. }
  destruct (Nat.eq_dec d n) as [->|Hne]; [lia|]. pose proof (H n ltac:(lia)).
  assert (f d <= sumZ f n) by (apply IH; [intros; apply H; lia|lia]). lia.
Qed.

Lemma sumZ_rev f n : sumZ f n = sumZ (fun i => f (n - 1 - i)%nat) n.
Proof.
  induction n as [|n IH]; [reflexivity|]. cbn [sumZ].
  replace (S n - 1 - n)%nat with O by lia.
  (* shift: f (S n - 1 - i) = f (n - i) ; sum_{i<n} f (n - i) = sum_{j<n} f (j+1) reversed *)
  assert (H : forall g m, sumZ (fun i => g (S i)) m + g O = sumZ g m + g m).
  { intros g m. induction m as [|m IHm]; cbn [sumZ]; lia. }
  rewrite IH.
  pose proof (H (fun j => f (n - j)%nat) n) as H1. cbn beta in H1. rewrite Nat.sub_0_r, Nat.sub_diag in H1.
  rewrite (sumZ_ext (fun i => f (S n - 1 - i)%nat) (fun i => f (n - i)%nat)) by (intros; f_equal; lia).
  rewrite (sumZ_ext (fun i => f (n - 1 - i)%nat) (fun i => f (n - S i)%nat)) by (intros; f_equal; lia).
  lia.
Qed.

(* a boolean function on 0..n-1 is somewhere true or everywhere false *)
Lemma bounded_search (f : nat -> bool) n : (exists k, (k < n)%nat /\ f k = true) \/ (forall k, (k < n)%nat -> f k = false).
Proof.
  induction n as [|n [(k & Hk & E)|IH]].
  - right. intros; lia.
  - left. exists k. split; [lia|exact E].
  - destruct (f n) eqn:E; [left; exists n; split; [lia|exact E]|].
    right. intros k Hk. destruct (Nat.eq_dec k n) as [->|]; [exact E|apply IH; lia].
Qed.

(* a cyclic boolean sequence that is not constant has a true -> false step *)
Lemma cyclic_step (b : nat -> bool) n i j : b n = b O -> (i < n)%nat -> (j < n)%nat -> b i = true -> b j = false ->
  exists k, (k < n)%nat /\ b k = true /\ b (S k) = false.
Proof.
  intros Hper Hi Hj Ei Ej.
  destruct (bounded_search (fun k => b k && negb (b (S k))) n) as [(k & Hk & E)|Hno].
  - exists k. apply andb_prop in E. destruct E as [E1 E2]. apply negb_true_iff in E2. auto.
  - exfalso.
    assert (Hstep : forall k, (k < n)%nat -> b k = true -> b (S k) = true).
    { intros k Hk E. specialize (Hno k Hk). cbn beta in Hno. rewrite E in Hno. cbn in Hno. apply negb_false_iff in Hno. exact Hno. }
    assert (Hup : forall m, (i + m <= n)%nat -> b (i + m)%nat = true).
    { induction m as [|m IHm]; intros Hm; [rewrite Nat.add_0_r; exact Ei|].
      replace (i + S m)%nat with (S (i + m)) by lia. apply Hstep; [lia|apply IHm; lia]. }
    assert (E0 : b O = true) by (rewrite <- Hper; replace n with (i + (n - i))%nat by lia; apply Hup; lia).
    assert (Hall : forall m, (m <= n)%nat -> b m = true).
    { induction m as [|m IHm]; intros Hm; [exact E0|]. apply Hstep; [lia|apply IHm; lia]. }
    rewrite (Hall j) in Ej by lia. discriminate.
Qed.
Open Scope R_scope.

(* ---------------------------------------------------------------- one edge of the model's count *)
Definition upE (p a b : list R) : Prop := Y a <= Y p < Y b.
Definition dnE (p a b : list R) : Prop := Y b <= Y p < Y a.
Definition belb (p a : list R) : bool := Rleb (Y a) (Y p).
Definition upb (p a b : list R) : bool := belb p a && negb (belb p b).
Definition dnb (p a b : list R) : bool := negb (belb p a) && belb p b.

Lemma belb_true p a : belb p a = true <-> Y a <= Y p.
Proof. unfold belb, Rleb. destruct (Rle_dec (Y a) (Y p)); split; intros; auto; try discriminate; contradiction. Qed.
Lemma belb_false p a : belb p a = false <-> Y p < Y a.
Proof. unfold belb, Rleb. destruct (Rle_dec (Y a) (Y p)); split; intros; auto; try discriminate; lra. Qed.

Lemma upb_spec p a b : upb p a b = true <-> upE p a b.
Proof.
  unfold upb, upE. rewrite andb_true_iff, negb_true_iff, belb_true, belb_false. tauto.
Qed.
Lemma dnb_spec p a b : dnb p a b = true <-> dnE p a b.
Proof.
  unfold dnb, dnE. rewrite andb_true_iff, negb_true_iff, belb_true, belb_false. tauto.
Qed.

Lemma wn_edge_up p a b : upE p a b -> wn_edge Rops p a b = if Rlt_dec 0 (IL a b p) then 1%Z else 0%Z.
Proof.
  intros [H1 H2]. unfold wn_edge. cbn [oleb oltb Rops o0]. unfold Rleb, Rltb.
  destruct (Rle_dec (Y a) (Y p)); [|contradiction]. destruct (Rlt_dec (Y p) (Y b)); [|contradiction].
  destruct (Rlt_dec 0 (IL a b p)); reflexivity.
Qed.
Lemma wn_edge_dn p a b : dnE p a b -> wn_edge Rops p a b = if Rlt_dec (IL a b p) 0 then (-1)%Z else 0%Z.
Proof.
  intros [H1 H2]. unfold wn_edge. cbn [oleb oltb Rops o0]. unfold Rleb, Rltb.
  destruct (Rle_dec (Y a) (Y p)); [lra|]. destruct (Rle_dec (Y b) (Y p)); [|contradiction].
  destruct (Rlt_dec (IL a b p) 0); reflexivity.
Qed.
Lemma wn_edge_none p a b : ~ upE p a b -> ~ dnE p a b -> wn_edge Rops p a b = 0%Z.
Proof.
  intros H1 H2. unfold upE, dnE in *. unfold wn_edge. cbn [oleb oltb Rops o0]. unfold Rleb, Rltb.
  destruct (Rle_dec (Y a) (Y p)).
  - destruct (Rlt_dec (Y p) (Y b)); [exfalso; apply H1; split; assumption|reflexivity].
  - destruct (Rle_dec (Y b) (Y p)); [exfalso; apply H2; split; [assumption|lra]|reflexivity].
Qed.

(* up minus down indicator telescopes *)
Definition b2z (b : bool) : Z := if b then 1%Z else 0%Z.
Lemma up_dn_tele p a b : (b2z (upb p a b) - b2z (dnb p a b) = b2z (belb p a) - b2z (belb p b))%Z.
Proof. unfold upb, dnb. destruct (belb p a), (belb p b); reflexivity. Qed.

(* the closed segment from a to b *)
Definition on_seg (a b p : list R) : Prop :=
  IL a b p = 0 /\ (X p - X a) * (X p - X b) + (Y p - Y a) * (Y p - Y b) <= 0.

(* the model's count over the edges v_i -> v_{i+1}, i < n *)
Definition wn_sum (p : list R) (v : nat -> list R) (n : nat) : Z := sumZ (fun i => wn_edge Rops p (v i) (v (S i))) n.

Lemma argmax (f : nat -> R) n : (0 < n)%nat -> exists k, (k < n)%nat /\ forall i, (i < n)%nat -> f i <= f k.
Proof.
  induction n as [|n IH]; intros Hn; [lia|]. destruct n as [|n].
  - exists O. split; [lia|]. intros i Hi. replace i with O by lia. lra.
  - destruct (IH ltac:(lia)) as (k & Hk & Hmax). destruct (Rle_dec (f (S n)) (f k)) as [H|H].
    + exists k. split; [lia|]. intros i Hi. destruct (Nat.eq_dec i (S n)) as [->|]; [exact H|apply Hmax; lia].
    + exists (S n). split; [lia|]. intros i Hi. destruct (Nat.eq_dec i (S n)) as [->|]; [lra|].
      pose proof (Hmax i ltac:(lia)). lra.
Qed.

(* ================================================================ strictly convex counter-clockwise polygons *)
Definition nx (n i : nat) : nat := if Nat.eqb (S i) n then O else S i.

(* v_0 .. v_{n-1}, continued periodically; every vertex other than the end points of an edge is strictly left of it *)
Definition convex_ccw (v : nat -> list R) (n : nat) : Prop :=
  (3 <= n)%nat /\ (forall i, v (i + n)%nat = v i) /\
  forall i k, (i < n)%nat -> (k < n)%nat -> k <> i -> k <> nx n i -> 0 < IL (v i) (v (nx n i)) (v k).

Section Convex.
Variables (v : nat -> list R) (n : nat) (p : list R).
Hypothesis Hcv : convex_ccw v n.

Let Hn : (3 <= n)%nat. Proof. apply Hcv. Qed.
Let Hper : forall i, v (i + n)%nat = v i. Proof. apply Hcv. Qed.
Let Hstrict : forall i k, (i < n)%nat -> (k < n)%nat -> k <> i -> k <> nx n i -> 0 < IL (v i) (v (nx n i)) (v k).
Proof. apply Hcv. Qed.

Lemma v_mult q : forall i, v (i + q * n)%nat = v i.
Proof.
  induction q as [|q IH]; intros i; [rewrite Nat.add_0_r; reflexivity|].
  replace (i + S q * n)%nat with (i + q * n + n)%nat by lia. rewrite Hper. apply IH.
Qed.

Lemma v_mod i : v i = v (i mod n).
Proof.
  rewrite (Nat.div_mod i n) at 1 by lia. rewrite Nat.add_comm, (Nat.mul_comm n). apply v_mult.
Qed.

Lemma v_S_mod i : v (S i) = v (S (i mod n)).
Proof.
  rewrite (Nat.div_mod i n) at 1 by lia.
  replace (S (n * (i / n) + i mod n)) with (S (i mod n) + (i / n) * n)%nat by lia. apply v_mult.
Qed.

Lemma v_nx i : (i < n)%nat -> v (S i) = v (nx n i) /\ (nx n i < n)%nat.
Proof.
  intros Hi. unfold nx. destruct (Nat.eqb_spec (S i) n) as [E|E].
  - split; [|lia]. rewrite E. exact (Hper O).
  - split; [reflexivity|lia].
Qed.

Lemma IL_aba a b : IL a b a = 0 /\ IL a b b = 0.
Proof. rewrite !IL_Lf. unfold Lf. split; ring. Qed.

(* every vertex is weakly left of every edge *)
Lemma conv_weak i k : 0 <= IL (v i) (v (S i)) (v k).
Proof.
  rewrite (v_mod i), (v_S_mod i), (v_mod k).
  assert (Hi : (i mod n < n)%nat) by (apply Nat.mod_upper_bound; lia).
  assert (Hk : (k mod n < n)%nat) by (apply Nat.mod_upper_bound; lia).
  set (i0 := (i mod n)%nat) in *. set (k0 := (k mod n)%nat) in *.
  destruct (v_nx i0 Hi) as [E Hnx]. rewrite E.
  destruct (Nat.eq_dec k0 i0) as [->|H1]; [rewrite (proj1 (IL_aba _ _)); lra|].
  destruct (Nat.eq_dec k0 (nx n i0)) as [->|H2]; [rewrite (proj2 (IL_aba _ _)); lra|].
  left. apply Hstrict; assumption.
Qed.

(* strict left turn at every vertex *)
Lemma conv_turn j : 0 < IL (v j) (v (S j)) (v (S (S j))).
Proof.
  rewrite (v_mod j), (v_S_mod j).
  replace (v (S (S j))) with (v (S (S (j mod n)))).
  2:{ rewrite (Nat.div_mod j n) at 2 by lia.
      replace (S (S (n * (j / n) + j mod n))) with (S (S (j mod n)) + (j / n) * n)%nat by lia. symmetry. apply v_mult. }
  assert (Hj : (j mod n < n)%nat) by (apply Nat.mod_upper_bound; lia).
  set (j0 := (j mod n)%nat) in *.
  destruct (v_nx j0 Hj) as [E Hnx]. rewrite E.
  assert (E2 : v (S (S j0)) = v (nx n (nx n j0))).
  { unfold nx. destruct (Nat.eqb_spec (S j0) n) as [E1|E1].
    - rewrite E1. destruct (Nat.eqb_spec 1 n); [lia|]. exact (Hper 1%nat).
    - destruct (Nat.eqb_spec (S (S j0)) n) as [E3|E3]; [rewrite E3; exact (Hper O)|reflexivity]. }
  rewrite E2. apply Hstrict; try assumption.
  - apply v_nx. exact Hnx.
  - unfold nx. destruct (Nat.eqb_spec (S j0) n); [destruct (Nat.eqb_spec 1 n); lia|].
    destruct (Nat.eqb_spec (S (S j0)) n); lia.
  - unfold nx. destruct (Nat.eqb_spec (S j0) n); [destruct (Nat.eqb_spec 1 n); lia|].
    destruct (Nat.eqb_spec (S (S j0)) n); lia.
Qed.

(* sum of four non-negative terms *)
Lemma four_nonneg (a b c d : R) : 0 <= a -> 0 <= b -> 0 <= c -> 0 <= d -> a + b + c + d = 0 -> a = 0 /\ b = 0 /\ c = 0 /\ d = 0.
Proof. intros. repeat split; lra. Qed.

(* at most one upward crossing edge *)
Lemma up_unique i j : (i < n)%nat -> (j < n)%nat ->
  upE p (v i) (v (S i)) -> upE p (v j) (v (S j)) -> i = j.
Proof.
  intros Hi Hj [A1 A2] [B1 B2]. destruct (Nat.eq_dec i j) as [|Hne]; [assumption|exfalso].
  pose proof (conv_weak i j) as W1. pose proof (conv_weak i (S j)) as W2.
  pose proof (conv_weak j i) as W3. pose proof (conv_weak j (S i)) as W4.
  rewrite !IL_Lf in W1, W2, W3, W4.
  pose proof (two_up_identity (X (v i)) (Y (v i)) (X (v (S i))) (Y (v (S i))) (X (v j)) (Y (v j)) (X (v (S j))) (Y (v (S j))) (Y p)) as Hid.
  apply four_nonneg in Hid; try (apply Rmult_le_pos; lra).
  destruct Hid as (T1 & _). apply Rmult_integral in T1. destruct T1 as [T1|T1]; [lra|].
  destruct (v_nx i Hi) as [E Hnx]. rewrite E in T1.
  destruct (Nat.eq_dec j (nx n i)) as [Ej|Ej].
  - rewrite Ej, <- E in B1. lra.
  - pose proof (Hstrict i j Hi Hj ltac:(lia) Ej) as HS. rewrite IL_Lf in HS. lra.
Qed.

(* at most one downward crossing edge *)
Lemma dn_unique i j : (i < n)%nat -> (j < n)%nat ->
  dnE p (v i) (v (S i)) -> dnE p (v j) (v (S j)) -> i = j.
Proof.
  intros Hi Hj [A1 A2] [B1 B2]. destruct (Nat.eq_dec i j) as [|Hne]; [assumption|exfalso].
  pose proof (conv_weak i j) as W1. pose proof (conv_weak i (S j)) as W2.
  pose proof (conv_weak j i) as W3. pose proof (conv_weak j (S i)) as W4.
  rewrite !IL_Lf in W1, W2, W3, W4.
  pose proof (two_up_identity (X (v i)) (Y (v i)) (X (v (S i))) (Y (v (S i))) (X (v j)) (Y (v j)) (X (v (S j))) (Y (v (S j))) (Y p)) as Hid.
  set (La_c := Lf (X (v i)) (Y (v i)) (X (v (S i))) (Y (v (S i))) (X (v j)) (Y (v j))) in *.
  set (La_d := Lf (X (v i)) (Y (v i)) (X (v (S i))) (Y (v (S i))) (X (v (S j))) (Y (v (S j)))) in *.
  set (Lc_a := Lf (X (v j)) (Y (v j)) (X (v (S j))) (Y (v (S j))) (X (v i)) (Y (v i))) in *.
  set (Lc_b := Lf (X (v j)) (Y (v j)) (X (v (S j))) (Y (v (S j))) (X (v (S i))) (Y (v (S i)))) in *.
  assert (Hid' : (Y p - Y (v (S j))) * La_c + (Y (v j) - Y p) * La_d + (Y p - Y (v (S i))) * Lc_a + (Y (v i) - Y p) * Lc_b = 0) by lra.
  apply four_nonneg in Hid'; try (apply Rmult_le_pos; lra).
  destruct Hid' as (_ & T2 & _). apply Rmult_integral in T2. destruct T2 as [T2|T2]; [lra|].
  (* the end point of edge j is on the line of edge i: it is an end point of edge i *)
  destruct (v_nx i Hi) as [E Hnx]. destruct (v_nx j Hj) as [E' Hnx'].
  unfold La_d in T2. rewrite E, E' in T2.
  destruct (Nat.eq_dec (nx n j) i) as [Ej|Ej].
  - rewrite <- Ej, <- E' in A2. lra.
  - destruct (Nat.eq_dec (nx n j) (nx n i)) as [Ek|Ek].
    + apply Hne. unfold nx in Ek. destruct (Nat.eqb_spec (S j) n); destruct (Nat.eqb_spec (S i) n); lia.
    + pose proof (Hstrict i (nx n j) Hi Hnx' Ej Ek) as HS. rewrite IL_Lf in HS. lra.
Qed.

(* a point strictly left of the two edges at an extreme vertex a (highest: z, b not above a, p not below a; or lowest
   with p strictly below) contradicts the left turn at a *)
Lemma extreme_contra (z a b q : list R) : 0 < IL z a b -> 0 < IL a b q -> 0 < IL z a q ->
  (Y z <= Y a /\ Y b <= Y a /\ Y a <= Y q) \/ (Y a <= Y z /\ Y a <= Y b /\ Y q < Y a) -> False.
Proof.
  rewrite !IL_Lf. intros H1 H2 H3 H.
  pose proof (vertex_identity (X z) (Y z) (X a) (Y a) (X b) (Y b) (X q) (Y q)) as Hid.
  set (L1 := Lf (X z) (Y z) (X a) (Y a) (X b) (Y b)) in *.
  set (L2 := Lf (X a) (Y a) (X b) (Y b) (X q) (Y q)) in *.
  set (L3 := Lf (X z) (Y z) (X a) (Y a) (X q) (Y q)) in *.
  destruct H as [(A1 & A2 & A3)|(A1 & A2 & A3)].
  - assert (T0 : 0 <= L1 * (Y q - Y a)) by (apply Rmult_le_pos; lra).
    assert (T1 : 0 <= L2 * (Y a - Y z)) by (apply Rmult_le_pos; lra).
    assert (T2 : 0 <= L3 * (Y a - Y b)) by (apply Rmult_le_pos; lra).
    assert (E1 : L2 * (Y a - Y z) = 0) by lra. assert (E2 : L3 * (Y a - Y b) = 0) by lra.
    apply Rmult_integral in E1. apply Rmult_integral in E2.
    destruct E1 as [E1|E1]; [lra|]. destruct E2 as [E2|E2]; [lra|].
    assert (L1 = 0); [|lra]. unfold L1, Lf. replace (Y b) with (Y a) by lra. replace (Y z) with (Y a) by lra. ring.
  - assert (T0 : L1 * (Y q - Y a) < 0).
    { replace (L1 * (Y q - Y a)) with (- (L1 * (Y a - Y q))) by ring.
      assert (0 < L1 * (Y a - Y q)) by (apply Rmult_lt_0_compat; lra). lra. }
    assert (T1 : 0 <= L2 * (Y z - Y a)) by (apply Rmult_le_pos; lra).
    assert (T2 : 0 <= L3 * (Y b - Y a)) by (apply Rmult_le_pos; lra).
    lra.
Qed.

Definition interior : Prop := forall i, (i < n)%nat -> 0 < IL (v i) (v (S i)) p.
Definition off_boundary : Prop := forall i, (i < n)%nat -> ~ on_seg (v i) (v (S i)) p.

Lemma interior_all : interior -> forall i, 0 < IL (v i) (v (S i)) p.
Proof. intros H i. rewrite (v_mod i), (v_S_mod i). apply H. apply Nat.mod_upper_bound. lia. Qed.

Lemma v_pred k : v (S (k + n - 1)) = v k /\ v (S (S (k + n - 1))) = v (S k).
Proof.
  replace (S (k + n - 1)) with (k + n)%nat by lia. replace (S (k + n)) with (S k + n)%nat by lia.
  rewrite !Hper. split; reflexivity.
Qed.

(* an interior point sees an upward crossing edge *)
Lemma interior_up : interior -> exists u, (u < n)%nat /\ upE p (v u) (v (S u)).
Proof.
  intros Hin. pose proof (interior_all Hin) as Hall.
  set (b := fun i => belb p (v i)).
  assert (Hb : b n = b O) by (unfold b; rewrite <- (Hper O); reflexivity).
  assert (Hext : forall k, (k < n)%nat ->
            (forall i, (i < n)%nat -> Y (v i) <= Y (v k)) /\ Y (v k) <= Y p \/
            (forall i, (i < n)%nat -> Y (v k) <= Y (v i)) /\ Y p < Y (v k) -> False).
  { intros k Hk Hc. destruct (v_pred k) as [P1 P2].
    pose proof (conv_turn (k + n - 1)) as T. rewrite P1, P2 in T.
    pose proof (Hall k) as A. pose proof (Hall (k + n - 1)%nat) as B. rewrite P1 in B.
    assert (Hz : (( k + n - 1) mod n < n)%nat) by (apply Nat.mod_upper_bound; lia).
    destruct (v_nx k Hk) as [E Hnx].
    apply (extreme_contra (v (k + n - 1)%nat) (v k) (v (S k)) p T A B).
    destruct Hc as [[Hm Hp]|[Hm Hp]]; [left|right].
    - split; [rewrite (v_mod (k + n - 1)); apply Hm; exact Hz|]. split; [rewrite E; apply Hm; exact Hnx|exact Hp].
    - split; [rewrite (v_mod (k + n - 1)); apply Hm; exact Hz|]. split; [rewrite E; apply Hm; exact Hnx|exact Hp]. }
  destruct (bounded_search b n) as [(i & Hi & Ei)|Hall0]; destruct (bounded_search (fun k => negb (b k)) n) as [(j & Hj & Ej)|Hall1].
  - apply negb_true_iff in Ej. destruct (cyclic_step b n i j Hb Hi Hj Ei Ej) as (k & Hk & E1 & E2).
    exists k. split; [exact Hk|]. apply upb_spec. unfold upb. unfold b in E1, E2. rewrite E1, E2. reflexivity.
  - (* all vertices weakly below p: contradiction at the highest vertex *)
    exfalso. destruct (argmax (fun i => Y (v i)) n ltac:(lia)) as (k & Hk & Hmax).
    apply (Hext k Hk). left. split; [exact Hmax|]. apply belb_true.
    specialize (Hall1 k Hk). apply negb_false_iff in Hall1. exact Hall1.
  - (* all vertices strictly above p: contradiction at the lowest vertex *)
    exfalso. destruct (argmax (fun i => - Y (v i)) n ltac:(lia)) as (k & Hk & Hmax).
    apply (Hext k Hk). right. split; [intros i Hi; specialize (Hmax i Hi); lra|]. apply belb_false. apply Hall0. exact Hk.
  - exfalso. specialize (Hall0 O ltac:(lia)). specialize (Hall1 O ltac:(lia)). rewrite Hall0 in Hall1. discriminate.
Qed.

(* q on the line of the edge a->b and weakly left of the neighbouring edges z->a and b->c of a polygon turning strictly
   left at a and at b: q is on the segment *)
Lemma on_seg_from (z a b c q : list R) : 0 < IL z a b -> 0 < IL a b c -> IL a b q = 0 ->
  0 <= IL z a q -> 0 <= IL b c q -> on_seg a b q.
Proof.
  intros H1 H2 H3 H4 H5. split; [exact H3|]. rewrite !IL_Lf in *.
  pose proof (seg_identity1 (X a) (Y a) (X b) (Y b) (X q) (Y q)) as I1.
  pose proof (seg_identity2 (X z) (Y z) (X a) (Y a) (X b) (Y b) (X q) (Y q)) as I2.
  pose proof (seg_identity3 (X a) (Y a) (X b) (Y b) (X c) (Y c) (X q) (Y q)) as I3.
  rewrite H3 in I1, I2, I3.
  set (N := (X b - X a) * (X b - X a) + (Y b - Y a) * (Y b - Y a)) in *.
  set (u := (X q - X a) * (X b - X a) + (Y q - Y a) * (Y b - Y a)) in *.
  set (w := (X q - X b) * (X b - X a) + (Y q - Y b) * (Y b - Y a)) in *.
  set (dt := (X q - X a) * (X q - X b) + (Y q - Y a) * (Y q - Y b)) in *.
  set (Lzab := Lf (X z) (Y z) (X a) (Y a) (X b) (Y b)) in *.
  set (Labc := Lf (X a) (Y a) (X b) (Y b) (X c) (Y c)) in *.
  assert (HN : 0 < N).
  { unfold N. destruct (Req_dec (X b - X a) 0) as [Ex|Ex]; [destruct (Req_dec (Y b - Y a) 0) as [Ey|Ey]|].
    - exfalso. unfold Labc, Lf in H2. rewrite Ex, Ey in H2. lra.
    - rewrite Ex. pose proof (Rsqr_pos_lt _ Ey) as Hs. unfold Rsqr in Hs. lra.
    - pose proof (Rsqr_pos_lt _ Ex) as Hs. unfold Rsqr in Hs. pose proof (Rle_0_sqr (Y b - Y a)) as Hq. unfold Rsqr in Hq. lra. }
  assert (Hu : 0 <= u).
  { destruct (Rle_lt_dec 0 u) as [H|H]; [exact H|exfalso].
    assert (0 <= N * Lf (X z) (Y z) (X a) (Y a) (X q) (Y q)) by (apply Rmult_le_pos; lra).
    assert (Lzab * u < 0).
    { replace (Lzab * u) with (- (Lzab * (- u))) by ring. assert (0 < Lzab * (- u)) by (apply Rmult_lt_0_compat; lra). lra. }
    lra. }
  assert (Hw : w <= 0).
  { destruct (Rle_lt_dec w 0) as [H|H]; [exact H|exfalso].
    assert (0 <= N * Lf (X b) (Y b) (X c) (Y c) (X q) (Y q)) by (apply Rmult_le_pos; lra).
    assert (0 < Labc * w) by (apply Rmult_lt_0_compat; lra). lra. }
  assert (Huw : u * w <= 0).
  { replace (u * w) with (- (u * (- w))) by ring. assert (0 <= u * (- w)) by (apply Rmult_le_pos; lra). lra. }
  destruct (Rle_lt_dec dt 0) as [H|H]; [exact H|exfalso].
  assert (0 < N * dt) by (apply Rmult_lt_0_compat; lra). lra.
Qed.

(* as many upward as downward edges *)
Lemma up_dn_balance :
  sumZ (fun i => b2z (upb p (v i) (v (S i)))) n = sumZ (fun i => b2z (dnb p (v i) (v (S i)))) n.
Proof.
  assert (H : sumZ (fun i => (b2z (upb p (v i) (v (S i))) + - b2z (dnb p (v i) (v (S i))))%Z) n = 0%Z).
  { rewrite (sumZ_ext _ (fun i => (b2z (belb p (v i)) - b2z (belb p (v (S i))))%Z)).
    - rewrite (sumZ_tele (fun i => b2z (belb p (v i)))). rewrite <- (Hper O). cbn [Nat.add]. lia.
    - intros i _. pose proof (up_dn_tele p (v i) (v (S i))). lia. }
  rewrite sumZ_plus, sumZ_opp in H. lia.
Qed.

Lemma up_dn_excl a b : upb p a b = true -> dnb p a b = true -> False.
Proof. unfold upb, dnb. destruct (belb p a), (belb p b); discriminate. Qed.

(* [G] interior points are counted once *)
Theorem wn_interior : interior -> wn_sum p v n = 1%Z.
Proof.
  intros Hin. destruct (interior_up Hin) as (u & Hu & Eu). unfold wn_sum.
  rewrite (sumZ_single _ n u Hu).
  - rewrite (wn_edge_up _ _ _ Eu). destruct (Rlt_dec 0 (IL (v u) (v (S u)) p)) as [|H]; [reflexivity|].
    exfalso. apply H. apply Hin. exact Hu.
  - intros i Hi Hne. destruct (upb p (v i) (v (S i))) eqn:E1.
    + exfalso. apply Hne. apply upb_spec in E1. apply (up_unique i u Hi Hu E1 Eu).
    + destruct (dnb p (v i) (v (S i))) eqn:E2.
      * apply dnb_spec in E2. rewrite (wn_edge_dn _ _ _ E2).
        destruct (Rlt_dec (IL (v i) (v (S i)) p) 0) as [H|]; [|reflexivity]. pose proof (Hin i Hi). lra.
      * apply wn_edge_none; [rewrite <- upb_spec|rewrite <- dnb_spec]; congruence.
Qed.

(* [G] points off the boundary that are not interior are not counted *)
Theorem wn_exterior : off_boundary -> ~ interior -> wn_sum p v n = 0%Z.
Proof.
  intros Hoff Hnot. unfold wn_sum.
  pose proof up_dn_balance as HUD.
  set (U := fun i => b2z (upb p (v i) (v (S i)))) in *. set (D := fun i => b2z (dnb p (v i) (v (S i)))) in *.
  assert (HD0 : forall i, (i < n)%nat -> (0 <= D i)%Z) by (intros i _; unfold D; destruct (dnb _ _ _); cbn; lia).
  destruct (bounded_search (fun i => upb p (v i) (v (S i))) n) as [(u & Hu & Eu)|Hnou].
  2:{ (* the line y = p_y misses the polygon *)
      assert (HU0 : sumZ U n = 0%Z) by (apply sumZ_zero; intros i Hi; unfold U; rewrite (Hnou i Hi); reflexivity).
      assert (Hnod : forall d, (d < n)%nat -> dnb p (v d) (v (S d)) = false).
      { intros d Hd. destruct (dnb p (v d) (v (S d))) eqn:E; [exfalso|reflexivity].
        pose proof (sumZ_ge D n d HD0 Hd) as H. unfold D at 1 in H. rewrite E in H. cbn in H. lia. }
      apply sumZ_zero. intros i Hi.
      apply wn_edge_none; [rewrite <- upb_spec; rewrite (Hnou i Hi)|rewrite <- dnb_spec; rewrite (Hnod i Hi)]; discriminate. }
  assert (HU1 : sumZ U n = 1%Z).
  { rewrite (sumZ_single U n u Hu); [unfold U; rewrite Eu; reflexivity|].
    intros i Hi Hne. unfold U. destruct (upb p (v i) (v (S i))) eqn:E; [exfalso|reflexivity].
    apply Hne. apply (up_unique i u Hi Hu); apply upb_spec; assumption. }
  destruct (bounded_search (fun i => dnb p (v i) (v (S i))) n) as [(d & Hd & Ed)|Hnod].
  2:{ exfalso. assert (sumZ D n = 0%Z) by (apply sumZ_zero; intros i Hi; unfold D; rewrite (Hnod i Hi); reflexivity). lia. }
  assert (Hud : u <> d) by (intros ->; exact (up_dn_excl _ _ Eu Ed)).
  rewrite (sumZ_two _ n u d Hu Hd Hud).
  2:{ intros i Hi H1 H2. apply wn_edge_none.
      - intros E. apply H1. apply (up_unique i u Hi Hu E). apply upb_spec. exact Eu.
      - intros E. apply H2. apply (dn_unique i d Hi Hd E). apply dnb_spec. exact Ed. }
  apply upb_spec in Eu. apply dnb_spec in Ed. rewrite (wn_edge_up _ _ _ Eu), (wn_edge_dn _ _ _ Ed).
  destruct Eu as [U1 U2]. destruct Ed as [D1 D2].
  (* the crossing point of the down edge is weakly left of the up edge *)
  pose proof (up_down_identity (X (v u)) (Y (v u)) (X (v (S u))) (Y (v (S u))) (X (v d)) (Y (v d)) (X (v (S d))) (Y (v (S d))) (X p) (Y p)) as Hid.
  pose proof (conv_weak u d) as W1. pose proof (conv_weak u (S d)) as W2. rewrite IL_Lf in W1, W2.
  assert (HR : 0 <= (Y p - Y (v (S d))) * Lf (X (v u)) (Y (v u)) (X (v (S u))) (Y (v (S u))) (X (v d)) (Y (v d)) +
                    (Y (v d) - Y p) * Lf (X (v u)) (Y (v u)) (X (v (S u))) (Y (v (S u))) (X (v (S d))) (Y (v (S d)))).
  { assert (0 <= (Y p - Y (v (S d))) * Lf (X (v u)) (Y (v u)) (X (v (S u))) (Y (v (S u))) (X (v d)) (Y (v d))) by (apply Rmult_le_pos; lra).
    assert (0 <= (Y (v d) - Y p) * Lf (X (v u)) (Y (v u)) (X (v (S u))) (Y (v (S u))) (X (v (S d))) (Y (v (S d)))) by (apply Rmult_le_pos; lra).
    lra. }
  rewrite <- Hid in HR. rewrite <- !IL_Lf in HR.
  set (lu := IL (v u) (v (S u)) p) in *. set (ld := IL (v d) (v (S d)) p) in *.
  set (tau := Y (v d) - Y (v (S d))) in *. set (s := Y (v (S u)) - Y (v u)) in *.
  assert (Htau : 0 < tau) by (unfold tau; lra). assert (Hs : 0 < s) by (unfold s; lra).
  destruct (Rlt_dec 0 lu) as [HLu|HLu]; destruct (Rlt_dec ld 0) as [HLd|HLd]; try reflexivity; exfalso.
  - (* p between the two crossing points: weakly left of every edge, hence interior or on the boundary *)
    assert (Hld : 0 <= ld) by lra.
    assert (HM : 0 < tau * lu + s * ld).
    { assert (0 < tau * lu) by (apply Rmult_lt_0_compat; lra). assert (0 <= s * ld) by (apply Rmult_le_pos; lra). lra. }
    assert (Hall : forall k, 0 <= IL (v k) (v (S k)) p).
    { intros k. destruct (Rle_lt_dec 0 (IL (v k) (v (S k)) p)) as [H|H]; [exact H|exfalso].
      pose proof (between_identity (X (v u)) (Y (v u)) (X (v (S u))) (Y (v (S u))) (X (v d)) (Y (v d)) (X (v (S d))) (Y (v (S d)))
                    (X (v k)) (Y (v k)) (X (v (S k))) (Y (v (S k))) (X p) (Y p)) as Hb.
      pose proof (conv_weak k u) as K1. pose proof (conv_weak k (S u)) as K2.
      pose proof (conv_weak k d) as K3. pose proof (conv_weak k (S d)) as K4.
      rewrite <- !IL_Lf in Hb. fold lu ld tau s in Hb.
      set (Lk := IL (v k) (v (S k)) p) in *.
      assert (T1 : 0 <= (Y p - Y (v (S d))) * IL (v k) (v (S k)) (v d) + (Y (v d) - Y p) * IL (v k) (v (S k)) (v (S d))).
      { assert (0 <= (Y p - Y (v (S d))) * IL (v k) (v (S k)) (v d)) by (apply Rmult_le_pos; lra).
        assert (0 <= (Y (v d) - Y p) * IL (v k) (v (S k)) (v (S d))) by (apply Rmult_le_pos; lra). lra. }
      assert (T2 : 0 <= (Y (v (S u)) - Y p) * IL (v k) (v (S k)) (v u) + (Y p - Y (v u)) * IL (v k) (v (S k)) (v (S u))).
      { assert (0 <= (Y (v (S u)) - Y p) * IL (v k) (v (S k)) (v u)) by (apply Rmult_le_pos; lra).
        assert (0 <= (Y p - Y (v u)) * IL (v k) (v (S k)) (v (S u))) by (apply Rmult_le_pos; lra). lra. }
      assert (R1 : 0 <= lu * ((Y p - Y (v (S d))) * IL (v k) (v (S k)) (v d) + (Y (v d) - Y p) * IL (v k) (v (S k)) (v (S d))))
        by (apply Rmult_le_pos; lra).
      assert (R2 : 0 <= ld * ((Y (v (S u)) - Y p) * IL (v k) (v (S k)) (v u) + (Y p - Y (v u)) * IL (v k) (v (S k)) (v (S u))))
        by (apply Rmult_le_pos; lra).
      assert (Lk * (tau * lu + s * ld) < 0).
      { replace (Lk * (tau * lu + s * ld)) with (- ((- Lk) * (tau * lu + s * ld))) by ring.
        assert (0 < (- Lk) * (tau * lu + s * ld)) by (apply Rmult_lt_0_compat; lra). lra. }
      lra. }
    destruct (bounded_search (fun k => negb (Rltb 0 (IL (v k) (v (S k)) p))) n) as [(k & Hk & Ek)|Hpos].
    + apply negb_true_iff in Ek. unfold Rltb in Ek. destruct (Rlt_dec 0 (IL (v k) (v (S k)) p)) as [|Hk0]; [discriminate|].
      assert (E0 : IL (v k) (v (S k)) p = 0) by (pose proof (Hall k); lra).
      apply (Hoff k Hk). destruct (v_pred k) as [P1 P2].
      apply (on_seg_from (v (k + n - 1)%nat) (v k) (v (S k)) (v (S (S k)))).
      * pose proof (conv_turn (k + n - 1)) as T. rewrite P1, P2 in T. exact T.
      * apply conv_turn.
      * exact E0.
      * pose proof (Hall (k + n - 1)%nat) as T. rewrite P1 in T. exact T.
      * apply Hall.
    + apply Hnot. intros k Hk. specialize (Hpos k Hk). apply negb_false_iff in Hpos. unfold Rltb in Hpos.
      destruct (Rlt_dec 0 (IL (v k) (v (S k)) p)); [assumption|discriminate].
  - (* p right of the up edge and left of the down edge: impossible, the down edge is on the left *)
    assert (tau * lu <= 0).
    { replace (tau * lu) with (- (tau * (- lu))) by ring. assert (0 <= tau * (- lu)) by (apply Rmult_le_pos; lra). lra. }
    assert (s * ld < 0).
    { replace (s * ld) with (- (s * (- ld))) by ring. assert (0 < s * (- ld)) by (apply Rmult_lt_0_compat; lra). lra. }
    lra.
Qed.

Lemma interior_dec : interior \/ ~ interior.
Proof.
  destruct (bounded_search (fun k => negb (Rltb 0 (IL (v k) (v (S k)) p))) n) as [(k & Hk & Ek)|Hpos].
  - right. intros H. specialize (H k Hk). apply negb_true_iff in Ek. unfold Rltb in Ek.
    destruct (Rlt_dec 0 (IL (v k) (v (S k)) p)); [discriminate|contradiction].
  - left. intros k Hk. specialize (Hpos k Hk). apply negb_false_iff in Hpos. unfold Rltb in Hpos.
    destruct (Rlt_dec 0 (IL (v k) (v (S k)) p)); [assumption|discriminate].
Qed.

(* [G] the count is 1 for interior points and 0 for every other point off the boundary *)
Theorem wn_convex_ccw_sum : off_boundary ->
  (interior -> wn_sum p v n = 1%Z) /\ (~ interior -> wn_sum p v n = 0%Z) /\ (wn_sum p v n <> 0%Z <-> interior).
Proof.
  intros Hoff. split; [exact wn_interior|]. split; [exact (wn_exterior Hoff)|]. split.
  - intros H. destruct interior_dec as [Hi|Hi]; [exact Hi|]. rewrite (wn_exterior Hoff Hi) in H. congruence.
  - intros Hi. rewrite (wn_interior Hi). discriminate.
Qed.
End Convex.

(* ================================================================ clockwise polygons: reverse the orientation *)
Lemma IL_swap a b q : IL b a q = - IL a b q.
Proof. rewrite !IL_Lf. unfold Lf. ring. Qed.

Lemma wn_edge_rev p a b : wn_edge Rops p b a = (- wn_edge Rops p a b)%Z.
Proof.
  destruct (upb p a b) eqn:E1; [|destruct (dnb p a b) eqn:E2].
  - apply upb_spec in E1. rewrite (wn_edge_up _ _ _ E1).
    assert (E : dnE p b a) by (unfold upE, dnE in *; lra). rewrite (wn_edge_dn _ _ _ E), IL_swap.
    destruct (Rlt_dec 0 (IL a b p)); destruct (Rlt_dec (- IL a b p) 0); try reflexivity; lra.
  - apply dnb_spec in E2. rewrite (wn_edge_dn _ _ _ E2).
    assert (E : upE p b a) by (unfold upE, dnE in *; lra). rewrite (wn_edge_up _ _ _ E), IL_swap.
    destruct (Rlt_dec (IL a b p) 0); destruct (Rlt_dec 0 (- IL a b p)); try reflexivity; lra.
  - assert (N1 : ~ upE p a b) by (rewrite <- upb_spec; congruence).
    assert (N2 : ~ dnE p a b) by (rewrite <- dnb_spec; congruence).
    rewrite (wn_edge_none p a b N1 N2). apply wn_edge_none; unfold upE, dnE in *; lra.
Qed.

Definition convex_cw (v : nat -> list R) (n : nat) : Prop :=
  (3 <= n)%nat /\ (forall i, v (i + n)%nat = v i) /\
  forall i k, (i < n)%nat -> (k < n)%nat -> k <> i -> k <> nx n i -> IL (v i) (v (nx n i)) (v k) < 0.

(* the same vertices in the opposite order *)
Definition rev_fun (v : nat -> list R) (n : nat) : nat -> list R := fun i => v (n - i mod n)%nat.

Section Clockwise.
Variables (v : nat -> list R) (n : nat) (p : list R).
Hypothesis Hcw : convex_cw v n.
Let Hn : (3 <= n)%nat. Proof. apply Hcw. Qed.
Let Hper : forall i, v (i + n)%nat = v i. Proof. apply Hcw. Qed.

Lemma rev_fun_small i : (i <= n)%nat -> rev_fun v n i = v (n - i)%nat.
Proof.
  intros Hi. unfold rev_fun. destruct (Nat.eq_dec i n) as [->|Hne].
  - rewrite Nat.mod_same by lia. rewrite Nat.sub_0_r, Nat.sub_diag. exact (Hper O).
  - rewrite Nat.mod_small by lia. reflexivity.
Qed.

Lemma rev_convex : convex_ccw (rev_fun v n) n.
Proof.
  split; [exact Hn|]. split.
  - intros i. unfold rev_fun. f_equal. f_equal. rewrite <- (Nat.mul_1_l n) at 1. apply Nat.mod_add. lia.
  - intros i k Hi Hk H1 H2. destruct Hcw as (_ & _ & Hs).
    assert (Enx : rev_fun v n (nx n i) = v (n - S i)%nat).
    { unfold nx. destruct (Nat.eqb_spec (S i) n) as [E|E].
      - rewrite rev_fun_small by lia. rewrite E, Nat.sub_0_r, Nat.sub_diag. exact (Hper O).
      - apply rev_fun_small. lia. }
    rewrite Enx, !rev_fun_small by lia. rewrite IL_swap.
    (* the edge n-1-i of v, its end point, and the vertex (n-k) mod n *)
    set (j := (n - S i)%nat).
    assert (Ej : v (n - i)%nat = v (nx n j)).
    { unfold nx, j. destruct (Nat.eqb_spec (S (n - S i)) n) as [E|E].
      - replace (n - i)%nat with n by lia. exact (Hper O).
      - f_equal. lia. }
    set (k0 := if Nat.eqb k 0 then O else (n - k)%nat).
    assert (Ek : v (n - k)%nat = v k0).
    { unfold k0. destruct (Nat.eqb_spec k 0) as [->|E]; [rewrite Nat.sub_0_r; exact (Hper O)|reflexivity]. }
    rewrite Ej, Ek.
    assert (HS : IL (v j) (v (nx n j)) (v k0) < 0).
    { apply Hs; unfold j, k0, nx in *.
      - lia.
      - destruct (Nat.eqb_spec k 0); lia.
      - destruct (Nat.eqb_spec k 0); destruct (Nat.eqb_spec (S i) n); lia.
      - destruct (Nat.eqb_spec k 0); destruct (Nat.eqb_spec (S i) n); destruct (Nat.eqb_spec (S (n - S i)) n); lia. }
    lra.
Qed.

Lemma rev_wn_sum : wn_sum p (rev_fun v n) n = (- wn_sum p v n)%Z.
Proof.
  unfold wn_sum. rewrite (sumZ_rev (fun i => wn_edge Rops p (v i) (v (S i))) n). rewrite <- sumZ_opp.
  apply sumZ_ext. intros i Hi. rewrite !rev_fun_small by lia. rewrite wn_edge_rev.
  replace (S (n - 1 - i)) with (n - i)%nat by lia. replace (n - S i)%nat with (n - 1 - i)%nat by lia. reflexivity.
Qed.

(* [G] clockwise: the count is -1 for points strictly right of every edge and 0 for every other point off the boundary *)
Theorem wn_convex_cw_sum :
  (forall i, (i < n)%nat -> ~ on_seg (v i) (v (S i)) p) ->
  let inside := forall i, (i < n)%nat -> IL (v i) (v (S i)) p < 0 in
  (inside -> wn_sum p v n = (-1)%Z) /\ (~ inside -> wn_sum p v n = 0%Z) /\ (wn_sum p v n <> 0%Z <-> inside).
Proof.
  intros Hoff inside.
  assert (Hoff' : off_boundary (rev_fun v n) n p).
  { intros i Hi [H1 H2]. rewrite !rev_fun_small in H1, H2 by lia. apply (Hoff (n - S i)%nat ltac:(lia)).
    replace (S (n - S i)) with (n - i)%nat by lia. split; [rewrite IL_swap in H1; lra|lra]. }
  assert (Hiff : interior (rev_fun v n) n p <-> inside).
  { split.
    - intros H i Hi. specialize (H (n - S i)%nat ltac:(lia)). rewrite !rev_fun_small in H by lia.
      replace (n - (n - S i))%nat with (S i) in H by lia. replace (n - S (n - S i))%nat with i in H by lia.
      rewrite IL_swap in H. lra.
    - intros H i Hi. rewrite !rev_fun_small by lia. rewrite IL_swap.
      specialize (H (n - S i)%nat ltac:(lia)). replace (S (n - S i)) with (n - i)%nat in H by lia. lra. }
  destruct (wn_convex_ccw_sum (rev_fun v n) n p rev_convex Hoff') as (A & B & C).
  rewrite rev_wn_sum in A, B, C. rewrite Hiff in A, B, C.
  split; [intros H; specialize (A H); lia|]. split; [intros H; specialize (B H); lia|].
  rewrite <- C. split; intros H; lia.
Qed.
End Clockwise.

(* ================================================================ polygons as lists (what wn_poly takes) *)
Lemma sumZ_shift f m : sumZ f (S m) = (f O + sumZ (fun i => f (S i)) m)%Z.
Proof. induction m as [|m IH]; [cbn; lia|]. cbn [sumZ] in *. rewrite IH. lia. Qed.

Lemma wn_count_sum p : forall l,
  wn_count Rops p l = sumZ (fun i => wn_edge Rops p (nth i l []) (nth (S i) l [])) (length l - 1).
Proof.
  induction l as [|a l IH]; [reflexivity|]. destruct l as [|b r]; [reflexivity|].
  change (wn_count Rops p (a :: b :: r)) with (wn_edge Rops p a b + wn_count Rops p (b :: r))%Z.
  rewrite IH. cbn [length]. replace (S (S (length r)) - 1)%nat with (S (length r)) by lia.
  replace (S (length r) - 1)%nat with (length r) by lia. rewrite sumZ_shift. reflexivity.
Qed.

(* v_0 .. v_{n-1} continued periodically *)
Definition poly_fun (pts : list (list R)) : nat -> list R := fun i => nth (i mod length pts) pts [].
(* the closed vertex list the code expects: vertices[n] = vertices[0] *)
Definition closed (pts : list (list R)) : list (list R) := pts ++ [nth 0 pts []].

Lemma poly_fun_small pts i : (i < length pts)%nat -> poly_fun pts i = nth i pts [].
Proof. intros H. unfold poly_fun. rewrite Nat.mod_small by exact H. reflexivity. Qed.

Lemma poly_fun_S pts i : (i < length pts)%nat -> poly_fun pts (S i) = nth (S i mod length pts) pts [].
Proof. reflexivity. Qed.

Lemma wn_count_closed p pts : (0 < length pts)%nat ->
  wn_count Rops p (closed pts) = wn_sum p (poly_fun pts) (length pts).
Proof.
  intros Hn. rewrite wn_count_sum. unfold closed, wn_sum. rewrite app_length. cbn [length].
  replace (length pts + 1 - 1)%nat with (length pts) by lia.
  apply sumZ_ext. intros i Hi. rewrite poly_fun_small by exact Hi. rewrite app_nth1 by exact Hi. f_equal.
  unfold poly_fun. destruct (Nat.eq_dec (S i) (length pts)) as [E|E].
  - rewrite E, Nat.mod_same by lia. rewrite app_nth2 by lia. rewrite Nat.sub_diag. reflexivity.
  - rewrite Nat.mod_small by lia. apply app_nth1. lia.
Qed.

(* strictly convex, counter-clockwise / clockwise: every vertex other than the end points of an edge is strictly left /
   right of that edge *)
Definition strictly_convex_ccw (pts : list (list R)) : Prop :=
  let n := length pts in
  (3 <= n)%nat /\ forall i k, (i < n)%nat -> (k < n)%nat -> k <> i -> k <> (S i mod n)%nat ->
    0 < IL (nth i pts []) (nth (S i mod n) pts []) (nth k pts []).
Definition strictly_convex_cw (pts : list (list R)) : Prop :=
  let n := length pts in
  (3 <= n)%nat /\ forall i k, (i < n)%nat -> (k < n)%nat -> k <> i -> k <> (S i mod n)%nat ->
    IL (nth i pts []) (nth (S i mod n) pts []) (nth k pts []) < 0.
(* p is on no edge (closed segments) *)
Definition off_boundary_list (pts : list (list R)) (p : list R) : Prop :=
  let n := length pts in
  forall i, (i < n)%nat -> ~ on_seg (nth i pts []) (nth (S i mod n) pts []) p.

Lemma nx_mod n i : (i < n)%nat -> nx n i = (S i mod n)%nat.
Proof.
  intros Hi. unfold nx. destruct (Nat.eqb_spec (S i) n) as [E|E].
  - rewrite E, Nat.mod_same by lia. reflexivity.
  - rewrite Nat.mod_small by lia. reflexivity.
Qed.

Lemma poly_fun_per pts i : (0 < length pts)%nat -> poly_fun pts (i + length pts) = poly_fun pts i.
Proof.
  intros Hn. unfold poly_fun. f_equal. rewrite <- (Nat.mul_1_l (length pts)) at 1. apply Nat.mod_add. lia.
Qed.

Lemma ccw_list_fun pts : strictly_convex_ccw pts -> convex_ccw (poly_fun pts) (length pts).
Proof.
  intros [Hn Hs]. split; [exact Hn|]. split; [intros i; apply poly_fun_per; lia|].
  intros i k Hi Hk H1 H2. rewrite (nx_mod _ _ Hi) in *.
  assert (Hm : (S i mod length pts < length pts)%nat) by (apply Nat.mod_upper_bound; lia).
  rewrite !poly_fun_small by assumption. apply Hs; assumption.
Qed.

Lemma cw_list_fun pts : strictly_convex_cw pts -> convex_cw (poly_fun pts) (length pts).
Proof.
  intros [Hn Hs]. split; [exact Hn|]. split; [intros i; apply poly_fun_per; lia|].
  intros i k Hi Hk H1 H2. rewrite (nx_mod _ _ Hi) in *.
  assert (Hm : (S i mod length pts < length pts)%nat) by (apply Nat.mod_upper_bound; lia).
  rewrite !poly_fun_small by assumption. apply Hs; assumption.
Qed.

(* [G] convex counter-clockwise polygons: for every point off the boundary the winding test is true exactly for the points
   strictly left of every edge; the count itself is 1 / 0 *)
Theorem wn_poly_convex_ccw (pts : list (list R)) (p : list R) :
  strictly_convex_ccw pts -> off_boundary_list pts p ->
  let n := length pts in
  let inside := forall i, (i < n)%nat -> 0 < IL (nth i pts []) (nth (S i mod n) pts []) p in
  (wn_poly Rops p (closed pts) = true <-> inside) /\
  (inside -> wn_count Rops p (closed pts) = 1%Z) /\ (~ inside -> wn_count Rops p (closed pts) = 0%Z).
Proof.
  intros Hc Hoff n inside. pose proof Hc as [Hn _].
  assert (Hoff' : off_boundary (poly_fun pts) (length pts) p).
  { intros i Hi. rewrite poly_fun_small by exact Hi. apply Hoff. exact Hi. }
  assert (Hiff : interior (poly_fun pts) (length pts) p <-> inside).
  { split; intros H i Hi; specialize (H i Hi); rewrite poly_fun_small in * by exact Hi; exact H. }
  destruct (wn_convex_ccw_sum _ _ p (ccw_list_fun pts Hc) Hoff') as (A & B & C).
  rewrite <- (wn_count_closed p pts) in A, B, C by lia. rewrite Hiff in A, B, C.
  split; [|split; assumption]. rewrite <- C. unfold wn_poly. rewrite negb_true_iff, Z.eqb_neq. reflexivity.
Qed.
Print Assumptions wn_poly_convex_ccw.

(* [G] convex clockwise polygons: true exactly for the points strictly right of every edge; the count is -1 / 0 *)
Theorem wn_poly_convex_cw (pts : list (list R)) (p : list R) :
  strictly_convex_cw pts -> off_boundary_list pts p ->
  let n := length pts in
  let inside := forall i, (i < n)%nat -> IL (nth i pts []) (nth (S i mod n) pts []) p < 0 in
  (wn_poly Rops p (closed pts) = true <-> inside) /\
  (inside -> wn_count Rops p (closed pts) = (-1)%Z) /\ (~ inside -> wn_count Rops p (closed pts) = 0%Z).
Proof.
  intros Hc Hoff n inside. pose proof Hc as [Hn _].
  assert (Hoff' : forall i, (i < length pts)%nat -> ~ on_seg (poly_fun pts i) (poly_fun pts (S i)) p).
  { intros i Hi. rewrite poly_fun_small by exact Hi. apply Hoff. exact Hi. }
  destruct (wn_convex_cw_sum _ _ p (cw_list_fun pts Hc) Hoff') as (A & B & C).
  assert (Hiff : (forall i, (i < length pts)%nat -> IL (poly_fun pts i) (poly_fun pts (S i)) p < 0) <-> inside).
  { split; intros H i Hi; specialize (H i Hi); rewrite poly_fun_small in * by exact Hi; exact H. }
  rewrite <- (wn_count_closed p pts) in A, B, C by lia. rewrite Hiff in A, B, C.
  split; [|split; assumption]. rewrite <- C. unfold wn_poly. rewrite negb_true_iff, Z.eqb_neq. reflexivity.
Qed.
Print Assumptions wn_poly_convex_cw.

(* ================================================================ triangles (n = 3), both orientations *)
Lemma IL_rot a b c : IL b c a = IL a b c /\ IL c a b = IL a b c.
Proof. rewrite !IL_Lf. unfold Lf. split; ring. Qed.

Lemma forall_lt3 (P : nat -> Prop) : (forall i, (i < 3)%nat -> P i) <-> P 0%nat /\ P 1%nat /\ P 2%nat.
Proof.
  split; [intros H; repeat split; apply H; lia|]. intros (H0 & H1 & H2) i Hi.
  destruct i as [|[|[|i]]]; try assumption; lia.
Qed.

Lemma triangle_ccw a b c : 0 < IL a b c -> strictly_convex_ccw [a; b; c].
Proof.
  intros H. destruct (IL_rot a b c) as [R1 R2]. split; [cbn; lia|]. cbn [length].
  intros i k Hi Hk H1 H2.
  destruct i as [|[|[|i]]]; try lia; destruct k as [|[|[|k]]]; try lia;
    try (exfalso; apply H1; reflexivity); try (exfalso; apply H2; reflexivity); cbn [nth Nat.modulo Nat.divmod fst snd Nat.sub]; lra.
Qed.

Lemma triangle_cw a b c : IL a b c < 0 -> strictly_convex_cw [a; b; c].
Proof.
  intros H. destruct (IL_rot a b c) as [R1 R2]. split; [cbn; lia|]. cbn [length].
  intros i k Hi Hk H1 H2.
  destruct i as [|[|[|i]]]; try lia; destruct k as [|[|[|k]]]; try lia;
    try (exfalso; apply H1; reflexivity); try (exfalso; apply H2; reflexivity); cbn [nth Nat.modulo Nat.divmod fst snd Nat.sub]; lra.
Qed.

(* [G] every non-degenerate triangle, either orientation, every point not on one of the three closed edges:
   the winding test is true exactly when the point is strictly on the inner side of all three edges *)
Theorem wn_triangle (a b c p : list R) : IL a b c <> 0 ->
  ~ on_seg a b p -> ~ on_seg b c p -> ~ on_seg c a p ->
  (wn_poly Rops p [a; b; c; a] = true <->
   (0 < IL a b c /\ 0 < IL a b p /\ 0 < IL b c p /\ 0 < IL c a p) \/
   (IL a b c < 0 /\ IL a b p < 0 /\ IL b c p < 0 /\ IL c a p < 0)).
Proof.
  intros Hnd S1 S2 S3.
  assert (Hoff : off_boundary_list [a; b; c] p).
  { unfold off_boundary_list. cbn [length]. apply forall_lt3. cbn [nth Nat.modulo Nat.divmod fst snd Nat.sub]. auto. }
  change [a; b; c; a] with (closed [a; b; c]).
  destruct (Rtotal_order (IL a b c) 0) as [H|[H|H]]; [|contradiction|].
  - destruct (wn_poly_convex_cw [a; b; c] p (triangle_cw a b c H) Hoff) as [W _]. cbv zeta in W. cbn [length] in W.
    rewrite W, forall_lt3. cbn [nth Nat.modulo Nat.divmod fst snd Nat.sub]. split.
    + intros (A & B & C). right. auto.
    + intros [(A & _)|(_ & A & B & C)]; [lra|auto].
  - destruct (wn_poly_convex_ccw [a; b; c] p (triangle_ccw a b c H) Hoff) as [W _]. cbv zeta in W. cbn [length] in W.
    rewrite W, forall_lt3. cbn [nth Nat.modulo Nat.divmod fst snd Nat.sub]. split.
    + intros (A & B & C). left. auto.
    + intros [(_ & A & B & C)|(A & _)]; [auto|lra].
Qed.
Print Assumptions wn_triangle.

(* the count itself: +1 / -1 inside (by orientation), 0 outside *)
Corollary wn_triangle_count (a b c p : list R) : IL a b c <> 0 ->
  ~ on_seg a b p -> ~ on_seg b c p -> ~ on_seg c a p ->
  (0 < IL a b c -> (0 < IL a b p /\ 0 < IL b c p /\ 0 < IL c a p -> wn_count Rops p [a; b; c; a] = 1%Z) /\
                   (~ (0 < IL a b p /\ 0 < IL b c p /\ 0 < IL c a p) -> wn_count Rops p [a; b; c; a] = 0%Z)) /\
  (IL a b c < 0 -> (IL a b p < 0 /\ IL b c p < 0 /\ IL c a p < 0 -> wn_count Rops p [a; b; c; a] = (-1)%Z) /\
                   (~ (IL a b p < 0 /\ IL b c p < 0 /\ IL c a p < 0) -> wn_count Rops p [a; b; c; a] = 0%Z)).
Proof.
  intros Hnd S1 S2 S3.
  assert (Hoff : off_boundary_list [a; b; c] p).
  { unfold off_boundary_list. cbn [length]. apply forall_lt3. cbn [nth Nat.modulo Nat.divmod fst snd Nat.sub]. auto. }
  change [a; b; c; a] with (closed [a; b; c]). split; intros H.
  - destruct (wn_poly_convex_ccw [a; b; c] p (triangle_ccw a b c H) Hoff) as (_ & W1 & W0). cbv zeta in W1, W0.
    cbn [length] in W1, W0. rewrite forall_lt3 in W1, W0. cbn [nth Nat.modulo Nat.divmod fst snd Nat.sub] in W1, W0. auto.
  - destruct (wn_poly_convex_cw [a; b; c] p (triangle_cw a b c H) Hoff) as (_ & W1 & W0). cbv zeta in W1, W0.
    cbn [length] in W1, W0. rewrite forall_lt3 in W1, W0. cbn [nth Nat.modulo Nat.divmod fst snd Nat.sub] in W1, W0. auto.
Qed.

(* ================================================================ instances *)
Ltac il_eval := rewrite ?IL_Lf; unfold Lf, cx, cy; cbn [nth Rops o0]; lra.
Ltac wn_edge_eval :=
  unfold wn_edge, is_left, cx, cy; cbn [nth]; cbn [oleb oltb oadd osub omul o0 Rops]; unfold Rleb, Rltb;
  repeat match goal with |- context [Rle_dec ?a ?b] => destruct (Rle_dec a b) | |- context [Rlt_dec ?a ?b] => destruct (Rlt_dec a b) end;
  try reflexivity; exfalso; lra.

(* the hypotheses are satisfiable: a convex quadrilateral that is not axis-parallel, an interior and an exterior point *)
Definition exQuad : list (list R) := [[0; 0]; [4; 1]; [5; 4]; [1; 3]].
Example convex_quad_instance :
  strictly_convex_ccw exQuad /\ off_boundary_list exQuad [2; 2] /\ off_boundary_list exQuad [5; 1] /\
  wn_poly Rops [2; 2] (closed exQuad) = true /\ wn_poly Rops [5; 1] (closed exQuad) = false.
Proof.
  unfold exQuad.
  assert (Hc : strictly_convex_ccw [[0; 0]; [4; 1]; [5; 4]; [1; 3]]).
  { split; [cbn; lia|]. cbn [length]. intros i k Hi Hk H1 H2.
    destruct i as [|[|[|[|i]]]]; try lia; destruct k as [|[|[|[|k]]]]; try lia;
      try (exfalso; apply H1; reflexivity); try (exfalso; apply H2; reflexivity);
      cbn [nth Nat.modulo Nat.divmod fst snd Nat.sub]; il_eval. }
  assert (H1 : off_boundary_list [[0; 0]; [4; 1]; [5; 4]; [1; 3]] [2; 2]).
  { unfold off_boundary_list. cbn [length]. intros i Hi [E _].
    destruct i as [|[|[|[|i]]]]; try lia; cbn [nth Nat.modulo Nat.divmod fst snd Nat.sub] in E; revert E; il_eval. }
  assert (H2 : off_boundary_list [[0; 0]; [4; 1]; [5; 4]; [1; 3]] [5; 1]).
  { unfold off_boundary_list. cbn [length]. intros i Hi [E _].
    destruct i as [|[|[|[|i]]]]; try lia; cbn [nth Nat.modulo Nat.divmod fst snd Nat.sub] in E; revert E; il_eval. }
  split; [exact Hc|]. split; [exact H1|]. split; [exact H2|].
  destruct (wn_poly_convex_ccw _ [2; 2] Hc H1) as [W1 _]. destruct (wn_poly_convex_ccw _ [5; 1] Hc H2) as [W2 _].
  cbv zeta in W1, W2. cbn [length] in W1, W2. split.
  - apply W1. intros i Hi. destruct i as [|[|[|[|i]]]]; try lia; cbn [nth Nat.modulo Nat.divmod fst snd Nat.sub]; il_eval.
  - destruct (wn_poly Rops [5; 1] (closed _)) eqn:E; [exfalso|reflexivity].
    destruct W2 as [W2 _]. specialize (W2 eq_refl 0%nat ltac:(lia)). cbn [nth Nat.modulo Nat.divmod fst snd Nat.sub] in W2.
    revert W2. il_eval.
Qed.

(* strict left turns at all consecutive triples do NOT make a polygon convex and do not give the characterisation:
   the pentagram (0,0) (5,3) (-1,3) (4,0) (2,5) turns left at every vertex, the point (1,1) lies in one of its tips, is off
   the boundary, is accepted by the winding test (count 1) and is strictly RIGHT of the edge (-1,3) -> (4,0) *)
Definition exStar : list (list R) := [[0; 0]; [5; 3]; [-1; 3]; [4; 0]; [2; 5]].
Example local_left_turns_insufficient :
  let n := length exStar in
  (forall i, (i < n)%nat -> 0 < IL (nth i exStar []) (nth (S i mod n) exStar []) (nth (S (S i) mod n) exStar [])) /\
  off_boundary_list exStar [1; 1] /\
  wn_poly Rops [1; 1] (closed exStar) = true /\
  ~ (forall i, (i < n)%nat -> 0 < IL (nth i exStar []) (nth (S i mod n) exStar []) [1; 1]).
Proof.
  unfold exStar. cbv zeta. cbn [length]. split; [|split; [|split]].
  - intros i Hi. destruct i as [|[|[|[|[|i]]]]]; try lia; cbn [nth Nat.modulo Nat.divmod fst snd Nat.sub]; il_eval.
  - unfold off_boundary_list. cbn [length]. intros i Hi [E _].
    destruct i as [|[|[|[|[|i]]]]]; try lia; cbn [nth Nat.modulo Nat.divmod fst snd Nat.sub] in E; revert E; il_eval.
  - unfold wn_poly, closed. cbn [app nth wn_count].
    replace (wn_edge Rops [1; 1] [0; 0] [5; 3]) with 1%Z by (symmetry; wn_edge_eval).
    replace (wn_edge Rops [1; 1] [5; 3] [-1; 3]) with 0%Z by (symmetry; wn_edge_eval).
    replace (wn_edge Rops [1; 1] [-1; 3] [4; 0]) with (-1)%Z by (symmetry; wn_edge_eval).
    replace (wn_edge Rops [1; 1] [4; 0] [2; 5]) with 1%Z by (symmetry; wn_edge_eval).
    replace (wn_edge Rops [1; 1] [2; 5] [0; 0]) with 0%Z by (symmetry; wn_edge_eval).
    reflexivity.
  - intros H. specialize (H 2%nat ltac:(lia)). cbn [nth Nat.modulo Nat.divmod fst snd Nat.sub] in H. revert H. il_eval.
Qed.
