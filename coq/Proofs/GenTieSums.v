(* Sums: the Python code adds from the left starting at 0 (prod += ..., sum([...]), mat3[i][j] += ...), the model's sumT
   adds from the right ending in 0.  The two agree under a few laws of addition, stated as the record sum_laws and
   proved for the two instances Rops and Qops (at Qops as LEIBNIZ equalities: every operation ends in Qred). *)
From Coq Require Import List ZArith Arith Bool Lia QArith Qreals Reals Lra.
From NV Require Import Scalar.Ops Model.Common Gen.Prelude Proofs.GenTieLib.
Import ListNotations.
Local Open Scope nat_scope.

Record sum_laws {T : Type} (K : ops T) : Prop := mkSumLaws {
  sl_assoc : forall x y z, oadd K x (oadd K y z) = oadd K (oadd K x y) z;
  sl_0_comm : forall x, oadd K (o0 K) x = oadd K x (o0 K);
  sl_sum_0 : forall x y, oadd K (oadd K x y) (o0 K) = oadd K x y;
  sl_0_0 : oadd K (o0 K) (o0 K) = o0 K;
  sl_mul_0 : forall x, omul K x (o0 K) = o0 K;
  sl_div_sub_0 : forall x d, odiv K (osub K x (o0 K)) d = odiv K x d }.

Lemma Rops_sum_laws : sum_laws Rops.
Proof. constructor; intros; rsimp; try lra. Qed.

Lemma Qops_sum_laws : sum_laws Qops.
Proof.
  constructor; intros; cbn [oadd omul o0 Qops].
  - apply Qred_complete; rewrite ?Qred_correct; ring.
  - apply Qred_complete; ring.
  - apply Qred_complete; rewrite ?Qred_correct; ring.
  - reflexivity.
  - transitivity (Qred 0); [apply Qred_complete; ring|reflexivity].
  - apply Qred_complete. unfold Qdiv. rewrite (Qred_correct (x - 0)). ring.
Qed.

Section Sums.
Context {T : Type} (K : ops T) (LW : sum_laws K).
Notation "0" := (o0 K).

Lemma fold_add_sumT : forall (l : list T) a, l <> [] -> fold_left (oadd K) l a = oadd K a (sumT K l).
Proof.
  induction l as [|t [|t' r] IH]; intros a Hne; [congruence| |].
  - simpl. now rewrite (sl_assoc K LW), (sl_sum_0 K LW).
  - change (fold_left (oadd K) (t' :: r) (oadd K a t) = oadd K a (oadd K t (sumT K (t' :: r)))).
    rewrite IH by congruence. now rewrite (sl_assoc K LW).
Qed.

(* sum([...]) = the model's sumT *)
Lemma gsum_sumT (l : list T) : gsum K l = sumT K l.
Proof.
  unfold gsum. destruct l as [|t r]; [reflexivity|].
  rewrite fold_add_sumT by congruence. rewrite (sl_0_comm K LW). simpl. apply (sl_sum_0 K LW).
Qed.

(* a leading 0 term does not change a sum from the left *)
Lemma gsum_cons_0 (l : list T) : gsum K (0 :: l) = gsum K l.
Proof. unfold gsum. simpl. now rewrite (sl_0_0 K LW). Qed.

Lemma fold_right_seq_rev {A} (f : nat -> A -> A) : forall n a,
  fold_right f a (seq 0 n) = fold_left (fun acc k => f (n - 1 - k) acc) (seq 0 n) a.
Proof.
  induction n; intros a; [reflexivity|].
  rewrite seq_S at 1. rewrite fold_right_app. cbn [fold_right Nat.add]. rewrite IHn.
  cbn [seq fold_left]. rewrite <- seq_shift.
  replace (S n - 1 - 0) with n by lia.
  generalize (f n a). generalize (seq 0 n). induction l as [|k l IHl]; intros x; cbn [fold_left map]; auto.
  replace (S n - 1 - S k) with (n - 1 - k) by lia. apply IHl.
Qed.

(* an accumulation loop  acc = acc + f x  over a list *)
Lemma fold_acc_sumT {A} (f : A -> T) (l : list A) :
  fold_left (fun acc x => oadd K acc (f x)) l 0 = sumT K (map f l).
Proof.
  rewrite <- gsum_sumT. unfold gsum. generalize 0. induction l; simpl; auto.
Qed.
End Sums.
