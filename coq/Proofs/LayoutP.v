(* C13: lemmas about Model.Layout.  Pure nat / list reasoning (lia, nia, list induction); no axioms. *)
From Coq Require Import List Arith Bool Lia PeanoNat.
From NV Require Import Model.Common Model.Layout.
Import ListNotations.

(* ------------------------------------------------------------------ generic list facts *)
Lemma nth_map_seq {B} (f : nat -> B) n i dflt : i < n -> nth i (map f (seq 0 n)) dflt = f i.
Proof.
  intros H. rewrite nth_indep with (d' := f 0) by (rewrite map_length, seq_length; exact H).
  rewrite map_nth. rewrite seq_nth by exact H. reflexivity.
Qed.

Lemma upd_length {B} (l : list B) i x : length (upd l i x) = length l.
Proof. revert i; induction l as [|y r IH]; intros [|i]; simpl; auto. Qed.

Lemma upd_app_here {B} (pre : list B) a r x : upd (pre ++ a :: r) (length pre) x = pre ++ x :: r.
Proof. induction pre as [|y p IH]; simpl; [reflexivity|]. rewrite IH. reflexivity. Qed.

Lemma nth_upd_same {B} (l : list B) i x dflt : i < length l -> nth i (upd l i x) dflt = x.
Proof. revert i; induction l as [|y r IH]; intros [|i] H; simpl in *; try lia; auto. apply IH. lia. Qed.

Lemma nth_upd_other {B} (l : list B) i j x dflt : i <> j -> nth j (upd l i x) dflt = nth j l dflt.
Proof.
  revert i j; induction l as [|y r IH]; intros [|i] [|j] H; simpl; auto; try lia.
Qed.

Lemma divmod_decomp n b : 0 < b -> n = n mod b + b * (n / b).
Proof. intros H. rewrite (Nat.div_mod n b) at 1 by lia. lia. Qed.

(* ------------------------------------------------------------------ tab2 / tab3 *)
Section T.
Context {B : Type} (d : B).

Lemma tab2_S a b (g : nat -> nat -> B) : tab2 (S a) b g = tab2 a b g ++ map (g a) (seq 0 b).
Proof. unfold tab2. rewrite seq_S, flat_map_app. simpl. rewrite app_nil_r. reflexivity. Qed.

Lemma tab2_length a b (g : nat -> nat -> B) : length (tab2 a b g) = a * b.
Proof.
  induction a as [|a IH]; [reflexivity|].
  rewrite tab2_S, app_length, IH, map_length, seq_length. lia.
Qed.

Lemma nth_tab2 a b (g : nat -> nat -> B) i j : i < a -> j < b -> nth (j + b * i) (tab2 a b g) d = g i j.
Proof.
  induction a as [|a IH]; intros Hi Hj; [lia|].
  rewrite tab2_S. destruct (Nat.eq_dec i a) as [->|Hne].
  - rewrite app_nth2 by (rewrite tab2_length; nia).
    rewrite tab2_length. replace (j + b * a) with (j + a * b) by ring. rewrite Nat.add_sub.
    apply nth_map_seq. exact Hj.
  - rewrite app_nth1 by (rewrite tab2_length; nia). apply IH; lia.
Qed.

Lemma tab2_eq a b (g : nat -> nat -> B) (P : list B) :
  length P = a * b -> (forall i j, i < a -> j < b -> nth (j + b * i) P d = g i j) -> tab2 a b g = P.
Proof.
  intros HL H. apply nth_ext with (d := d) (d' := d); [rewrite tab2_length; lia|].
  intros n Hn. rewrite tab2_length in Hn.
  assert (Hb : 0 < b) by nia.
  assert (Hq : n / b < a) by (apply Nat.div_lt_upper_bound; nia).
  assert (Hr : n mod b < b) by (apply Nat.mod_upper_bound; lia).
  rewrite (divmod_decomp n b Hb) at 1 2.
  rewrite nth_tab2 by assumption. symmetry. apply H; assumption.
Qed.

Lemma tab2_ext a b (g h : nat -> nat -> B) :
  (forall i j, i < a -> j < b -> g i j = h i j) -> tab2 a b g = tab2 a b h.
Proof.
  intros H. apply tab2_eq; [apply tab2_length|].
  intros i j Hi Hj. rewrite nth_tab2 by assumption. symmetry. apply H; assumption.
Qed.

Lemma tab2_nth_id a b (P : list B) : length P = a * b -> tab2 a b (fun i j => nth (j + b * i) P d) = P.
Proof. intros H. apply tab2_eq; auto. Qed.

Lemma tab3_S a b c (g : nat -> nat -> nat -> B) : tab3 (S a) b c g = tab3 a b c g ++ tab2 b c (g a).
Proof. unfold tab3. rewrite seq_S, flat_map_app. simpl. rewrite app_nil_r. reflexivity. Qed.

Lemma tab3_length a b c (g : nat -> nat -> nat -> B) : length (tab3 a b c g) = a * b * c.
Proof.
  induction a as [|a IH]; [reflexivity|].
  rewrite tab3_S, app_length, IH, tab2_length. lia.
Qed.

Lemma nth_tab3 a b c (g : nat -> nat -> nat -> B) i j k :
  i < a -> j < b -> k < c -> nth (k + c * (j + b * i)) (tab3 a b c g) d = g i j k.
Proof.
  induction a as [|a IH]; intros Hi Hj Hk; [lia|].
  rewrite tab3_S. destruct (Nat.eq_dec i a) as [->|Hne].
  - rewrite app_nth2 by (rewrite tab3_length; nia).
    rewrite tab3_length. replace (k + c * (j + b * a)) with (k + c * j + a * b * c) by ring.
    rewrite Nat.add_sub.
    apply nth_tab2; assumption.
  - assert (Hm : j + b * i < a * b) by nia.
    rewrite app_nth1 by (rewrite tab3_length; nia). apply IH; lia.
Qed.

Lemma tab3_eq a b c (g : nat -> nat -> nat -> B) (P : list B) :
  length P = a * b * c ->
  (forall i j k, i < a -> j < b -> k < c -> nth (k + c * (j + b * i)) P d = g i j k) -> tab3 a b c g = P.
Proof.
  intros HL H. apply nth_ext with (d := d) (d' := d); [rewrite tab3_length; lia|].
  intros n Hn. rewrite tab3_length in Hn.
  assert (Hc : 0 < c) by nia. assert (Hb : 0 < b) by nia.
  set (k := n mod c). set (m := n / c).
  assert (Hk : k < c) by (apply Nat.mod_upper_bound; lia).
  assert (Hm : m < a * b) by (apply Nat.div_lt_upper_bound; nia).
  set (j := m mod b). set (i := m / b).
  assert (Hj : j < b) by (apply Nat.mod_upper_bound; lia).
  assert (Hi : i < a) by (apply Nat.div_lt_upper_bound; nia).
  assert (En : n = k + c * (j + b * i)).
  { unfold k, j, i. rewrite <- (divmod_decomp m b Hb). unfold m. apply divmod_decomp. exact Hc. }
  rewrite En. rewrite nth_tab3 by assumption. symmetry. apply H; assumption.
Qed.

Lemma tab3_ext a b c (g h : nat -> nat -> nat -> B) :
  (forall i j k, i < a -> j < b -> k < c -> g i j k = h i j k) -> tab3 a b c g = tab3 a b c h.
Proof.
  intros H. apply tab3_eq; [apply tab3_length|].
  intros i j k Hi Hj Hk. rewrite nth_tab3 by assumption. symmetry. apply H; assumption.
Qed.
End T.
