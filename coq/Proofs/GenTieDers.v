(* Tie: generated helpers.basis_function_ders (A2.3) = Model/Basis.v basis_function_ders, for every scalar instance.
   See Proofs/GenTieDersLib.v for the route. *)
From Coq Require Import List ZArith Arith Bool Lia QArith.
From NV Require Import Scalar.Ops Model.Common Model.Basis Gen.Prelude Gen.Helpers Proofs.GenTieLib Proofs.GenTieBasisOne
  Proofs.GenTieDersLib.
Import ListNotations.
Local Open Scope nat_scope.

Lemma nth_map_seq_gen {B} (f : nat -> B) a n i d : i < n -> nth i (map f (seq a n)) d = f (a + i).
Proof.
  intros H. rewrite (nth_indep _ d (f O)) by (now rewrite map_length, seq_length).
  rewrite (map_nth f (seq a n) O i). now rewrite seq_nth.
Qed.

Ltac sc := first [assumption | apply wfm_set2; assumption | lia].

Section Tie.
Context {T : Type} (K : ops T).
Notation kn := (kn K).
Notation "0" := (o0 K).
Notation g2 := (get2 K).

(* wf: degree <= span + 1, span + degree < len(knot_vector) (as for basis_function) and order <= degree
   (ders has min(degree, order) + 1 rows; for order > degree the Python code raises IndexError or wraps around) *)
Theorem basis_function_ders_tie (p : nat) (U : list T) (sp : nat) (u : T) (order : nat) :
  p <= sp + 1 -> sp + p < length U -> order <= p ->
  Helpers.basis_function_ders K (Z.of_nat p) U (Z.of_nat sp) u (Z.of_nat order) =
  GOk (Basis.basis_function_ders K p U sp u order).
Proof.
  intros Hp Hl Ho. unfold Helpers.basis_function_ders, Basis.basis_function_ders.
  replace (Z.of_nat order + 1)%Z with (Z.of_nat (S order)) by lia.
  replace (Z.of_nat p + 1)%Z with (Z.of_nat (S p)) by lia.
  replace (zmin (Z.of_nat p) (Z.of_nat order) + 1)%Z with (Z.of_nat (S order))
    by (unfold zmin; destruct (Z.ltb_spec (Z.of_nat order) (Z.of_nat p)); lia).
  rewrite !map_const_zrange, !Nat2Z.id, !zrange_0_nat, !zrange_1_nat.
  change (Z.to_nat 2) with 2.
  cbv zeta.
  fold (mk2 (S p) (S p) (o1 K)) (mk2 (S order) (S p) 0) (mk2 2 (S p) (o1 K)).
  remember (ndu_table K p U sp u) as ndu eqn:Endu. unfold ndu_table in Endu.
  (* ---------------- phase 1: the ndu table ---------------- *)
  match goal with |- context [gfor (map Z.of_nat (seq 1 p)) ?ff ?s0] =>
    match type of Endu with context [fold_left ?gg (seq 1 p) ?s0'] =>
      destruct (gfor_seq_fold (fun j (a : list T * list T * list (list T)) (b : list (list T)) =>
                    snd a = b /\ wfm (S p) (S p) b /\ length (fst (fst a)) = S p /\ length (snd (fst a)) = S p
                    /\ (forall k, 1 <= k < j -> nth k (fst (fst a)) 0 = left K U sp u k /\ nth k (snd (fst a)) 0 = right K U sp u k))
                  ff gg p 1)
        with (s := s0) (s' := s0') as ([[L1 R1] nd1] & E1 & End1 & Wndu & _)
    end
  end.
  { intros j [[L R] nd] ndM Hj (E & HW & HL & HR & HLR). cbn [fst snd] in E, HL, HR, HLR. subst ndM. cbn [gbind].
    rewrite !(znth_Z U _ 0) by lia. cbn [gbind].
    rewrite !zset_Z by lia. cbn [gbind].
    replace (Z.to_nat (Z.of_nat sp + 1 - Z.of_nat j)) with (sp + 1 - j) by lia.
    replace (Z.to_nat (Z.of_nat sp + Z.of_nat j)) with (sp + j) by lia.
    rewrite !Nat2Z.id. fold (kn U (sp + 1 - j)) (kn U (sp + j)).
    set (L' := upd L j (osub K u (kn U (sp + 1 - j)))).
    set (R' := upd R j (osub K (kn U (sp + j)) u)).
    assert (HL' : length L' = S p) by (subst L'; now rewrite upd_length).
    assert (HR' : length R' = S p) by (subst R'; now rewrite upd_length).
    assert (HLR' : forall k, 1 <= k < S j -> nth k L' 0 = left K U sp u k /\ nth k R' 0 = right K U sp u k).
    { intros k Hk. destruct (Nat.eq_dec k j) as [->|Hne].
      - subst L' R'. rewrite !nth_upd_same by lia. split; reflexivity.
      - subst L' R'. rewrite !nth_upd_other by lia. apply HLR; lia. }
    rewrite zrange_0_nat.
    match goal with |- context [gfor (map Z.of_nat (seq O j)) ?ff ?s0] =>
      match goal with |- context [fold_left ?gg (seq O j) ?s0'] =>
        destruct (gfor_seq_fold (fun (_ : nat) (a b : list (list T) * T) => a = b /\ wfm (S p) (S p) (fst b)) ff gg j O)
          with (s := s0) (s' := s0') as ([nd2 sv2] & E2 & End2 & W2)
      end
    end.
    { intros r [ndr sv] b Hr (<- & HWr). cbn [fst] in HWr. cbn [gbind].
      rewrite (znth_Z R' _ 0) by lia. cbn [gbind]. rewrite (znth_Z L' _ 0) by lia. cbn [gbind].
      replace (Z.to_nat (Z.of_nat r + 1)) with (S r) by lia.
      replace (Z.to_nat (Z.of_nat j - Z.of_nat r)) with (j - r) by lia.
      destruct (HLR' (S r)) as [_ ER]; [lia|]. destruct (HLR' (j - r)) as [EL _]; [lia|]. rewrite ER, EL.
      set (D := oadd K (right K U sp u (S r)) (left K U sp u (j - r))).
      rewrite (zset2k (S p) (S p) ndr) by (try assumption; lia). rewrite !Nat2Z.id.
      assert (HW1 : wfm (S p) (S p) (set2 ndr j r D)) by (now apply wfm_set2).
      rewrite (zget2k K (S p) (S p) (set2 ndr j r D)) by (try assumption; lia).
      rewrite (zget2k K (S p) (S p) (set2 ndr j r D)) by (try assumption; lia).
      rewrite (zset2k (S p) (S p) (set2 ndr j r D)) by (try assumption; lia).
      rewrite !Nat2Z.id. replace (Z.to_nat (Z.of_nat j - 1)) with (Nat.pred j) by lia.
      rewrite (get_set2_same K (S p) (S p) ndr j r D) by (auto; lia).
      eexists. split; [reflexivity|]. split; [reflexivity|]. cbn [fst]. now apply wfm_set2. }
    { split; auto. }
    rewrite E2. cbn [gbind]. clear E2.
    match goal with |- context [fold_left ?gg (seq O j) ?s0'] => destruct (fold_left gg (seq O j) s0') as [ndM2 svM2] end.
    inversion End2; subst nd2 sv2. cbn [fst] in W2.
    rewrite (zset2k (S p) (S p) ndM2) by (try assumption; lia). rewrite !Nat2Z.id.
    eexists. split; [reflexivity|]. cbn [fst snd]. split; [reflexivity|]. split; [now apply wfm_set2|]. auto. }
  { cbn [fst snd]. split; auto. split; [apply mk2_wfm|]. rewrite !repeat_length. repeat split; auto; lia. }
  rewrite E1. cbn [gbind]. clear E1. cbn [snd] in End1. rewrite <- Endu in End1, Wndu. subst nd1. clear Endu.
  pose proof Wndu as [Wn1 Wn2].
  (* ---------------- phase 2: ders[0][j] = ndu[j][degree] ---------------- *)
  match goal with |- context [gfor (map Z.of_nat (seq O (S p))) ?ff (mk2 (S order) (S p) 0)] =>
    destruct (gfor_seq_inv (fun j (d : list (list T)) => wfm (S order) (S p) d
                  /\ (forall c, c < j -> g2 d O c = g2 ndu c p)) ff (S p) O)
      with (s := mk2 (S order) (S p) 0) as (D0 & ED0 & WD0 & HD0)
  end.
  { intros j d Hj (HW & Hrow). cbn [gbind].
    rewrite (zget2k K (S p) (S p) ndu) by (try assumption; lia).
    rewrite (zset2k (S order) (S p) d) by (try assumption; lia). rewrite !Nat2Z.id. change (Z.to_nat 0) with O.
    eexists. split; [reflexivity|]. split; [now apply wfm_set2|].
    intros c Hc. rewrite (get_set2 K (S order) (S p)) by auto.
    destruct (Nat.eqb_spec j c) as [->|Hne]; cbn [Nat.eqb andb].
    - destruct (Nat.ltb_spec O (S order)); [|lia]. destruct (Nat.ltb_spec c (S p)); [|lia]. reflexivity.
    - apply Hrow. lia. }
  { split; [apply mk2_wfm|]. intros c Hc. lia. }
  rewrite ED0. cbn [gbind]. clear ED0.
  (* ---------------- phase 3: the derivatives, function index by function index ---------------- *)
  match goal with |- context [gfor (map Z.of_nat (seq O (S p))) ?ff (mk2 2 (S p) (o1 K), D0)] =>
    destruct (gfor_seq_inv (fun r (st : list (list T) * list (list T)) =>
                  wfm 2 (S p) (fst st) /\ wfm (S order) (S p) (snd st)
                  /\ (forall c, c <= p -> g2 (snd st) O c = g2 ndu c p)
                  /\ (forall r' i, r' < r -> 1 <= i <= order -> g2 (snd st) i r' = nth (i - 1) (ders_for_r K p order ndu r') 0))
                ff (S p) O) with (s := (mk2 2 (S p) (o1 K), D0)) as ([aF D1] & E3 & _ & WD1 & HD1row & HD1)
  end.
  { intros r [aG dG] Hr (WaG & WdG & Hrow & Hdone). cbn [fst snd] in WaG, WdG, Hrow, Hdone. cbn [gbind].
    rewrite (zset2k 2 (S p) aG) by sc. change (Z.to_nat 0) with O.
    set (aG0 := set2 aG O O (o1 K)).
    assert (WaG0 : wfm 2 (S p) aG0) by (now apply wfm_set2).
    pose proof (eq_refl (ders_for_r K p order ndu r)) as EDR. unfold ders_for_r at 2 in EDR. cbv zeta in EDR.
    match goal with |- context [gfor (map Z.of_nat (seq 1 order)) ?ff ?s0] =>
      match type of EDR with context [fold_left ?gg (seq 1 order) ?s0'] =>
        destruct (gfor_seq_fold (fun k (a : list (list T) * list (list T) * Z * Z) (b : list (list T) * nat * nat * list T) =>
              snd (fst a) = Z.of_nat (snd (fst (fst b))) /\ snd a = Z.of_nat (snd (fst b))
              /\ ((snd (fst (fst b)) = O /\ snd (fst b) = 1) \/ (snd (fst (fst b)) = 1 /\ snd (fst b) = O))
              /\ wfm 2 (S p) (fst (fst (fst a))) /\ wfm 2 (S p) (fst (fst (fst b)))
              /\ agree K p (fst (fst (fst a))) (fst (fst (fst b))) (snd (fst (fst b))) (Wset p r (k - 1))
              /\ wfm (S order) (S p) (snd (fst (fst a))) /\ length (snd b) = k - 1
              /\ (forall i, 1 <= i < k -> g2 (snd (fst (fst a))) i r = nth (i - 1) (snd b) 0)
              /\ (forall i c, (c <> r \/ i = O \/ k <= i) -> g2 (snd (fst (fst a))) i c = g2 dG i c)) ff gg order 1)
          with (s := s0) (s' := s0') as ([[[aG2 dG2] s1G2] s2G2] & E4 & R4)
      end
    end.
    { (* ---- one derivative order k ---- *)
      intros k [[[aGk dGk] s1G] s2G] [[[aMk s1] s2] out] Hk (Es1 & Es2 & Hs & WaGk & WaMk & Hag & WdGk & Lout & Hout & Hoth).
      cbn [fst snd] in Es1, Es2, Hs, WaGk, WaMk, Hag, WdGk, Lout, Hout, Hoth. subst s1G s2G.
      assert (Hs1 : s1 < 2) by lia. assert (Hs2 : s2 < 2) by lia. assert (Hs12 : s1 <> s2) by lia.
      destruct (reads_in_W p r k) as (RW1 & RW2 & RW3); [lia|lia|lia|].
      cbn [gbind].
      (* A: the j = 0 term *)
      set (vA := odiv K (g2 aMk s1 O) (g2 ndu (S (p - k)) (r - k))).
      match goal with |- context [gbind ?A _] =>
        assert (EA : A = GOk (if Nat.leb k r then (set2 aGk s2 O vA, omul K vA (g2 ndu (r - k) (p - k))) else (aGk, 0))) end.
      { destruct (Z.leb_spec (Z.of_nat k) (Z.of_nat r)); destruct (Nat.leb_spec k r); try lia; auto.
        rewrite (zget2k K 2 (S p) aGk) by sc. rewrite (zget2k K (S p) (S p) ndu) by sc.
        rewrite (zset2k 2 (S p) aGk) by sc.
        rewrite !Nat2Z.id. change (Z.to_nat 0) with O.
        replace (Z.to_nat (Z.of_nat p - Z.of_nat k + 1)) with (S (p - k)) by lia.
        replace (Z.to_nat (Z.of_nat r - Z.of_nat k)) with (r - k) by lia.
        rewrite ((Hag : forall j, _ -> _ -> _) O) by (auto; lia). fold vA.
        rewrite (zget2k K 2 (S p) (set2 aGk s2 O vA)) by sc. rewrite (zget2k K (S p) (S p) ndu) by sc.
        rewrite !Nat2Z.id. change (Z.to_nat 0) with O.
        replace (Z.to_nat (Z.of_nat p - Z.of_nat k)) with (p - k) by lia.
        replace (Z.to_nat (Z.of_nat r - Z.of_nat k)) with (r - k) by lia.
        rewrite (get_set2_same K 2 (S p)) by sc. reflexivity. }
      rewrite (gbind_eq _ _ _ EA). clear EA.
      (* the state after A on both sides *)
      set (stA := if Nat.leb k r then (set2 aGk s2 O vA, omul K vA (g2 ndu (r - k) (p - k))) else (aGk, 0)).
      set (stAM := if Nat.leb k r then (set2 aMk s2 O vA, omul K vA (g2 ndu (r - k) (p - k))) else (aMk, 0)).
      assert (RA : wfm 2 (S p) (fst stA) /\ wfm 2 (S p) (fst stAM) /\ agree K p (fst stA) (fst stAM) s1 (Wset p r (k - 1))
                   /\ agree K p (fst stA) (fst stAM) s2 (fun j => j = O /\ k <= r) /\ snd stA = snd stAM).
      { subst stA stAM. destruct (Nat.leb_spec k r); cbn [fst snd].
        - split; [now apply wfm_set2|]. split; [now apply wfm_set2|]. split; [apply agree_set2_other; auto|]. split; auto.
          eapply agree_weaken; [|apply (agree_set2 K p aGk aMk s2 O vA (fun _ => False)); auto; try lia; unfold agree; intros j []].
          intros j [-> _]. now right.
        - split; auto. split; auto. split; auto. split; auto. unfold agree. intros j [_ Hc]. lia. }
      destruct stA as [aGA dGA]. destruct stAM as [aMA dMA] eqn:EstAM. cbn [fst snd] in RA.
      destruct RA as (WaGA & WaMA & HagA1 & HagA2 & <-).
      (* j1, j2 *)
      match goal with |- context [gbind ?A _] => assert (EA : A = GOk (Z.of_nat (j1f r k))) end.
      { unfold j1f. destruct (Z.leb_spec (-1) (Z.of_nat r - Z.of_nat k)); destruct (Nat.leb_spec k (S r)); try lia; f_equal; lia. }
      rewrite (gbind_eq _ _ _ EA). clear EA.
      match goal with |- context [gbind ?A _] => assert (EA : A = GOk (Z.of_nat (j2f p r k))) end.
      { unfold j2f. destruct (Z.leb_spec (Z.of_nat r - 1) (Z.of_nat p - Z.of_nat k)); destruct (Nat.leb_spec (Nat.pred r) (p - k)); try lia; f_equal; lia. }
      rewrite (gbind_eq _ _ _ EA). clear EA.
      replace (Z.of_nat (j2f p r k) + 1)%Z with (Z.of_nat (S (j2f p r k))) by lia.
      rewrite zrange_nat.
      set (j1 := j1f r k) in *. set (j2 := j2f p r k) in *.
      (* B: the middle terms *)
      match goal with |- context [gfor (map Z.of_nat (seq j1 (S j2 - j1))) ?ff ?s0] =>
        destruct (gfor_seq_fold (fun jp (a b : list (list T) * T) =>
              wfm 2 (S p) (fst a) /\ wfm 2 (S p) (fst b) /\ agree K p (fst a) (fst b) s1 (Wset p r (k - 1))
              /\ agree K p (fst a) (fst b) s2 (fun j => (j = O /\ k <= r) \/ (j1 <= j /\ j < jp)) /\ snd a = snd b) ff
              (fun (ad : list (list T) * T) j => let '(a, d) := ad in
                 (set2 a s2 j (odiv K (osub K (g2 a s1 j) (g2 a s1 (Nat.pred j))) (g2 ndu (S (p - k)) (r + j - k))),
                  oadd K d (omul K (odiv K (osub K (g2 a s1 j) (g2 a s1 (Nat.pred j))) (g2 ndu (S (p - k)) (r + j - k))) (g2 ndu (r + j - k) (p - k)))))
              (S j2 - j1) j1) with (s := s0) (s' := (aMA, dGA)) as ([aGB dGB] & EB & RB)
      end.
      { intros j [aG' dG'] [aM' dM'] Hj (WG' & WM' & Hg1 & Hg2 & Ed). cbn [fst snd] in WG', WM', Hg1, Hg2, Ed. subst dM'.
        destruct (j_bounds p r k j) as (Jb1 & Jb2 & Jb3 & Jb4); [lia|lia|lia|subst j1; lia|subst j2; lia|].
        destruct (RW2 j) as [RWa RWb]; [subst j1; lia|subst j2; lia|].
        cbn [gbind].
        rewrite (zget2k K 2 (S p) aG') by sc. rewrite (zget2k K 2 (S p) aG') by sc. rewrite (zget2k K (S p) (S p) ndu) by sc.
        rewrite (zset2k 2 (S p) aG') by sc.
        rewrite !Nat2Z.id.
        replace (Z.to_nat (Z.of_nat j - 1)) with (Nat.pred j) by lia.
        replace (Z.to_nat (Z.of_nat p - Z.of_nat k + 1)) with (S (p - k)) by lia.
        replace (Z.to_nat (Z.of_nat r - Z.of_nat k + Z.of_nat j)) with (r + j - k) by lia.
        rewrite ((Hg1 : forall j, _ -> _ -> _) j) by (auto; lia). rewrite ((Hg1 : forall j, _ -> _ -> _) (Nat.pred j)) by (try lia; replace (Nat.pred j) with (j - 1) by lia; auto).
        set (v := odiv K (osub K (g2 aM' s1 j) (g2 aM' s1 (Nat.pred j))) (g2 ndu (S (p - k)) (r + j - k))).
        rewrite (zget2k K 2 (S p) (set2 aG' s2 j v)) by sc. rewrite (zget2k K (S p) (S p) ndu) by sc.
        rewrite !Nat2Z.id.
        replace (Z.to_nat (Z.of_nat p - Z.of_nat k)) with (p - k) by lia.
        replace (Z.to_nat (Z.of_nat r - Z.of_nat k + Z.of_nat j)) with (r + j - k) by lia.
        rewrite (get_set2_same K 2 (S p)) by sc.
        eexists. split; [reflexivity|]. cbn [fst snd]. fold v.
        split; [now apply wfm_set2|]. split; [now apply wfm_set2|]. split; [apply agree_set2_other; auto|]. split; auto.
        eapply agree_weaken; [|apply (agree_set2 K p aG' aM' s2 j v); eauto; lia].
        cbv beta. intros j' [Hj'|Hj']; [left; left; auto|]. destruct (Nat.eq_dec j' j); [right; auto|left; right; lia]. }
      { cbn [fst snd]. split; auto. split; auto. split; auto. split; auto.
        eapply agree_weaken; [|exact HagA2]. cbv beta. intros j [Hj|Hj]; [auto|lia]. }
      rewrite EB. cbn [gbind]. clear EB.
      match type of RB with context [fold_left ?gg ?l ?s0'] => set (stBM := fold_left gg l s0') in * end.
      destruct stBM as [aMB dMB] eqn:EstBM. cbn [fst snd] in RB. destruct RB as (WaGB & WaMB & HagB1 & HagB2 & <-).
      (* C: the j = k term *)
      set (vC := odiv K (oneg K (g2 aMB s1 (Nat.pred k))) (g2 ndu (S (p - k)) r)).
      match goal with |- context [gbind ?A _] =>
        assert (EA : A = GOk (if Nat.leb r (p - k) then (set2 aGB s2 k vC, oadd K dGB (omul K vC (g2 ndu r (p - k)))) else (aGB, dGB))) end.
      { destruct (Z.leb_spec (Z.of_nat r) (Z.of_nat p - Z.of_nat k)); destruct (Nat.leb_spec r (p - k)); try lia; auto.
        rewrite (zget2k K 2 (S p) aGB) by sc. rewrite (zget2k K (S p) (S p) ndu) by sc.
        rewrite (zset2k 2 (S p) aGB) by sc.
        rewrite !Nat2Z.id.
        replace (Z.to_nat (Z.of_nat k - 1)) with (Nat.pred k) by lia.
        replace (Z.to_nat (Z.of_nat p - Z.of_nat k + 1)) with (S (p - k)) by lia.
        rewrite ((HagB1 : forall j, _ -> _ -> _) (Nat.pred k)) by (try lia; replace (Nat.pred k) with (k - 1) by lia; auto). fold vC.
        rewrite (zget2k K 2 (S p) (set2 aGB s2 k vC)) by sc. rewrite (zget2k K (S p) (S p) ndu) by sc.
        rewrite !Nat2Z.id.
        replace (Z.to_nat (Z.of_nat p - Z.of_nat k)) with (p - k) by lia.
        rewrite (get_set2_same K 2 (S p)) by sc. reflexivity. }
      rewrite (gbind_eq _ _ _ EA). clear EA.
      set (stC := if Nat.leb r (p - k) then (set2 aGB s2 k vC, oadd K dGB (omul K vC (g2 ndu r (p - k)))) else (aGB, dGB)).
      set (stCM := if Nat.leb r (p - k) then (set2 aMB s2 k vC, oadd K dGB (omul K vC (g2 ndu r (p - k)))) else (aMB, dGB)).
      assert (RC : wfm 2 (S p) (fst stC) /\ wfm 2 (S p) (fst stCM) /\ agree K p (fst stC) (fst stCM) s2 (Wset p r k) /\ snd stC = snd stCM).
      { assert (HWk : forall j, Wset p r k j -> ((j = O /\ k <= r) \/ (j1 <= j /\ j < j1 + (S j2 - j1))) \/ (j = k /\ r <= p - k)).
        { unfold Wset. destruct (Nat.eqb_spec k O); [lia|]. fold j1 j2. intros j [H|[H|H]]; [left; left; auto|left; right; lia|right; auto]. }
        subst stC stCM. destruct (Nat.leb_spec r (p - k)); cbn [fst snd].
        - split; [now apply wfm_set2|]. split; [now apply wfm_set2|]. split; auto.
          eapply agree_weaken; [|apply (agree_set2 K p aGB aMB s2 k vC); eauto; lia].
          cbv beta. intros j Hj. destruct (HWk j Hj) as [H'|[-> _]]; [left; auto|right; auto].
        - split; auto. split; auto. split; auto.
          eapply agree_weaken; [|exact HagB2]. cbv beta. intros j Hj. destruct (HWk j Hj) as [H'|[_ H']]; [auto|lia]. }
      destruct stC as [aGC dGC]. destruct stCM as [aMC dMC] eqn:EstCM. cbn [fst snd] in RC.
      destruct RC as (WaGC & WaMC & HagC & <-).
      (* ders[k][r] = d and the swap of the rows *)
      rewrite (zset2k (S order) (S p) dGk) by sc. rewrite !Nat2Z.id.
      eexists. split; [reflexivity|].
      (* the model's step *)
      cbv beta. cbn [fst snd].
      unfold stAM, vA in EstAM. unfold stBM in EstBM. unfold stCM, vC in EstCM. subst j1 j2. unfold j1f, j2f in EstBM.
      cbv beta iota. rewrite ?EstAM. cbv iota beta. rewrite ?EstBM. cbv iota beta. rewrite ?EstCM. cbv iota beta. cbn [fst snd].
      replace (S k - 1) with k by lia.
      split; [reflexivity|]. split; [reflexivity|]. split; [lia|]. split; [assumption|]. split; [assumption|]. split; [assumption|].
      split; [now apply wfm_set2|]. split; [rewrite app_length; simpl; lia|]. split.
      - intros i Hi. destruct (Nat.eq_dec i k) as [->|Hne].
        + rewrite (get_set2_same K (S order) (S p)) by sc. rewrite app_nth2 by lia.
          replace (k - 1 - length out) with O by lia. reflexivity.
        + rewrite (get_set2_other K (S order) (S p)) by (auto; lia). rewrite app_nth1 by lia. apply Hout. lia.
      - intros i c Hic. rewrite (get_set2_other K (S order) (S p)) by (auto; lia). apply Hoth. lia. }
    { cbn [fst snd]. split; [reflexivity|]. split; [reflexivity|]. split; [lia|]. split; [assumption|]. split; [apply mk2_wfm|].
      split.
      - unfold agree, Wset. cbn [Nat.sub Nat.eqb]. intros j -> _. unfold aG0.
        rewrite (get_set2_same K 2 (S p)) by sc. rewrite mk2_get by lia. reflexivity.
      - split; [assumption|]. split; [reflexivity|]. split; [intros i Hi; lia|]. auto. }
    rewrite E4. cbn [gbind]. clear E4.
    match type of EDR with context [fold_left ?gg ?l ?s0'] => destruct (fold_left gg l s0') as [[[aM2 s1M] s2M] outF] end.
    cbn [fst snd] in R4. destruct R4 as (_ & _ & _ & WaG2 & _ & _ & WdG2 & LoutF & HoutF & HothF).
    eexists. split; [reflexivity|]. cbn [fst snd].
    split; [assumption|]. split; [assumption|]. split.
    - intros c Hc. rewrite HothF by lia. apply Hrow. lia.
    - intros r' i Hr' Hi. destruct (Nat.eq_dec r' r) as [->|Hne].
      + rewrite HoutF by lia. rewrite EDR. reflexivity.
      + rewrite HothF by lia. apply Hdone; lia. }
  { cbn [fst snd]. split; [apply mk2_wfm|]. split; [assumption|]. split.
    - intros c Hc. apply HD0. lia.
    - intros r' i Hr'. lia. }
  rewrite E3. cbn [gbind]. clear E3. cbn [fst snd] in WD1, HD1row, HD1.
  (* ---------------- phase 4: the factors p! / (p-k)! ---------------- *)
  rewrite ofZ_of_nat.
  match goal with |- context [gfor (map Z.of_nat (seq 1 order)) ?ff ?s0] =>
    match goal with |- context [fold_left ?gf (seq 1 order) (ofnat K p, [])] =>
      destruct (gfor_seq_fold (fun k (a : list (list T) * T) (b : T * list T) =>
            snd a = fst b /\ length (snd b) = k - 1 /\ wfm (S order) (S p) (fst a)
            /\ (forall i c, 1 <= i < k -> c <= p -> g2 (fst a) i c = omul K (g2 D1 i c) (nth (i - 1) (snd b) 0))
            /\ (forall i c, (i = O \/ k <= i) -> g2 (fst a) i c = g2 D1 i c)) ff gf order 1)
        with (s := s0) (s' := (ofnat K p, @nil T)) as ([dF rF] & E5 & R5)
    end
  end.
  { intros k [dG rG] [f acc] Hk (Er & Lacc & WdG & Hsc & Hun). cbn [fst snd] in Er, Lacc, WdG, Hsc, Hun. subst f.
    cbn [gbind].
    match goal with |- context [gfor (map Z.of_nat (seq O (S p))) ?ff dG] =>
      destruct (gfor_seq_inv (fun jp (d : list (list T)) => wfm (S order) (S p) d
                    /\ (forall i c, i <> k -> g2 d i c = g2 dG i c)
                    /\ (forall c, c < jp -> g2 d k c = omul K (g2 dG k c) rG)
                    /\ (forall c, jp <= c -> g2 d k c = g2 dG k c)) ff (S p) O) with (s := dG) as (d2 & Ed2 & Wd2 & Hd2a & Hd2b & _)
    end.
    { intros j d Hj (Wd & Ha & Hb & Hc). cbn [gbind].
      rewrite (zget2k K (S order) (S p) d) by sc. rewrite (zset2k (S order) (S p) d) by sc. rewrite !Nat2Z.id.
      eexists. split; [reflexivity|]. split; [now apply wfm_set2|]. split.
      - intros i c Hi. rewrite (get_set2_other K (S order) (S p)) by (auto; lia). auto.
      - split.
        + intros c Hc'. destruct (Nat.eq_dec c j) as [->|Hne].
          * rewrite (get_set2_same K (S order) (S p)) by sc. rewrite Hc by lia. reflexivity.
          * rewrite (get_set2_other K (S order) (S p)) by (auto; lia). apply Hb. lia.
        + intros c Hc'. rewrite (get_set2_other K (S order) (S p)) by (auto; lia). apply Hc. lia. }
    { split; auto. split; auto. split; [intros c Hc; lia|auto]. }
    rewrite Ed2. cbn [gbind]. clear Ed2.
    replace (Z.of_nat p - Z.of_nat k)%Z with (Z.of_nat (p - k)) by lia. rewrite ofZ_of_nat.
    eexists. split; [reflexivity|]. cbn [fst snd].
    split; [reflexivity|]. split; [rewrite app_length; simpl; lia|]. split; [assumption|]. split.
    - intros i c Hi Hc. destruct (Nat.eq_dec i k) as [->|Hne].
      + rewrite Hd2b by lia. rewrite Hun by lia. rewrite app_nth2 by lia.
        replace (k - 1 - length acc) with O by lia. reflexivity.
      + rewrite Hd2a by auto. rewrite Hsc by lia. rewrite app_nth1 by lia. reflexivity.
    - intros i c Hi. rewrite Hd2a by lia. apply Hun. lia. }
  { cbn [fst snd]. split; auto. split; auto. split; auto. split; [intros i c Hi; lia|auto]. }
  rewrite E5. cbn [gbind]. clear E5.
  match goal with |- context [fold_left ?gf (seq 1 order) (ofnat K p, [])] => destruct (fold_left gf (seq 1 order) (ofnat K p, [])) as [fF accF] end.
  cbn [fst snd] in R5. destruct R5 as (_ & LaccF & WdF & HdF & HdF0). cbn [snd].
  pose proof WdF as [WdF1 WdF2].
  f_equal. apply nth_ext with (d := []) (d' := []).
  - cbn [length]. rewrite map_length, seq_length. auto.
  - intros i Hi. rewrite WdF1 in Hi. apply nth_ext with (d := 0) (d' := 0).
    + rewrite WdF2 by lia. destruct i as [|i]; cbn [nth].
      * now rewrite map_length, seq_length.
      * rewrite nth_map_seq_gen by lia. now rewrite map_length, seq_length.
    + intros c Hc. rewrite WdF2 in Hc by lia. fold (g2 dF i c).
      destruct i as [|i]; cbn [nth].
      * rewrite HdF0 by auto. rewrite HD1row by lia. rewrite nth_map_seq by lia. reflexivity.
      * rewrite HdF by lia.
        rewrite nth_map_seq_gen by lia. rewrite nth_map_seq by lia.
        rewrite nth_map_seq by lia. rewrite HD1 by lia.
        replace (Nat.pred (1 + i)) with (S i - 1) by lia. reflexivity.
Qed.
End Tie.

Definition basis_function_ders_tie_R := @basis_function_ders_tie _ Rops.
Definition basis_function_ders_tie_Q := @basis_function_ders_tie _ Qops.

(* ---- non-vacuity (degree 3, a repeated interior knot; derivative orders 2 and 3) ---- *)
Local Open Scope Q_scope.
Definition exU : list Q := [0; 0; 0; 0; 1#4; 1#2; 1#2; 3#4; 1; 1; 1; 1].
Example basis_function_ders_ex :
  Helpers.basis_function_ders Qops 3 exU 4 (3#10) 2 =
    GOk [[16#125; 56#125; 21#50; 1#250]; [-48#25; -48#25; 18#5; 6#25]; [96#5; -144#5; 0; 48#5]]
  /\ Basis.basis_function_ders Qops 3 exU 4 (3#10) 2 =
    [[16#125; 56#125; 21#50; 1#250]; [-48#25; -48#25; 18#5; 6#25]; [96#5; -144#5; 0; 48#5]]
  /\ Helpers.basis_function_ders Qops 3 exU 6 (3#5) 3 = GOk (Basis.basis_function_ders Qops 3 exU 6 (3#5) 3)
  /\ (3 <= 4 + 1 /\ 4 + 3 < length exU /\ 2 <= 3)%nat.
Proof. repeat split; try (vm_compute; reflexivity); unfold exU; simpl; lia. Qed.
