(* C18, last sentence: "The approximate length of a non-rational curve is never ... more than its control-polygon
   length."  The polyline through C(u_0), ..., C(u_m) (u_0 <= ... <= u_m in the closed domain) of a non-rational
   B-spline curve of any degree over any sorted knot vector (clamped or not) is not longer than the control polygon.

   Route (no knot insertion needed): with the cumulative basis functions  T_i(u) = sum_{j >= i} N_{j,p}(u)
     C(u) = P_0 + sum_{i>=1} T_i(u) (P_i - P_{i-1})                           (summation by parts, T_0 = 1)
     T_i is non-decreasing in u and 0 <= T_i <= 1                              (induction over the degree, Cox-de Boor)
   hence |C(u') - C(u)| <= sum_i (T_i(u') - T_i(u)) |P_i - P_{i-1}| for u <= u', and the sum over consecutive
   parameters telescopes to  sum_i (T_i(u_m) - T_i(u_0)) |P_i - P_{i-1}| <= sum_i |P_i - P_{i-1}|.
   The basis values are the ones the model's A2.2 computes on the CLOSED span chosen by find_span_linear (the right
   end of the domain uses the last span), so the theorem is about Model.Eval.curve_point itself.
   Also: the classical corner-cutting facts (one knot-insertion step and vertex skipping do not lengthen a polygon). *)
From Coq Require Import List Reals Lra Lia Arith Bool.
From NV Require Import Scalar.Ops Model.Common Model.Basis Model.Knots Model.Eval Model.Hull
  Proofs.Boehm Proofs.BfN Proofs.BasisR Proofs.LinComb Proofs.HullR Proofs.HullLen.
Import ListNotations.
Open Scope R_scope.

(* ================= 1. basis functions at a point of a closed span, over a total knot function ================= *)
Lemma frac01 a b u : a <= u <= b -> a < b -> 0 <= (u - a) / (b - a) <= 1.
Proof.
  intros Hu Hab. assert (Hi : 0 < / (b - a)) by (apply Rinv_0_lt_compat; lra). unfold Rdiv. split.
  - apply Rmult_le_pos; lra.
  - apply (Rmult_le_reg_r (b - a)); [lra|]. rewrite Rmult_assoc, Rinv_l by lra. lra.
Qed.
Lemma frac_mono a b u u' : a < b -> u <= u' -> (u - a) / (b - a) <= (u' - a) / (b - a).
Proof.
  intros Hab Hu. assert (Hi : 0 < / (b - a)) by (apply Rinv_0_lt_compat; lra). unfold Rdiv.
  apply Rmult_le_compat_r; lra.
Qed.

Lemma down_ind (k : nat) (Pr : nat -> Prop) :
  (forall i, (k < i)%nat -> Pr i) -> (forall i, (i <= k)%nat -> Pr (S i) -> Pr i) -> forall i, Pr i.
Proof.
  intros Hout Hstep i. remember (S k - i)%nat as d eqn:Ed. revert i Ed.
  induction d as [|d IH]; intros i Ed.
  - apply Hout. lia.
  - apply Hstep; [lia|]. apply IH. lia.
Qed.

Section PointBasis.
Variable U : nat -> R.
Hypothesis Usorted : forall i, U i <= U (S i).

(* the point u lies in the closed non-empty span k *)
Definition validpt (k : nat) (u : R) : Prop := U k <= u <= U (S k) /\ U k < U (S k).

(* Cox-de Boor recursion started from the indicator of the span (instead of the half-open indicator of u) *)
Fixpoint Mb (k : nat) (u : R) (q i : nat) : R :=
  match q with
  | O => if (i =? k)%nat then 1 else 0
  | S q' => Wq U q' i u * Mb k u q' i + (1 - Wq U q' (S i) u) * Mb k u q' (S i)
  end.
Lemma Mb_S k u q i : Mb k u (S q) i = Wq U q i u * Mb k u q i + (1 - Wq U q (S i) u) * Mb k u q (S i).
Proof. reflexivity. Qed.

Lemma Mb_support k u q : forall i, (k < i \/ i + q < k)%nat -> Mb k u q i = 0.
Proof.
  induction q as [|q IH]; intros i H.
  - cbn [Mb]. destruct (Nat.eqb_spec i k); [lia|reflexivity].
  - rewrite Mb_S, (IH i), (IH (S i)) by lia. ring.
Qed.

Lemma W_range k u q i : validpt k u -> (i <= k <= i + q)%nat -> 0 <= Wq U q i u <= 1.
Proof.
  intros [[H1 H2] H3] Hi. unfold Wq.
  pose proof (U_mono U Usorted i k ltac:(lia)). pose proof (U_mono U Usorted (S k) (i + q + 1) ltac:(lia)).
  apply frac01; lra.
Qed.

Lemma WM_range k u q i : validpt k u -> 0 <= Mb k u q i -> 0 <= Wq U q i u * Mb k u q i <= Mb k u q i.
Proof.
  intros V HM. destruct (le_lt_dec i k) as [H1|H1]; [destruct (le_lt_dec k (i + q)) as [H2|H2]|].
  - destruct (W_range k u q i V ltac:(lia)) as [W0 W1]. split.
    + apply Rmult_le_pos; assumption.
    + rewrite <- (Rmult_1_l (Mb k u q i)) at 2. apply Rmult_le_compat_r; assumption.
  - rewrite (Mb_support k u q i) by lia. rewrite Rmult_0_r. lra.
  - rewrite (Mb_support k u q i) by lia. rewrite Rmult_0_r. lra.
Qed.

Lemma Mb_nonneg k u : validpt k u -> forall q i, 0 <= Mb k u q i.
Proof.
  intros V. induction q as [|q IH]; intros i.
  - cbn [Mb]. destruct (i =? k)%nat; lra.
  - rewrite Mb_S. pose proof (WM_range k u q i V (IH i)). pose proof (WM_range k u q (S i) V (IH (S i))). lra.
Qed.

(* cumulative sums  T q i = sum_{j = i}^{k} Mb q j  (the terms above k vanish) *)
Fixpoint tl (f : nat -> R) (i c : nat) : R := match c with O => 0 | S c' => f i + tl f (S i) c' end.
Definition Tb (k : nat) (u : R) (q i : nat) : R := tl (Mb k u q) i (S k - i).

Lemma Tb_step k u q i : (i <= k)%nat -> Tb k u q i = Mb k u q i + Tb k u q (S i).
Proof. intros H. unfold Tb. replace (S k - i)%nat with (S (S k - S i)) by lia. reflexivity. Qed.
Lemma Tb_out k u q i : (k < i)%nat -> Tb k u q i = 0.
Proof. intros H. unfold Tb. replace (S k - i)%nat with 0%nat by lia. reflexivity. Qed.
Lemma Mb_diff k u q i : Mb k u q i = Tb k u q i - Tb k u q (S i).
Proof.
  destruct (le_lt_dec i k) as [H|H].
  - rewrite (Tb_step k u q i H). lra.
  - rewrite !Tb_out by lia. rewrite Mb_support by lia. lra.
Qed.

Lemma Tb_rec k u q i : Tb k u (S q) i = Wq U q i u * Mb k u q i + Tb k u q (S i).
Proof.
  revert i. apply (down_ind k).
  - intros i H. rewrite !Tb_out by lia. rewrite Mb_support by lia. ring.
  - intros i H IH. rewrite (Tb_step k u (S q) i H), IH, Mb_S. rewrite (Mb_diff k u q (S i)). ring.
Qed.

Lemma Tb_0 k u i : Tb k u 0 i = if (i <=? k)%nat then 1 else 0.
Proof.
  revert i. apply (down_ind k).
  - intros i H. rewrite Tb_out by lia. destruct (Nat.leb_spec i k); [lia|reflexivity].
  - intros i H IH. rewrite (Tb_step k u 0 i H), IH. cbn [Mb].
    destruct (Nat.leb_spec i k); [|lia]. destruct (Nat.eqb_spec i k); destruct (Nat.leb_spec (S i) k); try lia; lra.
Qed.

(* partition of unity *)
Lemma Tb_full k u q : forall i, (i + q <= k)%nat -> Tb k u q i = 1.
Proof.
  induction q as [|q IH]; intros i H.
  - rewrite Tb_0. destruct (Nat.leb_spec i k); [reflexivity|lia].
  - rewrite Tb_rec, (Mb_support k u q i) by lia. rewrite IH by lia. ring.
Qed.

Lemma Tb_nonneg k u q : validpt k u -> forall i, 0 <= Tb k u q i.
Proof.
  intros V. apply (down_ind k).
  - intros i H. rewrite Tb_out by lia. lra.
  - intros i H IH. rewrite (Tb_step k u q i H). pose proof (Mb_nonneg k u V q i). lra.
Qed.

Lemma Tb_le1 k u : validpt k u -> forall q i, Tb k u q i <= 1.
Proof.
  intros V. induction q as [|q IH]; intros i.
  - rewrite Tb_0. destruct (i <=? k)%nat; lra.
  - rewrite Tb_rec. pose proof (WM_range k u q i V (Mb_nonneg k u V q i)) as Hw.
    pose proof (Mb_diff k u q i). pose proof (IH i). lra.
Qed.

(* the cumulative basis functions do not decrease when the parameter (and with it the span) moves right *)
Theorem Tb_mono k u k' u' : validpt k u -> validpt k' u' -> (k <= k')%nat -> u <= u' ->
  forall q i, Tb k u q i <= Tb k' u' q i.
Proof.
  intros V V' Hk Hu. induction q as [|q IH]; intros i.
  - rewrite !Tb_0. destruct (Nat.leb_spec i k), (Nat.leb_spec i k'); try lra; lia.
  - rewrite !Tb_rec.
    pose proof (IH i) as IA. pose proof (IH (S i)) as IB.
    pose proof (Mb_diff k u q i) as D. pose proof (Mb_diff k' u' q i) as D'.
    pose proof (Mb_nonneg k u V q i) as N0. pose proof (Mb_nonneg k' u' V' q i) as N0'.
    pose proof (WM_range k u q i V N0) as R0. pose proof (WM_range k' u' q i V' N0') as R0'.
    destruct (le_lt_dec i k) as [H1|H1]; [destruct (le_lt_dec k (i + q)) as [H2|H2]|].
    + destruct (le_lt_dec k' (i + q)) as [H3|H3].
      * destruct (W_range k u q i V ltac:(lia)) as [W0 W1].
        destruct (W_range k' u' q i V' ltac:(lia)) as [W0' W1'].
        assert (HW : Wq U q i u <= Wq U q i u').
        { unfold Wq. destruct V as [[V1 V2] V3].
          pose proof (U_mono U Usorted i k ltac:(lia)). pose proof (U_mono U Usorted (S k) (i + q + 1) ltac:(lia)).
          apply frac_mono; lra. }
        set (W := Wq U q i u) in *. set (W' := Wq U q i u') in *.
        set (A := Tb k u q i) in *. set (B := Tb k u q (S i)) in *.
        set (A' := Tb k' u' q i) in *. set (B' := Tb k' u' q (S i)) in *.
        assert (E1 : W * Mb k' u' q i <= W' * Mb k' u' q i) by (apply Rmult_le_compat_r; lra).
        assert (E2 : W * A <= W * A') by (apply Rmult_le_compat_l; lra).
        assert (E3 : (1 - W) * B <= (1 - W) * B') by (apply Rmult_le_compat_l; lra).
        rewrite D in *. rewrite D' in *. lra.
      * assert (E : Mb k' u' q i = 0) by (apply Mb_support; lia). rewrite E in *. lra.
    + assert (E : Mb k u q i = 0) by (apply Mb_support; lia). rewrite E in *. lra.
    + assert (E : Mb k u q i = 0) by (apply Mb_support; lia). rewrite E in *. lra.
Qed.
End PointBasis.

(* ================= 2. A2.2 on a closed span computes Mb (closed-span version of BfN.bf_is_cox_de_boor) ================= *)
Section A22closed.
Variable U : nat -> R.
Hypothesis Usorted : forall i, U i <= U (S i).
Variables (span : nat) (u : R).
Hypothesis Hne : U span < U (S span).
Notation Mm := (Mb U span u).
Notation W := (Wq U).

Lemma inner_spec_c q : (S q <= span)%nat ->
  forall rest r0 saved, (r0 + length rest = S q)%nat ->
  (forall m, (m < length rest)%nat -> nth m rest 0 = Mm q (span - q + r0 + m)) ->
  saved = W q (span - S q + r0) u * Mm q (span - S q + r0) ->
  forall m, (m <= length rest)%nat -> nth m (BfN.inner U span u (S q) r0 rest saved) 0 = Mm (S q) (span - S q + r0 + m).
Proof.
  intros Hq. induction rest as [|x rest IH]; intros r0 saved Hlen Hnth Hsaved m Hm.
  - cbn [BfN.inner length] in *. assert (m = 0%nat) by lia. subst m. cbn [nth].
    rewrite Mb_S. replace (span - S q + r0 + 0)%nat with span by lia.
    replace (span - S q + r0)%nat with span in Hsaved by lia.
    rewrite (Mb_support U span u q (S span)) by lia. rewrite Hsaved. ring.
  - cbn [BfN.inner]. cbn [length] in *.
    set (i := (span - S q + r0)%nat) in *.
    assert (Hx : x = Mm q (S i)).
    { specialize (Hnth 0%nat ltac:(lia)). cbn [nth] in Hnth. rewrite Hnth. f_equal. lia. }
    assert (Hr : BfN.right U span u (S r0) = U (S i + q + 1) - u) by (unfold BfN.right; f_equal; f_equal; lia).
    assert (Hl : BfN.left U span u (S q - r0) = u - U (S i)) by (unfold BfN.left; f_equal; f_equal; lia).
    assert (Hd : 0 < U (S i + q + 1) - U (S i)).
    { pose proof (U_mono U Usorted (S i) span ltac:(lia)). pose proof (U_mono U Usorted (S span) (S i + q + 1) ltac:(lia)). lra. }
    destruct m as [|m'].
    + cbn [nth]. rewrite Mb_S. replace (i + 0)%nat with i by lia.
      rewrite Hsaved. f_equal. rewrite Hr, Hl, Hx. unfold Wq. field; repeat split; lra.
    + cbn [nth]. replace (i + S m')%nat with (span - S q + S r0 + m')%nat by lia.
      apply IH; try lia.
      * intros m2 Hm2. specialize (Hnth (S m2) ltac:(lia)). cbn [nth] in Hnth. rewrite Hnth. f_equal. lia.
      * replace (span - S q + S r0)%nat with (S i) by lia. rewrite Hr, Hl, Hx. unfold Wq. field; repeat split; lra.
Qed.

Theorem bf_is_Mb p : (p <= span)%nat ->
  forall r, (r <= p)%nat -> nth r (BfN.bf U span u p) 0 = Mm p (span - p + r).
Proof.
  induction p as [|q IH]; intros Hp r Hr.
  - assert (r = 0%nat) by lia. subst r. cbn [BfN.bf nth Mb]. replace (span - 0 + 0)%nat with span by lia.
    rewrite Nat.eqb_refl. reflexivity.
  - cbn [BfN.bf]. replace (span - S q + r)%nat with (span - S q + 0 + r)%nat by lia.
    apply inner_spec_c; try lia.
    + rewrite BfN.bf_length. lia.
    + intros m Hm. rewrite BfN.bf_length in Hm. rewrite IH by lia. f_equal. lia.
    + rewrite (Mb_support U span u q (span - S q + 0)) by lia. ring.
    + rewrite BfN.bf_length. lia.
Qed.
End A22closed.

(* ================= 3. finite sums: re-indexing, windows, summation by parts ================= *)
Lemma Sg_shift f a : forall m s, Sg (fun r => f (a + r)%nat) (seq s m) = Sg f (seq (a + s) m).
Proof.
  induction m as [|m IH]; intros s; [reflexivity|]. cbn [seq]. rewrite !Sg_cons, IH, Nat.add_succ_r. reflexivity.
Qed.
Lemma Sg_minus g h l : Sg (fun i => g i - h i) l = Sg g l - Sg h l.
Proof. induction l; rewrite ?Sg_nil, ?Sg_cons; [lra|]. rewrite IHl. lra. Qed.
Lemma Sg_window f lo w n : (lo + w <= n)%nat -> (forall i, (i < lo)%nat -> f i = 0) ->
  (forall i, (lo + w <= i < n)%nat -> f i = 0) -> Sg f (seq 0 n) = Sg f (seq lo w).
Proof.
  intros H H1 H2. replace n with (lo + (w + (n - lo - w)))%nat by lia.
  rewrite !seq_app, !Sg_app. cbn [Nat.add].
  rewrite (Sg_zero f (seq 0 lo)) by (intros i Hi; apply in_seq in Hi; apply H1; lia).
  rewrite (Sg_zero f (seq (lo + w) (n - lo - w))) by (intros i Hi; apply in_seq in Hi; apply H2; lia). lra.
Qed.
Lemma Sg_abel (T x : nat -> R) m :
  Sg (fun i => (T i - T (S i)) * x i) (seq 0 (S m)) =
  T 0%nat * x 0%nat - T (S m) * x m + Sg (fun i => T (S i) * (x (S i) - x i)) (seq 0 m).
Proof.
  induction m as [|m IH].
  - cbn [seq]. rewrite Sg_cons, !Sg_nil. ring.
  - rewrite (seq_S (S m) 0), Sg_app, IH, (seq_S m 0), Sg_app. rewrite !Sg_cons, !Sg_nil. cbn [Nat.add]. ring.
Qed.

(* ================= 4. Euclidean norm of list vectors ================= *)
Definition vnorm (v : list R) : R := sqrt (vdot Rops v v).
Lemma dist_vnorm a b : dist a b = vnorm (vsub Rops a b).
Proof. reflexivity. Qed.
Lemma vdot_self_nonneg : forall v, 0 <= vdot Rops v v.
Proof. induction v as [|x v IH]; [rewrite vdot_nil_r; lra|]. rewrite vdot_cons. pose proof (sq_nonneg x). lra. Qed.
Lemma vnorm_nonneg v : 0 <= vnorm v.
Proof. apply sqrt_pos. Qed.
Lemma vnorm_nil : vnorm [] = 0.
Proof. unfold vnorm. rewrite vdot_nil_r. apply sqrt_0. Qed.
Lemma vnorm_cons x v : vnorm (x :: v) = sqrt (x * x + vnorm v * vnorm v).
Proof. unfold vnorm. rewrite vdot_cons, sqrt_sqrt by apply vdot_self_nonneg. reflexivity. Qed.
Lemma vnorm_vzero d : vnorm (vzero Rops d) = 0.
Proof. unfold vnorm. rewrite vdot_vzero. apply sqrt_0. Qed.

Lemma vnorm_axpy k : forall pt acc, length pt = length acc -> vnorm (axpy Rops k pt acc) <= vnorm acc + Rabs k * vnorm pt.
Proof.
  induction pt as [|x pt IH]; intros [|a acc] H; cbn [length] in H; try discriminate.
  - change (axpy Rops k [] []) with (@nil R). rewrite vnorm_nil. lra.
  - change (axpy Rops k (x :: pt) (a :: acc)) with ((a + k * x) :: axpy Rops k pt acc).
    rewrite !vnorm_cons. specialize (IH acc ltac:(lia)).
    pose proof (vnorm_nonneg (axpy Rops k pt acc)) as HR. pose proof (vnorm_nonneg acc) as Hs. pose proof (vnorm_nonneg pt) as Ht.
    pose proof (Rabs_pos k) as Hk.
    set (R := vnorm (axpy Rops k pt acc)) in *. set (s := vnorm acc) in *. set (t := vnorm pt) in *.
    assert (Hkt : 0 <= Rabs k * t) by (apply Rmult_le_pos; assumption).
    eapply Rle_trans; [apply (sqrt_mono_plus _ R (s + Rabs k * t)); lra|].
    eapply Rle_trans; [apply minkowski2|].
    assert (HK : Rabs k * Rabs k = k * k) by (unfold Rabs; destruct (Rcase_abs k); ring).
    assert (E : sqrt (k * x * (k * x) + Rabs k * t * (Rabs k * t)) = Rabs k * sqrt (x * x + t * t)).
    { replace (k * x * (k * x)) with ((k * k) * (x * x)) by ring. rewrite <- HK.
      replace (Rabs k * Rabs k * (x * x) + Rabs k * t * (Rabs k * t)) with ((Rabs k * Rabs k) * (x * x + t * t)) by ring.
      rewrite sqrt_mult_alt by (apply sq_nonneg). rewrite sqrt_square by exact Hk. reflexivity. }
    rewrite E. lra.
Qed.

Lemma vnorm_fold dim cf pf l : forall acc, length acc = dim -> (forall i, In i l -> length (pf i) = dim) ->
  vnorm (fold_axpy cf pf l acc) <= vnorm acc + Sg (fun i => Rabs (cf i) * vnorm (pf i)) l.
Proof.
  induction l as [|a l IH]; intros acc Ha Hp.
  - cbn [fold_axpy fold_left]. rewrite Sg_nil. lra.
  - cbn [fold_axpy fold_left]. fold (fold_axpy cf pf l (axpy Rops (cf a) (pf a) acc)).
    assert (Hpa : length (pf a) = length acc) by (rewrite Hp; auto with datatypes).
    eapply Rle_trans; [apply IH|].
    + rewrite axpy_length; assumption.
    + auto with datatypes.
    + rewrite Sg_cons. pose proof (vnorm_axpy (cf a) (pf a) acc Hpa). lra.
Qed.

(* |sum_i c_i v_i| <= sum_i |c_i| |v_i| *)
Lemma vnorm_lincomb dim cf pf l : (forall i, In i l -> length (pf i) = dim) ->
  vnorm (fold_axpy cf pf l (vzero Rops dim)) <= Sg (fun i => Rabs (cf i) * vnorm (pf i)) l.
Proof.
  intros Hp. pose proof (vnorm_fold dim cf pf l (vzero Rops dim) (vzero_length dim) Hp) as H.
  rewrite vnorm_vzero in H. lra.
Qed.

(* the length of a polygon as an indexed sum of edge lengths *)
Lemma polyline_len_Sg : forall L, polyline_len L = Sg (fun i => dist (pt_at L i) (pt_at L (S i))) (seq 0 (length L - 1)).
Proof.
  induction L as [|a L IH]; [reflexivity|]. destruct L as [|b r]; [reflexivity|].
  rewrite polyline_len_cons, IH. cbn [length]. replace (S (S (length r)) - 1)%nat with (S (length r)) by lia.
  replace (S (length r) - 1)%nat with (length r) by lia. cbn [seq]. rewrite Sg_cons. f_equal.
  change (seq 1 (length r)) with (seq (1 + 0) (length r)).
  rewrite <- (Sg_shift (fun i => dist (pt_at (a :: b :: r) i) (pt_at (a :: b :: r) (S i))) 1 (length r) 0).
  apply Sg_ext. intros i _. reflexivity.
Qed.
Lemma polyline_len_nonneg L : 0 <= polyline_len L.
Proof. rewrite polyline_len_Sg. apply Sg_nonneg. intros. apply sqrt_pos. Qed.
Lemma Sg_abel' (T x : nat -> R) n : (1 <= n)%nat ->
  Sg (fun i => (T i - T (S i)) * x i) (seq 0 n) =
  T 0%nat * x 0%nat - T n * x (n - 1)%nat + Sg (fun i => T (S i) * (x (S i) - x i)) (seq 0 (n - 1)).
Proof. intros H. destruct n as [|m]; [lia|]. rewrite Sg_abel. replace (S m - 1)%nat with m by lia. reflexivity. Qed.

(* ================= 5. the model's curve_point: summation by parts, Lipschitz bound, telescoping ================= *)
Fixpoint chain (u : R) (us : list R) : Prop := match us with [] => True | v :: r => u <= v /\ chain v r end.
Lemma chain_of_sorted : forall us u, (forall i j, (i <= j < length (u :: us))%nat -> nth i (u :: us) 0 <= nth j (u :: us) 0) -> chain u us.
Proof.
  induction us as [|v r IH]; intros u H; [exact I|]. split.
  - apply (H 0%nat 1%nat). cbn [length]. lia.
  - apply IH. intros i j Hij. apply (H (S i) (S j)). cbn [length] in *. lia.
Qed.
Lemma Forall_last {A} (Q : A -> Prop) : forall l a, Q a -> Forall Q l -> Q (last l a).
Proof.
  induction l as [|b l IH]; intros a Ha Hl; [exact Ha|]. rewrite last_cons2. apply Forall_cons_iff in Hl. destruct Hl as [Hb Hl]. apply IH; assumption.
Qed.

Section CurveLen.
Variables (dim p : nat) (U : list R) (P : list (list R)).
Hypothesis Usorted : sortedR U.
Hypothesis Hn : (p < length P)%nat.
Hypothesis HL : (length P + p < length U)%nat.
Hypothesis Hdim : Forall (fun q => length q = dim) P.
Notation UF := (Ufun U).
Notation C := (curve_point Rops dim p U P).
Notation dom := (in_domain p U (length P)).

(* the span the evaluator uses, and the cumulative basis functions  sum_{j >= i} N_{j,p}(u)  on it *)
Definition spanof (u : R) : nat := find_span_linear Rops p U (length P) u.
Definition cum (u : R) (i : nat) : R := Tb UF (spanof u) u p i.

Lemma UF_sorted : forall i, UF i <= UF (S i).
Proof. apply Ufun_sorted. exact Usorted. Qed.

Lemma Plen i : (i < length P)%nat -> length (pt_at P i) = dim.
Proof. intros Hi. rewrite Forall_forall in Hdim. apply Hdim. apply nth_In. exact Hi. Qed.

Lemma spanof_valid u : dom u -> (p <= spanof u < length P)%nat /\ validpt UF (spanof u) u.
Proof.
  intros Hu. unfold spanof. destruct (span_closed U u p (length P) Usorted Hn ltac:(lia) Hu) as [Hk [Hc Hne]].
  set (k := find_span_linear Rops p U (length P) u) in *. split; [exact Hk|].
  unfold validpt. rewrite !Ufun_in by lia. replace (S k) with (k + 1)%nat by lia. split; assumption.
Qed.

Lemma spanof_mono u u' : dom u -> dom u' -> u <= u' -> (spanof u <= spanof u')%nat.
Proof.
  intros [[Hlo Hhi] Hlast] [[Hlo' Hhi'] _] Hle. unfold spanof.
  destruct (find_span_linear_spec U u p (length P) Hn ltac:(lia) Hlo) as [Hk [H1 H2]].
  destruct (find_span_linear_spec U u' p (length P) Hn ltac:(lia) Hlo') as [Hk' [H1' H2']].
  set (k := find_span_linear Rops p U (length P) u) in *. set (k' := find_span_linear Rops p U (length P) u') in *.
  destruct (le_lt_dec k k') as [H|H]; [exact H|exfalso].
  assert (knR U (S k') <= knR U k) by (apply Usorted; lia).
  destruct H2' as [H2'|[H2' _]]; [lra|lia].
Qed.

Lemma curve_point_len u : dom u -> length (C u) = dim.
Proof.
  intros Hu. destruct (spanof_valid u Hu) as [Hk _]. unfold curve_point. fold (spanof u).
  rewrite curve_point_at_fold. apply lincomb_length. intros i Hi. apply in_seq in Hi. apply Plen. lia.
Qed.

(* summation by parts:  C(u) = P_0 + sum_{i=1}^{n-1} T_i(u) (P_i - P_{i-1}),  coordinate-wise *)
Theorem curve_point_by_parts u c : dom u ->
  nth c (C u) 0 = nth c (pt_at P 0) 0 +
    Sg (fun i => cum u (S i) * (nth c (pt_at P (S i)) 0 - nth c (pt_at P i) 0)) (seq 0 (length P - 1)).
Proof.
  intros Hu. destruct (spanof_valid u Hu) as [Hk [Hc Hne]].
  unfold curve_point, cum. fold (spanof u). set (k := spanof u) in *.
  rewrite curve_point_at_fold.
  rewrite (lincomb_linfun dim _ _ (fun x => nth c x 0) _ (linfun_nth dim c)).
  2:{ intros i Hi. apply in_seq in Hi. apply Plen. lia. }
  set (x := fun i => nth c (pt_at P i) 0).
  rewrite (Sg_ext _ (fun r => (fun i => Mb UF k u p i * x i) (k - p + r)%nat)).
  2:{ intros r Hr. apply in_seq in Hr. cbv beta. rewrite bf_Ufun by lia.
      rewrite (bf_is_Mb UF UF_sorted k u Hne p) by lia. reflexivity. }
  rewrite (Sg_shift (fun i => Mb UF k u p i * x i) (k - p) (S p) 0).
  replace (k - p + 0)%nat with (k - p)%nat by lia.
  rewrite <- (Sg_window (fun i => Mb UF k u p i * x i) (k - p) (S p) (length P)).
  2: lia.
  2:{ intros i Hi. rewrite Mb_support by lia. ring. }
  2:{ intros i Hi. rewrite Mb_support by lia. ring. }
  rewrite (Sg_ext _ (fun i => (Tb UF k u p i - Tb UF k u p (S i)) * x i)) by (intros i _; rewrite <- Mb_diff; reflexivity).
  rewrite (Sg_abel' (Tb UF k u p) x (length P)) by lia.
  rewrite (Tb_full UF k u p 0) by lia. rewrite (Tb_out UF k u p (length P)) by lia. unfold x. ring.
Qed.

Lemma cum_mono u u' i : dom u -> dom u' -> u <= u' -> cum u i <= cum u' i.
Proof.
  intros Hu Hu' Hle. destruct (spanof_valid u Hu) as [_ V]. destruct (spanof_valid u' Hu') as [_ V'].
  unfold cum. apply Tb_mono; auto using UF_sorted, spanof_mono.
Qed.
Lemma cum_range u i : dom u -> 0 <= cum u i <= 1.
Proof.
  intros Hu. destruct (spanof_valid u Hu) as [_ V]. unfold cum. split.
  - apply Tb_nonneg; auto using UF_sorted.
  - apply Tb_le1; auto using UF_sorted.
Qed.

(* two points of the curve are at most  sum_i (T_i(u') - T_i(u)) |P_i - P_{i-1}|  apart *)
Theorem dist_curve_le u u' : dom u -> dom u' -> u <= u' ->
  dist (C u) (C u') <= Sg (fun i => (cum u' (S i) - cum u (S i)) * dist (pt_at P i) (pt_at P (S i))) (seq 0 (length P - 1)).
Proof.
  intros Hu Hu' Hle. rewrite dist_vnorm.
  assert (Hedge : forall i, In i (seq 0 (length P - 1)) -> length (vsub Rops (pt_at P i) (pt_at P (S i))) = dim).
  { intros i Hi. apply in_seq in Hi. rewrite vsub_length; rewrite !Plen; lia. }
  assert (E : vsub Rops (C u) (C u') =
     fold_axpy (fun i => cum u' (S i) - cum u (S i)) (fun i => vsub Rops (pt_at P i) (pt_at P (S i))) (seq 0 (length P - 1)) (vzero Rops dim)).
  { apply nth_ext with (d := 0) (d' := 0).
    - rewrite vsub_length by (rewrite !curve_point_len; auto). rewrite (lincomb_length dim) by exact Hedge.
      apply curve_point_len. exact Hu.
    - intros c _. rewrite vsub_nth by (rewrite !curve_point_len; auto).
      rewrite (lincomb_linfun dim _ _ (fun x => nth c x 0) _ (linfun_nth dim c)) by exact Hedge.
      rewrite !curve_point_by_parts by assumption.
      set (x := fun i => nth c (pt_at P i) 0).
      rewrite (Sg_ext (fun i => (cum u' (S i) - cum u (S i)) * nth c (vsub Rops (pt_at P i) (pt_at P (S i))) 0)
                      (fun i => cum u (S i) * (x (S i) - x i) - cum u' (S i) * (x (S i) - x i))).
      2:{ intros i Hi. apply in_seq in Hi. rewrite vsub_nth by (rewrite !Plen; lia). unfold x. ring. }
      rewrite Sg_minus. unfold x. lra. }
  rewrite E. eapply Rle_trans; [apply (vnorm_lincomb dim); exact Hedge|].
  apply Req_le. apply Sg_ext. intros i _. rewrite Rabs_pos_eq; [reflexivity|].
  pose proof (cum_mono u u' (S i) Hu Hu' Hle). lra.
Qed.

Lemma polyline_le_cum : forall us u, dom u -> Forall (fun v => dom v) us -> chain u us ->
  polyline_len (map C (u :: us)) <=
  Sg (fun i => (cum (last us u) (S i) - cum u (S i)) * dist (pt_at P i) (pt_at P (S i))) (seq 0 (length P - 1)).
Proof.
  induction us as [|v r IH]; intros u Hu Hus Hch.
  - cbn [map last]. apply Req_le. rewrite Sg_zero; [reflexivity|]. intros i _. ring.
  - apply Forall_cons_iff in Hus. destruct Hus as [Hv Hr]. destruct Hch as [Huv Hch].
    cbn [map]. rewrite polyline_len_cons. rewrite last_cons2.
    eapply Rle_trans; [apply Rplus_le_compat; [apply (dist_curve_le u v Hu Hv Huv)|apply (IH v Hv Hr Hch)]|].
    rewrite <- Sg_plus. apply Req_le. apply Sg_ext. intros i _. ring.
Qed.

(* [G] the polyline through the points evaluated at a non-decreasing parameter sequence is not longer than the control polygon *)
Theorem polyline_le_control_polygon (us : list R) :
  Forall (fun u => dom u) us -> (forall i j, (i <= j < length us)%nat -> nth i us 0 <= nth j us 0) ->
  polyline_len (map C us) <= polyline_len P.
Proof.
  intros Hus Hsorted. destruct us as [|u us]; [apply polyline_len_nonneg|].
  apply Forall_cons_iff in Hus. destruct Hus as [Hu Hus].
  eapply Rle_trans; [apply (polyline_le_cum us u Hu Hus (chain_of_sorted us u Hsorted))|].
  rewrite (polyline_len_Sg P). apply Sg_le. intros i _.
  assert (Hl : dom (last us u)) by (apply (Forall_last (fun v => dom v)); assumption).
  pose proof (cum_range (last us u) (S i) Hl). pose proof (cum_range u (S i) Hu).
  assert (0 <= dist (pt_at P i) (pt_at P (S i))) by apply sqrt_pos.
  rewrite <- (Rmult_1_l (dist (pt_at P i) (pt_at P (S i)))) at 2. apply Rmult_le_compat_r; lra.
Qed.
End CurveLen.

(* the statement recorded as Definition C18_polyline_le_control_polygon_full in Props/C18.v *)
Theorem polyline_le_control_polygon_full :
  forall (dim p : nat) (U : list R) (P : list (list R)) (us : list R),
  sortedR U -> (p < length P)%nat -> length U = (length P + p + 1)%nat -> Forall (fun q => length q = dim) P ->
  Forall (fun u => in_domain p U (length P) u) us -> (forall i j, (i <= j < length us)%nat -> nth i us 0 <= nth j us 0) ->
  polyline_len (map (curve_point Rops dim p U P) us) <= polyline_len P.
Proof. intros dim p U P us Hs Hn HU Hd Hus Hso. apply polyline_le_control_polygon; auto. lia. Qed.
Print Assumptions polyline_le_control_polygon_full.

(* ================= 6. the classical corner-cutting facts (not needed for the theorem above) ================= *)
Lemma dist_refl a : dist a a = 0.
Proof. unfold dist. rewrite sqdist_refl. apply sqrt_0. Qed.

(* [G] skipping vertices does not lengthen a polygon *)
Inductive subl {A : Type} : list A -> list A -> Prop :=
| subl_nil : subl [] []
| subl_skip a l' l : subl l' l -> subl l' (a :: l)
| subl_keep a l' l : subl l' l -> subl (a :: l') (a :: l).

Lemma subl_Forall {A} (Q : A -> Prop) l' l : subl l' l -> Forall Q l -> Forall Q l'.
Proof.
  induction 1 as [|a l' l H IH|a l' l H IH]; intros HF; [constructor| |]; apply Forall_cons_iff in HF; destruct HF as [Ha HF].
  - apply IH. exact HF.
  - constructor; [exact Ha|apply IH; exact HF].
Qed.
Lemma polyline_skip_from dim l' l : subl l' l -> Forall (fun q => length q = dim) l ->
  forall a, length a = dim -> polyline_len (a :: l') <= polyline_len (a :: l).
Proof.
  induction 1 as [|c l' l H IH|c l' l H IH]; intros HF a Ha.
  - lra.
  - apply Forall_cons_iff in HF. destruct HF as [Hc HF]. rewrite (polyline_len_cons a c l).
    specialize (IH HF c Hc). destruct l' as [|b l''].
    + pose proof (polyline_len_nonneg (c :: l)). assert (0 <= dist a c) by apply sqrt_pos.
      change (polyline_len [a]) with 0. lra.
    + rewrite polyline_len_cons in *.
      assert (Hb : length b = dim).
      { pose proof (subl_Forall _ _ _ H HF) as HF'. apply Forall_cons_iff in HF'. tauto. }
      pose proof (dist_triangle a c b ltac:(lia) ltac:(lia)). lra.
  - apply Forall_cons_iff in HF. destruct HF as [Hc HF]. rewrite !polyline_len_cons. specialize (IH HF c Hc). lra.
Qed.
Theorem polyline_skip dim l' l : subl l' l -> Forall (fun q => length q = dim) l -> polyline_len l' <= polyline_len l.
Proof.
  induction 1 as [|c l' l H IH|c l' l H IH]; intros HF.
  - lra.
  - apply Forall_cons_iff in HF. destruct HF as [Hc HF]. specialize (IH HF).
    destruct l as [|b l0]; [change (polyline_len [c]) with 0; exact IH|].
    rewrite polyline_len_cons. assert (0 <= dist c b) by apply sqrt_pos. lra.
  - apply Forall_cons_iff in HF. destruct HF as [Hc HF]. apply (polyline_skip_from dim); assumption.
Qed.

(* [G] one corner-cutting step (the shape of one knot insertion: Q_0 = P_0, Q_n = P_{n-1}, Q_i on the edge P_{i-1} P_i)
   does not lengthen the polygon; "on the edge" is stated metrically *)
Theorem corner_cut_le dim (P Q : list (list R)) :
  Forall (fun q => length q = dim) P -> Forall (fun q => length q = dim) Q ->
  P <> [] -> length Q = S (length P) ->
  pt_at Q 0 = pt_at P 0 -> pt_at Q (length P) = pt_at P (length P - 1) ->
  (forall i, (1 <= i < length P)%nat ->
     dist (pt_at P (i - 1)) (pt_at Q i) + dist (pt_at Q i) (pt_at P i) = dist (pt_at P (i - 1)) (pt_at P i)) ->
  polyline_len Q <= polyline_len P.
Proof.
  intros HP HQ Hne HlenQ H0 Hn Hseg.
  assert (Hn1 : (1 <= length P)%nat) by (destruct P; [congruence|cbn [length]; lia]).
  assert (LP : forall i, (i < length P)%nat -> length (pt_at P i) = dim).
  { intros i Hi. rewrite Forall_forall in HP. apply HP. apply nth_In. exact Hi. }
  assert (LQ : forall i, (i <= length P)%nat -> length (pt_at Q i) = dim).
  { intros i Hi. rewrite Forall_forall in HQ. apply HQ. apply nth_In. lia. }
  rewrite (polyline_len_Sg Q), (polyline_len_Sg P), HlenQ. replace (S (length P) - 1)%nat with (length P) by lia.
  apply Rle_trans with (Sg (fun i => dist (pt_at Q i) (pt_at P i) + dist (pt_at P i) (pt_at Q (S i))) (seq 0 (length P))).
  { apply Sg_le. intros i Hi. apply in_seq in Hi. apply dist_triangle; rewrite ?LP, ?LQ by lia; reflexivity. }
  rewrite Sg_plus.
  replace (length P) with (S (length P - 1)) at 1 by lia. cbn [seq]. rewrite Sg_cons, H0, dist_refl.
  change (seq 1 (length P - 1)) with (seq (1 + 0) (length P - 1)).
  rewrite <- (Sg_shift (fun i => dist (pt_at Q i) (pt_at P i)) 1 (length P - 1) 0).
  replace (length P) with (S (length P - 1)) at 2 by lia. rewrite seq_S, Sg_app, Sg_cons, Sg_nil. cbn [Nat.add].
  replace (S (length P - 1)) with (length P) by lia. rewrite Hn, dist_refl.
  rewrite <- (Sg_ext (fun i => dist (pt_at P i) (pt_at Q (S i)) + dist (pt_at Q (S i)) (pt_at P (S i)))
                     (fun i => dist (pt_at P i) (pt_at P (S i))) (seq 0 (length P - 1))).
  2:{ intros i Hi. apply in_seq in Hi. pose proof (Hseg (S i) ltac:(lia)) as E. replace (S i - 1)%nat with i in E by lia. exact E. }
  rewrite Sg_plus. cbn [Nat.add]. lra.
Qed.

(* a convex combination of the two end points lies on the edge in the metric sense *)
Lemma vnorm_scaled k : forall v w, length v = length w -> (forall c, nth c v 0 = k * nth c w 0) -> vnorm v = Rabs k * vnorm w.
Proof.
  induction v as [|x v IH]; intros [|y w] Hl Hc; cbn [length] in Hl; try discriminate.
  - rewrite vnorm_nil. ring.
  - rewrite !vnorm_cons. rewrite (IH w) by (try lia; intros c; apply (Hc (S c))).
    pose proof (Hc 0%nat) as E. cbn [nth] in E. rewrite E.
    pose proof (Rabs_pos k) as Hk. assert (HK : Rabs k * Rabs k = k * k) by (unfold Rabs; destruct (Rcase_abs k); ring).
    replace (k * y * (k * y)) with ((k * k) * (y * y)) by ring. rewrite <- HK.
    replace (Rabs k * Rabs k * (y * y) + Rabs k * vnorm w * (Rabs k * vnorm w)) with ((Rabs k * Rabs k) * (y * y + vnorm w * vnorm w)) by ring.
    rewrite sqrt_mult_alt by (apply sq_nonneg). rewrite sqrt_square by exact Hk. reflexivity.
Qed.
Theorem convex_comb_on_edge (A B Qp : list R) (a : R) : length A = length B -> length Qp = length A -> 0 <= a <= 1 ->
  (forall c, nth c Qp 0 = a * nth c B 0 + (1 - a) * nth c A 0) ->
  dist A Qp + dist Qp B = dist A B.
Proof.
  intros HAB HQ Ha Hc. rewrite !dist_vnorm.
  rewrite (vnorm_scaled a (vsub Rops A Qp) (vsub Rops A B)).
  2:{ rewrite !vsub_length; lia. }
  2:{ intros c. destruct (lt_dec c (length A)) as [Hlt|Hge].
      - rewrite !vsub_nth by lia. rewrite Hc. ring.
      - rewrite !nth_overflow by (rewrite vsub_length; lia). ring. }
  rewrite (vnorm_scaled (1 - a) (vsub Rops Qp B) (vsub Rops A B)).
  2:{ rewrite !vsub_length; lia. }
  2:{ intros c. destruct (lt_dec c (length A)) as [Hlt|Hge].
      - rewrite !vsub_nth by lia. rewrite Hc. ring.
      - rewrite !nth_overflow by (rewrite vsub_length; lia). ring. }
  rewrite !Rabs_pos_eq by lra. ring.
Qed.
Print Assumptions corner_cut_le.
