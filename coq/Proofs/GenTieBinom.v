(* Tie: generated linalg.binomial_coefficient (Gen/LinalgMat.v) = Model/Degree.v binomial_coefficient (= ofnatb (binom k i),
   Pascal's rule) and = the injection of Model/LinAlg.v binomial_coefficient (an N, by factorials).
   The source computes float(k! / ((k-i)! i!)): the exact quotient of two integers injected into the scalars.  That this is
   the injection of the integer binom k i needs (1) binom k i * ((k-i)! i!) = k! (proved here, over nat) and (2) a law of the
   scalars, bin_laws K: nat_laws K (unary = binary injection) and exact division of injected integers,
   ofpos (a * b) / ofpos b = ofpos a; both proved for Rops and Qops. *)
From Coq Require Import List ZArith Arith Bool Lia QArith Qreals Reals Lra NArith Factorial.
From NV Require Import Scalar.Ops Model.Common Model.LinAlg Model.Degree Gen.Prelude Gen.PreludeExt Gen.LinalgMat
  Proofs.GenTieLib Proofs.GenTieLib2 Proofs.GenTieSums Proofs.GenTieDegree.
Import ListNotations.
Local Open Scope nat_scope.

(* ---- the integers ---- *)
Lemma binom_gt k : forall i, k < i -> binom k i = 0.
Proof.
  induction k as [|k IH]; intros [|i] H; try lia; [reflexivity|].
  cbn [binom]. rewrite !IH by lia. reflexivity.
Qed.

Lemma binom_fact k : forall i, i <= k -> binom k i * (fact (k - i) * fact i) = fact k.
Proof.
  induction k as [|k IH]; intros i Hi.
  - assert (i = 0) by lia. subst. reflexivity.
  - destruct i as [|i].
    + cbn [binom]. rewrite Nat.sub_0_r. cbn [fact]. lia.
    + cbn [binom]. replace (S k - S i) with (k - i) by lia.
      destruct (Nat.eq_dec i k) as [->|Hne].
      * rewrite (binom_gt k (S k)) by lia. assert (E := IH k (le_n k)). rewrite Nat.sub_diag in *.
        change (fact (S k)) with (S k * fact k). rewrite Nat.add_0_r. 
        transitivity (S k * (binom k k * (fact 0 * fact k))); [ring|]. rewrite E. reflexivity.
      * assert (E1 := IH i ltac:(lia)). assert (E2 := IH (S i) ltac:(lia)).
        replace (k - i) with (S (k - S i)) in * by lia.
        change (fact (S (k - S i))) with (S (k - S i) * fact (k - S i)) in *.
        change (fact (S k)) with (S k * fact k).
        set (a := binom k i) in *. set (b := binom k (S i)) in *. set (f1 := fact (k - S i)) in *.
        set (fsi := fact (S i)) in *.
        assert (Efs : fsi = S i * fact i) by reflexivity.
        transitivity (S i * (a * (S (k - S i) * f1 * fact i)) + S (k - S i) * (b * (f1 * fsi))).
        { rewrite Efs. ring. }
        rewrite E1, E2. replace (S k) with (S i + S (k - S i)) by lia. ring.
Qed.

Lemma fact_pos n : 1 <= fact n.
Proof. induction n; simpl; lia. Qed.

Lemma binom_pos k i : i <= k -> 1 <= binom k i.
Proof.
  intros H. assert (E := binom_fact k i H). assert (P := fact_pos k). destruct (binom k i); [simpl in E; lia|lia].
Qed.

Lemma zfact_nat_fact n : zfact_nat n = Z.of_nat (fact n).
Proof. induction n; [reflexivity|]. cbn [zfact_nat]. rewrite IHn. change (fact (S n)) with (S n * fact n). now rewrite Nat2Z.inj_mul. Qed.

Lemma Z_of_nat_pos n : 1 <= n -> Z.of_nat n = Zpos (Pos.of_nat n).
Proof. intros H. rewrite <- (Nat2Pos.id n) at 1 by lia. apply positive_nat_Z. Qed.

(* the model of Model/LinAlg.v (an N, by factorials) is the same number *)
Lemma factN_fact n : factN n = N.of_nat (fact n).
Proof. induction n; [reflexivity|]. cbn [factN]. rewrite IHn. change (fact (S n)) with (S n * fact n). now rewrite Nat2N.inj_mul. Qed.
Lemma binomN_binom k i : LinAlg.binomial_coefficient k i = N.of_nat (binom k i).
Proof.
  unfold LinAlg.binomial_coefficient. destruct (Nat.ltb_spec k i) as [H|H]; [now rewrite binom_gt|].
  rewrite !factN_fact. rewrite <- (binom_fact k i H) at 1. rewrite !Nat2N.inj_mul. apply N.div_mul.
  assert (P1 := fact_pos (k - i)). assert (P2 := fact_pos i). lia.
Qed.

(* ---- the scalars ---- *)
Record bin_laws {T : Type} (K : ops T) : Prop := mkBinLaws {
  bl_nat : nat_laws K;
  bl_div : forall a b : positive, odiv K (ofpos K (a * b)) (ofpos K b) = ofpos K a }.

Section Inj.
Context {T : Type} (K : ops T) (NL : nat_laws K).
(* the binary injection of Gen/Prelude.v is the unary one *)
Lemma ofpos_ofnat (p : positive) : ofpos K p = ofnat K (Pos.to_nat p).
Proof.
  induction p as [p IH|p IH|]; cbn [ofpos].
  - rewrite IH, Pos2Nat.inj_xI. replace (S (2 * Pos.to_nat p)) with (S (Pos.to_nat p + Pos.to_nat p)) by lia.
    cbn [ofnat]. rewrite (ofnat_add K NL) by (assert (H := Pos2Nat.is_pos p); lia). reflexivity.
  - rewrite IH, Pos2Nat.inj_xO. replace (2 * Pos.to_nat p) with (Pos.to_nat p + Pos.to_nat p) by lia.
    rewrite (ofnat_add K NL) by (assert (H := Pos2Nat.is_pos p); lia). reflexivity.
  - symmetry. apply (ofnat_1 K NL).
Qed.

Lemma ofpos_ofnatb (n : nat) : 1 <= n -> ofpos K (Pos.of_nat n) = ofnatb K n.
Proof. intros H. rewrite ofpos_ofnat, Nat2Pos.id by lia. unfold ofnatb. now rewrite (ofnat_bin_ofnat K NL). Qed.
End Inj.

Section Tie.
Context {T : Type} (K : ops T) (BL : bin_laws K).
Let NL := bl_nat K BL.

(* wf: none (k, i natural numbers; a negative argument raises ValueError in math.factorial or returns 0.0) *)
Theorem binomial_coefficient_tie (k i : nat) :
  LinalgMat.binomial_coefficient K (Z.of_nat k) (Z.of_nat i) = GOk (Degree.binomial_coefficient K k i).
Proof.
  unfold LinalgMat.binomial_coefficient, Degree.binomial_coefficient.
  destruct (Z.ltb_spec (Z.of_nat k) (Z.of_nat i)) as [H|H].
  - rewrite binom_gt by lia. reflexivity.
  - assert (Hik : i <= k) by lia.
    unfold zfact_chk.
    replace (Z.of_nat k - Z.of_nat i)%Z with (Z.of_nat (k - i)) by lia.
    destruct (Z.ltb_spec (Z.of_nat k) 0); [lia|]. destruct (Z.ltb_spec (Z.of_nat i) 0); [lia|].
    destruct (Z.ltb_spec (Z.of_nat (k - i)) 0); [lia|]. cbn [gbind]. rewrite !Nat2Z.id, !zfact_nat_fact.
    rewrite (Z_of_nat_pos (fact k)), (Z_of_nat_pos (fact (k - i))), (Z_of_nat_pos (fact i)) by apply fact_pos.
    unfold zdiv_chk. cbn [Z.mul Z.eqb gbind]. unfold oratio, rdiv. cbn [Qdiv Qmult Qinv inject_Z Qnum Qden Z.mul Pos.mul olitz].
    rewrite Pos.mul_1_r.
    assert (E : Pos.of_nat (fact k) = (Pos.of_nat (binom k i) * (Pos.of_nat (fact (k - i)) * Pos.of_nat (fact i)))%positive).
    { assert (P0 := binom_pos k i Hik). assert (P1 := fact_pos (k - i)). assert (P2 := fact_pos i).
      rewrite <- !Nat2Pos.inj_mul by lia. now rewrite binom_fact. }
    rewrite E, (bl_div K BL). f_equal. apply (ofpos_ofnatb K NL). now apply binom_pos.
Qed.

(* the same in terms of the model of Model/LinAlg.v: the scalar is the (binary) injection of that natural number *)
Corollary binomial_coefficient_tie_N (k i : nat) :
  LinalgMat.binomial_coefficient K (Z.of_nat k) (Z.of_nat i) = GOk (ofnatb K (N.to_nat (LinAlg.binomial_coefficient k i))).
Proof. rewrite binomial_coefficient_tie, binomN_binom, Nat2N.id. reflexivity. Qed.
End Tie.

(* ---- the two instances ---- *)
Lemma ofnat_R n : ofnat Rops n = INR n.
Proof. induction n; [reflexivity|]. cbn [ofnat]. rewrite IHn, S_INR. reflexivity. Qed.

Lemma Rops_bin_laws : bin_laws Rops.
Proof.
  constructor; [apply Rops_nat_laws|]. intros a b.
  rewrite !(ofpos_ofnat Rops Rops_nat_laws), !ofnat_R, Pos2Nat.inj_mul, mult_INR. cbn [odiv Rops].
  assert (H : INR (Pos.to_nat b) <> 0%R) by (apply not_0_INR; assert (P := Pos2Nat.is_pos b); lia).
  field. exact H.
Qed.

Lemma ofnat_Q n : ofnat Qops n = Qred (inject_Z (Z.of_nat n)).
Proof.
  induction n; [reflexivity|]. cbn [ofnat]. rewrite IHn. cbn [oadd o1 Qops]. apply Qred_complete.
  rewrite Qred_correct. unfold inject_Z, Qeq, Qplus. cbn [Qnum Qden]. lia.
Qed.

Lemma Qops_bin_laws : bin_laws Qops.
Proof.
  constructor; [apply Qops_nat_laws|]. intros a b.
  rewrite !(ofpos_ofnat Qops Qops_nat_laws), !ofnat_Q. cbn [odiv Qops]. apply Qred_complete.
  rewrite !Qred_correct, !positive_nat_Z. unfold inject_Z, Qeq, Qdiv, Qmult, Qinv. cbn [Qnum Qden]. rewrite Pos2Z.inj_mul. cbn [Z.mul Pos.mul]. lia.
Qed.

Definition binomial_coefficient_tie_R := @binomial_coefficient_tie _ Rops Rops_bin_laws.
Definition binomial_coefficient_tie_Q := @binomial_coefficient_tie _ Qops Qops_bin_laws.
Definition binomial_coefficient_tie_N_R := @binomial_coefficient_tie_N _ Rops Rops_bin_laws.
Definition binomial_coefficient_tie_N_Q := @binomial_coefficient_tie_N _ Qops Qops_bin_laws.

(* ---- non-vacuity ---- *)
Local Open Scope Q_scope.
Example binomial_ex :
  LinalgMat.binomial_coefficient Qops 20 7 = GOk 77520 /\ Degree.binomial_coefficient Qops 20 7 = 77520
  /\ LinAlg.binomial_coefficient 20 7 = 77520%N
  /\ LinalgMat.binomial_coefficient Qops 5 0 = GOk 1 /\ LinalgMat.binomial_coefficient Qops 3 4 = GOk 0
  /\ LinalgMat.binomial_coefficient Qops (-1) (-2) = GErr ValueError.
Proof. repeat split; vm_compute; reflexivity. Qed.
