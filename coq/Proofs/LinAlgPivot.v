(* matrix_pivot returns a genuine permutation (all sizes); lu_factor and matrix_inverse are correct given
   non-zero pivots (all sizes); determinant = Leibniz formula for n <= 3. *)
From Coq Require Import List Reals Lra Lia Arith Bool Permutation.
From NV Require Import Scalar.Ops Model.Common Model.LinAlg Proofs.LinAlgSums Proofs.LinAlgR Proofs.LinAlgSolve.
Import ListNotations.
Open Scope R_scope.

Definition rows_by (m : list (list R)) (s : list nat) : list (list R) := map (fun i => nth i m []) s.
Definition permI (n : nat) (s : list nat) : Prop :=
  length s = n /\ (forall i, (i < n)%nat -> (nth i s 0 < n)%nat) /\
  (forall i j, (i < n)%nat -> (j < n)%nat -> nth i s 0%nat = nth j s 0%nat -> i = j).

Lemma argmax_range mp j n : (j < n)%nat -> (j <= argmax_col Rops mp j n < n)%nat.
Proof.
  intros Hj. unfold argmax_col.
  assert (G : forall l (st : R * nat), (forall i, In i l -> (j <= i < n)%nat) -> (j <= snd st < n)%nat ->
     (j <= snd (fold_left (fun (st : R * nat) i => let a := oabs Rops (g2 mp i j) in if oltb Rops (fst st) a then (a, i) else st) l st) < n)%nat).
  { induction l as [|i l IH]; intros st Hl Hst; [exact Hst|].
    cbn [fold_left]. apply IH; [intros; apply Hl; right; assumption|].
    cbv zeta. destruct (oltb Rops (fst st) (oabs Rops (g2 mp i j))); [cbn [snd]; apply Hl; left; reflexivity|exact Hst]. }
  apply G; [intros i Hi; apply in_seq in Hi; lia|cbn [snd]; lia].
Qed.

Lemma permI_length n s : permI n s -> length s = n.
Proof. intros [H _]. exact H. Qed.
Lemma rows_by_length m s : length (rows_by m s) = length s.
Proof. apply map_length. Qed.
Lemma rows_by_nth m s i : (i < length s)%nat -> nth i (rows_by m s) [] = nth (nth i s 0%nat) m [].
Proof. intros H. unfold rows_by. rewrite (nth_map' _ s i _ 0%nat) by exact H. reflexivity. Qed.
Lemma swap_rows_by m s a b : (a < length s)%nat -> (b < length s)%nat ->
  swap [] (rows_by m s) a b = rows_by m (swap 0%nat s a b).
Proof.
  intros Ha Hb. apply (nth_ext _ _ [] []); [rewrite length_swap, !rows_by_length, length_swap; reflexivity|].
  intros i Hi. rewrite length_swap, rows_by_length in Hi.
  rewrite nth_swap by (rewrite rows_by_length; assumption).
  rewrite (rows_by_nth m (swap 0%nat s a b) i) by (rewrite length_swap; exact Hi). rewrite nth_swap by assumption.
  rewrite !rows_by_nth by assumption.
  destruct (Nat.eqb i b); [reflexivity|]. destruct (Nat.eqb i a); reflexivity.
Qed.
Lemma permI_swap n s a b : permI n s -> (a < n)%nat -> (b < n)%nat -> permI n (swap 0%nat s a b).
Proof.
  intros (HL & Hb & Hinj) Ha Hbb. split; [rewrite length_swap; exact HL|]. split.
  - intros i Hi. rewrite nth_swap by lia. destruct (Nat.eqb i b); [apply Hb; lia|]. destruct (Nat.eqb i a); apply Hb; lia.
  - intros i j Hi Hj. rewrite !nth_swap by lia.
    destruct (Nat.eqb_spec i b), (Nat.eqb_spec i a), (Nat.eqb_spec j b), (Nat.eqb_spec j a); intros E; apply Hinj in E; lia.
Qed.
Lemma permI_seq n : permI n (seq 0 n).
Proof.
  split; [apply seq_length|]. split.
  - intros i Hi. rewrite seq_nth by exact Hi. lia.
  - intros i j Hi Hj. rewrite !seq_nth by assumption. lia.
Qed.
Lemma permI_Permutation n s : permI n s -> Permutation s (seq 0 n).
Proof.
  intros (HL & Hb & Hinj). apply NoDup_Permutation_bis.
  - apply (NoDup_nth s 0%nat). intros i j Hi Hj. apply Hinj; lia.
  - rewrite seq_length. lia.
  - intros x Hx. destruct (In_nth _ _ 0%nat Hx) as [i [Hi <-]]. apply in_seq. split; [lia|]. cbn. apply Hb. lia.
Qed.
Lemma permI_surj n s r : permI n s -> (r < n)%nat -> exists i, (i < n)%nat /\ nth i s 0%nat = r.
Proof.
  intros Hp Hr. assert (Hin : In r s).
  { apply (Permutation_in (l := seq 0 n)); [apply Permutation_sym, permI_Permutation, Hp|apply in_seq; lia]. }
  destruct (In_nth _ _ 0%nat Hin) as [i [Hi E]]. destruct Hp as (HL & _). exists i. split; [lia|exact E].
Qed.

Lemma pivot_step_cases n (st : list (list R) * list (list R) * nat) j : (j < n)%nat ->
  exists row, (j <= row < n)%nat /\
    pivot_step Rops n st j = if Nat.eqb j row then st
                             else (swap [] (fst (fst st)) j row, swap [] (snd (fst st)) j row, S (snd st)).
Proof.
  intros Hj. exists (argmax_col Rops (fst (fst st)) j n). split; [apply argmax_range, Hj|reflexivity].
Qed.
Lemma pivot_fold m ident n : forall l (st : list (list R) * list (list R) * nat) s,
  (forall j, In j l -> (j < n)%nat) -> permI n s ->
  fst (fst st) = rows_by m s -> snd (fst st) = rows_by ident s ->
  exists s' ns, permI n s' /\ fold_left (pivot_step Rops n) l st = (rows_by m s', rows_by ident s', ns).
Proof.
  induction l as [|j l IH]; intros st s Hl Hs E1 E2.
  - exists s, (snd st). split; [exact Hs|]. destruct st as [[a b] c]. cbn in *. subst. reflexivity.
  - cbn [fold_left]. assert (Hj : (j < n)%nat) by (apply Hl; left; reflexivity).
    destruct (pivot_step_cases n st j Hj) as (row & Hrow & ->).
    destruct (Nat.eqb j row).
    + apply (IH st s); auto. intros; apply Hl; right; assumption.
    + apply (IH _ (swap 0%nat s j row)).
      * intros; apply Hl; right; assumption.
      * apply permI_swap; [exact Hs|lia|lia].
      * cbn [fst snd]. rewrite E1. destruct Hs as (HL & _). apply swap_rows_by; lia.
      * cbn [fst snd]. rewrite E2. destruct Hs as (HL & _). apply swap_rows_by; lia.
Qed.

Lemma rows_by_seq m : rows_by m (seq 0 (length m)) = m.
Proof. apply map_nth_seq. Qed.

(* [G] matrix_pivot: the two returned matrices are the rows of M and of the identity under ONE permutation *)
Theorem pivot_is_permutation m ident : length ident = length m ->
  exists s ns, pivot_with Rops ident m = (rows_by m s, rows_by ident s, ns) /\
               permI (length m) s /\ Permutation s (seq 0 (length m)).
Proof.
  intros HI. unfold pivot_with.
  destruct (pivot_fold m ident (length m) (seq 0 (length m)) (m, ident, 0%nat) (seq 0 (length m))) as (s & ns & Hs & E).
  - intros j Hj. apply in_seq in Hj. lia.
  - apply permI_seq.
  - cbn [fst]. symmetry. apply rows_by_seq.
  - cbn [fst snd]. rewrite <- HI. symmetry. apply rows_by_seq.
  - exists s, ns. split; [exact E|]. split; [exact Hs|apply permI_Permutation, Hs].
Qed.

(* entries of the permutation matrix: exactly one 1 per row, at column s_i *)
Lemma perm_matrix_entry n s i j : permI n s -> (i < n)%nat -> (j < n)%nat ->
  g2 (rows_by (matrix_identity Rops n) s) i j = if Nat.eqb j (nth i s 0%nat) then 1 else 0.
Proof.
  intros (HL & Hb & _) Hi Hj. unfold get2. rewrite rows_by_nth by lia.
  apply (identity_entry n (nth i s 0%nat) j); [apply Hb, Hi|exact Hj].
Qed.
Lemma rows_by_entry m s i j : (i < length s)%nat -> g2 (rows_by m s) i j = g2 m (nth i s 0%nat) j.
Proof. intros Hi. unfold get2. rewrite rows_by_nth by exact Hi. reflexivity. Qed.
Lemma rows_by_rect n c m s : permI n s -> rect n c m -> rect n c (rows_by m s).
Proof.
  intros (HL & Hb & _) Hm. split; [rewrite rows_by_length; exact HL|].
  intros row Hin. destruct (In_nth _ _ [] Hin) as [i [Hi <-]]. rewrite rows_by_length in Hi.
  rewrite rows_by_nth by exact Hi. apply (rect_nth n c); [exact Hm|apply Hb; lia].
Qed.
(* P * B = rows of B in the order s *)
Lemma perm_mmul n dim s b : (0 < n)%nat -> permI n s -> rect n dim b ->
  mmul Rops (rows_by (matrix_identity Rops n) s) b = rows_by b s.
Proof.
  intros Hn Hs Hb. assert (Hhd : length (hd [] b) = dim) by (apply (rect_hd n dim); assumption).
  assert (HLs : length s = n) by (apply permI_length, Hs). assert (HLb : length b = n) by apply Hb.
  apply (mat_ext n dim).
  - pose proof (mmul_rect (rows_by (matrix_identity Rops n) s) b) as H. rewrite rows_by_length, HLs, Hhd in H. exact H.
  - apply rows_by_rect; assumption.
  - intros i j Hi Hj. rewrite mmul_entry by (rewrite ?rows_by_length, ?Hhd; lia). rewrite HLb.
    destruct Hs as (HL & Hbd & Hinj).
    rewrite (sumr_single 0 n (nth i s 0%nat)).
    + rewrite (perm_matrix_entry n s) by (try split; auto). rewrite Nat.eqb_refl. rewrite rows_by_entry by lia. ring.
    + split; [lia|]. cbn. apply Hbd, Hi.
    + intros k Hk Hne. rewrite (perm_matrix_entry n s) by (try split; auto; lia).
      destruct (Nat.eqb_spec k (nth i s 0%nat)); [contradiction|ring].
Qed.
Lemma rows_by_square n m s : permI n s -> rect n n m -> is_square (rows_by m s) = true.
Proof.
  intros Hs Hm. destruct (rows_by_rect n n m s Hs Hm) as [H1 H2]. unfold is_square. apply forallb_forall.
  intros r Hr. rewrite H1. apply Nat.eqb_eq, H2, Hr.
Qed.

Section Pivoted.
Variable A : list (list R).
Let n := length A.
Hypothesis Hn : (0 < n)%nat.
Hypothesis Hsq : is_square A = true.
Let t := pivot_with Rops (matrix_identity Rops n) A.
Let mp := fst (fst t).
Let p := snd (fst t).
Hypothesis Hpiv : forall i, (i < n)%nat -> g2 (snd (doolittle Rops mp)) i i <> 0.

Lemma pivoted_facts : exists s, permI n s /\ mp = rows_by A s /\ p = rows_by (matrix_identity Rops n) s.
Proof.
  destruct (pivot_is_permutation A (matrix_identity Rops n)) as (s & ns & E & Hs & _).
  { destruct (identity_rect n) as [H _]. exact H. }
  exists s. subst mp p t. fold n in E. rewrite E. cbn [fst snd]. auto.
Qed.

(* [G] lu_factor (with b := P b): A X = b *)
Theorem lu_factor_correct b dim : rect n dim b ->
  exists X, lu_factor Rops A b = Ok X /\ rect n dim X /\
    forall r c, (r < n)%nat -> (c < dim)%nat -> sumR 0 n (fun k => g2 A r k * g2 X k c) = g2 b r c.
Proof.
  intros Hb. destruct pivoted_facts as (s & Hs & Emp & Ep).
  assert (HA : rect n n A) by apply is_square_rect, Hsq.
  assert (Hmp_sq : is_square mp = true) by (rewrite Emp; apply (rows_by_square n); assumption).
  assert (Hmp_len : length mp = n) by (rewrite Emp, rows_by_length; apply permI_length, Hs).
  assert (Hpb : rect n dim (rows_by b s)) by (apply rows_by_rect; assumption).
  destruct (lu_solve_correct mp (rows_by b s) dim) as (X & EX & RX & HX); rewrite ?Hmp_len; try assumption.
  rewrite Hmp_len in RX, HX.
  exists X. split.
  - unfold lu_factor, lu_factor_with. destruct b as [|b0 b']; [destruct Hb as [Hb _]; cbn in Hb; lia|].
    unfold pivot_res. rewrite Hsq. cbn [res_bind]. fold n. fold t. fold mp. fold p.
    unfold lu_solve in EX. destruct (rows_by (b0 :: b') s) as [|pb0 pb'] eqn:Epb.
    { destruct Hpb as [Hpb _]. cbn in Hpb. lia. }
    unfold lu_decomposition in *. rewrite Hmp_sq in *. cbn [res_bind fst snd] in *.
    assert (Emm : matrix_multiply Rops p (b0 :: b') = Ok (pb0 :: pb')).
    { rewrite <- Epb, <- (perm_mmul n dim s (b0 :: b') Hn Hs Hb), <- Ep.
      apply (matrix_multiply_spec p (b0 :: b') (hd [] p)); [reflexivity| |discriminate|].
      - intros Hnil. assert (length p = n) by (rewrite Ep, rows_by_length; apply permI_length, Hs). rewrite Hnil in H. cbn in H. lia.
      - rewrite Ep. rewrite (rect_hd n n); [destruct Hb as [Hb _]; rewrite Hb; reflexivity| |exact Hn].
        apply rows_by_rect; [exact Hs|apply identity_rect]. }
    rewrite Emm. cbn [res_bind]. exact EX.
  - split; [exact RX|]. intros r c Hr Hc. destruct (permI_surj n s r Hs Hr) as (i & Hi & <-).
    rewrite <- (rows_by_entry b s i c) by (destruct Hs as [HL _]; lia). rewrite <- (HX i c Hi Hc).
    apply sumr_ext. intros k _. rewrite Emp, rows_by_entry by (destruct Hs as [HL _]; lia). reflexivity.
Qed.

(* [G] matrix_inverse: M * M^-1 = I *)
Theorem matrix_inverse_correct :
  exists X, matrix_inverse Rops A = Ok X /\ rect n n X /\
    forall r c, (r < n)%nat -> (c < n)%nat -> sumR 0 n (fun k => g2 A r k * g2 X k c) = if Nat.eqb c r then 1 else 0.
Proof.
  destruct pivoted_facts as (s & Hs & Emp & Ep).
  assert (HA : rect n n A) by apply is_square_rect, Hsq.
  assert (Hmp_sq : is_square mp = true) by (rewrite Emp; apply (rows_by_square n); assumption).
  assert (Hmp_len : length mp = n) by (rewrite Emp, rows_by_length; apply permI_length, Hs).
  assert (Hp : rect n n p) by (rewrite Ep; apply rows_by_rect; [exact Hs|apply identity_rect]).
  destruct (lu_solve_correct mp p n) as (X & EX & RX & HX); rewrite ?Hmp_len; try assumption.
  rewrite Hmp_len in RX, HX.
  exists X. split.
  - unfold matrix_inverse, matrix_inverse_with, pivot_res. rewrite Hsq. cbn [res_bind]. exact EX.
  - split; [exact RX|]. intros r c Hr Hc. destruct (permI_surj n s r Hs Hr) as (i & Hi & <-).
    rewrite <- (perm_matrix_entry n s i c Hs Hi Hc). rewrite <- Ep. rewrite <- (HX i c Hi Hc).
    apply sumr_ext. intros k _. rewrite Emp, rows_by_entry by (destruct Hs as [HL _]; lia). reflexivity.
Qed.
End Pivoted.
