(* Ties: generated linalg.matrix_identity / matrix_pivot (both variants of the static flag `sign`) = Model/LinAlg.v,
   for every scalar instance (no law is used).  matrix_identity: the undecorated function (lru_cache = memoisation of a
   pure function; matrix_pivot works on a deepcopy of its result). *)
From Coq Require Import List ZArith Arith Bool Lia QArith.
From NV Require Import Scalar.Ops Model.Common Model.LinAlg Gen.Prelude Gen.PreludeExt Gen.Linalg Gen.LinalgMat
  Proofs.GenTieLib Proofs.GenTieLib2 Proofs.GenTieBasisOne Proofs.GenTieDersLib.
Import ListNotations.
Local Open Scope nat_scope.

Lemma upd_nth_same {A} (l : list A) i d : upd l i (nth i l d) = l.
Proof. revert i; induction l as [|a l IH]; intros [|i]; simpl; auto. now rewrite IH. Qed.

Lemma Zeven_of_nat n : Z.even (Z.of_nat n) = Nat.even n.
Proof.
  enough (H : Z.even (Z.of_nat n) = Nat.even n /\ Z.even (Z.of_nat (S n)) = Nat.even (S n)) by apply H.
  induction n as [|n [IH1 IH2]]; [split; reflexivity|]. split; [exact IH2|].
  replace (Z.of_nat (S (S n))) with (Z.succ (Z.succ (Z.of_nat n))) by lia.
  rewrite Z.even_succ_succ. exact IH1.
Qed.

Ltac nat_cases :=
  repeat (match goal with
          | |- context [Nat.eqb ?a ?b] => destruct (Nat.eqb_spec a b)
          | |- context [Nat.ltb ?a ?b] => destruct (Nat.ltb_spec a b)
          end; try (exfalso; lia); cbn [andb]); subst; try reflexivity; try lia.

Section Tie.
Context {T : Type} (K : ops T).
Notation "0" := (o0 K).
Notation g2 := (get2 K).

(* ---- matrix_identity ---- *)
Theorem matrix_identity_tie (n : nat) : LinalgMat.matrix_identity K (Z.of_nat n) = GOk (LinAlg.matrix_identity K n).
Proof.
  unfold LinalgMat.matrix_identity, LinAlg.matrix_identity. rewrite zrange_0_nat. f_equal.
  rewrite map_map. apply map_ext. intros j. rewrite map_map. apply map_ext. intros i.
  destruct (Z.eqb_spec (Z.of_nat i) (Z.of_nat j)); destruct (Nat.eqb_spec i j); try lia; reflexivity.
Qed.
(* a negative n gives the empty matrix on both readings of range(n) *)
Lemma matrix_identity_wfm n : wfm n n (LinAlg.matrix_identity K n).
Proof.
  unfold LinAlg.matrix_identity. split; [now rewrite map_length, seq_length|].
  intros j Hj. rewrite (nth_indep _ [] ((fun j => map (fun i => if Nat.eqb i j then o1 K else 0) (seq O n)) O)) by (now rewrite map_length, seq_length).
  rewrite (map_nth (fun j => map (fun i => if Nat.eqb i j then o1 K else 0) (seq O n))). now rewrite map_length, seq_length.
Qed.

(* ---- matrices as functions of their entries ---- *)
Lemma wfm_ext r c (A B : list (list T)) : wfm r c A -> wfm r c B ->
  (forall i j, i < r -> j < c -> g2 A i j = g2 B i j) -> A = B.
Proof.
  intros [A1 A2] [B1 B2] H. apply nth_ext with (d := []) (d' := []); [lia|].
  intros i Hi. apply nth_ext with (d := 0) (d' := 0); [rewrite A2, B2; lia|].
  intros j Hj. rewrite A2 in Hj by lia. apply H; lia.
Qed.

Lemma swap_wfm r c (M : list (list T)) a b : wfm r c M -> a < r -> b < r -> wfm r c (swap [] M a b).
Proof.
  intros [M1 M2] Ha Hb. unfold swap. split; [now rewrite !upd_length|].
  intros i Hi. rewrite !nth_upd, !upd_length, M1.
  destruct (Nat.eqb_spec b i); [destruct (Nat.ltb_spec i r); [auto|lia]|].
  destruct (Nat.eqb_spec a i); [destruct (Nat.ltb_spec i r); [auto|lia]|auto].
Qed.

Lemma swap_get r c (M : list (list T)) a b i j : wfm r c M -> a < r -> b < r -> i < r ->
  g2 (swap [] M a b) i j = if Nat.eqb i b then g2 M a j else if Nat.eqb i a then g2 M b j else g2 M i j.
Proof.
  intros [M1 M2] Ha Hb Hi. unfold get2, swap. rewrite !nth_upd, !upd_length, M1.
  destruct (Nat.ltb_spec i r); [|lia].
  destruct (Nat.eqb_spec b i) as [->|]; [now rewrite Nat.eqb_refl|].
  destruct (Nat.eqb_spec i b); [lia|].
  destruct (Nat.eqb_spec a i) as [->|]; [now rewrite Nat.eqb_refl|].
  destruct (Nat.eqb_spec i a); [lia|]. reflexivity.
Qed.

(* the model's matrix_pivot on a square matrix: (pivoted matrix, permutation, number of row swaps) *)
Definition pivot_out (m : list (list T)) : list (list T) * list (list T) * nat :=
  pivot_with K (LinAlg.matrix_identity K (length m)) m.

Lemma is_square_wfm (m : list (list T)) : is_square m = true -> wfm (length m) (length m) m.
Proof.
  intros H. split; [reflexivity|]. intros j Hj.
  unfold is_square in H. rewrite forallb_forall in H. apply Nat.eqb_eq. apply H. now apply nth_In.
Qed.

(* wf: the matrix is square (the model's own condition; rows of another length are swapped only in their first n entries
   or raise IndexError).  sign = True: the third component is math.pow(-1, number of row swaps) *)
Lemma matrix_pivot_sign_tie_wfm (m : list (list T)) : is_square m = true ->
  LinalgMat.matrix_pivot__sign_true K m =
  GOk (fst (fst (pivot_out m)), snd (fst (pivot_out m)), sign_of K (snd (pivot_out m)))
  /\ wfm (length m) (length m) (fst (fst (pivot_out m))) /\ wfm (length m) (length m) (snd (fst (pivot_out m))).
Proof.
  intros Hsq. assert (Wm := is_square_wfm m Hsq). unfold LinalgMat.matrix_pivot__sign_true, pivot_out, pivot_with.
  unfold zlen. set (n := length m) in *. rewrite matrix_identity_tie. cbn [gbind]. rewrite zrange_0_nat.
  match goal with |- context [gfor (map Z.of_nat (seq O n)) ?ff ?s0] =>
    destruct (gfor_seq_fold (fun (j : nat) (s : Z * list (list T) * list (list T)) (s' : list (list T) * list (list T) * nat) =>
                let '(ns, p, mp) := s in
                mp = fst (fst s') /\ p = snd (fst s') /\ ns = Z.of_nat (snd s') /\ wfm n n mp /\ wfm n n p)
              ff (pivot_step K n) n O) with (s := s0) (s' := (m, LinAlg.matrix_identity K n, O))
      as ([[nsF pF] mpF] & EF & HF)
  end.
  - intros j [[ns p] mp] [[mp' p'] ns'] Hj (-> & -> & -> & Wmp & Wp). cbn [fst snd] in *. cbn [gbind].
    rewrite zrange_nat.
    (* the search for the pivot row *)
    match goal with |- context [gfor (map Z.of_nat (seq j (n - j))) ?ff ?s0] =>
      destruct (gfor_seq_fold (fun (i : nat) (s : T * Z) (s' : T * nat) =>
                  fst s = fst s' /\ snd s = Z.of_nat (snd s') /\ j <= snd s' /\ snd s' < n)
                ff (fun (st : T * nat) i => let a := oabs K (g2 mp' i j) in if oltb K (fst st) a then (a, i) else st)
                (n - j) j) with (s := s0) (s' := (0, j)) as ([amax rowZ] & Ea & Ha)
    end.
    { intros i [am rz] [am' r'] Hi (E1 & E2 & E3 & E4). cbn [fst snd] in *. subst am rz. cbn [gbind].
      rewrite (zget2k K n n mp') by (auto; lia). rewrite !Nat2Z.id.
      destruct (oltb K am' (oabs K (g2 mp' i j))); cbn [gbind]; eexists; (split; [reflexivity|]); cbn [fst snd]; repeat split; lia. }
    { cbn [fst snd]. repeat split; lia. }
    rewrite Ea. cbn [gbind].
    unfold pivot_step. cbn [fst snd]. unfold argmax_col.
    set (am := fold_left _ (seq j (n - j)) (0, j)) in *. destruct Ha as (_ & Erow & Hr1 & Hr2). cbn [snd] in Erow. subst rowZ.
    set (row := snd am) in *.
    destruct (Z.eqb_spec (Z.of_nat j) (Z.of_nat row)) as [E|E]; destruct (Nat.eqb_spec j row) as [E'|E']; try lia; cbn [negb gbind].
    { eexists. split; [reflexivity|]. cbn [fst snd]. auto. }
    (* the element-wise swap of the rows j and row, in p and in mp (zrange 0 n 1 was rewritten above, also under the binders) *)
    match goal with |- context [gfor (map Z.of_nat (seq O n)) ?ff ?s0] =>
      destruct (gfor_seq_inv (fun (q : nat) (s : list (list T) * list (list T)) =>
                  let '(pq, mq) := s in
                  wfm n n pq /\ wfm n n mq
                  /\ (forall a c, a < n -> c < n -> g2 pq a c = if andb (Nat.eqb a row) (Nat.ltb c q) then g2 p' j c
                                                                 else if andb (Nat.eqb a j) (Nat.ltb c q) then g2 p' row c else g2 p' a c)
                  /\ (forall a c, a < n -> c < n -> g2 mq a c = if andb (Nat.eqb a row) (Nat.ltb c q) then g2 mp' j c
                                                                 else if andb (Nat.eqb a j) (Nat.ltb c q) then g2 mp' row c else g2 mp' a c))
                ff n O) with (s := s0) as ([pS mS] & ES & WpS & WmS & HpS & HmS)
    end.
    { intros q [pq mq] Hq (Wpq & Wmq & Hpq & Hmq). cbn [gbind].
      rewrite (zget2k K n n pq) by (auto; lia). rewrite (zget2k K n n pq) by (auto; lia).
      rewrite (zset2k n n pq) by (auto; lia).
      rewrite (zset2k n n) by (try apply wfm_set2; auto; lia).
      rewrite (zget2k K n n mq) by (auto; lia). rewrite (zget2k K n n mq) by (auto; lia).
      rewrite (zset2k n n mq) by (auto; lia).
      rewrite (zset2k n n) by (try apply wfm_set2; auto; lia).
      rewrite !Nat2Z.id. eexists. split; [reflexivity|].
      split; [repeat apply wfm_set2; auto|]. split; [repeat apply wfm_set2; auto|].
      split; intros a c Ha Hc.
      - rewrite (get_set2 K n n) by (apply wfm_set2; auto). rewrite (get_set2 K n n) by auto.
        rewrite !Hpq by lia.
        nat_cases.
      - rewrite (get_set2 K n n) by (apply wfm_set2; auto). rewrite (get_set2 K n n) by auto.
        rewrite !Hmq by lia.
        nat_cases. }
    { split; [auto|]. split; [auto|]. split; intros a c Ha Hc; rewrite !andb_false_r; reflexivity. }
    rewrite ES. cbn [gbind]. eexists. split; [reflexivity|]. cbn [fst snd].
    assert (Ep : pS = swap [] p' j row).
    { apply (wfm_ext n n); auto. { apply swap_wfm; auto; lia. }
      intros a c Ha Hc. rewrite HpS, (swap_get n n) by (auto; lia).
      destruct (Nat.ltb_spec c (O + n)); [|lia]. rewrite !andb_true_r. reflexivity. }
    assert (Em : mS = swap [] mp' j row).
    { apply (wfm_ext n n); auto. { apply swap_wfm; auto; lia. }
      intros a c Ha Hc. rewrite HmS, (swap_get n n) by (auto; lia).
      destruct (Nat.ltb_spec c (O + n)); [|lia]. rewrite !andb_true_r. reflexivity. }
    subst pS mS. split; [reflexivity|]. split; [reflexivity|]. split; [lia|]. split; apply swap_wfm; auto; lia.
  - cbn [fst snd]. split; [reflexivity|]. split; [reflexivity|]. split; [reflexivity|]. split; [exact Wm|apply matrix_identity_wfm].
  - rewrite EF. cbn [gbind].
    destruct (fold_left (pivot_step K n) (seq O n) (m, LinAlg.matrix_identity K n, O)) as [[mp' p'] ns'].
    destruct HF as (-> & -> & -> & W1 & W2). cbn [fst snd]. split; [|split; assumption]. f_equal. f_equal.
    unfold pow_neg1, sign_of. rewrite Zeven_of_nat. reflexivity.
Qed.

Theorem matrix_pivot_sign_tie (m : list (list T)) : is_square m = true ->
  LinalgMat.matrix_pivot__sign_true K m =
  GOk (fst (fst (pivot_out m)), snd (fst (pivot_out m)), sign_of K (snd (pivot_out m))).
Proof. intros H. apply (matrix_pivot_sign_tie_wfm m H). Qed.

Lemma pivot_out_wfm (m : list (list T)) : is_square m = true ->
  wfm (length m) (length m) (fst (fst (pivot_out m))) /\ wfm (length m) (length m) (snd (fst (pivot_out m))).
Proof. intros H. apply (matrix_pivot_sign_tie_wfm m H). Qed.

(* the variant sign = False (the default) runs the same loops and drops the sign *)
Lemma matrix_pivot_variants (m : list (list T)) :
  LinalgMat.matrix_pivot__sign_false K m = gbind (LinalgMat.matrix_pivot__sign_true K m) (fun '(mp, p, _) => GOk (mp, p)).
Proof.
  unfold LinalgMat.matrix_pivot__sign_false, LinalgMat.matrix_pivot__sign_true.
  destruct (LinalgMat.matrix_identity K (zlen m)) as [id|]; [|reflexivity]. cbn [gbind].
  match goal with |- context [gfor ?l ?ff ?s0] => destruct (gfor l ff s0) as [[[ns p] mp]|] end; reflexivity.
Qed.

Theorem matrix_pivot_tie (m : list (list T)) : is_square m = true ->
  LinalgMat.matrix_pivot__sign_false K m = GOk (fst (fst (pivot_out m)), snd (fst (pivot_out m))).
Proof. intros H. rewrite matrix_pivot_variants, matrix_pivot_sign_tie by exact H. reflexivity. Qed.

(* in the vocabulary of the model: LinAlg.matrix_pivot = Ok (mp, p, number of swaps) on square matrices, Crash otherwise *)
Lemma model_matrix_pivot (m : list (list T)) : is_square m = true -> LinAlg.matrix_pivot K m = Ok (pivot_out m).
Proof. intros H. unfold LinAlg.matrix_pivot, pivot_res. now rewrite H. Qed.

(* ---- the LU factors of a square matrix are square (model side) ---- *)
Lemma fold_left_inv {A B} (P : A -> Prop) (g : A -> B -> A) (l : list B) a :
  P a -> (forall s x, In x l -> P s -> P (g s x)) -> P (fold_left g l a).
Proof. revert a; induction l as [|x l IH]; intros a Ha Hg; [exact Ha|]. apply IH; [apply Hg; [now left|exact Ha]|]. intros s y Hy. apply Hg. now right. Qed.

Lemma doolittle_wfm (A : list (list T)) :
  wfm (length A) (length A) (fst (LinAlg.doolittle K A)) /\ wfm (length A) (length A) (snd (LinAlg.doolittle K A)).
Proof.
  unfold LinAlg.doolittle. cbn [fst snd]. set (n := length A). split.
  - unfold cols_to_rows. split; [now rewrite map_length, seq_length|].
    intros j Hj. rewrite nth_map_seq by exact Hj. now rewrite map_length, seq_length.
  - unfold doolittle_cols. fold n.
    assert (H : forall (l : list nat) st, (forall r, In r (snd st) -> length r = n) ->
              length (snd (fold_left (doolittle_step K A n) l st)) = length (snd st) + length l
              /\ (forall r, In r (snd (fold_left (doolittle_step K A n) l st)) -> length r = n)).
    { induction l as [|i l IH]; intros st Hst; cbn [fold_left length]; [split; [now rewrite Nat.add_0_r|exact Hst]|].
      destruct (IH (doolittle_step K A n st i)) as [E1 E2].
      - unfold doolittle_step. cbn [snd]. intros r Hr. apply in_app_or in Hr. destruct Hr as [Hr|[<-|[]]]; [now apply Hst|].
        now rewrite map_length, seq_length.
      - split; [|exact E2]. rewrite E1. unfold doolittle_step. cbn [snd]. rewrite app_length. cbn [length]. rewrite <- Nat.add_assoc. reflexivity. }
    destruct (H (seq O n) ([], [])) as [E1 E2]; [intros r []|]. cbn [snd length] in E1. rewrite seq_length in E1.
    split; [exact E1|]. intros j Hj. apply E2. apply nth_In. lia.
Qed.
End Tie.

Definition matrix_identity_tie_R := @matrix_identity_tie _ Rops.
Definition matrix_identity_tie_Q := @matrix_identity_tie _ Qops.
Definition matrix_pivot_tie_R := @matrix_pivot_tie _ Rops.
Definition matrix_pivot_tie_Q := @matrix_pivot_tie _ Qops.
Definition matrix_pivot_sign_tie_R := @matrix_pivot_sign_tie _ Rops.
Definition matrix_pivot_sign_tie_Q := @matrix_pivot_sign_tie _ Qops.

(* ---- non-vacuity: two row swaps ---- *)
Local Open Scope Q_scope.
Example matrix_pivot_ex :
  let A := [[0; 2; 1]; [1; 1; 0]; [2; 1; 3]] in
  LinalgMat.matrix_pivot__sign_true Qops A = GOk ([[2; 1; 3]; [0; 2; 1]; [1; 1; 0]], [[0; 0; 1]; [1; 0; 0]; [0; 1; 0]], 1)
  /\ LinAlg.matrix_pivot Qops A = Ok ([[2; 1; 3]; [0; 2; 1]; [1; 1; 0]], [[0; 0; 1]; [1; 0; 0]; [0; 1; 0]], 2%nat)
  /\ LinalgMat.matrix_pivot__sign_false Qops [[1; 2]; [3; 4]] = GOk ([[3; 4]; [1; 2]], [[0; 1]; [1; 0]])
  /\ LinalgMat.matrix_pivot__sign_true Qops [[1; 2]; [3; 4]] = GOk ([[3; 4]; [1; 2]], [[0; 1]; [1; 0]], -1)
  /\ LinalgMat.matrix_identity Qops 2 = GOk [[1; 0]; [0; 1]] /\ LinalgMat.matrix_identity Qops (-3) = GOk [].
Proof. repeat split; vm_compute; reflexivity. Qed.
