(* Ties: generated compatibility.flip_ctrlpts_u, flip_ctrlpts, flip_ctrlpts2d = Model/Layout.v (at the point type list T,
   default point []).  flip_ctrlpts_u / flip_ctrlpts: ALL inputs (IndexError <-> Crash, exactly when the list is shorter than
   size_u * size_v).  The element copy [float(c) for c in pt] is the identity on points (floats stay floats).
   No scalar operation occurs at all. *)
From Coq Require Import List ZArith Arith Bool Lia QArith.
From NV Require Import Scalar.Ops Model.Common Model.Layout Gen.Prelude Gen.PreludeExt Gen.Compatibility
  Proofs.GenTieLib Proofs.GenTieLib2 Proofs.GenTieEvalLib.
Import ListNotations.
Local Open Scope nat_scope.

(* an outer append loop whose body appends a whole list, or raises *)
Lemma gfor_append_nested_chk {A B} (ok : A -> bool) (gm : A -> list B) (e : gerr) (l : list A) (f : A -> list B -> gres (list B)) :
  (forall x acc, In x l -> f x acc = if ok x then GOk (acc ++ gm x) else GErr e) ->
  forall acc, gfor l f acc = if forallb ok l then GOk (acc ++ flat_map gm l) else GErr e.
Proof.
  induction l as [|a l IH]; intros H acc; simpl.
  - now rewrite app_nil_r.
  - rewrite H by (simpl; auto). destruct (ok a); simpl; auto.
    rewrite IH by (intros; apply H; simpl; auto). destruct (forallb ok l); auto. now rewrite <- app_assoc.
Qed.

Lemma gfor_append_chk1 {A B} (ok : A -> bool) (gm : A -> B) (e : gerr) (l : list A) (f : A -> list B -> gres (list B)) :
  (forall x acc, In x l -> f x acc = if ok x then GOk (acc ++ [gm x]) else GErr e) ->
  forall acc, gfor l f acc = if forallb ok l then GOk (acc ++ map gm l) else GErr e.
Proof.
  induction l as [|a l IH]; intros H acc; simpl.
  - now rewrite app_nil_r.
  - rewrite H by (simpl; auto). destruct (ok a); simpl; auto.
    rewrite IH by (intros; apply H; simpl; auto). destruct (forallb ok l); auto. now rewrite <- app_assoc.
Qed.

Lemma znth_chk {A} (l : list A) (i : nat) d :
  znth l (Z.of_nat i) = if i <? length l then GOk (nth i l d) else GErr IndexError.
Proof.
  destruct (Nat.ltb_spec i (length l)); [now apply znth_nat | now apply znth_ge].
Qed.

(* all indices i + j * a, i < a, j < b, are inside a list of length n  iff  a * b <= n *)
Lemma all_idx_inside (a b n : nat) :
  forallb (fun i => forallb (fun j => i + j * a <? n) (seq 0 b)) (seq 0 a) = (a * b <=? n).
Proof.
  destruct (Nat.leb_spec (a * b) n) as [H|H].
  - apply forallb_forall. intros i Hi. apply in_seq in Hi. apply forallb_forall. intros j Hj. apply in_seq in Hj.
    apply Nat.ltb_lt. nia.
  - destruct (forallb _ (seq 0 a)) eqn:E; auto. exfalso.
    assert (Ha : 1 <= a) by nia. assert (Hb : 1 <= b) by nia.
    rewrite forallb_forall in E. specialize (E (a - 1)). rewrite forallb_forall in E.
    assert (E' := E ltac:(apply in_seq; lia) (b - 1) ltac:(apply in_seq; lia)).
    apply Nat.ltb_lt in E'. nia.
Qed.

Section Tie.
Context {T : Type} (K : ops T).

(* the double loop shared by flip_ctrlpts_u (a = size_u, b = size_v) and flip_ctrlpts (a = size_v, b = size_u) *)
Lemma flip_loop (P : list (list T)) (a b : nat) :
  gfor (zrange 0 (Z.of_nat a) 1) (fun i new_ctrlpts =>
    do new_ctrlpts <- gfor (zrange 0 (Z.of_nat b) 1) (fun j new_ctrlpts =>
      do v_1 <- znth P (i + (j * Z.of_nat a))%Z ;;
      GOk (new_ctrlpts ++ [map (fun c => c) v_1])) new_ctrlpts ;;
    GOk new_ctrlpts) []
  = if a * b <=? length P then GOk (tab2 a b (fun i j => at_ [] P (i + j * a))) else GErr IndexError.
Proof.
  rewrite !zrange_0_nat, (gfor_map Z.of_nat).
  rewrite (gfor_append_nested_chk (fun i => forallb (fun j => i + j * a <? length P) (seq 0 b))
             (fun i => map (fun j => at_ [] P (i + j * a)) (seq 0 b)) IndexError).
  - rewrite all_idx_inside. reflexivity.
  - intros i acc _. rewrite (gfor_map Z.of_nat).
    rewrite (gfor_append_chk1 (fun j => i + j * a <? length P) (fun j => at_ [] P (i + j * a)) IndexError).
    + destruct (forallb _ (seq 0 b)); reflexivity.
    + intros j acc' _.
      replace (Z.of_nat i + Z.of_nat j * Z.of_nat a)%Z with (Z.of_nat (i + j * a)) by lia.
      rewrite (znth_chk P (i + j * a) []). destruct (i + j * a <? length P); [|reflexivity].
      cbn [gbind]. rewrite map_id. reflexivity.
Qed.

Theorem flip_ctrlpts_u_tie (P : list (list T)) (su sv : nat) :
  Compatibility.flip_ctrlpts_u K P (Z.of_nat su) (Z.of_nat sv) =
  res_to_gres (fun x => x) ValueError IndexError (flip_ctrlpts_u_res [] P su sv).
Proof.
  unfold Compatibility.flip_ctrlpts_u, flip_ctrlpts_u_res, flip_ctrlpts_u.
  cbv zeta. rewrite (flip_loop P su sv). destruct (su * sv <=? length P); reflexivity.
Qed.

Theorem flip_ctrlpts_tie (P : list (list T)) (su sv : nat) :
  Compatibility.flip_ctrlpts K P (Z.of_nat su) (Z.of_nat sv) =
  res_to_gres (fun x => x) ValueError IndexError (flip_ctrlpts_res [] P su sv).
Proof.
  unfold Compatibility.flip_ctrlpts, flip_ctrlpts_res, flip_ctrlpts.
  cbv zeta. rewrite (flip_loop P sv su). rewrite (Nat.mul_comm sv su). destruct (su * sv <=? length P); reflexivity.
Qed.

(* ---- flip_ctrlpts2d ---- *)
(* the [v][u] table for given sizes: every entry new[i][j] = V[j][i] is written exactly once *)
Lemma flip2d_loops (V : list (list (list T))) (su sv : nat) :
  su <= length V -> (forall j, j < su -> sv <= length (nth j V [])) ->
  gfor (zrange 0 (Z.of_nat sv) 1) (fun i new_ctrlpts2d =>
    do new_ctrlpts2d <- gfor (zrange 0 (Z.of_nat su) 1) (fun j new_ctrlpts2d =>
      do v_2 <- znth V j ;;
      do v_3 <- znth v_2 i ;;
      do v_4 <- znth new_ctrlpts2d i ;;
      do v_5 <- zset v_4 j (map (fun c => c) v_3) ;;
      do new_ctrlpts2d <- zset new_ctrlpts2d i v_5 ;;
      GOk new_ctrlpts2d) new_ctrlpts2d ;;
    GOk new_ctrlpts2d)
    (map (fun _ => (map (fun _ => []) (zrange 0 (Z.of_nat su) 1))) (zrange 0 (Z.of_nat sv) 1))
  = GOk (map (fun i => map (fun j => get2d [] V j i) (seq 0 su)) (seq 0 sv)).
Proof.
  intros HV Hrows.
  rewrite !map_const_zrange, !Nat2Z.id, !zrange_0_nat, (gfor_map Z.of_nat).
  set (M0 := repeat (repeat (@nil T) su) sv).
  assert (LM0 : length M0 = sv) by (unfold M0; now rewrite repeat_length).
  rewrite (gfor_fill [] _ (fun i => map (fun j => get2d [] V j i) (seq 0 su)) M0 sv).
  - rewrite skipn_all2 by lia. now rewrite app_nil_r.
  - lia.
  - intros i M' Hi LM' Hrest. rewrite (gfor_map Z.of_nat).
    assert (Hrow : nth i M' [] = repeat [] su).
    { rewrite Hrest by lia. unfold M0. now rewrite nth_repeat_lt by lia. }
    rewrite (gfor_rowQ [] (fun row => length row = su) (seq 0 su) _ i (fun row j => upd row j (get2d [] V j i))).
    + cbn [gbind]. f_equal. f_equal. rewrite Hrow.
      rewrite (fold_fill [] (fun j _ => get2d [] V j i) (repeat [] su) su) by (rewrite repeat_length; lia).
      rewrite skipn_all2 by (rewrite repeat_length; lia). now rewrite app_nil_r.
    + lia.
    + rewrite Hrow. now rewrite repeat_length.
    + intros row j _ Hl. now rewrite upd_length.
    + intros j M2 Hj LM2 Hl. apply in_seq in Hj.
      rewrite (znth_nat V j []) by lia. cbn [gbind].
      rewrite (znth_nat (nth j V []) i []) by (specialize (Hrows j); lia). cbn [gbind].
      rewrite (znth_nat M2 i []) by lia. cbn [gbind].
      rewrite zset_nat by lia. cbn [gbind]. rewrite zset_nat by lia. cbn [gbind].
      rewrite map_id. reflexivity.
Qed.

(* wf: the table has size_u rows of at least size_v points (the sizes as given, or - when one of them is 0 - as detected:
   len(ctrlpts2d), len(ctrlpts2d[0]), which needs a first row) *)
Definition flip2d_su (V : list (list (list T))) (su sv : nat) : nat := if orb (su =? 0) (sv =? 0) then length V else su.
Definition flip2d_sv (V : list (list (list T))) (su sv : nat) : nat := if orb (su =? 0) (sv =? 0) then length (nth 0 V []) else sv.

Theorem flip_ctrlpts2d_tie (V : list (list (list T))) (su sv : nat) :
  V <> [] -> flip2d_su V su sv <= length V -> (forall j, j < flip2d_su V su sv -> flip2d_sv V su sv <= length (nth j V [])) ->
  Compatibility.flip_ctrlpts2d K V (Z.of_nat su) (Z.of_nat sv) = GOk (Layout.flip_ctrlpts2d [] V su sv).
Proof.
  unfold flip2d_su, flip2d_sv, Compatibility.flip_ctrlpts2d, Layout.flip_ctrlpts2d. intros Hne HV Hrows.
  replace (orb (Z.of_nat su <=? 0)%Z (Z.of_nat sv <=? 0)%Z) with (orb (su =? 0) (sv =? 0)).
  2:{ destruct (Nat.eqb_spec su 0); destruct (Nat.eqb_spec sv 0); destruct (Z.leb_spec (Z.of_nat su) 0);
      destruct (Z.leb_spec (Z.of_nat sv) 0); try reflexivity; lia. }
  destruct (orb (su =? 0) (sv =? 0)).
  - destruct V as [|r0 V']; [congruence|]. rewrite znth_0. cbn [gbind]. unfold zlen.
    rewrite flip2d_loops by auto. reflexivity.
  - cbn [gbind]. rewrite flip2d_loops by auto. reflexivity.
Qed.
End Tie.

Require Import Reals.
Definition flip_ctrlpts_u_tie_R := @flip_ctrlpts_u_tie R Rops.
Definition flip_ctrlpts_u_tie_Q := @flip_ctrlpts_u_tie Q Qops.
Definition flip_ctrlpts_tie_R := @flip_ctrlpts_tie R Rops.
Definition flip_ctrlpts_tie_Q := @flip_ctrlpts_tie Q Qops.
Definition flip_ctrlpts2d_tie_R := @flip_ctrlpts2d_tie R Rops.
Definition flip_ctrlpts2d_tie_Q := @flip_ctrlpts2d_tie Q Qops.

(* ---- examples (the values geomdl returns) ---- *)
Local Open Scope Q_scope.
Definition exF : list (list Q) := [[0]; [1]; [2]; [3]; [4]; [5]].
Example flip_ctrlpts_u_ex :
  Compatibility.flip_ctrlpts_u Qops exF 2 3 = GOk [[0]; [2]; [4]; [1]; [3]; [5]]
  /\ flip_ctrlpts_u_res [] exF 2 3 = Ok [[0]; [2]; [4]; [1]; [3]; [5]]
  /\ Compatibility.flip_ctrlpts_u Qops exF 2 4 = GErr IndexError /\ flip_ctrlpts_u_res [] exF 2 4 = Crash.
Proof. split; [|split; [|split]]; vm_compute; reflexivity. Qed.
Example flip_ctrlpts_ex :
  Compatibility.flip_ctrlpts Qops exF 2 3 = GOk [[0]; [3]; [1]; [4]; [2]; [5]]
  /\ flip_ctrlpts_res [] exF 2 3 = Ok [[0]; [3]; [1]; [4]; [2]; [5]].
Proof. split; vm_compute; reflexivity. Qed.
Example flip_ctrlpts2d_ex :
  Compatibility.flip_ctrlpts2d Qops [[[0]; [1]; [2]]; [[3]; [4]; [5]]] 0 0 = GOk [[[0]; [3]]; [[1]; [4]]; [[2]; [5]]]
  /\ Layout.flip_ctrlpts2d [] [[[0]; [1]; [2]]; [[3]; [4]; [5]]] 0 0 = [[[0]; [3]]; [[1]; [4]]; [[2]; [5]]]
  /\ Compatibility.flip_ctrlpts2d Qops [[[0]; [1]; [2]]; [[3]; [4]; [5]]] 2 2 = GOk [[[0]; [3]]; [[1]; [4]]].
Proof. split; [|split]; vm_compute; reflexivity. Qed.
