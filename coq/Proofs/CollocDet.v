(* Determinant tools for the collocation-matrix proof (on top of Proofs/LinAlgDetGen.v, leibF n M = Leibniz determinant
   of the index function M):
   - det01: the determinant of the 0/1 matrix [J_j = kappa_i] of two strictly increasing index sequences is 0 or 1;
   - expand_nonneg / expand_pos: a determinant whose rows are non-negative combinations a_j X_j + b_j Y_j of two
     candidate rows is non-negative (positive) when all 2^n "choice" determinants are non-negative (and one, of positive
     weight, is positive);
   - leibF_lowerLU: A = L U, L lower triangular (any diagonal), U unit upper  ==>  det A = prod L_ii;
   - doolittle_pivots_from_minors: if all leading principal minors of the TRANSPOSE of A are non-zero then every
     Doolittle pivot of A is non-zero (Doolittle's A = L U read as A^T = U^T L^T). *)
From Coq Require Import List Reals Lra Lia Arith Bool.
From NV Require Import Scalar.Ops Model.Common Model.LinAlg Proofs.LinAlgSums Proofs.LinAlgR Proofs.LinAlgSolve
  Proofs.LinAlgPivot Proofs.LinAlgDet Proofs.LinAlgSDD Proofs.LinAlgDetGen.
Import ListNotations.
Open Scope R_scope.

Lemma leibF_0 M : leibF 0 M = 1.
Proof. unfold leibF. cbn. rsimp. unfold sgn. cbn. lra. Qed.

Lemma prodf_ones f n : (forall i, (i < n)%nat -> f i = 1) -> prodf f n = 1.
Proof. induction n as [|n IH]; intros H; cbn [prodf]; [reflexivity|]. rewrite IH, H by (intros; try apply H; lia). lra. Qed.

(* ------------------------------------------------------------------ strictly increasing index sequences *)
Definition strict (f : nat -> nat) (k : nat) : Prop := forall j, (S j < k)%nat -> (f j < f (S j))%nat.
Lemma strict_lt f k : strict f k -> forall b a, (a < b)%nat -> (b < k)%nat -> (f a < f b)%nat.
Proof.
  intros H. induction b as [|b IH]; intros a Hab Hb; [lia|].
  destruct (Nat.eq_dec a b) as [->|Hne]; [apply H; lia|].
  apply Nat.lt_trans with (f b); [apply IH; lia|apply H; lia].
Qed.
Lemma strict_le f k : strict f k -> forall a b, (a <= b)%nat -> (b < k)%nat -> (f a <= f b)%nat.
Proof. intros H a b Hab Hb. destruct (Nat.eq_dec a b) as [->|]; [lia|]. apply Nat.lt_le_incl, (strict_lt f k H); lia. Qed.
Lemma strict_weaken f k : strict f (S k) -> strict f k.
Proof. intros H j Hj. apply H. lia. Qed.
Lemma weak_strict_or_equal k : forall f : nat -> nat, (forall j, (S j < k)%nat -> (f j <= f (S j))%nat) ->
  strict f k \/ exists j, (S j < k)%nat /\ f j = f (S j).
Proof.
  induction k as [|k IH]; intros f H; [left; intros j Hj; lia|].
  destruct (IH f ltac:(intros; apply H; lia)) as [Hs|(j & Hj & E)]; [|right; exists j; split; [lia|exact E]].
  destruct k as [|k]; [left; intros j Hj; lia|].
  destruct (Nat.eq_dec (f k) (f (S k))) as [E|Hne]; [right; exists k; split; [lia|exact E]|].
  left. intros j Hj. destruct (Nat.eq_dec j k) as [->|]; [specialize (H k ltac:(lia)); lia|apply Hs; lia].
Qed.

(* ------------------------------------------------------------------ 0/1 selection matrices *)
Definition M01 (J kap : nat -> nat) : nat -> nat -> R := fun j i => if Nat.eqb (J j) (kap i) then 1 else 0.

Lemma det01 : forall k J kap, strict J k -> strict kap k ->
  0 <= leibF k (M01 J kap) /\ ((forall j, (j < k)%nat -> J j = kap j) -> leibF k (M01 J kap) = 1).
Proof.
  induction k as [|k IH]; intros J kap HJ Hk; [rewrite leibF_0; split; [lra|reflexivity]|].
  destruct (lt_eq_lt_dec (J k) (kap k)) as [[Hlt|Heq]|Hgt].
  - (* column k is zero *)
    assert (Z : leibF (S k) (M01 J kap) = 0).
    { rewrite leibF_laplace. apply sumr_zero. intros j Hj.
      assert (E : M01 J kap j k = 0).
      { unfold M01. pose proof (strict_le J (S k) HJ j k ltac:(lia) ltac:(lia)).
        destruct (Nat.eqb_spec (J j) (kap k)); [lia|reflexivity]. }
      rewrite E. ring. }
    rewrite Z. split; [lra|]. intros H. specialize (H k ltac:(lia)). lia.
  - (* J k = kap k : expand along the last column *)
    assert (E : leibF (S k) (M01 J kap) = leibF k (M01 J kap)).
    { rewrite leibF_laplace, sumr_S. cbn [Nat.add]. rewrite sumr_zero.
      - rewrite Nat.sub_diag. unfold sg. cbn [Nat.even].
        replace (M01 J kap k k) with 1 by (unfold M01; rewrite Heq, Nat.eqb_refl; reflexivity).
        rewrite (leibF_ext k (del k (M01 J kap)) (M01 J kap)); [lra|].
        intros i j Hi _. unfold del. destruct (Nat.ltb_spec i k); [reflexivity|lia].
      - intros j Hj. assert (E : M01 J kap j k = 0).
        { unfold M01. pose proof (strict_lt J (S k) HJ k j ltac:(lia) ltac:(lia)).
          destruct (Nat.eqb_spec (J j) (kap k)); [lia|reflexivity]. }
        rewrite E. ring. }
    rewrite E. destruct (IH J kap (strict_weaken J k HJ) (strict_weaken kap k Hk)) as [A B].
    split; [exact A|]. intros H. apply B. intros j Hj. apply H. lia.
  - (* row k is zero *)
    assert (Z : leibF (S k) (M01 J kap) = 0).
    { apply (leibF_zero_row (S k) _ k); [lia|]. intros i Hi. unfold M01.
      pose proof (strict_le kap (S k) Hk i k ltac:(lia) ltac:(lia)).
      destruct (Nat.eqb_spec (J k) (kap i)); [lia|reflexivity]. }
    rewrite Z. split; [lra|]. intros H. specialize (H k ltac:(lia)). lia.
Qed.

(* ------------------------------------------------------------------ expansion over 2^n row choices *)
Section Expand.
Variables (n : nat) (X Y : nat -> nat -> R) (a b : nat -> R).
Definition updb (e : nat -> bool) (m : nat) (v : bool) : nat -> bool := fun j => if Nat.eqb j m then v else e j.
Definition choice (e : nat -> bool) : nat -> nat -> R := fun j => if e j then Y j else X j.
Definition mixed (m : nat) (e : nat -> bool) : nat -> nat -> R :=
  fun j => if Nat.ltb j m then (fun i => a j * X j i + b j * Y j i) else choice e j.

Lemma mixed_step m e : (m < n)%nat ->
  leibF n (mixed (S m) e) = a m * leibF n (mixed m (updb e m false)) + b m * leibF n (mixed m (updb e m true)).
Proof.
  intros Hm.
  rewrite (leibF_ext n (mixed (S m) e) (setrow (mixed m e) m (fun i => a m * X m i + b m * Y m i))).
  2:{ intros j i _ _. unfold setrow, mixed. destruct (Nat.eqb_spec j m) as [->|Hne].
      - destruct (Nat.ltb_spec m (S m)); [reflexivity|lia].
      - destruct (Nat.ltb_spec j (S m)), (Nat.ltb_spec j m); try lia; reflexivity. }
  rewrite leibF_row_linear by exact Hm. f_equal; f_equal; apply leibF_ext; intros j i _ _; unfold setrow, mixed, choice, updb;
    (destruct (Nat.eqb_spec j m) as [->|Hne]; [rewrite Nat.ltb_irrefl; reflexivity|reflexivity]).
Qed.

Hypothesis Hab : forall j, (j < n)%nat -> 0 <= a j /\ 0 <= b j.
Hypothesis Hall : forall e, 0 <= leibF n (choice e).

Lemma expand_nonneg_m m : (m <= n)%nat -> forall e, 0 <= leibF n (mixed m e).
Proof.
  induction m as [|m IH]; intros Hm e.
  - rewrite (leibF_ext n (mixed 0 e) (choice e)); [apply Hall|]. intros j i _ _. reflexivity.
  - rewrite mixed_step by lia. destruct (Hab m ltac:(lia)) as [Ha Hb].
    pose proof (IH ltac:(lia) (updb e m false)). pose proof (IH ltac:(lia) (updb e m true)).
    apply Rplus_le_le_0_compat; apply Rmult_le_pos; assumption.
Qed.
(* [G] all choice determinants >= 0  ==>  the determinant of the combined rows is >= 0 *)
Theorem expand_nonneg : 0 <= leibF n (fun j i => a j * X j i + b j * Y j i).
Proof.
  rewrite (leibF_ext n _ (mixed n (fun _ => false))); [apply expand_nonneg_m; lia|].
  intros j i Hj _. unfold mixed. destruct (Nat.ltb_spec j n); [reflexivity|lia].
Qed.

Variable es : nat -> bool.
Hypothesis Hes_w : forall j, (j < n)%nat -> if es j then 0 < b j else 0 < a j.
Hypothesis Hes_d : 0 < leibF n (choice es).
Lemma updb_same m : forall j, updb es m (es m) j = es j.
Proof. intros j. unfold updb. destruct (Nat.eqb_spec j m) as [->|]; reflexivity. Qed.
Lemma expand_pos_m m : (m <= n)%nat -> 0 < leibF n (mixed m es).
Proof.
  induction m as [|m IH]; intros Hm.
  - rewrite (leibF_ext n (mixed 0 es) (choice es)); [exact Hes_d|]. intros j i _ _. reflexivity.
  - rewrite mixed_step by lia. destruct (Hab m ltac:(lia)) as [Ha Hb].
    pose proof (expand_nonneg_m m ltac:(lia) (updb es m false)) as N0.
    pose proof (expand_nonneg_m m ltac:(lia) (updb es m true)) as N1.
    pose proof (Hes_w m ltac:(lia)) as W. specialize (IH ltac:(lia)).
    assert (Es : leibF n (mixed m (updb es m (es m))) = leibF n (mixed m es)).
    { apply leibF_ext. intros j i _ _. unfold mixed, choice. rewrite updb_same. reflexivity. }
    destruct (es m).
    + rewrite Es. assert (0 < b m * leibF n (mixed m es)) by (apply Rmult_lt_0_compat; assumption).
      assert (0 <= a m * leibF n (mixed m (updb es m false))) by (apply Rmult_le_pos; assumption). lra.
    + rewrite Es. assert (0 < a m * leibF n (mixed m es)) by (apply Rmult_lt_0_compat; assumption).
      assert (0 <= b m * leibF n (mixed m (updb es m true))) by (apply Rmult_le_pos; assumption). lra.
Qed.
(* [G] ... and > 0 when one choice of positive weight has a positive determinant *)
Theorem expand_pos : 0 < leibF n (fun j i => a j * X j i + b j * Y j i).
Proof.
  rewrite (leibF_ext n _ (mixed n es)); [apply expand_pos_m; lia|].
  intros j i Hj _. unfold mixed. destruct (Nat.ltb_spec j n); [reflexivity|lia].
Qed.
End Expand.

(* ------------------------------------------------------------------ last column = unit vector *)
Lemma leibF_last_col_unit k M : (forall j, (j < k)%nat -> M j k = 0) -> M k k = 1 -> leibF (S k) M = leibF k M.
Proof.
  intros Hz H1. rewrite leibF_laplace, sumr_S. cbn [Nat.add]. rewrite sumr_zero.
  - rewrite Nat.sub_diag, H1. unfold sg. cbn [Nat.even].
    rewrite (leibF_ext k (del k M) M); [lra|]. intros i j Hi _. unfold del. destruct (Nat.ltb_spec i k); [reflexivity|lia].
  - intros j Hj. rewrite Hz by lia. ring.
Qed.

(* ------------------------------------------------------------------ L lower (any diagonal), U unit upper *)
Theorem leibF_lowerLU n (Lf Uf Af : nat -> nat -> R) :
  (forall i j, (i < n)%nat -> (j < n)%nat -> (i < j)%nat -> Lf i j = 0) ->
  (forall i, (i < n)%nat -> Uf i i = 1) ->
  (forall i j, (i < n)%nat -> (j < n)%nat -> (j < i)%nat -> Uf i j = 0) ->
  (forall r c, (r < n)%nat -> (c < n)%nat -> sumR 0 n (fun j => Lf r j * Uf j c) = Af r c) ->
  leibF n Af = prodf (fun i => Lf i i) n.
Proof.
  intros HL0 HU1 HU0 HLU.
  set (H := fun t i => if Nat.ltb i t then Uf i else Af i).
  assert (Inv : forall t, (t <= n)%nat -> leibF n Af = prodf (fun i => Lf i i) t * leibF n (H t)).
  { induction t as [|t IH]; intros Ht.
    - cbn [prodf]. rewrite Rmult_1_l. apply leibF_ext. intros; reflexivity.
    - rewrite (IH ltac:(lia)). cbn [prodf]. rewrite Rmult_assoc. f_equal.
      set (M1 := setrow (H t) t (fun c => Lf t t * Uf t c)).
      rewrite (leibF_ext n (H t) (setrow M1 t (fun j => M1 t j + sumR 0 t (fun i => Lf t i * M1 i j)))).
      2:{ intros i j Hi Hj. unfold setrow at 1. destruct (Nat.eqb_spec i t) as [->|Hne].
          - unfold H at 1. rewrite Nat.ltb_irrefl. rewrite <- (HLU t j) by lia.
            replace n with (t + S (n - S t))%nat at 1 by lia. rewrite sumr_split, sumr_cons. cbn [Nat.add].
            rewrite (sumr_zero (S t)) by (intros i Hi'; rewrite HL0 by lia; ring).
            unfold M1, setrow. rewrite Nat.eqb_refl.
            rewrite (sumr_ext 0 t (fun i => Lf t i * (if Nat.eqb i t then fun c => Lf t t * Uf t c else H t i) j) (fun i => Lf t i * Uf i j)).
            2:{ intros i Hi'. destruct (Nat.eqb_spec i t); [lia|]. unfold H. destruct (Nat.ltb_spec i t); [reflexivity|lia]. }
            lra.
          - unfold M1, setrow. destruct (Nat.eqb_spec i t); [contradiction|reflexivity]. }
      rewrite (leibF_add_combination n t (Lf t) ltac:(lia) t M1 (le_n t)).
      unfold M1.
      rewrite (leibF_ext n _ (setrow (H t) t (fun c => Lf t t * Uf t c + 0 * Uf t c))).
      2:{ intros i j _ _. unfold setrow. destruct (Nat.eqb i t); [lra|reflexivity]. }
      rewrite leibF_row_linear by lia. rewrite Rmult_0_l, Rplus_0_r. f_equal.
      apply leibF_ext. intros i j _ _. unfold setrow, H. destruct (Nat.eqb_spec i t) as [->|Hne].
      + destruct (Nat.ltb_spec t (S t)); [reflexivity|lia].
      + destruct (Nat.ltb_spec i t), (Nat.ltb_spec i (S t)); try lia; reflexivity. }
  rewrite (Inv n (le_n n)). rewrite (leibF_ext n (H n) Uf).
  - rewrite leibF_upper by (intros i j Hij; apply HU0; lia). rewrite (prodf_ones (fun i => Uf i i)) by exact HU1. lra.
  - intros i j Hi _. unfold H. destruct (Nat.ltb_spec i n); [reflexivity|lia].
Qed.

(* ------------------------------------------------------------------ pivots from the leading minors of the transpose *)
Section Minors.
Variables (Lf Uf Af : nat -> nat -> R) (n : nat).
Hypothesis HU : forall i k, (i < n)%nat -> (k < n)%nat -> (i <= k)%nat ->
  Uf i k = Af i k - sumR 0 i (fun j => Lf i j * Uf j k).
Hypothesis HL : forall i k, (i < n)%nat -> (k < n)%nat -> (i < k)%nat -> Uf i i <> 0 ->
  Lf k i = (Af k i - sumR 0 i (fun j => Lf k j * Uf j i)) / Uf i i.

(* as long as the pivots 0..m-1 are non-zero, the leading (m+1)-minor of A^T is the product of the pivots 0..m *)
Lemma minor_is_pivot_product m : (m < n)%nat -> (forall i, (i < m)%nat -> Uf i i <> 0) ->
  leibF (S m) (fun r c => Af c r) = prodf (fun i => Uf i i) (S m).
Proof.
  intros Hm Hp.
  rewrite (leibF_lowerLU (S m) (fun r j => if Nat.leb j r then Uf j r else 0)
             (fun j c => if Nat.ltb j c then Lf c j else if Nat.eqb j c then 1 else 0) (fun r c => Af c r)).
  - apply prodf_ext. intros i _. rewrite Nat.leb_refl. reflexivity.
  - intros i j _ _ Hij. destruct (Nat.leb_spec j i); [lia|reflexivity].
  - intros i _. rewrite Nat.ltb_irrefl, Nat.eqb_refl. reflexivity.
  - intros i j _ _ Hji. destruct (Nat.ltb_spec i j); [lia|]. destruct (Nat.eqb_spec i j); [lia|reflexivity].
  - intros r c Hr Hc. destruct (le_lt_dec c r) as [Hcr|Hrc].
    + (* c <= r : equation of U *)
      replace (S m) with (c + S (m - c))%nat by lia. rewrite sumr_split, sumr_cons. cbn [Nat.add].
      rewrite (sumr_zero (S c)).
      2:{ intros j Hj. destruct (Nat.ltb_spec j c); [lia|]. destruct (Nat.eqb_spec j c); [lia|]. ring. }
      rewrite (sumr_ext 0 c _ (fun j => Lf c j * Uf j r)).
      2:{ intros j Hj. destruct (Nat.leb_spec j r); [|lia]. destruct (Nat.ltb_spec j c); [|lia]. ring. }
      destruct (Nat.leb_spec c r); [|lia]. rewrite Nat.ltb_irrefl, Nat.eqb_refl.
      rewrite (HU c r) by lia. lra.
    + (* r < c : equation of L *)
      replace (S m) with (r + S (m - r))%nat by lia. rewrite sumr_split, sumr_cons. cbn [Nat.add].
      rewrite (sumr_zero (S r)).
      2:{ intros j Hj. destruct (Nat.leb_spec j r); [lia|]. ring. }
      rewrite (sumr_ext 0 r _ (fun j => Lf c j * Uf j r)).
      2:{ intros j Hj. destruct (Nat.leb_spec j r); [|lia]. destruct (Nat.ltb_spec j c); [|lia]. ring. }
      rewrite Nat.leb_refl. destruct (Nat.ltb_spec r c); [|lia].
      assert (Hpr : Uf r r <> 0) by (apply Hp; lia).
      rewrite (HL r c) by (try lia; exact Hpr). field. exact Hpr.
Qed.

Theorem pivots_from_minors :
  (forall m, (m < n)%nat -> leibF (S m) (fun r c => Af c r) <> 0) -> forall i, (i < n)%nat -> Uf i i <> 0.
Proof.
  intros Hmin.
  assert (S : forall m, (m <= n)%nat -> forall i, (i < m)%nat -> Uf i i <> 0).
  { induction m as [|m IH]; intros Hm i Hi; [lia|].
    destruct (Nat.eq_dec i m) as [->|Hne]; [|apply IH; lia].
    intros E. apply (Hmin m ltac:(lia)). rewrite minor_is_pivot_product by (try lia; apply IH; lia).
    cbn [prodf]. rewrite E. ring. }
  intros i Hi. apply (S n (le_n n) i Hi).
Qed.
(* and conversely the minors are the products of the pivots *)
Theorem minors_are_pivot_products : (forall i, (i < n)%nat -> Uf i i <> 0) ->
  forall m, (m < n)%nat -> leibF (S m) (fun r c => Af c r) = prodf (fun i => Uf i i) (S m).
Proof. intros Hp m Hm. apply minor_is_pivot_product; [exact Hm|]. intros i Hi. apply Hp. lia. Qed.
End Minors.

(* [G] on the model: non-zero leading principal minors of the transpose give non-zero Doolittle pivots, every size *)
Theorem doolittle_pivots_from_minors A :
  (forall m, (m < length A)%nat -> leibF (S m) (fun j i => g2 A i j) <> 0) ->
  forall i, (i < length A)%nat -> g2 (snd (doolittle Rops A)) i i <> 0.
Proof.
  change (snd (doolittle Rops A)) with (snd (doolittle_cols Rops A)).
  apply (pivots_from_minors (fun r j => g2 (fst (doolittle_cols Rops A)) j r) (g2 (snd (doolittle_cols Rops A))) (g2 A) (length A)).
  - intros i k. apply doolittle_U_eq.
  - intros i k. apply doolittle_L_eq.
Qed.
Print Assumptions doolittle_pivots_from_minors.
