(* helpers.surface_deriv_cpts once more, with the SHAPE of the generated table exported: the statement of GenTieDerivSurf.v
   (surface_deriv_cpts_tie) gives the defined entries of the table but not the lengths of its levels, which a caller that indexes
   the table (SurfaceEvaluator2.derivatives: PKL[k][l][j][i]) needs in order to know that no IndexError is raised.  The shape is an
   invariant of the proof in GenTieDerivSurf.v; that file is left untouched (Props/C02.v is compiled against it), so the proof is
   repeated here with the stronger conclusion  shape4 (order+1) (order+1) size_u size_v PKL.  Everything else is identical. *)
From Coq Require Import List ZArith Arith Bool Lia QArith.
From NV Require Import Scalar.Ops Model.Common Model.Eval Model.Derivs Gen.Prelude Gen.PreludeExt Gen.HelpersB
  Proofs.GenTieLib Proofs.GenTieLib2 Proofs.GenTieBasisOne Proofs.GenTieSubst Proofs.GenTieArr4 Proofs.GenTieDerivCpts.
Import ListNotations.
Local Open Scope nat_scope.

Section Tie.
Context {T : Type} (K : ops T).
Notation OP := (list (option T)).

(* the variant of curve_deriv_cpts on table points (None-or-float slots) computes what the float variant computes on the
   points those slots hold *)
Lemma curve_deriv_cpts_opt_eq (dim p : Z) (kv : list T) (cpo : list OP) (pts : list (list T)) (r1 r2 : nat) (order : Z) :
  r1 <= r2 -> r2 < length cpo -> r2 < length pts ->
  (forall i, r1 <= i <= r2 -> nth i cpo [] = map Some (nth i pts [])) ->
  HelpersB.curve_deriv_cpts__opt K dim p kv cpo [Z.of_nat r1; Z.of_nat r2] order =
  HelpersB.curve_deriv_cpts K dim p kv pts [Z.of_nat r1; Z.of_nat r2] order.
Proof.
  intros H12 Hc Hp Hpts. unfold HelpersB.curve_deriv_cpts__opt, HelpersB.curve_deriv_cpts.
  change (znth [Z.of_nat r1; Z.of_nat r2] 1%Z) with (GOk (Z.of_nat r2)).
  change (znth [Z.of_nat r1; Z.of_nat r2] 0%Z) with (GOk (Z.of_nat r1)). cbn [gbind].
  replace (Z.of_nat r2 - Z.of_nat r1 + 1)%Z with (Z.of_nat (S (r2 - r1))) by lia. rewrite zrange_0_nat.
  erewrite gfor_ext; [reflexivity|].
  intros x PK Hx. apply in_map_iff in Hx. destruct Hx as (i & <- & Hi). apply in_seq in Hi. cbn [gbind].
  replace (Z.of_nat r1 + Z.of_nat i)%Z with (Z.of_nat (r1 + i)) by lia.
  rewrite (znth_nat cpo (r1 + i) []), (znth_nat pts (r1 + i) []) by lia. cbn [gbind].
  rewrite Hpts by lia. rewrite !map_id. reflexivity.
Qed.

Lemma zmin_nat (a b : nat) : zmin (Z.of_nat a) (Z.of_nat b) = Z.of_nat (Nat.min a b).
Proof. unfold zmin. destruct (Z.ltb_spec (Z.of_nat b) (Z.of_nat a)); lia. Qed.

Lemma zrange_sub1 (a b : nat) : zrange 0 (Z.of_nat a - Z.of_nat b + 1) 1 = map Z.of_nat (seq O (S a - b)).
Proof. rewrite zrange_0. f_equal. f_equal. lia. Qed.

Lemma nth_map_seq_off {B} (f : nat -> B) a n i d : i < n -> nth i (map f (seq a n)) d = f (a + i).
Proof. intros H. rewrite (nth_indep _ d (f O)) by (now rewrite map_length, seq_length). rewrite (map_nth f), seq_nth by exact H. reflexivity. Qed.

Section Surf.
Context (dim pu pv : nat) (Uu Uv : list T) (P : list (list T)) (su sv r1 r2 s1 s2 order : nat).
Context (Hr : r1 <= r2) (Hr2 : r2 < su) (Hs : s1 <= s2) (Hs2 : s2 < sv) (HP : su * sv <= length P)
        (HUu : r2 + pu < length Uu) (HUv : s2 + pv < length Uv).

Let du := Nat.min pu order.
Let dv := Nat.min pv order.
Let r := r2 - r1.
Let s := s2 - s1.
Definition colpts (jj : nat) : list (list T) := map (fun i => pt_at P (jj + sv * i)) (seq O su).
Definition colm (jj : nat) : list (list (list T)) := Derivs.curve_deriv_cpts K pu Uu (colpts jj) r1 r2 du.
Definition ddk (k : nat) : nat := Nat.min (order - k) dv.
Definition rowpts (k i : nat) : list (list T) := map (fun jj => pt_at (nth k (colm (s1 + jj)) []) i) (seq O (S s)).
Definition vm (k i : nat) : list (list (list T)) := Derivs.curve_deriv_cpts K pv (skipn s1 Uv) (rowpts k i) 0 s (ddk k).

Lemma model_get k l i j : k <= du -> l <= ddk k -> k + i <= r ->
  pkl_get (Derivs.surface_deriv_cpts K pu pv Uu Uv P su sv r1 r2 s1 s2 order) k l i j = nth j (nth l (vm k i) []) [].
Proof.
  intros Hk Hl Hi. unfold pkl_get, Derivs.surface_deriv_cpts. cbv zeta. fold du dv r s.
  rewrite (nth_map_seq _ (S du) k []) by lia.
  rewrite (nth_map_seq _ (S (Nat.min (order - k) dv)) l []) by (unfold ddk in Hl; lia).
  rewrite (nth_map_seq _ (S r - k) i []) by lia. rewrite map_map.
  rewrite (nth_map_seq _ (S r - k) i []) by lia. unfold vm, rowpts, ddk. do 3 f_equal.
  apply map_ext_in. intros jj Hjj. apply in_seq in Hjj. rewrite nth_map_seq_off by lia. reflexivity.
Qed.

Lemma colm_row_length jj k : k <= du -> length (nth k (colm jj) []) = S r - k.
Proof. intros Hk. unfold colm. rewrite model_rows. fold r. rewrite nth_map_seq by lia. apply rowm_length. Qed.
Lemma colm_length jj : length (colm jj) = S du.
Proof. unfold colm. rewrite model_rows. now rewrite map_length, seq_length. Qed.
Lemma vm_row_length k i l : l <= ddk k -> length (nth l (vm k i) []) = S s - l.
Proof. intros Hl. unfold vm. rewrite model_rows. rewrite Nat.sub_0_r. rewrite nth_map_seq by lia. apply rowm_length. Qed.
Lemma vm_length k i : length (vm k i) = S (ddk k).
Proof. unfold vm. rewrite model_rows. now rewrite map_length, seq_length. Qed.

Notation G4 := (get4 (@nil (option T))).
Notation blank := (repeat (@None T) dim).

Theorem surface_deriv_cpts_tie_get :
  exists PKL, HelpersB.surface_deriv_cpts K (Z.of_nat dim) [Z.of_nat pu; Z.of_nat pv] [Uu; Uv] P [Z.of_nat su; Z.of_nat sv]
                [Z.of_nat r1; Z.of_nat r2] [Z.of_nat s1; Z.of_nat s2] (Z.of_nat order) = GOk PKL
    /\ shape4 (S order) (S order) su sv PKL
    /\ forall k l i j, k <= du -> l <= ddk k -> k + i <= r -> l + j <= s ->
         G4 PKL k l i j = map Some (nth j (nth l (vm k i) []) []).
Proof.
  unfold HelpersB.surface_deriv_cpts.
  change (znth [Z.of_nat su; Z.of_nat sv] 0%Z) with (GOk (Z.of_nat su)).
  change (znth [Z.of_nat su; Z.of_nat sv] 1%Z) with (GOk (Z.of_nat sv)).
  change (znth [Z.of_nat pu; Z.of_nat pv] 0%Z) with (GOk (Z.of_nat pu)).
  change (znth [Z.of_nat pu; Z.of_nat pv] 1%Z) with (GOk (Z.of_nat pv)).
  change (znth [Z.of_nat r1; Z.of_nat r2] 0%Z) with (GOk (Z.of_nat r1)).
  change (znth [Z.of_nat r1; Z.of_nat r2] 1%Z) with (GOk (Z.of_nat r2)).
  change (znth [Z.of_nat s1; Z.of_nat s2] 0%Z) with (GOk (Z.of_nat s1)).
  change (znth [Z.of_nat s1; Z.of_nat s2] 1%Z) with (GOk (Z.of_nat s2)).
  change (znth [Uu; Uv] 0%Z) with (GOk Uu). change (znth [Uu; Uv] 1%Z) with (GOk Uv).
  cbn [gbind].
  (* the table of placeholders *)
  replace (Z.of_nat order + 1)%Z with (Z.of_nat (S order)) by lia.
  set (PKL0 := repeat (repeat (repeat (repeat blank sv) su) (S order)) (S order)).
  assert (E0 : forall A (l : list A),
     gmapM (fun _ : A => do v_4 <- gmapM (fun _ : Z => do v_3 <- gmapM (fun _ : Z =>
        GOk (map (fun _ : Z => map (fun _ : Z => @None T) (zrange 0 (Z.of_nat dim) 1)) (zrange 0 (Z.of_nat sv) 1)))
        (zrange 0 (Z.of_nat su) 1) ;; GOk v_3) (zrange 0 (Z.of_nat (S order)) 1) ;; GOk v_4) l
     = GOk (repeat (repeat (repeat (repeat blank sv) su) (S order)) (length l))).
  { intros A l. rewrite !map_const_zrange, !Nat2Z.id.
    rewrite (gmapM_ok _ (fun _ => repeat (repeat (repeat blank sv) su) (S order))).
    - now rewrite (map_const_seq _ (fun _ => O)).
    - intros x _. rewrite (gmapM_ok _ (fun _ => repeat (repeat blank sv) su)).
      + cbn [gbind]. rewrite zrange_0_nat, map_map, (map_const_seq _ (fun _ => O)), seq_length. reflexivity.
      + intros y _. rewrite (gmapM_ok _ (fun _ => repeat blank sv)).
        * cbn [gbind]. rewrite zrange_0_nat, map_map, (map_const_seq _ (fun _ => O)), seq_length. reflexivity.
        * reflexivity. }
  rewrite E0. cbn [gbind]. rewrite (zrange_0_nat (S order)), map_length, seq_length. fold PKL0.
  assert (W0 : shape4 (S order) (S order) su sv PKL0) by apply shape4_repeat.
  rewrite !zmin_nat. fold du dv.
  replace (Z.of_nat r2 - Z.of_nat r1)%Z with (Z.of_nat r) by (unfold r; lia).
  replace (Z.of_nat s2 - Z.of_nat s1)%Z with (Z.of_nat s) by (unfold s; lia).
  replace (Z.of_nat du + 1)%Z with (Z.of_nat (S du)) by lia.
  assert (Hdu : du <= order) by (unfold du; lia). assert (Hdup : du <= pu) by (unfold du; lia).
  (* ---- phase A: the U derivatives of every column ---- *)
  replace (Z.of_nat s2 + 1)%Z with (Z.of_nat (S s2)) by lia. rewrite zrange_nat. replace (S s2 - s1) with (S s) by (unfold s; lia).
  set (Aval := fun k i jj => map Some (pt_at (nth k (colm (s1 + jj)) []) i)).
  match goal with |- context [gfor (map Z.of_nat (seq s1 (S s))) ?ff PKL0] =>
    destruct (gfor_seq_inv (fun jn (M : list (list (list (list OP)))) => shape4 (S order) (S order) su sv M
        /\ (forall k i jj, k <= du -> k + i <= r -> s1 + jj < jn -> G4 M k O i jj = Aval k i jj)) ff (S s) s1)
      with (s := PKL0) as (MA & EA & WA & HA)
  end.
  { intros j M Hj (WM & HM). cbn [gbind].
    (* the column *)
    rewrite zrange_0_nat.
    rewrite (gmapM_ok _ (fun i => pt_at P (j + sv * Z.to_nat i))).
    2:{ intros x Hx. apply in_map_iff in Hx. destruct Hx as (i & <- & Hi). apply in_seq in Hi.
        replace (Z.of_nat j + Z.of_nat sv * Z.of_nat i)%Z with (Z.of_nat (j + sv * i)) by lia.
        rewrite (znth_nat P (j + sv * i) []) by (unfold s in Hj; nia). now rewrite Nat2Z.id. }
    cbn [gbind]. rewrite map_map.
    replace (map (fun x => pt_at P (j + sv * Z.to_nat (Z.of_nat x))) (seq O su)) with (colpts j)
      by (unfold colpts; apply map_ext; intros x; now rewrite Nat2Z.id).
    rewrite (curve_deriv_cpts_tie K dim pu Uu (colpts j) r1 r2 du) by (unfold colpts; rewrite ?map_length, ?seq_length; lia).
    cbn [gbind]. fold (colm j). fold r. set (PKu := injPK dim r (colm j)).
    rewrite zrange_0_nat.
    assert (Eval : forall k i, k <= du -> k + i <= r -> nth i (nth k PKu []) [] = Aval k i (j - s1)).
    { intros k i Hk Hi. unfold PKu, injPK, Aval. rewrite (nth_indep _ [] (injrow dim (S r) [])) by (rewrite map_length, colm_length; lia).
      rewrite (map_nth (injrow dim (S r))). rewrite nth_injrow by (rewrite colm_row_length; lia).
      replace (s1 + (j - s1)) with j by lia. reflexivity. }
    match goal with |- context [gfor (map Z.of_nat (seq O (S du))) (fun X M0 => gbind (gfor (@?inn X) (fun Y M1 => @?bd X Y M1) M0) _) M] =>
      destruct (set4_loop2 (@nil (option T)) (S order) (S order) su sv (S du) (fun k => S r - k) O O
                  (fun k _ => k) (fun _ _ => O) (fun _ i => i) (fun _ _ => j - s1) (fun k i => nth i (nth k PKu []) [])
                  inn bd M WM) as (M' & E' & W' & Hv' & Hf')
    end.
    - intros k Hk. cbn [Nat.add]. apply zrange_sub1.
    - intros k i Hk Hi. unfold r in Hi. unfold s in Hj. lia.
    - intros k i M1 Hk Hi WM1. cbn [Nat.add gbind].
      rewrite (znth_nat PKu k []) by (unfold PKu, injPK; rewrite map_length, colm_length; lia). cbn [gbind].
      rewrite (znth_nat _ i []).
      2:{ unfold PKu, injPK. rewrite (nth_indep _ [] (injrow dim (S r) [])) by (rewrite map_length, colm_length; lia).
          rewrite (map_nth (injrow dim (S r))), injrow_length by (rewrite colm_row_length; lia). lia. }
      cbn [gbind].
      rewrite (zset4k (S order) (S order) su sv M1) by (auto; unfold r in Hi; unfold s in Hj; lia).
      rewrite !Nat2Z.id. replace (Z.to_nat (Z.of_nat j - Z.of_nat s1)) with (j - s1) by lia. reflexivity.
    - intros k i k' i' _ _ _ _ Heq. injection Heq as -> ->. auto.
    - rewrite E'. cbn [gbind]. eexists. split; [reflexivity|]. split; [exact W'|].
      intros k i jj Hk Hi Hjj. destruct (Nat.eq_dec jj (j - s1)) as [->|Hne].
      + rewrite (Hv' k i) by lia. apply Eval; auto.
      + rewrite Hf' by (intros x y _ _ Heq; inversion Heq; lia). apply HM; auto. lia. }
  { split; [exact W0|]. intros k i jj _ _ Hc. lia. }
  rewrite EA. cbn [gbind].
  (* ---- phase B: the V derivatives of every row ---- *)
  rewrite zrange_0_nat.
  set (Bval := fun k l i j => map Some (nth j (nth l (vm k i) []) [])).
  match goal with |- context [gfor (map Z.of_nat (seq O (S du))) ?ff MA] =>
    destruct (gfor_seq_inv (fun k0 (M : list (list (list (list OP)))) => shape4 (S order) (S order) su sv M
        /\ (forall k i jj, k <= du -> k + i <= r -> jj <= s -> G4 M k O i jj = Aval k i jj)
        /\ (forall k l i j, k < k0 -> k <= du -> k + i <= r -> 1 <= l <= ddk k -> l + j <= s -> G4 M k l i j = Bval k l i j))
      ff (S du) O) with (s := MA) as (MB & EB & WB & HB0 & HB)
  end.
  { intros k M Hk (WM & HM0 & HM). cbn [gbind]. rewrite zrange_sub1.
    match goal with |- context [gfor (map Z.of_nat (seq O (S r - k))) ?ff M] =>
      destruct (gfor_seq_inv (fun i0 (M2 : list (list (list (list OP)))) => shape4 (S order) (S order) su sv M2
          /\ (forall k' i jj, k' <= du -> k' + i <= r -> jj <= s -> G4 M2 k' O i jj = Aval k' i jj)
          /\ (forall k' l i j, (k' < k \/ (k' = k /\ i < i0)) -> k' <= du -> k' + i <= r -> 1 <= l <= ddk k' -> l + j <= s ->
                G4 M2 k' l i j = Bval k' l i j))
        ff (S r - k) O) with (s := M) as (M2 & E2 & W2 & H20 & H2)
    end.
    { intros i M2 Hi (WM2 & HM20 & HM2). cbn [gbind].
      replace (Z.of_nat order - Z.of_nat k)%Z with (Z.of_nat (order - k)) by lia. rewrite zmin_nat. fold (ddk k).
      rewrite (zget3k (S order) (S order) su sv M2) by (auto; unfold r in Hi; lia).
      rewrite !Nat2Z.id. change (Z.to_nat 0) with O.
      set (row := nth i (nth O (nth k M2 []) []) []).
      assert (Lrow : length row = sv).
      { destruct WM2 as (_ & Hs2'). destruct (Hs2' k ltac:(lia)) as (_ & Hs3). destruct (Hs3 O ltac:(lia)) as (_ & Hs4).
        apply Hs4. unfold r in Hi. lia. }
      assert (Eslice : zslice_from Uv (Z.of_nat s1) = skipn s1 Uv).
      { unfold zslice_from, zclamp. destruct (Z.ltb_spec (Z.of_nat s1) 0); [lia|]. rewrite Nat2Z.id. f_equal. unfold s in *. lia. }
      rewrite Eslice.
      change [0%Z; Z.of_nat s] with [Z.of_nat O; Z.of_nat s].
      rewrite (curve_deriv_cpts_opt_eq (Z.of_nat dim) (Z.of_nat pv) (skipn s1 Uv) row (rowpts k i) O s (Z.of_nat (ddk k))).
      2:{ lia. } 2:{ unfold s in *. lia. } 2:{ unfold rowpts. rewrite map_length, seq_length. lia. }
      2:{ intros jj Hjj. change (nth jj row []) with (G4 M2 k O i jj). rewrite HM20 by lia.
          unfold Aval, rowpts. rewrite nth_map_seq by lia. reflexivity. }
      rewrite (curve_deriv_cpts_tie K dim pv (skipn s1 Uv) (rowpts k i) O s (ddk k)).
      2:{ lia. } 2:{ unfold rowpts. rewrite map_length, seq_length. lia. }
      2:{ rewrite skipn_length. unfold s in *. lia. } 2:{ unfold ddk, dv. lia. }
      cbn [gbind]. fold (vm k i). rewrite Nat.sub_0_r. set (PKuv := injPK dim s (vm k i)).
      replace (Z.of_nat (ddk k) + 1)%Z with (Z.of_nat (S (ddk k))) by lia. rewrite zrange_1_of_nat.
      replace (S (ddk k) - 1) with (ddk k) by lia.
      assert (Eval : forall l j, 1 <= l <= ddk k -> l + j <= s -> nth j (nth l PKuv []) [] = Bval k l i j).
      { intros l j Hl Hj. unfold PKuv, injPK, Bval. rewrite (nth_indep _ [] (injrow dim (S s) [])) by (rewrite map_length, vm_length; lia).
        rewrite (map_nth (injrow dim (S s))). rewrite nth_injrow by (rewrite vm_row_length; lia). reflexivity. }
      assert (Hdd : ddk k <= order) by (unfold ddk; lia).
      match goal with |- context [gfor (map Z.of_nat (seq 1 (ddk k))) (fun X M0 => gbind (gfor (@?inn X) (fun Y M1 => @?bd X Y M1) M0) _) M2] =>
        destruct (set4_loop2 (@nil (option T)) (S order) (S order) su sv (ddk k) (fun x => S s - (1 + x)) 1 O
                    (fun _ _ => k) (fun x _ => 1 + x) (fun _ _ => i) (fun _ y => y) (fun x y => nth y (nth (1 + x) PKuv []) [])
                    inn bd M2 WM2) as (M' & E' & W' & Hv' & Hf')
      end.
      - intros x Hx. replace (Z.of_nat s - Z.of_nat (1 + x) + 1)%Z with (Z.of_nat s - Z.of_nat (1 + x) + 1)%Z by reflexivity.
        apply zrange_sub1.
      - intros x y Hx Hy. unfold r in Hi. unfold s in *. lia.
      - intros x y M1 Hx Hy WM1. cbn [Nat.add gbind].
        rewrite (znth_nat PKuv (S x) []) by (unfold PKuv, injPK; rewrite map_length, vm_length; lia). cbn [gbind].
        rewrite (znth_nat _ y []).
        2:{ unfold PKuv, injPK. rewrite (nth_indep _ [] (injrow dim (S s) [])) by (rewrite map_length, vm_length; lia).
            rewrite (map_nth (injrow dim (S s))), injrow_length by (rewrite vm_row_length; lia). lia. }
        cbn [gbind].
        rewrite (zset4k (S order) (S order) su sv M1) by (auto; unfold r in Hi; unfold s in *; lia).
        rewrite !Nat2Z.id. reflexivity.
      - intros x y x' y' _ _ _ _ Heq. injection Heq as Hx Hy. split; lia.
      - rewrite E'. cbn [gbind]. eexists. split; [reflexivity|]. split; [exact W'|]. split.
        + intros k' i' jj Hk' Hi' Hjj. rewrite Hf' by (intros x y _ _ Heq; inversion Heq; lia). apply HM20; auto.
        + intros k' l i' j Hc Hk' Hi' Hl Hj.
          destruct (Nat.eq_dec k' k) as [->|Hnk]; [destruct (Nat.eq_dec i' i) as [->|Hni]|].
          * replace l with (1 + (l - 1)) by lia. rewrite (Hv' (l - 1) j) by lia. replace (1 + (l - 1)) with l by lia.
            apply Eval; auto.
          * rewrite Hf' by (intros x y _ _ Heq; inversion Heq; lia). apply HM2; auto.
            destruct Hc as [Hc|[_ Hc]]; [left; exact Hc|right; split; [reflexivity|lia]].
          * rewrite Hf' by (intros x y _ _ Heq; inversion Heq; lia). apply HM2; auto.
            destruct Hc as [Hc|[Hc _]]; [left; exact Hc|congruence]. }
    { split; [exact WM|]. split; [exact HM0|]. intros k' l i j [Hc|[_ Hc]]; [|lia]. intros. apply HM; auto. }
    rewrite E2. cbn [gbind]. eexists. split; [reflexivity|]. split; [exact W2|]. split; [exact H20|].
    intros k' l i j Hk' Hk'' Hi Hl Hj. apply H2; auto.
    destruct (Nat.eq_dec k' k) as [->|]; [right; split; [reflexivity|lia]|left; lia]. }
  { split; [exact WA|]. split.
    - intros k i jj Hk Hi Hjj. apply HA; auto. lia.
    - intros k l i j Hc. lia. }
  rewrite EB. cbn [gbind]. exists MB. split; [reflexivity|]. split; [exact WB|].
  intros k l i j Hk Hl Hi Hj. destruct l as [|l].
  - rewrite HB0 by lia. unfold Aval. f_equal.
    unfold vm. rewrite model_rows, Nat.sub_0_r. rewrite (nth_map_seq _ (S (ddk k)) O []) by lia. cbn [rowm]. unfold PK0.
    rewrite (nth_map_seq _ (S s) j []) by lia. cbn [Nat.add]. unfold rowpts.
    change (pt_at (map (fun jj => pt_at (nth k (colm (s1 + jj)) []) i) (seq O (S s))) j)
      with (nth j (map (fun jj => pt_at (nth k (colm (s1 + jj)) []) i) (seq O (S s))) []).
    rewrite (nth_map_seq _ (S s) j []) by lia. reflexivity.
  - apply HB; auto; lia.
Qed.

(* wf: rs = (r1, r2), r1 <= r2 < size_u; ss = (s1, s2), s1 <= s2 < size_v; size_u * size_v control points; the knots read exist.
   Every entry the model defines is the entry of the generated table, injected with Some (the other entries of the table
   are None placeholders or intermediate points the model does not return) *)
Theorem surface_deriv_cpts_tie_shape :
  exists PKL, HelpersB.surface_deriv_cpts K (Z.of_nat dim) [Z.of_nat pu; Z.of_nat pv] [Uu; Uv] P [Z.of_nat su; Z.of_nat sv]
                [Z.of_nat r1; Z.of_nat r2] [Z.of_nat s1; Z.of_nat s2] (Z.of_nat order) = GOk PKL
    /\ shape4 (S order) (S order) su sv PKL
    /\ forall k l i j, k <= Nat.min pu order -> l <= Nat.min (order - k) (Nat.min pv order) -> k + i <= r2 - r1 -> l + j <= s2 - s1 ->
         nth j (nth i (nth l (nth k PKL []) []) []) [] =
         map Some (pkl_get (Derivs.surface_deriv_cpts K pu pv Uu Uv P su sv r1 r2 s1 s2 order) k l i j).
Proof.
  destruct surface_deriv_cpts_tie_get as (PKL & E & W & H). exists PKL. split; [exact E|]. split; [exact W|].
  intros k l i j Hk Hl Hi Hj. rewrite model_get by assumption. apply (H k l i j Hk Hl Hi Hj).
Qed.
End Surf.
End Tie.

