(* Ties: generated linalg.vector_generate (normalize = False), point_translate, point_mid, vector_is_zero, vector_mean, matrix_scalar
   (Gen/LinalgB.v) = Model/LinAlg.v.  No law of the scalar operations is used (vector_mean adds from the left on both sides). *)
From Coq Require Import List ZArith Arith Bool Lia QArith.
From NV Require Import Scalar.Ops Model.Common Model.LinAlg Gen.Prelude Gen.PreludeExt Gen.PreludeExt2 Gen.LinalgInternal Gen.Linalg Gen.LinalgB
  Proofs.GenTieLib Proofs.GenTieLib2 Proofs.GenTieEvalLib.
Import ListNotations.
Local Open Scope nat_scope.

Section Tie.
Context {T : Type} (K : ops T).
Notation "0" := (o0 K).

(* ---- vector_generate (normalize = False): ValueError <-> Rejected ---- *)
Lemma vgen_loop (l : list (T * T)) (acc : list T) :
  gfor l (fun '(sp, ep) ret_vec => let ret_vec := ret_vec ++ [osub K ep sp] in GOk ret_vec) acc
  = GOk (acc ++ map (fun p => osub K (snd p) (fst p)) l).
Proof.
  revert acc; induction l as [|[x y] l IH]; intros acc; simpl.
  - now rewrite app_nil_r.
  - rewrite IH. now rewrite <- app_assoc.
Qed.

Theorem vector_generate_tie (s e : list T) :
  LinalgB.vector_generate__normalize_false K s e = res_to_gres (fun x => x) ValueError IndexError (LinAlg.vector_generate K s e).
Proof.
  unfold LinalgB.vector_generate__normalize_false, LinAlg.vector_generate.
  destruct s as [|s0 sr]; [reflexivity|]. destruct e as [|e0 er]; [reflexivity|].
  cbn [isnil orb res_to_gres]. unfold zlen. cbn [length].
  change (Z.of_nat (S (length sr)) =? 0)%Z with false. change (Z.of_nat (S (length er)) =? 0)%Z with false.
  cbn [orb gtry gbind]. rewrite vgen_loop. reflexivity.
Qed.

(* ---- point_translate: ValueError <-> Rejected ---- *)
Theorem point_translate_tie (p v : list T) :
  LinalgB.point_translate K p v = res_to_gres (fun x => x) ValueError IndexError (LinAlg.point_translate K p v).
Proof.
  unfold LinalgB.point_translate, LinAlg.point_translate.
  destruct p as [|p0 pr]; [reflexivity|]. destruct v as [|v0 vr]; [reflexivity|].
  cbn [isnil orb res_to_gres]. unfold zlen. cbn [length].
  change (Z.of_nat (S (length pr)) =? 0)%Z with false. change (Z.of_nat (S (length vr)) =? 0)%Z with false.
  cbn [orb gtry gbind]. f_equal. apply map_ext. intros [a b]. reflexivity.
Qed.

(* ---- point_mid: the literal 0.5 is olit K 1 2; ValueError <-> Rejected ---- *)
Theorem point_mid_tie (a b : list T) :
  LinalgB.point_mid K a b = res_to_gres (fun x => x) ValueError IndexError (LinAlg.point_mid K (olit K 1 2) a b).
Proof.
  unfold LinalgB.point_mid, LinAlg.point_mid. unfold zlen.
  replace (Z.of_nat (length a) =? Z.of_nat (length b))%Z with (Nat.eqb (length a) (length b)).
  2:{ destruct (Nat.eqb_spec (length a) (length b)); destruct (Z.eqb_spec (Z.of_nat (length a)) (Z.of_nat (length b))); auto; lia. }
  destruct (Nat.eqb (length a) (length b)); cbn [negb]; [|reflexivity].
  rewrite vector_generate_tie.
  destruct (LinAlg.vector_generate K a b) as [d| |]; cbn [res_to_gres gbind res_bind]; try reflexivity.
  change (Linalg.vector_multiply K d (olit K 1 2)) with (GOk (LinAlg.vector_multiply K d (olit K 1 2))). cbn [gbind].
  rewrite point_translate_tie. destruct (LinAlg.point_translate K a _); reflexivity.
Qed.

(* ---- vector_is_zero: ALL inputs, any tolerance ---- *)
Lemma py_all_map {A} (f : A -> bool) (l : list A) : py_all (map f l) = forallb f l.
Proof. unfold py_all. induction l; simpl; auto. now rewrite IHl. Qed.

Theorem vector_is_zero_tie (v : list T) (tol : T) :
  LinalgB.vector_is_zero K v tol = GOk (LinAlg.vector_is_zero K tol v).
Proof.
  unfold LinalgB.vector_is_zero, LinAlg.vector_is_zero. unfold zlen.
  rewrite map_const_zrange, Nat2Z.id, zrange_0_nat, (gfor_map Z.of_nat).
  set (test := fun x => oltb K (oabs K x) tol).
  rewrite (gfor_fill false _ (fun i => test (nth i v 0)) (repeat false (length v)) (length v)).
  - cbn [gbind]. rewrite skipn_all2 by (rewrite repeat_length; lia). rewrite app_nil_r.
    rewrite (map_nth_seq test v 0). now rewrite py_all_map.
  - rewrite repeat_length. lia.
  - intros i M' Hi LM' Hrest. rewrite repeat_length in LM'.
    rewrite (znth_nat v i 0) by lia. cbn [gbind]. fold (test (nth i v 0)).
    destruct (test (nth i v 0)) eqn:E.
    + rewrite zset_nat by lia. reflexivity.
    + cbn [gbind]. f_equal. rewrite <- (upd_nth_id M' i false) at 1. f_equal.
      rewrite Hrest by lia. now rewrite nth_repeat_lt by lia.
Qed.

(* ---- vector_mean( *args ): IndexError <-> Crash (no vector) ---- *)
Theorem vector_mean_tie (vs : list (list T)) :
  LinalgB.vector_mean K vs = res_to_gres (fun x => x) ValueError IndexError (LinAlg.vector_mean K vs).
Proof.
  unfold LinalgB.vector_mean, LinAlg.vector_mean.
  destruct vs as [|v0 vr]; [reflexivity|]. rewrite znth_0. cbn [gbind res_to_gres]. set (vs := v0 :: vr).
  unfold zlen. rewrite map_const_zrange, Nat2Z.id.
  rewrite (gfor_pure vs _ (fun acc v => map (fun p => oadd K (fst p) (snd p)) (combine acc v))).
  - cbn [gbind]. f_equal. apply map_ext. intros a. now rewrite ofZ_of_nat.
  - intros x s _. f_equal. apply map_ext. intros [a b]. reflexivity.
Qed.

(* ---- matrix_scalar ---- *)
(* wf: a first row, no row shorter than the first (IndexError in the source, 0 in the model) *)
Theorem matrix_scalar_tie (m : list (list T)) (s : T) :
  m <> [] -> (forall r, In r m -> length (hd [] m) <= length r) ->
  LinalgB.matrix_scalar K m s = res_to_gres (fun x => x) ValueError IndexError (LinAlg.matrix_scalar K m s).
Proof.
  intros Hne Hrows. unfold LinalgB.matrix_scalar, LinAlg.matrix_scalar.
  destruct m as [|r0 mr] eqn:Em; [congruence|]. rewrite <- Em in *. cbn [res_to_gres].
  assert (E0 : znth m 0%Z = GOk r0) by (rewrite Em; apply znth_0).
  assert (Ehd : hd [] m = r0) by (rewrite Em; reflexivity). rewrite Ehd in Hrows.
  set (n := length m). set (c := length r0) in *.
  assert (Hrows' : forall i, i < n -> c <= length (nth i m [])).
  { intros i Hi. apply Hrows. now apply nth_In. }
  unfold zlen. fold n.
  rewrite (gmapM_ok _ (fun _ => repeat 0 c)).
  2:{ intros x _. rewrite E0. cbn [gbind]. unfold zlen. fold c. now rewrite map_const_zrange, Nat2Z.id. }
  cbn [gbind]. rewrite map_const_zrange, Nat2Z.id, zrange_0_nat, (gfor_map Z.of_nat).
  set (M0 := repeat (repeat 0 c) n).
  rewrite (gfor_fill [] _ (fun i => map (fun j => omul K (nth j (nth i m []) 0) s) (seq 0 c)) M0 n).
  - cbn [gbind]. rewrite skipn_all2 by (unfold M0; rewrite repeat_length; lia). rewrite app_nil_r.
    f_equal. rewrite <- (map_nth_seq (fun r => map (fun j => omul K (nth j r 0) s) (seq 0 c)) m []). reflexivity.
  - unfold M0. rewrite repeat_length. lia.
  - intros i M' Hi LM' Hrest. unfold M0 in LM'. rewrite repeat_length in LM'.
    rewrite E0. cbn [gbind]. unfold zlen. fold c. rewrite zrange_0_nat, (gfor_map Z.of_nat).
    assert (Hrow : nth i M' [] = repeat 0 c).
    { rewrite Hrest by lia. unfold M0. now rewrite nth_repeat_lt by lia. }
    rewrite (gfor_rowQ [] (fun row => length row = c) (seq 0 c) _ i (fun row j => upd row j (omul K (nth j (nth i m []) 0) s))).
    + cbn [gbind]. f_equal. f_equal. rewrite Hrow.
      rewrite (fold_fill 0 (fun j _ => omul K (nth j (nth i m []) 0) s) (repeat 0 c) c) by (rewrite repeat_length; lia).
      rewrite skipn_all2 by (rewrite repeat_length; lia). now rewrite app_nil_r.
    + lia.
    + rewrite Hrow. now rewrite repeat_length.
    + intros row j _ Hl. now rewrite upd_length.
    + intros j M2 Hj LM2 Hl. apply in_seq in Hj.
      rewrite (znth_nat m i []) by (fold n; lia). cbn [gbind].
      rewrite (znth_nat (nth i m []) j 0) by (specialize (Hrows' i); lia). cbn [gbind].
      rewrite (znth_nat M2 i []) by lia. cbn [gbind].
      rewrite zset_nat by lia. cbn [gbind]. rewrite zset_nat by lia. reflexivity.
Qed.
End Tie.

Require Import Reals.
Definition vector_generate_tie_R := @vector_generate_tie R Rops.
Definition vector_generate_tie_Q := @vector_generate_tie Q Qops.
Definition point_translate_tie_R := @point_translate_tie R Rops.
Definition point_translate_tie_Q := @point_translate_tie Q Qops.
Definition point_mid_tie_R := @point_mid_tie R Rops.
Definition point_mid_tie_Q := @point_mid_tie Q Qops.
Definition vector_is_zero_tie_R := @vector_is_zero_tie R Rops.
Definition vector_is_zero_tie_Q := @vector_is_zero_tie Q Qops.
Definition vector_mean_tie_R := @vector_mean_tie R Rops.
Definition vector_mean_tie_Q := @vector_mean_tie Q Qops.
Definition matrix_scalar_tie_R := @matrix_scalar_tie R Rops.
Definition matrix_scalar_tie_Q := @matrix_scalar_tie Q Qops.

(* ---- examples (the values geomdl returns) ---- *)
Local Open Scope Q_scope.
Example point_mid_ex :
  LinalgB.point_mid Qops [1; 2; 3] [3; 6; 4] = GOk [2; 4; 7 # 2]
  /\ LinAlg.point_mid Qops (olit Qops 1 2) [1; 2; 3] [3; 6; 4] = Ok [2; 4; 7 # 2]
  /\ LinalgB.point_mid Qops [1; 2] [1; 2; 3] = GErr ValueError /\ LinAlg.point_mid Qops (olit Qops 1 2) [1; 2] [1; 2; 3] = Rejected.
Proof. split; [|split; [|split]]; vm_compute; reflexivity. Qed.
Example vector_generate_ex :
  LinalgB.vector_generate__normalize_false Qops [1; 2; 3] [3; 6] = GOk [2; 4]
  /\ LinalgB.point_translate Qops [1; 2] [3; 4; 5] = GOk [4; 6]
  /\ LinalgB.vector_generate__normalize_false Qops [] [3; 6] = GErr ValueError.
Proof. split; [|split]; vm_compute; reflexivity. Qed.
Example vector_is_zero_ex :
  LinalgB.vector_is_zero Qops [1 # 1000000000; -1 # 1000000000; 0] (1 # 10000000) = GOk true
  /\ LinalgB.vector_is_zero Qops [1 # 1000000000; 1 # 1000] (1 # 10000000) = GOk false
  /\ LinAlg.vector_is_zero Qops (1 # 10000000) [1 # 1000000000; 1 # 1000] = false
  /\ LinalgB.vector_is_zero Qops [] (1 # 10000000) = GOk true.
Proof. split; [|split; [|split]]; vm_compute; reflexivity. Qed.
Example vector_mean_ex :
  LinalgB.vector_mean Qops [[1; 2; 3]; [4; 5; 6]; [7; 8; 10]] = GOk [4; 5; 19 # 3]
  /\ LinAlg.vector_mean Qops [[1; 2; 3]; [4; 5; 6]; [7; 8; 10]] = Ok [4; 5; 19 # 3]
  /\ LinalgB.vector_mean Qops [] = GErr IndexError.
Proof. split; [|split]; vm_compute; reflexivity. Qed.
Example matrix_scalar_ex :
  LinalgB.matrix_scalar Qops [[1; 2]; [3; 4]] 2 = GOk [[2; 4]; [6; 8]]
  /\ LinAlg.matrix_scalar Qops [[1; 2]; [3; 4]] 2 = Ok [[2; 4]; [6; 8]]
  /\ LinalgB.matrix_scalar Qops [[1]; [3; 4]] 2 = GOk [[2]; [6]]
  /\ LinalgB.matrix_scalar Qops [[1; 2]; [3]] 2 = GErr IndexError.
Proof. split; [|split; [|split]]; vm_compute; reflexivity. Qed.
(* MODEL-VS-SOURCE MISMATCH (outside wf): the empty matrix.  Python's matrix_scalar([], 2.0) returns [] (len(m[0]) is never
   evaluated: both loops are over range(0)), the generated code agrees, the model says Crash. *)
Example matrix_scalar_empty_mismatch :
  LinalgB.matrix_scalar Qops [] 2 = GOk [] /\ LinAlg.matrix_scalar Qops [] 2 = Crash.
Proof. split; vm_compute; reflexivity. Qed.
