#!/bin/sh
# Compiles the generated code and its tie proofs in dependency order (single files, no make); prints wall times.
# usage: cd /verif/coq && sh Proofs/GenTie.build.sh [first-file-to-start-from]
# The files of the second round start at Gen/PreludeExt and depend on the first round, never the other way:
#   sh Proofs/GenTie.build.sh Gen/PreludeExt    rebuilds the second (and third) round only.
#   sh Proofs/GenTie.build.sh Gen/HelpersC      rebuilds the third (and fourth) round (geomdl/evaluators.py) only.
#   sh Proofs/GenTie.build.sh Gen/Compatibility rebuilds the fourth round only.
cd "$(dirname "$0")/.." || exit 1
FILES="Gen/Prelude Gen/LinalgInternal Gen/Linalg Gen/Knotvector Gen/Helpers
Proofs/GenTieLib Proofs/GenTieKnots Proofs/GenTieSpan Proofs/GenTieBasis Proofs/GenTieBasisOne Proofs/GenTieDersOne
Proofs/GenTieDersLib Proofs/GenTieDers Proofs/GenTieKnotIns Proofs/GenTieSums Proofs/GenTieLinAlg Proofs/GenTieSubst
Proofs/GenTieLU Proofs/GenTieLUSolve Proofs/GenTieKnotRem Proofs/GenTieDegree
Gen/PreludeExt Gen/LinalgGeom Gen/Voxelize Gen/Utilities Gen/LinalgMat Gen/HelpersB Gen/Fitting
Proofs/GenTieLib2 Proofs/GenTieGeom Proofs/GenTieVoxel Proofs/GenTieBBox Proofs/GenTieHull
Proofs/GenTieMat Proofs/GenTieMatSolve Proofs/GenTieBinom Proofs/GenTieElev Proofs/GenTieFit Proofs/GenTieDerivCpts Proofs/GenTieArr4 Proofs/GenTieDerivSurf Proofs/GenTieKnotRemove Proofs/GenTieRefine
Gen/HelpersC Gen/Evaluators Proofs/GenTieEvalLib Proofs/GenTieEvalCurve Proofs/GenTieEvalSurf Proofs/GenTieEvalVol
Proofs/GenTieBasisAll Proofs/GenTieEvalDerivCurve Proofs/GenTieEvalDerivCurve2 Proofs/GenTieEvalDerivSurf
Proofs/GenTieEvalDerivSurfRat Proofs/GenTieDerivSurfShape Proofs/GenTieEvalDerivSurf2
Gen/Compatibility Proofs/GenTieCompat Proofs/GenTieFlip
Gen/OperationsInternal Gen/UtilitiesB Proofs/GenTieFindCtrlpts Proofs/GenTieCheckParams
Gen/PreludeExt2 Gen/FittingB Proofs/GenTieFitB Proofs/GenTieFitSurf Gen/LinalgB Proofs/GenTieLinAlgB Proofs/GenTieLinAlgSqrt
Gen/LinalgC Gen/VoxelizeB Proofs/GenTieVoxelGrid
Gen/FittingC Proofs/GenTieApprox"
start="$1"; go=1; [ -n "$start" ] && go=0
for f in $FILES; do
  [ "$f" = "$start" ] && go=1
  [ $go = 1 ] || continue
  [ -f "$f.v" ] || continue
  s=$(date +%s.%N)
  timeout 900 coqc -Q . NV -w -notation-overridden "$f.v" || { echo "FAILED $f"; exit 1; }
  e=$(date +%s.%N)
  printf "%-28s %6.1f s\n" "$f" "$(echo "$e - $s" | bc)"
done
