(* C14: JSON (dict) export followed by import reproduces the shape, at the real instance of Model.Exchange,
   for any number text type S whose codec satisfies parse (print x) = x. *)
From Coq Require Import List Arith Bool Lia Reals Lra String.
From NV Require Import Scalar.Ops Model.Common Model.Knots Model.Layout Model.Exchange Proofs.LayoutP Proofs.LayoutR Proofs.ExchangeP.
Import ListNotations.
Open Scope string_scope. Open Scope list_scope.
Notation length := List.length (only parsing).

Section J.
Context {S : Type} (pr : R -> S) (pa : S -> R) (Hpr : forall x, pa (pr x) = x).
Context (d1 d2 d3 : R).
Notation K := Rops.
Open Scope R_scope.

(* ------------------------------------------------------------------ number lists survive the codec *)
Lemma as_nums_jnums (l : list R) : as_nums K pa (jnums pr l) = Some l.
Proof.
  unfold as_nums, jnums. induction l as [|x l IH]; [reflexivity|]. cbn [map mapO as_num]. rewrite IH, Hpr. reflexivity.
Qed.
Lemma as_pts_jpts (L : list (list R)) : as_pts K pa (jpts pr L) = Some L.
Proof.
  unfold as_pts, jpts. induction L as [|p L IH]; [reflexivity|]. cbn [map mapO]. rewrite as_nums_jnums, IH. reflexivity.
Qed.

Lemma jcp_points rat pts : jget "points" (jcp K pr rat pts) = Some (jpts pr (if rat then sep_pts K pts else pts)).
Proof. reflexivity. Qed.
Lemma jcp_weights rat pts : jget "weights" (jcp K pr rat pts) = if rat then Some (jnums pr (sep_ws K pts)) else None.
Proof. destruct rat; reflexivity. Qed.

(* ------------------------------------------------------------------ the control point chain: ctrlpts setter, then weights setter *)
Lemma removelast_len (p : list R) : p <> [] -> (length (removelast p) + 1 = length p)%nat.
Proof. intros H. rewrite (split_last p 0 H) at 2. rewrite app_length. reflexivity. Qed.

Definition plain (rat : bool) (pts : list (list R)) := if rat then sep_pts K pts else pts.
Definition P1of (rat : bool) (pts : list (list R)) := map (fun p => p ++ [1]) (plain rat pts).

Lemma plain_length rat pts : length (plain rat pts) = length pts.
Proof. unfold plain, sep_pts. destruct rat; [apply map_length|reflexivity]. Qed.

Lemma P1_props rat minlen pts : wf_pts rat minlen pts ->
  P1of rat pts <> [] /\ (minlen <= length (hd [] (P1of rat pts)))%nat /\
  (forall p, In p (P1of rat pts) -> length p = length (hd [] (P1of rat pts))) /\ length (P1of rat pts) = length pts.
Proof.
  intros (Hne & Hlen & Hmin & Hpos & Hw). unfold P1of. rewrite map_length, plain_length.
  destruct pts as [|p0 pts]; [contradiction|]. cbn [hd] in *.
  assert (Hp0 : p0 <> []) by (intros ->; cbn in Hpos; lia).
  unfold plain. destruct rat; cbn [sep_pts map hd].
  - split; [discriminate|].
    assert (Hq : forall q, In q (p0 :: pts) ->
              length (map (fun c : R => odiv K c (lastc K q)) (removelast q) ++ [1]) = length p0).
    { intros q Hq. rewrite app_length, map_length. cbn [length].
      assert (Hq0 : q <> []) by (intros ->; specialize (Hlen [] Hq); cbn in Hlen; lia).
      pose proof (removelast_len q Hq0). specialize (Hlen q Hq). lia. }
    split; [rewrite Hq by (left; reflexivity); lia|]. split; [|reflexivity].
    intros p [<-|Hp]; [reflexivity|]. rewrite map_map in Hp. apply in_map_iff in Hp. destruct Hp as (q & <- & Hin).
    rewrite !Hq; [reflexivity|left; reflexivity|right; exact Hin].
  - split; [discriminate|]. split; [rewrite app_length; cbn [length]; lia|]. split; [|reflexivity].
    intros p [<-|Hp]; [reflexivity|]. apply in_map_iff in Hp. destruct Hp as (q & <- & Hq).
    rewrite !app_length. cbn [length]. rewrite (Hlen q (or_intror Hq)). reflexivity.
Qed.

Lemma first_set_ok rat minlen degs sizes pts : wf_pts rat minlen pts ->
  (forall dg, In dg degs -> dg <> 0%nat) -> (forall ds, In ds (combine degs sizes) -> (fst ds + 1 <= snd ds)%nat) ->
  set_pts minlen degs sizes (combine_w K (plain rat pts) (ones K (length (plain rat pts)))) = Ok (P1of rat pts).
Proof.
  intros W Hd Hs. rewrite combine_w_ones. destruct (P1_props rat minlen pts W) as (A & B & C & _).
  apply set_pts_ok; assumption.
Qed.

Lemma apply_weights_ok rat minlen degs sizes need pts : wf_pts rat minlen pts ->
  (forall dg, In dg degs -> dg <> 0%nat) ->
  (forall ds, In ds (combine degs (match sizes with Some sz => sz | None => [length pts] end)) -> (fst ds + 1 <= snd ds)%nat) ->
  (need <= length pts)%nat ->
  apply_weights K pa minlen degs sizes need (P1of rat pts) (jcp K pr rat pts) = Ok (homogR rat pts).
Proof.
  intros W Hd Hs Hn. unfold apply_weights. rewrite jcp_weights. destruct rat.
  - rewrite as_nums_jnums. cbn [oreq]. unfold P1of, plain. rewrite sep_pts_app1.
    pose proof (wf_homog_ok true minlen pts W) as Hok. cbn [homogR] in Hok.
    rewrite combine_w_sep by exact Hok.
    destruct (wf_homog_lens true minlen pts W) as (A & B & C). cbn [homogR] in A, B, C.
    rewrite set_pts_ok; try assumption. cbn [res_bind].
    destruct (Nat.ltb_spec (length pts) need) as [|_]; [lia|reflexivity].
  - reflexivity.
Qed.

(* ------------------------------------------------------------------ curves *)
Definition wf_crv (c : crv (T:=R)) : Prop :=
  c_deg c <> 0%nat /\ (c_deg c + 1 <= length (c_pts c))%nat /\ wf_pts (c_rat c) 3 (c_pts c) /\
  wf_kv (c_deg c) (c_kv c) (length (c_pts c)) /\ 0 < c_delta c < 1.
Definition rat_crv (c : crv (T:=R)) : crv (T:=R) :=
  mkC true (c_deg c) (c_kv c) (homogR (c_rat c) (c_pts c)) (c_delta c) (c_rev c).

Lemma get_rev_jrev (pre : list (string * jv S)) r : assoc "reversed" pre = None ->
  get_rev (JObj (pre ++ jrev r)) = r.
Proof.
  intros H. unfold get_rev, jget.
  assert (E : forall l : list (string * jv S), assoc "reversed" l = None -> assoc "reversed" (l ++ jrev r) = assoc "reversed" (jrev r)).
  { induction l as [|[k v] l IH]; intros Hl; [reflexivity|]. cbn [assoc app] in *. destruct (String.eqb "reversed" k); [discriminate|auto]. }
  rewrite E by exact H. destruct r; reflexivity.
Qed.

Theorem import_export_crv (c : crv (T:=R)) : wf_crv c -> import_crv K pa d1 (export_crv K pr c) = Ok (rat_crv c).
Proof.
  intros (Hd & Hn & Hp & Hk & Hdl). unfold import_crv.
  change (jget "degree" (export_crv K pr c)) with (Some (JInt (S:=S) (c_deg c))).
  change (jget "control_points" (export_crv K pr c)) with (Some (jcp K pr (c_rat c) (c_pts c))).
  change (jget "knotvector" (export_crv K pr c)) with (Some (jnums pr (c_kv c))).
  cbn [oreq]. rewrite jcp_points. cbn [oreq as_nat]. rewrite as_pts_jpts, as_nums_jnums. cbn [oreq].
  rewrite set_degree_ok by exact Hd. cbn [res_bind].
  fold (plain (c_rat c) (c_pts c)).
  rewrite (first_set_ok (c_rat c) 3 [c_deg c] [length (plain (c_rat c) (c_pts c))] (c_pts c) Hp).
  2:{ intros dg [<-|[]]. exact Hd. }
  2:{ intros ds [<-|[]]. cbn [fst snd]. rewrite plain_length. exact Hn. }
  cbn [res_bind]. destruct (P1_props (c_rat c) 3 (c_pts c) Hp) as (_ & _ & _ & HL). rewrite HL.
  rewrite set_kv_ok by exact Hk. cbn [res_bind].
  rewrite (apply_weights_ok (c_rat c) 3 [c_deg c] None 0 (c_pts c) Hp).
  2:{ intros dg [<-|[]]. exact Hd. }
  2:{ intros ds [<-|[]]. cbn [fst snd]. exact Hn. }
  2:{ lia. }
  cbn [res_bind]. unfold opt_delta.
  change (jget "delta" (export_crv K pr c)) with (Some (JNum (pr (c_delta c)))). cbn [oreq as_num]. rewrite Hpr.
  rewrite set_delta_ok by exact Hdl. cbn [res_bind].
  unfold export_crv. rewrite get_rev_jrev by reflexivity. reflexivity.
Qed.

(* ------------------------------------------------------------------ association lists with literal keys *)
Lemma assoc_app {V} k (l1 l2 : list (string * V)) :
  assoc k (l1 ++ l2) = match assoc k l1 with Some v => Some v | None => assoc k l2 end.
Proof. induction l1 as [|[k' v] l1 IH]; [reflexivity|]. cbn [assoc app]. destruct (String.eqb k k'); [reflexivity|exact IH]. Qed.
Lemma assoc_jrev_other k r : k <> "reversed" -> assoc k (jrev (S:=S) r) = None.
Proof. intros H. destruct r; [|reflexivity]. cbn [jrev assoc]. destruct (String.eqb_spec k "reversed"); [contradiction|reflexivity]. Qed.
Lemma mapM_map {X Y Z} (f : Y -> res Z) (g : X -> Y) l : mapM f (map g l) = mapM (fun x => f (g x)) l.
Proof. induction l as [|x l IH]; [reflexivity|]. cbn [map mapM]. rewrite IH. reflexivity. Qed.

(* ------------------------------------------------------------------ freeform and container trims *)
Theorem import_export_ff (f : ffm (T:=R)) : f_pts f <> [] -> import_ff K pa (export_ff pr f) = Ok f.
Proof.
  intros Hne. unfold import_ff.
  change (jget "points" (export_ff pr f)) with (Some (jpts pr (f_pts f))). cbn [oreq]. rewrite as_pts_jpts. cbn [oreq].
  destruct (f_pts f) as [|p0 P] eqn:E; [contradiction|].
  change (jget "name" (export_ff pr f)) with (Some (JStr (S:=S) (f_name f))). cbn [as_str].
  unfold export_ff. rewrite get_rev_jrev by reflexivity. destruct f. cbn in *. subst. reflexivity.
Qed.

Definition crv2 (c : crv (T:=R)) : Prop := wf_crv c /\ crv_dim (rat_crv c) = 2%nat.
Definition wf_trim (t : trim (T:=R)) : Prop :=
  match t with
  | TrC c => crv2 c
  | TrF f => f_pts f <> [] /\ length (hd [] (f_pts f)) = 2%nat
  | TrM cs _ => cs <> [] /\ forall c, In c cs -> crv2 c
  end.
Definition rat_trim (t : trim (T:=R)) : trim (T:=R) :=
  match t with TrC c => TrC (rat_crv c) | TrF f => TrF f | TrM cs r => TrM (map rat_crv cs) r end.

Lemma import_export_multi cs rev : cs <> [] -> (forall c, In c cs -> crv2 c) ->
  import_multi_crv K pa d1 (export_multi_crv K pr cs rev) = Ok (map rat_crv cs, rev).
Proof.
  intros Hne Hc. unfold import_multi_crv.
  change (jget "data" (export_multi_crv K pr cs rev)) with (Some (JArr (map (export_crv K pr) cs))). cbn [oreq as_arr].
  rewrite mapM_map.
  rewrite (mapM_ok _ (fun c => Some (rat_crv c))).
  2:{ intros c Hin. change (jget "type" (export_crv K pr c)) with (Some (JStr (S:=S) "spline")). cbn [oreq as_str].
      change (seqs "spline" "spline") with true. cbn iota. rewrite import_export_crv by (apply Hc; exact Hin). reflexivity. }
  cbn [res_bind]. rewrite <- (map_map rat_crv Some), flat_map_some.
  assert (Hs : same_dims (map rat_crv cs) = true).
  { unfold same_dims. destruct cs as [|c0 cs']; [reflexivity|]. cbn [map]. apply forallb_true_in. intros c Hin.
    change (In c (map rat_crv (c0 :: cs'))) in Hin. apply in_map_iff in Hin. destruct Hin as (c' & <- & Hin').
    apply Nat.eqb_eq. destruct (Hc c' Hin') as [_ ->]. destruct (Hc c0 (or_introl eq_refl)) as [_ ->]. reflexivity. }
  rewrite Hs. unfold export_multi_crv. rewrite get_rev_jrev by reflexivity. reflexivity.
Qed.

Theorem import_export_trim t : wf_trim t -> import_trim K pa d1 (export_trim K pr t) = Ok (Some (rat_trim t)).
Proof.
  destruct t as [c|f|cs rev]; cbn [wf_trim export_trim rat_trim]; unfold import_trim.
  - intros [W _]. change (jget "type" (export_crv K pr c)) with (Some (JStr (S:=S) "spline")). cbn [oreq as_str].
    change (seqs "spline" "spline") with true. cbn iota. rewrite import_export_crv by exact W. reflexivity.
  - intros [W _]. change (jget "type" (export_ff pr f)) with (Some (JStr (S:=S) "freeform")). cbn [oreq as_str].
    change (seqs "freeform" "spline") with false. change (seqs "freeform" "freeform") with true. cbn iota.
    rewrite import_export_ff by exact W. reflexivity.
  - intros [Hne W]. change (jget "type" (export_multi_crv K pr cs rev)) with (Some (JStr (S:=S) "container")). cbn [oreq as_str].
    change (seqs "container" "spline") with false. change (seqs "container" "freeform") with false.
    change (seqs "container" "container") with true. cbn iota.
    rewrite import_export_multi by assumption. reflexivity.
Qed.
Lemma trim_dim_rat t : wf_trim t -> trim_dim (rat_trim t) = 2%nat.
Proof.
  destruct t as [c|f|cs rev]; cbn [wf_trim rat_trim trim_dim].
  - intros [_ H]. exact H.
  - intros [_ H]. exact H.
  - intros [Hne W]. destruct cs as [|c0 cs']; [contradiction|]. cbn [map]. apply (W c0). left. reflexivity.
Qed.

(* ------------------------------------------------------------------ surfaces *)
Definition wf_srf (s : srf (T:=R)) : Prop :=
  s_pu s <> 0%nat /\ s_pv s <> 0%nat /\ (s_pu s + 1 <= s_su s)%nat /\ (s_pv s + 1 <= s_sv s)%nat /\
  length (s_pts s) = (s_su s * s_sv s)%nat /\ wf_pts (s_rat s) 3 (s_pts s) /\
  wf_kv (s_pu s) (s_Uu s) (s_su s) /\ wf_kv (s_pv s) (s_Uv s) (s_sv s) /\ 0 < s_du s < 1 /\ 0 < s_dv s < 1 /\
  (forall t, In t (s_trims s) -> wf_trim t).
Definition rat_srf (s : srf (T:=R)) : srf (T:=R) :=
  mkS true (s_pu s) (s_pv s) (s_Uu s) (s_Uv s) (s_su s) (s_sv s) (homogR (s_rat s) (s_pts s)) (s_du s) (s_dv s) (s_rev s)
      (map rat_trim (s_trims s)).

Definition surf_fixed (s : srf (T:=R)) : list (string * jv S) :=
  [("type", JStr "spline"); ("rational", JBool (s_rat s)); ("dimension", JInt (dimension (s_rat s) (s_pts s)));
   ("degree_u", JInt (s_pu s)); ("degree_v", JInt (s_pv s));
   ("knotvector_u", jnums pr (s_Uu s)); ("knotvector_v", jnums pr (s_Uv s));
   ("size_u", JInt (s_su s)); ("size_v", JInt (s_sv s)); ("control_points", jcp K pr (s_rat s) (s_pts s));
   ("delta", JArr [JNum (pr (s_du s)); JNum (pr (s_dv s))])].
Definition surf_trims (s : srf (T:=R)) : list (string * jv S) :=
  match s_trims s with
  | [] => []
  | ts => [("trims", JObj [("count", JInt (length ts)); ("data", JArr (map (export_trim K pr) ts))])]
  end.
Lemma export_surf_eq s : export_surf K pr s = JObj (surf_fixed s ++ jrev (s_rev s) ++ surf_trims s).
Proof. reflexivity. Qed.
Lemma surf_get_fixed k v s : assoc k (surf_fixed s) = Some v -> jget k (export_surf K pr s) = Some v.
Proof. intros H. rewrite export_surf_eq. unfold jget. rewrite assoc_app, H. reflexivity. Qed.

Theorem import_export_surf (s : srf (T:=R)) : wf_srf s -> import_surf K pa d1 d2 (export_surf K pr s) = Ok (rat_srf s).
Proof.
  intros (Hpu & Hpv & Hsu & Hsv & HL & Hp & Hku & Hkv & Hdu & Hdv & Htr). unfold import_surf.
  rewrite (surf_get_fixed "degree_u" (JInt (s_pu s))) by reflexivity.
  rewrite (surf_get_fixed "degree_v" (JInt (s_pv s))) by reflexivity.
  rewrite (surf_get_fixed "size_u" (JInt (s_su s))) by reflexivity.
  rewrite (surf_get_fixed "size_v" (JInt (s_sv s))) by reflexivity.
  rewrite (surf_get_fixed "control_points" (jcp K pr (s_rat s) (s_pts s))) by reflexivity.
  rewrite (surf_get_fixed "knotvector_u" (jnums pr (s_Uu s))) by reflexivity.
  rewrite (surf_get_fixed "knotvector_v" (jnums pr (s_Uv s))) by reflexivity.
  cbn [oreq]. rewrite jcp_points. cbn [oreq as_nat]. rewrite as_pts_jpts, !as_nums_jnums. cbn [oreq].
  rewrite !set_degree_ok by assumption. cbn [res_bind].
  rewrite !set_size_ok by lia. cbn [res_bind].
  fold (plain (s_rat s) (s_pts s)).
  rewrite (first_set_ok (s_rat s) 3 [s_pu s; s_pv s] [s_su s; s_sv s] (s_pts s) Hp).
  2:{ intros dg [<-|[<-|[]]]; assumption. }
  2:{ intros ds [<-|[<-|[]]]; cbn [fst snd]; assumption. }
  cbn [res_bind]. destruct (P1_props (s_rat s) 3 (s_pts s) Hp) as (_ & _ & _ & HL1). rewrite HL1, HL, Nat.ltb_irrefl.
  rewrite !set_kv_ok by assumption. cbn [res_bind].
  rewrite (apply_weights_ok (s_rat s) 3 [s_pu s; s_pv s] (Some [s_su s; s_sv s]) (s_su s * s_sv s) (s_pts s) Hp).
  2:{ intros dg [<-|[<-|[]]]; assumption. }
  2:{ intros ds [<-|[<-|[]]]; cbn [fst snd]; assumption. }
  2:{ lia. }
  cbn [res_bind]. unfold multi_delta.
  rewrite (surf_get_fixed "delta" (JArr [JNum (pr (s_du s)); JNum (pr (s_dv s))])) by reflexivity.
  cbn [length Nat.eqb mapM oreq as_num]. rewrite !Hpr. rewrite !set_delta_ok by assumption. cbn [res_bind nth].
  (* trims and sense *)
  assert (Etr : jget "trims" (export_surf K pr s) = match s_trims s with [] => None | ts =>
              Some (JObj [("count", JInt (length ts)); ("data", JArr (map (export_trim K pr) ts))]) end).
  { rewrite export_surf_eq. unfold jget. rewrite !assoc_app. change (assoc "trims" (surf_fixed s)) with (@None (jv S)).
    rewrite assoc_jrev_other by discriminate. unfold surf_trims. destruct (s_trims s); reflexivity. }
  assert (Erev : get_rev (export_surf K pr s) = s_rev s).
  { rewrite export_surf_eq. unfold get_rev, jget. rewrite !assoc_app. change (assoc "reversed" (surf_fixed s)) with (@None (jv S)).
    destruct (s_rev s); cbn [jrev assoc]; [reflexivity|]. unfold surf_trims. destruct (s_trims s); reflexivity. }
  rewrite Etr, Erev. unfold rat_srf.
  destruct (s_trims s) as [|t0 ts] eqn:Ets; [reflexivity|].
  cbn [jget assoc oreq as_arr]. change (String.eqb "data" "count") with false. change (String.eqb "data" "data") with true. cbn iota. cbn [oreq as_arr].
  rewrite mapM_map. rewrite (mapM_ok _ (fun t => Some (rat_trim t))) by (intros t Ht; apply import_export_trim; apply Htr; exact Ht).
  cbn [res_bind]. rewrite <- (map_map rat_trim Some), flat_map_some.
  rewrite forallb_true_in; [reflexivity|].
  intros t Ht. apply in_map_iff in Ht. destruct Ht as (t' & <- & Ht'). apply Nat.eqb_eq. apply trim_dim_rat. apply Htr. exact Ht'.
Qed.

(* ------------------------------------------------------------------ volumes *)
Definition wf_vol (v : vlm (T:=R)) : Prop :=
  v_pu v <> 0%nat /\ v_pv v <> 0%nat /\ v_pw v <> 0%nat /\
  (v_pu v + 1 <= v_su v)%nat /\ (v_pv v + 1 <= v_sv v)%nat /\ (v_pw v + 1 <= v_sw v)%nat /\
  length (v_pts v) = (v_su v * v_sv v * v_sw v)%nat /\ wf_pts (v_rat v) 4 (v_pts v) /\
  wf_kv (v_pu v) (v_Uu v) (v_su v) /\ wf_kv (v_pv v) (v_Uv v) (v_sv v) /\ wf_kv (v_pw v) (v_Uw v) (v_sw v) /\
  0 < v_du v < 1 /\ 0 < v_dv v < 1 /\ 0 < v_dw v < 1.
Definition rat_vol (v : vlm (T:=R)) : vlm (T:=R) :=
  mkV true (v_pu v) (v_pv v) (v_pw v) (v_Uu v) (v_Uv v) (v_Uw v) (v_su v) (v_sv v) (v_sw v) (homogR (v_rat v) (v_pts v))
      (v_du v) (v_dv v) (v_dw v).

Theorem import_export_vol (v : vlm (T:=R)) : wf_vol v -> import_vol K pa d3 (export_vol K pr v) = Ok (rat_vol v).
Proof.
  intros (Hpu & Hpv & Hpw & Hsu & Hsv & Hsw & HL & Hp & Hku & Hkv & Hkw & Hdu & Hdv & Hdw). unfold import_vol.
  change (jget "degree_u" (export_vol K pr v)) with (Some (JInt (S:=S) (v_pu v))).
  change (jget "degree_v" (export_vol K pr v)) with (Some (JInt (S:=S) (v_pv v))).
  change (jget "degree_w" (export_vol K pr v)) with (Some (JInt (S:=S) (v_pw v))).
  change (jget "size_u" (export_vol K pr v)) with (Some (JInt (S:=S) (v_su v))).
  change (jget "size_v" (export_vol K pr v)) with (Some (JInt (S:=S) (v_sv v))).
  change (jget "size_w" (export_vol K pr v)) with (Some (JInt (S:=S) (v_sw v))).
  change (jget "control_points" (export_vol K pr v)) with (Some (jcp K pr (v_rat v) (v_pts v))).
  change (jget "knotvector_u" (export_vol K pr v)) with (Some (jnums pr (v_Uu v))).
  change (jget "knotvector_v" (export_vol K pr v)) with (Some (jnums pr (v_Uv v))).
  change (jget "knotvector_w" (export_vol K pr v)) with (Some (jnums pr (v_Uw v))).
  cbn [oreq]. rewrite jcp_points. cbn [oreq as_nat]. rewrite as_pts_jpts, !as_nums_jnums. cbn [oreq].
  rewrite !set_degree_ok by assumption. cbn [res_bind].
  rewrite !set_size_ok by lia. cbn [res_bind].
  fold (plain (v_rat v) (v_pts v)).
  rewrite (first_set_ok (v_rat v) 4 [v_pu v; v_pv v; v_pw v] [v_su v; v_sv v; v_sw v] (v_pts v) Hp).
  2:{ intros dg [<-|[<-|[<-|[]]]]; assumption. }
  2:{ intros ds [<-|[<-|[<-|[]]]]; cbn [fst snd]; assumption. }
  cbn [res_bind]. rewrite !set_kv_ok by assumption. cbn [res_bind].
  rewrite (apply_weights_ok (v_rat v) 4 [v_pu v; v_pv v; v_pw v] (Some [v_su v; v_sv v; v_sw v]) 0 (v_pts v) Hp).
  2:{ intros dg [<-|[<-|[<-|[]]]]; assumption. }
  2:{ intros ds [<-|[<-|[<-|[]]]]; cbn [fst snd]; assumption. }
  2:{ lia. }
  cbn [res_bind]. unfold multi_delta.
  change (jget "delta" (export_vol K pr v)) with (Some (JArr [JNum (pr (v_du v)); JNum (pr (v_dv v)); JNum (pr (v_dw v))])).
  cbn [length Nat.eqb mapM oreq as_num]. rewrite !Hpr. rewrite !set_delta_ok by assumption. cbn [res_bind nth]. reflexivity.
Qed.

(* ------------------------------------------------------------------ files: single shapes and containers *)
Definition wf_shapes (sh : shapes (T:=R)) : Prop :=
  match sh with
  | SC l => l <> [] /\ forall c, In c l -> wf_crv c
  | SS l => l <> [] /\ forall s, In s l -> wf_srf s
  | SV l => l <> [] /\ forall v, In v l -> wf_vol v
  end.
(* what comes back: the same shapes as rational ones, with the delta keyword applied when it lies in (0,1) *)
Definition back (dov : option R) (sh : shapes (T:=R)) : shapes (T:=R) :=
  match sh with
  | SC l => SC (map (fun c => ovr_c K dov (rat_crv c)) l)
  | SS l => SS (map (fun s => ovr_s K dov (rat_srf s)) l)
  | SV l => SV (map (fun v => ovr_v K dov (rat_vol v)) l)
  end.

Theorem json_roundtrip dov (sh : shapes (T:=R)) : wf_shapes sh ->
  import_json K pa d1 d2 d3 dov (export_json K pr sh) = Ok (back dov sh).
Proof.
  destruct sh as [l|l|l]; cbn [wf_shapes]; intros [Hne W]; unfold import_json, export_json;
    cbn [jget assoc]; change (String.eqb "shape" "shape") with true; cbn iota; cbn [oreq jget assoc];
    change (String.eqb "data" "type") with false; change (String.eqb "data" "count") with false;
    change (String.eqb "data" "data") with true; cbn iota; cbn [oreq as_arr];
    (destruct l as [|x l']; [contradiction|]); cbn [map];
    change (String.eqb "type" "type") with true; cbn iota; cbn [oreq as_str].
  - change (seqs "curve" "curve") with true. cbn iota.
    change (export_crv K pr x :: map (export_crv K pr) l') with (map (export_crv K pr) (x :: l')).
    rewrite mapM_map. rewrite (mapM_ok _ (fun c => ovr_c K dov (rat_crv c))); [reflexivity|].
    intros c Hc. rewrite import_export_crv by (apply W; exact Hc). reflexivity.
  - change (seqs "surface" "curve") with false. change (seqs "surface" "surface") with true. cbn iota.
    change (export_surf K pr x :: map (export_surf K pr) l') with (map (export_surf K pr) (x :: l')).
    rewrite mapM_map. rewrite (mapM_ok _ (fun s => ovr_s K dov (rat_srf s))); [reflexivity|].
    intros s Hs. rewrite import_export_surf by (apply W; exact Hs). reflexivity.
  - change (seqs "volume" "curve") with false. change (seqs "volume" "surface") with false. change (seqs "volume" "volume") with true. cbn iota.
    change (export_vol K pr x :: map (export_vol K pr) l') with (map (export_vol K pr) (x :: l')).
    rewrite mapM_map. rewrite (mapM_ok _ (fun v => ovr_v K dov (rat_vol v))); [reflexivity|].
    intros v Hv. rewrite import_export_vol by (apply W; exact Hv). reflexivity.
Qed.
End J.
