(* ALL DEGREES: the rational-curve, surface and rational-surface derivative theorems of Proofs/DerivRational.v,
   DerivSurface.v, DerivRationalSurface.v instantiated with the general-degree link DersGeneral.ders_general
   (rows of A2.3 = Eq. 2.9 for every degree) instead of the bounded link of degrees 1..5. *)
From Coq Require Import List Reals Lra Lia Arith Bool.
From NV Require Import Scalar.Ops Model.Common Model.Basis Model.Knots Model.Eval Model.Degree Model.Derivs
  Proofs.Boehm Proofs.BasisR Proofs.DerivAnalytic Proofs.EvalR Proofs.DerivLink Proofs.DerivLinkCurve Proofs.DerivsR
  Proofs.LeibnizRule Proofs.DerivLinkAbs Proofs.DerivRational Proofs.DerivSurface Proofs.DerivRationalSurface
  Proofs.DersGeneral.
Import ListNotations.
Open Scope R_scope.

Theorem ders_link_general p : ders_link p.
Proof.
  intros U span u order k r Hs Hsp HL HL1 Hu Ho Hk Hr.
  exact (ders_general U span p Hs Hsp HL HL1 u order k r Hu Ho Hk Hr).
Qed.

(* ---- rational curves, all degrees ---- *)
Section RatCurveGeneral.
Variables (U : list R) (Pw : list (list R)) (p dim : nat).
Hypothesis Usorted : sortedR U.
Hypothesis Hwf : wf_net Pw (S dim).
Hypothesis Hp : (p < length Pw)%nat.
Hypothesis HL : length U = (length Pw + p + 1)%nat.
Hypothesis Hpos : forall i, (i < length Pw)%nat -> 0 < coord Pw i dim.
Variables (order s : nat).
Hypothesis Hs : (p <= s < length Pw)%nat.
Notation rat_ck d k x := (nth d (nth k (rat_curve_derivs Rops (curve_derivs Rops (S dim) p U Pw x order) order) []) 0).
Let Hlk := ders_link_general p.

Theorem rat_curve_derivs_are_true_derivatives_general k d : (k <= order)%nat -> (d < dim)%nat ->
  kth_deriv_on (knR U s) (knR U (s + 1)) k
    (fun x => curve_def U p Pw d x / curve_def U p Pw dim x) (fun x => rat_ck d k x).
Proof. exact (rat_curve_derivs_are_true_derivatives_of_link U Pw p dim Usorted Hwf Hlk Hp HL Hpos order s Hs k d). Qed.

Theorem rat_curve_derivs_consecutive_general k d u : (S k <= order)%nat -> (d < dim)%nat ->
  knR U s < u < knR U (s + 1) -> derivable_pt_lim (fun x => rat_ck d k x) u (rat_ck d (S k) u).
Proof. exact (rat_curve_derivs_consecutive_of_link U Pw p dim Usorted Hwf Hlk Hp HL Hpos order s Hs k d u). Qed.

Theorem rat_curve_derivs_right_derivative_general k d u : (S k <= order)%nat -> (d < dim)%nat ->
  knR U s <= u < knR U (s + 1) -> right_derivable_pt_lim (fun x => rat_ck d k x) u (rat_ck d (S k) u).
Proof. exact (rat_curve_derivs_right_derivative_of_link U Pw p dim Usorted Hwf Hlk Hp HL Hpos order s Hs k d u). Qed.

Theorem rat_curve_tangent_is_derivative_of_point_general d u : (1 <= order)%nat -> (d < dim)%nat ->
  knR U s < u < knR U (s + 1) ->
  derivable_pt_lim (fun x => nth d (obj_curve_point Rops true dim p U Pw x) 0) u (rat_ck d 1 u).
Proof. exact (rat_curve_tangent_is_derivative_of_point_of_link U Pw p dim Usorted Hwf Hlk Hp HL Hpos order s Hs d u). Qed.
End RatCurveGeneral.

(* ---- surfaces, all degrees ---- *)
Section SurfGeneral.
Variables (Uu Uv : list R) (P : list (list R)) (pu pv su sv dim : nat).
Hypothesis Husorted : sortedR Uu.
Hypothesis Hvsorted : sortedR Uv.
Hypothesis Hwf : wf_net P dim.
Hypothesis HLP : length P = (su * sv)%nat.
Hypothesis Hpu : (pu < su)%nat.
Hypothesis Hpv : (pv < sv)%nat.
Hypothesis HLu : length Uu = (su + pu + 1)%nat.
Hypothesis HLv : length Uv = (sv + pv + 1)%nat.
Notation SKL u v order := (surface_derivs Rops dim pu pv Uu Uv su sv P u v order).
Let Hlku := ders_link_general pu.
Let Hlkv := ders_link_general pv.

Theorem surface_derivs_is_dN_tensor_general u v order k l :
  knR Uu pu <= u < knR Uu su -> knR Uv pv <= v < knR Uv sv -> (k <= order)%nat -> (l <= order)%nat ->
  length (get3 (SKL u v order) k l) = dim /\
  forall d, (d < dim)%nat -> nth d (get3 (SKL u v order) k l) 0 = surface_dkl Uu Uv pu pv su sv P k l d u v.
Proof. exact (surface_derivs_is_dN_tensor_of_link Uu Uv P pu pv su sv dim Husorted Hvsorted Hwf HLP Hlku Hlkv Hpu Hpv HLu HLv u v order k l). Qed.

Section SpansG.
Variables tu tv : nat.
Hypothesis Htu : (pu <= tu < su)%nat.
Hypothesis Htv : (pv <= tv < sv)%nat.

Theorem surface_derivs_partial_u_general order k l d u v : (S k <= order)%nat -> (l <= order)%nat -> (d < dim)%nat ->
  knR Uu tu < u < knR Uu (tu + 1) -> knR Uv pv <= v < knR Uv sv ->
  derivable_pt_lim (fun x => nth d (get3 (SKL x v order) k l) 0) u (nth d (get3 (SKL u v order) (S k) l) 0).
Proof. exact (surface_derivs_partial_u_of_link Uu Uv P pu pv su sv dim Husorted Hvsorted Hwf HLP Hlku Hlkv Hpu Hpv HLu HLv tu Htu order k l d u v). Qed.

Theorem surface_derivs_partial_v_general order k l d u v : (k <= order)%nat -> (S l <= order)%nat -> (d < dim)%nat ->
  knR Uu pu <= u < knR Uu su -> knR Uv tv < v < knR Uv (tv + 1) ->
  derivable_pt_lim (fun y => nth d (get3 (SKL u y order) k l) 0) v (nth d (get3 (SKL u v order) k (S l)) 0).
Proof. exact (surface_derivs_partial_v_of_link Uu Uv P pu pv su sv dim Husorted Hvsorted Hwf HLP Hlku Hlkv Hpu Hpv HLu HLv tv Htv order k l d u v). Qed.

Theorem surface_derivs_are_mixed_partials_general order k l d : (k <= order)%nat -> (l <= order)%nat -> (d < dim)%nat ->
  (forall v, knR Uv pv <= v < knR Uv sv ->
     kth_deriv_on (knR Uu tu) (knR Uu (tu + 1)) k (fun x => surface_def Uu Uv pu pv su sv P d x v)
                  (fun x => nth d (get3 (SKL x v order) k 0) 0)) /\
  (forall u, knR Uu pu <= u < knR Uu su ->
     kth_deriv_on (knR Uv tv) (knR Uv (tv + 1)) l (fun y => nth d (get3 (SKL u y order) k 0) 0)
                  (fun y => nth d (get3 (SKL u y order) k l) 0)).
Proof. exact (surface_derivs_are_mixed_partials_of_link Uu Uv P pu pv su sv dim Husorted Hvsorted Hwf HLP Hlku Hlkv Hpu Hpv HLu HLv tu tv Htu Htv order k l d). Qed.
End SpansG.
End SurfGeneral.

(* ---- rational surfaces, all degrees ---- *)
Section RatSurfGeneral.
Variables (Uu Uv : list R) (Pw : list (list R)) (pu pv su sv dim : nat).
Hypothesis Husorted : sortedR Uu.
Hypothesis Hvsorted : sortedR Uv.
Hypothesis Hwf : wf_net Pw (S dim).
Hypothesis HLP : length Pw = (su * sv)%nat.
Hypothesis Hpu : (pu < su)%nat.
Hypothesis Hpv : (pv < sv)%nat.
Hypothesis HLu : length Uu = (su + pu + 1)%nat.
Hypothesis HLv : length Uv = (sv + pv + 1)%nat.
Hypothesis Hpos : forall i, (i < su * sv)%nat -> 0 < coord Pw i dim.
Variable order : nat.
Notation rS d k l u v := (nth d (get3 (rat_surface_derivs Rops (S dim) (surface_derivs Rops (S dim) pu pv Uu Uv su sv Pw u v order) order) k l) 0).
Let Hlku := ders_link_general pu.
Let Hlkv := ders_link_general pv.
Variables tu tv : nat.
Hypothesis Htu : (pu <= tu < su)%nat.
Hypothesis Htv : (pv <= tv < sv)%nat.

Theorem rat_surface_derivs_partial_u_general k l d u v : (S k <= order)%nat -> (l <= order)%nat -> (d < dim)%nat ->
  knR Uu tu < u < knR Uu (tu + 1) -> knR Uv pv <= v < knR Uv sv ->
  derivable_pt_lim (fun x => rS d k l x v) u (rS d (S k) l u v).
Proof. exact (rat_surface_derivs_partial_u_of_link Uu Uv Pw pu pv su sv dim Husorted Hvsorted Hwf HLP Hlku Hlkv Hpu Hpv HLu HLv Hpos order tu Htu k l d u v). Qed.

Theorem rat_surface_derivs_partial_v_general k l d u v : (k <= order)%nat -> (S l <= order)%nat -> (d < dim)%nat ->
  knR Uu pu <= u < knR Uu su -> knR Uv tv < v < knR Uv (tv + 1) ->
  derivable_pt_lim (fun y => rS d k l u y) v (rS d k (S l) u v).
Proof. exact (rat_surface_derivs_partial_v_of_link Uu Uv Pw pu pv su sv dim Husorted Hvsorted Hwf HLP Hlku Hlkv Hpu Hpv HLu HLv Hpos order tv Htv k l d u v). Qed.

Theorem rat_surface_derivs_are_mixed_partials_general k l d : (k <= order)%nat -> (l <= order)%nat -> (d < dim)%nat ->
  (forall v, knR Uv pv <= v < knR Uv sv ->
     kth_deriv_on (knR Uu tu) (knR Uu (tu + 1)) k
       (fun x => surface_def Uu Uv pu pv su sv Pw d x v / surface_def Uu Uv pu pv su sv Pw dim x v)
       (fun x => rS d k 0 x v)) /\
  (forall u, knR Uu pu <= u < knR Uu su ->
     kth_deriv_on (knR Uv tv) (knR Uv (tv + 1)) l (fun y => rS d k 0 u y) (fun y => rS d k l u y)).
Proof. exact (rat_surface_derivs_are_mixed_partials_of_link Uu Uv Pw pu pv su sv dim Husorted Hvsorted Hwf HLP Hlku Hlkv Hpu Hpv HLu HLv Hpos order tu tv Htu Htv k l d). Qed.

Theorem rat_surface_tangents_are_partials_of_point_general d u v : (1 <= order)%nat -> (d < dim)%nat ->
  knR Uu tu < u < knR Uu (tu + 1) -> knR Uv tv < v < knR Uv (tv + 1) ->
  derivable_pt_lim (fun x => nth d (obj_surface_point Rops true dim pu pv Uu Uv su sv Pw (x, v)) 0) u (rS d 1 0 u v) /\
  derivable_pt_lim (fun y => nth d (obj_surface_point Rops true dim pu pv Uu Uv su sv Pw (u, y)) 0) v (rS d 0 1 u v).
Proof. exact (rat_surface_tangents_are_partials_of_point_of_link Uu Uv Pw pu pv su sv dim Husorted Hvsorted Hwf HLP Hlku Hlkv Hpu Hpv HLu HLv Hpos order tu tv Htu Htv d u v). Qed.
End RatSurfGeneral.

Check ders_link_general.
Check rat_curve_derivs_are_true_derivatives_general.
Check rat_curve_derivs_consecutive_general.
Check rat_curve_derivs_right_derivative_general.
Check rat_curve_tangent_is_derivative_of_point_general.
Check surface_derivs_is_dN_tensor_general.
Check surface_derivs_partial_u_general.
Check surface_derivs_partial_v_general.
Check surface_derivs_are_mixed_partials_general.
Check rat_surface_derivs_partial_u_general.
Check rat_surface_derivs_partial_v_general.
Check rat_surface_derivs_are_mixed_partials_general.
Check rat_surface_tangents_are_partials_of_point_general.
Print Assumptions rat_curve_derivs_are_true_derivatives_general.
Print Assumptions surface_derivs_are_mixed_partials_general.
Print Assumptions rat_surface_derivs_are_mixed_partials_general.
Print Assumptions rat_surface_tangents_are_partials_of_point_general.
