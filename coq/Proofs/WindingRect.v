(* linalg.wn_poly (Model/Geom2D.v wn_edge / wn_count / wn_poly) on ARBITRARY closed polylines: the winding count is
   constant on every closed axis-parallel rectangle that no edge of the polyline meets (so the in/out decision of all
   points of such a rectangle is the same).  Used by Proofs/TrimCells.v (C15: a sampling cell that the trim boundary does
   not touch is classified uniformly); a general fact about the C20 winding test as well.
   Route: horizontal moves keep every edge contribution (the sign of is_left changes only on the edge); for vertical
   moves the per-edge quantity  T = g(a) - g(b) + wn_edge  with g(v) = [p_y < v_y /\ p_x < v_x]  (the contribution of the
   triangle (far point below p, a, b)) is constant unless the edge is crossed, and the g-terms telescope to 0 on a
   closed polyline.  New file; nothing existing is modified. *)
From Coq Require Import List Arith Bool Lia Reals Lra Psatz ZArith.
From NV Require Import Scalar.Ops Model.Common Model.Geom2D Proofs.Geom2DR.
Import ListNotations.
Local Open Scope R_scope.

Definition Lf (ax ay bx by_ x t : R) : R := (bx - x) * (t - ay) + (ax - x) * (by_ - t).
Definition wn_edge_sc (ax ay bx by_ x t : R) : Z :=
  if Rle_dec ay t then (if Rlt_dec t by_ then (if Rlt_dec 0 (Lf ax ay bx by_ x t) then 1 else 0) else 0)
  else (if Rle_dec by_ t then (if Rlt_dec (Lf ax ay bx by_ x t) 0 then -1 else 0) else 0).
Definition gS (ax ay x t : R) : Z := if Rlt_dec t ay then (if Rlt_dec x ax then 1 else 0) else 0.
Definition TS (ax ay bx by_ x t : R) : Z := (gS ax ay x t - gS bx by_ x t + wn_edge_sc ax ay bx by_ x t)%Z.

Ltac dec_all :=
  repeat (match goal with
          | |- context [Rle_dec ?a ?b] => destruct (Rle_dec a b)
          | |- context [Rlt_dec ?a ?b] => destruct (Rlt_dec a b)
          end; try (exfalso; lra)).

Lemma TS_cross_up ax ay bx by_ x t : ax <= x < bx ->
  (Lf ax ay bx by_ x t < 0 -> TS ax ay bx by_ x t = (-1)%Z) /\ (0 < Lf ax ay bx by_ x t -> TS ax ay bx by_ x t = 0%Z).
Proof.
  intros Hx. unfold TS, gS, wn_edge_sc. set (L := Lf ax ay bx by_ x t).
  assert (EL : L = (bx - x) * (t - ay) + (ax - x) * (by_ - t)) by reflexivity. clearbody L.
  split; intros HL; dec_all; try reflexivity; exfalso; nra.
Qed.

Lemma TS_cross_dn ax ay bx by_ x t : bx <= x < ax ->
  (0 < Lf ax ay bx by_ x t -> TS ax ay bx by_ x t = 1%Z) /\ (Lf ax ay bx by_ x t < 0 -> TS ax ay bx by_ x t = 0%Z).
Proof.
  intros Hx. unfold TS, gS, wn_edge_sc. set (L := Lf ax ay bx by_ x t).
  assert (EL : L = (bx - x) * (t - ay) + (ax - x) * (by_ - t)) by reflexivity. clearbody L.
  split; intros HL; dec_all; try reflexivity; exfalso; nra.
Qed.
Lemma TS_nocross ax ay bx by_ x t : ~ (ax <= x < bx) -> ~ (bx <= x < ax) -> TS ax ay bx by_ x t = 0%Z.
Proof.
  intros H1 H2. unfold TS, gS, wn_edge_sc. set (L := Lf ax ay bx by_ x t).
  assert (EL : L = (bx - x) * (t - ay) + (ax - x) * (by_ - t)) by reflexivity. clearbody L.
  dec_all; try reflexivity; exfalso;
    (destruct (Rlt_dec x ax); destruct (Rlt_dec x bx); destruct (Rlt_dec ax x); destruct (Rlt_dec bx x); try lra; nra).
Qed.

(* the edge (a,b) meets the closed rectangle *)
Definition seg_meets_sc (ax ay bx by_ u0 u1 v0 v1 : R) : Prop :=
  exists l, 0 <= l <= 1 /\ u0 <= ax + l * (bx - ax) <= u1 /\ v0 <= ay + l * (by_ - ay) <= v1.

Lemma Lf_ystar ax ay bx by_ x t : bx <> ax ->
  Lf ax ay bx by_ x t = (bx - ax) * (t - (ay + (x - ax) / (bx - ax) * (by_ - ay))).
Proof. intros H. unfold Lf. field. lra. Qed.
Lemma Lf_xstar ax ay bx by_ x t : by_ <> ay ->
  Lf ax ay bx by_ x t = (by_ - ay) * ((ax + (t - ay) / (by_ - ay) * (bx - ax)) - x).
Proof. intros H. unfold Lf. field. lra. Qed.

Lemma frac_01 a b : 0 <= a -> a <= b -> 0 < b -> 0 <= a / b <= 1.
Proof.
  intros H0 H1 Hb. split.
  - apply Rmult_le_pos; [assumption|]. left. apply Rinv_0_lt_compat. assumption.
  - apply (Rmult_le_reg_r b); [assumption|]. replace (a / b * b) with a by (field; lra). lra.
Qed.
Lemma frac_01_neg a b : a <= 0 -> b <= a -> b < 0 -> 0 <= a / b <= 1.
Proof.
  intros H0 H1 Hb. replace (a / b) with ((- a) / (- b)) by (field; lra). apply frac_01; lra.
Qed.

(* vertical move: T is constant along {x} x [y, y'] when the edge does not meet that segment *)
Lemma TS_vertical ax ay bx by_ x y y' : y <= y' ->
  ~ seg_meets_sc ax ay bx by_ x x y y' -> TS ax ay bx by_ x y = TS ax ay bx by_ x y'.
Proof.
  intros Hy Hn.
  destruct (Rle_dec ax x) as [A1|A1]; [destruct (Rlt_dec x bx) as [A2|A2]|].
  - (* a left/on, b right *)
    assert (Hd : bx <> ax) by lra.
    set (ys := ay + (x - ax) / (bx - ax) * (by_ - ay)).
    pose proof (Lf_ystar ax ay bx by_ x y Hd) as E1. pose proof (Lf_ystar ax ay bx by_ x y' Hd) as E2. fold ys in E1, E2.
    assert (Hout : ys < y \/ y' < ys).
    { destruct (Rlt_dec ys y); [left; assumption|]. destruct (Rlt_dec y' ys); [right; assumption|]. exfalso. apply Hn.
      exists ((x - ax) / (bx - ax)). split; [apply frac_01; lra|]. split.
      - replace (ax + (x - ax) / (bx - ax) * (bx - ax)) with x by (field; lra). lra.
      - fold ys. lra. }
    destruct (TS_cross_up ax ay bx by_ x y (conj A1 A2)) as [U1 U2].
    destruct (TS_cross_up ax ay bx by_ x y' (conj A1 A2)) as [V1 V2].
    destruct Hout as [Ho|Ho].
    + rewrite U2, V2; [reflexivity| |]; rewrite ?E1, ?E2; apply Rmult_lt_0_compat; lra.
    + rewrite U1, V1; [reflexivity| |]; rewrite ?E1, ?E2.
      * replace ((bx - ax) * (y' - ys)) with (- ((bx - ax) * (ys - y'))) by ring.
        assert (0 < (bx - ax) * (ys - y')) by (apply Rmult_lt_0_compat; lra). lra.
      * replace ((bx - ax) * (y - ys)) with (- ((bx - ax) * (ys - y))) by ring.
        assert (0 < (bx - ax) * (ys - y)) by (apply Rmult_lt_0_compat; lra). lra.
  - destruct (Rle_dec bx x) as [B1|B1]; [destruct (Rlt_dec x ax) as [B2|B2]|]; [| |exfalso; lra].
    + exfalso; lra.
    + rewrite !TS_nocross; try reflexivity; lra.
  - (* x < ax *)
    destruct (Rle_dec bx x) as [B1|B1].
    + assert (B2 : x < ax) by lra. assert (Hd : bx <> ax) by lra.
      set (ys := ay + (x - ax) / (bx - ax) * (by_ - ay)).
      pose proof (Lf_ystar ax ay bx by_ x y Hd) as E1. pose proof (Lf_ystar ax ay bx by_ x y' Hd) as E2. fold ys in E1, E2.
      assert (Hout : ys < y \/ y' < ys).
      { destruct (Rlt_dec ys y); [left; assumption|]. destruct (Rlt_dec y' ys); [right; assumption|]. exfalso. apply Hn.
        exists ((x - ax) / (bx - ax)). split; [apply frac_01_neg; lra|]. split.
        - replace (ax + (x - ax) / (bx - ax) * (bx - ax)) with x by (field; lra). lra.
        - fold ys. lra. }
      destruct (TS_cross_dn ax ay bx by_ x y (conj B1 B2)) as [U1 U2].
      destruct (TS_cross_dn ax ay bx by_ x y' (conj B1 B2)) as [V1 V2].
      destruct Hout as [Ho|Ho].
      * rewrite U2, V2; [reflexivity| |]; rewrite ?E1, ?E2.
        -- replace ((bx - ax) * (y' - ys)) with (- ((ax - bx) * (y' - ys))) by ring.
           assert (0 < (ax - bx) * (y' - ys)) by (apply Rmult_lt_0_compat; lra). lra.
        -- replace ((bx - ax) * (y - ys)) with (- ((ax - bx) * (y - ys))) by ring.
           assert (0 < (ax - bx) * (y - ys)) by (apply Rmult_lt_0_compat; lra). lra.
      * rewrite U1, V1; [reflexivity| |]; rewrite ?E1, ?E2.
        -- replace ((bx - ax) * (y' - ys)) with ((ax - bx) * (ys - y')) by ring. apply Rmult_lt_0_compat; lra.
        -- replace ((bx - ax) * (y - ys)) with ((ax - bx) * (ys - y)) by ring. apply Rmult_lt_0_compat; lra.
    + rewrite !TS_nocross; try reflexivity; lra.
Qed.

(* horizontal move: the edge contribution itself is constant along [x, x'] x {t} *)
Lemma wn_edge_sc_horizontal ax ay bx by_ x x' t : x <= x' ->
  ~ seg_meets_sc ax ay bx by_ x x' t t -> wn_edge_sc ax ay bx by_ x t = wn_edge_sc ax ay bx by_ x' t.
Proof.
  intros Hx Hn. unfold wn_edge_sc.
  destruct (Rle_dec ay t) as [A1|A1]; [destruct (Rlt_dec t by_) as [A2|A2]; [|reflexivity]|
                                       destruct (Rle_dec by_ t) as [B1|B1]; [|reflexivity]].
  - assert (Hd : by_ <> ay) by lra.
    set (xs := ax + (t - ay) / (by_ - ay) * (bx - ax)).
    rewrite (Lf_xstar ax ay bx by_ x t Hd), (Lf_xstar ax ay bx by_ x' t Hd). fold xs.
    assert (Hout : xs < x \/ x' < xs).
    { destruct (Rlt_dec xs x); [left; assumption|]. destruct (Rlt_dec x' xs); [right; assumption|]. exfalso. apply Hn.
      exists ((t - ay) / (by_ - ay)). split; [apply frac_01; lra|]. split.
      - fold xs. lra.
      - replace (ay + (t - ay) / (by_ - ay) * (by_ - ay)) with t by (field; lra). lra. }
    destruct Hout as [Ho|Ho].
    + assert (0 < (by_ - ay) * (x - xs)) by (apply Rmult_lt_0_compat; lra).
      assert (0 < (by_ - ay) * (x' - xs)) by (apply Rmult_lt_0_compat; lra).
      destruct (Rlt_dec 0 ((by_ - ay) * (xs - x))); destruct (Rlt_dec 0 ((by_ - ay) * (xs - x'))); try reflexivity; exfalso; lra.
    + assert (0 < (by_ - ay) * (xs - x)) by (apply Rmult_lt_0_compat; lra).
      assert (0 < (by_ - ay) * (xs - x')) by (apply Rmult_lt_0_compat; lra).
      destruct (Rlt_dec 0 ((by_ - ay) * (xs - x))); destruct (Rlt_dec 0 ((by_ - ay) * (xs - x'))); try reflexivity; exfalso; lra.
  - assert (Hd : by_ <> ay) by lra.
    set (xs := ax + (t - ay) / (by_ - ay) * (bx - ax)).
    rewrite (Lf_xstar ax ay bx by_ x t Hd), (Lf_xstar ax ay bx by_ x' t Hd). fold xs.
    assert (Hout : xs < x \/ x' < xs).
    { destruct (Rlt_dec xs x); [left; assumption|]. destruct (Rlt_dec x' xs); [right; assumption|]. exfalso. apply Hn.
      exists ((t - ay) / (by_ - ay)). split; [apply frac_01_neg; lra|]. split.
      - fold xs. lra.
      - replace (ay + (t - ay) / (by_ - ay) * (by_ - ay)) with t by (field; lra). lra. }
    destruct Hout as [Ho|Ho].
    + assert (0 < (ay - by_) * (x - xs)) by (apply Rmult_lt_0_compat; lra).
      assert (0 < (ay - by_) * (x' - xs)) by (apply Rmult_lt_0_compat; lra).
      destruct (Rlt_dec ((by_ - ay) * (xs - x)) 0); destruct (Rlt_dec ((by_ - ay) * (xs - x')) 0); try reflexivity; exfalso; lra.
    + assert (0 < (ay - by_) * (xs - x)) by (apply Rmult_lt_0_compat; lra).
      assert (0 < (ay - by_) * (xs - x')) by (apply Rmult_lt_0_compat; lra).
      destruct (Rlt_dec ((by_ - ay) * (xs - x)) 0); destruct (Rlt_dec ((by_ - ay) * (xs - x')) 0); try reflexivity; exfalso; lra.
Qed.

(* ------------------------------------------------------------------ link with the model *)
Local Notation X := (cx Rops). Local Notation Y := (cy Rops).
Definition seg_meets_rect (p q : list R) (u0 u1 v0 v1 : R) : Prop :=
  exists l, 0 <= l <= 1 /\ u0 <= X p + l * (X q - X p) <= u1 /\ v0 <= Y p + l * (Y q - Y p) <= v1.
Lemma seg_meets_rect_sc p q u0 u1 v0 v1 :
  seg_meets_rect p q u0 u1 v0 v1 <-> seg_meets_sc (X p) (Y p) (X q) (Y q) u0 u1 v0 v1.
Proof. reflexivity. Qed.
Lemma seg_meets_sc_mono ax ay bx by_ u0 u1 v0 v1 u0' u1' v0' v1' :
  u0' <= u0 -> u1 <= u1' -> v0' <= v0 -> v1 <= v1' ->
  seg_meets_sc ax ay bx by_ u0 u1 v0 v1 -> seg_meets_sc ax ay bx by_ u0' u1' v0' v1'.
Proof. intros ? ? ? ? [l [Hl [H1 H2]]]. exists l. repeat split; lra. Qed.

Lemma is_left_Lf a b x t : is_left Rops a b [x; t] = Lf (X a) (Y a) (X b) (Y b) x t.
Proof. unfold is_left, Lf, cx, cy. cbn [List.nth]. rsimp. ring. Qed.
Lemma wn_edge_scalar a b x t : wn_edge Rops [x; t] a b = wn_edge_sc (X a) (Y a) (X b) (Y b) x t.
Proof.
  unfold wn_edge, wn_edge_sc. rewrite is_left_Lf. cbn [oleb oltb Rops o0]. unfold Rleb, Rltb.
  change (cy Rops [x; t]) with t.
  destruct (Rle_dec (Y a) t); destruct (Rlt_dec t (Y b)); destruct (Rle_dec (Y b) t);
    destruct (Rlt_dec 0 (Lf (X a) (Y a) (X b) (Y b) x t)); destruct (Rlt_dec (Lf (X a) (Y a) (X b) (Y b) x t) 0); reflexivity.
Qed.

(* sums over the consecutive pairs of a vertex list *)
Fixpoint zsum (l : list Z) : Z := match l with [] => 0%Z | x :: r => (x + zsum r)%Z end.
Definition edges_of {A} (vs : list A) : list (A * A) := combine vs (tl vs).
Lemma wn_count_zsum p : forall vs,
  wn_count Rops p vs = zsum (map (fun e => wn_edge Rops p (fst e) (snd e)) (edges_of vs)).
Proof.
  unfold edges_of. induction vs as [|v0 rest IH]; [reflexivity|].
  destruct rest as [|v1 r]; [reflexivity|].
  change (wn_count Rops p (v0 :: v1 :: r)) with (wn_edge Rops p v0 v1 + wn_count Rops p (v1 :: r))%Z.
  rewrite IH. reflexivity.
Qed.
Lemma zsum_ext {A} (f g : A -> Z) l : (forall e, In e l -> f e = g e) -> zsum (map f l) = zsum (map g l).
Proof.
  induction l as [|a l IH]; intros H; [reflexivity|]. cbn [map zsum]. rewrite (H a (or_introl eq_refl)), IH; [reflexivity|].
  intros e He. apply H. right. exact He.
Qed.
Lemma zsum_tele {A} (g : A -> Z) d : forall vs, vs <> [] ->
  zsum (map (fun e => (g (fst e) - g (snd e))%Z) (edges_of vs)) = (g (hd d vs) - g (last vs d))%Z.
Proof.
  unfold edges_of. induction vs as [|v0 rest IH]; intros Hne; [congruence|].
  destruct rest as [|v1 r]; [cbn; lia|].
  change (combine (v0 :: v1 :: r) (tl (v0 :: v1 :: r))) with ((v0, v1) :: combine (v1 :: r) (tl (v1 :: r))).
  cbn [map zsum fst snd]. rewrite IH by discriminate.
  change (last (v0 :: v1 :: r) d) with (last (v1 :: r) d). cbn [hd]. lia.
Qed.
Lemma zsum_plus {A} (f g : A -> Z) l : zsum (map (fun e => (f e + g e)%Z) l) = (zsum (map f l) + zsum (map g l))%Z.
Proof. induction l as [|a l IH]; [reflexivity|]. cbn [map zsum]. rewrite IH. lia. Qed.

(* a closed vertex list: last point = first point (what wn_poly expects) *)
Definition closed_poly (vs : list (list R)) : Prop := vs <> [] /\ X (hd [] vs) = X (last vs []) /\ Y (hd [] vs) = Y (last vs []).
Definition no_edge_meets (vs : list (list R)) (u0 u1 v0 v1 : R) : Prop :=
  forall p q, In (p, q) (combine vs (tl vs)) -> ~ seg_meets_rect p q u0 u1 v0 v1.

Lemma wn_count_T x t vs : closed_poly vs ->
  wn_count Rops [x; t] vs = zsum (map (fun e => TS (X (fst e)) (Y (fst e)) (X (snd e)) (Y (snd e)) x t) (edges_of vs)).
Proof.
  intros [Hne [Hx Hy]]. rewrite wn_count_zsum. unfold TS.
  rewrite (zsum_plus (fun e => (gS (X (fst e)) (Y (fst e)) x t - gS (X (snd e)) (Y (snd e)) x t)%Z)
                     (fun e => wn_edge_sc (X (fst e)) (Y (fst e)) (X (snd e)) (Y (snd e)) x t)).
  rewrite (zsum_tele (fun a => gS (X a) (Y a) x t) [] vs Hne). rewrite Hx, Hy.
  rewrite (zsum_ext (fun e => wn_edge Rops [x; t] (fst e) (snd e))
                    (fun e => wn_edge_sc (X (fst e)) (Y (fst e)) (X (snd e)) (Y (snd e)) x t)).
  - lia.
  - intros e _. apply wn_edge_scalar.
Qed.

(* [G] the winding count of a closed polyline is constant on every axis-parallel rectangle that no edge meets *)
Theorem wn_count_const_vertical x y y' vs u0 u1 v0 v1 : closed_poly vs -> no_edge_meets vs u0 u1 v0 v1 ->
  u0 <= x <= u1 -> v0 <= y -> y <= y' -> y' <= v1 ->
  wn_count Rops [x; y] vs = wn_count Rops [x; y'] vs.
Proof.
  intros Hc Hn Hx H1 H2 H3. rewrite !wn_count_T by assumption. apply zsum_ext. intros [a b] He. cbn [fst snd].
  apply TS_vertical; [assumption|]. intro Hm. apply (Hn a b He). apply seg_meets_rect_sc.
  eapply seg_meets_sc_mono; [| | | |exact Hm]; lra.
Qed.
Theorem wn_count_const_horizontal x x' y vs u0 u1 v0 v1 : no_edge_meets vs u0 u1 v0 v1 ->
  v0 <= y <= v1 -> u0 <= x -> x <= x' -> x' <= u1 ->
  wn_count Rops [x; y] vs = wn_count Rops [x'; y] vs.
Proof.
  intros Hn Hy H1 H2 H3. rewrite !wn_count_zsum. apply zsum_ext. intros [a b] He. cbn [fst snd].
  rewrite !wn_edge_scalar. apply wn_edge_sc_horizontal; [assumption|]. intro Hm. apply (Hn a b He). apply seg_meets_rect_sc.
  eapply seg_meets_sc_mono; [| | | |exact Hm]; lra.
Qed.
Theorem wn_count_const_on_rect vs u0 u1 v0 v1 x1 y1 x2 y2 : closed_poly vs -> no_edge_meets vs u0 u1 v0 v1 ->
  u0 <= x1 <= u1 -> v0 <= y1 <= v1 -> u0 <= x2 <= u1 -> v0 <= y2 <= v1 ->
  wn_count Rops [x1; y1] vs = wn_count Rops [x2; y2] vs.
Proof.
  intros Hc Hn A1 B1 A2 B2.
  transitivity (wn_count Rops [x2; y1] vs).
  - destruct (Rle_dec x1 x2).
    + apply (wn_count_const_horizontal x1 x2 y1 vs u0 u1 v0 v1); try assumption; lra.
    + symmetry. apply (wn_count_const_horizontal x2 x1 y1 vs u0 u1 v0 v1); try assumption; lra.
  - destruct (Rle_dec y1 y2).
    + apply (wn_count_const_vertical x2 y1 y2 vs u0 u1 v0 v1); try assumption; lra.
    + symmetry. apply (wn_count_const_vertical x2 y2 y1 vs u0 u1 v0 v1); try assumption; lra.
Qed.
Corollary wn_poly_const_on_rect vs u0 u1 v0 v1 x1 y1 x2 y2 : closed_poly vs -> no_edge_meets vs u0 u1 v0 v1 ->
  u0 <= x1 <= u1 -> v0 <= y1 <= v1 -> u0 <= x2 <= u1 -> v0 <= y2 <= v1 ->
  wn_poly Rops [x1; y1] vs = wn_poly Rops [x2; y2] vs.
Proof. intros. unfold wn_poly. rewrite (wn_count_const_on_rect vs u0 u1 v0 v1 x1 y1 x2 y2); auto. Qed.
Print Assumptions wn_poly_const_on_rect.
