(* Total positivity (the part needed for LU without pivoting) of B-spline collocation matrices, by knot insertion
   (de Boor / de Boor-DeVore):  for a sorted knot function U : nat -> R, degree p >= 1, strictly increasing points
   t_0 < .. < t_{k-1} of the domain and a strictly increasing selection J of k basis functions,
        det [ N_{J_j,p}(t_i) ]_{j,i<k}  >=  0,     and  > 0  when  N_{J_j,p}(t_j) > 0 for every j
   (Schoenberg-Whitney).  Proof: insert every t_i as a knot p times (Boehm's identity, Proofs/Boehm.v); each insertion
   writes every row as a non-negative combination of two rows of the refined basis, the determinant expands
   (CollocDet.expand_nonneg/expand_pos) into determinants of the same kind; when every t_i has multiplicity >= p the
   matrix is a 0/1 selection matrix (CollocDet.det01). *)
From Coq Require Import List Reals Lra Lia Arith Bool.
From NV Require Import Scalar.Ops Model.Common Model.LinAlg Proofs.LinAlgSums Proofs.LinAlgR Proofs.LinAlgSolve
  Proofs.LinAlgPivot Proofs.LinAlgDet Proofs.LinAlgSDD Proofs.LinAlgDetGen Proofs.Boehm Proofs.BsplinePos Proofs.CollocDet.
Import ListNotations.
Open Scope R_scope.

Definition sortedF (U : nat -> R) : Prop := forall i, U i <= U (S i).

Lemma prod_pos_factors a b : 0 <= a -> 0 <= b -> 0 < a * b -> 0 < a /\ 0 < b.
Proof.
  intros Ha Hb H. split.
  - destruct (Req_dec a 0) as [E|]; [rewrite E in H; lra|lra].
  - destruct (Req_dec b 0) as [E|]; [rewrite E in H; lra|lra].
Qed.
Lemma frac_range x d : 0 <= x -> x < d -> 0 <= x / d < 1.
Proof.
  intros Hx Hd. assert (0 < / d) by (apply Rinv_0_lt_compat; lra). unfold Rdiv. split.
  - apply Rmult_le_pos; lra.
  - apply (Rmult_lt_reg_r d); [lra|]. rewrite Rmult_assoc, Rinv_l by lra. lra.
Qed.
Lemma frac_pos x d : 0 < x -> 0 < d -> 0 < x / d.
Proof. intros. unfold Rdiv. apply Rmult_lt_0_compat; [assumption|apply Rinv_0_lt_compat; assumption]. Qed.

Lemma fin_choice (P : nat -> nat -> Prop) k : (forall i, (i < k)%nat -> exists r, P i r) ->
  exists f, forall i, (i < k)%nat -> P i (f i).
Proof.
  induction k as [|k IH]; intros H; [exists (fun _ => 0%nat); intros; lia|].
  destruct (IH ltac:(intros; apply H; lia)) as [f Hf]. destruct (H k ltac:(lia)) as [r Hr].
  exists (fun i => if Nat.eqb i k then r else f i). intros i Hi.
  destruct (Nat.eqb_spec i k) as [->|]; [exact Hr|apply Hf; lia].
Qed.

Section TP.
Variable p : nat.
Hypothesis Hp : (1 <= p)%nat.
Variables (k : nat) (t : nat -> R).
Hypothesis Ht : forall i, (S i < k)%nat -> t i < t (S i).

Lemma t_lt : forall b a, (a < b)%nat -> (b < k)%nat -> t a < t b.
Proof.
  induction b as [|b IH]; intros a Hab Hb; [lia|].
  destruct (Nat.eq_dec a b) as [->|]; [apply Ht; lia|].
  apply Rlt_trans with (t b); [apply IH; lia|apply Ht; lia].
Qed.

Definition Gm (U : nat -> R) (J : nat -> nat) : nat -> nat -> R := fun j i => N U p (J j) (t i).
Definition TPclaim (U : nat -> R) : Prop := forall J, strict J k ->
  0 <= leibF k (Gm U J) /\ ((forall j, (j < k)%nat -> 0 < N U p (J j) (t j)) -> 0 < leibF k (Gm U J)).
(* y is a knot of multiplicity >= p (function r is 1 at y, all others vanish) *)
Definition full (U : nat -> R) (y : R) : Prop := exists r, U (r + 1)%nat = y /\ U (r + p)%nat <= y < U (r + p + 1)%nat.
Definition inrange (U : nat -> R) (y : R) : Prop := exists s, U s <= y < U (S s).

(* ------------------------------------------------------------------ base: every point is a knot of multiplicity >= p *)
Lemma TP_base U : sortedF U -> (forall i, (i < k)%nat -> full U (t i)) -> TPclaim U.
Proof.
  intros Us Hf J HJ.
  destruct (fin_choice (fun i r => U (r + 1)%nat = t i /\ U (r + p)%nat <= t i < U (r + p + 1)%nat) k Hf) as [kap Hk].
  assert (Sk : strict kap k).
  { intros j Hj. destruct (Hk j ltac:(lia)) as [E1 _]. destruct (Hk (S j) Hj) as [E2 _].
    assert (L : U (kap j + 1)%nat < U (kap (S j) + 1)%nat) by (rewrite E1, E2; apply Ht, Hj).
    apply (U_lt_idx U Us) in L. lia. }
  assert (E : leibF k (Gm U J) = leibF k (M01 J kap)).
  { apply leibF_ext. intros j i Hj Hi. unfold Gm, M01. destruct (Hk i Hi) as [E1 E2].
    destruct (Nat.eqb_spec (J j) (kap i)) as [->|Hne].
    - apply (N_one_full U Us); assumption.
    - apply (N_zero_full U Us p (kap i)); assumption. }
  rewrite E. destruct (det01 k J kap HJ Sk) as [A B]. split; [exact A|].
  intros Hd. rewrite B; [lra|]. intros j Hj. destruct (Hk j Hj) as [E1 E2].
  destruct (Nat.eq_dec (J j) (kap j)) as [Eq|Hne]; [exact Eq|].
  specialize (Hd j Hj). rewrite (N_zero_full U Us p (kap j) (t j) (J j)) in Hd by assumption. lra.
Qed.

(* ------------------------------------------------------------------ one knot insertion *)
Section Step.
Variables (U : nat -> R) (kk : nat) (tau : R).
Hypothesis Us : sortedF U.
Hypothesis Htau : U kk <= tau < U (S kk).
Notation Uh := (Ub U kk tau).
Notation al := (alpha U kk tau).
Notation Um := (U_mono U Us).
Let Uhs : sortedF Uh := Ub_sorted U Us kk tau Htau.

Lemma al_range i : 0 <= al p i <= 1.
Proof.
  destruct (le_lt_dec (i + p) kk) as [H1|H1]; [rewrite alpha_one by exact H1; lra|].
  destruct (le_lt_dec i kk) as [H2|H2]; [|rewrite alpha_zero by exact H2; lra].
  rewrite alpha_frac by lia.
  pose proof (Um i kk H2). pose proof (Um (S kk) (i + p)%nat ltac:(lia)).
  pose proof (frac_range (tau - U i) (U (i + p) - U i) ltac:(lra) ltac:(lra)). lra.
Qed.

(* which of the two refined functions carries the positivity of N_m at x *)
Definition eth (m : nat) (x : R) : bool :=
  if Rlt_dec tau x then true else if Req_EM_T x tau then Nat.leb (m + p) kk else false.

Lemma eth_mono m m' x y : eth m x = true -> x < y -> eth m' y = true.
Proof.
  unfold eth. intros H Hxy. destruct (Rlt_dec tau y) as [|Hn]; [reflexivity|].
  destruct (Rlt_dec tau x); [lra|]. destruct (Req_EM_T x tau); [lra|discriminate].
Qed.

Lemma valid m x : 0 < N U p m x ->
  if eth m x then 0 < 1 - al p (S m) /\ 0 < N Uh p (S m) x else 0 < al p m /\ 0 < N Uh p m x.
Proof.
  intros HN. pose proof (N_pos_range U Us p m x HN) as [R1 R2].
  pose proof (Boehm U Us kk tau Htau p m x) as B.
  pose proof (al_range m) as A1. pose proof (al_range (S m)) as A2.
  pose proof (N_nonneg Uh Uhs p m x) as X0. pose proof (N_nonneg Uh Uhs p (S m) x) as Y0.
  assert (FZ : al p m * N Uh p m x = 0 -> 0 < 1 - al p (S m) /\ 0 < N Uh p (S m) x).
  { intros Z. apply prod_pos_factors; lra. }
  assert (SZ : (1 - al p (S m)) * N Uh p (S m) x = 0 -> 0 < al p m /\ 0 < N Uh p m x).
  { intros Z. apply prod_pos_factors; lra. }
  unfold eth. destruct (Rlt_dec tau x) as [Hgt|Hle].
  - (* x > tau *)
    destruct (le_lt_dec m kk) as [Hm|Hm]; [|apply FZ; rewrite alpha_zero by exact Hm; ring].
    assert (Hk1 : (kk < m + p + 1)%nat) by (apply (U_lt_idx U Us); lra).
    split.
    + destruct (le_lt_dec (S m) kk) as [H3|H3]; [|rewrite alpha_zero by exact H3; lra].
      rewrite alpha_frac by lia. replace (S m + p)%nat with (m + p + 1)%nat by lia.
      pose proof (Um (S m) kk H3).
      pose proof (frac_range (tau - U (S m)) (U (m + p + 1) - U (S m)) ltac:(lra) ltac:(lra)). lra.
    + apply (N_pos Uh Uhs). left. split.
      * destruct (Nat.eq_dec m kk) as [->|Hne]; [rewrite Ub_mid; exact Hgt|].
        rewrite Ub_le by lia. pose proof (Um (S m) kk ltac:(lia)). lra.
      * rewrite Ub_gt by lia. replace (Nat.pred (S m + p + 1)) with (m + p + 1)%nat by lia. exact R2.
  - destruct (Req_EM_T x tau) as [Heq|Hne].
    + (* x = tau *)
      subst x. assert (Hm : (m <= kk)%nat) by (assert (m < S kk)%nat by (apply (U_lt_idx U Us); lra); lia).
      destruct (Nat.leb_spec (m + p) kk) as [H3|H3].
      * (* m + p = kk : the refined function m ends at tau *)
        assert (Hk1 : (kk < m + p + 1)%nat) by (apply (U_lt_idx U Us); lra).
        apply FZ. rewrite (N_support Uh Uhs p m tau); [ring|]. right.
        replace (m + p + 1)%nat with (S kk) by lia. rewrite Ub_mid. lra.
      * (* m <= kk < m + p *)
        assert (Hlt : U m < tau).
        { destruct (Req_dec (U m) tau) as [E|Hn]; [|lra]. exfalso.
          rewrite <- E in HN. apply (N_pos_left_end U Us) in HN.
          assert (m + p < S kk)%nat by (apply (U_lt_idx U Us); lra). lia. }
        pose proof (Um (S kk) (m + p)%nat ltac:(lia)) as M1.
        split.
        -- rewrite alpha_frac by lia. apply frac_pos; lra.
        -- apply (N_pos Uh Uhs). left. rewrite Ub_le by exact Hm. split; [exact Hlt|].
           rewrite Ub_gt by lia. replace (Nat.pred (m + p + 1)) with (m + p)%nat by lia. lra.
    + (* x < tau *)
      assert (Hx : x < tau) by lra.
      assert (Hm : (m <= kk)%nat) by (assert (m < S kk)%nat by (apply (U_lt_idx U Us); lra); lia).
      destruct (le_lt_dec (m + p + 1) kk) as [H3|H3]; [apply SZ; rewrite alpha_one by lia; ring|].
      assert (Hend : x < Uh (m + p + 1)%nat).
      { destruct (Nat.eq_dec (m + p) kk) as [E|Hn].
        - replace (m + p + 1)%nat with (S kk) by lia. rewrite Ub_mid. exact Hx.
        - rewrite Ub_gt by lia. replace (Nat.pred (m + p + 1)) with (m + p)%nat by lia.
          pose proof (Um (S kk) (m + p)%nat ltac:(lia)). lra. }
      split.
      * destruct (le_lt_dec (m + p) kk) as [H4|H4]; [rewrite alpha_one by exact H4; lra|].
        rewrite alpha_frac by lia. pose proof (Um (S kk) (m + p)%nat ltac:(lia)). apply frac_pos; lra.
      * apply (N_pos Uh Uhs). rewrite Ub_le by exact Hm.
        destruct (Req_dec (U m) x) as [E|Hn]; [right|left; split; [lra|exact Hend]].
        split; [exact E|]. split; [|exact Hend].
        rewrite <- E in HN. apply (N_pos_left_end U Us) in HN.
        assert (m + p < S kk)%nat by (apply (U_lt_idx U Us); lra).
        rewrite Ub_le by lia. lra.
Qed.

Lemma TP_step : TPclaim Uh -> TPclaim U.
Proof.
  intros HT J HJ.
  set (a := fun j => al p (J j)). set (b := fun j => 1 - al p (S (J j))).
  set (X := fun j i => N Uh p (J j) (t i)). set (Y := fun j i => N Uh p (S (J j)) (t i)).
  assert (E : leibF k (Gm U J) = leibF k (fun j i => a j * X j i + b j * Y j i)).
  { apply leibF_ext. intros j i _ _. unfold Gm, a, b, X, Y. apply (Boehm U Us kk tau Htau). }
  assert (Hab : forall j, (j < k)%nat -> 0 <= a j /\ 0 <= b j).
  { intros j _. unfold a, b. pose proof (al_range (J j)). pose proof (al_range (S (J j))). lra. }
  assert (Ech : forall e, leibF k (choice X Y e) = leibF k (Gm Uh (fun j => (J j + if e j then 1 else 0)%nat))).
  { intros e. apply leibF_ext. intros j i _ _. unfold choice, Gm, X, Y.
    destruct (e j); [replace (J j + 1)%nat with (S (J j)) by lia|replace (J j + 0)%nat with (J j) by lia]; reflexivity. }
  assert (Hall : forall e, 0 <= leibF k (choice X Y e)).
  { intros e. rewrite Ech. set (Jh := fun j => (J j + if e j then 1 else 0)%nat).
    destruct (weak_strict_or_equal k Jh) as [Hs|(j & Hj & Ej)].
    - intros j Hj. unfold Jh. specialize (HJ j Hj). destruct (e j), (e (S j)); lia.
    - apply HT, Hs.
    - rewrite (leibF_equal_rows' k _ j (S j)); [lra|lia|lia|lia|].
      intros i _. unfold Gm. fold (Jh j). fold (Jh (S j)). rewrite Ej. reflexivity. }
  rewrite E. split; [apply expand_nonneg; assumption|].
  intros Hd.
  set (es := fun j => eth (J j) (t j)).
  apply (expand_pos k X Y a b Hab Hall es).
  - intros j Hj. pose proof (valid (J j) (t j) (Hd j Hj)) as V. unfold es, a, b.
    destruct (eth (J j) (t j)); apply V.
  - rewrite Ech. apply HT.
    + intros j Hj. specialize (HJ j Hj). unfold es.
      destruct (eth (J j) (t j)) eqn:E1; destruct (eth (J (S j)) (t (S j))) eqn:E2; try lia.
      rewrite (eth_mono (J j) (J (S j)) (t j) (t (S j)) E1 (Ht j Hj)) in E2. discriminate.
    + intros j Hj. pose proof (valid (J j) (t j) (Hd j Hj)) as V. unfold es.
      destruct (eth (J j) (t j)); [replace (J j + 1)%nat with (S (J j)) by lia|replace (J j + 0)%nat with (J j) by lia]; apply V.
Qed.

(* a knot of multiplicity >= p other than tau keeps that property; points of the domain stay in the domain *)
Lemma full_ins y : y <> tau -> full U y -> full Uh y.
Proof.
  intros Hne (r & E1 & E2 & E3).
  destruct (Rlt_dec y tau) as [Hlt|Hge].
  - assert (Hr : (r + p < S kk)%nat) by (apply (U_lt_idx U Us); lra).
    exists r. rewrite !Ub_le by lia. split; [exact E1|]. split; [exact E2|].
    destruct (Nat.eq_dec (r + p) kk) as [E|Hn].
    + replace (r + p + 1)%nat with (S kk) by lia. rewrite Ub_mid. exact Hlt.
    + rewrite Ub_le by lia. exact E3.
  - assert (Hgt : tau < y) by lra.
    assert (Hr : (kk < r + 1)%nat) by (apply (U_lt_idx U Us); lra).
    exists (S r). rewrite !Ub_gt by lia.
    replace (Nat.pred (S r + 1)) with (r + 1)%nat by lia. replace (Nat.pred (S r + p)) with (r + p)%nat by lia.
    replace (Nat.pred (S r + p + 1)) with (r + p + 1)%nat by lia. split; [exact E1|]. split; assumption.
Qed.
Lemma inrange_ins y : inrange U y -> inrange Uh y.
Proof.
  intros (s & H1 & H2). destruct (lt_eq_lt_dec s kk) as [[Hlt|Heq]|Hgt].
  - exists s. rewrite !Ub_le by lia. split; assumption.
  - subst s. destruct (Rlt_dec y tau) as [Hl|Hg].
    + exists kk. rewrite Ub_le by lia. rewrite Ub_mid. split; assumption.
    + exists (S kk). rewrite Ub_mid. rewrite Ub_gt by lia. cbn [Nat.pred]. split; [lra|exact H2].
  - exists (S s). rewrite !Ub_gt by lia. cbn [Nat.pred]. split; assumption.
Qed.
End Step.

(* ------------------------------------------------------------------ refinement until every point is a full knot *)
Inductive Ready : (nat -> R) -> Prop :=
| R_base U : sortedF U -> (forall i, (i < k)%nat -> full U (t i)) -> Ready U
| R_step U kk tau : sortedF U -> U kk <= tau < U (S kk) -> Ready (Ub U kk tau) -> Ready U.

Lemma Ready_TP U : Ready U -> TPclaim U.
Proof.
  induction 1 as [U Us Hf|U kk tau Us Htau _ IH]; [apply TP_base; assumption|].
  apply (TP_step U kk tau Us Htau IH).
Qed.

(* insert x (of the span s) q times *)
Lemma insert_many q : forall U s x, sortedF U -> U s <= x < U (S s) ->
  exists U', (Ready U' -> Ready U) /\ sortedF U' /\ (forall l, (l <= s)%nat -> U' l = U l) /\
    (forall l, (1 <= l <= q)%nat -> U' (s + l)%nat = x) /\ x < U' (s + q + 1)%nat /\
    (forall y, y <> x -> full U y -> full U' y) /\ (forall y, inrange U y -> inrange U' y).
Proof.
  induction q as [|q IH]; intros U s x Us Hx.
  - exists U. split; [tauto|]. split; [exact Us|]. split; [reflexivity|]. split; [intros; lia|].
    split; [replace (s + 0 + 1)%nat with (S s) by lia; lra|]. split; tauto.
  - set (U1 := Ub U s x).
    assert (U1s : sortedF U1) by exact (Ub_sorted U Us s x Hx).
    assert (Hx1 : U1 (S s) <= x < U1 (S (S s))).
    { unfold U1. rewrite Ub_mid. rewrite Ub_gt by lia. cbn [Nat.pred]. lra. }
    destruct (IH U1 (S s) x U1s Hx1) as (U' & HR & Us' & Hle & Hmid & Hend & Hfull & Hin).
    exists U'. split; [intros R'; apply (R_step U s x Us Hx), HR, R'|]. split; [exact Us'|]. split.
    { intros l Hl. rewrite Hle by lia. unfold U1. apply Ub_le. exact Hl. }
    split.
    { intros l Hl. destruct (Nat.eq_dec l 1) as [->|Hne].
      - replace (s + 1)%nat with (S s) by lia. rewrite Hle by lia. unfold U1. apply Ub_mid.
      - replace (s + l)%nat with (S s + (l - 1))%nat by lia. apply Hmid. lia. }
    split; [replace (s + S q + 1)%nat with (S s + q + 1)%nat by lia; exact Hend|].
    split.
    { intros y Hy Hf. apply Hfull; [exact Hy|]. apply (full_ins U s x Us Hx); assumption. }
    { intros y Hy. apply Hin. apply (inrange_ins U s x). exact Hy. }
Qed.

Lemma ready_from m : forall U, sortedF U -> (forall i, (i < k)%nat -> inrange U (t i)) ->
  (forall i, (m <= i < k)%nat -> full U (t i)) -> Ready U.
Proof.
  induction m as [|m IH]; intros U Us Hin Hf.
  - apply R_base; [exact Us|]. intros i Hi. apply Hf. lia.
  - destruct (le_lt_dec k m) as [Hkm|Hmk].
    + apply IH; try assumption. intros i Hi. lia.
    + destruct (Hin m Hmk) as (s & Hs).
      destruct (insert_many p U s (t m) Us Hs) as (U' & HR & Us' & Hle & Hmid & Hend & Hfull & Hin').
      apply HR. apply IH; [exact Us'| |].
      * intros i Hi. apply Hin', Hin, Hi.
      * intros i Hi. destruct (Nat.eq_dec i m) as [->|Hne].
        -- exists s. split; [apply Hmid; lia|]. split; [rewrite Hmid by lia; lra|exact Hend].
        -- apply Hfull; [|apply Hf; lia]. pose proof (t_lt i m ltac:(lia) ltac:(lia)). lra.
Qed.

(* [G] non-negativity of every k x k collocation minor, strict positivity under Schoenberg-Whitney *)
Theorem bspline_minors U : sortedF U -> (forall i, (i < k)%nat -> inrange U (t i)) -> TPclaim U.
Proof.
  intros Us Hin. apply Ready_TP. apply (ready_from k U Us Hin). intros i Hi. lia.
Qed.
End TP.

(* [G] restated without the section: sorted knots, degree >= 1, increasing points in the domain, increasing selection *)
Theorem collocation_minor_nonneg p k (U : nat -> R) (t : nat -> R) (J : nat -> nat) :
  (1 <= p)%nat -> (forall i, U i <= U (S i)) -> (forall i, (S i < k)%nat -> t i < t (S i)) ->
  (forall i, (i < k)%nat -> exists s, U s <= t i < U (S s)) -> (forall j, (S j < k)%nat -> (J j < J (S j))%nat) ->
  0 <= leibF k (fun j i => N U p (J j) (t i)).
Proof. intros Hp Us Ht Hin HJ. apply (bspline_minors p Hp k t Ht U Us Hin J HJ). Qed.
Theorem collocation_minor_pos p k (U : nat -> R) (t : nat -> R) (J : nat -> nat) :
  (1 <= p)%nat -> (forall i, U i <= U (S i)) -> (forall i, (S i < k)%nat -> t i < t (S i)) ->
  (forall i, (i < k)%nat -> exists s, U s <= t i < U (S s)) -> (forall j, (S j < k)%nat -> (J j < J (S j))%nat) ->
  (forall j, (j < k)%nat -> 0 < N U p (J j) (t j)) ->
  0 < leibF k (fun j i => N U p (J j) (t i)).
Proof. intros Hp Us Ht Hin HJ Hd. apply (bspline_minors p Hp k t Ht U Us Hin J HJ). exact Hd. Qed.
Print Assumptions collocation_minor_pos.
