(* C06 leftovers: the hypotheses of the theorems of Proofs/KnotRemMore*.v are satisfiable on non-trivial real-number instances
   (and the conclusions therefore hold for them); executable instances (exact rationals) are in the props-snippet. *)
From Coq Require Import List Reals Lra Lia Arith Bool ZArith Permutation Sorted.
From NV Require Import Scalar.Ops Model.Common Model.Basis Model.KnotIns Model.InsertKnot Model.KnotRem Model.KnotRefine
  Proofs.BasisR Proofs.InsertKnotR Proofs.InsertDirR Proofs.InsertOpSurf Proofs.RefineDefault Proofs.RefineOp Proofs.RefineExamples
  Proofs.KnotRemMore Proofs.KnotRemMoreRefine Proofs.KnotRemMoreOrder.
Import ListNotations.
Local Open Scope R_scope.

(* ---------------------------------------------------------------- refinement: the quadratic curve of RefineExamples
   (U = [0,0,0,1/2,1,1,1], X = [1/4,1/4,1/2,3/4,3/4]: 1/2 is raised from multiplicity 1 to 2, 1/4 and 3/4 are new double knots),
   four control points in the plane; tolerances 1/1000 (alpha test and multiplicity), (1/1000)^2 for the removal test.
   Removal schedule NOT in the order of insertion: 1/2 once, then 3/4 twice in one call, then 1/4 one at a time. *)
Definition exPR : list (list R) := [[0; 0]; [1; 2]; [3; 1]; [4; 0]].
Definition exSched : list (R * nat) := [(1/2, 1%nat); (3/4, 2%nat); (1/4, 1%nat); (1/4, 1%nat)].

Lemma exSched_perm : Permutation (expand exSched) exX.
Proof. exact (Permutation_app_comm [1/2; 3/4; 3/4] [1/4; 1/4]). Qed.

Lemma exX_sep : forall x y, In x exX -> In y (exX ++ exU) -> Rabs (x - y) <= 1/1000 -> y = x.
Proof.
  unfold exX, exU. cbn [In app]. intros x y Hx Hy.
  repeat (destruct Hx as [<-|Hx]); try contradiction;
  repeat (destruct Hy as [<-|Hy]); try contradiction; unfold Rabs; destruct (Rcase_abs _); lra.
Qed.

Lemma exPR_dim : forall i, (i < length exPR)%nat -> length (getp exPR i) = 2%nat.
Proof. intros i Hi. unfold exPR in *. cbn [length] in Hi. do 4 (destruct i as [|i]; [reflexivity|]). lia. Qed.

(* the hypotheses of remove_after_refine_any_order hold for this instance ... *)
Example any_order_hypotheses_satisfiable :
  (1 <= 2)%nat /\ sortedR exU /\ (2 < length exPR)%nat /\ length exU = (length exPR + 2 + 1)%nat /\
  exX <> [] /\ sortedR exX /\ knR exU 2 <= nth 0 exX 0 /\ nth (length exX - 1) exX 0 < knR exU (length exPR) /\
  (forall x y, In x exX -> In y (exX ++ exU) -> x < y -> 1/1000 <= y - x) /\
  (forall x, In x exX -> (count_occ Req_EM_T (exX ++ exU) x <= 2)%nat) /\
  (forall i, (i < length exPR)%nat -> length (getp exPR i) = 2%nat) /\
  0 <= 1/1000 /\ (forall x y, In x exX -> In y (exX ++ exU) -> Rabs (x - y) <= 1/1000 -> y = x) /\ 0 <= 1/1000000 /\
  Permutation (expand exSched) exX.
Proof.
  destruct refine_ok_satisfiable as (H1 & H2 & H3 & H4 & H5 & H6 & H7 & H8 & H9 & H10).
  repeat (split; [first [assumption | exact exPR_dim | exact exX_sep | exact exSched_perm | cbn; lia | lra]|]).
  exact exSched_perm.
Qed.

(* ... hence its conclusion: the scrambled schedule restores the curve record, never raises, never changes a curve point *)
Example any_order_instance :
  let rm := fun (c : curve (T:=R)) (e : R * nat) => remove_knot_curve Rops (1/1000) (1/1000000) true c [Some (fst e)] [Z.of_nat (snd e)] in
  let '(Q, V) := refine_pts Rops (1/1000) 2 exU exPR exX in
  fold_left (fun c e => fst (rm c e)) exSched (mkC 2 V Q) = mkC 2 exU exPR /\
  (forall s1 e s2, exSched = s1 ++ e :: s2 -> snd (rm (fold_left (fun c e => fst (rm c e)) s1 (mkC 2 V Q)) e) = false) /\
  (forall s1 s2, exSched = s1 ++ s2 -> forall cc t, (cc < 2)%nat ->
     let c := fold_left (fun c e => fst (rm c e)) s1 (mkC 2 V Q) in
     c_p c = 2%nat /\ curve_pt 2 (c_U c) (c_P c) cc t = curve_pt 2 exU exPR cc t).
Proof.
  destruct any_order_hypotheses_satisfiable as (H1 & H2 & H3 & H4 & H5 & H6 & H7 & H8 & H9 & H10 & H11 & H12 & H13 & H14 & H15).
  exact (remove_after_refine_any_order (1/1000) (1/1000) (1/1000000) 2 exU exPR exX 2 exSched
           H1 H2 H3 H4 H5 H6 H7 H8 H9 H10 H11 H12 H13 H14 H15).
Qed.

(* ---------------------------------------------------------------- several directions, smaller removal counts: a biquadratic
   3 x 4 surface over the reals; insert_knot([1/3, 1/2], [2, 1]) (1/3 new in u; 1/2 a simple knot of Uv), then remove_knot with
   the counts [1, 1] <= [2, 1] *)
Definition exGR : surf (T:=R) :=
  mkS 2 2 [0; 0; 0; 1; 1; 1] [0; 0; 0; 1/2; 1; 1; 1] 3 4
    [[0;0;0]; [0;1;1]; [0;2;0]; [0;3;2];  [1;0;1]; [1;1;3]; [1;2;1]; [1;3;0];  [2;0;0]; [2;1;1]; [2;2;2]; [2;3;1]].

Ltac cnt := cbn [count_occ];
  repeat (match goal with |- context [Req_EM_T ?a ?b] =>
            let e := fresh "e" in let n := fresh "n" in
            destruct (Req_EM_T a b) as [e|n]; [try (exfalso; lra)|try (exfalso; apply n; lra)] end).

Lemma exGR_swf : swf exGR 3.
Proof.
  split; [|split].
  - split; [apply StronglySorted_sortedR; cbn [exGR s_Uu]; ssorted|]. split; [cbn; lia|reflexivity].
  - split; [apply StronglySorted_sortedR; cbn [exGR s_Uv]; ssorted|]. split; [cbn; lia|reflexivity].
  - cbn [exGR s_sv s_su s_P]. intros i Hi. do 12 (destruct i as [|i]; [reflexivity|]). lia.
Qed.

Lemma exGR_par_u : par_ok (1/1000) (s_pu exGR) (s_Uu exGR) (s_su exGR) (Some (1/3)).
Proof.
  split; [cbn [exGR s_pu s_Uu s_su]; unfold kn; cbn [nth]; lra|].
  cbn [exGR s_Uu length]. intros i Hi. unfold kn.
  do 6 (destruct i as [|i]; [cbn [nth]; unfold Rabs; destruct (Rcase_abs _); lra|]). lia.
Qed.
Lemma exGR_par_v : par_ok (1/1000) (s_pv exGR) (s_Uv exGR) (s_sv exGR) (Some (1/2)).
Proof.
  split; [cbn [exGR s_pv s_Uv s_sv]; unfold kn; cbn [nth]; lra|].
  cbn [exGR s_Uv length]. intros i Hi. unfold kn.
  do 7 (destruct i as [|i]; [cbn [nth]; unfold Rabs; destruct (Rcase_abs _); lra|]). lia.
Qed.

Lemma exGR_accepted : exists g2, insert_knot_surf Rops (1/1000) true exGR [Some (1/3); Some (1/2)] [Z.of_nat 2; Z.of_nat 1] = (g2, false).
Proof.
  pose proof (insert_knot_surf_correct (1/1000) exGR (Some (1/3)) (Some (1/2)) 2 1 3 exGR_swf exGR_par_u exGR_par_v) as C.
  destruct (insert_knot_surf Rops (1/1000) true exGR [Some (1/3); Some (1/2)] [Z.of_nat 2; Z.of_nat 1]) as [g' raised].
  cbv zeta in C. destruct C as (C1 & _). destruct raised; [|exists g'; reflexivity]. exfalso.
  destruct (proj1 C1 eq_refl) as [[_ X]|[_ X]]; revert X.
  - rewrite (find_multiplicity_count (1/1000) (1/3) ltac:(lra)).
    + cbn [exGR s_pu s_Uu]. cnt. lia.
    + intros y Hy Ha. destruct (In_nth _ _ 0 Hy) as (i & Hi & <-). apply (proj2 exGR_par_u i Hi Ha).
  - rewrite (find_multiplicity_count (1/1000) (1/2) ltac:(lra)).
    + cbn [exGR s_pv s_Uv]. cnt. lia.
    + intros y Hy Ha. destruct (In_nth _ _ 0 Hy) as (i & Hi & <-). apply (proj2 exGR_par_v i Hi Ha).
Qed.

Example less_surf_hypotheses_satisfiable :
  swf exGR 3 /\ length (s_P exGR) = (s_sv exGR * s_su exGR)%nat /\
  par_ok (1/1000) (s_pu exGR) (s_Uu exGR) (s_su exGR) (Some (1/3)) /\ par_ok (1/1000) (s_pv exGR) (s_Uv exGR) (s_sv exGR) (Some (1/2)) /\
  0 <= 1/1000 /\ 0 <= 1/1000000 /\ (1 <= 2)%nat /\ (1 <= 1)%nat /\
  exists g2, insert_knot_surf Rops (1/1000) true exGR [Some (1/3); Some (1/2)] [Z.of_nat 2; Z.of_nat 1] = (g2, false).
Proof.
  split; [exact exGR_swf|]. split; [reflexivity|]. split; [exact exGR_par_u|]. split; [exact exGR_par_v|].
  split; [lra|]. split; [lra|]. split; [lia|]. split; [lia|exact exGR_accepted].
Qed.

Example less_surf_instance : forall g2,
  insert_knot_surf Rops (1/1000) true exGR [Some (1/3); Some (1/2)] [Z.of_nat 2; Z.of_nat 1] = (g2, false) ->
  remove_knot_surf Rops (1/1000) (1/1000000) true g2 [Some (1/3); Some (1/2)] [Z.of_nat 1; Z.of_nat 1]
  = insert_knot_surf Rops (1/1000) true exGR [Some (1/3); Some (1/2)] [Z.of_nat (2 - 1); Z.of_nat (1 - 1)] /\
  snd (insert_knot_surf Rops (1/1000) true exGR [Some (1/3); Some (1/2)] [Z.of_nat (2 - 1); Z.of_nat (1 - 1)]) = false.
Proof.
  intros g2 E.
  apply (insert_then_remove_less_surf (1/1000) (1/1000000) exGR (Some (1/3)) (Some (1/2)) 2 1 1 1 3);
    [exact exGR_swf|reflexivity|exact exGR_par_u|exact exGR_par_v|lra|lra|lia|lia|exact E].
Qed.

(* ---------------------------------------------------------------- volumes: a 3 x 2 x 3 volume of degrees (2, 1, 2) over the reals;
   insert_knot([1/3, 1/2, 1/4], [2, 1, 1]), then remove_knot with the counts [1, 0, 1] *)
Definition exVR : vol (T:=R) :=
  mkV 2 1 2 [0; 0; 0; 1; 1; 1] [0; 0; 1; 1] [0; 0; 0; 1; 1; 1] 3 2 3
    [[0;0;0]; [0;1;1]; [1;0;2]; [1;1;0]; [2;0;1]; [2;1;3];  [0;0;5]; [0;1;4]; [1;0;6]; [1;1;7]; [2;0;5]; [2;1;4];
     [0;0;9]; [0;1;8]; [1;0;9]; [1;1;11]; [2;0;10]; [2;1;8]].

Lemma exVR_vwf : vwf exVR 3.
Proof.
  split; [|split; [|split]].
  - split; [apply StronglySorted_sortedR; cbn [exVR v_Uu]; ssorted|]. split; [cbn; lia|reflexivity].
  - split; [apply StronglySorted_sortedR; cbn [exVR v_Uv]; ssorted|]. split; [cbn; lia|reflexivity].
  - split; [apply StronglySorted_sortedR; cbn [exVR v_Uw]; ssorted|]. split; [cbn; lia|reflexivity].
  - cbn [exVR v_sv v_su v_sw v_P]. intros i Hi. do 18 (destruct i as [|i]; [reflexivity|]). lia.
Qed.

Lemma exVR_par_u : par_ok (1/1000) (v_pu exVR) (v_Uu exVR) (v_su exVR) (Some (1/3)).
Proof.
  split; [cbn [exVR v_pu v_Uu v_su]; unfold kn; cbn [nth]; lra|].
  cbn [exVR v_Uu length]. intros i Hi. unfold kn.
  do 6 (destruct i as [|i]; [cbn [nth]; unfold Rabs; destruct (Rcase_abs _); lra|]). lia.
Qed.
Lemma exVR_par_v : par_ok (1/1000) (v_pv exVR) (v_Uv exVR) (v_sv exVR) (Some (1/2)).
Proof.
  split; [cbn [exVR v_pv v_Uv v_sv]; unfold kn; cbn [nth]; lra|].
  cbn [exVR v_Uv length]. intros i Hi. unfold kn.
  do 4 (destruct i as [|i]; [cbn [nth]; unfold Rabs; destruct (Rcase_abs _); lra|]). lia.
Qed.
Lemma exVR_par_w : par_ok (1/1000) (v_pw exVR) (v_Uw exVR) (v_sw exVR) (Some (1/4)).
Proof.
  split; [cbn [exVR v_pw v_Uw v_sw]; unfold kn; cbn [nth]; lra|].
  cbn [exVR v_Uw length]. intros i Hi. unfold kn.
  do 6 (destruct i as [|i]; [cbn [nth]; unfold Rabs; destruct (Rcase_abs _); lra|]). lia.
Qed.

Lemma exVR_accepted : exists g3,
  insert_knot_vol Rops (1/1000) true exVR [Some (1/3); Some (1/2); Some (1/4)] [Z.of_nat 2; Z.of_nat 1; Z.of_nat 1] = (g3, false).
Proof.
  pose proof (insert_knot_vol_correct (1/1000) exVR (Some (1/3)) (Some (1/2)) (Some (1/4)) 2 1 1 3 exVR_vwf exVR_par_u exVR_par_v exVR_par_w) as C.
  destruct (insert_knot_vol Rops (1/1000) true exVR [Some (1/3); Some (1/2); Some (1/4)] [Z.of_nat 2; Z.of_nat 1; Z.of_nat 1]) as [g' raised].
  cbv zeta in C. destruct C as (C1 & _). destruct raised; [|exists g'; reflexivity]. exfalso.
  destruct (proj1 C1 eq_refl) as [[_ X]|[[_ X]|[_ X]]]; revert X.
  - rewrite (find_multiplicity_count (1/1000) (1/3) ltac:(lra)).
    + cbn [exVR v_pu v_Uu]. cnt. lia.
    + intros y Hy Ha. destruct (In_nth _ _ 0 Hy) as (i & Hi & <-). apply (proj2 exVR_par_u i Hi Ha).
  - rewrite (find_multiplicity_count (1/1000) (1/2) ltac:(lra)).
    + cbn [exVR v_pv v_Uv]. cnt. lia.
    + intros y Hy Ha. destruct (In_nth _ _ 0 Hy) as (i & Hi & <-). apply (proj2 exVR_par_v i Hi Ha).
  - rewrite (find_multiplicity_count (1/1000) (1/4) ltac:(lra)).
    + cbn [exVR v_pw v_Uw]. cnt. lia.
    + intros y Hy Ha. destruct (In_nth _ _ 0 Hy) as (i & Hi & <-). apply (proj2 exVR_par_w i Hi Ha).
Qed.

Example less_vol_hypotheses_satisfiable :
  vwf exVR 3 /\ length (v_P exVR) = (v_su exVR * v_sv exVR * v_sw exVR)%nat /\
  par_ok (1/1000) (v_pu exVR) (v_Uu exVR) (v_su exVR) (Some (1/3)) /\ par_ok (1/1000) (v_pv exVR) (v_Uv exVR) (v_sv exVR) (Some (1/2)) /\
  par_ok (1/1000) (v_pw exVR) (v_Uw exVR) (v_sw exVR) (Some (1/4)) /\
  0 <= 1/1000 /\ 0 <= 1/1000000 /\ (1 <= 2)%nat /\ (0 <= 1)%nat /\ (1 <= 1)%nat /\
  exists g3, insert_knot_vol Rops (1/1000) true exVR [Some (1/3); Some (1/2); Some (1/4)] [Z.of_nat 2; Z.of_nat 1; Z.of_nat 1] = (g3, false).
Proof.
  split; [exact exVR_vwf|]. split; [reflexivity|]. split; [exact exVR_par_u|]. split; [exact exVR_par_v|]. split; [exact exVR_par_w|].
  split; [lra|]. split; [lra|]. split; [lia|]. split; [lia|]. split; [lia|exact exVR_accepted].
Qed.

Example less_vol_instance : forall g3,
  insert_knot_vol Rops (1/1000) true exVR [Some (1/3); Some (1/2); Some (1/4)] [Z.of_nat 2; Z.of_nat 1; Z.of_nat 1] = (g3, false) ->
  remove_knot_vol Rops (1/1000) (1/1000000) true g3 [Some (1/3); Some (1/2); Some (1/4)] [Z.of_nat 1; Z.of_nat 0; Z.of_nat 1]
  = insert_knot_vol Rops (1/1000) true exVR [Some (1/3); Some (1/2); Some (1/4)] [Z.of_nat (2 - 1); Z.of_nat (1 - 0); Z.of_nat (1 - 1)] /\
  snd (insert_knot_vol Rops (1/1000) true exVR [Some (1/3); Some (1/2); Some (1/4)] [Z.of_nat (2 - 1); Z.of_nat (1 - 0); Z.of_nat (1 - 1)]) = false.
Proof.
  intros g3 E.
  apply (insert_then_remove_less_vol (1/1000) (1/1000000) exVR (Some (1/3)) (Some (1/2)) (Some (1/4)) 2 1 1 1 0 1 3);
    [exact exVR_vwf|reflexivity|exact exVR_par_u|exact exVR_par_v|exact exVR_par_w|lra|lra|lia|lia|lia|exact E].
Qed.

(* ---------------------------------------------------------------- commutation of two insert_knot calls: the curve above, x = 1/4 (new)
   and y = 1/2 (a simple knot) *)
Definition exCR : curve (T:=R) := mkC 2 exU exPR.
Example commute_hypotheses_satisfiable :
  0 <= 1/1000 /\ cwf exCR 2 /\
  par_ok (1/1000) (c_p exCR) (c_U exCR) (length (c_P exCR)) (Some (1/4)) /\
  par_ok (1/1000) (c_p exCR) (c_U exCR) (length (c_P exCR)) (Some (1/2)) /\ 1/1000 < Rabs (1/2 - 1/4).
Proof.
  split; [lra|]. split.
  { split; [split; [exact exU_sorted|split; [cbn; lia|reflexivity]]|exact exPR_dim]. }
  split; [|split].
  - split; [cbn [exCR c_p c_U c_P]; unfold exU, exPR, kn; cbn [nth length]; lra|].
    cbn [exCR c_U]. unfold exU. cbn [length]. intros i Hi. unfold kn.
    do 7 (destruct i as [|i]; [cbn [nth]; unfold Rabs; destruct (Rcase_abs _); lra|]). lia.
  - split; [cbn [exCR c_p c_U c_P]; unfold exU, exPR, kn; cbn [nth length]; lra|].
    cbn [exCR c_U]. unfold exU. cbn [length]. intros i Hi. unfold kn.
    do 7 (destruct i as [|i]; [cbn [nth]; unfold Rabs; destruct (Rcase_abs _); lra|]). lia.
  - unfold Rabs. destruct (Rcase_abs _); lra.
Qed.

(* aliases without name clash in Props/C06.v (which has its own rational exU) *)
Definition exUR : list R := exU.
Definition exXR : list R := exX.
Example any_order_hypotheses_satisfiable_R :
  (1 <= 2)%nat /\ sortedR exUR /\ (2 < length exPR)%nat /\ length exUR = (length exPR + 2 + 1)%nat /\
  exXR <> [] /\ sortedR exXR /\ knR exUR 2 <= nth 0 exXR 0 /\ nth (length exXR - 1) exXR 0 < knR exUR (length exPR) /\
  (forall x y, In x exXR -> In y (exXR ++ exUR) -> x < y -> 1/1000 <= y - x) /\
  (forall x, In x exXR -> (count_occ Req_EM_T (exXR ++ exUR) x <= 2)%nat) /\
  (forall i, (i < length exPR)%nat -> length (getp exPR i) = 2%nat) /\
  0 <= 1/1000 /\ (forall x y, In x exXR -> In y (exXR ++ exUR) -> Rabs (x - y) <= 1/1000 -> y = x) /\ 0 <= 1/1000000 /\
  Permutation (expand exSched) exXR.
Proof. exact any_order_hypotheses_satisfiable. Qed.
