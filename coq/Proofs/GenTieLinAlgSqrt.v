(* Ties: generated linalg.vector_magnitude, point_distance, vector_normalize (Gen/LinalgB.v) with math.sqrt left UNINTERPRETED (the
   parameter py_sqrt of the generated functions) = the squared quantities of the model: LinAlg.vector_norm2, Geom2D.dist2 (= Hull.sqdist with the
   arguments swapped, KnotRem.dist2), LinAlg.vector_normalize (the pair (v, |v|^2)).  Python adds the squares from the left, the model's vdot
   from the right: under sum_laws K.  At Rops the hypotheses on py_sqrt are proved for the real square root. *)
From Coq Require Import List ZArith Arith Bool Lia QArith.
From NV Require Import Scalar.Ops Model.Common Model.LinAlg Model.Geom2D Gen.Prelude Gen.PreludeExt Gen.PreludeExt2 Gen.LinalgInternal Gen.Linalg
  Gen.LinalgB Proofs.GenTieLib Proofs.GenTieLib2 Proofs.GenTieSums Proofs.GenTieEvalLib Proofs.GenTieLinAlgB.
Import ListNotations.
Local Open Scope nat_scope.

Section TieSums.
Context {T : Type} (K : ops T) (LW : sum_laws K).
Notation "0" := (o0 K).

Lemma combine_self_map (f : T * T -> T) (v : list T) : map f (combine v v) = map (fun x => f (x, x)) v.
Proof. induction v; simpl; auto. now rewrite IHv. Qed.

Lemma sq_loop (v : list T) :
  gfor v (fun vin sq_sum => let sq_sum := oadd K sq_sum (omul K vin vin) in GOk sq_sum) 0 = GOk (LinAlg.vector_norm2 K v).
Proof.
  rewrite (gfor_pure v _ (fun s x => oadd K s (omul K x x))) by reflexivity.
  rewrite (fold_acc_sumT K LW (fun x => omul K x x) v). unfold LinAlg.vector_norm2, vdot.
  now rewrite (combine_self_map (fun p => omul K (fst p) (snd p)) v).
Qed.

(* ---- vector_magnitude: ALL inputs, every py_sqrt ---- *)
Theorem vector_magnitude_tie (v : list T) (py_sqrt : T -> gres T) :
  LinalgB.vector_magnitude K v py_sqrt = py_sqrt (LinAlg.vector_norm2 K v).
Proof.
  unfold LinalgB.vector_magnitude. cbv zeta. rewrite sq_loop. cbn [gbind]. destruct (py_sqrt _); reflexivity.
Qed.

(* ---- point_distance: ALL inputs; ValueError for points of different or zero length ---- *)
Lemma vgen_vsub (a b : list T) : map (fun p => osub K (snd p) (fst p)) (combine a b) = vsub K b a.
Proof.
  unfold vsub. revert b; induction a as [|x a IH]; intros [|y b]; simpl; auto. now rewrite IH.
Qed.

Theorem point_distance_tie (a b : list T) (py_sqrt : T -> gres T) :
  LinalgB.point_distance K a b py_sqrt =
  if negb (Nat.eqb (length a) (length b)) then GErr ValueError
  else if LinAlg.isnil a then GErr ValueError else py_sqrt (Geom2D.dist2 K a b).
Proof.
  unfold LinalgB.point_distance. unfold zlen.
  replace (Z.of_nat (length a) =? Z.of_nat (length b))%Z with (Nat.eqb (length a) (length b)).
  2:{ destruct (Nat.eqb_spec (length a) (length b)); destruct (Z.eqb_spec (Z.of_nat (length a)) (Z.of_nat (length b))); auto; lia. }
  destruct (Nat.eqb_spec (length a) (length b)) as [E|E]; cbn [negb]; [|reflexivity].
  rewrite (vector_generate_tie K a b). unfold LinAlg.vector_generate.
  destruct a as [|a0 ar]; [reflexivity|]. destruct b as [|b0 br]; [simpl in E; lia|].
  cbn [LinAlg.isnil orb res_to_gres gbind]. rewrite vector_magnitude_tie.
  unfold Geom2D.dist2, LinAlg.vector_norm2. cbv zeta. rewrite vgen_vsub. destruct (py_sqrt _); reflexivity.
Qed.

(* ---- vector_normalize: for a py_sqrt that is total (sq = its value) and positive exactly on positive arguments ---- *)
Theorem vector_normalize_tie (v : list T) (decimals : Z) (py_sqrt : T -> gres T) (sq : T -> T) :
  (forall x, py_sqrt x = GOk (sq x)) ->
  oltb K 0 (sq (LinAlg.vector_norm2 K v)) = oltb K 0 (LinAlg.vector_norm2 K v) ->
  LinalgB.vector_normalize K v decimals py_sqrt =
  match LinAlg.vector_normalize K v with
  | Ok (v', n2) => GOk (map (fun x => odiv K x (sq n2)) v')
  | _ => GErr ValueError
  end.
Proof.
  intros Hsq Hpos. unfold LinalgB.vector_normalize, LinAlg.vector_normalize.
  destruct v as [|v0 vr]; [reflexivity|]. set (v := v0 :: vr) in *.
  cbn [LinAlg.isnil]. unfold zlen. replace (Z.of_nat (length v) =? 0)%Z with false by (subst v; reflexivity).
  cbn [orb gtry gbind]. rewrite vector_magnitude_tie, Hsq. cbn [gbind].
  change (ofZ K 0%Z) with 0. rewrite Hpos.
  destruct (oltb K 0 (LinAlg.vector_norm2 K v)); [|reflexivity].
  rewrite (gfor_append_gen v _ (fun x => odiv K x (sq (LinAlg.vector_norm2 K v)))) by reflexivity.
  cbn [gbind app]. unfold fround. now rewrite map_id.
Qed.
End TieSums.

Require Import Reals Lra.
Definition vector_magnitude_tie_R := @vector_magnitude_tie _ Rops Rops_sum_laws.
Definition vector_magnitude_tie_Q := @vector_magnitude_tie _ Qops Qops_sum_laws.
Definition point_distance_tie_R := @point_distance_tie _ Rops Rops_sum_laws.
Definition point_distance_tie_Q := @point_distance_tie _ Qops Qops_sum_laws.
Definition vector_normalize_tie_R := @vector_normalize_tie _ Rops Rops_sum_laws.
Definition vector_normalize_tie_Q := @vector_normalize_tie _ Qops Qops_sum_laws.

(* ---- at Rops with the real square root ---- *)
Lemma sqrt_pos_iff (x : R) : Rltb 0 (sqrt x) = Rltb 0 x.
Proof.
  unfold Rltb. destruct (Rlt_dec 0 (sqrt x)) as [H|H]; destruct (Rlt_dec 0 x) as [H'|H']; try reflexivity; exfalso.
  - apply H'. destruct (Rle_or_lt x 0) as [Hx|Hx]; [|exact Hx]. rewrite (sqrt_neg_0 x Hx) in H. lra.
  - apply H. now apply sqrt_lt_R0.
Qed.

Theorem point_distance_tie_R_sqrt (a b : list R) :
  length a = length b -> a <> [] ->
  LinalgB.point_distance Rops a b (fun x => GOk (sqrt x)) = GOk (sqrt (Geom2D.dist2 Rops a b)).
Proof.
  intros E Hne. rewrite point_distance_tie_R, E, Nat.eqb_refl. cbn [negb]. destruct a; [congruence|reflexivity].
Qed.

Theorem vector_magnitude_tie_R_sqrt (v : list R) :
  LinalgB.vector_magnitude Rops v (fun x => GOk (sqrt x)) = GOk (sqrt (LinAlg.vector_norm2 Rops v)).
Proof. apply vector_magnitude_tie_R. Qed.

(* the unit vector v / |v|; ValueError (the empty or the zero vector) <-> Rejected *)
Theorem vector_normalize_tie_R_sqrt (v : list R) (decimals : Z) :
  LinalgB.vector_normalize Rops v decimals (fun x => GOk (sqrt x)) =
  match LinAlg.vector_normalize Rops v with
  | Ok (v', n2) => GOk (map (fun x => (x / sqrt n2)%R) v')
  | _ => GErr ValueError
  end.
Proof. apply (vector_normalize_tie_R v decimals _ sqrt); [reflexivity|apply sqrt_pos_iff]. Qed.

(* ---- examples at Qops: py_sqrt = an exact rational root on the perfect squares that occur (3-4-5), as math.sqrt returns there ---- *)
Local Open Scope Q_scope.
Definition exSqrt (x : Q) : gres Q := if Qeq_bool x 25 then GOk 5 else if Qeq_bool x 0 then GOk 0 else GErr ValueError.
Example point_distance_ex :
  LinalgB.point_distance Qops [1; 2; 0] [4; 6; 0] exSqrt = GOk 5
  /\ Geom2D.dist2 Qops [1; 2; 0] [4; 6; 0] = 25
  /\ LinalgB.vector_magnitude Qops [3; 4] exSqrt = GOk 5
  /\ LinalgB.point_distance Qops [1; 2] [4; 6; 0] exSqrt = GErr ValueError
  /\ LinalgB.vector_normalize Qops [3; 4] 18 exSqrt = GOk [3 # 5; 4 # 5]
  /\ LinAlg.vector_normalize Qops [3; 4] = Ok ([3; 4], 25)
  /\ LinalgB.vector_normalize Qops [0; 0] 18 exSqrt = GErr ValueError
  /\ LinAlg.vector_normalize Qops [0; 0] = Rejected.
Proof. repeat (split; [vm_compute; reflexivity|]). vm_compute. reflexivity. Qed.
