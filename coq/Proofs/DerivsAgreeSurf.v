(* C02 [B]: the two surface derivative algorithms agree on the contract triangle k + l <= order:
   A3.8 (SurfaceEvaluator2 with the REPAIRED A3.7 surface_deriv_cpts) returns the same SKL[k][l] as A3.6 (SurfaceEvaluator) for every
   order 0..max(pu,pv)+2 - in particular for order > degree, where the pinned A3.7 left control points unset - for bi-degrees
   (1,1), (2,1), (1,2), (2,2) on symbolic knot windows (all multiplicity patterns) and symbolic control values. *)
From Coq Require Import List Reals Lra Lia Arith Bool.
From NV Require Import Scalar.Ops Model.Common Model.Basis Model.Knots Model.Eval Model.Degree Model.Derivs Proofs.BasisR Proofs.DerivsAgree.
Import ListNotations.
Open Scope R_scope.
Ltac rcbv := cbv -[Rplus Rminus Rmult Rdiv Rinv Ropp IZR].
Ltac lfld := repeat (apply (f_equal2 (@cons R)); [field; repeat split; lra|]); reflexivity.

Lemma surface_evaluators_agree_11 : forall s0 s1 s2 s3 u t0 t1 t2 t3 v a00 a01 a10 a11, s0 <= s1 -> s1 <= u -> u < s2 -> s2 <= s3 -> t0 <= t1 -> t1 <= v -> v < t2 -> t2 <= t3 ->
  let Wu := [s0;s1;s2;s3] in let Wv := [t0;t1;t2;t3] in let P := [[a00];[a01];[a10];[a11]] in
  forall order k l, (order <= 3)%nat -> (k + l <= order)%nat ->
  get3 (surface_derivs2 Rops 1 1 1 Wu Wv 2 2 P u v order) k l = get3 (surface_derivs Rops 1 1 1 Wu Wv 2 2 P u v order) k l.
Proof.
  intros.
  pose proof (span_window_1 s0 s1 s2 s3 u ltac:(assumption) ltac:(assumption) ltac:(assumption) ltac:(assumption)) as Hu.
  pose proof (span_window_1 t0 t1 t2 t3 v ltac:(assumption) ltac:(assumption) ltac:(assumption) ltac:(assumption)) as Hv.
  unfold surface_derivs2, surface_derivs, Wu, Wv, P. rewrite Hu, Hv.
  do 4 (destruct order as [|order]; [do 4 (destruct k as [|k]; [do 4 (destruct l as [|l]; [try lia; rcbv; lfld|]); lia|]); lia|]). lia.
Qed.

Lemma surface_evaluators_agree_21 : forall s0 s1 s2 s3 s4 s5 u t0 t1 t2 t3 v a00 a01 a10 a11 a20 a21, s0 <= s1 -> s1 <= s2 -> s2 <= u -> u < s3 -> s3 <= s4 -> s4 <= s5 -> t0 <= t1 -> t1 <= v -> v < t2 -> t2 <= t3 ->
  let Wu := [s0;s1;s2;s3;s4;s5] in let Wv := [t0;t1;t2;t3] in let P := [[a00];[a01];[a10];[a11];[a20];[a21]] in
  forall order k l, (order <= 4)%nat -> (k + l <= order)%nat ->
  get3 (surface_derivs2 Rops 1 2 1 Wu Wv 3 2 P u v order) k l = get3 (surface_derivs Rops 1 2 1 Wu Wv 3 2 P u v order) k l.
Proof.
  intros.
  pose proof (span_window_2 s0 s1 s2 s3 s4 s5 u ltac:(assumption) ltac:(assumption) ltac:(assumption) ltac:(assumption) ltac:(assumption) ltac:(assumption)) as Hu.
  pose proof (span_window_1 t0 t1 t2 t3 v ltac:(assumption) ltac:(assumption) ltac:(assumption) ltac:(assumption)) as Hv.
  unfold surface_derivs2, surface_derivs, Wu, Wv, P. rewrite Hu, Hv.
  do 5 (destruct order as [|order]; [do 5 (destruct k as [|k]; [do 5 (destruct l as [|l]; [try lia; rcbv; lfld|]); lia|]); lia|]). lia.
Qed.

Lemma surface_evaluators_agree_12 : forall s0 s1 s2 s3 u t0 t1 t2 t3 t4 t5 v a00 a01 a02 a10 a11 a12, s0 <= s1 -> s1 <= u -> u < s2 -> s2 <= s3 -> t0 <= t1 -> t1 <= t2 -> t2 <= v -> v < t3 -> t3 <= t4 -> t4 <= t5 ->
  let Wu := [s0;s1;s2;s3] in let Wv := [t0;t1;t2;t3;t4;t5] in let P := [[a00];[a01];[a02];[a10];[a11];[a12]] in
  forall order k l, (order <= 4)%nat -> (k + l <= order)%nat ->
  get3 (surface_derivs2 Rops 1 1 2 Wu Wv 2 3 P u v order) k l = get3 (surface_derivs Rops 1 1 2 Wu Wv 2 3 P u v order) k l.
Proof.
  intros.
  pose proof (span_window_1 s0 s1 s2 s3 u ltac:(assumption) ltac:(assumption) ltac:(assumption) ltac:(assumption)) as Hu.
  pose proof (span_window_2 t0 t1 t2 t3 t4 t5 v ltac:(assumption) ltac:(assumption) ltac:(assumption) ltac:(assumption) ltac:(assumption) ltac:(assumption)) as Hv.
  unfold surface_derivs2, surface_derivs, Wu, Wv, P. rewrite Hu, Hv.
  do 5 (destruct order as [|order]; [do 5 (destruct k as [|k]; [do 5 (destruct l as [|l]; [try lia; rcbv; lfld|]); lia|]); lia|]). lia.
Qed.

Lemma surface_evaluators_agree_22 : forall s0 s1 s2 s3 s4 s5 u t0 t1 t2 t3 t4 t5 v a00 a01 a02 a10 a11 a12 a20 a21 a22, s0 <= s1 -> s1 <= s2 -> s2 <= u -> u < s3 -> s3 <= s4 -> s4 <= s5 -> t0 <= t1 -> t1 <= t2 -> t2 <= v -> v < t3 -> t3 <= t4 -> t4 <= t5 ->
  let Wu := [s0;s1;s2;s3;s4;s5] in let Wv := [t0;t1;t2;t3;t4;t5] in let P := [[a00];[a01];[a02];[a10];[a11];[a12];[a20];[a21];[a22]] in
  forall order k l, (order <= 4)%nat -> (k + l <= order)%nat ->
  get3 (surface_derivs2 Rops 1 2 2 Wu Wv 3 3 P u v order) k l = get3 (surface_derivs Rops 1 2 2 Wu Wv 3 3 P u v order) k l.
Proof.
  intros.
  pose proof (span_window_2 s0 s1 s2 s3 s4 s5 u ltac:(assumption) ltac:(assumption) ltac:(assumption) ltac:(assumption) ltac:(assumption) ltac:(assumption)) as Hu.
  pose proof (span_window_2 t0 t1 t2 t3 t4 t5 v ltac:(assumption) ltac:(assumption) ltac:(assumption) ltac:(assumption) ltac:(assumption) ltac:(assumption)) as Hv.
  unfold surface_derivs2, surface_derivs, Wu, Wv, P. rewrite Hu, Hv.
  do 5 (destruct order as [|order]; [do 5 (destruct k as [|k]; [do 5 (destruct l as [|l]; [try lia; rcbv; lfld|]); lia|]); lia|]). lia.
Qed.
