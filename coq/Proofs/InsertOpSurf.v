(* C04 completion: operations.insert_knot (model) as a whole on SURFACES (u, v or both) and VOLUMES (any subset of
   u, v, w), with the span and the multiplicity the code itself computes (find_span_linear, find_multiplicity):
   the call raises exactly when the count exceeds degree - multiplicity in some requested direction; directions are
   processed in the order u, v, w and a raise stops the processing (the object is unchanged when no earlier direction
   was performed, in particular for every single-direction call); otherwise the degrees are unchanged, the sizes grow
   by the counts in the requested directions only, the knot vectors of the other directions are untouched, and in
   every case every surface / volume point is unchanged.  Pattern of Proofs/InsertOpR.v.  New file. *)
From Coq Require Import List Reals Lra Lia Arith Bool ZArith.
From NV Require Import Scalar.Ops Model.Common Model.Basis Model.KnotIns Model.InsertKnot
  Proofs.Boehm Proofs.BasisR Proofs.KnotInsR Proofs.InsertKnotR Proofs.KnotInsN Proofs.InsertNR Proofs.InsertDirR Proofs.InsertVolR Proofs.InsertOpR.
Import ListNotations.
Open Scope R_scope.

(* ------------------------------------------------------------------ one parametric direction *)
(* a valid direction: sorted knot vector of the right length, degree below the size *)
Definition dir_wf (p : nat) (U : list R) (n : nat) : Prop := sortedR U /\ (p < n)%nat /\ length U = (n + p + 1)%nat.
(* a requested parameter lies in the half-open domain and the multiplicity tolerance does not confuse distinct knots *)
Definition par_ok (tol : R) (p : nat) (U : list R) (n : nat) (o : option R) : Prop :=
  match o with
  | None => True
  | Some t => knR U p <= t < knR U n /\ forall i, (i < length U)%nat -> Rabs (t - knR U i) <= tol -> knR U i = t
  end.
(* the count that is requested in a direction (0 when the direction has no parameter) *)
Definition eff (o : option R) (n : nat) : nat := match o with Some _ => n | None => 0%nat end.
(* the count exceeds degree - multiplicity *)
Definition excess (tol : R) (p : nat) (U : list R) (o : option R) (n : nat) : Prop :=
  match o with Some t => (1 <= n)%nat /\ (p - find_multiplicity Rops tol t U < n)%nat | None => False end.
(* the knot vector after the insertion in a direction *)
Definition kv_after (p : nat) (U : list R) (n : nat) (o : option R) (num : nat) : list R :=
  match o with Some t => knot_insertion_kv U t (find_span_linear Rops p U n t) num | None => U end.

Lemma kv_after_skip p U n o num : eff o num = 0%nat -> kv_after p U n o num = U.
Proof. destruct o as [t|]; cbn [eff kv_after]; [intros ->; apply kv_zero|reflexivity]. Qed.
Lemma kv_after_length p U n o num : length (kv_after p U n o num) = (length U + eff o num)%nat.
Proof. destruct o as [t|]; cbn [eff kv_after]; [apply kv_length|lia]. Qed.

Lemma dir_prep_spec tol p U n o num :
  match dir_prep Rops tol true p U n o num with
  | None => eff o num = 0%nat
  | Some None => excess tol p U o num
  | Some (Some (t, s, k, kv)) =>
      o = Some t /\ (1 <= num)%nat /\ s = find_multiplicity Rops tol t U /\ (num <= p - s)%nat /\
      k = find_span_linear Rops p U n t /\ kv = knot_insertion_kv U t k num
  end.
Proof.
  unfold dir_prep. destruct o as [t|]; [|reflexivity]. cbn [eff excess].
  destruct (Nat.eqb_spec num 0) as [E|E]; [exact E|]. cbn [andb].
  destruct (Nat.ltb_spec (p - find_multiplicity Rops tol t U) num) as [H|H].
  - split; lia.
  - repeat split; try reflexivity; lia.
Qed.

Lemma excess_not_skip tol p U o num : excess tol p U o num -> eff o num = 0%nat -> False.
Proof. destruct o as [t|]; cbn [excess eff]; [lia|tauto]. Qed.

(* the searches of the code deliver what the insertion theorems need (InsertOpR.k_spec / s_spec on a dummy net) *)
Lemma dir_accept tol p U n t num : dir_wf p U n -> par_ok tol p U n (Some t) ->
  (1 <= num)%nat -> (num <= p - find_multiplicity Rops tol t U)%nat ->
  let k := find_span_linear Rops p U n t in let s := find_multiplicity Rops tol t U in
  (s <= p)%nat /\ (p <= k)%nat /\ (k < n)%nat /\ knR U k <= t < knR U (k + 1) /\
  (forall i, (k - s < i <= k)%nat -> knR U i = t) /\ dir_wf p (knot_insertion_kv U t k num) (n + num).
Proof.
  intros (Hs & Hp & HL) (Hu & Hsep) H1 H2. cbv zeta.
  pose proof (k_spec tol (mkC p U (repeat (@nil R) n)) t) as K. pose proof (s_spec tol (mkC p U (repeat (@nil R) n)) t) as SS.
  cbn [c_p c_U c_P] in K, SS. rewrite repeat_length in K, SS.
  specialize (K Hp HL Hu). specialize (SS Hs Hp HL Hu Hsep). destruct K as [[K1 K2] K3].
  split; [lia|]. split; [exact K1|]. split; [exact K2|]. split; [exact K3|]. split; [exact SS|].
  split; [|split; [lia|rewrite kv_length; lia]].
  apply kv_sorted; [exact Hs|lia|lra|]. intros _. replace (S (find_span_linear Rops p U n t)) with (find_span_linear Rops p U n t + 1)%nat by lia. lra.
Qed.

(* ------------------------------------------------------------------ index decompositions *)
Lemma split2 a b x : (x < a * b)%nat -> exists j i, (j < a)%nat /\ (i < b)%nat /\ x = (j + a * i)%nat.
Proof.
  intro H. assert (Ha : a <> 0%nat) by (intro E; subst; cbn in H; lia).
  exists (x mod a)%nat, (x / a)%nat. split; [apply Nat.mod_upper_bound; exact Ha|].
  split; [apply Nat.div_lt_upper_bound; [exact Ha|exact H]|]. rewrite Nat.add_comm. apply Nat.div_mod. exact Ha.
Qed.
Lemma split3 a b c x : (x < b * a * c)%nat ->
  exists j i l, (j < a)%nat /\ (i < b)%nat /\ (l < c)%nat /\ x = (j + i * a + l * b * a)%nat.
Proof.
  intro H. assert (Ha : a <> 0%nat) by (intro E; subst; rewrite Nat.mul_0_r in H; cbn in H; lia).
  assert (Hb : b <> 0%nat) by (intro E; subst; cbn in H; lia).
  assert (Hy : (x / a < b * c)%nat) by (apply Nat.div_lt_upper_bound; [exact Ha|nia]).
  exists (x mod a)%nat, ((x / a) mod b)%nat, ((x / a) / b)%nat.
  split; [apply Nat.mod_upper_bound; exact Ha|]. split; [apply Nat.mod_upper_bound; exact Hb|].
  split; [apply Nat.div_lt_upper_bound; [exact Hb|exact Hy]|].
  pose proof (Nat.div_mod x a Ha) as E1. pose proof (Nat.div_mod (x / a) b Hb) as E2. nia.
Qed.

(* ================================================================== SURFACES *)
Definition swf (g : surf (T:=R)) (dim : nat) : Prop :=
  dir_wf (s_pu g) (s_Uu g) (s_su g) /\ dir_wf (s_pv g) (s_Uv g) (s_sv g) /\
  forall i, (i < s_sv g * s_su g)%nat -> length (getp (s_P g) i) = dim.

(* the two stages of insert_knot_surf *)
Definition sstep_u (tol : R) (g : surf (T:=R)) (ou : option R) (nu : nat) : surf * bool :=
  match dir_prep Rops tol true (s_pu g) (s_Uu g) (s_su g) ou nu with
  | None => (g, false)
  | Some None => (g, true)
  | Some (Some (u, s, span, kv)) =>
      (mkS (s_pu g) (s_pv g) kv (s_Uv g) (s_su g + nu) (s_sv g) (surf_net_u Rops g u nu s span), false)
  end.
Definition sstep_v (tol : R) (g : surf (T:=R)) (ov : option R) (nv : nat) : surf * bool :=
  match dir_prep Rops tol true (s_pv g) (s_Uv g) (s_sv g) ov nv with
  | None => (g, false)
  | Some None => (g, true)
  | Some (Some (v, s, span, kv)) =>
      (mkS (s_pu g) (s_pv g) (s_Uu g) kv (s_su g) (s_sv g + nv) (surf_net_v Rops g v nv s span), false)
  end.

Lemma insert_knot_surf_steps tol g ou ov nu nv :
  insert_knot_surf Rops tol true g [ou; ov] [Z.of_nat nu; Z.of_nat nv] =
  let '(g1, r) := sstep_u tol g ou nu in if r then (g1, true) else sstep_v tol g1 ov nv.
Proof.
  unfold insert_knot_surf. change [Z.of_nat nu; Z.of_nat nv] with (map Z.of_nat [nu; nv]).
  rewrite (nums_ok_nat 2 [nu; nv]) by reflexivity. cbn [andb negb map]. unfold numat, parat. cbn [nth].
  rewrite !Nat2Z.id. reflexivity.
Qed.

Lemma sstep_u_spec tol g dim ou nu : swf g dim -> par_ok tol (s_pu g) (s_Uu g) (s_su g) ou ->
  let g1 := fst (sstep_u tol g ou nu) in let r := snd (sstep_u tol g ou nu) in
  (r = true <-> excess tol (s_pu g) (s_Uu g) ou nu) /\ (r = true -> g1 = g) /\
  swf g1 dim /\ (forall c tu tv, (c < dim)%nat -> surf_pt g1 c tu tv = surf_pt g c tu tv) /\
  s_pu g1 = s_pu g /\ s_pv g1 = s_pv g /\ s_Uv g1 = s_Uv g /\ s_sv g1 = s_sv g /\
  (r = false -> s_su g1 = (s_su g + eff ou nu)%nat /\ s_Uu g1 = kv_after (s_pu g) (s_Uu g) (s_su g) ou nu) /\
  (eff ou nu = 0%nat -> g1 = g).
Proof.
  intros W Hpar. cbv zeta. unfold sstep_u.
  pose proof (dir_prep_spec tol (s_pu g) (s_Uu g) (s_su g) ou nu) as D.
  destruct (dir_prep Rops tol true (s_pu g) (s_Uu g) (s_su g) ou nu) as [[[[[t s] k] kv]|]|]; cbn [fst snd].
  - destruct D as (-> & H1 & -> & Hn & -> & ->). destruct W as (Wu & Wv & Wd).
    destruct (dir_accept tol (s_pu g) (s_Uu g) (s_su g) t nu Wu Hpar H1 Hn) as (A1 & A2 & A3 & A4 & A5 & A6). cbv zeta in *.
    set (k := find_span_linear Rops (s_pu g) (s_Uu g) (s_su g) t) in *. set (s := find_multiplicity Rops tol t (s_Uu g)) in *.
    split; [split; [discriminate|cbn [excess]; lia]|]. split; [discriminate|]. split.
    { split; [exact A6|]. split; [exact Wv|]. cbn [s_su s_sv s_P]. intros i Hi.
      destruct (split2 (s_sv g) (s_su g + nu) i Hi) as (j & i' & Hj & Hi' & ->).
      rewrite (surf_net_u_col Rops g t nu s k i' j) by assumption.
      apply (ki_dim Rops (s_pu g) (s_Uu g) (col_u g j) t nu s k dim); try assumption.
      - unfold col_u. rewrite map_length, seq_length. exact A3.
      - intros q Hq. unfold col_u in *. rewrite map_length, seq_length in Hq. unfold getp at 1. rewrite nth_map_seq by exact Hq. apply Wd. nia.
      - unfold col_u. rewrite map_length, seq_length. exact Hi'. }
    split. { intros c tu tv Hc. destruct Wu as (Su & _ & Lu). apply (surf_insert_u_preserves g t nu s k dim); assumption. }
    repeat split; try reflexivity. cbn [eff]. intro Z. lia.
  - split; [split; [intros _; exact D|reflexivity]|]. split; [reflexivity|]. split; [exact W|]. split; [reflexivity|].
    repeat split; discriminate.
  - split; [split; [discriminate|intro X; exfalso; exact (excess_not_skip _ _ _ _ _ X D)]|]. split; [discriminate|].
    split; [exact W|]. split; [reflexivity|]. repeat split; try reflexivity; [rewrite D; lia|symmetry; apply kv_after_skip; exact D].
Qed.

Lemma sstep_v_spec tol g dim ov nv : swf g dim -> par_ok tol (s_pv g) (s_Uv g) (s_sv g) ov ->
  let g1 := fst (sstep_v tol g ov nv) in let r := snd (sstep_v tol g ov nv) in
  (r = true <-> excess tol (s_pv g) (s_Uv g) ov nv) /\ (r = true -> g1 = g) /\
  swf g1 dim /\ (forall c tu tv, (c < dim)%nat -> surf_pt g1 c tu tv = surf_pt g c tu tv) /\
  s_pu g1 = s_pu g /\ s_pv g1 = s_pv g /\ s_Uu g1 = s_Uu g /\ s_su g1 = s_su g /\
  (r = false -> s_sv g1 = (s_sv g + eff ov nv)%nat /\ s_Uv g1 = kv_after (s_pv g) (s_Uv g) (s_sv g) ov nv) /\
  (eff ov nv = 0%nat -> g1 = g).
Proof.
  intros W Hpar. cbv zeta. unfold sstep_v.
  pose proof (dir_prep_spec tol (s_pv g) (s_Uv g) (s_sv g) ov nv) as D.
  destruct (dir_prep Rops tol true (s_pv g) (s_Uv g) (s_sv g) ov nv) as [[[[[t s] k] kv]|]|]; cbn [fst snd].
  - destruct D as (-> & H1 & -> & Hn & -> & ->). destruct W as (Wu & Wv & Wd).
    destruct (dir_accept tol (s_pv g) (s_Uv g) (s_sv g) t nv Wv Hpar H1 Hn) as (A1 & A2 & A3 & A4 & A5 & A6). cbv zeta in *.
    set (k := find_span_linear Rops (s_pv g) (s_Uv g) (s_sv g) t) in *. set (s := find_multiplicity Rops tol t (s_Uv g)) in *.
    split; [split; [discriminate|cbn [excess]; lia]|]. split; [discriminate|]. split.
    { split; [exact Wu|]. split; [exact A6|]. cbn [s_su s_sv s_P]. intros i Hi.
      destruct (split2 (s_sv g + nv) (s_su g) i Hi) as (j & i' & Hj & Hi' & ->).
      rewrite (surf_net_v_row Rops g t nv s k i' j) by assumption.
      apply (ki_dim Rops (s_pv g) (s_Uv g) (row_v g i') t nv s k dim); try assumption.
      - unfold row_v. rewrite map_length, seq_length. exact A3.
      - intros q Hq. unfold row_v in *. rewrite map_length, seq_length in Hq. unfold getp at 1. rewrite nth_map_seq by exact Hq. apply Wd. nia.
      - unfold row_v. rewrite map_length, seq_length. exact Hj. }
    split. { intros c tu tv Hc. destruct Wv as (Sv & _ & Lv). apply (surf_insert_v_preserves g t nv s k dim); assumption. }
    repeat split; try reflexivity. cbn [eff]. intro Z. lia.
  - split; [split; [intros _; exact D|reflexivity]|]. split; [reflexivity|]. split; [exact W|]. split; [reflexivity|].
    repeat split; discriminate.
  - split; [split; [discriminate|intro X; exfalso; exact (excess_not_skip _ _ _ _ _ X D)]|]. split; [discriminate|].
    split; [exact W|]. split; [reflexivity|]. repeat split; try reflexivity; [rewrite D; lia|symmetry; apply kv_after_skip; exact D].
Qed.

(* [G] THE SURFACE OPERATION AS A WHOLE (u, v or both; None or count 0 = direction not requested) *)
Theorem insert_knot_surf_correct (tol : R) (g : surf (T:=R)) (ou ov : option R) (nu nv dim : nat) :
  swf g dim -> par_ok tol (s_pu g) (s_Uu g) (s_su g) ou -> par_ok tol (s_pv g) (s_Uv g) (s_sv g) ov ->
  let '(g', raised) := insert_knot_surf Rops tol true g [ou; ov] [Z.of_nat nu; Z.of_nat nv] in
  let xu := excess tol (s_pu g) (s_Uu g) ou nu in let xv := excess tol (s_pv g) (s_Uv g) ov nv in
  (raised = true <-> xu \/ xv) /\
  (raised = true -> (xu -> g' = g) /\ (eff ou nu = 0%nat -> g' = g) /\
     (~ xu -> s_su g' = (s_su g + eff ou nu)%nat /\ s_Uu g' = kv_after (s_pu g) (s_Uu g) (s_su g) ou nu /\
              s_sv g' = s_sv g /\ s_Uv g' = s_Uv g)) /\
  (raised = false ->
     s_su g' = (s_su g + eff ou nu)%nat /\ s_sv g' = (s_sv g + eff ov nv)%nat /\
     s_Uu g' = kv_after (s_pu g) (s_Uu g) (s_su g) ou nu /\ s_Uv g' = kv_after (s_pv g) (s_Uv g) (s_sv g) ov nv) /\
  s_pu g' = s_pu g /\ s_pv g' = s_pv g /\ swf g' dim /\
  forall c tu tv, (c < dim)%nat -> surf_pt g' c tu tv = surf_pt g c tu tv.
Proof.
  intros W Pu Pv. rewrite insert_knot_surf_steps.
  destruct (sstep_u_spec tol g dim ou nu W Pu) as (U1 & U2 & U3 & U4 & U5 & U6 & U7 & U8 & U9 & U12). cbv zeta in *.
  destruct (sstep_u tol g ou nu) as [g1 r1]. cbn [fst snd] in *.
  destruct r1.
  - (* the u direction raises *)
    assert (E : g1 = g) by (apply U2; reflexivity). subst g1. cbv zeta.
    assert (Xu : excess tol (s_pu g) (s_Uu g) ou nu) by (apply U1; reflexivity).
    split; [split; [intros _; left; exact Xu|reflexivity]|].
    split; [intros _; split; [reflexivity|split; [reflexivity|intro N; contradiction]]|].
    split; [discriminate|]. split; [reflexivity|]. split; [reflexivity|]. split; [exact W|]. reflexivity.
  - assert (NXu : ~ excess tol (s_pu g) (s_Uu g) ou nu) by (intro X; apply U1 in X; discriminate).
    destruct (U9 eq_refl) as [U10 U11].
    assert (Pv1 : par_ok tol (s_pv g1) (s_Uv g1) (s_sv g1) ov) by (rewrite U6, U7, U8; exact Pv).
    destruct (sstep_v_spec tol g1 dim ov nv U3 Pv1) as (V1 & V2 & V3 & V4 & V5 & V6 & V7 & V8 & V9 & V12). cbv zeta in *.
    rewrite ?U6, ?U7, ?U8 in V1. rewrite ?U6, ?U7, ?U8 in V9.
    destruct (sstep_v tol g1 ov nv) as [g2 r2]. cbn [fst snd] in *. cbv zeta.
    split.
    { split; [intro R; right; apply V1; exact R|intros [X|X]; [contradiction|apply V1; exact X]]. }
    split.
    { intro R. assert (E : g2 = g1) by (apply V2; exact R). subst g2.
      split; [intro X; contradiction|]. split.
      - intro Z. apply U12. exact Z.
      - intros _. split; [exact U10|]. split; [exact U11|]. split; [exact U8|exact U7]. }
    split.
    { intro R. destruct (V9 R) as [V10 V11]. rewrite V8, V7, V10, V11, U10, U11. repeat split. }
    split; [rewrite V5; exact U5|]. split; [rewrite V6; exact U6|]. split; [exact V3|].
    intros c tu tv Hc. rewrite V4 by exact Hc. apply U4. exact Hc.
Qed.

(* ================================================================== VOLUMES *)
Definition vwf (g : vol (T:=R)) (dim : nat) : Prop :=
  dir_wf (v_pu g) (v_Uu g) (v_su g) /\ dir_wf (v_pv g) (v_Uv g) (v_sv g) /\ dir_wf (v_pw g) (v_Uw g) (v_sw g) /\
  forall i, (i < v_su g * v_sv g * v_sw g)%nat -> length (getp (v_P g) i) = dim.

(* the three stages of insert_knot_vol *)
Definition vstep_u (tol : R) (g : vol (T:=R)) (o : option R) (n : nat) : vol * bool :=
  match dir_prep Rops tol true (v_pu g) (v_Uu g) (v_su g) o n with
  | None => (g, false)
  | Some None => (g, true)
  | Some (Some (u, s, span, kv)) =>
      (mkV (v_pu g) (v_pv g) (v_pw g) kv (v_Uv g) (v_Uw g) (v_su g + n) (v_sv g) (v_sw g) (vol_net_u Rops g u n s span), false)
  end.
Definition vstep_v (tol : R) (g : vol (T:=R)) (o : option R) (n : nat) : vol * bool :=
  match dir_prep Rops tol true (v_pv g) (v_Uv g) (v_sv g) o n with
  | None => (g, false)
  | Some None => (g, true)
  | Some (Some (v, s, span, kv)) =>
      (mkV (v_pu g) (v_pv g) (v_pw g) (v_Uu g) kv (v_Uw g) (v_su g) (v_sv g + n) (v_sw g) (vol_net_v Rops g v n s span), false)
  end.
Definition vstep_w (tol : R) (g : vol (T:=R)) (o : option R) (n : nat) : vol * bool :=
  match dir_prep Rops tol true (v_pw g) (v_Uw g) (v_sw g) o n with
  | None => (g, false)
  | Some None => (g, true)
  | Some (Some (w, s, span, kv)) =>
      (mkV (v_pu g) (v_pv g) (v_pw g) (v_Uu g) (v_Uv g) kv (v_su g) (v_sv g) (v_sw g + n) (vol_net_w Rops g w n s span), false)
  end.

Lemma insert_knot_vol_steps tol g ou ov ow nu nv nw :
  insert_knot_vol Rops tol true g [ou; ov; ow] [Z.of_nat nu; Z.of_nat nv; Z.of_nat nw] =
  let '(g1, r1) := vstep_u tol g ou nu in
  if r1 then (g1, true) else
  let '(g2, r2) := vstep_v tol g1 ov nv in
  if r2 then (g2, true) else vstep_w tol g2 ow nw.
Proof.
  unfold insert_knot_vol. change [Z.of_nat nu; Z.of_nat nv; Z.of_nat nw] with (map Z.of_nat [nu; nv; nw]).
  rewrite (nums_ok_nat 3 [nu; nv; nw]) by reflexivity. cbn [andb negb map]. unfold numat, parat. cbn [nth].
  rewrite !Nat2Z.id. reflexivity.
Qed.

(* what a stage leaves alone *)
Definition vkeep_u (g1 g : vol (T:=R)) : Prop :=
  v_pu g1 = v_pu g /\ v_pv g1 = v_pv g /\ v_pw g1 = v_pw g /\
  v_Uv g1 = v_Uv g /\ v_Uw g1 = v_Uw g /\ v_sv g1 = v_sv g /\ v_sw g1 = v_sw g.
Definition vkeep_v (g1 g : vol (T:=R)) : Prop :=
  v_pu g1 = v_pu g /\ v_pv g1 = v_pv g /\ v_pw g1 = v_pw g /\
  v_Uu g1 = v_Uu g /\ v_Uw g1 = v_Uw g /\ v_su g1 = v_su g /\ v_sw g1 = v_sw g.
Definition vkeep_w (g1 g : vol (T:=R)) : Prop :=
  v_pu g1 = v_pu g /\ v_pv g1 = v_pv g /\ v_pw g1 = v_pw g /\
  v_Uu g1 = v_Uu g /\ v_Uv g1 = v_Uv g /\ v_su g1 = v_su g /\ v_sv g1 = v_sv g.

Lemma vstep_u_spec tol g dim o n : vwf g dim -> par_ok tol (v_pu g) (v_Uu g) (v_su g) o ->
  let g1 := fst (vstep_u tol g o n) in let r := snd (vstep_u tol g o n) in
  (r = true <-> excess tol (v_pu g) (v_Uu g) o n) /\ (r = true -> g1 = g) /\
  vwf g1 dim /\ (forall c tu tv tw, (c < dim)%nat -> vol_pt g1 c tu tv tw = vol_pt g c tu tv tw) /\
  vkeep_u g1 g /\
  (r = false -> v_su g1 = (v_su g + eff o n)%nat /\ v_Uu g1 = kv_after (v_pu g) (v_Uu g) (v_su g) o n) /\
  (eff o n = 0%nat -> g1 = g).
Proof.
  intros W Hpar. cbv zeta. unfold vstep_u.
  pose proof (dir_prep_spec tol (v_pu g) (v_Uu g) (v_su g) o n) as D.
  destruct (dir_prep Rops tol true (v_pu g) (v_Uu g) (v_su g) o n) as [[[[[t s] k] kv]|]|]; cbn [fst snd].
  - destruct D as (-> & H1 & -> & Hn & -> & ->). destruct W as (Wu & Wv & Ww & Wd).
    destruct (dir_accept tol (v_pu g) (v_Uu g) (v_su g) t n Wu Hpar H1 Hn) as (A1 & A2 & A3 & A4 & A5 & A6). cbv zeta in *.
    set (k := find_span_linear Rops (v_pu g) (v_Uu g) (v_su g) t) in *. set (s := find_multiplicity Rops tol t (v_Uu g)) in *.
    split; [split; [discriminate|cbn [excess]; lia]|]. split; [discriminate|]. split.
    { split; [exact A6|]. split; [exact Wv|]. split; [exact Ww|]. cbn [v_su v_sv v_sw v_P]. intros i Hi.
      destruct (split3 (v_sv g) (v_su g + n) (v_sw g) i Hi) as (j & i' & l & Hj & Hi' & Hl & ->).
      rewrite (vol_net_u_fibre Rops g t n s k i' j l) by assumption.
      apply (ki_dim Rops (v_pu g) (v_Uu g) (fib_u g j l) t n s k dim); try assumption.
      - unfold fib_u. rewrite map_length, seq_length. exact A3.
      - intros q Hq. unfold fib_u in *. rewrite map_length, seq_length in Hq. unfold getp at 1. rewrite nth_map_seq by exact Hq.
        apply Wd. apply vidx_lt; assumption.
      - unfold fib_u. rewrite map_length, seq_length. exact Hi'. }
    split. { intros c tu tv tw Hc. destruct Wu as (Su & _ & Lu). apply (vol_insert_u_preserves g t n s k dim); assumption. }
    split; [repeat split|]. split; [intros _; split; reflexivity|]. cbn [eff]. intro Z. lia.
  - split; [split; [intros _; exact D|reflexivity]|]. split; [reflexivity|]. split; [exact W|]. split; [reflexivity|].
    split; [repeat split|]. split; [discriminate|reflexivity].
  - split; [split; [discriminate|intro X; exfalso; exact (excess_not_skip _ _ _ _ _ X D)]|]. split; [discriminate|].
    split; [exact W|]. split; [reflexivity|]. split; [repeat split|].
    split; [intros _; split; [rewrite D; lia|symmetry; apply kv_after_skip; exact D]|reflexivity].
Qed.

Lemma vstep_v_spec tol g dim o n : vwf g dim -> par_ok tol (v_pv g) (v_Uv g) (v_sv g) o ->
  let g1 := fst (vstep_v tol g o n) in let r := snd (vstep_v tol g o n) in
  (r = true <-> excess tol (v_pv g) (v_Uv g) o n) /\ (r = true -> g1 = g) /\
  vwf g1 dim /\ (forall c tu tv tw, (c < dim)%nat -> vol_pt g1 c tu tv tw = vol_pt g c tu tv tw) /\
  vkeep_v g1 g /\
  (r = false -> v_sv g1 = (v_sv g + eff o n)%nat /\ v_Uv g1 = kv_after (v_pv g) (v_Uv g) (v_sv g) o n) /\
  (eff o n = 0%nat -> g1 = g).
Proof.
  intros W Hpar. cbv zeta. unfold vstep_v.
  pose proof (dir_prep_spec tol (v_pv g) (v_Uv g) (v_sv g) o n) as D.
  destruct (dir_prep Rops tol true (v_pv g) (v_Uv g) (v_sv g) o n) as [[[[[t s] k] kv]|]|]; cbn [fst snd].
  - destruct D as (-> & H1 & -> & Hn & -> & ->). destruct W as (Wu & Wv & Ww & Wd).
    destruct (dir_accept tol (v_pv g) (v_Uv g) (v_sv g) t n Wv Hpar H1 Hn) as (A1 & A2 & A3 & A4 & A5 & A6). cbv zeta in *.
    set (k := find_span_linear Rops (v_pv g) (v_Uv g) (v_sv g) t) in *. set (s := find_multiplicity Rops tol t (v_Uv g)) in *.
    split; [split; [discriminate|cbn [excess]; lia]|]. split; [discriminate|]. split.
    { split; [exact Wu|]. split; [exact A6|]. split; [exact Ww|]. cbn [v_su v_sv v_sw v_P]. intros i Hi.
      destruct (split3 (v_sv g + n) (v_su g) (v_sw g) i Hi) as (j & i' & l & Hj & Hi' & Hl & ->).
      rewrite (vol_net_v_fibre Rops g t n s k i' j l) by assumption.
      apply (ki_dim Rops (v_pv g) (v_Uv g) (fib_v g i' l) t n s k dim); try assumption.
      - unfold fib_v. rewrite map_length, seq_length. exact A3.
      - intros q Hq. unfold fib_v in *. rewrite map_length, seq_length in Hq. unfold getp at 1. rewrite nth_map_seq by exact Hq.
        apply Wd. apply vidx_lt; assumption.
      - unfold fib_v. rewrite map_length, seq_length. exact Hj. }
    split. { intros c tu tv tw Hc. destruct Wv as (Sv & _ & Lv). apply (vol_insert_v_preserves g t n s k dim); assumption. }
    split; [repeat split|]. split; [intros _; split; reflexivity|]. cbn [eff]. intro Z. lia.
  - split; [split; [intros _; exact D|reflexivity]|]. split; [reflexivity|]. split; [exact W|]. split; [reflexivity|].
    split; [repeat split|]. split; [discriminate|reflexivity].
  - split; [split; [discriminate|intro X; exfalso; exact (excess_not_skip _ _ _ _ _ X D)]|]. split; [discriminate|].
    split; [exact W|]. split; [reflexivity|]. split; [repeat split|].
    split; [intros _; split; [rewrite D; lia|symmetry; apply kv_after_skip; exact D]|reflexivity].
Qed.

Lemma vstep_w_spec tol g dim o n : vwf g dim -> par_ok tol (v_pw g) (v_Uw g) (v_sw g) o ->
  let g1 := fst (vstep_w tol g o n) in let r := snd (vstep_w tol g o n) in
  (r = true <-> excess tol (v_pw g) (v_Uw g) o n) /\ (r = true -> g1 = g) /\
  vwf g1 dim /\ (forall c tu tv tw, (c < dim)%nat -> vol_pt g1 c tu tv tw = vol_pt g c tu tv tw) /\
  vkeep_w g1 g /\
  (r = false -> v_sw g1 = (v_sw g + eff o n)%nat /\ v_Uw g1 = kv_after (v_pw g) (v_Uw g) (v_sw g) o n) /\
  (eff o n = 0%nat -> g1 = g).
Proof.
  intros W Hpar. cbv zeta. unfold vstep_w.
  pose proof (dir_prep_spec tol (v_pw g) (v_Uw g) (v_sw g) o n) as D.
  destruct (dir_prep Rops tol true (v_pw g) (v_Uw g) (v_sw g) o n) as [[[[[t s] k] kv]|]|]; cbn [fst snd].
  - destruct D as (-> & H1 & -> & Hn & -> & ->). destruct W as (Wu & Wv & Ww & Wd).
    destruct (dir_accept tol (v_pw g) (v_Uw g) (v_sw g) t n Ww Hpar H1 Hn) as (A1 & A2 & A3 & A4 & A5 & A6). cbv zeta in *.
    set (k := find_span_linear Rops (v_pw g) (v_Uw g) (v_sw g) t) in *. set (s := find_multiplicity Rops tol t (v_Uw g)) in *.
    split; [split; [discriminate|cbn [excess]; lia]|]. split; [discriminate|]. split.
    { split; [exact Wu|]. split; [exact Wv|]. split; [exact A6|]. cbn [v_su v_sv v_sw v_P]. intros i Hi.
      destruct (split3 (v_sv g) (v_su g) (v_sw g + n) i Hi) as (j & i' & l & Hj & Hi' & Hl & ->).
      rewrite (vol_net_w_fibre Rops g t n s k i' j l) by assumption.
      apply (ki_dim Rops (v_pw g) (v_Uw g) (fib_w g i' j) t n s k dim); try assumption.
      - unfold fib_w. rewrite map_length, seq_length. exact A3.
      - intros q Hq. unfold fib_w in *. rewrite map_length, seq_length in Hq. unfold getp at 1. rewrite nth_map_seq by exact Hq.
        apply Wd. apply vidx_lt; assumption.
      - unfold fib_w. rewrite map_length, seq_length. exact Hl. }
    split. { intros c tu tv tw Hc. destruct Ww as (Sw & _ & Lw). apply (vol_insert_w_preserves g t n s k dim); assumption. }
    split; [repeat split|]. split; [intros _; split; reflexivity|]. cbn [eff]. intro Z. lia.
  - split; [split; [intros _; exact D|reflexivity]|]. split; [reflexivity|]. split; [exact W|]. split; [reflexivity|].
    split; [repeat split|]. split; [discriminate|reflexivity].
  - split; [split; [discriminate|intro X; exfalso; exact (excess_not_skip _ _ _ _ _ X D)]|]. split; [discriminate|].
    split; [exact W|]. split; [reflexivity|]. split; [repeat split|].
    split; [intros _; split; [rewrite D; lia|symmetry; apply kv_after_skip; exact D]|reflexivity].
Qed.

(* [G] THE VOLUME OPERATION AS A WHOLE (any subset of u, v, w; None or count 0 = direction not requested) *)
Theorem insert_knot_vol_correct (tol : R) (g : vol (T:=R)) (ou ov ow : option R) (nu nv nw dim : nat) :
  vwf g dim -> par_ok tol (v_pu g) (v_Uu g) (v_su g) ou -> par_ok tol (v_pv g) (v_Uv g) (v_sv g) ov ->
  par_ok tol (v_pw g) (v_Uw g) (v_sw g) ow ->
  let '(g', raised) := insert_knot_vol Rops tol true g [ou; ov; ow] [Z.of_nat nu; Z.of_nat nv; Z.of_nat nw] in
  let xu := excess tol (v_pu g) (v_Uu g) ou nu in let xv := excess tol (v_pv g) (v_Uv g) ov nv in
  let xw := excess tol (v_pw g) (v_Uw g) ow nw in
  (raised = true <-> xu \/ xv \/ xw) /\
  (raised = true -> (xu -> g' = g) /\ (eff ou nu = 0%nat -> xv -> g' = g) /\
                    (eff ou nu = 0%nat -> eff ov nv = 0%nat -> g' = g)) /\
  (raised = false ->
     v_su g' = (v_su g + eff ou nu)%nat /\ v_sv g' = (v_sv g + eff ov nv)%nat /\ v_sw g' = (v_sw g + eff ow nw)%nat /\
     v_Uu g' = kv_after (v_pu g) (v_Uu g) (v_su g) ou nu /\ v_Uv g' = kv_after (v_pv g) (v_Uv g) (v_sv g) ov nv /\
     v_Uw g' = kv_after (v_pw g) (v_Uw g) (v_sw g) ow nw) /\
  v_pu g' = v_pu g /\ v_pv g' = v_pv g /\ v_pw g' = v_pw g /\ vwf g' dim /\
  forall c tu tv tw, (c < dim)%nat -> vol_pt g' c tu tv tw = vol_pt g c tu tv tw.
Proof.
  intros W Pu Pv Pw. rewrite insert_knot_vol_steps.
  destruct (vstep_u_spec tol g dim ou nu W Pu) as (U1 & U2 & U3 & U4 & UK & U9 & U12). cbv zeta in *.
  destruct (vstep_u tol g ou nu) as [g1 r1]. cbn [fst snd] in *.
  destruct r1.
  { (* u raises *)
    assert (E : g1 = g) by (apply U2; reflexivity). subst g1. cbv zeta.
    assert (Xu : excess tol (v_pu g) (v_Uu g) ou nu) by (apply U1; reflexivity).
    split; [split; [intros _; left; exact Xu|reflexivity]|].
    split; [intros _; repeat split|]. split; [discriminate|]. repeat split; try reflexivity; apply W. }
  assert (NXu : ~ excess tol (v_pu g) (v_Uu g) ou nu) by (intro X; apply U1 in X; discriminate).
  destruct (U9 eq_refl) as [U10 U11]. destruct UK as (K1 & K2 & K3 & K4 & K5 & K6 & K7).
  assert (Pv1 : par_ok tol (v_pv g1) (v_Uv g1) (v_sv g1) ov) by (rewrite K2, K4, K6; exact Pv).
  destruct (vstep_v_spec tol g1 dim ov nv U3 Pv1) as (V1 & V2 & V3 & V4 & VK & V9 & V12). cbv zeta in *.
  rewrite K2, K4 in V1. rewrite K2, K4, K6 in V9.
  destruct (vstep_v tol g1 ov nv) as [g2 r2]. cbn [fst snd] in *.
  destruct r2.
  { (* v raises *)
    assert (E : g2 = g1) by (apply V2; reflexivity). subst g2. cbv zeta.
    assert (Xv : excess tol (v_pv g) (v_Uv g) ov nv) by (apply V1; reflexivity).
    split; [split; [intros _; right; left; exact Xv|reflexivity]|].
    split. { intros _. split; [intro X; contradiction|]. split; [intros Z _; apply U12; exact Z|intros Z _; apply U12; exact Z]. }
    split; [discriminate|]. split; [exact K1|]. split; [exact K2|]. split; [exact K3|]. split; [exact U3|exact U4]. }
  assert (NXv : ~ excess tol (v_pv g) (v_Uv g) ov nv) by (intro X; apply V1 in X; discriminate).
  destruct (V9 eq_refl) as [V10 V11]. destruct VK as (L1 & L2 & L3 & L4 & L5 & L6 & L7).
  assert (Pw2 : par_ok tol (v_pw g2) (v_Uw g2) (v_sw g2) ow) by (rewrite L3, L5, L7, K3, K5, K7; exact Pw).
  destruct (vstep_w_spec tol g2 dim ow nw V3 Pw2) as (W1 & W2 & W3 & W4 & WK & W9 & W12). cbv zeta in *.
  rewrite L3, L5, K3, K5 in W1. rewrite L3, L5, L7, K3, K5, K7 in W9.
  destruct (vstep_w tol g2 ow nw) as [g3 r3]. cbn [fst snd] in *. cbv zeta.
  destruct WK as (M1 & M2 & M3 & M4 & M5 & M6 & M7).
  split.
  { split; [intro R; right; right; apply W1; exact R|intros [X|[X|X]]; [contradiction|contradiction|apply W1; exact X]]. }
  split.
  { intro R. assert (E : g3 = g2) by (apply W2; exact R). subst g3.
    split; [intro X; contradiction|]. split; [intros _ X; contradiction|].
    intros Zu Zv. rewrite (V12 Zv). apply U12. exact Zu. }
  split.
  { intro R. destruct (W9 R) as [W10 W11].
    rewrite M6, L6, U10. rewrite M7, V10. rewrite W10. rewrite M4, L4, U11. rewrite M5, V11. rewrite W11. repeat split. }
  split; [rewrite M1, L1; exact K1|]. split; [rewrite M2, L2; exact K2|]. split; [rewrite M3, L3; exact K3|].
  split; [exact W3|]. intros c tu tv tw Hc. rewrite W4, V4 by exact Hc. apply U4. exact Hc.
Qed.

(* ------------------------------------------------------------------ single-direction readings *)
(* u only (the v slot empty): rejected exactly when nu > pu - multiplicity, and then the surface is the old one *)
Corollary insert_knot_surf_u_correct (tol : R) (g : surf (T:=R)) (t : R) (nu nv dim : nat) :
  swf g dim -> par_ok tol (s_pu g) (s_Uu g) (s_su g) (Some t) -> (1 <= nu)%nat ->
  let '(g', raised) := insert_knot_surf Rops tol true g [Some t; None] [Z.of_nat nu; Z.of_nat nv] in
  (raised = true <-> (s_pu g - find_multiplicity Rops tol t (s_Uu g) < nu)%nat) /\ (raised = true -> g' = g) /\
  (raised = false -> s_su g' = (s_su g + nu)%nat /\ s_sv g' = s_sv g /\ s_Uv g' = s_Uv g /\
     s_Uu g' = knot_insertion_kv (s_Uu g) t (find_span_linear Rops (s_pu g) (s_Uu g) (s_su g) t) nu) /\
  s_pu g' = s_pu g /\ s_pv g' = s_pv g /\
  forall c tu tv, (c < dim)%nat -> surf_pt g' c tu tv = surf_pt g c tu tv.
Proof.
  intros W P H1. pose proof (insert_knot_surf_correct tol g (Some t) None nu nv dim W P I) as H.
  destruct (insert_knot_surf Rops tol true g [Some t; None] [Z.of_nat nu; Z.of_nat nv]) as [g' raised]. cbv zeta in H.
  cbn [excess eff kv_after] in H. destruct H as (A & B & C & D & E & _ & F).
  split; [rewrite A; split; [intros [[_ X]|[]]; exact X|intro X; left; split; assumption]|].
  split; [intro R; apply (proj1 (B R)); apply A in R; destruct R as [X|[]]; exact X|].
  split; [intro R; destruct (C R) as (C1 & C2 & C3 & C4); rewrite C2, Nat.add_0_r; repeat split; assumption|].
  split; [exact D|]. split; [exact E|exact F].
Qed.

Corollary insert_knot_surf_v_correct (tol : R) (g : surf (T:=R)) (t : R) (nu nv dim : nat) :
  swf g dim -> par_ok tol (s_pv g) (s_Uv g) (s_sv g) (Some t) -> (1 <= nv)%nat ->
  let '(g', raised) := insert_knot_surf Rops tol true g [None; Some t] [Z.of_nat nu; Z.of_nat nv] in
  (raised = true <-> (s_pv g - find_multiplicity Rops tol t (s_Uv g) < nv)%nat) /\ (raised = true -> g' = g) /\
  (raised = false -> s_sv g' = (s_sv g + nv)%nat /\ s_su g' = s_su g /\ s_Uu g' = s_Uu g /\
     s_Uv g' = knot_insertion_kv (s_Uv g) t (find_span_linear Rops (s_pv g) (s_Uv g) (s_sv g) t) nv) /\
  s_pu g' = s_pu g /\ s_pv g' = s_pv g /\
  forall c tu tv, (c < dim)%nat -> surf_pt g' c tu tv = surf_pt g c tu tv.
Proof.
  intros W P H1. pose proof (insert_knot_surf_correct tol g None (Some t) nu nv dim W I P) as H.
  destruct (insert_knot_surf Rops tol true g [None; Some t] [Z.of_nat nu; Z.of_nat nv]) as [g' raised]. cbv zeta in H.
  cbn [excess eff kv_after] in H. destruct H as (A & B & C & D & E & _ & F).
  split; [rewrite A; split; [intros [[]|[_ X]]; exact X|intro X; right; split; assumption]|].
  split; [intro R; apply (proj1 (proj2 (B R))); reflexivity|].
  split; [intro R; destruct (C R) as (C1 & C2 & C3 & C4); rewrite C1, Nat.add_0_r; repeat split; assumption|].
  split; [exact D|]. split; [exact E|exact F].
Qed.

(* volumes, one direction requested: rejected exactly when the count exceeds degree - multiplicity, object unchanged *)
Corollary insert_knot_vol_u_correct (tol : R) (g : vol (T:=R)) (t : R) (nu nv nw dim : nat) :
  vwf g dim -> par_ok tol (v_pu g) (v_Uu g) (v_su g) (Some t) -> (1 <= nu)%nat ->
  let '(g', raised) := insert_knot_vol Rops tol true g [Some t; None; None] [Z.of_nat nu; Z.of_nat nv; Z.of_nat nw] in
  (raised = true <-> (v_pu g - find_multiplicity Rops tol t (v_Uu g) < nu)%nat) /\ (raised = true -> g' = g) /\
  (raised = false -> v_su g' = (v_su g + nu)%nat /\ v_sv g' = v_sv g /\ v_sw g' = v_sw g /\ v_Uv g' = v_Uv g /\ v_Uw g' = v_Uw g /\
     v_Uu g' = knot_insertion_kv (v_Uu g) t (find_span_linear Rops (v_pu g) (v_Uu g) (v_su g) t) nu) /\
  v_pu g' = v_pu g /\ v_pv g' = v_pv g /\ v_pw g' = v_pw g /\
  forall c tu tv tw, (c < dim)%nat -> vol_pt g' c tu tv tw = vol_pt g c tu tv tw.
Proof.
  intros W P H1. pose proof (insert_knot_vol_correct tol g (Some t) None None nu nv nw dim W P I I) as H.
  destruct (insert_knot_vol Rops tol true g [Some t; None; None] [Z.of_nat nu; Z.of_nat nv; Z.of_nat nw]) as [g' raised]. cbv zeta in H.
  cbn [excess eff kv_after] in H. destruct H as (A & B & C & D & E & E' & _ & F).
  split; [rewrite A; split; [intros [[_ X]|[[]|[]]]; exact X|intro X; left; split; assumption]|].
  split; [intro R; apply (proj1 (B R)); apply A in R; destruct R as [X|[[]|[]]]; exact X|].
  split; [intro R; destruct (C R) as (C1 & C2 & C3 & C4 & C5 & C6); rewrite C2, C3, !Nat.add_0_r; repeat split; assumption|].
  split; [exact D|]. split; [exact E|]. split; [exact E'|exact F].
Qed.

Corollary insert_knot_vol_v_correct (tol : R) (g : vol (T:=R)) (t : R) (nu nv nw dim : nat) :
  vwf g dim -> par_ok tol (v_pv g) (v_Uv g) (v_sv g) (Some t) -> (1 <= nv)%nat ->
  let '(g', raised) := insert_knot_vol Rops tol true g [None; Some t; None] [Z.of_nat nu; Z.of_nat nv; Z.of_nat nw] in
  (raised = true <-> (v_pv g - find_multiplicity Rops tol t (v_Uv g) < nv)%nat) /\ (raised = true -> g' = g) /\
  (raised = false -> v_sv g' = (v_sv g + nv)%nat /\ v_su g' = v_su g /\ v_sw g' = v_sw g /\ v_Uu g' = v_Uu g /\ v_Uw g' = v_Uw g /\
     v_Uv g' = knot_insertion_kv (v_Uv g) t (find_span_linear Rops (v_pv g) (v_Uv g) (v_sv g) t) nv) /\
  v_pu g' = v_pu g /\ v_pv g' = v_pv g /\ v_pw g' = v_pw g /\
  forall c tu tv tw, (c < dim)%nat -> vol_pt g' c tu tv tw = vol_pt g c tu tv tw.
Proof.
  intros W P H1. pose proof (insert_knot_vol_correct tol g None (Some t) None nu nv nw dim W I P I) as H.
  destruct (insert_knot_vol Rops tol true g [None; Some t; None] [Z.of_nat nu; Z.of_nat nv; Z.of_nat nw]) as [g' raised]. cbv zeta in H.
  cbn [excess eff kv_after] in H. destruct H as (A & B & C & D & E & E' & _ & F).
  split; [rewrite A; split; [intros [[]|[[_ X]|[]]]; exact X|intro X; right; left; split; assumption]|].
  split; [intro R; apply (proj1 (proj2 (B R))); [reflexivity|]; apply A in R; destruct R as [[]|[X|[]]]; exact X|].
  split; [intro R; destruct (C R) as (C1 & C2 & C3 & C4 & C5 & C6); rewrite C1, C3, !Nat.add_0_r; repeat split; assumption|].
  split; [exact D|]. split; [exact E|]. split; [exact E'|exact F].
Qed.

Corollary insert_knot_vol_w_correct (tol : R) (g : vol (T:=R)) (t : R) (nu nv nw dim : nat) :
  vwf g dim -> par_ok tol (v_pw g) (v_Uw g) (v_sw g) (Some t) -> (1 <= nw)%nat ->
  let '(g', raised) := insert_knot_vol Rops tol true g [None; None; Some t] [Z.of_nat nu; Z.of_nat nv; Z.of_nat nw] in
  (raised = true <-> (v_pw g - find_multiplicity Rops tol t (v_Uw g) < nw)%nat) /\ (raised = true -> g' = g) /\
  (raised = false -> v_sw g' = (v_sw g + nw)%nat /\ v_su g' = v_su g /\ v_sv g' = v_sv g /\ v_Uu g' = v_Uu g /\ v_Uv g' = v_Uv g /\
     v_Uw g' = knot_insertion_kv (v_Uw g) t (find_span_linear Rops (v_pw g) (v_Uw g) (v_sw g) t) nw) /\
  v_pu g' = v_pu g /\ v_pv g' = v_pv g /\ v_pw g' = v_pw g /\
  forall c tu tv tw, (c < dim)%nat -> vol_pt g' c tu tv tw = vol_pt g c tu tv tw.
Proof.
  intros W P H1. pose proof (insert_knot_vol_correct tol g None None (Some t) nu nv nw dim W I I P) as H.
  destruct (insert_knot_vol Rops tol true g [None; None; Some t] [Z.of_nat nu; Z.of_nat nv; Z.of_nat nw]) as [g' raised]. cbv zeta in H.
  cbn [excess eff kv_after] in H. destruct H as (A & B & C & D & E & E' & _ & F).
  split; [rewrite A; split; [intros [[]|[[]|[_ X]]]; exact X|intro X; right; right; split; assumption]|].
  split; [intro R; apply (proj2 (proj2 (B R))); reflexivity|].
  split; [intro R; destruct (C R) as (C1 & C2 & C3 & C4 & C5 & C6); rewrite C1, C2, !Nat.add_0_r; repeat split; assumption|].
  split; [exact D|]. split; [exact E|]. split; [exact E'|exact F].
Qed.

Print Assumptions insert_knot_surf_correct.
Print Assumptions insert_knot_vol_correct.
