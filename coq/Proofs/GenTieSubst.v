(* Ties: generated linalg.forward_substitution / backward_substitution = Model/LinAlg.v, under sum_laws K (the Python
   code sums from the left with sum([...]), the model from the right; backward substitution also adds the term
   u[i][i] * x[i] with x[i] = 0).  In these two functions division is translated CHECKED (spec: checked_div), because
   the model represents their ZeroDivisionError.  The theorems cover the non-raising case: rows long enough and all
   pivots non-zero. *)
From Coq Require Import List ZArith Arith Bool Lia QArith.
From NV Require Import Scalar.Ops Model.Common Model.LinAlg Gen.Prelude Gen.LinalgInternal Gen.Linalg
  Proofs.GenTieLib Proofs.GenTieBasisOne Proofs.GenTieDersLib Proofs.GenTieSums.
Import ListNotations.
Local Open Scope nat_scope.

Lemma fold_left_map_S {A} (g : A -> nat -> A) (l : list nat) a :
  fold_left g (map S l) a = fold_left (fun acc k => g acc (S k)) l a.
Proof. revert a; induction l; simpl; auto. Qed.

(* lock step over range(0, n) given as a list of naturals *)
Lemma gfor_fold_seq0 {St St'} (R : nat -> St -> St' -> Prop) (f : nat -> St -> gres St) (g : St' -> nat -> St') :
  forall n a,
  (forall i s s', a <= i < a + n -> R (i - a) s s' -> exists t, f i s = GOk t /\ R (S (i - a)) t (g s' i)) ->
  forall s s', R O s s' -> exists t, gfor (seq a n) f s = GOk t /\ R n t (fold_left g (seq a n) s').
Proof.
  intros n a Hf s s' H0.
  assert (G : forall n a k s s', (forall i s s', a <= i < a + n -> R (k + (i - a)) s s' -> exists t, f i s = GOk t /\ R (S (k + (i - a))) t (g s' i)) ->
              R k s s' -> exists t, gfor (seq a n) f s = GOk t /\ R (k + n) t (fold_left g (seq a n) s')).
  { clear. induction n; intros a k s s' Hf HR; simpl.
    - rewrite Nat.add_0_r. eauto.
    - destruct (Hf a s s') as (t & E & Ht); [lia|now rewrite Nat.sub_diag, Nat.add_0_r|].
      rewrite E. simpl. rewrite Nat.sub_diag, Nat.add_0_r in Ht.
      destruct (IHn (S a) (S k) t (g s' a)) as (t' & E' & Ht'); auto.
      + intros i s1 s1' Hi HR1. replace (S k + (i - S a)) with (k + (i - a)) in * by lia. apply Hf; auto. lia.
      + exists t'. split; auto. now rewrite <- Nat.add_succ_comm. }
  destruct (G n a O s s') as (t & E & Ht); auto.
  exists t. auto.
Qed.

Section Tie.
Context {T : Type} (K : ops T) (LW : sum_laws K).
Notation "0" := (o0 K).
Notation g2 := (get2 K).

Lemma odiv_chk_ok x d : oeqb K d 0 = false -> odiv_chk K x d = GOk (odiv K x d).
Proof. intros H. unfold odiv_chk. now rewrite H. Qed.

Lemma upd_mid' {A} (done : list A) x l i v : length done = i -> upd (done ++ x :: l) i v = done ++ v :: l.
Proof. intros <-. induction done; simpl; auto. now rewrite IHdone. Qed.

Lemma upd_repeat_last {A} (d v : A) n : upd (repeat d (S n)) n v = repeat d n ++ [v].
Proof. induction n; simpl; auto. simpl in IHn. now rewrite IHn. Qed.

Lemma upd_app_r {A} (l1 l2 : list A) i x : upd (l1 ++ l2) (length l1 + i) x = l1 ++ upd l2 i x.
Proof. induction l1; simpl; auto. now rewrite IHl1. Qed.

(* ================= forward substitution ================= *)
(* wf: b non-empty, row i of L has more than i entries, no zero on the diagonal *)
Theorem forward_substitution_ok (L : list (list T)) (b : list T) :
  b <> [] ->
  (forall i, i < length b -> i < length (nth i L [])) ->
  (forall i, i < length b -> oeqb K (g2 L i i) 0 = false) ->
  exists y, LinAlg.forward_substitution K L b = Ok y /\ Linalg.forward_substitution K L b = GOk y /\ length y = length b.
Proof.
  intros Hne Hrow Hpiv. unfold Linalg.forward_substitution, LinAlg.forward_substitution.
  destruct b as [|b0 br] eqn:Eb; [congruence|]. rewrite <- Eb in *. clear Hne.
  set (q := length b) in *. assert (Hq : 1 <= q) by (subst q; rewrite Eb; simpl; lia).
  assert (Hf : forallb (fun i => Nat.ltb i (length (nth i L []))) (seq O q) = true).
  { apply forallb_forall. intros i Hi. apply in_seq in Hi. apply Nat.ltb_lt. apply Hrow. lia. }
  rewrite Hf. unfold zlen. fold q. rewrite map_const_zrange, Nat2Z.id.
  assert (HL : forall i, i < q -> i < length L).
  { intros i Hi. destruct (Nat.lt_ge_cases i (length L)); auto.
    specialize (Hrow i Hi). rewrite nth_overflow in Hrow by lia. simpl in Hrow. lia. }
  (* i = 0 *)
  rewrite (znth_Z b 0%Z 0) by (fold q; lia). cbn [gbind]. change (Z.to_nat 0) with O.
  rewrite (znth_Z L 0%Z []) by (specialize (HL O); lia). cbn [gbind]. change (Z.to_nat 0) with O.
  rewrite (znth_Z (nth O L []) 0%Z 0) by (specialize (Hrow O); lia). cbn [gbind]. change (Z.to_nat 0) with O.
  fold (g2 L O O). rewrite odiv_chk_ok by (apply Hpiv; lia). cbn [gbind].
  rewrite zset_Z by (rewrite repeat_length; lia). cbn [gbind]. change (Z.to_nat 0) with O.
  replace (Z.of_nat q) with (Z.of_nat (S (q - 1))) by lia. rewrite zrange_1_nat.
  (* the model's first step *)
  replace (seq O q) with (O :: seq 1 (q - 1)) by (destruct q; [lia|]; simpl; now rewrite Nat.sub_0_r).
  cbn [fold_left]. unfold fwd_step at 2. cbn [res_bind]. unfold LinAlg.isz. rewrite (Hpiv O) by lia.
  unfold sumr at 1. cbn [seq map sumT app]. rewrite (sl_div_sub_0 K LW).
  set (v0 := odiv K (nth O b 0) (g2 L O O)).
  replace (upd (repeat 0 q) O v0) with ([v0] ++ repeat 0 (q - 1)) by (destruct q; [lia|]; simpl; now rewrite Nat.sub_0_r).
  (* the loop *)
  match goal with |- context [gfor (map Z.of_nat (seq 1 (q - 1))) ?ff ?s0] =>
    destruct (gfor_seq_fold (fun i (Y : list T) (acc : res (list T)) =>
                  exists y, acc = Ok y /\ Y = y ++ repeat 0 (q - i) /\ length y = i) ff (fwd_step K L b) (q - 1) 1)
      with (s := s0) (s' := Ok [v0]) as (YF & EF & (yF & EyF & EYF & LyF))
  end.
  { intros i Y acc Hi (y & -> & -> & Ly). cbn [gbind].
    assert (Hi' : i < q) by lia. pose proof (Hrow i Hi') as Hri. pose proof (HL i Hi') as HLi.
    rewrite (znth_Z b _ 0) by (fold q; lia). cbn [gbind]. rewrite Nat2Z.id.
    rewrite zrange_0_nat.
    rewrite (gmapM_ok _ (fun j : Z => omul K (g2 L i (Z.to_nat j)) (nth (Z.to_nat j) y 0))).
    2:{ intros j Hj. apply in_map_iff in Hj. destruct Hj as (j' & <- & Hj'). apply in_seq in Hj'.
        rewrite (znth_Z L _ []) by lia. cbn [gbind]. rewrite Nat2Z.id.
        rewrite (znth_Z (nth i L []) _ 0) by lia. cbn [gbind].
        rewrite (znth_Z (y ++ repeat 0 (q - i)) _ 0) by (rewrite app_length, repeat_length; lia). cbn [gbind].
        rewrite !Nat2Z.id. rewrite app_nth1 by lia. reflexivity. }
    cbn [gbind]. rewrite map_map.
    rewrite (map_ext _ (fun j => omul K (g2 L i j) (nth j y 0))) by (intros j; now rewrite Nat2Z.id).
    rewrite (gsum_sumT K LW). fold (sumr K O i (fun j => omul K (g2 L i j) (nth j y 0))).
    rewrite zset_Z by (rewrite app_length, repeat_length; lia). cbn [gbind]. rewrite Nat2Z.id.
    rewrite (znth_Z _ (Z.of_nat i) 0) by (rewrite upd_length, app_length, repeat_length; lia). cbn [gbind]. rewrite Nat2Z.id.
    rewrite nth_upd_same by (rewrite app_length, repeat_length; lia).
    rewrite (znth_Z L _ []) by lia. cbn [gbind]. rewrite Nat2Z.id.
    rewrite (znth_Z (nth i L []) _ 0) by lia. cbn [gbind]. rewrite Nat2Z.id. fold (g2 L i i).
    rewrite odiv_chk_ok by (apply Hpiv; lia). cbn [gbind].
    rewrite zset_Z by (rewrite upd_length, app_length, repeat_length; lia). cbn [gbind]. rewrite Nat2Z.id.
    eexists. split; [reflexivity|].
    unfold fwd_step. cbn [res_bind]. unfold LinAlg.isz. rewrite (Hpiv i) by lia.
    eexists. split; [reflexivity|]. split; [|rewrite app_length; simpl; lia].
    replace (q - i) with (S (q - S i)) by lia. cbn [repeat].
    rewrite !(upd_mid' y) by exact Ly. rewrite <- app_assoc. reflexivity. }
  { exists [v0]. split; auto. }
  rewrite EF. cbn [gbind]. rewrite EyF. exists yF. split; [reflexivity|]. split; [|lia]. f_equal. rewrite EYF.
  replace (q - (1 + (q - 1))) with O by lia. cbn [repeat]. apply app_nil_r.
Qed.

Theorem forward_substitution_tie (L : list (list T)) (b : list T) :
  b <> [] ->
  (forall i, i < length b -> i < length (nth i L [])) ->
  (forall i, i < length b -> oeqb K (g2 L i i) 0 = false) ->
  Linalg.forward_substitution K L b = res_to_gres (fun x => x) ValueError IndexError (LinAlg.forward_substitution K L b).
Proof. intros H1 H2 H3. destruct (forward_substitution_ok L b H1 H2 H3) as (y & -> & -> & _). reflexivity. Qed.

(* ================= backward substitution ================= *)
(* wf: y non-empty, every row of U (up to len(y)) has at least len(y) entries, no zero on the diagonal *)
Theorem backward_substitution_ok (U : list (list T)) (y : list T) :
  y <> [] ->
  (forall i, i < length y -> length y <= length (nth i U [])) ->
  (forall i, i < length y -> oeqb K (g2 U i i) 0 = false) ->
  exists x, LinAlg.backward_substitution K U y = Ok x /\ Linalg.backward_substitution K U y = GOk x /\ length x = length y.
Proof.
  intros Hne Hrow Hpiv. unfold Linalg.backward_substitution, LinAlg.backward_substitution.
  destruct y as [|y0 yr] eqn:Ey; [congruence|]. rewrite <- Ey in *. clear Hne.
  set (q := length y) in *. assert (Hq : 1 <= q) by (subst q; rewrite Ey; simpl; lia).
  assert (Hf : forallb (fun i => Nat.leb q (length (nth i U []))) (seq O q) = true).
  { apply forallb_forall. intros i Hi. apply in_seq in Hi. apply Nat.leb_le. apply Hrow. lia. }
  rewrite Hf. unfold zlen. fold q. rewrite map_const_zrange, Nat2Z.id.
  assert (HU : forall i, i < q -> i < length U).
  { intros i Hi. destruct (Nat.lt_ge_cases i (length U)); auto.
    specialize (Hrow i Hi). rewrite nth_overflow in Hrow by lia. simpl in Hrow. lia. }
  (* i = q - 1 *)
  rewrite (znth_Z y _ 0) by (fold q; lia). cbn [gbind].
  rewrite (znth_Z U _ []) by (specialize (HU (q - 1)); lia). cbn [gbind].
  replace (Z.to_nat (Z.of_nat q - 1)) with (q - 1) by lia.
  rewrite (znth_Z (nth (q - 1) U []) _ 0) by (specialize (Hrow (q - 1)); lia). cbn [gbind].
  replace (Z.to_nat (Z.of_nat q - 1)) with (q - 1) by lia.
  fold (g2 U (q - 1) (q - 1)). rewrite odiv_chk_ok by (apply Hpiv; lia). cbn [gbind].
  rewrite zset_Z by (rewrite repeat_length; lia). cbn [gbind].
  replace (Z.to_nat (Z.of_nat q - 1)) with (q - 1) by lia.
  rewrite zrange_down. replace (Z.to_nat (Z.of_nat q - 2 - -1)) with (q - 1) by lia.
  rewrite gfor_map.
  (* the model, as a loop from the last row *)
  rewrite fold_right_seq_rev.
  replace (seq O q) with (O :: seq 1 (q - 1)) by (destruct q; [lia|]; simpl; now rewrite Nat.sub_0_r).
  cbn [fold_left]. rewrite Nat.sub_0_r. unfold bwd_step at 2. cbn [res_bind]. unfold LinAlg.isz. rewrite (Hpiv (q - 1)) by lia.
  unfold sumr at 1. cbn [length seq map sumT]. rewrite (sl_div_sub_0 K LW).
  set (v0 := odiv K (nth (q - 1) y 0) (g2 U (q - 1) (q - 1))).
  replace (repeat 0 q) with (repeat 0 (S (q - 1))) by (f_equal; lia). rewrite upd_repeat_last.
  rewrite <- seq_shift, fold_left_map_S.
  (* the loop: step k handles row q - 2 - k; x = the entries already computed *)
  match goal with |- context [gfor (seq O (q - 1)) ?ff ?s0] =>
    destruct (gfor_fold_seq0 (fun k (X : list T) (acc : res (list T)) =>
                  exists x, acc = Ok x /\ X = repeat 0 (q - 1 - k) ++ x /\ length x = S k) ff
                (fun acc k => bwd_step K U y (q - 1 - S k) acc) (q - 1) O)
      with (s := s0) (s' := Ok [v0]) as (XF & EF & (xF & ExF & EXF & LxF))
  end.
  { intros k X acc Hk (x & -> & -> & Lx). rewrite Nat.sub_0_r in Lx |- *. cbn [gbind].
    set (i := q - 2 - k). assert (Hi' : i < q) by lia. pose proof (Hrow i Hi') as Hri. pose proof (HU i Hi') as HUi.
    replace (Z.of_nat q - 2 - Z.of_nat k)%Z with (Z.of_nat i) by lia.
    replace (q - 1 - S k) with i by lia. replace (q - 1 - k) with (S i) by lia.
    rewrite (znth_Z y _ 0) by (fold q; lia). cbn [gbind]. rewrite Nat2Z.id.
    rewrite zrange_nat.
    rewrite (gmapM_ok _ (fun j : Z => omul K (g2 U i (Z.to_nat j)) (nth (Z.to_nat j) (repeat 0 (S i) ++ x) 0))).
    2:{ intros j Hj. apply in_map_iff in Hj. destruct Hj as (j' & <- & Hj'). apply in_seq in Hj'.
        rewrite (znth_Z U _ []) by lia. cbn [gbind]. rewrite Nat2Z.id.
        rewrite (znth_Z (nth i U []) _ 0) by lia. cbn [gbind].
        rewrite (znth_Z (repeat 0 (S i) ++ x) _ 0) by (rewrite app_length, repeat_length; lia). cbn [gbind].
        rewrite !Nat2Z.id. reflexivity. }
    cbn [gbind]. rewrite map_map.
    rewrite (map_ext _ (fun j => omul K (g2 U i j) (nth j (repeat 0 (S i) ++ x) 0))) by (intros j; now rewrite Nat2Z.id).
    (* the first term is u[i][i] * 0 *)
    replace (q - i) with (S (q - S i)) by lia. cbn [seq map].
    rewrite app_nth1 by (rewrite repeat_length; lia). rewrite nth_repeat_lt by lia.
    rewrite (sl_mul_0 K LW), (gsum_cons_0 K LW), (gsum_sumT K LW).
    rewrite (map_ext_in _ (fun j => omul K (g2 U i j) (nth (j - S i) x 0))).
    2:{ intros j Hj. apply in_seq in Hj. rewrite app_nth2 by (rewrite repeat_length; lia). now rewrite repeat_length. }
    replace (q - S i) with (length x) by lia. fold (sumr K (S i) (length x) (fun j => omul K (g2 U i j) (nth (j - S i) x 0))).
    rewrite zset_Z by (rewrite app_length, repeat_length; lia). cbn [gbind]. rewrite Nat2Z.id.
    rewrite (znth_Z _ (Z.of_nat i) 0) by (rewrite upd_length, app_length, repeat_length; lia). cbn [gbind]. rewrite Nat2Z.id.
    rewrite nth_upd_same by (rewrite app_length, repeat_length; lia).
    rewrite (znth_Z U _ []) by lia. cbn [gbind]. rewrite Nat2Z.id.
    rewrite (znth_Z (nth i U []) _ 0) by lia. cbn [gbind]. rewrite Nat2Z.id. fold (g2 U i i).
    rewrite odiv_chk_ok by (apply Hpiv; lia). cbn [gbind].
    rewrite zset_Z by (rewrite upd_length, app_length, repeat_length; lia). cbn [gbind]. rewrite Nat2Z.id.
    eexists. split; [reflexivity|].
    unfold bwd_step. cbn [res_bind]. unfold LinAlg.isz. rewrite (Hpiv i) by lia.
    eexists. split; [reflexivity|]. split; [|simpl; lia].
    replace (q - 1 - S k) with i by lia.
    replace (S i) with (i + 1) by lia. rewrite repeat_app. cbn [repeat]. rewrite <- !app_assoc. cbn [app].
    rewrite !(upd_mid' (repeat 0 i)) by apply repeat_length. reflexivity. }
  { exists [v0]. split; auto. split; auto. now rewrite Nat.sub_0_r. }
  rewrite EF. cbn [gbind]. rewrite ExF. exists xF. split; [reflexivity|]. split; [|lia]. f_equal. rewrite EXF.
  replace (q - 1 - (q - 1)) with O by lia. reflexivity.
Qed.

Theorem backward_substitution_tie (U : list (list T)) (y : list T) :
  y <> [] ->
  (forall i, i < length y -> length y <= length (nth i U [])) ->
  (forall i, i < length y -> oeqb K (g2 U i i) 0 = false) ->
  Linalg.backward_substitution K U y = res_to_gres (fun x => x) ValueError IndexError (LinAlg.backward_substitution K U y).
Proof. intros H1 H2 H3. destruct (backward_substitution_ok U y H1 H2 H3) as (x & -> & -> & _). reflexivity. Qed.
End Tie.

Definition forward_substitution_tie_R := @forward_substitution_tie _ Rops Rops_sum_laws.
Definition forward_substitution_tie_Q := @forward_substitution_tie _ Qops Qops_sum_laws.
Definition backward_substitution_tie_R := @backward_substitution_tie _ Rops Rops_sum_laws.
Definition backward_substitution_tie_Q := @backward_substitution_tie _ Qops Qops_sum_laws.

(* ---- non-vacuity ---- *)
Local Open Scope Q_scope.
Example substitution_ex :
  Linalg.forward_substitution Qops [[1; 0; 0]; [1#2; 1; 0]; [3#4; -7#2; 1]] [1; 3; 5] = GOk [1; 5#2; 13]
  /\ LinAlg.forward_substitution Qops [[1; 0; 0]; [1#2; 1; 0]; [3#4; -7#2; 1]] [1; 3; 5] = Ok [1; 5#2; 13]
  /\ Linalg.backward_substitution Qops [[4; 3; 2]; [0; -1#2; 2]; [0; 0; 13#2]] [1; 5#2; 13] = GOk [-3; 3; 2]
  /\ LinAlg.backward_substitution Qops [[4; 3; 2]; [0; -1#2; 2]; [0; 0; 13#2]] [1; 5#2; 13] = Ok [-3; 3; 2]
  /\ Linalg.forward_substitution Qops [[0; 0]; [1; 1]] [1; 2] = GErr ZeroDivisionError
  /\ LinAlg.forward_substitution Qops [[0; 0]; [1; 1]] [1; 2] = Crash.
Proof. repeat split; vm_compute; reflexivity. Qed.
