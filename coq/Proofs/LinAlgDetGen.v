(* The Leibniz determinant (Proofs/LinAlgDet.v: sum over the explicit list `perms n`) for EVERY size:
   expansion along the last column, linearity in each row, vanishing on equal rows, sign change under a row
   exchange, invariance under adding a combination of other rows, triangular matrices, and
       L unit lower, U upper, L U = A  ==>  leibniz n A = prod U_ii.
   Consequence: the model's matrix_determinant returns the Leibniz determinant for every size and every
   pivoting pattern whenever Doolittle meets no zero pivot on the row-exchanged matrix. *)
From Coq Require Import List Reals Lra Lia Arith Bool.
From NV Require Import Scalar.Ops Model.Common Model.LinAlg Proofs.LinAlgSums Proofs.LinAlgR Proofs.LinAlgSolve
  Proofs.LinAlgPivot Proofs.LinAlgDet Proofs.LinAlgSDD.
Import ListNotations.
Open Scope R_scope.

(* ------------------------------------------------------------------ sums over lists *)
Notation sumL := (sumT Rops).
Lemma sumL_cons x l : sumL (x :: l) = x + sumL l.
Proof. reflexivity. Qed.
Lemma sumL_map_ext {A} (f g : A -> R) l : (forall s, In s l -> f s = g s) -> sumL (map f l) = sumL (map g l).
Proof.
  induction l as [|s l IH]; intros H; [reflexivity|]. cbn [map]. rewrite !sumL_cons, (H s) by (left; reflexivity).
  rewrite IH; [reflexivity|]. intros; apply H; right; assumption.
Qed.
Lemma sumL_map_lin {A} (f g : A -> R) a b l :
  sumL (map (fun s => a * f s + b * g s) l) = a * sumL (map f l) + b * sumL (map g l).
Proof. induction l as [|s l IH]; cbn [map]; rewrite ?sumL_cons; [cbn; rsimp; lra|rewrite IH; lra]. Qed.
Lemma sumL_map_scale {A} (f : A -> R) a l : sumL (map (fun s => a * f s) l) = a * sumL (map f l).
Proof. induction l as [|s l IH]; cbn [map]; rewrite ?sumL_cons; [cbn; rsimp; lra|rewrite IH; lra]. Qed.
Lemma sumL_map_zero {A} (f : A -> R) l : (forall s, In s l -> f s = 0) -> sumL (map f l) = 0.
Proof.
  induction l as [|s l IH]; intros H; [reflexivity|]. cbn [map]. rewrite sumL_cons, (H s) by (left; reflexivity).
  rewrite IH; [lra|]. intros; apply H; right; assumption.
Qed.
Lemma sumL_flat_map {A B} (f : B -> R) (g : A -> list B) l :
  sumL (map f (flat_map g l)) = sumL (map (fun s => sumL (map f (g s))) l).
Proof.
  induction l as [|s l IH]; [reflexivity|]. cbn [flat_map map]. rewrite map_app, sumT_app, sumL_cons, IH. reflexivity.
Qed.
Lemma sumL_sumr_swap {A} (F : A -> nat -> R) l a n :
  sumL (map (fun s => sumR a n (F s)) l) = sumR a n (fun j => sumL (map (fun s => F s j) l)).
Proof.
  induction l as [|s l IH]; cbn [map].
  - symmetry. apply sumr_zero. intros; reflexivity.
  - rewrite sumL_cons, IH, <- sumr_plus. apply sumr_ext. intros j _. rewrite sumL_cons. reflexivity.
Qed.

(* ------------------------------------------------------------------ products *)
Lemma prodf_ext f g n : (forall i, (i < n)%nat -> f i = g i) -> prodf f n = prodf g n.
Proof.
  induction n as [|n IH]; intros H; [reflexivity|]. cbn [prodf]. rewrite IH by (intros; apply H; lia).
  rewrite (H n) by lia. reflexivity.
Qed.
(* take the factor of index j out, the later ones move down *)
Lemma prodf_remove g k j : (j <= k)%nat ->
  prodf g (S k) = g j * prodf (fun i => if Nat.ltb i j then g i else g (S i)) k.
Proof.
  induction k as [|k IH]; intros Hj.
  - replace j with 0%nat by lia. cbn [prodf]. lra.
  - cbn [prodf]. destruct (Nat.eq_dec j (S k)) as [->|Hne].
    + rewrite (prodf_ext (fun i => if Nat.ltb i (S k) then g i else g (S i)) g k).
      2:{ intros i Hi. destruct (Nat.ltb_spec i (S k)); [reflexivity|lia]. }
      destruct (Nat.ltb_spec k (S k)); [|lia]. cbn [prodf]. lra.
    + change (prodf g k * g k) with (prodf g (S k)). rewrite (IH ltac:(lia)).
      destruct (Nat.ltb_spec k j); [lia|]. lra.
Qed.
(* take the factor of index r out, the others stay *)
Lemma prodf_pick g n r : (r < n)%nat -> prodf g n = g r * prodf (fun i => if Nat.eqb i r then 1 else g i) n.
Proof.
  induction n as [|n IH]; intros Hr; [lia|]. cbn [prodf]. destruct (Nat.eq_dec r n) as [->|Hne].
  - rewrite Nat.eqb_refl. rewrite (prodf_ext (fun i => if Nat.eqb i n then 1 else g i) g n).
    2:{ intros i Hi. destruct (Nat.eqb_spec i n); [lia|reflexivity]. }
    lra.
  - rewrite (IH ltac:(lia)). destruct (Nat.eqb_spec n r); [lia|]. lra.
Qed.

(* ------------------------------------------------------------------ the list of permutations *)
Fixpoint ins (j x : nat) (l : list nat) : list nat :=
  match j, l with
  | O, _ => x :: l
  | S j', y :: r => y :: ins j' x r
  | S _, [] => [x]
  end.
Lemma insert_all_ins x l : insert_all x l = map (fun j => ins j x l) (seq 0 (S (length l))).
Proof.
  induction l as [|y r IH]; [reflexivity|].
  cbn [insert_all length]. rewrite IH. change (seq 0 (S (S (length r)))) with (0%nat :: seq 1 (S (length r))).
  cbn [map]. f_equal. rewrite <- seq_shift, !map_map. reflexivity.
Qed.
Lemma ins_length j x l : length (ins j x l) = S (length l).
Proof. revert l. induction j as [|j IH]; intros [|y r]; cbn [ins length]; try reflexivity. rewrite IH. reflexivity. Qed.
Lemma ins_In j x l y : In y (ins j x l) -> y = x \/ In y l.
Proof.
  revert l. induction j as [|j IH]; intros [|z r]; cbn [ins In]; try tauto; try (intuition congruence).
  intros [H|H]; [tauto|]. destruct (IH r H); tauto.
Qed.
Lemma ins_nth j x l i : (j <= length l)%nat ->
  nth i (ins j x l) 0%nat = if Nat.ltb i j then nth i l 0%nat else if Nat.eqb i j then x else nth (i - 1) l 0%nat.
Proof.
  revert l i. induction j as [|j IH]; intros l i Hj.
  - cbn [ins]. destruct i as [|i]; [reflexivity|]. replace (S i - 1)%nat with i by lia. reflexivity.
  - destruct l as [|y r]; [cbn in Hj; lia|]. cbn [ins]. destruct i as [|i]; [reflexivity|].
    cbn [nth]. rewrite IH by (cbn in Hj; lia).
    change (Nat.ltb (S i) (S j)) with (Nat.ltb i j). change (Nat.eqb (S i) (S j)) with (Nat.eqb i j).
    destruct (Nat.ltb_spec i j); [reflexivity|]. destruct (Nat.eqb_spec i j); [reflexivity|].
    destruct i as [|i]; [lia|]. replace (S (S i) - 1)%nat with (S i) by lia. replace (S i - 1)%nat with i by lia. reflexivity.
Qed.
Lemma filter_ins_length a j x l :
  length (filter (fun y => Nat.ltb y a) (ins j x l)) =
  (length (filter (fun y => Nat.ltb y a) l) + if Nat.ltb x a then 1 else 0)%nat.
Proof.
  revert l. induction j as [|j IH]; intros l.
  - cbn [ins filter]. destruct (Nat.ltb x a); cbn [length]; lia.
  - destruct l as [|y r]; cbn [ins filter].
    + destruct (Nat.ltb x a); cbn [length]; lia.
    + destruct (Nat.ltb y a); cbn [length]; rewrite IH; lia.
Qed.
Lemma filter_all_length x l : (forall y, In y l -> (y < x)%nat) -> length (filter (fun y => Nat.ltb y x) l) = length l.
Proof.
  induction l as [|y r IH]; intros H; [reflexivity|]. cbn [filter].
  destruct (Nat.ltb_spec y x) as [_|Hge]; [cbn [length]; rewrite IH; [reflexivity|intros; apply H; right; assumption]|].
  specialize (H y (or_introl eq_refl)). lia.
Qed.
Lemma inversions_ins j x l : (j <= length l)%nat -> (forall y, In y l -> (y < x)%nat) ->
  inversions (ins j x l) = (inversions l + (length l - j))%nat.
Proof.
  revert l. induction j as [|j IH]; intros l Hj Hx.
  - cbn [ins inversions]. rewrite filter_all_length by exact Hx. lia.
  - destruct l as [|y r]; [cbn in Hj; lia|]. cbn [ins inversions length].
    rewrite filter_ins_length, IH by (try (cbn in Hj; lia); intros; apply Hx; right; assumption).
    specialize (Hx y (or_introl eq_refl)). destruct (Nat.ltb_spec x y); [lia|]. lia.
Qed.
Lemma perms_spec n s : In s (perms n) -> length s = n /\ forall y, In y s -> (y < n)%nat.
Proof.
  revert s. induction n as [|n IH]; intros s Hs.
  - cbn in Hs. destruct Hs as [<-|[]]. split; [reflexivity|intros y []].
  - cbn [perms] in Hs. apply in_flat_map in Hs. destruct Hs as (s0 & Hs0 & Hs).
    destruct (IH s0 Hs0) as [L0 B0]. rewrite insert_all_ins in Hs. apply in_map_iff in Hs.
    destruct Hs as (j & <- & _). split; [rewrite ins_length, L0; reflexivity|].
    intros y Hy. destruct (ins_In _ _ _ _ Hy) as [->|Hy']; [lia|]. specialize (B0 y Hy'). lia.
Qed.
Lemma perms_nth_lt n s i : In s (perms n) -> (i < n)%nat -> (nth i s 0 < n)%nat.
Proof. intros Hs Hi. destruct (perms_spec n s Hs) as [L B]. apply B, nth_In. lia. Qed.

Definition sg (e : nat) : R := if Nat.even e then 1 else -1.
Lemma sg_S e : sg (S e) = - sg e.
Proof. unfold sg. rewrite Nat.even_succ, <- Nat.negb_even. destruct (Nat.even e); cbn; lra. Qed.
Lemma sgn_ins j s k : length s = k -> (forall y, In y s -> (y < k)%nat) -> (j <= k)%nat ->
  sgn (ins j k s) = sg (k - j) * sgn s.
Proof.
  intros L B Hj. unfold sgn, sg. rewrite inversions_ins by (try lia; exact B). rewrite L.
  rewrite Nat.even_add. destruct (Nat.even (inversions s)), (Nat.even (k - j)); cbn; lra.
Qed.

(* ------------------------------------------------------------------ the determinant of an index function *)
Definition leibF (n : nat) (M : nat -> nat -> R) : R :=
  sumL (map (fun s => sgn s * prodf (fun i => M i (nth i s 0%nat)) n) (perms n)).
Lemma leibniz_leibF n m : leibniz n m = leibF n (g2 m).
Proof. reflexivity. Qed.
Lemma leibF_ext n M M' : (forall i j, (i < n)%nat -> (j < n)%nat -> M i j = M' i j) -> leibF n M = leibF n M'.
Proof.
  intros H. unfold leibF. apply sumL_map_ext. intros s Hs. f_equal. apply prodf_ext. intros i Hi.
  apply H; [exact Hi|apply perms_nth_lt; assumption].
Qed.

(* remove row j *)
Definition del (j : nat) (M : nat -> nat -> R) : nat -> nat -> R := fun i => if Nat.ltb i j then M i else M (S i).

(* [G] expansion along the last column *)
Theorem leibF_laplace k M :
  leibF (S k) M = sumR 0 (S k) (fun j => sg (k - j) * M j k * leibF k (del j M)).
Proof.
  unfold leibF at 1. cbn [perms]. rewrite sumL_flat_map.
  rewrite (sumL_map_ext _ (fun s => sumR 0 (S k) (fun j => sg (k - j) * M j k *
             (sgn s * prodf (fun i => del j M i (nth i s 0%nat)) k)))).
  - rewrite sumL_sumr_swap. apply sumr_ext. intros j _. unfold leibF. apply sumL_map_scale.
  - intros s Hs. destruct (perms_spec k s Hs) as [L B].
    rewrite insert_all_ins, map_map, L. unfold sumr. apply sumL_map_ext. intros j Hj. apply in_seq in Hj.
    rewrite sgn_ins by (try assumption; lia). rewrite (prodf_remove _ k j) by lia.
    rewrite ins_nth by lia. rewrite Nat.ltb_irrefl, Nat.eqb_refl.
    rewrite (prodf_ext _ (fun i => del j M i (nth i s 0%nat)) k); [ring|].
    intros i Hi. unfold del. rewrite !ins_nth by lia. destruct (Nat.ltb_spec i j) as [Hlt|Hge]; [reflexivity|].
    destruct (Nat.ltb_spec (S i) j); [lia|]. destruct (Nat.eqb_spec (S i) j); [lia|].
    replace (S i - 1)%nat with i by lia. reflexivity.
Qed.

(* ------------------------------------------------------------------ linearity in one row *)
Definition setrow (M : nat -> nat -> R) (r : nat) (x : nat -> R) : nat -> nat -> R :=
  fun i => if Nat.eqb i r then x else M i.
Lemma setrow_same M r : forall i j, setrow M r (M r) i j = M i j.
Proof. intros i j. unfold setrow. destruct (Nat.eqb_spec i r) as [->|]; reflexivity. Qed.

Definition rowcoef (n : nat) (M : nat -> nat -> R) (r : nat) (s : list nat) : R :=
  sgn s * prodf (fun i => if Nat.eqb i r then 1 else M i (nth i s 0%nat)) n.
Lemma leibF_setrow n M r x : (r < n)%nat ->
  leibF n (setrow M r x) = sumL (map (fun s => x (nth r s 0%nat) * rowcoef n M r s) (perms n)).
Proof.
  intros Hr. unfold leibF. apply sumL_map_ext. intros s _. unfold rowcoef.
  rewrite (prodf_pick _ n r Hr). unfold setrow at 1. rewrite Nat.eqb_refl.
  rewrite (prodf_ext (fun i => if Nat.eqb i r then 1 else setrow M r x i (nth i s 0%nat))
                     (fun i => if Nat.eqb i r then 1 else M i (nth i s 0%nat)) n); [ring|].
  intros i _. unfold setrow. destruct (Nat.eqb i r); reflexivity.
Qed.
(* [G] the determinant is linear in every row *)
Theorem leibF_row_linear n M r x y a b : (r < n)%nat ->
  leibF n (setrow M r (fun j => a * x j + b * y j)) = a * leibF n (setrow M r x) + b * leibF n (setrow M r y).
Proof.
  intros Hr. rewrite !leibF_setrow by exact Hr. rewrite <- sumL_map_lin. apply sumL_map_ext. intros s _. ring.
Qed.
Lemma leibF_zero_row n M r : (r < n)%nat -> (forall j, (j < n)%nat -> M r j = 0) -> leibF n M = 0.
Proof.
  intros Hr Hz. rewrite (leibF_ext n M (setrow M r (fun j => 0 * M r j + 0 * M r j))).
  - rewrite leibF_row_linear by exact Hr. lra.
  - intros i j Hi Hj. unfold setrow. destruct (Nat.eqb_spec i r) as [->|]; [rewrite Hz by exact Hj; lra|reflexivity].
Qed.

(* ------------------------------------------------------------------ equal rows *)
Lemma leibF_adjacent_equal : forall n M r, (S r < n)%nat -> (forall j, (j < n)%nat -> M r j = M (S r) j) -> leibF n M = 0.
Proof.
  induction n as [|k IH]; intros M r Hr He; [lia|].
  rewrite leibF_laplace.
  set (T := fun j => sg (k - j) * M j k * leibF k (del j M)).
  assert (Tz : forall j, (j <= k)%nat -> j <> r -> j <> S r -> T j = 0).
  { intros j Hj H1 H2. unfold T. destruct (le_lt_dec j r) as [Hle|Hgt].
    - rewrite (IH (del j M) (r - 1)%nat); [ring|lia|]. intros c Hc. unfold del.
      destruct (Nat.ltb_spec (r - 1) j); [lia|]. destruct (Nat.ltb_spec (S (r - 1)) j); [lia|].
      replace (S (r - 1)) with r by lia. apply He. lia.
    - rewrite (IH (del j M) r); [ring|lia|]. intros c Hc. unfold del.
      destruct (Nat.ltb_spec r j); [|lia]. destruct (Nat.ltb_spec (S r) j); [|lia]. apply He. lia. }
  assert (Tp : T r + T (S r) = 0).
  { unfold T. rewrite (leibF_ext k (del (S r) M) (del r M)).
    - rewrite <- (He k) by lia. replace (k - r)%nat with (S (k - S r)) by lia. rewrite sg_S. ring.
    - intros i j Hi Hj. unfold del. destruct (Nat.ltb_spec i (S r)), (Nat.ltb_spec i r); try lia; try reflexivity.
      replace i with r by lia. apply He. lia. }
  replace (S k) with (r + (2 + (k - S r)))%nat by lia. rewrite sumr_split. cbn [Nat.add]. rewrite !sumr_cons.
  rewrite sumr_zero by (intros j Hj; apply Tz; lia). rewrite (sumr_zero (S (S r))) by (intros j Hj; apply Tz; lia).
  lra.
Qed.

(* an alternating bi-additive function changes sign when its arguments are exchanged *)
Lemma alt_swap (D : (nat -> R) -> (nat -> R) -> R) :
  (forall x y v, D (fun j => 1 * x j + 1 * y j) v = 1 * D x v + 1 * D y v) ->
  (forall u x y, D u (fun j => 1 * x j + 1 * y j) = 1 * D u x + 1 * D u y) ->
  (forall z, D z z = 0) -> forall x y, D x y = - D y x.
Proof.
  intros L1 L2 Hz x y. pose proof (Hz (fun j => 1 * x j + 1 * y j)) as E.
  rewrite L1, !L2, (Hz x), (Hz y) in E. lra.
Qed.
Lemma setrow_comm M a b u v : a <> b -> forall i j, setrow (setrow M a u) b v i j = setrow (setrow M b v) a u i j.
Proof. intros Hab i j. unfold setrow. destruct (Nat.eqb_spec i a), (Nat.eqb_spec i b); try reflexivity. lia. Qed.
Lemma leibF_bilinear_swap n M a b : (a < n)%nat -> (b < n)%nat -> a <> b ->
  (forall z, leibF n (setrow (setrow M a z) b z) = 0) ->
  forall x y, leibF n (setrow (setrow M a x) b y) = - leibF n (setrow (setrow M a y) b x).
Proof.
  intros Ha Hb Hab Hz. apply (alt_swap (fun u v => leibF n (setrow (setrow M a u) b v))).
  - intros x y v.
    rewrite (leibF_ext n _ _ (fun i j _ _ => setrow_comm M a b (fun j => 1 * x j + 1 * y j) v Hab i j)).
    rewrite leibF_row_linear by exact Ha.
    rewrite (leibF_ext n _ _ (fun i j _ _ => setrow_comm M b a v x (not_eq_sym Hab) i j)).
    rewrite (leibF_ext n (setrow (setrow M b v) a y) _ (fun i j _ _ => setrow_comm M b a v y (not_eq_sym Hab) i j)).
    reflexivity.
  - intros u x y. apply leibF_row_linear, Hb.
  - exact Hz.
Qed.
Lemma setrow2_same M a b : forall i j, setrow (setrow M a (M a)) b (M b) i j = M i j.
Proof. intros i j. unfold setrow. destruct (Nat.eqb_spec i b) as [->|]; [reflexivity|]. destruct (Nat.eqb_spec i a) as [->|]; reflexivity. Qed.

(* exchanging two adjacent rows changes the sign *)
Lemma leibF_adjacent_swap n M r : (S r < n)%nat ->
  leibF n (setrow (setrow M r (M (S r))) (S r) (M r)) = - leibF n M.
Proof.
  intros Hr. rewrite (leibF_bilinear_swap n M r (S r)); try lia.
  - rewrite (leibF_ext n _ M); [reflexivity|]. intros i j _ _. apply setrow2_same.
  - intros z. apply (leibF_adjacent_equal n _ r Hr). intros j _. unfold setrow.
    rewrite Nat.eqb_refl. destruct (Nat.eqb_spec r (S r)); [lia|]. rewrite Nat.eqb_refl. reflexivity.
Qed.
(* [G] two equal rows: the determinant vanishes *)
Theorem leibF_equal_rows n : forall d M a, (a + S d < n)%nat -> (forall j, (j < n)%nat -> M a j = M (a + S d)%nat j) -> leibF n M = 0.
Proof.
  induction d as [|d IH]; intros M a Hb He.
  - apply (leibF_adjacent_equal n M a); [lia|]. intros j Hj. rewrite He by exact Hj. f_equal. lia.
  - set (b := (a + S d)%nat). assert (Eb : (a + S (S d))%nat = S b) by (unfold b; lia). rewrite Eb in *.
    pose proof (leibF_adjacent_swap n M b ltac:(lia)) as Hs.
    rewrite (IH (setrow (setrow M b (M (S b))) (S b) (M b)) a) in Hs; [lra|fold b; lia|].
    intros j Hj. fold b. unfold setrow. rewrite Nat.eqb_refl.
    destruct (Nat.eqb_spec a (S b)); [lia|]. destruct (Nat.eqb_spec a b); [unfold b in *; lia|].
    destruct (Nat.eqb_spec b (S b)); [lia|]. apply He, Hj.
Qed.
Corollary leibF_equal_rows' n M a b : (a < n)%nat -> (b < n)%nat -> a <> b -> (forall j, (j < n)%nat -> M a j = M b j) -> leibF n M = 0.
Proof.
  intros Ha Hb Hab He. destruct (lt_dec a b) as [Hlt|Hge].
  - apply (leibF_equal_rows n (b - a - 1) M a); replace (a + S (b - a - 1))%nat with b by lia; assumption.
  - apply (leibF_equal_rows n (a - b - 1) M b); replace (b + S (a - b - 1))%nat with a by lia; [assumption|].
    intros j Hj. symmetry. apply He, Hj.
Qed.

(* [G] exchanging two rows changes the sign *)
Definition transp (a b i : nat) : nat := if Nat.eqb i b then a else if Nat.eqb i a then b else i.
Theorem leibF_swap_rows n M a b : (a < n)%nat -> (b < n)%nat -> a <> b ->
  leibF n (fun i => M (transp a b i)) = - leibF n M.
Proof.
  intros Ha Hb Hab.
  rewrite (leibF_ext n _ (setrow (setrow M a (M b)) b (M a))).
  - rewrite (leibF_bilinear_swap n M a b); try assumption.
    + rewrite (leibF_ext n _ M); [reflexivity|]. intros i j _ _. apply setrow2_same.
    + intros z. apply (leibF_equal_rows' n _ a b); try assumption. intros j _. unfold setrow.
      rewrite Nat.eqb_refl. destruct (Nat.eqb_spec a b); [lia|]. rewrite Nat.eqb_refl. reflexivity.
  - intros i j _ _. unfold transp, setrow. destruct (Nat.eqb i b); [reflexivity|]. destruct (Nat.eqb i a); reflexivity.
Qed.

(* ------------------------------------------------------------------ row operations *)
Lemma leibF_add_row n M t a c : (t < n)%nat -> (a < n)%nat -> a <> t ->
  leibF n (setrow M t (fun j => M t j + c * M a j)) = leibF n M.
Proof.
  intros Ht Ha Hat.
  rewrite (leibF_ext n _ (setrow M t (fun j => 1 * M t j + c * M a j))).
  2:{ intros i j _ _. unfold setrow. destruct (Nat.eqb i t); [lra|reflexivity]. }
  rewrite leibF_row_linear by exact Ht.
  rewrite (leibF_ext n (setrow M t (M t)) M) by (intros i j _ _; apply setrow_same).
  rewrite (leibF_equal_rows' n (setrow M t (M a)) a t); try assumption; [lra|].
  intros j _. unfold setrow. rewrite Nat.eqb_refl. destruct (Nat.eqb_spec a t); [lia|reflexivity].
Qed.
(* [G] adding a combination of the earlier rows to row t does not change the determinant *)
Theorem leibF_add_combination n t cf : (t < n)%nat -> forall m M, (m <= t)%nat ->
  leibF n (setrow M t (fun j => M t j + sumR 0 m (fun i => cf i * M i j))) = leibF n M.
Proof.
  intros Ht. induction m as [|m IH]; intros M Hm.
  - apply leibF_ext. intros i j _ _. unfold setrow. destruct (Nat.eqb_spec i t) as [->|]; [rewrite sumr_0; lra|reflexivity].
  - set (M1 := setrow M t (fun j => M t j + sumR 0 m (fun i => cf i * M i j))).
    rewrite <- (IH M ltac:(lia)). fold M1. rewrite <- (leibF_add_row n M1 t m (cf m)) by lia.
    apply leibF_ext. intros i j _ _. unfold M1, setrow. destruct (Nat.eqb_spec i t) as [->|]; [|reflexivity].
    rewrite Nat.eqb_refl. destruct (Nat.eqb_spec m t); [lia|]. rewrite sumr_S. cbn [Nat.add]. lra.
Qed.

(* ------------------------------------------------------------------ triangular matrices, L U = A *)
Theorem leibF_upper : forall n Uf, (forall i j, (j < i < n)%nat -> Uf i j = 0) -> leibF n Uf = prodf (fun i => Uf i i) n.
Proof.
  induction n as [|k IH]; intros Uf Hz.
  - unfold leibF. cbn. rsimp. unfold sgn. cbn. lra.
  - rewrite leibF_laplace, sumr_S. cbn [Nat.add prodf]. rewrite sumr_zero.
    + rewrite Nat.sub_diag. unfold sg. cbn [Nat.even].
      rewrite (leibF_ext k (del k Uf) Uf).
      2:{ intros i j Hi _. unfold del. destruct (Nat.ltb_spec i k); [reflexivity|lia]. }
      rewrite IH by (intros i j Hij; apply Hz; lia). lra.
    + intros j Hj. rewrite (leibF_zero_row k (del j Uf) (k - 1)); [ring|lia|].
      intros c Hc. unfold del. destruct (Nat.ltb_spec (k - 1) j); [lia|]. replace (S (k - 1)) with k by lia. apply Hz. lia.
Qed.
(* [G] Doolittle-shaped factors: the determinant of A is the product of the diagonal of U *)
Theorem leibF_LU n (Lf Uf Af : nat -> nat -> R) :
  (forall i j, (i < n)%nat -> (j < n)%nat -> (i < j)%nat -> Lf i j = 0) ->
  (forall i, (i < n)%nat -> Lf i i = 1) ->
  (forall i j, (i < n)%nat -> (j < n)%nat -> (j < i)%nat -> Uf i j = 0) ->
  (forall r c, (r < n)%nat -> (c < n)%nat -> sumR 0 n (fun j => Lf r j * Uf j c) = Af r c) ->
  leibF n Af = prodf (fun i => Uf i i) n.
Proof.
  intros HL0 HL1 HU0 HLU.
  set (H := fun t i => if Nat.ltb i t then Uf i else Af i).
  assert (Inv : forall t, (t <= n)%nat -> leibF n (H t) = leibF n Af).
  { induction t as [|t IH]; intros Ht; [apply leibF_ext; intros; reflexivity|].
    rewrite <- (IH ltac:(lia)).
    rewrite <- (leibF_add_combination n t (Lf t) ltac:(lia) t (H (S t)) (le_n t)).
    apply leibF_ext. intros i j Hi Hj. unfold setrow. destruct (Nat.eqb_spec i t) as [->|Hne].
    - unfold H. rewrite Nat.ltb_irrefl. destruct (Nat.ltb_spec t (S t)); [|lia].
      rewrite (sumr_ext 0 t _ (fun i => Lf t i * Uf i j)).
      2:{ intros i Hi'. destruct (Nat.ltb_spec i (S t)); [reflexivity|lia]. }
      rewrite <- (HLU t j) by lia. replace n with (t + S (n - S t))%nat at 1 by lia.
      rewrite sumr_split, sumr_cons. cbn [Nat.add]. rewrite HL1 by lia.
      rewrite (sumr_zero (S t)); [lra|]. intros i Hi'. rewrite HL0 by lia. lra.
    - unfold H. destruct (Nat.ltb_spec i (S t)), (Nat.ltb_spec i t); try lia; reflexivity. }
  rewrite <- (Inv n (le_n n)). rewrite (leibF_ext n (H n) Uf).
  - apply leibF_upper. intros i j Hij. apply HU0; lia.
  - intros i j Hi _. unfold H. destruct (Nat.ltb_spec i n); [reflexivity|lia].
Qed.

(* ------------------------------------------------------------------ the model's determinant *)
Lemma diag_prod_prodf n (L U : list (list R)) : diag_prod Rops n L U = prodf (fun i => g2 L i i * g2 U i i) n.
Proof.
  unfold diag_prod. induction n as [|n IH]; [reflexivity|].
  rewrite fold_left_seq_S, IH. cbn [Nat.add prodf]. rsimp. reflexivity.
Qed.
(* [G] every size: without row exchange, the product of the diagonals of the Doolittle factors is the Leibniz determinant *)
Theorem det_core A : (forall i, (i < length A)%nat -> g2 (snd (doolittle Rops A)) i i <> 0) ->
  diag_prod Rops (length A) (fst (doolittle Rops A)) (snd (doolittle Rops A)) = leibniz (length A) A /\
  leibniz (length A) A = prodf (fun i => g2 (snd (doolittle Rops A)) i i) (length A).
Proof.
  intros Hp. destruct (doolittle_LU_entries A Hp) as (H1 & H2 & H3 & H4).
  assert (E : leibniz (length A) A = prodf (fun i => g2 (Um A) i i) (length A)).
  { rewrite leibniz_leibF. apply (leibF_LU (length A) (g2 (Lm A)) (g2 (Um A)) (g2 A) H1 H2 H3 H4). }
  split; [|exact E]. rewrite diag_prod_prodf, E. apply prodf_ext. intros i Hi.
  change (fst (doolittle Rops A)) with (Lm A). change (snd (doolittle Rops A)) with (Um A). rewrite H2 by exact Hi. lra.
Qed.

Lemma sign_of_S ns : sign_of Rops (S ns) = - sign_of Rops ns.
Proof. unfold sign_of. rewrite Nat.even_succ, <- Nat.negb_even. destruct (Nat.even ns); cbn [negb]; rsimp; lra. Qed.
Lemma leibniz_swap n (mp : list (list R)) a b : (a < b < n)%nat -> length mp = n ->
  leibniz n (swap [] mp a b) = - leibniz n mp.
Proof.
  intros Hab HL. rewrite !leibniz_leibF. rewrite <- (leibF_swap_rows n (g2 mp) a b) by lia.
  apply leibF_ext. intros i j _ _. unfold get2. rewrite nth_swap by lia. unfold transp.
  destruct (Nat.eqb i b); [reflexivity|]. destruct (Nat.eqb i a); reflexivity.
Qed.
(* the pivot loop keeps (determinant of the current matrix) * (sign of the number of exchanges) *)
Lemma pivot_fold_det n : forall l (st : list (list R) * list (list R) * nat),
  (forall j, In j l -> (j < n)%nat) -> length (fst (fst st)) = n ->
  length (fst (fst (fold_left (pivot_step Rops n) l st))) = n /\
  leibniz n (fst (fst (fold_left (pivot_step Rops n) l st))) * sign_of Rops (snd (fold_left (pivot_step Rops n) l st))
  = leibniz n (fst (fst st)) * sign_of Rops (snd st).
Proof.
  induction l as [|j l IH]; intros st Hl HL; [split; [exact HL|reflexivity]|].
  cbn [fold_left]. assert (Hj : (j < n)%nat) by (apply Hl; left; reflexivity).
  assert (Hl' : forall j', In j' l -> (j' < n)%nat) by (intros; apply Hl; right; assumption).
  destruct (pivot_step_cases n st j Hj) as (row & Hrow & ->).
  destruct (Nat.eqb_spec j row) as [_|Hne]; [apply IH; assumption|].
  destruct (IH (swap [] (fst (fst st)) j row, swap [] (snd (fst st)) j row, S (snd st)) Hl') as [L' E'].
  { cbn [fst]. rewrite length_swap. exact HL. }
  split; [exact L'|]. rewrite E'. cbn [fst snd]. rewrite leibniz_swap by (try exact HL; lia). rewrite sign_of_S. ring.
Qed.

(* [G] every size, every pivoting pattern: whenever Doolittle meets no zero pivot on the row-exchanged matrix,
   matrix_determinant returns the Leibniz determinant of the original matrix *)
Theorem determinant_leibniz m : is_square m = true ->
  (forall i, (i < length m)%nat ->
     g2 (snd (doolittle Rops (fst (fst (pivot_with Rops (matrix_identity Rops (length m)) m))))) i i <> 0) ->
  matrix_determinant Rops m = Ok (leibniz (length m) m).
Proof.
  intros Hsq Hp.
  assert (Hrect := is_square_rect m Hsq).
  destruct (pivot_is_permutation m (matrix_identity Rops (length m))) as (s & ns & E & Hs & _).
  { destruct (identity_rect (length m)) as [H _]. exact H. }
  assert (Hmp_sq : is_square (rows_by m s) = true) by (apply (rows_by_square (length m)); assumption).
  assert (Hmp_len : length (rows_by m s) = length m) by (rewrite rows_by_length; apply permI_length, Hs).
  destruct (pivot_fold_det (length m) (seq 0 (length m)) (m, matrix_identity Rops (length m), 0%nat)) as [_ HE].
  { intros j Hj. apply in_seq in Hj. lia. }
  { reflexivity. }
  fold (pivot_with Rops (matrix_identity Rops (length m)) m) in HE. rewrite E in HE, Hp. cbn [fst snd] in HE, Hp.
  unfold matrix_determinant, matrix_determinant_with, pivot_res. rewrite Hsq. cbn [res_bind].
  rewrite E. cbn [fst snd]. unfold lu_decomposition. rewrite Hmp_sq. cbn [res_bind fst snd]. f_equal.
  rewrite <- Hmp_len in Hp |- * . destruct (det_core (rows_by m s) Hp) as [-> _].
  rewrite Hmp_len in *. rsimp. rewrite HE. unfold sign_of. cbn [Nat.even]. rsimp. lra.
Qed.
Print Assumptions determinant_leibniz.

(* [G] consequences of the general theory on the model's representation *)
Theorem leibniz_row_swap n (m : list (list R)) a b : (a < b < n)%nat -> length m = n ->
  leibniz n (swap [] m a b) = - leibniz n m.
Proof. exact (leibniz_swap n m a b). Qed.
Theorem leibniz_identity n : leibniz n (matrix_identity Rops n) = 1.
Proof.
  rewrite leibniz_leibF, leibF_upper.
  - rewrite (prodf_ext _ (fun _ => 1) n); [induction n as [|k IH]; cbn [prodf]; [reflexivity|rewrite IH; lra]|].
    intros i Hi. rewrite identity_entry by assumption. rewrite Nat.eqb_refl. reflexivity.
  - intros i j Hij. rewrite identity_entry by lia. destruct (Nat.eqb_spec j i); [lia|reflexivity].
Qed.

(* ------------------------------------------------------------------ what a returned determinant means *)
Lemma prodf_nonzero f n : (forall i, (i < n)%nat -> f i <> 0) -> prodf f n <> 0.
Proof.
  induction n as [|n IH]; intros H; cbn [prodf]; [lra|]. apply Rmult_integral_contrapositive_currified; [apply IH; intros; apply H; lia|apply H; lia].
Qed.
Lemma prodf_factor_nonzero f n : prodf f n <> 0 -> forall i, (i < n)%nat -> f i <> 0.
Proof.
  induction n as [|n IH]; intros H i Hi; [lia|]. cbn [prodf] in H.
  destruct (Nat.eq_dec i n) as [->|Hne]; [intros E; apply H; rewrite E; ring|].
  apply IH; [intros E; apply H; rewrite E; ring|lia].
Qed.
(* [G] matrix_determinant never fails on a square matrix; the value is prod(L_ii U_ii) * sign *)
Lemma determinant_value m : is_square m = true ->
  let t := pivot_with Rops (matrix_identity Rops (length m)) m in
  matrix_determinant Rops m =
  Ok (diag_prod Rops (length m) (fst (doolittle Rops (fst (fst t)))) (snd (doolittle Rops (fst (fst t)))) * sign_of Rops (snd t)).
Proof.
  intros Hsq t. assert (Hrect := is_square_rect m Hsq).
  destruct (pivot_is_permutation m (matrix_identity Rops (length m))) as (s & ns & E & Hs & _).
  { destruct (identity_rect (length m)) as [H _]. exact H. }
  assert (Hmp_sq : is_square (rows_by m s) = true) by (apply (rows_by_square (length m)); assumption).
  unfold matrix_determinant, matrix_determinant_with, pivot_res. rewrite Hsq. cbn [res_bind]. subst t.
  rewrite E. cbn [fst snd]. unfold lu_decomposition. rewrite Hmp_sq. reflexivity.
Qed.
Lemma Ok_inj {A} (a b : A) : Ok a = Ok b -> a = b.
Proof. intros H. injection H as H. exact H. Qed.
(* [G] every size: a NON-ZERO value returned by matrix_determinant is the Leibniz determinant
   (a returned 0 may be wrong: Props/C16.v C16_determinant_nonsingular_refuted) *)
Theorem determinant_nonzero_result m d : is_square m = true ->
  matrix_determinant Rops m = Ok d -> d <> 0 -> d = leibniz (length m) m.
Proof.
  intros Hsq Hd Hnz. pose proof (determinant_value m Hsq) as V. cbv zeta in V.
  set (t := pivot_with Rops (matrix_identity Rops (length m)) m) in *.
  rewrite V in Hd. apply Ok_inj in Hd.
  assert (Hp : forall i, (i < length m)%nat -> g2 (snd (doolittle Rops (fst (fst t)))) i i <> 0).
  { intros i Hi E. rewrite diag_prod_prodf in Hd.
    assert (P0 : prodf (fun i => g2 (fst (doolittle Rops (fst (fst t)))) i i * g2 (snd (doolittle Rops (fst (fst t)))) i i) (length m) <> 0).
    { intros Z. apply Hnz. rewrite <- Hd, Z. rsimp. ring. }
    apply (prodf_factor_nonzero _ _ P0 i Hi). rewrite E. ring. }
  pose proof (determinant_leibniz m Hsq Hp) as D. rewrite V in D. apply Ok_inj in D. rewrite <- Hd. exact D.
Qed.
Print Assumptions determinant_nonzero_result.

(* [G] a strictly diagonally dominant matrix has a non-zero Leibniz determinant, equal to the product of its Doolittle pivots *)
Theorem sdd_leibniz_nonzero A : sdd A ->
  leibniz (length A) A = prodf (fun i => g2 (snd (doolittle Rops A)) i i) (length A) /\ leibniz (length A) A <> 0.
Proof.
  intros Hs. pose proof (sdd_pivots_nonzero A Hs) as Hp. destruct (det_core A Hp) as [_ E].
  split; [exact E|]. rewrite E. apply prodf_nonzero. exact Hp.
Qed.
Print Assumptions sdd_leibniz_nonzero.
