(* Generic lemmas for the ties between the generated code (Gen/*.v, written against Gen/Prelude.v) and the
   hand-written model (Model/*.v): Z-indexing at naturals, zrange vs seq, loop rules. *)
From Coq Require Import List ZArith Arith Bool Lia.
From NV Require Import Scalar.Ops Model.Common Gen.Prelude.
Import ListNotations.
Local Open Scope nat_scope.

(* the model's outcome type read as an outcome of the generated code *)
Definition res_to_gres {A B} (inj : A -> B) (rej crash : gerr) (r : res A) : gres B :=
  match r with Ok a => GOk (inj a) | Rejected => GErr rej | Crash => GErr crash end.

Lemma gbind_ok {A B} (a : A) (f : A -> gres B) : gbind (GOk a) f = f a.
Proof. reflexivity. Qed.

(* ---- indexing ---- *)
Lemma list_upd_eq {A} (l : list A) i x : list_upd l i x = upd l i x.
Proof. revert i; induction l; destruct i; simpl; auto; now rewrite IHl. Qed.

Lemma upd_length {A} (l : list A) i x : length (upd l i x) = length l.
Proof. revert i; induction l; destruct i; simpl; auto. Qed.

Lemma nth_upd_same {A} (l : list A) i x d : i < length l -> nth i (upd l i x) d = x.
Proof. revert i; induction l; destruct i; simpl; intros; try lia; auto. apply IHl; lia. Qed.

Lemma nth_upd_other {A} (l : list A) i j x d : i <> j -> nth j (upd l i x) d = nth j l d.
Proof. revert i j; induction l; destruct i, j; simpl; intros; try lia; auto. Qed.

Lemma zidx_nat n i : i < n -> zidx n (Z.of_nat i) = Some i.
Proof.
  intros H. unfold zidx.
  destruct (Z.leb_spec 0 (Z.of_nat i)); [|lia].
  destruct (Z.ltb_spec (Z.of_nat i) (Z.of_nat n)); [|lia].
  now rewrite Nat2Z.id.
Qed.

Lemma zidx_ge n i : n <= i -> zidx n (Z.of_nat i) = None.
Proof.
  intros H. unfold zidx.
  destruct (Z.leb_spec 0 (Z.of_nat i)); [|lia].
  destruct (Z.ltb_spec (Z.of_nat i) (Z.of_nat n)); [lia|]. reflexivity.
Qed.

Lemma zidx_neg n k : 1 <= k <= n -> zidx n (- Z.of_nat k) = Some (n - k).
Proof.
  intros H. unfold zidx.
  destruct (Z.leb_spec 0 (- Z.of_nat k)); [lia|].
  destruct (Z.leb_spec (- Z.of_nat n) (- Z.of_nat k)); [|lia].
  f_equal. lia.
Qed.

Lemma znth_nat {A} (l : list A) i d : i < length l -> znth l (Z.of_nat i) = GOk (nth i l d).
Proof.
  intros H. unfold znth. rewrite zidx_nat by auto.
  destruct (nth_error l i) eqn:E.
  - now rewrite (nth_error_nth _ _ d E).
  - apply nth_error_None in E. lia.
Qed.

Lemma znth_0 {A} (x : A) r : znth (x :: r) 0 = GOk x.
Proof. reflexivity. Qed.

Lemma znth_ge {A} (l : list A) i : length l <= i -> znth l (Z.of_nat i) = GErr IndexError.
Proof. intros H. unfold znth. now rewrite zidx_ge. Qed.

Lemma znth_Z {A} (l : list A) (z : Z) d : (0 <= z < Z.of_nat (length l))%Z -> znth l z = GOk (nth (Z.to_nat z) l d).
Proof. intros H. rewrite <- (Z2Nat.id z) at 1 by lia. apply znth_nat. lia. Qed.

Lemma znth_neg {A} (l : list A) k d : 1 <= k <= length l -> znth l (- Z.of_nat k) = GOk (nth (length l - k) l d).
Proof.
  intros H. unfold znth. rewrite zidx_neg by auto.
  destruct (nth_error l (length l - k)) eqn:E.
  - now rewrite (nth_error_nth _ _ d E).
  - apply nth_error_None in E. lia.
Qed.

Lemma last_nth {A} (l : list A) d : last l d = nth (length l - 1) l d.
Proof.
  induction l as [|a [|b r] IH]; simpl; auto.
  simpl in IH. rewrite IH. now rewrite Nat.sub_0_r.
Qed.

Lemma last_cons_indep {A} (a : A) r d d' : last (a :: r) d = last (a :: r) d'.
Proof. revert a; induction r as [|b r IH]; intros a; [reflexivity|]. change (last (b :: r) d = last (b :: r) d'). apply IH. Qed.

Lemma znth_last {A} (l : list A) d : l <> [] -> znth l (-1) = GOk (last l d).
Proof.
  intros H. change (-1)%Z with (- Z.of_nat 1)%Z. rewrite (znth_neg l 1 d).
  - now rewrite last_nth.
  - destruct l; [congruence|simpl; lia].
Qed.

Lemma zset_nat {A} (l : list A) i v : i < length l -> zset l (Z.of_nat i) v = GOk (upd l i v).
Proof. intros H. unfold zset. rewrite zidx_nat by auto. now rewrite list_upd_eq. Qed.

Lemma zset_Z {A} (l : list A) (z : Z) v : (0 <= z < Z.of_nat (length l))%Z -> zset l z v = GOk (upd l (Z.to_nat z) v).
Proof. intros H. rewrite <- (Z2Nat.id z) at 1 by lia. apply zset_nat. lia. Qed.

Lemma zlen_nat {A} (l : list A) : zlen l = Z.of_nat (length l).
Proof. reflexivity. Qed.

(* ---- ranges ---- *)
Lemma zrange_step1 (a b : Z) : zrange a b 1 = map (fun i => (a + Z.of_nat i)%Z) (seq 0 (Z.to_nat (b - a))).
Proof.
  unfold zrange, zrange_len. simpl.
  replace ((b - a + 1 - 1) / 1)%Z with (b - a)%Z by (rewrite Z.div_1_r; lia).
  apply map_ext. intros i. lia.
Qed.

Lemma map_seq_shift a n : map (fun i => (Z.of_nat a + Z.of_nat i)%Z) (seq 0 n) = map Z.of_nat (seq a n).
Proof.
  revert a; induction n; simpl; intros; auto. f_equal; [lia|].
  rewrite <- seq_shift, map_map. rewrite <- (IHn (Datatypes.S a)). apply map_ext; intros; lia.
Qed.

Lemma zrange_nat (a b : nat) : zrange (Z.of_nat a) (Z.of_nat b) 1 = map Z.of_nat (seq a (b - a)).
Proof.
  rewrite zrange_step1.
  replace (Z.to_nat (Z.of_nat b - Z.of_nat a)) with (b - a) by lia.
  apply map_seq_shift.
Qed.

Lemma zrange_0 (n : Z) : zrange 0 n 1 = map Z.of_nat (seq 0 (Z.to_nat n)).
Proof.
  rewrite zrange_step1. rewrite Z.sub_0_r. apply map_ext. intros; lia.
Qed.

Lemma zrange_0_nat (n : nat) : zrange 0 (Z.of_nat n) 1 = map Z.of_nat (seq 0 n).
Proof. rewrite zrange_0. now rewrite Nat2Z.id. Qed.

(* range(a, b, -1) *)
Lemma zrange_down (a b : Z) : zrange a b (-1) = map (fun i => (a - Z.of_nat i)%Z) (seq 0 (Z.to_nat (a - b))).
Proof.
  unfold zrange, zrange_len. simpl.
  replace ((a - b - -1 - 1) / 1)%Z with (a - b)%Z by (rewrite Z.div_1_r; lia).
  apply map_ext. intros i. lia.
Qed.

Lemma map_const_seq {A B} (c : B) (f : A -> nat) (l : list A) : map (fun _ => c) l = repeat c (length l).
Proof. induction l; simpl; congruence. Qed.

Lemma map_const_zrange {B} (c : B) (n : Z) : map (fun _ : Z => c) (zrange 0 n 1) = repeat c (Z.to_nat n).
Proof.
  rewrite zrange_0, map_map. rewrite (map_const_seq c (fun x => x)). now rewrite seq_length.
Qed.

(* ---- scalars ---- *)
Lemma ofZ_of_nat {T} (K : ops T) n : ofZ K (Z.of_nat n) = ofnat K n.
Proof.
  destruct n; simpl; auto. unfold ofZ. now rewrite SuccNat2Pos.id_succ.
Qed.

Lemma ofZ_nonneg {T} (K : ops T) z : (0 <= z)%Z -> ofZ K z = ofnat K (Z.to_nat z).
Proof. intros H. rewrite <- (Z2Nat.id z) at 1 by auto. apply ofZ_of_nat. Qed.

(* ---- for loops ---- *)
Lemma gfor_app {A S} (l1 l2 : list A) (f : A -> S -> gres S) s :
  gfor (l1 ++ l2) f s = gbind (gfor l1 f s) (fun s' => gfor l2 f s').
Proof.
  revert s; induction l1; simpl; intros; auto.
  destruct (f a s); simpl; auto.
Qed.

Lemma gfor_map {A B S} (g : A -> B) (l : list A) (f : B -> S -> gres S) s :
  gfor (map g l) f s = gfor l (fun x => f (g x)) s.
Proof.
  revert s; induction l; simpl; intros; auto.
  destruct (f (g a) s); simpl; auto.
Qed.

Lemma gfor_ext {A S} (l : list A) (f g : A -> S -> gres S) s :
  (forall x s, In x l -> f x s = g x s) -> gfor l f s = gfor l g s.
Proof.
  revert s; induction l; simpl; intros; auto.
  rewrite H by auto. destruct (g a s); simpl; auto.
Qed.

(* the loop computes, in lock step, what a fold_left over the same list computes, related by R *)
Lemma gfor_fold {A S S'} (R : S -> S' -> Prop) (l : list A) (f : A -> S -> gres S) (g : S' -> A -> S') :
  (forall x s s', In x l -> R s s' -> exists t, f x s = GOk t /\ R t (g s' x)) ->
  forall s s', R s s' -> exists t, gfor l f s = GOk t /\ R t (fold_left g l s').
Proof.
  induction l; simpl; intros Hf s s' HR.
  - eauto.
  - destruct (Hf a s s') as (t & E & Ht); auto.
    rewrite E; simpl. apply IHl; auto.
Qed.

(* the same over range(a, a+n) with an invariant that knows the position *)
Lemma gfor_seq_fold {S S'} (R : nat -> S -> S' -> Prop) (f : Z -> S -> gres S) (g : S' -> nat -> S') :
  forall n a,
  (forall i s s', a <= i < a + n -> R i s s' -> exists t, f (Z.of_nat i) s = GOk t /\ R (Datatypes.S i) t (g s' i)) ->
  forall s s', R a s s' ->
  exists t, gfor (map Z.of_nat (seq a n)) f s = GOk t /\ R (a + n) t (fold_left g (seq a n) s').
Proof.
  induction n; simpl; intros a Hf s s' HR.
  - rewrite Nat.add_0_r. eauto.
  - destruct (Hf a s s') as (t & E & Ht); [lia|auto|].
    rewrite E; simpl.
    destruct (IHn (Datatypes.S a)) with (s := t) (s' := g s' a) as (t' & E' & Ht'); auto.
    + intros i s1 s1' Hi. apply Hf. lia.
    + exists t'. split; auto. now rewrite <- Nat.add_succ_comm.
Qed.

(* plain invariant over range(a, a+n) *)
Lemma gfor_seq_inv {S} (P : nat -> S -> Prop) (f : Z -> S -> gres S) :
  forall n a,
  (forall i s, a <= i < a + n -> P i s -> exists t, f (Z.of_nat i) s = GOk t /\ P (Datatypes.S i) t) ->
  forall s, P a s -> exists t, gfor (map Z.of_nat (seq a n)) f s = GOk t /\ P (a + n) t.
Proof.
  induction n; simpl; intros a Hf s HP.
  - rewrite Nat.add_0_r. eauto.
  - destruct (Hf a s) as (t & E & Ht); [lia|auto|].
    rewrite E; simpl.
    destruct (IHn (Datatypes.S a)) with (s := t) as (t' & E' & Ht'); auto.
    + intros i s1 Hi. apply Hf. lia.
    + exists t'. split; auto. now rewrite <- Nat.add_succ_comm.
Qed.

(* ---- list comprehension with a raising body ---- *)
Lemma gmapM_ok {A B} (f : A -> gres B) (g : A -> B) (l : list A) :
  (forall x, In x l -> f x = GOk (g x)) -> gmapM f l = GOk (map g l).
Proof.
  induction l; simpl; intros H; auto.
  rewrite H by auto. simpl. rewrite IHl by auto. reflexivity.
Qed.

(* ---- while loops ---- *)
Lemma gwhile_unfold {S} fuel (c : S -> gres bool) (b : S -> gres S) s :
  gwhile (Datatypes.S fuel) c b s = gbind (c s) (fun t => if t then gbind (b s) (fun s' => gwhile fuel c b s') else GOk s).
Proof. reflexivity. Qed.

(* the loop as a fuelled iteration of a pure condition / body on model states, injected by inj *)
Fixpoint iter_while {S} (fuel : nat) (c : S -> bool) (b : S -> S) (s : S) : option S :=
  match fuel with
  | O => None
  | Datatypes.S f => if c s then iter_while f c b (b s) else Some s
  end.

Lemma gwhile_iter {S S'} (inj : S' -> S) (c : S -> gres bool) (b : S -> gres S) (cm : S' -> bool) (bm : S' -> S')
  (Inv : S' -> Prop) :
  (forall s, Inv s -> c (inj s) = GOk (cm s)) ->
  (forall s, Inv s -> cm s = true -> b (inj s) = GOk (inj (bm s)) /\ Inv (bm s)) ->
  forall fuel s, Inv s ->
  gwhile fuel c b (inj s) = match iter_while fuel cm bm s with Some s' => GOk (inj s') | None => GErr OutOfFuel end.
Proof.
  intros Hc Hb. induction fuel; intros s Hs; simpl; auto.
  rewrite Hc by auto. simpl. destruct (cm s) eqn:E; auto.
  destruct (Hb s Hs E) as [Eb Hi]. rewrite Eb. simpl. apply IHfuel; auto.
Qed.

(* `acc.append(g(x))` loops *)
Lemma gfor_append {A B} (l : list A) (g : A -> gres B) (gm : A -> B) (acc : list B) :
  (forall x, In x l -> g x = GOk (gm x)) ->
  gfor l (fun x acc => gbind (g x) (fun v => GOk (acc ++ [v]))) acc = GOk (acc ++ map gm l).
Proof.
  revert acc; induction l; simpl; intros acc H.
  - now rewrite app_nil_r.
  - rewrite H by auto. simpl. rewrite IHl by auto. now rewrite <- app_assoc.
Qed.

Lemma zrange_1_nat (n : nat) : zrange 1 (Z.of_nat (Datatypes.S n)) 1 = map Z.of_nat (seq 1 n).
Proof. change 1%Z with (Z.of_nat 1) at 1. rewrite zrange_nat. f_equal. f_equal. lia. Qed.

(* ---- small list facts missing from the 8.16 standard library ---- *)
Lemma nth_firstn_lt {A} (l : list A) : forall n i d, i < n -> nth i (firstn n l) d = nth i l d.
Proof. induction l; intros [|n] [|i] d H; simpl; auto; try lia. apply IHl; lia. Qed.
Lemma nth_skipn_add {A} (l : list A) : forall n i d, nth i (skipn n l) d = nth (n + i) l d.
Proof. induction l; intros [|n] i d; simpl; auto. destruct i; auto. Qed.
Lemma nth_repeat_lt {A} (a d : A) : forall m i, i < m -> nth i (repeat a m) d = a.
Proof. induction m; intros [|i] H; simpl; auto; try lia. apply IHm; lia. Qed.
Lemma upd_app_l {A} (l1 l2 : list A) i x : i < length l1 -> upd (l1 ++ l2) i x = upd l1 i x ++ l2.
Proof. revert i; induction l1; intros [|i] H; simpl in *; try lia; auto. rewrite IHl1 by lia. reflexivity. Qed.
Lemma upd_overflow {A} (l : list A) i x : length l <= i -> upd l i x = l.
Proof. revert i; induction l; intros [|i] H; simpl in *; auto; try lia. rewrite IHl by lia. reflexivity. Qed.
Lemma nth_upd {A} (l : list A) i j x d : nth j (upd l i x) d = if Nat.eqb i j then (if Nat.ltb j (length l) then x else d) else nth j l d.
Proof.
  destruct (Nat.eqb_spec i j) as [->|Hne].
  - destruct (Nat.ltb_spec j (length l)).
    + now apply nth_upd_same.
    + rewrite upd_overflow by lia. now apply nth_overflow.
  - now apply nth_upd_other.
Qed.

(* a list of lists as a matrix: rows exist and have the right length *)
Lemma nth_nth_upd2 {A} (m : list (list A)) i j x a b d :
  nth b (nth a (upd m i (upd (nth i m []) j x)) []) d =
  if andb (Nat.eqb i a) (Nat.eqb j b) then (if andb (Nat.ltb a (length m)) (Nat.ltb b (length (nth a m []))) then x else d)
  else nth b (nth a m []) d.
Proof.
  rewrite nth_upd. destruct (Nat.eqb_spec i a) as [->|Hne]; simpl; auto.
  destruct (Nat.ltb_spec a (length m)); simpl.
  - rewrite nth_upd. destruct (Nat.eqb_spec j b); auto.
  - rewrite (nth_overflow m) by lia. destruct b; simpl; destruct (Nat.eqb j _); auto.
Qed.
