From Coq Require Import List Reals Lra Lia Arith Bool.
From NV Require Import Proofs.Boehm.
Import ListNotations.
Open Scope R_scope.

Section A22.
Variable U : nat -> R.
Hypothesis Usorted : forall i, U i <= U (S i).
Variables (span : nat) (u : R).
Hypothesis Hspan : U span <= u < U (S span).

Definition left (k : nat) : R := u - U (span + 1 - k).
Definition right (k : nat) : R := U (span + k) - u.

Fixpoint inner (j r : nat) (Nold : list R) (saved : R) : list R :=
  match Nold with
  | [] => [saved]
  | x :: rest => let temp := x / (right (S r) + left (j - r)) in
                 (saved + right (S r) * temp) :: inner j (S r) rest (left (j - r) * temp)
  end.
Fixpoint bf (p : nat) : list R :=
  match p with O => [1] | S q => inner (S q) 0 (bf q) 0 end.

Notation Nn := (N U).
Notation W := (Wq U).
Lemma Um' i j : (i <= j)%nat -> U i <= U j.
Proof. apply U_mono; exact Usorted. Qed.

Lemma inner_spec q : (S q <= span)%nat ->
  forall rest r0 saved, (r0 + length rest = S q)%nat ->
  (forall m, (m < length rest)%nat -> nth m rest 0 = Nn q (span - q + r0 + m) u) ->
  saved = W q (span - S q + r0) u * Nn q (span - S q + r0) u ->
  forall m, (m <= length rest)%nat -> nth m (inner (S q) r0 rest saved) 0 = Nn (S q) (span - S q + r0 + m) u.
Proof.
  intros Hq. induction rest as [|x rest IH]; intros r0 saved Hlen Hnth Hsaved m Hm.
  - cbn [inner length] in *. assert (m = 0%nat) by lia. subst m. cbn [nth].
    rewrite (N_rec_W U Usorted). replace (span - S q + r0 + 0)%nat with span by lia.
    replace (span - S q + r0)%nat with span in Hsaved by lia.
    rewrite (N_support U Usorted q (S span) u) by (left; lra). rewrite Hsaved. ring.
  - cbn [inner]. cbn [length] in *.
    set (i := (span - S q + r0)%nat) in *.
    assert (Hx : x = Nn q (S i) u).
    { specialize (Hnth 0%nat ltac:(lia)). cbn [nth] in Hnth. rewrite Hnth. f_equal. lia. }
    assert (Hr : right (S r0) = U (S i + q + 1) - u) by (unfold right; f_equal; f_equal; lia).
    assert (Hl : left (S q - r0) = u - U (S i)) by (unfold left; f_equal; f_equal; lia).
    assert (Hd : 0 < U (S i + q + 1) - U (S i)).
    { pose proof (Um' (S i) span ltac:(lia)). pose proof (Um' (S span) (S i + q + 1) ltac:(lia)). lra. }
    destruct m as [|m'].
    + cbn [nth]. rewrite (N_rec_W U Usorted). replace (i + 0)%nat with i by lia.
      rewrite Hsaved. f_equal. rewrite Hr, Hl, Hx. unfold Wq. field; repeat split; lra.
    + cbn [nth]. replace (i + S m')%nat with (span - S q + S r0 + m')%nat by lia.
      apply IH; try lia.
      * intros m2 Hm2. specialize (Hnth (S m2) ltac:(lia)). cbn [nth] in Hnth. rewrite Hnth. f_equal. lia.
      * replace (span - S q + S r0)%nat with (S i) by lia. rewrite Hr, Hl, Hx. unfold Wq. field; repeat split; lra.
Qed.

Lemma inner_length j : forall l r s, length (inner j r l s) = S (length l).
Proof. induction l; simpl; intros; auto. Qed.
Lemma bf_length p : length (bf p) = S p.
Proof. induction p; simpl; auto. rewrite inner_length, IHp. reflexivity. Qed.

Theorem bf_is_cox_de_boor p : (p <= span)%nat ->
  forall r, (r <= p)%nat -> nth r (bf p) 0 = Nn p (span - p + r) u.
Proof.
  induction p as [|q IH]; intros Hp r Hr.
  - assert (r = 0%nat) by lia. subst r. cbn. replace (span - 0 + 0)%nat with span by lia.
    unfold ind. destruct (Rle_dec (U span) u); destruct (Rlt_dec u (U (S span))); lra.
  - cbn [bf]. replace (span - S q + r)%nat with (span - S q + 0 + r)%nat by lia.
    apply inner_spec; try lia.
    + rewrite bf_length. lia.
    + intros m Hm. rewrite bf_length in Hm. rewrite IH by lia. f_equal. lia.
    + rewrite (N_support U Usorted q (span - S q + 0) u). ring.
      right. replace (span - S q + 0 + q + 1)%nat with span by lia. lra.
    + rewrite bf_length. lia.
Qed.
End A22.
