(* C06, general counts, volumes.  operations.insert_knot gathers, per index of the insertion direction, the ROW of all
   control points with that index and runs helpers.knot_insertion on rows (Model: knot_insertion_rows);
   operations.remove_knot gathers the same rows, but the model of helpers.knot_removal sees each row flattened to one
   long point (td = point dimension: only the first point of the row enters the removability test) and cuts the
   result back into points with `chunk`.
   - flattening commutes with insertion (chunk-wise homomorphism of the de Boor triangle), so the flattened rows of
     the inserted volume are the r-fold insertion of the flattened rows of the original volume;
   - Proofs/KnotRemGeneral.v (valid for points of any dimension and any td) then gives the (r - j)-fold insertion;
   - cutting back gives exactly the net operations.insert_knot builds for the count r - j. *)
From Coq Require Import List Reals Lra Lia Arith Bool.
From NV Require Import Scalar.Ops Model.Common Model.Basis Model.KnotIns Model.InsertKnot Model.KnotRem
  Proofs.BasisR Proofs.KnotInsR Proofs.KnotInsN Proofs.InsertKnotR Proofs.InsertNR Proofs.InsertDirR Proofs.InsertVolR
  Proofs.KnotRemR Proofs.KnotRemGeneral Proofs.KnotRemGeneralDir.
Import ListNotations.
Local Open Scope nat_scope.

(* ------------------------------------------------------------------ lists *)
Lemma combine_skipn {A B} : forall n (l : list A) (l' : list B), skipn n (combine l l') = combine (skipn n l) (skipn n l').
Proof.
  induction n as [|n IH]; intros [|a l] [|b l']; cbn [skipn combine]; auto.
  destruct (skipn n l); reflexivity.
Qed.

Lemma chunk_lerp a (x y : list R) d c : chunk (lerp Rops a x y) d c = lerp Rops a (chunk x d c) (chunk y d c).
Proof. unfold chunk, lerp. rewrite skipn_map, firstn_map, combine_skipn, combine_firstn. reflexivity. Qed.

Lemma chunk_nil d c : chunk (@nil R) d c = [].
Proof. unfold chunk. rewrite skipn_nil, firstn_nil. reflexivity. Qed.

Lemma length_concat_const (row : list (list R)) d :
  (forall pt, In pt row -> length pt = d) -> length (concat row) = d * length row.
Proof.
  induction row as [|x row IH]; intros H; cbn [concat length]; [lia|].
  rewrite app_length. rewrite IH by (intros pt Hp; apply H; right; exact Hp).
  rewrite (H x) by (left; reflexivity). rewrite Nat.mul_succ_r. lia.
Qed.

Lemma chunk_concat d : forall (row : list (list R)) c,
  (forall pt, In pt row -> length pt = d) -> c < length row -> chunk (concat row) d c = nth c row [].
Proof.
  induction row as [|x row IH]; intros c H Hc; [cbn in Hc; lia|].
  assert (Hx : length x = d) by (apply H; left; reflexivity).
  cbn [concat]. destruct c as [|c].
  - unfold chunk. cbn [Nat.mul skipn nth]. rewrite firstn_app, Hx, Nat.sub_diag. cbn [firstn].
    rewrite firstn_all2 by lia. apply app_nil_r.
  - unfold chunk. cbn [nth]. replace (S c * d) with (d + c * d) by lia.
    rewrite skipn_app, Hx. rewrite skipn_all2 by lia. replace (d + c * d - d) with (c * d) by lia. cbn [app].
    apply IH; [intros pt Hp; apply H; right; exact Hp|cbn in Hc; lia].
Qed.

Lemma skipn_skipn_add {A} : forall a b (l : list A), skipn a (skipn b l) = skipn (b + a) l.
Proof.
  intros a. induction b as [|b IH]; intros l; [reflexivity|].
  destruct l as [|x l]; [cbn; apply skipn_nil|]. cbn [skipn Nat.add]. apply IH.
Qed.

Lemma eq_of_chunks d : forall m (l1 l2 : list R), length l1 = d * m -> length l2 = d * m ->
  (forall c, c < m -> chunk l1 d c = chunk l2 d c) -> l1 = l2.
Proof.
  induction m as [|m IH]; intros l1 l2 H1 H2 Hc.
  - rewrite Nat.mul_0_r in *. destruct l1, l2; try discriminate; reflexivity.
  - rewrite Nat.mul_succ_r in *.
    rewrite <- (firstn_skipn d l1), <- (firstn_skipn d l2). f_equal.
    + apply (Hc 0). lia.
    + apply IH; rewrite ?skipn_length; try lia.
      intros c Hc'. specialize (Hc (S c) ltac:(lia)). unfold chunk in *.
      rewrite !skipn_skipn_add. replace (d + c * d) with (S c * d) by lia. exact Hc.
Qed.

Lemma map_nth_seq {A} (l : list A) dflt n : length l = n -> map (fun i => nth i l dflt) (seq 0 n) = l.
Proof.
  intros H. apply nth_ext with (d := dflt) (d' := dflt).
  - rewrite map_length, seq_length. lia.
  - intros i Hi. rewrite map_length, seq_length in Hi. rewrite InsertDirR.nth_map_seq by exact Hi. reflexivity.
Qed.

Lemma map_seq_nth {A B} (f : A -> B) (l : list A) dflt n : length l = n -> map (fun i => f (nth i l dflt)) (seq 0 n) = map f l.
Proof.
  intros H. transitivity (map f (map (fun i => nth i l dflt) (seq 0 n))); [rewrite map_map; reflexivity|].
  rewrite map_nth_seq by exact H. reflexivity.
Qed.

(* ------------------------------------------------------------------ insertion commutes with chunk-like maps *)
Section Hom.
Variable h : list R -> list R.
Hypothesis h_lerp : forall a x y, h (lerp Rops a x y) = lerp Rops a (h x) (h y).
Hypothesis h_nil : h [] = [].
Variables (p : nat) (U : list R) (P : list (list R)) (u : R) (num s k : nat).
Hypothesis Hsp : s <= p.
Hypothesis Hpk : p <= k.
Hypothesis Hk : k < length P.
Hypothesis Hnum : num <= p - s.

Lemma getA_hom i : getA [] (map h P) i = h (getA [] P i).
Proof. unfold getA. transitivity (nth i (map h P) (h [])); [rewrite h_nil; reflexivity|apply map_nth]. Qed.

Lemma Rtri_hom : forall j i, Rtri Rops (lerp Rops) [] p U (map h P) u k j i = h (Rtri Rops (lerp Rops) [] p U P u k j i).
Proof.
  induction j as [|j IH]; intros i; cbn [Rtri].
  - apply getA_hom.
  - rewrite h_lerp, !IH. reflexivity.
Qed.

Lemma KI_hom i : getp (knot_insertion Rops p U (map h P) u num s k) i = h (getp (knot_insertion Rops p U P u num s k) i).
Proof.
  change (getA [] (knot_insertion_g Rops (lerp Rops) [] p U (map h P) u num s k) i =
          h (getA [] (knot_insertion_g Rops (lerp Rops) [] p U P u num s k) i)).
  rewrite !knot_insertion_g_closed by (rewrite ?map_length; auto).
  unfold ki_closed. bdestr; rewrite ?Rtri_hom, ?getA_hom; reflexivity.
Qed.
End Hom.

(* ------------------------------------------------------------------ rows: removal on flattened rows *)
Section RowsRem.
Variables (td : nat) (tol2 : R) (p : nat) (U : list R) (C : list (list (list R))) (u : R) (s k d m r : nat).
Hypothesis Hsr : s + r <= p.
Hypothesis Hpk : p <= k.
Hypothesis HkC : k < length C.
Hypothesis HkU : k + p < length U.
Hypothesis Hm : 0 < m.
Hypothesis Hrows : forall i, i < length C -> length (nth i C []) = m.
Hypothesis Hpts : forall i c, i < length C -> c < m -> length (nth c (nth i C []) []) = d.
Hypothesis Htol : (0 <= tol2)%R.
Hypothesis HsepL : forall i, k - p < i <= k - s -> (knR U i < u)%R.
Hypothesis HsepR : forall i, k < i <= k + p -> (u < knR U i)%R.

Let LP : list (list R) := map (@concat R) C.
Let KR (n : nat) := knot_insertion_rows Rops p U C u n s k.

Lemma row_in i pt : i < length C -> In pt (nth i C []) -> length pt = d.
Proof.
  intros Hi Hin. destruct (In_nth _ _ [] Hin) as (c & Hc & <-). rewrite Hrows in Hc by exact Hi. apply Hpts; assumption.
Qed.

Lemma LP_length : length LP = length C.
Proof. unfold LP. apply map_length. Qed.

Lemma LP_nth i : getp LP i = concat (nth i C []).
Proof. unfold getp, LP. change (@nil R) with (concat (@nil (list R))). apply map_nth. Qed.

Lemma LP_dim i : i < length LP -> length (getp LP i) = d * m.
Proof.
  intros Hi. rewrite LP_length in Hi. rewrite LP_nth. rewrite (length_concat_const _ d), Hrows by (auto; intros; eapply row_in; eauto).
  reflexivity.
Qed.

Lemma fibre_chunk c : c < m -> map (fun pt => chunk pt d c) LP = fibre C c.
Proof.
  intros Hc. unfold LP, fibre. rewrite map_map.
  apply nth_ext with (d := chunk (concat []) d c) (d' := nth c [] []).
  - rewrite !map_length. reflexivity.
  - intros i Hi. rewrite map_length in Hi.
    rewrite (map_nth (fun x => chunk (concat x) d c)), (map_nth (fun row => nth c row [])).
    apply chunk_concat; [intros; eapply row_in; eauto|rewrite Hrows by exact Hi; exact Hc].
Qed.

Lemma fibre_len c : length (fibre C c) = length C.
Proof. unfold fibre. apply map_length. Qed.

Lemma fibre_dim c i : c < m -> i < length C -> length (getp (fibre C c) i) = d.
Proof. intros Hc Hi. rewrite fibre_nth. apply Hpts; assumption. Qed.

Lemma KR_length n : n <= r -> length (KR n) = length C + n.
Proof. intros Hn. unfold KR, knot_insertion_rows. destruct (ki_frame Rops (lerp_row Rops) [] p U C u n s k) as [HL _]; auto; lia. Qed.

Lemma KR_row n i c : n <= r -> i < length C + n -> c < m ->
  length (nth i (KR n) []) = m /\ nth c (nth i (KR n) []) [] = getp (knot_insertion Rops p U (fibre C c) u n s k) i.
Proof.
  intros Hn Hi Hc. split.
  - apply (rows_length Rops p U C u n s k m c); auto; lia.
  - apply (rows_fibre Rops p U C u n s k m c); auto; lia.
Qed.

Lemma KR_pt_dim n i pt : n <= r -> i < length C + n -> In pt (nth i (KR n) []) -> length pt = d.
Proof.
  intros Hn Hi Hin. destruct (In_nth _ _ [] Hin) as (c & Hc & <-).
  destruct (KR_row n i 0 Hn Hi Hm) as [HL _]. rewrite HL in Hc.
  destruct (KR_row n i c Hn Hi Hc) as [_ E]. rewrite E.
  apply ki_dim; try lia; rewrite ?fibre_len; try lia.
  intros q Hq. apply fibre_dim; assumption.
Qed.

(* flattening commutes with insertion *)
Lemma flat_ins n : n <= r -> map (@concat R) (KR n) = knot_insertion Rops p U LP u n s k.
Proof.
  intros Hn.
  assert (HLR : length (knot_insertion Rops p U LP u n s k) = length C + n).
  { destruct (knot_insertion_frame Rops p U LP u n s k) as [HL _]; rewrite ?LP_length in *; try lia. }
  apply nth_ext with (d := concat []) (d' := []).
  - rewrite map_length, KR_length, HLR by exact Hn. reflexivity.
  - intros i Hi. rewrite map_length, KR_length in Hi by exact Hn.
    rewrite (map_nth (@concat R)).
    apply (eq_of_chunks d m).
    + rewrite (length_concat_const _ d) by (intros pt Hp; eapply KR_pt_dim; eauto).
      destruct (KR_row n i 0 Hn Hi Hm) as [HL _]. rewrite HL. reflexivity.
    + fold (getp (knot_insertion Rops p U LP u n s k) i). apply ki_dim; rewrite ?LP_length; try lia.
      intros q Hq. apply LP_dim. rewrite LP_length. exact Hq.
    + intros c Hc. destruct (KR_row n i c Hn Hi Hc) as [HL E].
      rewrite chunk_concat; [|intros pt Hp; eapply KR_pt_dim; eauto|rewrite HL; exact Hc].
      rewrite E. fold (getp (knot_insertion Rops p U LP u n s k) i).
      rewrite <- (KI_hom (fun pt => chunk pt d c)); rewrite ?LP_length; try lia.
      * rewrite fibre_chunk by exact Hc. reflexivity.
      * intros. apply chunk_lerp.
      * apply chunk_nil.
Qed.

(* [G] knot_removal (count j) on the flattened rows of the r-fold row insertion = the flattened rows of the (r-j)-fold one *)
Theorem rows_remove_j_insert_r j : 1 <= j <= r ->
  knot_removal Rops td tol2 p (knot_insertion_kv U u k r) (map (@concat R) (KR r)) u j (s + r) (k + r) = map (@concat R) (KR (r - j)).
Proof.
  intros Hj. rewrite !flat_ins by lia.
  apply (remove_j_insert_r_seps td tol2 p U LP u s k (d * m) r j); try assumption; rewrite ?LP_length; try lia.
  rewrite Forall_forall. intros pt Hin. destruct (In_nth _ _ [] Hin) as (i & Hi & <-). apply LP_dim. exact Hi.
Qed.

(* ... and cutting the long points back into points gives the rows of the (r-j)-fold insertion *)
Theorem rows_remove_chunk j i c : 1 <= j <= r -> i < length C + (r - j) -> c < m ->
  chunk (getp (knot_removal Rops td tol2 p (knot_insertion_kv U u k r) (map (@concat R) (KR r)) u j (s + r) (k + r)) i) d c
  = nth c (nth i (KR (r - j)) []) [].
Proof.
  intros Hj Hi Hc. rewrite rows_remove_j_insert_r by exact Hj.
  unfold getp. change (@nil R) with (concat (@nil (list R))). rewrite (map_nth (@concat R)).
  destruct (KR_row (r - j) i c ltac:(lia) Hi Hc) as [HL _].
  apply chunk_concat; [intros pt Hp; eapply (KR_pt_dim (r - j)); eauto; lia|rewrite HL; exact Hc].
Qed.
End RowsRem.

(* ------------------------------------------------------------------ more list reindexing *)
Lemma flat2_concat {A B C} (F : A -> B -> list C) (vs : list B) : forall ws : list A,
  flat_map (fun w => flat_map (F w) vs) ws = concat (flat_map (fun w => map (F w) vs) ws).
Proof.
  induction ws as [|w ws IH]; [reflexivity|].
  cbn [flat_map]. rewrite concat_app, <- flat_map_concat_map, IH. reflexivity.
Qed.

Lemma reindex2 {A} (row : list A) dflt a b : length row = a * b ->
  flat_map (fun w => map (fun v => nth (v + w * a) row dflt) (seq 0 a)) (seq 0 b) = row.
Proof.
  intros HL.
  assert (Hlen : forall i, i < b -> length (map (fun v => nth (v + i * a) row dflt) (seq 0 a)) = a)
    by (intros; rewrite map_length, seq_length; reflexivity).
  apply nth_ext with (d := dflt) (d' := dflt).
  - rewrite (flat_map_length_const _ a) by exact Hlen. lia.
  - intros n Hn. rewrite (flat_map_length_const _ a) in Hn by exact Hlen.
    assert (Ha : 0 < a) by (destruct a; [lia|lia]).
    pose proof (Nat.div_mod n a ltac:(lia)) as Hdm.
    pose proof (Nat.mod_upper_bound n a ltac:(lia)) as Hmod.
    assert (Hq : n / a < b) by (apply Nat.div_lt_upper_bound; lia).
    rewrite Hdm at 1. rewrite (Nat.add_comm (a * (n / a))).
    rewrite (nth_flat_map_const _ a); auto.
    rewrite InsertDirR.nth_map_seq by exact Hmod. f_equal. lia.
Qed.

Lemma flat2_nth_concat {A} (row : list (list A)) a b : length row = a * b ->
  flat_map (fun w => flat_map (fun v => nth (v + w * a) row []) (seq 0 a)) (seq 0 b) = concat row.
Proof. intros HL. rewrite flat2_concat. rewrite reindex2 by exact HL. reflexivity. Qed.

Lemma flat1_nth_concat {A} (row : list (list A)) n : length row = n ->
  flat_map (fun i => nth i row []) (seq 0 n) = concat row.
Proof. intros HL. rewrite flat_map_concat_map. rewrite map_nth_seq by exact HL. reflexivity. Qed.

Lemma reindex3 {A} (P : list A) dflt a b c : length P = a * b * c ->
  flat_map (fun w => flat_map (fun u_ => map (fun v => nth (v + u_ * a + w * b * a) P dflt) (seq 0 a)) (seq 0 b)) (seq 0 c) = P.
Proof.
  intros HL.
  etransitivity; [|apply (reindex2 P dflt (a * b) c); lia].
  apply flat_map_seq_ext. intros w Hw.
  set (Pw := map (fun i => nth (i + w * (a * b)) P dflt) (seq 0 (a * b))).
  etransitivity; [|apply (reindex2 Pw dflt a b); unfold Pw; rewrite map_length, seq_length; reflexivity].
  apply flat_map_seq_ext. intros u_ Hu. apply map_seq_ext. intros v Hv.
  unfold Pw. rewrite InsertDirR.nth_map_seq by nia. f_equal. lia.
Qed.

(* zero insertions: the generic (row) algorithm returns its input *)
Lemma kig_zero {A} (lerpA : R -> A -> A -> A) (dA : A) p (U : list R) (P : list A) u s k :
  s <= p -> p <= k -> k < length P -> knot_insertion_g Rops lerpA dA p U P u 0 s k = P.
Proof.
  intros H1 H2 H3. apply (nth_ext _ _ dA dA).
  - destruct (ki_frame Rops lerpA dA p U P u 0 s k) as [HL _]; auto; lia.
  - intros i _. change (nth i ?l dA) with (getA dA l i).
    rewrite knot_insertion_g_closed by (auto; lia). unfold ki_closed.
    bdestr; try reflexivity; cbn [Rtri]; unfold getA; f_equal; lia.
Qed.

(* ------------------------------------------------------------------ w direction *)
Section VolW.
Variables (tol2 : R) (g : @vol R) (t : R) (s k d r : nat).
Notation su := (v_su g). Notation sv := (v_sv g). Notation sw := (v_sw g).
Hypothesis Hsr : s + r <= v_pw g.
Hypothesis Hpk : v_pw g <= k.
Hypothesis Hk : k < sw.
Hypothesis HkU : k + v_pw g < length (v_Uw g).
Hypothesis Hsu : 0 < su.
Hypothesis Hsv : 0 < sv.
Hypothesis Hdim : forall i, i < su * sv * sw -> length (getp (v_P g) i) = d.
Hypothesis Htol : (0 <= tol2)%R.
Hypothesis HsepL : forall i, k - v_pw g < i <= k - s -> (knR (v_Uw g) i < t)%R.
Hypothesis HsepR : forall i, k < i <= k + v_pw g -> (t < knR (v_Uw g) i)%R.

Let g' := vol_after_w g t r s k.
Let uv := su * sv.
Let C := map (fun w_ => map (fun i => getp (v_P g) (i + w_ * uv)) (seq 0 uv)) (seq 0 sw).
Let KR (n : nat) := knot_insertion_rows Rops (v_pw g) (v_Uw g) C t n s k.

Lemma Cw_length : length C = sw.
Proof. unfold C. rewrite map_length, seq_length. reflexivity. Qed.
Lemma Cw_rows i : i < length C -> length (nth i C []) = uv.
Proof. intros Hi. rewrite Cw_length in Hi. unfold C. rewrite InsertDirR.nth_map_seq by exact Hi. rewrite map_length, seq_length. reflexivity. Qed.
Lemma Cw_pts i c : i < length C -> c < uv -> length (nth c (nth i C []) []) = d.
Proof.
  intros Hi Hc. rewrite Cw_length in Hi. unfold C. rewrite InsertDirR.nth_map_seq by exact Hi.
  rewrite InsertDirR.nth_map_seq by exact Hc. apply Hdim. unfold uv in *. nia.
Qed.
Lemma uv_pos : 0 < uv.
Proof. unfold uv. nia. Qed.

Lemma net_w_eq n : vol_net_w Rops g t n s k = flat_map (fun w_ => nth w_ (KR n) []) (seq 0 (sw + n)).
Proof. reflexivity. Qed.

Lemma KRw_length n : n <= r -> length (KR n) = sw + n.
Proof.
  intros Hn. unfold KR. rewrite (KR_length (v_pw g) (v_Uw g) C t s k uv r); rewrite ?Cw_length; auto. exact uv_pos.
Qed.

Lemma KRw_row n i : n <= r -> i < sw + n -> length (nth i (KR n) []) = uv.
Proof.
  intros Hn Hi.
  destruct (KR_row (v_pw g) (v_Uw g) C t s k uv r Hsr Hpk ltac:(rewrite Cw_length; exact Hk) HkU uv_pos Cw_rows n i 0 Hn
              ltac:(rewrite Cw_length; exact Hi) uv_pos) as [HL _]. exact HL.
Qed.

Lemma net_w_nth n i w_ : n <= r -> i < uv -> w_ < sw + n ->
  getp (vol_net_w Rops g t n s k) (i + w_ * uv) = nth i (nth w_ (KR n) []) [].
Proof.
  intros Hn Hi Hw. rewrite net_w_eq. unfold getp. replace (i + w_ * uv) with (i + uv * w_) by lia.
  apply (nth_flat_map_const (fun w_ => nth w_ (KR n) []) uv); auto.
  intros q Hq. apply KRw_row; assumption.
Qed.

Lemma pdim_w : pdim (v_P g') = d.
Proof.
  unfold pdim, g', vol_after_w. cbn [v_P].
  pose proof (net_w_nth r 0 0 ltac:(lia) uv_pos ltac:(lia)) as E. cbn [Nat.mul Nat.add] in E. rewrite E.
  apply (KR_pt_dim (v_pw g) (v_Uw g) C t s k d uv r Hsr Hpk ltac:(rewrite Cw_length; exact Hk) HkU uv_pos Cw_rows Cw_pts r 0);
    try lia.
  - rewrite Cw_length. lia.
  - apply nth_In. change (0 < length (nth 0 (KR r) [])). rewrite KRw_row by lia. exact uv_pos.
Qed.

Lemma rem_cpt2d_w :
  map (fun w_ => flat_map (fun i => getp (v_P g') (i + w_ * (v_su g' * v_sv g'))) (seq 0 (v_su g' * v_sv g'))) (seq 0 (v_sw g'))
  = map (@concat R) (KR r).
Proof.
  unfold g', vol_after_w. cbn [v_P v_su v_sv v_sw]. fold uv.
  rewrite <- (map_seq_nth (@concat R) (KR r) [] (sw + r)) by (apply KRw_length; lia).
  apply map_seq_ext. intros w_ Hw.
  rewrite <- (flat1_nth_concat (nth w_ (KR r) []) uv) by (apply KRw_row; lia).
  apply flat_map_seq_ext. intros i Hi. apply net_w_nth; lia.
Qed.

(* [G] j removals in w after r insertions in w: the net operations.insert_knot builds for the count r - j *)
Theorem vol_remove_j_insert_r_w j : 1 <= j <= r ->
  vol_rem_w Rops tol2 g' t j (s + r) (k + r) = vol_net_w Rops g t (r - j) s k.
Proof.
  intros Hj. unfold vol_rem_w. rewrite pdim_w. rewrite rem_cpt2d_w.
  replace (v_sw g' - j) with (sw + (r - j)) by (unfold g', vol_after_w; cbn [v_sw]; lia).
  replace (v_su g' * v_sv g') with uv by reflexivity.
  replace (v_pw g') with (v_pw g) by reflexivity. replace (v_Uw g') with (knot_insertion_kv (v_Uw g) t k r) by reflexivity.
  rewrite net_w_eq. apply flat_map_seq_ext. intros w_ Hw.
  rewrite <- (map_nth_seq (nth w_ (KR (r - j)) []) [] uv) by (apply KRw_row; lia).
  apply map_seq_ext. intros i Hi.
  apply (rows_remove_chunk d tol2 (v_pw g) (v_Uw g) C t s k d uv r); try assumption;
    try exact uv_pos; try exact Cw_rows; try exact Cw_pts; rewrite ?Cw_length; lia.
Qed.
Lemma net_w_zero : length (v_P g) = su * sv * sw -> vol_net_w Rops g t 0 s k = v_P g.
Proof.
  intros HL. rewrite net_w_eq. unfold KR, knot_insertion_rows. rewrite kig_zero by (rewrite ?Cw_length; lia).
  rewrite Nat.add_0_r. unfold C.
  etransitivity; [|apply (reindex2 (v_P g) [] uv sw); unfold uv; lia].
  apply flat_map_seq_ext. intros w_ Hw. rewrite InsertDirR.nth_map_seq by lia. reflexivity.
Qed.

(* [G] r removals in w after r insertions in w restore the control net *)
Theorem vol_remove_r_insert_r_w : 1 <= r -> length (v_P g) = su * sv * sw ->
  vol_rem_w Rops tol2 g' t r (s + r) (k + r) = v_P g.
Proof. intros Hr HL. rewrite vol_remove_j_insert_r_w by lia. rewrite Nat.sub_diag. apply net_w_zero. exact HL. Qed.
End VolW.

(* ------------------------------------------------------------------ u direction *)
Section VolU.
Variables (tol2 : R) (g : @vol R) (t : R) (s k d r : nat).
Notation su := (v_su g). Notation sv := (v_sv g). Notation sw := (v_sw g).
Hypothesis Hsr : s + r <= v_pu g.
Hypothesis Hpk : v_pu g <= k.
Hypothesis Hk : k < su.
Hypothesis HkU : k + v_pu g < length (v_Uu g).
Hypothesis Hsv : 0 < sv.
Hypothesis Hsw : 0 < sw.
Hypothesis Hdim : forall i, i < su * sv * sw -> length (getp (v_P g) i) = d.
Hypothesis Htol : (0 <= tol2)%R.
Hypothesis HsepL : forall i, k - v_pu g < i <= k - s -> (knR (v_Uu g) i < t)%R.
Hypothesis HsepR : forall i, k < i <= k + v_pu g -> (t < knR (v_Uu g) i)%R.

Let g' := vol_after_u g t r s k.
Let m := sv * sw.
Let C := map (fun u_ => flat_map (fun w_ => map (fun v_ => getp (v_P g) (vidx g u_ v_ w_)) (seq 0 sv)) (seq 0 sw)) (seq 0 su).
Let KR (n : nat) := knot_insertion_rows Rops (v_pu g) (v_Uu g) C t n s k.

Lemma m_pos_u : 0 < m.
Proof. unfold m. nia. Qed.
Lemma Cu_length : length C = su.
Proof. unfold C. rewrite map_length, seq_length. reflexivity. Qed.
Lemma Cu_rows i : i < length C -> length (nth i C []) = m.
Proof.
  intros Hi. rewrite Cu_length in Hi. unfold C. rewrite InsertDirR.nth_map_seq by exact Hi.
  apply flat_map_length_const. intros. rewrite map_length, seq_length. reflexivity.
Qed.
Lemma Cu_pts i c : i < length C -> c < m -> length (nth c (nth i C []) []) = d.
Proof.
  intros Hi Hc. rewrite Cu_length in Hi. unfold C. rewrite InsertDirR.nth_map_seq by exact Hi.
  unfold m in Hc.
  pose proof (Nat.div_mod c sv ltac:(lia)) as Hdm.
  pose proof (Nat.mod_upper_bound c sv ltac:(lia)) as Hmod.
  assert (Hq : c / sv < sw) by (apply Nat.div_lt_upper_bound; lia).
  rewrite Hdm at 1. rewrite (Nat.add_comm (sv * (c / sv))).
  rewrite (nth_flat_map_const _ sv); auto.
  2:{ intros. rewrite map_length, seq_length. reflexivity. }
  rewrite InsertDirR.nth_map_seq by exact Hmod. apply Hdim. unfold vidx. nia.
Qed.
Lemma HkCu : k < length C.
Proof. rewrite Cu_length. exact Hk. Qed.

Lemma net_u_eq n : vol_net_u Rops g t n s k =
  flat_map (fun w_ => flat_map (fun u_ => map (fun v_ => getp (nth u_ (KR n) []) (v_ + w_ * sv)) (seq 0 sv)) (seq 0 (su + n))) (seq 0 sw).
Proof. reflexivity. Qed.

Lemma KRu_length n : n <= r -> length (KR n) = su + n.
Proof.
  intros Hn. unfold KR. rewrite (KR_length (v_pu g) (v_Uu g) C t s k m r Hsr Hpk HkCu HkU m_pos_u n Hn). rewrite Cu_length. reflexivity.
Qed.

Lemma KRu_row n i : n <= r -> i < su + n -> length (nth i (KR n) []) = m.
Proof.
  intros Hn Hi.
  destruct (KR_row (v_pu g) (v_Uu g) C t s k m r Hsr Hpk HkCu HkU m_pos_u Cu_rows n i 0 Hn
              ltac:(rewrite Cu_length; exact Hi) m_pos_u) as [HL _]. exact HL.
Qed.

Lemma net_u_nth n u_ v_ w_ : n <= r -> u_ < su + n -> v_ < sv -> w_ < sw ->
  getp (vol_net_u Rops g t n s k) (v_ + u_ * sv + w_ * (su + n) * sv) = nth (v_ + w_ * sv) (nth u_ (KR n) []) [].
Proof.
  intros Hn Hu Hv Hw. rewrite net_u_eq.
  replace (v_ + u_ * sv + w_ * (su + n) * sv) with ((v_ + sv * u_) + (sv * (su + n)) * w_) by lia.
  unfold getp at 1.
  rewrite (nth_flat_map_const (fun w_ => flat_map (fun u_ => map (fun v_ => getp (nth u_ (KR n) []) (v_ + w_ * sv)) (seq 0 sv)) (seq 0 (su + n)))
             (sv * (su + n))); auto; try nia.
  2:{ intros q Hq. apply flat_map_length_const. intros. rewrite map_length, seq_length. reflexivity. }
  rewrite (nth_flat_map_const (fun u_ => map (fun v_ => getp (nth u_ (KR n) []) (v_ + w_ * sv)) (seq 0 sv)) sv); auto.
  2:{ intros. rewrite map_length, seq_length. reflexivity. }
  rewrite InsertDirR.nth_map_seq by exact Hv. reflexivity.
Qed.

Lemma pdim_u : pdim (v_P g') = d.
Proof.
  unfold pdim, g', vol_after_u. cbn [v_P].
  pose proof (net_u_nth r 0 0 0 ltac:(lia) ltac:(lia) Hsv Hsw) as E. cbn [Nat.mul Nat.add] in E. rewrite E.
  apply (KR_pt_dim (v_pu g) (v_Uu g) C t s k d m r Hsr Hpk HkCu HkU m_pos_u Cu_rows Cu_pts r 0); try lia.
  - rewrite Cu_length. lia.
  - apply nth_In. change (0 < length (nth 0 (KR r) [])). rewrite KRu_row by lia. exact m_pos_u.
Qed.

Lemma rem_cpt2d_u :
  map (fun u_ => flat_map (fun w_ => flat_map (fun v_ => getp (v_P g') (vidx g' u_ v_ w_)) (seq 0 (v_sv g'))) (seq 0 (v_sw g'))) (seq 0 (v_su g'))
  = map (@concat R) (KR r).
Proof.
  unfold g', vol_after_u, vidx. cbn [v_P v_su v_sv v_sw].
  rewrite <- (map_seq_nth (@concat R) (KR r) [] (su + r)) by (apply KRu_length; lia).
  apply map_seq_ext. intros u_ Hu.
  rewrite <- (flat2_nth_concat (nth u_ (KR r) []) sv sw) by (apply KRu_row; lia).
  apply flat_map_seq_ext. intros w_ Hw. apply flat_map_seq_ext. intros v_ Hv. apply net_u_nth; lia.
Qed.

(* [G] j removals in u after r insertions in u: the net operations.insert_knot builds for the count r - j *)
Theorem vol_remove_j_insert_r_u j : 1 <= j <= r ->
  vol_rem_u Rops tol2 g' t j (s + r) (k + r) = vol_net_u Rops g t (r - j) s k.
Proof.
  intros Hj. unfold vol_rem_u. rewrite pdim_u. rewrite rem_cpt2d_u.
  replace (v_su g' - j) with (su + (r - j)) by (unfold g', vol_after_u; cbn [v_su]; lia).
  replace (v_sv g') with sv by reflexivity. replace (v_sw g') with sw by reflexivity.
  replace (v_pu g') with (v_pu g) by reflexivity. replace (v_Uu g') with (knot_insertion_kv (v_Uu g) t k r) by reflexivity.
  rewrite net_u_eq. apply flat_map_seq_ext. intros w_ Hw. apply flat_map_seq_ext. intros u_ Hu.
  apply map_seq_ext. intros v_ Hv. unfold getp at 2.
  apply (rows_remove_chunk d tol2 (v_pu g) (v_Uu g) C t s k d m r Hsr Hpk HkCu HkU m_pos_u Cu_rows Cu_pts Htol HsepL HsepR j u_ (v_ + w_ * sv) Hj).
  - rewrite Cu_length. lia.
  - unfold m. nia.
Qed.
Lemma net_u_zero : length (v_P g) = su * sv * sw -> vol_net_u Rops g t 0 s k = v_P g.
Proof.
  intros HL. rewrite net_u_eq. unfold KR, knot_insertion_rows. rewrite kig_zero by (rewrite ?Cu_length; lia).
  rewrite Nat.add_0_r.
  etransitivity; [|apply (reindex3 (v_P g) [] sv su sw); lia].
  apply flat_map_seq_ext. intros w_ Hw. apply flat_map_seq_ext. intros u_ Hu. apply map_seq_ext. intros v_ Hv.
  unfold C. rewrite InsertDirR.nth_map_seq by exact Hu. unfold getp at 1.
  replace (v_ + w_ * sv) with (v_ + sv * w_) by lia.
  rewrite (nth_flat_map_const (fun w_ => map (fun v_ => getp (v_P g) (vidx g u_ v_ w_)) (seq 0 sv)) sv); auto; try lia.
  2:{ intros. rewrite map_length, seq_length. reflexivity. }
  rewrite InsertDirR.nth_map_seq by lia. reflexivity.
Qed.

(* [G] r removals in u after r insertions in u restore the control net *)
Theorem vol_remove_r_insert_r_u : 1 <= r -> length (v_P g) = su * sv * sw ->
  vol_rem_u Rops tol2 g' t r (s + r) (k + r) = v_P g.
Proof. intros Hr HL. rewrite vol_remove_j_insert_r_u by lia. rewrite Nat.sub_diag. apply net_u_zero. exact HL. Qed.
End VolU.

(* ------------------------------------------------------------------ v direction *)
Section VolV.
Variables (tol2 : R) (g : @vol R) (t : R) (s k d r : nat).
Notation su := (v_su g). Notation sv := (v_sv g). Notation sw := (v_sw g).
Hypothesis Hsr : s + r <= v_pv g.
Hypothesis Hpk : v_pv g <= k.
Hypothesis Hk : k < sv.
Hypothesis HkU : k + v_pv g < length (v_Uv g).
Hypothesis Hsu : 0 < su.
Hypothesis Hsw : 0 < sw.
Hypothesis Hdim : forall i, i < su * sv * sw -> length (getp (v_P g) i) = d.
Hypothesis Htol : (0 <= tol2)%R.
Hypothesis HsepL : forall i, k - v_pv g < i <= k - s -> (knR (v_Uv g) i < t)%R.
Hypothesis HsepR : forall i, k < i <= k + v_pv g -> (t < knR (v_Uv g) i)%R.

Let g' := vol_after_v g t r s k.
Let m := su * sw.
Let C := map (fun v_ => flat_map (fun w_ => map (fun u_ => getp (v_P g) (vidx g u_ v_ w_)) (seq 0 su)) (seq 0 sw)) (seq 0 sv).
Let KR (n : nat) := knot_insertion_rows Rops (v_pv g) (v_Uv g) C t n s k.

Lemma m_pos_v : 0 < m.
Proof. unfold m. nia. Qed.
Lemma Cv_length : length C = sv.
Proof. unfold C. rewrite map_length, seq_length. reflexivity. Qed.
Lemma Cv_rows i : i < length C -> length (nth i C []) = m.
Proof.
  intros Hi. rewrite Cv_length in Hi. unfold C. rewrite InsertDirR.nth_map_seq by exact Hi.
  apply flat_map_length_const. intros. rewrite map_length, seq_length. reflexivity.
Qed.
Lemma Cv_pts i c : i < length C -> c < m -> length (nth c (nth i C []) []) = d.
Proof.
  intros Hi Hc. rewrite Cv_length in Hi. unfold C. rewrite InsertDirR.nth_map_seq by exact Hi.
  unfold m in Hc.
  pose proof (Nat.div_mod c su ltac:(lia)) as Hdm.
  pose proof (Nat.mod_upper_bound c su ltac:(lia)) as Hmod.
  assert (Hq : c / su < sw) by (apply Nat.div_lt_upper_bound; lia).
  rewrite Hdm at 1. rewrite (Nat.add_comm (su * (c / su))).
  rewrite (nth_flat_map_const _ su); auto.
  2:{ intros. rewrite map_length, seq_length. reflexivity. }
  rewrite InsertDirR.nth_map_seq by exact Hmod. apply Hdim. unfold vidx. nia.
Qed.
Lemma HkCv : k < length C.
Proof. rewrite Cv_length. exact Hk. Qed.

Lemma net_v_eq n : vol_net_v Rops g t n s k =
  flat_map (fun w_ => flat_map (fun u_ => map (fun v_ => getp (nth v_ (KR n) []) (u_ + w_ * su)) (seq 0 (sv + n))) (seq 0 su)) (seq 0 sw).
Proof. reflexivity. Qed.

Lemma KRv_length n : n <= r -> length (KR n) = sv + n.
Proof.
  intros Hn. unfold KR. rewrite (KR_length (v_pv g) (v_Uv g) C t s k m r Hsr Hpk HkCv HkU m_pos_v n Hn). rewrite Cv_length. reflexivity.
Qed.

Lemma KRv_row n i : n <= r -> i < sv + n -> length (nth i (KR n) []) = m.
Proof.
  intros Hn Hi.
  destruct (KR_row (v_pv g) (v_Uv g) C t s k m r Hsr Hpk HkCv HkU m_pos_v Cv_rows n i 0 Hn
              ltac:(rewrite Cv_length; exact Hi) m_pos_v) as [HL _]. exact HL.
Qed.

Lemma net_v_nth n u_ v_ w_ : n <= r -> u_ < su -> v_ < sv + n -> w_ < sw ->
  getp (vol_net_v Rops g t n s k) (v_ + u_ * (sv + n) + w_ * su * (sv + n)) = nth (u_ + w_ * su) (nth v_ (KR n) []) [].
Proof.
  intros Hn Hu Hv Hw. rewrite net_v_eq.
  replace (v_ + u_ * (sv + n) + w_ * su * (sv + n)) with ((v_ + (sv + n) * u_) + ((sv + n) * su) * w_) by lia.
  unfold getp at 1.
  rewrite (nth_flat_map_const (fun w_ => flat_map (fun u_ => map (fun v_ => getp (nth v_ (KR n) []) (u_ + w_ * su)) (seq 0 (sv + n))) (seq 0 su))
             ((sv + n) * su)); auto; try nia.
  2:{ intros q Hq. apply flat_map_length_const. intros. rewrite map_length, seq_length. reflexivity. }
  rewrite (nth_flat_map_const (fun u_ => map (fun v_ => getp (nth v_ (KR n) []) (u_ + w_ * su)) (seq 0 (sv + n))) (sv + n)); auto.
  2:{ intros. rewrite map_length, seq_length. reflexivity. }
  rewrite InsertDirR.nth_map_seq by exact Hv. reflexivity.
Qed.

Lemma pdim_v : pdim (v_P g') = d.
Proof.
  unfold pdim, g', vol_after_v. cbn [v_P].
  pose proof (net_v_nth r 0 0 0 ltac:(lia) Hsu ltac:(lia) Hsw) as E. cbn [Nat.mul Nat.add] in E. rewrite E.
  apply (KR_pt_dim (v_pv g) (v_Uv g) C t s k d m r Hsr Hpk HkCv HkU m_pos_v Cv_rows Cv_pts r 0); try lia.
  - rewrite Cv_length. lia.
  - apply nth_In. change (0 < length (nth 0 (KR r) [])). rewrite KRv_row by lia. exact m_pos_v.
Qed.

Lemma rem_cpt2d_v :
  map (fun v_ => flat_map (fun w_ => flat_map (fun u_ => getp (v_P g') (vidx g' u_ v_ w_)) (seq 0 (v_su g'))) (seq 0 (v_sw g'))) (seq 0 (v_sv g'))
  = map (@concat R) (KR r).
Proof.
  unfold g', vol_after_v, vidx. cbn [v_P v_su v_sv v_sw].
  rewrite <- (map_seq_nth (@concat R) (KR r) [] (sv + r)) by (apply KRv_length; lia).
  apply map_seq_ext. intros v_ Hv.
  rewrite <- (flat2_nth_concat (nth v_ (KR r) []) su sw) by (apply KRv_row; lia).
  apply flat_map_seq_ext. intros w_ Hw. apply flat_map_seq_ext. intros u_ Hu. apply net_v_nth; lia.
Qed.

(* [G] j removals in v after r insertions in v: the net operations.insert_knot builds for the count r - j *)
Theorem vol_remove_j_insert_r_v j : 1 <= j <= r ->
  vol_rem_v Rops tol2 g' t j (s + r) (k + r) = vol_net_v Rops g t (r - j) s k.
Proof.
  intros Hj. unfold vol_rem_v. rewrite pdim_v. rewrite rem_cpt2d_v.
  replace (v_sv g' - j) with (sv + (r - j)) by (unfold g', vol_after_v; cbn [v_sv]; lia).
  replace (v_su g') with su by reflexivity. replace (v_sw g') with sw by reflexivity.
  replace (v_pv g') with (v_pv g) by reflexivity. replace (v_Uv g') with (knot_insertion_kv (v_Uv g) t k r) by reflexivity.
  rewrite net_v_eq. apply flat_map_seq_ext. intros w_ Hw. apply flat_map_seq_ext. intros u_ Hu.
  apply map_seq_ext. intros v_ Hv. unfold getp at 2.
  apply (rows_remove_chunk d tol2 (v_pv g) (v_Uv g) C t s k d m r Hsr Hpk HkCv HkU m_pos_v Cv_rows Cv_pts Htol HsepL HsepR j v_ (u_ + w_ * su) Hj).
  - rewrite Cv_length. lia.
  - unfold m. nia.
Qed.
Lemma net_v_zero : length (v_P g) = su * sv * sw -> vol_net_v Rops g t 0 s k = v_P g.
Proof.
  intros HL. rewrite net_v_eq. unfold KR, knot_insertion_rows. rewrite kig_zero by (rewrite ?Cv_length; lia).
  rewrite Nat.add_0_r.
  etransitivity; [|apply (reindex3 (v_P g) [] sv su sw); lia].
  apply flat_map_seq_ext. intros w_ Hw. apply flat_map_seq_ext. intros u_ Hu. apply map_seq_ext. intros v_ Hv.
  unfold C. rewrite InsertDirR.nth_map_seq by lia. unfold getp at 1.
  replace (u_ + w_ * su) with (u_ + su * w_) by lia.
  rewrite (nth_flat_map_const (fun w_ => map (fun u_ => getp (v_P g) (vidx g u_ v_ w_)) (seq 0 su)) su); auto; try lia.
  2:{ intros. rewrite map_length, seq_length. reflexivity. }
  rewrite InsertDirR.nth_map_seq by lia. reflexivity.
Qed.

(* [G] r removals in v after r insertions in v restore the control net *)
Theorem vol_remove_r_insert_r_v : 1 <= r -> length (v_P g) = su * sv * sw ->
  vol_rem_v Rops tol2 g' t r (s + r) (k + r) = v_P g.
Proof. intros Hr HL. rewrite vol_remove_j_insert_r_v by lia. rewrite Nat.sub_diag. apply net_v_zero. exact HL. Qed.
End VolV.

(* ------------------------------------------------------------------ the volume is unchanged *)
(* [G] the volume object operations.remove_knot builds (one direction, count j) from the volume operations.insert_knot
   built (same direction, count r >= j) is literally the insertion result for the count r - j, hence (C04) has the points
   of the original volume. *)
Theorem vol_remove_preserves_volume_w tol2 (g : @vol R) (t : R) s k dim r j :
  sortedR (v_Uw g) -> length (v_Uw g) = v_sw g + v_pw g + 1 -> 1 <= j <= r -> s + r <= v_pw g -> v_pw g <= k -> k < v_sw g ->
  0 < v_su g -> 0 < v_sv g ->
  (knR (v_Uw g) k <= t < knR (v_Uw g) (k + 1))%R -> (knR (v_Uw g) (k - s) < t)%R ->
  (forall i, k - s < i <= k -> knR (v_Uw g) i = t) ->
  (forall i, i < v_su g * v_sv g * v_sw g -> length (getp (v_P g) i) = dim) -> (0 <= tol2)%R ->
  let g' := vol_after_w g t r s k in
  let g'' := mkV (v_pu g') (v_pv g') (v_pw g') (v_Uu g') (v_Uv g') (knot_removal_kv (v_Uw g') (k + r) j)
                 (v_su g') (v_sv g') (v_sw g' - j) (vol_rem_w Rops tol2 g' t j (s + r) (k + r)) in
  forall c tu tv tw, c < dim -> vol_pt g'' c tu tv tw = vol_pt g c tu tv tw.
Proof.
  intros HS HL Hj H1 H2 H3 Hsu Hsv Hu Hlt Hm Hd Ht g' g'' c tu tv tw Hc.
  destruct (sep_of_sorted (v_Uw g) t (v_pw g) s k HS ltac:(lia) Hlt ltac:(lra)) as [SL SR].
  assert (E : g'' = vol_after_w g t (r - j) s k).
  { unfold g'', g', vol_after_w. cbn [v_pu v_pv v_pw v_Uu v_Uv v_Uw v_su v_sv v_sw].
    fold (vol_after_w g t r s k).
    rewrite (vol_remove_j_insert_r_w tol2 g t s k dim r) by (auto; lia).
    rewrite rem_kv_ins_kv_partial by lia.
    replace (v_sw g + r - j) with (v_sw g + (r - j)) by lia. reflexivity. }
  rewrite E. apply (vol_insert_w_preserves g t (r - j) s k dim); auto; lia.
Qed.

Theorem vol_remove_preserves_volume_v tol2 (g : @vol R) (t : R) s k dim r j :
  sortedR (v_Uv g) -> length (v_Uv g) = v_sv g + v_pv g + 1 -> 1 <= j <= r -> s + r <= v_pv g -> v_pv g <= k -> k < v_sv g ->
  0 < v_su g -> 0 < v_sw g ->
  (knR (v_Uv g) k <= t < knR (v_Uv g) (k + 1))%R -> (knR (v_Uv g) (k - s) < t)%R ->
  (forall i, k - s < i <= k -> knR (v_Uv g) i = t) ->
  (forall i, i < v_su g * v_sv g * v_sw g -> length (getp (v_P g) i) = dim) -> (0 <= tol2)%R ->
  let g' := vol_after_v g t r s k in
  let g'' := mkV (v_pu g') (v_pv g') (v_pw g') (v_Uu g') (knot_removal_kv (v_Uv g') (k + r) j) (v_Uw g')
                 (v_su g') (v_sv g' - j) (v_sw g') (vol_rem_v Rops tol2 g' t j (s + r) (k + r)) in
  forall c tu tv tw, c < dim -> vol_pt g'' c tu tv tw = vol_pt g c tu tv tw.
Proof.
  intros HS HL Hj H1 H2 H3 Hsu Hsw Hu Hlt Hm Hd Ht g' g'' c tu tv tw Hc.
  destruct (sep_of_sorted (v_Uv g) t (v_pv g) s k HS ltac:(lia) Hlt ltac:(lra)) as [SL SR].
  assert (E : g'' = vol_after_v g t (r - j) s k).
  { unfold g'', g', vol_after_v. cbn [v_pu v_pv v_pw v_Uu v_Uv v_Uw v_su v_sv v_sw].
    fold (vol_after_v g t r s k).
    rewrite (vol_remove_j_insert_r_v tol2 g t s k dim r) by (auto; lia).
    rewrite rem_kv_ins_kv_partial by lia.
    replace (v_sv g + r - j) with (v_sv g + (r - j)) by lia. reflexivity. }
  rewrite E. apply (vol_insert_v_preserves g t (r - j) s k dim); auto; lia.
Qed.

Theorem vol_remove_preserves_volume_u tol2 (g : @vol R) (t : R) s k dim r j :
  sortedR (v_Uu g) -> length (v_Uu g) = v_su g + v_pu g + 1 -> 1 <= j <= r -> s + r <= v_pu g -> v_pu g <= k -> k < v_su g ->
  0 < v_sv g -> 0 < v_sw g ->
  (knR (v_Uu g) k <= t < knR (v_Uu g) (k + 1))%R -> (knR (v_Uu g) (k - s) < t)%R ->
  (forall i, k - s < i <= k -> knR (v_Uu g) i = t) ->
  (forall i, i < v_su g * v_sv g * v_sw g -> length (getp (v_P g) i) = dim) -> (0 <= tol2)%R ->
  let g' := vol_after_u g t r s k in
  let g'' := mkV (v_pu g') (v_pv g') (v_pw g') (knot_removal_kv (v_Uu g') (k + r) j) (v_Uv g') (v_Uw g')
                 (v_su g' - j) (v_sv g') (v_sw g') (vol_rem_u Rops tol2 g' t j (s + r) (k + r)) in
  forall c tu tv tw, c < dim -> vol_pt g'' c tu tv tw = vol_pt g c tu tv tw.
Proof.
  intros HS HL Hj H1 H2 H3 Hsv Hsw Hu Hlt Hm Hd Ht g' g'' c tu tv tw Hc.
  destruct (sep_of_sorted (v_Uu g) t (v_pu g) s k HS ltac:(lia) Hlt ltac:(lra)) as [SL SR].
  assert (E : g'' = vol_after_u g t (r - j) s k).
  { unfold g'', g', vol_after_u. cbn [v_pu v_pv v_pw v_Uu v_Uv v_Uw v_su v_sv v_sw].
    fold (vol_after_u g t r s k).
    rewrite (vol_remove_j_insert_r_u tol2 g t s k dim r) by (auto; lia).
    rewrite rem_kv_ins_kv_partial by lia.
    replace (v_su g + r - j) with (v_su g + (r - j)) by lia. reflexivity. }
  rewrite E. apply (vol_insert_u_preserves g t (r - j) s k dim); auto; lia.
Qed.

Print Assumptions vol_remove_j_insert_r_u.
Print Assumptions vol_remove_j_insert_r_v.
Print Assumptions vol_remove_j_insert_r_w.
Print Assumptions vol_remove_preserves_volume_u.
Print Assumptions vol_remove_preserves_volume_v.
Print Assumptions vol_remove_preserves_volume_w.
