(* C06 leftovers, part 1: several directions in ONE operations.insert_knot call followed by ONE operations.remove_knot call
   with SMALLER (or equal) removal counts, surfaces (u, v) and volumes (u, v, w):
     insert_knot_surf g [ou; ov] [ru; rv] = (g2, false), ju <= ru, jv <= rv  ->
     remove_knot_surf g2 [ou; ov] [ju; jv] = insert_knot_surf g [ou; ov] [ru - ju; rv - jv]      (and the latter does not raise)
   and the volume analogue.  Built on Proofs/KnotRemMultiDir.v (equal counts, commutation of the insertion stages) and the
   single-direction j <= r theorems of Proofs/KnotRemGeneralDir.v / KnotRemGeneralVol.v.
   Part 2 (removal after a general refinement, any order) is Proofs/KnotRemMoreRefine.v + Proofs/KnotRemMoreOrder.v.
   Details: Proofs/KnotRemMore.README. *)
From Coq Require Import List Reals Lra Lia Arith Bool ZArith.
From NV Require Import Scalar.Ops Model.Common Model.Basis Model.KnotIns Model.InsertKnot Model.KnotRem
  Proofs.Boehm Proofs.BasisR Proofs.KnotInsR Proofs.KnotInsN Proofs.InsertKnotR Proofs.InsertNR Proofs.InsertDirR Proofs.InsertVolR
  Proofs.InsertOpR Proofs.InsertOpSurf Proofs.KnotRemR Proofs.KnotRemGeneral Proofs.KnotRemGeneralDir Proofs.KnotRemGeneralVol
  Proofs.KnotRemMultiDir.
Import ListNotations.
Local Open Scope nat_scope.

(* ------------------------------------------------------------------ one direction: the lookups *)
Lemma dir_prep_skip tol p (U : list R) n o num : eff o num = 0 -> dir_prep Rops tol true p U n o num = None.
Proof. destruct o as [t|]; cbn [eff dir_prep]; [intros ->; reflexivity|reflexivity]. Qed.

(* a smaller count is accepted when a larger one is *)
Lemma dir_prep_mono tol p (U : list R) n o r r' : r' <= r ->
  dir_prep Rops tol true p U n o r <> Some None -> dir_prep Rops tol true p U n o r' <> Some None.
Proof.
  intros Hr. unfold dir_prep. destruct o as [t|]; [|intros _; discriminate].
  destruct (Nat.eqb_spec r' 0) as [E|E]; [intros _; discriminate|].
  destruct (Nat.eqb_spec r 0) as [E0|E0]; [lia|]. cbn [andb].
  destruct (Nat.ltb_spec (p - find_multiplicity Rops tol t U) r) as [H|H]; [intros X; exfalso; apply X; reflexivity|].
  destruct (Nat.ltb_spec (p - find_multiplicity Rops tol t U) r') as [H'|H']; [lia|]. intros _. discriminate.
Qed.

(* what remove_knot's lookups answer for a count j <= r after an accepted r-fold insertion *)
Lemma rem_prep_after_insertion_le tol p (U : list R) n t r j : dir_wf p U n -> par_ok tol p U n (Some t) -> (0 <= tol)%R ->
  1 <= j <= r -> r <= p - find_multiplicity Rops tol t U ->
  let k := find_span_linear Rops p U n t in let s := find_multiplicity Rops tol t U in
  rem_prep Rops tol true p (knot_insertion_kv U t k r) (n + r) (Some t) j
  = Some (Some (t, s + r, k + r, knot_insertion_kv U t k (r - j))).
Proof.
  intros W Hpar Ht Hj H2. cbv zeta. unfold rem_prep.
  destruct (Nat.eqb_spec j 0) as [E|_]; [lia|].
  rewrite find_multiplicity_after_insertion by exact Ht.
  destruct (Nat.ltb_spec (find_multiplicity Rops tol t U + r) j) as [E|_]; [lia|]. cbn [andb].
  rewrite (find_span_after_insertion tol p U n t r W Hpar ltac:(lia) H2).
  rewrite rem_kv_ins_kv_partial; [reflexivity| |lia].
  destruct (dir_accept tol p U n t r W Hpar ltac:(lia) H2) as (A1 & A2 & A3 & _). destruct W as (_ & _ & HL). cbv zeta in *. lia.
Qed.

(* ================================================================== SURFACES *)
Section SurfLess.
Variables (tol tol2 : R) (dim : nat) (ou ov : option R).
Hypothesis Ht : (0 <= tol)%R.
Hypothesis Ht2 : (0 <= tol2)%R.

Definition sfull (g : surf (T:=R)) : Prop := swf g dim /\ length (s_P g) = s_sv g * s_su g.
Definition spu (g : surf (T:=R)) : Prop := par_ok tol (s_pu g) (s_Uu g) (s_su g) ou.
Definition spv (g : surf (T:=R)) : Prop := par_ok tol (s_pv g) (s_Uv g) (s_sv g) ov.
Definition sokU (g : surf (T:=R)) (n : nat) : Prop := snd (sstep_u tol g ou n) = false.
Definition sokV (g : surf (T:=R)) (n : nat) : Prop := snd (sstep_v tol g ov n) = false.
Definition sU (n : nat) (g : surf (T:=R)) : surf := fst (sstep_u tol g ou n).
Definition sV (n : nat) (g : surf (T:=R)) : surf := fst (sstep_v tol g ov n).

Lemma sokU_mono g r r' : r' <= r -> sokU g r -> sokU g r'.
Proof.
  intros Hr. unfold sokU, sstep_u. intros H.
  pose proof (dir_prep_mono tol (s_pu g) (s_Uu g) (s_su g) ou r r' Hr) as M.
  destruct (dir_prep Rops tol true (s_pu g) (s_Uu g) (s_su g) ou r) as [[[[[t s] k] kv]|]|]; cbn [snd] in H; try discriminate;
  (destruct (dir_prep Rops tol true (s_pu g) (s_Uu g) (s_su g) ou r') as [[[[[t' s'] k'] kv']|]|]; cbn [snd];
    [reflexivity|exfalso; apply M; [discriminate|reflexivity]|reflexivity]).
Qed.
Lemma sokV_mono g r r' : r' <= r -> sokV g r -> sokV g r'.
Proof.
  intros Hr. unfold sokV, sstep_v. intros H.
  pose proof (dir_prep_mono tol (s_pv g) (s_Uv g) (s_sv g) ov r r' Hr) as M.
  destruct (dir_prep Rops tol true (s_pv g) (s_Uv g) (s_sv g) ov r) as [[[[[t s] k] kv]|]|]; cbn [snd] in H; try discriminate;
  (destruct (dir_prep Rops tol true (s_pv g) (s_Uv g) (s_sv g) ov r') as [[[[[t' s'] k'] kv']|]|]; cbn [snd];
    [reflexivity|exfalso; apply M; [discriminate|reflexivity]|reflexivity]).
Qed.

(* a stage keeps the object complete and leaves the other direction's data (hence its lookups) alone *)
Lemma sU_keeps g n : sfull g -> spu g ->
  sfull (sU n g) /\ (spv (sU n g) <-> spv g) /\ (forall m, snd (sstep_v tol (sU n g) ov m) = snd (sstep_v tol g ov m)).
Proof.
  intros [W HL] Pu.
  destruct (sstep_u_spec tol g dim ou n W Pu) as (_ & _ & U3 & _ & U5 & U6 & U7 & U8 & _). cbv zeta in *.
  pose proof (sstep_u_length tol g dim ou n W Pu HL) as L. cbv zeta in L.
  unfold sU, spv. split; [split; assumption|]. split; [rewrite U6, U7, U8; tauto|].
  intros m. unfold sstep_v. rewrite U6, U7, U8.
  destruct (dir_prep Rops tol true (s_pv g) (s_Uv g) (s_sv g) ov m) as [[[[[t s] k] kv]|]|]; reflexivity.
Qed.
Lemma sV_keeps g n : sfull g -> spv g ->
  sfull (sV n g) /\ (spu (sV n g) <-> spu g) /\ (forall m, snd (sstep_u tol (sV n g) ou m) = snd (sstep_u tol g ou m)).
Proof.
  intros [W HL] Pv.
  destruct (sstep_v_spec tol g dim ov n W Pv) as (_ & _ & V3 & _ & V5 & V6 & V7 & V8 & _). cbv zeta in *.
  pose proof (sstep_v_length tol g dim ov n W Pv HL) as L. cbv zeta in L.
  unfold sV, spu. split; [split; assumption|]. split; [rewrite V5, V7, V8; tauto|].
  intros m. unfold sstep_u. rewrite V5, V7, V8.
  destruct (dir_prep Rops tol true (s_pu g) (s_Uu g) (s_su g) ou m) as [[[[[t s] k] kv]|]|]; reflexivity.
Qed.

(* the two insertion stages commute, functional form *)
Lemma sUV_commute g n m : sfull g -> spu g -> spv g -> sokU g n -> sokV g m -> sV m (sU n g) = sU n (sV m g).
Proof.
  intros F Pu Pv Ou Ov. pose proof F as [W HL].
  destruct (sU_keeps g n F Pu) as (_ & _ & K).
  unfold sokU in Ou. unfold sokV in Ov. unfold sV, sU.
  destruct (sstep_u tol g ou n) as [g1 r1] eqn:E1. cbn [snd fst] in *. subst r1.
  specialize (K m). unfold sU in K. rewrite E1 in K. cbn [fst] in K. rewrite Ov in K.
  destruct (sstep_v tol g1 ov m) as [g2 r2] eqn:E2. cbn [snd fst] in *. subst r2.
  destruct (ssteps_commute tol g dim ou ov n m g1 g2 W Pu Pv E1 E2) as (gv & E3 & E4).
  rewrite E3. cbn [fst]. rewrite E4. reflexivity.
Qed.

(* [G] one removal stage with a smaller count: it returns what the insertion stage builds for the difference *)
Lemma rstep_u_less g r j : sfull g -> spu g -> j <= r -> sokU g r ->
  rstep_u tol tol2 (sU r g) ou j = sstep_u tol g ou (r - j).
Proof.
  intros [W HLP] Hpar Hj. unfold sokU, sU, sstep_u at 1 2.
  pose proof (dir_prep_spec tol (s_pu g) (s_Uu g) (s_su g) ou r) as D.
  destruct (dir_prep Rops tol true (s_pu g) (s_Uu g) (s_su g) ou r) as [[[[[t s] k] kv]|]|] eqn:ED; cbn [fst snd]; intros Rr; try discriminate.
  - destruct D as (Eo & H1 & -> & Hn & -> & ->). unfold spu in Hpar. rewrite Eo in *. pose proof W as (Wu & Wv & Wd).
    destruct (dir_accept tol (s_pu g) (s_Uu g) (s_su g) t r Wu Hpar H1 Hn) as (A1 & A2 & A3 & A4 & A5 & A6). cbv zeta in *.
    destruct (Nat.eq_dec j 0) as [->|Hj0].
    { unfold rstep_u. cbn [rem_prep Nat.eqb]. rewrite Nat.sub_0_r. unfold sstep_u. rewrite ED. reflexivity. }
    unfold rstep_u. cbn [s_pu s_pv s_Uu s_Uv s_su s_sv s_P].
    rewrite (rem_prep_after_insertion_le tol (s_pu g) (s_Uu g) (s_su g) t r j Wu Hpar Ht ltac:(lia) Hn).
    set (k := find_span_linear Rops (s_pu g) (s_Uu g) (s_su g) t) in *. set (s := find_multiplicity Rops tol t (s_Uu g)) in *.
    destruct Wu as (Us & Hp & HL).
    assert (Hlt : (knR (s_Uu g) (k - s) < t)%R).
    { apply (mult_strict_below tol (s_Uu g) t k Us Ht); [lia|exact A4|fold s; lia]. }
    destruct (sep_of_sorted (s_Uu g) t (s_pu g) s k Us ltac:(lia) Hlt ltac:(lra)) as [SL SR].
    change (mkS (s_pu g) (s_pv g) (knot_insertion_kv (s_Uu g) t k r) (s_Uv g) (s_su g + r) (s_sv g) (surf_net_u Rops g t r s k))
      with (surf_ins_u g t s k r).
    rewrite (surf_remove_j_insert_r_u tol2 g t s k dim r); try assumption; try lia.
    2:{ apply swf_Forall; assumption. }
    unfold sstep_u.
    destruct (Nat.eq_dec (r - j) 0) as [E0|E0].
    + rewrite E0. cbn [dir_prep Nat.eqb]. rewrite kv_zero.
      rewrite (surf_net_u_zero g t s k r) by (assumption || lia).
      replace (s_su g + r - j) with (s_su g) by lia. destruct g; reflexivity.
    + unfold dir_prep. destruct (Nat.eqb_spec (r - j) 0) as [E|_]; [lia|]. fold s.
      destruct (Nat.ltb_spec (s_pu g - s) (r - j)) as [E|_]; [lia|]. cbn [andb]. fold k.
      replace (s_su g + r - j) with (s_su g + (r - j)) by lia. reflexivity.
  - unfold rstep_u, sstep_u. rewrite dir_prep_skip.
    + destruct ou as [t|]; cbn [eff] in D; [subst r; replace j with 0 by lia|]; reflexivity.
    + destruct ou as [t|]; cbn [eff] in *; lia.
Qed.

Lemma rstep_v_less g r j : sfull g -> spv g -> j <= r -> sokV g r ->
  rstep_v tol tol2 (sV r g) ov j = sstep_v tol g ov (r - j).
Proof.
  intros [W HLP] Hpar Hj. unfold sokV, sV, sstep_v at 1 2.
  pose proof (dir_prep_spec tol (s_pv g) (s_Uv g) (s_sv g) ov r) as D.
  destruct (dir_prep Rops tol true (s_pv g) (s_Uv g) (s_sv g) ov r) as [[[[[t s] k] kv]|]|] eqn:ED; cbn [fst snd]; intros Rr; try discriminate.
  - destruct D as (Eo & H1 & -> & Hn & -> & ->). unfold spv in Hpar. rewrite Eo in *. pose proof W as (Wu & Wv & Wd).
    destruct (dir_accept tol (s_pv g) (s_Uv g) (s_sv g) t r Wv Hpar H1 Hn) as (A1 & A2 & A3 & A4 & A5 & A6). cbv zeta in *.
    destruct (Nat.eq_dec j 0) as [->|Hj0].
    { unfold rstep_v. cbn [rem_prep Nat.eqb]. rewrite Nat.sub_0_r. unfold sstep_v. rewrite ED. reflexivity. }
    unfold rstep_v. cbn [s_pu s_pv s_Uu s_Uv s_su s_sv s_P].
    rewrite (rem_prep_after_insertion_le tol (s_pv g) (s_Uv g) (s_sv g) t r j Wv Hpar Ht ltac:(lia) Hn).
    set (k := find_span_linear Rops (s_pv g) (s_Uv g) (s_sv g) t) in *. set (s := find_multiplicity Rops tol t (s_Uv g)) in *.
    destruct Wv as (Us & Hp & HL).
    assert (Hlt : (knR (s_Uv g) (k - s) < t)%R).
    { apply (mult_strict_below tol (s_Uv g) t k Us Ht); [lia|exact A4|fold s; lia]. }
    destruct (sep_of_sorted (s_Uv g) t (s_pv g) s k Us ltac:(lia) Hlt ltac:(lra)) as [SL SR].
    change (mkS (s_pu g) (s_pv g) (s_Uu g) (knot_insertion_kv (s_Uv g) t k r) (s_su g) (s_sv g + r) (surf_net_v Rops g t r s k))
      with (surf_ins_v g t s k r).
    rewrite (surf_remove_j_insert_r_v tol2 g t s k dim r); try assumption; try lia.
    2:{ apply swf_Forall; assumption. }
    unfold sstep_v.
    destruct (Nat.eq_dec (r - j) 0) as [E0|E0].
    + rewrite E0. cbn [dir_prep Nat.eqb]. rewrite kv_zero.
      rewrite (surf_net_v_zero g t s k r) by (assumption || lia).
      replace (s_sv g + r - j) with (s_sv g) by lia. destruct g; reflexivity.
    + unfold dir_prep. destruct (Nat.eqb_spec (r - j) 0) as [E|_]; [lia|]. fold s.
      destruct (Nat.ltb_spec (s_pv g - s) (r - j)) as [E|_]; [lia|]. cbn [andb]. fold k.
      replace (s_sv g + r - j) with (s_sv g + (r - j)) by lia. reflexivity.
  - unfold rstep_v, sstep_v. rewrite dir_prep_skip.
    + destruct ov as [t|]; cbn [eff] in D; [subst r; replace j with 0 by lia|]; reflexivity.
    + destruct ov as [t|]; cbn [eff] in *; lia.
Qed.

(* [G] THE SURFACE STATEMENT with smaller removal counts *)
Theorem surf_less_main g ru rv ju jv g2 : sfull g -> spu g -> spv g -> ju <= ru -> jv <= rv ->
  insert_knot_surf Rops tol true g [ou; ov] [Z.of_nat ru; Z.of_nat rv] = (g2, false) ->
  remove_knot_surf Rops tol tol2 true g2 [ou; ov] [Z.of_nat ju; Z.of_nat jv]
  = insert_knot_surf Rops tol true g [ou; ov] [Z.of_nat (ru - ju); Z.of_nat (rv - jv)]
  /\ snd (insert_knot_surf Rops tol true g [ou; ov] [Z.of_nat (ru - ju); Z.of_nat (rv - jv)]) = false.
Proof.
  intros F Pu Pv Hju Hjv. rewrite !insert_knot_surf_steps, remove_knot_surf_steps.
  destruct (sstep_u tol g ou ru) as [g1 r1] eqn:E1. destruct r1; [intros X; discriminate|]. intros E2.
  assert (Ou : sokU g ru) by (unfold sokU; rewrite E1; reflexivity).
  assert (G1 : g1 = sU ru g) by (unfold sU; rewrite E1; reflexivity).
  destruct (sU_keeps g ru F Pu) as (F1 & P1 & K1).
  assert (Ov : sokV g rv).
  { unfold sokV. rewrite <- K1, <- G1, E2. reflexivity. }
  assert (G2 : g2 = sV rv (sU ru g)) by (unfold sV; rewrite <- G1, E2; reflexivity).
  rewrite (sUV_commute g ru rv F Pu Pv Ou Ov) in G2.
  (* the u removal, on top of the v insertion *)
  destruct (sV_keeps g rv F Pv) as (Fv & Pv_u & Kv).
  assert (Ouv : sokU (sV rv g) ru) by (unfold sokU; rewrite Kv; exact Ou).
  rewrite G2, (rstep_u_less (sV rv g) ru ju Fv (proj2 Pv_u Pu) Hju Ouv).
  assert (Ou' : sokU g (ru - ju)) by (apply (sokU_mono g ru); [lia|exact Ou]).
  assert (Ouv' : sokU (sV rv g) (ru - ju)) by (unfold sokU; rewrite Kv; exact Ou').
  pose proof Ouv' as Ouv''. unfold sokU in Ouv''.
  destruct (sstep_u tol (sV rv g) ou (ru - ju)) as [h rh] eqn:Eh. cbn [snd] in Ouv''. subst rh.
  assert (Gh : h = sU (ru - ju) (sV rv g)) by (unfold sU; rewrite Eh; reflexivity).
  rewrite <- (sUV_commute g (ru - ju) rv F Pu Pv Ou' Ov) in Gh.
  (* the v removal, on top of the remaining u insertion *)
  destruct (sU_keeps g (ru - ju) F Pu) as (Fu' & Pu'_v & Ku').
  assert (Ovu' : sokV (sU (ru - ju) g) rv) by (unfold sokV; rewrite Ku'; exact Ov).
  rewrite Gh, (rstep_v_less (sU (ru - ju) g) rv jv Fu' (proj2 Pu'_v Pv) Hjv Ovu').
  unfold sokU in Ou'. unfold sU.
  destruct (sstep_u tol g ou (ru - ju)) as [g1' r1'] eqn:E1'. cbn [snd fst] in *. subst r1'.
  split; [reflexivity|].
  assert (Ov' : sokV g (rv - jv)) by (apply (sokV_mono g rv); [lia|exact Ov]).
  specialize (Ku' (rv - jv)). unfold sU in Ku'. rewrite E1' in Ku'. cbn [fst] in Ku'. rewrite Ku'. exact Ov'.
Qed.
End SurfLess.

(* ================================================================== VOLUMES *)
Section VolLess.
Variables (tol tol2 : R) (dim : nat) (ou ov ow : option R).
Hypothesis Ht : (0 <= tol)%R.
Hypothesis Ht2 : (0 <= tol2)%R.

Definition vfull (g : vol (T:=R)) : Prop := vwf g dim /\ length (v_P g) = v_su g * v_sv g * v_sw g.
Definition vpu (g : vol (T:=R)) : Prop := par_ok tol (v_pu g) (v_Uu g) (v_su g) ou.
Definition vpv (g : vol (T:=R)) : Prop := par_ok tol (v_pv g) (v_Uv g) (v_sv g) ov.
Definition vpw (g : vol (T:=R)) : Prop := par_ok tol (v_pw g) (v_Uw g) (v_sw g) ow.
Definition vokU (g : vol (T:=R)) (n : nat) : Prop := snd (vstep_u tol g ou n) = false.
Definition vokV (g : vol (T:=R)) (n : nat) : Prop := snd (vstep_v tol g ov n) = false.
Definition vokW (g : vol (T:=R)) (n : nat) : Prop := snd (vstep_w tol g ow n) = false.
Definition vU (n : nat) (g : vol (T:=R)) : vol := fst (vstep_u tol g ou n).
Definition vV (n : nat) (g : vol (T:=R)) : vol := fst (vstep_v tol g ov n).
Definition vW (n : nat) (g : vol (T:=R)) : vol := fst (vstep_w tol g ow n).

Lemma vokU_mono g r r' : r' <= r -> vokU g r -> vokU g r'.
Proof.
  intros Hr. unfold vokU, vstep_u. intros H.
  pose proof (dir_prep_mono tol (v_pu g) (v_Uu g) (v_su g) ou r r' Hr) as M.
  destruct (dir_prep Rops tol true (v_pu g) (v_Uu g) (v_su g) ou r) as [[[[[t s] k] kv]|]|]; cbn [snd] in H; try discriminate;
  (destruct (dir_prep Rops tol true (v_pu g) (v_Uu g) (v_su g) ou r') as [[[[[t' s'] k'] kv']|]|]; cbn [snd];
    [reflexivity|exfalso; apply M; [discriminate|reflexivity]|reflexivity]).
Qed.
Lemma vokV_mono g r r' : r' <= r -> vokV g r -> vokV g r'.
Proof.
  intros Hr. unfold vokV, vstep_v. intros H.
  pose proof (dir_prep_mono tol (v_pv g) (v_Uv g) (v_sv g) ov r r' Hr) as M.
  destruct (dir_prep Rops tol true (v_pv g) (v_Uv g) (v_sv g) ov r) as [[[[[t s] k] kv]|]|]; cbn [snd] in H; try discriminate;
  (destruct (dir_prep Rops tol true (v_pv g) (v_Uv g) (v_sv g) ov r') as [[[[[t' s'] k'] kv']|]|]; cbn [snd];
    [reflexivity|exfalso; apply M; [discriminate|reflexivity]|reflexivity]).
Qed.
Lemma vokW_mono g r r' : r' <= r -> vokW g r -> vokW g r'.
Proof.
  intros Hr. unfold vokW, vstep_w. intros H.
  pose proof (dir_prep_mono tol (v_pw g) (v_Uw g) (v_sw g) ow r r' Hr) as M.
  destruct (dir_prep Rops tol true (v_pw g) (v_Uw g) (v_sw g) ow r) as [[[[[t s] k] kv]|]|]; cbn [snd] in H; try discriminate;
  (destruct (dir_prep Rops tol true (v_pw g) (v_Uw g) (v_sw g) ow r') as [[[[[t' s'] k'] kv']|]|]; cbn [snd];
    [reflexivity|exfalso; apply M; [discriminate|reflexivity]|reflexivity]).
Qed.

(* a stage keeps the object complete and leaves the other directions' data (hence their lookups) alone *)
Lemma vU_keeps g n : vfull g -> vpu g ->
  vfull (vU n g) /\ (vpv (vU n g) <-> vpv g) /\ (vpw (vU n g) <-> vpw g) /\
  (forall m, snd (vstep_v tol (vU n g) ov m) = snd (vstep_v tol g ov m)) /\
  (forall m, snd (vstep_w tol (vU n g) ow m) = snd (vstep_w tol g ow m)).
Proof.
  intros [W HL] Pu.
  destruct (vstep_u_spec tol g dim ou n W Pu) as (_ & _ & U3 & _ & (K1 & K2 & K3 & K4 & K5 & K6 & K7) & _). cbv zeta in *.
  pose proof (vstep_u_length tol g dim ou n W Pu HL) as L. cbv zeta in L.
  unfold vU, vpv, vpw. split; [split; assumption|].
  split; [rewrite K2, K4, K6; tauto|]. split; [rewrite K3, K5, K7; tauto|]. split; intros m.
  - unfold vstep_v. rewrite K2, K4, K6.
    destruct (dir_prep Rops tol true (v_pv g) (v_Uv g) (v_sv g) ov m) as [[[[[t s] k] kv]|]|]; reflexivity.
  - unfold vstep_w. rewrite K3, K5, K7.
    destruct (dir_prep Rops tol true (v_pw g) (v_Uw g) (v_sw g) ow m) as [[[[[t s] k] kv]|]|]; reflexivity.
Qed.
Lemma vV_keeps g n : vfull g -> vpv g ->
  vfull (vV n g) /\ (vpu (vV n g) <-> vpu g) /\ (vpw (vV n g) <-> vpw g) /\
  (forall m, snd (vstep_u tol (vV n g) ou m) = snd (vstep_u tol g ou m)) /\
  (forall m, snd (vstep_w tol (vV n g) ow m) = snd (vstep_w tol g ow m)).
Proof.
  intros [W HL] Pv.
  destruct (vstep_v_spec tol g dim ov n W Pv) as (_ & _ & U3 & _ & (K1 & K2 & K3 & K4 & K5 & K6 & K7) & _). cbv zeta in *.
  pose proof (vstep_v_length tol g dim ov n W Pv HL) as L. cbv zeta in L.
  unfold vV, vpu, vpw. split; [split; assumption|].
  split; [rewrite K1, K4, K6; tauto|]. split; [rewrite K3, K5, K7; tauto|]. split; intros m.
  - unfold vstep_u. rewrite K1, K4, K6.
    destruct (dir_prep Rops tol true (v_pu g) (v_Uu g) (v_su g) ou m) as [[[[[t s] k] kv]|]|]; reflexivity.
  - unfold vstep_w. rewrite K3, K5, K7.
    destruct (dir_prep Rops tol true (v_pw g) (v_Uw g) (v_sw g) ow m) as [[[[[t s] k] kv]|]|]; reflexivity.
Qed.
Lemma vW_keeps g n : vfull g -> vpw g ->
  vfull (vW n g) /\ (vpu (vW n g) <-> vpu g) /\ (vpv (vW n g) <-> vpv g) /\
  (forall m, snd (vstep_u tol (vW n g) ou m) = snd (vstep_u tol g ou m)) /\
  (forall m, snd (vstep_v tol (vW n g) ov m) = snd (vstep_v tol g ov m)).
Proof.
  intros [W HL] Pw.
  destruct (vstep_w_spec tol g dim ow n W Pw) as (_ & _ & U3 & _ & (K1 & K2 & K3 & K4 & K5 & K6 & K7) & _). cbv zeta in *.
  pose proof (vstep_w_length tol g dim ow n W Pw HL) as L. cbv zeta in L.
  unfold vW, vpu, vpv. split; [split; assumption|].
  split; [rewrite K1, K4, K6; tauto|]. split; [rewrite K2, K5, K7; tauto|]. split; intros m.
  - unfold vstep_u. rewrite K1, K4, K6.
    destruct (dir_prep Rops tol true (v_pu g) (v_Uu g) (v_su g) ou m) as [[[[[t s] k] kv]|]|]; reflexivity.
  - unfold vstep_v. rewrite K2, K5, K7.
    destruct (dir_prep Rops tol true (v_pv g) (v_Uv g) (v_sv g) ov m) as [[[[[t s] k] kv]|]|]; reflexivity.
Qed.

(* the insertion stages commute pairwise, functional form *)
Lemma vUV_commute g n m : vfull g -> vpu g -> vpv g -> vokU g n -> vokV g m -> vV m (vU n g) = vU n (vV m g).
Proof.
  intros F Pa Pb Oa Ob. pose proof F as [W HL].
  destruct (vU_keeps g n F Pa) as (_ & _ & _ & K & _).
  unfold vokU in Oa. unfold vokV in Ob. unfold vV, vU.
  destruct (vstep_u tol g ou n) as [g1 r1] eqn:E1. cbn [snd fst] in *. subst r1.
  specialize (K m). unfold vU in K. rewrite E1 in K. cbn [fst] in K. rewrite Ob in K.
  destruct (vstep_v tol g1 ov m) as [g2 r2] eqn:E2. cbn [snd fst] in *. subst r2.
  destruct (vsteps_commute_uv tol g dim ou ov n m g1 g2 W Pa Pb E1 E2) as (h & E3 & E4).
  rewrite E3. cbn [fst]. rewrite E4. reflexivity.
Qed.
Lemma vUW_commute g n m : vfull g -> vpu g -> vpw g -> vokU g n -> vokW g m -> vW m (vU n g) = vU n (vW m g).
Proof.
  intros F Pa Pb Oa Ob. pose proof F as [W HL].
  destruct (vU_keeps g n F Pa) as (_ & _ & _ & _ & K).
  unfold vokU in Oa. unfold vokW in Ob. unfold vW, vU.
  destruct (vstep_u tol g ou n) as [g1 r1] eqn:E1. cbn [snd fst] in *. subst r1.
  specialize (K m). unfold vU in K. rewrite E1 in K. cbn [fst] in K. rewrite Ob in K.
  destruct (vstep_w tol g1 ow m) as [g2 r2] eqn:E2. cbn [snd fst] in *. subst r2.
  destruct (vsteps_commute_uw tol g dim ou ow n m g1 g2 W Pa Pb E1 E2) as (h & E3 & E4).
  rewrite E3. cbn [fst]. rewrite E4. reflexivity.
Qed.
Lemma vVW_commute g n m : vfull g -> vpv g -> vpw g -> vokV g n -> vokW g m -> vW m (vV n g) = vV n (vW m g).
Proof.
  intros F Pa Pb Oa Ob. pose proof F as [W HL].
  destruct (vV_keeps g n F Pa) as (_ & _ & _ & _ & K).
  unfold vokV in Oa. unfold vokW in Ob. unfold vW, vV.
  destruct (vstep_v tol g ov n) as [g1 r1] eqn:E1. cbn [snd fst] in *. subst r1.
  specialize (K m). unfold vV in K. rewrite E1 in K. cbn [fst] in K. rewrite Ob in K.
  destruct (vstep_w tol g1 ow m) as [g2 r2] eqn:E2. cbn [snd fst] in *. subst r2.
  destruct (vsteps_commute_vw tol g dim ov ow n m g1 g2 W Pa Pb E1 E2) as (h & E3 & E4).
  rewrite E3. cbn [fst]. rewrite E4. reflexivity.
Qed.

(* [G] one removal stage with a smaller count *)
Lemma vrstep_u_less g r j : vfull g -> vpu g -> j <= r -> vokU g r ->
  vrstep_u tol tol2 (vU r g) ou j = vstep_u tol g ou (r - j).
Proof.
  intros [W HLP] Hpar Hj. unfold vokU, vU, vstep_u at 1 2.
  pose proof (dir_prep_spec tol (v_pu g) (v_Uu g) (v_su g) ou r) as D.
  destruct (dir_prep Rops tol true (v_pu g) (v_Uu g) (v_su g) ou r) as [[[[[t s] k] kv]|]|] eqn:ED; cbn [fst snd]; intros Rr; try discriminate.
  - destruct D as (Eo & H1 & -> & Hn & -> & ->). unfold vpu in Hpar. rewrite Eo in *. pose proof W as (Wu & Wv & Ww & Wd).
    destruct (dir_accept tol (v_pu g) (v_Uu g) (v_su g) t r Wu Hpar H1 Hn) as (A1 & A2 & A3 & A4 & A5 & A6). cbv zeta in *.
    destruct (Nat.eq_dec j 0) as [->|Hj0].
    { unfold vrstep_u. cbn [rem_prep Nat.eqb]. rewrite Nat.sub_0_r. unfold vstep_u. rewrite ED. reflexivity. }
    unfold vrstep_u. cbn [v_pu v_pv v_pw v_Uu v_Uv v_Uw v_su v_sv v_sw v_P].
    rewrite (rem_prep_after_insertion_le tol (v_pu g) (v_Uu g) (v_su g) t r j Wu Hpar Ht ltac:(lia) Hn).
    set (k := find_span_linear Rops (v_pu g) (v_Uu g) (v_su g) t) in *. set (s := find_multiplicity Rops tol t (v_Uu g)) in *.
    destruct Wu as (Usu & Hpu & HLu). destruct Wv as (Usv & Hpv & HLv). destruct Ww as (Usw & Hpw & HLw).
    assert (Hlt : (knR (v_Uu g) (k - s) < t)%R).
    { apply (mult_strict_below tol (v_Uu g) t k Usu Ht); [lia|exact A4|fold s; lia]. }
    destruct (sep_of_sorted (v_Uu g) t (v_pu g) s k Usu ltac:(lia) Hlt ltac:(lra)) as [SL SR].
    change (mkV (v_pu g) (v_pv g) (v_pw g) (knot_insertion_kv (v_Uu g) t k r) (v_Uv g) (v_Uw g) (v_su g + r) (v_sv g) (v_sw g) (vol_net_u Rops g t r s k))
      with (vol_after_u g t r s k).
    rewrite (vol_remove_j_insert_r_u tol2 g t s k dim r); try assumption; try lia.
    unfold vstep_u.
    destruct (Nat.eq_dec (r - j) 0) as [E0|E0].
    + rewrite E0. cbn [dir_prep Nat.eqb]. rewrite kv_zero.
      rewrite (net_u_zero g t s k r) by (assumption || lia).
      replace (v_su g + r - j) with (v_su g) by lia. destruct g; reflexivity.
    + unfold dir_prep. destruct (Nat.eqb_spec (r - j) 0) as [E|_]; [lia|]. fold s.
      destruct (Nat.ltb_spec (v_pu g - s) (r - j)) as [E|_]; [lia|]. cbn [andb]. fold k.
      replace (v_su g + r - j) with (v_su g + (r - j)) by lia. reflexivity.
  - unfold vrstep_u, vstep_u. rewrite dir_prep_skip.
    + destruct ou as [t|]; cbn [eff] in D; [subst r; replace j with 0 by lia|]; reflexivity.
    + destruct ou as [t|]; cbn [eff] in *; lia.
Qed.

Lemma vrstep_v_less g r j : vfull g -> vpv g -> j <= r -> vokV g r ->
  vrstep_v tol tol2 (vV r g) ov j = vstep_v tol g ov (r - j).
Proof.
  intros [W HLP] Hpar Hj. unfold vokV, vV, vstep_v at 1 2.
  pose proof (dir_prep_spec tol (v_pv g) (v_Uv g) (v_sv g) ov r) as D.
  destruct (dir_prep Rops tol true (v_pv g) (v_Uv g) (v_sv g) ov r) as [[[[[t s] k] kv]|]|] eqn:ED; cbn [fst snd]; intros Rr; try discriminate.
  - destruct D as (Eo & H1 & -> & Hn & -> & ->). unfold vpv in Hpar. rewrite Eo in *. pose proof W as (Wu & Wv & Ww & Wd).
    destruct (dir_accept tol (v_pv g) (v_Uv g) (v_sv g) t r Wv Hpar H1 Hn) as (A1 & A2 & A3 & A4 & A5 & A6). cbv zeta in *.
    destruct (Nat.eq_dec j 0) as [->|Hj0].
    { unfold vrstep_v. cbn [rem_prep Nat.eqb]. rewrite Nat.sub_0_r. unfold vstep_v. rewrite ED. reflexivity. }
    unfold vrstep_v. cbn [v_pu v_pv v_pw v_Uu v_Uv v_Uw v_su v_sv v_sw v_P].
    rewrite (rem_prep_after_insertion_le tol (v_pv g) (v_Uv g) (v_sv g) t r j Wv Hpar Ht ltac:(lia) Hn).
    set (k := find_span_linear Rops (v_pv g) (v_Uv g) (v_sv g) t) in *. set (s := find_multiplicity Rops tol t (v_Uv g)) in *.
    destruct Wu as (Usu & Hpu & HLu). destruct Wv as (Usv & Hpv & HLv). destruct Ww as (Usw & Hpw & HLw).
    assert (Hlt : (knR (v_Uv g) (k - s) < t)%R).
    { apply (mult_strict_below tol (v_Uv g) t k Usv Ht); [lia|exact A4|fold s; lia]. }
    destruct (sep_of_sorted (v_Uv g) t (v_pv g) s k Usv ltac:(lia) Hlt ltac:(lra)) as [SL SR].
    change (mkV (v_pu g) (v_pv g) (v_pw g) (v_Uu g) (knot_insertion_kv (v_Uv g) t k r) (v_Uw g) (v_su g) (v_sv g + r) (v_sw g) (vol_net_v Rops g t r s k))
      with (vol_after_v g t r s k).
    rewrite (vol_remove_j_insert_r_v tol2 g t s k dim r); try assumption; try lia.
    unfold vstep_v.
    destruct (Nat.eq_dec (r - j) 0) as [E0|E0].
    + rewrite E0. cbn [dir_prep Nat.eqb]. rewrite kv_zero.
      rewrite (net_v_zero g t s k r) by (assumption || lia).
      replace (v_sv g + r - j) with (v_sv g) by lia. destruct g; reflexivity.
    + unfold dir_prep. destruct (Nat.eqb_spec (r - j) 0) as [E|_]; [lia|]. fold s.
      destruct (Nat.ltb_spec (v_pv g - s) (r - j)) as [E|_]; [lia|]. cbn [andb]. fold k.
      replace (v_sv g + r - j) with (v_sv g + (r - j)) by lia. reflexivity.
  - unfold vrstep_v, vstep_v. rewrite dir_prep_skip.
    + destruct ov as [t|]; cbn [eff] in D; [subst r; replace j with 0 by lia|]; reflexivity.
    + destruct ov as [t|]; cbn [eff] in *; lia.
Qed.

Lemma vrstep_w_less g r j : vfull g -> vpw g -> j <= r -> vokW g r ->
  vrstep_w tol tol2 (vW r g) ow j = vstep_w tol g ow (r - j).
Proof.
  intros [W HLP] Hpar Hj. unfold vokW, vW, vstep_w at 1 2.
  pose proof (dir_prep_spec tol (v_pw g) (v_Uw g) (v_sw g) ow r) as D.
  destruct (dir_prep Rops tol true (v_pw g) (v_Uw g) (v_sw g) ow r) as [[[[[t s] k] kv]|]|] eqn:ED; cbn [fst snd]; intros Rr; try discriminate.
  - destruct D as (Eo & H1 & -> & Hn & -> & ->). unfold vpw in Hpar. rewrite Eo in *. pose proof W as (Wu & Wv & Ww & Wd).
    destruct (dir_accept tol (v_pw g) (v_Uw g) (v_sw g) t r Ww Hpar H1 Hn) as (A1 & A2 & A3 & A4 & A5 & A6). cbv zeta in *.
    destruct (Nat.eq_dec j 0) as [->|Hj0].
    { unfold vrstep_w. cbn [rem_prep Nat.eqb]. rewrite Nat.sub_0_r. unfold vstep_w. rewrite ED. reflexivity. }
    unfold vrstep_w. cbn [v_pu v_pv v_pw v_Uu v_Uv v_Uw v_su v_sv v_sw v_P].
    rewrite (rem_prep_after_insertion_le tol (v_pw g) (v_Uw g) (v_sw g) t r j Ww Hpar Ht ltac:(lia) Hn).
    set (k := find_span_linear Rops (v_pw g) (v_Uw g) (v_sw g) t) in *. set (s := find_multiplicity Rops tol t (v_Uw g)) in *.
    destruct Wu as (Usu & Hpu & HLu). destruct Wv as (Usv & Hpv & HLv). destruct Ww as (Usw & Hpw & HLw).
    assert (Hlt : (knR (v_Uw g) (k - s) < t)%R).
    { apply (mult_strict_below tol (v_Uw g) t k Usw Ht); [lia|exact A4|fold s; lia]. }
    destruct (sep_of_sorted (v_Uw g) t (v_pw g) s k Usw ltac:(lia) Hlt ltac:(lra)) as [SL SR].
    change (mkV (v_pu g) (v_pv g) (v_pw g) (v_Uu g) (v_Uv g) (knot_insertion_kv (v_Uw g) t k r) (v_su g) (v_sv g) (v_sw g + r) (vol_net_w Rops g t r s k))
      with (vol_after_w g t r s k).
    rewrite (vol_remove_j_insert_r_w tol2 g t s k dim r); try assumption; try lia.
    unfold vstep_w.
    destruct (Nat.eq_dec (r - j) 0) as [E0|E0].
    + rewrite E0. cbn [dir_prep Nat.eqb]. rewrite kv_zero.
      rewrite (net_w_zero g t s k r) by (assumption || lia).
      replace (v_sw g + r - j) with (v_sw g) by lia. destruct g; reflexivity.
    + unfold dir_prep. destruct (Nat.eqb_spec (r - j) 0) as [E|_]; [lia|]. fold s.
      destruct (Nat.ltb_spec (v_pw g - s) (r - j)) as [E|_]; [lia|]. cbn [andb]. fold k.
      replace (v_sw g + r - j) with (v_sw g + (r - j)) by lia. reflexivity.
  - unfold vrstep_w, vstep_w. rewrite dir_prep_skip.
    + destruct ow as [t|]; cbn [eff] in D; [subst r; replace j with 0 by lia|]; reflexivity.
    + destruct ow as [t|]; cbn [eff] in *; lia.
Qed.

(* transfer of the side conditions through the stages *)
Lemma vfull_U g n : vfull g -> vpu g -> vfull (vU n g). Proof. intros F P. apply (vU_keeps g n F P). Qed.
Lemma vfull_V g n : vfull g -> vpv g -> vfull (vV n g). Proof. intros F P. apply (vV_keeps g n F P). Qed.
Lemma vfull_W g n : vfull g -> vpw g -> vfull (vW n g). Proof. intros F P. apply (vW_keeps g n F P). Qed.
Lemma vpv_U g n : vfull g -> vpu g -> vpv g -> vpv (vU n g). Proof. intros F P Q. apply (vU_keeps g n F P). exact Q. Qed.
Lemma vpw_U g n : vfull g -> vpu g -> vpw g -> vpw (vU n g). Proof. intros F P Q. apply (vU_keeps g n F P). exact Q. Qed.
Lemma vpu_V g n : vfull g -> vpv g -> vpu g -> vpu (vV n g). Proof. intros F P Q. apply (vV_keeps g n F P). exact Q. Qed.
Lemma vpw_V g n : vfull g -> vpv g -> vpw g -> vpw (vV n g). Proof. intros F P Q. apply (vV_keeps g n F P). exact Q. Qed.
Lemma vpu_W g n : vfull g -> vpw g -> vpu g -> vpu (vW n g). Proof. intros F P Q. apply (vW_keeps g n F P). exact Q. Qed.
Lemma vpv_W g n : vfull g -> vpw g -> vpv g -> vpv (vW n g). Proof. intros F P Q. apply (vW_keeps g n F P). exact Q. Qed.
Lemma vokV_U g n m : vfull g -> vpu g -> vokV g m -> vokV (vU n g) m.
Proof. intros F P Q. unfold vokV. destruct (vU_keeps g n F P) as (_ & _ & _ & K & _). rewrite K. exact Q. Qed.
Lemma vokW_U g n m : vfull g -> vpu g -> vokW g m -> vokW (vU n g) m.
Proof. intros F P Q. unfold vokW. destruct (vU_keeps g n F P) as (_ & _ & _ & _ & K). rewrite K. exact Q. Qed.
Lemma vokU_V g n m : vfull g -> vpv g -> vokU g m -> vokU (vV n g) m.
Proof. intros F P Q. unfold vokU. destruct (vV_keeps g n F P) as (_ & _ & _ & K & _). rewrite K. exact Q. Qed.
Lemma vokW_V g n m : vfull g -> vpv g -> vokW g m -> vokW (vV n g) m.
Proof. intros F P Q. unfold vokW. destruct (vV_keeps g n F P) as (_ & _ & _ & _ & K). rewrite K. exact Q. Qed.
Lemma vokU_W g n m : vfull g -> vpw g -> vokU g m -> vokU (vW n g) m.
Proof. intros F P Q. unfold vokU. destruct (vW_keeps g n F P) as (_ & _ & _ & K & _). rewrite K. exact Q. Qed.
Lemma vokV_W g n m : vfull g -> vpw g -> vokV g m -> vokV (vW n g) m.
Proof. intros F P Q. unfold vokV. destruct (vW_keeps g n F P) as (_ & _ & _ & _ & K). rewrite K. exact Q. Qed.
(* ... and back (what a later stage accepts, the earlier object accepts) *)
Lemma vokV_U_inv g n m : vfull g -> vpu g -> vokV (vU n g) m -> vokV g m.
Proof. intros F P Q. unfold vokV in *. destruct (vU_keeps g n F P) as (_ & _ & _ & K & _). rewrite <- K. exact Q. Qed.
Lemma vokW_U_inv g n m : vfull g -> vpu g -> vokW (vU n g) m -> vokW g m.
Proof. intros F P Q. unfold vokW in *. destruct (vU_keeps g n F P) as (_ & _ & _ & _ & K). rewrite <- K. exact Q. Qed.
Lemma vokW_V_inv g n m : vfull g -> vpv g -> vokW (vV n g) m -> vokW g m.
Proof. intros F P Q. unfold vokW in *. destruct (vV_keeps g n F P) as (_ & _ & _ & _ & K). rewrite <- K. exact Q. Qed.

Local Hint Resolve vfull_U vfull_V vfull_W vpv_U vpw_U vpu_V vpw_V vpu_W vpv_W vokV_U vokW_U vokU_V vokW_V vokU_W vokV_W : vless.
Ltac vside := solve [eauto 12 with vless].

(* [G] THE VOLUME STATEMENT with smaller removal counts *)
Theorem vol_less_main g ru rv rw ju jv jw g3 : vfull g -> vpu g -> vpv g -> vpw g -> ju <= ru -> jv <= rv -> jw <= rw ->
  insert_knot_vol Rops tol true g [ou; ov; ow] [Z.of_nat ru; Z.of_nat rv; Z.of_nat rw] = (g3, false) ->
  remove_knot_vol Rops tol tol2 true g3 [ou; ov; ow] [Z.of_nat ju; Z.of_nat jv; Z.of_nat jw]
  = insert_knot_vol Rops tol true g [ou; ov; ow] [Z.of_nat (ru - ju); Z.of_nat (rv - jv); Z.of_nat (rw - jw)]
  /\ snd (insert_knot_vol Rops tol true g [ou; ov; ow] [Z.of_nat (ru - ju); Z.of_nat (rv - jv); Z.of_nat (rw - jw)]) = false.
Proof.
  intros F Pu Pv Pw Hju Hjv Hjw. rewrite !insert_knot_vol_steps, remove_knot_vol_steps.
  destruct (vstep_u tol g ou ru) as [g1 r1] eqn:E1. destruct r1; [intros X; discriminate|].
  destruct (vstep_v tol g1 ov rv) as [g2 r2] eqn:E2. destruct r2; [intros X; discriminate|]. intros E3.
  assert (Ou : vokU g ru) by (unfold vokU; rewrite E1; reflexivity).
  assert (G1 : g1 = vU ru g) by (unfold vU; rewrite E1; reflexivity). subst g1.
  assert (Ov : vokV g rv).
  { apply (vokV_U_inv g ru rv F Pu). unfold vokV. rewrite E2. reflexivity. }
  assert (G2 : g2 = vV rv (vU ru g)) by (unfold vV; rewrite E2; reflexivity). subst g2.
  assert (Ow : vokW g rw).
  { apply (vokW_U_inv g ru rw F Pu). apply (vokW_V_inv (vU ru g) rv rw); [vside|vside|]. unfold vokW. rewrite E3. reflexivity. }
  assert (G3 : g3 = vW rw (vV rv (vU ru g))) by (unfold vW; rewrite E3; reflexivity). subst g3.
  clear E1 E2 E3.
  set (a' := ru - ju). set (b' := rv - jv). set (c' := rw - jw).
  assert (Ou' : vokU g a') by (apply (vokU_mono g ru); [unfold a'; lia|exact Ou]).
  assert (Ov' : vokV g b') by (apply (vokV_mono g rv); [unfold b'; lia|exact Ov]).
  assert (Ow' : vokW g c') by (apply (vokW_mono g rw); [unfold c'; lia|exact Ow]).
  (* u removal *)
  rewrite (vUV_commute g ru rv) by assumption.
  rewrite (vUW_commute (vV rv g) ru rw) by vside.
  rewrite (vrstep_u_less (vW rw (vV rv g)) ru ju) by (vside || assumption). fold a'.
  assert (O1 : vokU (vW rw (vV rv g)) a') by vside.
  pose proof O1 as O1'. unfold vokU in O1'.
  destruct (vstep_u tol (vW rw (vV rv g)) ou a') as [h1 q1] eqn:Eh1. cbn [snd] in O1'. subst q1.
  assert (H1 : h1 = vU a' (vW rw (vV rv g))) by (unfold vU; rewrite Eh1; reflexivity). subst h1. clear Eh1.
  (* v removal *)
  rewrite (vVW_commute g rv rw) by assumption.
  rewrite <- (vUV_commute (vW rw g) a' rv) by vside.
  rewrite (vrstep_v_less (vU a' (vW rw g)) rv jv) by (vside || assumption). fold b'.
  assert (O2 : vokV (vU a' (vW rw g)) b') by vside.
  pose proof O2 as O2'. unfold vokV in O2'.
  destruct (vstep_v tol (vU a' (vW rw g)) ov b') as [h2 q2] eqn:Eh2. cbn [snd] in O2'. subst q2.
  assert (H2 : h2 = vV b' (vU a' (vW rw g))) by (unfold vV; rewrite Eh2; reflexivity). subst h2. clear Eh2.
  (* w removal *)
  rewrite <- (vUW_commute g a' rw) by assumption.
  rewrite <- (vVW_commute (vU a' g) b' rw) by vside.
  rewrite (vrstep_w_less (vV b' (vU a' g)) rw jw) by (vside || assumption). fold c'.
  (* the right-hand side *)
  pose proof Ou' as Ou''. unfold vokU in Ou''.
  assert (O3 : vokV (vU a' g) b') by vside. unfold vokV, vU in O3.
  assert (O4 : vokW (vV b' (vU a' g)) c') by vside. unfold vokW, vV, vU in O4.
  unfold vV, vU.
  destruct (vstep_u tol g ou a') as [k1 s1]. cbn [snd fst] in *. subst s1.
  destruct (vstep_v tol k1 ov b') as [k2 s2]. cbn [snd fst] in *. subst s2.
  split; [reflexivity|exact O4].
Qed.
End VolLess.

(* ================================================================== the statements, hypotheses spelled out *)
Open Scope R_scope.

(* [G] surfaces: accepted insert_knot(surf, [ou, ov], [ru, rv]) followed by remove_knot(surf', [ou, ov], [ju, jv]) with ju <= ru,
   jv <= rv returns exactly (record and flag) what insert_knot(surf, [ou, ov], [ru - ju, rv - jv]) returns, and that call is
   accepted.  ju = ru, jv = rv is KnotRemMultiDir.insert_then_remove_surf_restores. *)
Theorem insert_then_remove_less_surf (tol tol2 : R) (g : surf (T:=R)) (ou ov : option R) (ru rv ju jv dim : nat) :
  swf g dim -> length (s_P g) = (s_sv g * s_su g)%nat ->
  par_ok tol (s_pu g) (s_Uu g) (s_su g) ou -> par_ok tol (s_pv g) (s_Uv g) (s_sv g) ov -> 0 <= tol -> 0 <= tol2 ->
  (ju <= ru)%nat -> (jv <= rv)%nat ->
  forall g2, insert_knot_surf Rops tol true g [ou; ov] [Z.of_nat ru; Z.of_nat rv] = (g2, false) ->
  remove_knot_surf Rops tol tol2 true g2 [ou; ov] [Z.of_nat ju; Z.of_nat jv]
  = insert_knot_surf Rops tol true g [ou; ov] [Z.of_nat (ru - ju); Z.of_nat (rv - jv)] /\
  snd (insert_knot_surf Rops tol true g [ou; ov] [Z.of_nat (ru - ju); Z.of_nat (rv - jv)]) = false.
Proof.
  intros W HL Pu Pv Ht Ht2 Hu Hv g2 E.
  exact (surf_less_main tol tol2 dim ou ov Ht Ht2 g ru rv ju jv g2 (conj W HL) Pu Pv Hu Hv E).
Qed.

(* [G] ... read on the result: no exception, sizes and knot vectors reduced by exactly the removal counts, every surface point
   unchanged at all stages *)
Corollary insert_then_remove_less_surf_points (tol tol2 : R) (g : surf (T:=R)) (ou ov : option R) (ru rv ju jv dim : nat) :
  swf g dim -> length (s_P g) = (s_sv g * s_su g)%nat ->
  par_ok tol (s_pu g) (s_Uu g) (s_su g) ou -> par_ok tol (s_pv g) (s_Uv g) (s_sv g) ov -> 0 <= tol -> 0 <= tol2 ->
  (ju <= ru)%nat -> (jv <= rv)%nat ->
  forall g2 g3 raised, insert_knot_surf Rops tol true g [ou; ov] [Z.of_nat ru; Z.of_nat rv] = (g2, false) ->
  remove_knot_surf Rops tol tol2 true g2 [ou; ov] [Z.of_nat ju; Z.of_nat jv] = (g3, raised) ->
  raised = false /\
  s_su g3 = (s_su g + eff ou (ru - ju))%nat /\ s_sv g3 = (s_sv g + eff ov (rv - jv))%nat /\
  s_Uu g3 = kv_after (s_pu g) (s_Uu g) (s_su g) ou (ru - ju) /\ s_Uv g3 = kv_after (s_pv g) (s_Uv g) (s_sv g) ov (rv - jv) /\
  s_pu g3 = s_pu g /\ s_pv g3 = s_pv g /\ swf g3 dim /\
  forall c tu tv, (c < dim)%nat -> surf_pt g2 c tu tv = surf_pt g c tu tv /\ surf_pt g3 c tu tv = surf_pt g c tu tv.
Proof.
  intros W HL Pu Pv Ht Ht2 Hu Hv g2 g3 raised E2 E3.
  destruct (insert_then_remove_less_surf tol tol2 g ou ov ru rv ju jv dim W HL Pu Pv Ht Ht2 Hu Hv g2 E2) as [E R].
  rewrite E3 in E.
  pose proof (insert_knot_surf_correct tol g ou ov (ru - ju) (rv - jv) dim W Pu Pv) as C. rewrite <- E in C, R. cbv zeta in C.
  cbn [snd] in R. subst raised.
  destruct C as (_ & _ & C3 & C4 & C5 & C6 & C7). destruct (C3 eq_refl) as (S1 & S2 & S3 & S4).
  pose proof (insert_knot_surf_correct tol g ou ov ru rv dim W Pu Pv) as C'. rewrite E2 in C'. cbv zeta in C'.
  destruct C' as (_ & _ & _ & _ & _ & _ & C7').
  split; [reflexivity|]. do 7 (split; [assumption|]). intros c tu tv Hc. split; [apply C7'|apply C7]; assumption.
Qed.

(* [G] volumes *)
Theorem insert_then_remove_less_vol (tol tol2 : R) (g : vol (T:=R)) (ou ov ow : option R) (ru rv rw ju jv jw dim : nat) :
  vwf g dim -> length (v_P g) = (v_su g * v_sv g * v_sw g)%nat ->
  par_ok tol (v_pu g) (v_Uu g) (v_su g) ou -> par_ok tol (v_pv g) (v_Uv g) (v_sv g) ov ->
  par_ok tol (v_pw g) (v_Uw g) (v_sw g) ow -> 0 <= tol -> 0 <= tol2 ->
  (ju <= ru)%nat -> (jv <= rv)%nat -> (jw <= rw)%nat ->
  forall g3, insert_knot_vol Rops tol true g [ou; ov; ow] [Z.of_nat ru; Z.of_nat rv; Z.of_nat rw] = (g3, false) ->
  remove_knot_vol Rops tol tol2 true g3 [ou; ov; ow] [Z.of_nat ju; Z.of_nat jv; Z.of_nat jw]
  = insert_knot_vol Rops tol true g [ou; ov; ow] [Z.of_nat (ru - ju); Z.of_nat (rv - jv); Z.of_nat (rw - jw)] /\
  snd (insert_knot_vol Rops tol true g [ou; ov; ow] [Z.of_nat (ru - ju); Z.of_nat (rv - jv); Z.of_nat (rw - jw)]) = false.
Proof.
  intros W HL Pu Pv Pw Ht Ht2 Hu Hv Hw g3 E.
  exact (vol_less_main tol tol2 dim ou ov ow Ht Ht2 g ru rv rw ju jv jw g3 (conj W HL) Pu Pv Pw Hu Hv Hw E).
Qed.

Corollary insert_then_remove_less_vol_points (tol tol2 : R) (g : vol (T:=R)) (ou ov ow : option R) (ru rv rw ju jv jw dim : nat) :
  vwf g dim -> length (v_P g) = (v_su g * v_sv g * v_sw g)%nat ->
  par_ok tol (v_pu g) (v_Uu g) (v_su g) ou -> par_ok tol (v_pv g) (v_Uv g) (v_sv g) ov ->
  par_ok tol (v_pw g) (v_Uw g) (v_sw g) ow -> 0 <= tol -> 0 <= tol2 ->
  (ju <= ru)%nat -> (jv <= rv)%nat -> (jw <= rw)%nat ->
  forall g3 g4 raised, insert_knot_vol Rops tol true g [ou; ov; ow] [Z.of_nat ru; Z.of_nat rv; Z.of_nat rw] = (g3, false) ->
  remove_knot_vol Rops tol tol2 true g3 [ou; ov; ow] [Z.of_nat ju; Z.of_nat jv; Z.of_nat jw] = (g4, raised) ->
  raised = false /\
  v_su g4 = (v_su g + eff ou (ru - ju))%nat /\ v_sv g4 = (v_sv g + eff ov (rv - jv))%nat /\ v_sw g4 = (v_sw g + eff ow (rw - jw))%nat /\
  v_Uu g4 = kv_after (v_pu g) (v_Uu g) (v_su g) ou (ru - ju) /\ v_Uv g4 = kv_after (v_pv g) (v_Uv g) (v_sv g) ov (rv - jv) /\
  v_Uw g4 = kv_after (v_pw g) (v_Uw g) (v_sw g) ow (rw - jw) /\ vwf g4 dim /\
  forall c tu tv tw, (c < dim)%nat -> vol_pt g3 c tu tv tw = vol_pt g c tu tv tw /\ vol_pt g4 c tu tv tw = vol_pt g c tu tv tw.
Proof.
  intros W HL Pu Pv Pw Ht Ht2 Hu Hv Hw g3 g4 raised E3 E4.
  destruct (insert_then_remove_less_vol tol tol2 g ou ov ow ru rv rw ju jv jw dim W HL Pu Pv Pw Ht Ht2 Hu Hv Hw g3 E3) as [E R].
  rewrite E4 in E.
  pose proof (insert_knot_vol_correct tol g ou ov ow (ru - ju) (rv - jv) (rw - jw) dim W Pu Pv Pw) as C. rewrite <- E in C, R. cbv zeta in C.
  cbn [snd] in R. subst raised.
  destruct C as (_ & _ & C3 & _ & _ & _ & C6 & C7). destruct (C3 eq_refl) as (S1 & S2 & S3 & S4 & S5 & S6).
  pose proof (insert_knot_vol_correct tol g ou ov ow ru rv rw dim W Pu Pv Pw) as C'. rewrite E3 in C'. cbv zeta in C'.
  assert (C7' : forall c tu tv tw, (c < dim)%nat -> vol_pt g3 c tu tv tw = vol_pt g c tu tv tw) by (apply C').
  split; [reflexivity|]. do 7 (split; [assumption|]). intros c tu tv tw Hc. split; [apply C7'|apply C7]; assumption.
Qed.

Print Assumptions insert_then_remove_less_surf.
Print Assumptions insert_then_remove_less_surf_points.
Print Assumptions insert_then_remove_less_vol.
Print Assumptions insert_then_remove_less_vol_points.
