(* Knot insertion with an arbitrary admissible count preserves every curve point:
   induction on the count with  KI (r+1) = KI_1 o KI r  (Proofs/KnotInsN.v) and the single-insertion theorem. *)
From Coq Require Import List Reals Lra Lia Arith Bool.
From NV Require Import Scalar.Ops Model.Common Model.Basis Model.KnotIns Model.InsertKnot
  Proofs.Boehm Proofs.BasisR Proofs.KnotInsR Proofs.InsertKnotR Proofs.KnotInsN.
Import ListNotations.
Local Open Scope nat_scope.

Section Gen.
Context {T : Type} (K : ops T).

Lemma kv_zero (U : list T) u k : knot_insertion_kv U u k 0 = U.
Proof. unfold knot_insertion_kv. cbn [repeat app]. apply firstn_skipn. Qed.

Lemma kv_succ (U : list T) u k r : k < length U ->
  knot_insertion_kv U u k (S r) = knot_insertion_kv (knot_insertion_kv U u k r) u (k + r) 1.
Proof.
  intros Hk. apply (nth_ext _ _ u u).
  - rewrite !kv_length. lia.
  - intros i _. rewrite !kv_nth by (rewrite ?kv_length; lia). bdestr; try reflexivity; f_equal; lia.
Qed.

Lemma ki_zero p U (P : list (list T)) u s k : s <= p -> p <= k -> k < length P ->
  knot_insertion K p U P u 0 s k = P.
Proof.
  intros H1 H2 H3. apply (nth_ext _ _ [] []).
  - destruct (knot_insertion_frame K p U P u 0 s k) as [HL _]; auto; lia.
  - intros i _. change (nth i (knot_insertion K p U P u 0 s k) []) with (getA [] (knot_insertion_g K (lerp K) [] p U P u 0 s k) i).
    rewrite knot_insertion_g_closed by (auto; lia). unfold ki_closed. bdestr; try reflexivity; cbn [Rtri]; unfold getA; f_equal; lia.
Qed.

(* all points of the de Boor triangle have the dimension of the control points *)
Lemma Rtri_length p U (P : list (list T)) u k dim :
  (forall i, i < length P -> length (getp P i) = dim) ->
  forall j i, j <= i -> i < length P -> length (Rtri K (lerp K) [] p U P u k j i) = dim.
Proof.
  intros Hdim. induction j as [|j IH]; intros i Hj Hi; cbn [Rtri].
  - apply Hdim. exact Hi.
  - rewrite lerp_length, !IH by lia. apply Nat.min_id.
Qed.

Lemma ki_dim p U (P : list (list T)) u num s k dim :
  s <= p -> p <= k -> k < length P -> num <= p - s ->
  (forall i, i < length P -> length (getp P i) = dim) ->
  forall i, i < length P + num -> length (getp (knot_insertion K p U P u num s k) i) = dim.
Proof.
  intros H1 H2 H3 H4 Hdim i Hi.
  change (getp (knot_insertion K p U P u num s k) i) with (getA [] (knot_insertion_g K (lerp K) [] p U P u num s k) i).
  rewrite knot_insertion_g_closed by auto. unfold ki_closed.
  bdestr; try (apply Hdim; lia); apply (Rtri_length p U P u k dim Hdim); lia.
Qed.
End Gen.

Local Open Scope R_scope.

Section InsertN.
Variables (p : nat) (U : list R) (P : list (list R)) (u : R) (s k dim : nat).
Hypothesis Usorted : sortedR U.
Hypothesis HlenU : length U = (length P + p + 1)%nat.
Hypothesis Hsp : (s <= p)%nat.
Hypothesis Hpk : (p <= k)%nat.
Hypothesis Hk : (k < length P)%nat.
Hypothesis Hu : knR U k <= u < knR U (k + 1).
Hypothesis Hmult : forall i, (k - s < i <= k)%nat -> knR U i = u.
Hypothesis Hdim : forall i, (i < length P)%nat -> length (getp P i) = dim.

Theorem insertN_model_preserves_curve : forall num, (num <= p - s)%nat -> forall c t, (c < dim)%nat ->
  curve_pt p (knot_insertion_kv U u k num) (knot_insertion Rops p U P u num s k) c t = curve_pt p U P c t.
Proof.
  induction num as [|r IH]; intros Hnum c t Hc.
  - rewrite kv_zero, ki_zero by assumption. reflexivity.
  - rewrite <- (IH ltac:(lia) c t Hc).
    rewrite kv_succ by lia.
    rewrite (knot_insertion_is_g Rops p U P u (S r)).
    rewrite (ki_succ Rops (lerp Rops) [] p U P u r s k) by (auto; lia).
    rewrite <- !knot_insertion_is_g.
    set (Ur := knot_insertion_kv U u k r). set (Pr := knot_insertion Rops p U P u r s k).
    assert (HLP : length Pr = (length P + r)%nat).
    { unfold Pr. destruct (knot_insertion_frame Rops p U P u r s k) as [HL _]; auto; lia. }
    assert (HkU : forall i, knR Ur i = if Nat.leb i k then knR U i else if Nat.leb i (k + r) then u else knR U (i - r)).
    { intros i. unfold Ur. apply knot_insertion_kv_nth. lia. }
    apply (insert1_model_preserves_curve p Ur Pr u (s + r) (k + r) dim); try lia; auto.
    + unfold Ur. apply kv_sorted; auto; try lia; try lra.
      intros _. replace (S k) with (k + 1)%nat by lia. lra.
    + unfold Ur. rewrite kv_length, HLP. lia.
    + rewrite !HkU. bdestr; try lra.
      * replace (k + r + 1 - r)%nat with (k + 1)%nat by lia. replace (k + r)%nat with k by lia. lra.
      * replace (k + r + 1 - r)%nat with (k + 1)%nat by lia. lra.
    + intros i Hi. rewrite HkU. bdestr; try reflexivity. apply Hmult. lia.
    + intros i Hi. unfold Pr. apply ki_dim; auto; lia.
Qed.
End InsertN.
