(* Ties: generated fitting.compute_knot_vector / compute_knot_vector2 / compute_params_curve (Gen/Fitting.v) = Model/Fit.v.
   compute_knot_vector and compute_params_curve sum with sum(...) (from the left), the model with sumT (from the right):
   under sum_laws K.  compute_knot_vector2 carries d = float(num_dpts) / float(num_cpts - degree) as an exact rational and
   injects alpha = j d - int(j d) into the scalars; the model writes alpha = ofnat ((j r) mod q) / ofnat q: equal under
   nat_laws K (binary = unary injection).
   compute_params_curve: linalg.point_distance (a square root) is the uninterpreted parameter `dist` of the generated
   function; the model takes the chord lengths as its input: the tie holds for EVERY total dist, with the chords dist
   computes. *)
From Coq Require Import List ZArith Arith Bool Lia QArith Qabs.
From NV Require Import Scalar.Ops Model.Common Model.LinAlg Model.Fit Gen.Prelude Gen.PreludeExt Gen.Fitting
  Proofs.GenTieLib Proofs.GenTieLib2 Proofs.GenTieSums Proofs.GenTieLinAlg Proofs.GenTieSubst Proofs.GenTieDegree Proofs.GenTieBinom.
Import ListNotations.
Local Open Scope nat_scope.

Section TieSums.
Context {T : Type} (K : ops T) (LW : sum_laws K).
Notation "0" := (o0 K).

(* wf: the parameters read are params[1 .. num_points - 2]: num_points <= len(params) + 1 (callers pass len(params)) *)
Theorem compute_knot_vector_tie (p n : nat) (params : list T) : n <= S (length params) ->
  Fitting.compute_knot_vector K (Z.of_nat p) (Z.of_nat n) params = GOk (Fit.compute_knot_vector K p n params).
Proof.
  intros Hn. unfold Fitting.compute_knot_vector, Fit.compute_knot_vector.
  replace (Z.of_nat p + 1)%Z with (Z.of_nat (S p)) by lia.
  rewrite !map_const_zrange, !Nat2Z.id.
  rewrite zrange_0. replace (Z.to_nat (Z.of_nat n - Z.of_nat p - 1)) with (n - S p) by lia. rewrite (gfor_map Z.of_nat).
  rewrite (gfor_append' (seq O (n - S p)) _
             (fun i => omul K (odiv K (o1 K) (ofnat K p)) (sumr K (S i) p (fun j => nth j params 0)))).
  - cbn [gbind]. now rewrite <- app_assoc.
  - intros i acc Hi. apply in_seq in Hi.
    replace (Z.of_nat i + 1)%Z with (Z.of_nat (S i)) by lia.
    replace (Z.of_nat i + Z.of_nat p + 1)%Z with (Z.of_nat (S i + p)) by lia.
    rewrite zrange_nat. replace (S i + p - S i) with p by lia.
    rewrite (gmapM_ok _ (fun j => nth (Z.to_nat j) params 0)).
    + cbn [gbind]. rewrite map_map, (gsum_sumT K LW), ofZ_of_nat. unfold sumr.
      do 5 f_equal. apply map_ext. intros j. now rewrite Nat2Z.id.
    + intros j Hj. apply in_map_iff in Hj. destruct Hj as (j' & <- & Hj'). apply in_seq in Hj'.
      rewrite (znth_nat params j' 0) by lia. now rewrite Nat2Z.id.
Qed.

(* wf: at least one point.  dm = the value of the (total) distance function; ZeroDivisionError (all chords sum to 0, also
   a single point) <-> Crash *)
Theorem compute_params_curve_tie (pts : list (list T)) (dist : list T -> list T -> gres T) (dm : list T -> list T -> T) :
  (forall a b, dist a b = GOk (dm a b)) -> pts <> [] ->
  Fitting.compute_params_curve__centripetal_false K pts dist =
  res_to_gres (fun x => x) ValueError ZeroDivisionError
    (Fit.compute_params_curve K (map (fun i => dm (nth (S i) pts []) (nth i pts [])) (seq O (length pts - 1)))).
Proof.
  intros Hdist Hne. unfold Fitting.compute_params_curve__centripetal_false, Fit.compute_params_curve.
  set (n := length pts). assert (Hn : 1 <= n) by (subst n; destruct pts; [congruence|simpl; lia]).
  set (ch := fun i => dm (nth (S i) pts []) (nth i pts [])). set (chords := map ch (seq O (n - 1))).
  assert (Lch : length chords = n - 1) by (unfold chords; now rewrite map_length, seq_length).
  unfold zlen. fold n. replace (Z.of_nat n + 1)%Z with (Z.of_nat (S n)) by lia.
  rewrite !map_const_zrange, !Nat2Z.id.
  (* cds[-1] = 1.0 *)
  assert (E1 : zset (repeat 0 (S n)) (-1) (o1 K) = GOk (0 :: repeat 0 (n - 1) ++ [o1 K])).
  { change (-1)%Z with (- Z.of_nat 1)%Z. unfold zset. rewrite zidx_neg by (rewrite repeat_length; lia).
    rewrite list_upd_eq, repeat_length. replace (S n - 1) with n by lia. rewrite upd_repeat_last.
    destruct n as [|n']; [lia|]. replace (S n' - 1) with n' by lia. reflexivity. }
  rewrite E1. cbn [gbind].
  (* the chord loop *)
  rewrite zrange_1_of_nat.
  match goal with |- context [gfor (map Z.of_nat (seq 1 (n - 1))) ?ff ?s0] =>
    destruct (gfor_seq_inv (fun i (cds : list T) => cds = 0 :: map ch (seq O (i - 1)) ++ repeat 0 (n - i) ++ [o1 K]) ff (n - 1) 1)
      with (s := s0) as (cds & Ec & Hc)
  end.
  { intros i c Hi ->. cbn [gbind].
    rewrite (znth_nat pts i []) by (fold n; lia). cbn [gbind].
    replace (Z.of_nat i - 1)%Z with (Z.of_nat (i - 1)) by lia.
    rewrite (znth_nat pts (i - 1) []) by (fold n; lia). cbn [gbind]. rewrite Hdist. cbn [gbind].
    rewrite zset_nat by (cbn [length]; rewrite !app_length, map_length, seq_length, repeat_length; cbn [length]; lia). cbn [gbind].
    eexists. split; [reflexivity|].
    replace (n - i) with (S (n - S i)) by lia. cbn [repeat].
    destruct i as [|i]; [lia|]. cbn [upd]. f_equal.
    replace (S i - 1) with i by lia. replace (S (S i) - 1) with (S i) by lia.
    cbn [app]. rewrite upd_mid' by (now rewrite map_length, seq_length).
    rewrite seq_S, map_app, <- app_assoc. cbn [map app Nat.add]. reflexivity. }
  { cbn [seq map app Nat.sub]. reflexivity. }
  rewrite Ec. cbn [gbind]. replace (1 + (n - 1) - 1) with (n - 1) in Hc by lia. replace (n - (1 + (n - 1))) with O in Hc by lia.
  cbn [repeat app] in Hc. fold chords in Hc. subst cds.
  (* d *)
  assert (Ed : zslice (0 :: chords ++ [o1 K]) 1 (-1) = chords).
  { unfold zslice, zclamp. cbn [length]. rewrite app_length, Lch. cbn [length Z.ltb Z.compare].
    replace (Z.to_nat (Z.max 0 (Z.of_nat (S (n - 1 + 1)) + -1))) with n by lia.
    replace (Nat.min (S (n - 1 + 1)) (Z.to_nat 1)) with 1 by (change (Z.to_nat 1) with 1; lia).
    cbn [skipn]. rewrite <- Lch. rewrite firstn_app, Nat.sub_diag, firstn_all. cbn [firstn]. now rewrite app_nil_r. }
  rewrite Ed, (gsum_sumT K LW). set (d := sumT K chords).
  rewrite zrange_0_nat. unfold isz.
  destruct (oeqb K d 0) eqn:Ez.
  - (* the first division raises *)
    destruct n as [|n']; [lia|]. cbn [seq map gfor]. unfold odiv_chk. rewrite Ez. reflexivity.
  - cbn [res_to_gres].
    match goal with |- context [gfor (map Z.of_nat (seq O n)) ?ff ?s0] =>
      destruct (gfor_seq_inv (fun i (uk : list T) =>
                  uk = map (fun i => odiv K (sumT K (firstn i chords)) d) (seq O i) ++ repeat 0 (n - i)) ff n O)
        with (s := s0) as (uk & Eu & Hu)
    end.
    + intros i uk Hi ->. cbn [gbind]. unfold odiv_chk. rewrite Ez. cbn [gbind].
      rewrite zset_nat by (rewrite app_length, map_length, seq_length, repeat_length; lia). cbn [gbind].
      eexists. split; [reflexivity|].
      replace (n - i) with (S (n - S i)) by lia. cbn [repeat].
      rewrite upd_mid' by (now rewrite map_length, seq_length).
      rewrite seq_S, map_app, <- app_assoc. cbn [map app Nat.add]. do 3 f_equal.
      unfold zslice, zclamp. cbn [length]. rewrite app_length, Lch. cbn [length].
      destruct (Z.ltb_spec 0 0); [lia|]. destruct (Z.ltb_spec (Z.of_nat i + 1) 0); [lia|].
      change (Z.to_nat 0) with O. rewrite Nat.min_0_r. cbn [skipn].
      replace (Nat.min (S (n - 1 + 1)) (Z.to_nat (Z.of_nat i + 1)) - 0) with (S i) by lia.
      cbn [firstn]. rewrite (gsum_cons_0 K LW), (gsum_sumT K LW). f_equal.
      rewrite firstn_app. replace (i - length chords) with O by lia. cbn [firstn]. now rewrite app_nil_r.
    + now rewrite Nat.sub_0_r.
    + rewrite Eu. cbn [gbind]. rewrite Hu. cbn [Nat.add]. rewrite Nat.sub_diag. cbn [repeat]. rewrite app_nil_r.
      rewrite Lch. replace (S (n - 1)) with n by lia. reflexivity.
Qed.
End TieSums.

Section TieNat.
Context {T : Type} (K : ops T) (NL : nat_laws K).
Notation "0" := (o0 K).

Lemma olitz_ofnat (m : nat) : olitz K (Z.of_nat m) = ofnat K m.
Proof.
  destruct m as [|m]; [reflexivity|]. cbn [Z.of_nat olitz]. rewrite (ofpos_ofnat K NL), SuccNat2Pos.id_succ. reflexivity.
Qed.

Lemma rmul_rdiv_pos (j r : Z) (qp : positive) : rmul (rofZ j) (rdiv r (Zpos qp)) = Qmake (j * (r * 1)) qp.
Proof. reflexivity. Qed.

(* wf: degree < num_cpts (ZeroDivisionError / a negative count otherwise), num_cpts - degree <= num_dpts (for fewer data
   points int(j d) = 0 and the source reads params[-1], the LAST parameter, where the model reads params[0]),
   num_dpts <= len(params) *)
Theorem compute_knot_vector2_tie (p r c : nat) (params : list T) :
  p < c -> c - p <= r -> r <= length params ->
  Fitting.compute_knot_vector2 K (Z.of_nat p) (Z.of_nat r) (Z.of_nat c) params = GOk (Fit.compute_knot_vector2 K p r c params).
Proof.
  intros Hpc Hqr Hr. unfold Fitting.compute_knot_vector2, Fit.compute_knot_vector2.
  replace (Z.of_nat p + 1)%Z with (Z.of_nat (S p)) by lia.
  rewrite !map_const_zrange, !Nat2Z.id.
  set (q := c - p). assert (Hq : 1 <= q) by (unfold q; lia).
  replace (Z.of_nat c - Z.of_nat p)%Z with (Z.of_nat q) by (unfold q; lia).
  set (qp := Pos.of_nat q).
  assert (Eqp : Pos.to_nat qp = q) by (unfold qp; rewrite Nat2Pos.id; lia).
  assert (EqZ : Z.of_nat q = Zpos qp) by (rewrite <- Eqp; apply positive_nat_Z).
  unfold zdiv_chk. destruct (Z.eqb_spec (Z.of_nat q) 0); [lia|]. cbn [gbind].
  rewrite zrange_1_of_nat. replace (q - 1) with (Nat.pred q) by lia.
  rewrite (gfor_map Z.of_nat).
  rewrite (gfor_append' (seq 1 (Nat.pred q)) _
     (fun j => let i := Nat.div (Nat.mul j r) q in
               let alpha := odiv K (ofnat K (Nat.modulo (Nat.mul j r) q)) (ofnat K q) in
               oadd K (omul K (osub K (o1 K) alpha) (nth (Nat.pred i) params 0)) (omul K alpha (nth i params 0)))).
  - cbn [gbind]. now rewrite <- app_assoc.
  - intros j acc Hj. apply in_seq in Hj. cbv zeta.
    rewrite EqZ, rmul_rdiv_pos. unfold rtrunc. cbn [Qnum Qden].
    rewrite Z.mul_1_r, <- Nat2Z.inj_mul, <- EqZ.
    rewrite Z.quot_div_nonneg by lia. rewrite <- Nat2Z.inj_div.
    set (i := j * r / q).
    assert (Hi1 : 1 <= i) by (unfold i; apply Nat.div_le_lower_bound; nia).
    assert (Hi2 : i < r) by (unfold i; apply Nat.div_lt_upper_bound; nia).
    replace (Z.of_nat i - 1)%Z with (Z.of_nat (Nat.pred i)) by lia.
    rewrite (znth_nat params (Nat.pred i) 0) by lia. rewrite (znth_nat params i 0) by lia. cbn [gbind].
    assert (Ealpha : oratio K (rsub (Qmake (Z.of_nat (j * r)) qp) (rofZ (Z.of_nat i))) = odiv K (ofnat K ((j * r) mod q)) (ofnat K q)).
    { unfold oratio, rsub, rofZ, inject_Z, Qminus, Qplus, Qopp. cbn [Qnum Qden]. rewrite Pos.mul_1_r, (ofpos_ofnat K NL), Eqp.
      f_equal. rewrite <- olitz_ofnat. f_equal. rewrite <- EqZ. rewrite Nat2Z.inj_mod by lia.
      rewrite Z.mod_eq by lia. unfold i. rewrite Nat2Z.inj_div. lia. }
    rewrite !Ealpha. reflexivity.
Qed.
End TieNat.

Definition compute_knot_vector_tie_R := @compute_knot_vector_tie _ Rops Rops_sum_laws.
Definition compute_knot_vector_tie_Q := @compute_knot_vector_tie _ Qops Qops_sum_laws.
Definition compute_params_curve_tie_R := @compute_params_curve_tie _ Rops Rops_sum_laws.
Definition compute_params_curve_tie_Q := @compute_params_curve_tie _ Qops Qops_sum_laws.
Definition compute_knot_vector2_tie_R := @compute_knot_vector2_tie _ Rops Rops_nat_laws.
Definition compute_knot_vector2_tie_Q := @compute_knot_vector2_tie _ Qops Qops_nat_laws.

(* ---- non-vacuity ---- *)
Local Open Scope Q_scope.
Definition exParams : list Q := [0; 1#8; 3#8; 1#2; 3#4; 1].
(* a stand-in for point_distance in the Examples: the taxicab distance *)
Definition l1 (a b : list Q) : Q := fold_left (fun s p => Qred (s + Qabs (fst p - snd p))) (combine a b) 0.
Example fit_ex :
  Fitting.compute_knot_vector Qops 3 6 exParams = GOk [0; 0; 0; 0; 1#3; 13#24; 1; 1; 1; 1]
  /\ Fit.compute_knot_vector Qops 3 6 exParams = [0; 0; 0; 0; 1#3; 13#24; 1; 1; 1; 1]
  /\ Fitting.compute_knot_vector2 Qops 2 5 4 exParams = GOk [0; 0; 0; 1#4; 1; 1; 1]
  /\ Fit.compute_knot_vector2 Qops 2 5 4 exParams = [0; 0; 0; 1#4; 1; 1; 1]
  /\ Fitting.compute_knot_vector2 Qops 2 6 5 exParams = GOk [0; 0; 0; 1#8; 1#2; 1; 1; 1]
  /\ Fitting.compute_knot_vector2 Qops 2 6 2 exParams = GErr ZeroDivisionError
  /\ Fitting.compute_params_curve__centripetal_false Qops [[0; 0]; [3; 4]; [3; 9]; [6; 13]] (fun a b => GOk (l1 a b)) = GOk [0; 7#19; 12#19; 1]
  /\ Fit.compute_params_curve Qops [7; 5; 7] = Ok [0; 7#19; 12#19; 1]
  /\ Fitting.compute_params_curve__centripetal_false Qops [[1; 1]; [1; 1]] (fun a b => GOk (l1 a b)) = GErr ZeroDivisionError
  /\ Fit.compute_params_curve Qops [0] = Crash.
Proof. repeat split; vm_compute; reflexivity. Qed.
(* outside wf (fewer data points than num_cpts - degree): int(j d) = 0 and the source reads params[-1], the model params[0] *)
Example compute_knot_vector2_wraparound :
  Fitting.compute_knot_vector2 Qops 1 2 5 [0; 2#5; 1] = GOk [0; 0; 1#2; 0; 1#5; 1; 1]
  /\ Fit.compute_knot_vector2 Qops 1 2 5 [0; 2#5; 1] = [0; 0; 0; 0; 1#5; 1; 1].
Proof. repeat split; vm_compute; reflexivity. Qed.
