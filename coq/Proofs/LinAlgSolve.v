(* Forward / backward substitution and lu_solve at the real instance (all sizes). *)
From Coq Require Import List Reals Lra Lia Arith Bool.
From NV Require Import Scalar.Ops Model.Common Model.LinAlg Proofs.LinAlgSums Proofs.LinAlgR.
Import ListNotations.
Open Scope R_scope.

Lemma fold_left_seq_S {A} (f : A -> nat -> A) a n init :
  fold_left f (seq a (S n)) init = f (fold_left f (seq a n) init) (a + n)%nat.
Proof. rewrite seq_S, fold_left_app. reflexivity. Qed.

(* ---- forward substitution ---- *)
Lemma fwd_fold L b q : (forall r, (r < q)%nat -> g2 L r r <> 0) ->
  forall i, (i <= q)%nat -> exists y,
    fold_left (fwd_step Rops L b) (seq 0 i) (Ok []) = Ok y /\ length y = i /\
    forall r, (r < i)%nat -> sumR 0 (S r) (fun j => g2 L r j * nth j y 0) = nth r b 0.
Proof.
  intros Hd. induction i as [|i IH]; intros Hi.
  - exists []. repeat split. intros r Hr. lia.
  - destruct (IH ltac:(lia)) as (y & E & Ly & Hy).
    rewrite fold_left_seq_S, E. cbn [Nat.add]. unfold fwd_step at 1. cbn [res_bind].
    rewrite (isz_false _ (Hd i ltac:(lia))).
    set (v := odiv Rops (osub Rops (nth i b (o0 Rops)) (sumR 0 i (fun j => omul Rops (g2 L i j) (nth j y (o0 Rops))))) (g2 L i i)).
    exists (y ++ [v]). split; [reflexivity|]. split; [rewrite app_length; cbn; lia|].
    intros r Hr. destruct (Nat.eq_dec r i) as [->|Hne].
    + rewrite sumr_S. cbn [Nat.add]. rewrite app_nth2 by lia. rewrite Ly, Nat.sub_diag. cbn [nth].
      rewrite (sumr_ext 0 i _ (fun j => g2 L i j * nth j y 0)) by (intros j Hj; rewrite app_nth1 by lia; reflexivity).
      subst v. rsimp. field. apply Hd. lia.
    + rewrite <- (Hy r) by lia. apply sumr_ext. intros j Hj. rewrite app_nth1 by lia. reflexivity.
Qed.
Lemma fwd_guard q L : rect q q L -> forallb (fun i => Nat.ltb i (length (nth i L []))) (seq 0 q) = true.
Proof.
  intros HL. apply forallb_forall. intros i Hi. apply in_seq in Hi. rewrite (rect_nth q q) by (auto; lia). apply Nat.ltb_lt. lia.
Qed.
(* [G] L y = b row by row (only the entries on and below the diagonal of L are read) *)
Theorem forward_substitution_correct L b : let q := length b in (0 < q)%nat -> rect q q L ->
  (forall r, (r < q)%nat -> g2 L r r <> 0) ->
  exists y, forward_substitution Rops L b = Ok y /\ length y = q /\
    forall r, (r < q)%nat -> sumR 0 (S r) (fun j => g2 L r j * nth j y 0) = nth r b 0.
Proof.
  intros q Hq HL Hd. unfold forward_substitution. destruct b as [|b0 b']; [cbn in Hq; lia|].
  fold q. rewrite (fwd_guard q L HL). apply (fwd_fold L (b0 :: b') q Hd q (le_n q)).
Qed.

(* ---- backward substitution ---- *)
Lemma bwd_fold U y q : (forall r, (r < q)%nat -> g2 U r r <> 0) ->
  forall len i, (i + len = q)%nat -> exists x,
    fold_right (bwd_step Rops U y) (Ok []) (seq i len) = Ok x /\ length x = len /\
    forall r, (i <= r < q)%nat -> sumR r (q - r) (fun j => g2 U r j * nth (j - i) x 0) = nth r y 0.
Proof.
  intros Hd. induction len as [|len IH]; intros i Hi.
  - exists []. repeat split. intros r Hr. lia.
  - destruct (IH (S i) ltac:(lia)) as (x & E & Lx & Hx).
    cbn [seq fold_right]. rewrite E. unfold bwd_step at 1. cbn [res_bind].
    rewrite (isz_false _ (Hd i ltac:(lia))).
    set (v := odiv Rops (osub Rops (nth i y (o0 Rops)) (sumR (S i) (length x) (fun j => omul Rops (g2 U i j) (nth (j - S i) x (o0 Rops))))) (g2 U i i)).
    exists (v :: x). split; [reflexivity|]. split; [cbn; lia|].
    intros r Hr. destruct (Nat.eq_dec r i) as [->|Hne].
    + replace (q - i)%nat with (S (q - S i)) by lia. rewrite sumr_cons, Nat.sub_diag. cbn [nth].
      rewrite (sumr_ext (S i) (q - S i) _ (fun j => g2 U i j * nth (j - S i) x 0)).
      2:{ intros j Hj. replace (j - i)%nat with (S (j - S i)) by lia. reflexivity. }
      subst v. rewrite Lx. replace (q - S i)%nat with len by lia. rsimp. field. apply Hd. lia.
    + rewrite <- (Hx r) by lia. apply sumr_ext. intros j Hj. replace (j - i)%nat with (S (j - S i)) by lia. reflexivity.
Qed.
Lemma bwd_guard q U : rect q q U -> forallb (fun i => Nat.leb q (length (nth i U []))) (seq 0 q) = true.
Proof.
  intros HU. apply forallb_forall. intros i Hi. apply in_seq in Hi. rewrite (rect_nth q q) by (auto; lia). apply Nat.leb_le. lia.
Qed.
(* [G] U x = y row by row (only the entries on and above the diagonal of U are read) *)
Theorem backward_substitution_correct U y : let q := length y in (0 < q)%nat -> rect q q U ->
  (forall r, (r < q)%nat -> g2 U r r <> 0) ->
  exists x, backward_substitution Rops U y = Ok x /\ length x = q /\
    forall r, (r < q)%nat -> sumR r (q - r) (fun j => g2 U r j * nth j x 0) = nth r y 0.
Proof.
  intros q Hq HU Hd. unfold backward_substitution. destruct y as [|y0 y']; [cbn in Hq; lia|].
  fold q. rewrite (bwd_guard q U HU).
  destruct (bwd_fold U (y0 :: y') q Hd q 0%nat ltac:(lia)) as (x & E & Lx & Hx).
  exists x. repeat split; try assumption. intros r Hr. rewrite <- (Hx r) by lia.
  apply sumr_ext. intros j _. rewrite Nat.sub_0_r. reflexivity.
Qed.

(* ---- solve_columns / lu_solve ---- *)
Lemma res_all_map_ok {A} (g : nat -> res A) (h : nat -> A) : forall len a,
  (forall c, (a <= c < a + len)%nat -> g c = Ok (h c)) -> res_all (map g (seq a len)) = Ok (map h (seq a len)).
Proof.
  induction len as [|len IH]; intros a H; [reflexivity|].
  cbn [seq map res_all]. rewrite (H a) by lia. cbn [res_bind]. rewrite (IH (S a)) by (intros; apply H; lia). reflexivity.
Qed.
Lemma column_nth (b : list (list R)) c i : (i < length b)%nat -> nth i (column Rops b c) 0 = g2 b i c.
Proof. intros Hi. unfold column, get2. rewrite (nth_map' _ b i _ []) by exact Hi. reflexivity. Qed.
Lemma column_length (b : list (list R)) c : length (column Rops b c) = length b.
Proof. apply map_length. Qed.

Definition colsol (L U b : list (list R)) (c : nat) : res (list R) :=
  res_bind (forward_substitution Rops L (column Rops b c)) (backward_substitution Rops U).
Definition colx (L U b : list (list R)) (c : nat) : list R := match colsol L U b c with Ok x => x | _ => [] end.

(* triangular solves: L unit-lower-part read, U upper part read *)
Theorem solve_columns_correct L U b n dim : (0 < n)%nat -> rect n n L -> rect n n U -> rect n dim b ->
  (forall r, (r < n)%nat -> g2 L r r <> 0) -> (forall r, (r < n)%nat -> g2 U r r <> 0) ->
  exists X, solve_columns Rops L U b = Ok X /\ rect n dim X /\
    forall c, (c < dim)%nat -> exists y,
      (forall i, (i < n)%nat -> sumR 0 (S i) (fun j => g2 L i j * nth j y 0) = g2 b i c) /\
      (forall i, (i < n)%nat -> sumR i (n - i) (fun j => g2 U i j * g2 X j c) = nth i y 0).
Proof.
  intros Hn HL HU Hb HdL HdU.
  assert (Hlen : length b = n) by apply Hb.
  assert (Hdim : length (hd [] b) = dim) by (apply (rect_hd n dim); assumption).
  assert (Hcol : forall c, (c < dim)%nat -> exists y x,
     colsol L U b c = Ok x /\ length x = n /\
     (forall i, (i < n)%nat -> sumR 0 (S i) (fun j => g2 L i j * nth j y 0) = g2 b i c) /\
     (forall i, (i < n)%nat -> sumR i (n - i) (fun j => g2 U i j * nth j x 0) = nth i y 0)).
  { intros c Hc.
    assert (Lq : length (column Rops b c) = n) by (rewrite column_length; exact Hlen).
    destruct (forward_substitution_correct L (column Rops b c)) as (y & Ey & Ly & Hy); rewrite ?Lq; try assumption.
    rewrite Lq in *.
    destruct (backward_substitution_correct U y) as (x & Ex & Lx & Hx); rewrite ?Ly; try assumption.
    rewrite Ly in *.
    exists y, x. unfold colsol. rewrite Ey. cbn [res_bind]. rewrite Ex. repeat split; try assumption.
    intros i Hi. rewrite Hy by exact Hi. apply column_nth. lia. }
  assert (Hg : forall c, (0 <= c < 0 + dim)%nat -> colsol L U b c = Ok (colx L U b c)).
  { intros c Hc. destruct (Hcol c ltac:(lia)) as (y & x & E & _). unfold colx. rewrite E. reflexivity. }
  set (X := map (fun j => map (fun col => nth j col 0) (map (colx L U b) (seq 0 dim))) (seq 0 n)).
  assert (HXe : forall j c, (j < n)%nat -> (c < dim)%nat -> g2 X j c = nth j (colx L U b c) 0).
  { intros j c Hj Hc. unfold X, get2. rewrite nth_map_seq by exact Hj. rewrite map_map.
    rewrite nth_map_seq by exact Hc. reflexivity. }
  exists X. split.
  - unfold solve_columns. rewrite Hdim.
    assert (G : forallb (fun r => Nat.leb dim (length r)) b = true).
    { apply forallb_forall. intros r Hr. apply Nat.leb_le. destruct Hb as [_ Hb2]. rewrite (Hb2 r Hr). lia. }
    rewrite G. fold (colsol L U b). change (fun i => res_bind (forward_substitution Rops L (column Rops b i)) (backward_substitution Rops U)) with (colsol L U b).
    rewrite (res_all_map_ok (colsol L U b) (colx L U b) dim 0 Hg). cbn [res_map]. rewrite Hlen. reflexivity.
  - split.
    + split; [unfold X; rewrite map_length, seq_length; reflexivity|].
      intros row Hin. unfold X in Hin. apply in_map_iff in Hin. destruct Hin as [j [<- _]].
      rewrite !map_length, seq_length. reflexivity.
    + intros c Hc. destruct (Hcol c Hc) as (y & x & E & Lx & Hy & Hx). exists y. split; [exact Hy|].
      intros i Hi. rewrite <- (Hx i Hi). apply sumr_ext. intros j Hj. rewrite HXe by lia. unfold colx. rewrite E. reflexivity.
Qed.

(* from L U = A entrywise (triangular shapes) and the two triangular solves: A X = b *)
Lemma LU_solve_combine (Lf Uf Af : nat -> nat -> R) (x y : nat -> R) n i bi : (i < n)%nat ->
  (forall r j, (r < n)%nat -> (j < n)%nat -> (r < j)%nat -> Lf r j = 0) ->
  (forall r j, (r < n)%nat -> (j < n)%nat -> (j < r)%nat -> Uf r j = 0) ->
  (forall r c, (r < n)%nat -> (c < n)%nat -> sumR 0 n (fun j => Lf r j * Uf j c) = Af r c) ->
  sumR 0 (S i) (fun j => Lf i j * y j) = bi ->
  (forall r, (r < n)%nat -> sumR r (n - r) (fun j => Uf r j * x j) = y r) ->
  sumR 0 n (fun k => Af i k * x k) = bi.
Proof.
  intros Hi HLz HUz HLU Hy Hx.
  rewrite (sumr_ext 0 n _ (fun k => sumR 0 n (fun j => Lf i j * Uf j k * x k))).
  2:{ intros k Hk. rewrite <- (HLU i k) by lia. rewrite <- sumr_scale_r. reflexivity. }
  rewrite sumr_swap.
  rewrite (sumr_ext 0 n _ (fun j => Lf i j * y j)).
  2:{ intros j Hj. rewrite <- (Hx j) by lia.
      rewrite (sumr_ext 0 n _ (fun k => Lf i j * (Uf j k * x k))) by (intros; ring).
      rewrite sumr_scale. f_equal.
      replace n with (j + (n - j))%nat at 1 by lia. rewrite sumr_split. cbn [Nat.add].
      rewrite sumr_zero; [lra|]. intros k Hk. rewrite HUz by lia. ring. }
  rewrite <- Hy. replace n with (S i + (n - S i))%nat at 1 by lia. rewrite sumr_split.
  rewrite (sumr_zero (0 + S i)); [lra|]. intros j Hj. rewrite HLz by lia. ring.
Qed.

(* [G] lu_solve: if every pivot is non-zero the result X satisfies A X = b, for every size and every right-hand side *)
Theorem lu_solve_correct A b dim : let n := length A in (0 < n)%nat -> is_square A = true -> rect n dim b ->
  (forall i, (i < n)%nat -> g2 (snd (doolittle Rops A)) i i <> 0) ->
  exists X, lu_solve Rops A b = Ok X /\ rect n dim X /\
    forall i c, (i < n)%nat -> (c < dim)%nat -> sumR 0 n (fun k => g2 A i k * g2 X k c) = g2 b i c.
Proof.
  intros n Hn Hsq Hb Hp.
  destruct (doolittle_LU_entries A Hp) as (H1 & H2 & H3 & H4).
  destruct (solve_columns_correct (Lm A) (Um A) b n dim Hn (Lm_rect A) (Ur_rect A) Hb) as (X & EX & RX & HX).
  { intros r Hr. rewrite H2 by exact Hr. lra. }
  { exact Hp. }
  exists X. split.
  - unfold lu_solve. destruct b as [|b0 b']; [destruct Hb as [Hb _]; cbn in Hb; lia|].
    unfold lu_decomposition. rewrite Hsq. cbn [res_bind]. exact EX.
  - split; [exact RX|]. intros i c Hi Hc. destruct (HX c Hc) as (y & Hy & Hx).
    apply (LU_solve_combine (g2 (Lm A)) (g2 (Um A)) (g2 A) (fun k => g2 X k c) (fun j => nth j y 0) n i); try assumption.
    apply Hy, Hi.
Qed.
