(* mesh_valid: the finite-range theorem of C15 assembled from the four vm_compute chunks, and its lift to
   make_triangle_mesh for all sample sizes 2..40 and all dividing vertex spacings. *)
From Coq Require Import List Arith Bool Lia.
From NV Require Import Scalar.Ops Model.Common Model.Geom2D Model.Tess Proofs.TessValid Proofs.TessV1 Proofs.TessV2 Proofs.TessV3 Proofs.TessV4 Proofs.TessR.
Import ListNotations.

(* [F] all vertex-array sizes 2..40 x 2..40 *)
Theorem mesh_valid_2_40 a b : 2 <= a <= 40 -> 2 <= b <= 40 -> mesh_ok a b (plain_tris a b) = true.
Proof.
  intros Ha Hb.
  destruct (le_lt_dec a 20); [apply (mesh_ok_rows_spec 2 19 mesh_ok_chunk1); lia|].
  destruct (le_lt_dec a 28); [apply (mesh_ok_rows_spec 21 8 mesh_ok_chunk2); lia|].
  destruct (le_lt_dec a 34); [apply (mesh_ok_rows_spec 29 6 mesh_ok_chunk3); lia|].
  apply (mesh_ok_rows_spec 35 6 mesh_ok_chunk4); lia.
Qed.

Lemma varr_size_le size k : 1 <= k -> varr_size size k <= size - 1 + 1.
Proof.
  intros Hk. unfold varr_size. apply Nat.add_le_mono_r. apply Nat.div_le_upper_bound; [lia|]. nia.
Qed.

(* [F]+[G] every tessellation the property quantifies over: sample sizes 2..40 per direction, every spacing that divides
   both sizes minus one.  The model's output satisfies the validator, has a*b consecutively numbered vertices and
   2(a-1)(b-1) consecutively numbered triangles. *)
Theorem tessellation_valid npts su sv k vs ts :
  2 <= su <= 40 -> 2 <= sv <= 40 -> 1 <= k -> Nat.divide k (su - 1) -> Nat.divide k (sv - 1) ->
  make_triangle_mesh npts su sv k = Ok (vs, ts) ->
  let a := varr_size su k in let b := varr_size sv k in
  mesh_ok a b (map snd ts) = true /\ length vs = a * b /\ length ts = 2 * ((a - 1) * (b - 1)) /\
  map fst ts = seq 0 (length ts).
Proof.
  intros Hu Hv Hk Du Dv H.
  assert (Ku : k <= su - 1) by (apply Nat.divide_pos_le; [lia|exact Du]).
  assert (Kv : k <= sv - 1) by (apply Nat.divide_pos_le; [lia|exact Dv]).
  destruct (mesh_counts npts su sv k vs ts Hk Ku Kv H) as [E1 [E2 [E3 [E4 _]]]]. cbv zeta in *.
  repeat split; try assumption.
  rewrite E4. apply mesh_valid_2_40.
  - split; [apply varr_size_ge2; assumption|]. pose proof (varr_size_le su k Hk). lia.
  - split; [apply varr_size_ge2; assumption|]. pose proof (varr_size_le sv k Hk). lia.
Qed.
