(* Direction lifting of "one removal inverts one insertion" to surfaces: operations.remove_knot in the v (u)
   direction applies the curve algorithm to every row (column) of the net, operations.insert_knot did the same, so
   the surface net is restored exactly.  Uses builder A's gather lemmas (Proofs/InsertDirR.v). *)
From Coq Require Import List Reals Lra Lia Arith Bool.
From NV Require Import Scalar.Ops Model.Common Model.Basis Model.KnotIns Model.InsertKnot Model.KnotRem
  Proofs.BasisR Proofs.KnotInsR Proofs.InsertDirR Proofs.KnotRemR.
Import ListNotations.

Section SurfV.
Variables (tol2 : R) (g : @surf R) (t : R) (s k d : nat).
Hypothesis Hsp : (s < s_pv g)%nat.
Hypothesis Hpk : (s_pv g <= k)%nat.
Hypothesis Hk : (k < s_sv g)%nat.
Hypothesis HkU : (k < length (s_Uv g))%nat.
Hypothesis Hsize : length (s_P g) = (s_sv g * s_su g)%nat.
Hypothesis Hdim : Forall (fun pt => length pt = d) (s_P g).
Hypothesis Htol : (0 <= tol2)%R.
Hypothesis Hsep : forall i, (k - s_pv g < i <= k - s)%nat -> (knR (s_Uv g) i < t < knR (s_Uv g) (i + s_pv g))%R.

(* the surface after operations.insert_knot(surf, [None, t], [0, 1]) *)
Let g' : @surf R :=
  mkS (s_pu g) (s_pv g) (s_Uu g) (knot_insertion_kv (s_Uv g) t k 1) (s_su g) (s_sv g + 1) (surf_net_v Rops g t 1 s k).

Lemma row_dim i : (i < s_su g)%nat -> Forall (fun pt => length pt = d) (row_v g i).
Proof.
  intros Hi. unfold row_v. rewrite Forall_forall. intros x Hx. apply in_map_iff in Hx.
  destruct Hx as (v_ & <- & Hv). apply in_seq in Hv. rewrite Forall_forall in Hdim. apply Hdim. unfold getp.
  apply nth_In. rewrite Hsize. nia.
Qed.

Lemma row_length i : length (row_v g i) = s_sv g.
Proof. unfold row_v. rewrite map_length, seq_length. reflexivity. Qed.

Lemma row_of_inserted i : (i < s_su g)%nat ->
  map (fun v_ => getp (s_P g') (v_ + s_sv g' * i)) (seq 0 (s_sv g')) =
  knot_insertion Rops (s_pv g) (s_Uv g) (row_v g i) t 1 s k.
Proof.
  intros Hi. cbn [g' s_P s_sv].
  apply nth_ext with (d := []) (d' := []).
  - rewrite map_length, seq_length. rewrite (knot_insertion1_length Rops); try assumption; rewrite row_length; [lia|exact Hk].
  - intros n Hn. rewrite map_length, seq_length in Hn. rewrite InsertDirR.nth_map_seq by exact Hn.
    rewrite (surf_net_v_row Rops g t 1 s k i n); try lia. reflexivity.
Qed.

Theorem surf_remove1_insert1_v :
  surf_rem_v Rops tol2 g' t 1 (S s) (S k) = s_P g.
Proof.
  unfold surf_rem_v.
  assert (E : forall i, (i < s_su g)%nat ->
     knot_removal Rops (pdim (s_P g')) tol2 (s_pv g') (s_Uv g')
       (map (fun v_ => getp (s_P g') (v_ + s_sv g' * i)) (seq 0 (s_sv g'))) t 1 (S s) (S k) = row_v g i).
  { intros i Hi. rewrite row_of_inserted by exact Hi. cbn [g' s_pv s_Uv].
    apply remove1_insert1_model with (d := d); try assumption.
    - rewrite row_length. exact Hk.
    - apply row_dim. exact Hi. }
  cbn [g' s_su] in *.
  apply nth_ext with (d := []) (d' := []).
  - rewrite (flat_map_length_const _ (s_sv g)); [rewrite Hsize; reflexivity|].
    intros i Hi. rewrite E by exact Hi. apply row_length.
  - intros n Hn.
    rewrite (flat_map_length_const _ (s_sv g)) in Hn by (intros i Hi; rewrite E by exact Hi; apply row_length).
    assert (Hsv : (0 < s_sv g)%nat) by lia.
    pose proof (Nat.div_mod n (s_sv g) ltac:(lia)) as Hdm.
    pose proof (Nat.mod_upper_bound n (s_sv g) ltac:(lia)) as Hmod.
    assert (Hq : (n / s_sv g < s_su g)%nat) by (apply Nat.div_lt_upper_bound; lia).
    rewrite Hdm at 1. rewrite (Nat.add_comm (s_sv g * (n / s_sv g))).
    rewrite (nth_flat_map_const _ (s_sv g)); try assumption.
    2:{ intros i Hi. rewrite E by exact Hi. apply row_length. }
    rewrite E by exact Hq. unfold row_v. rewrite InsertDirR.nth_map_seq by exact Hmod.
    unfold getp. f_equal. lia.
Qed.
End SurfV.

Section SurfU.
Variables (tol2 : R) (g : @surf R) (t : R) (s k d : nat).
Hypothesis Hsp : (s < s_pu g)%nat.
Hypothesis Hpk : (s_pu g <= k)%nat.
Hypothesis Hk : (k < s_su g)%nat.
Hypothesis HkU : (k < length (s_Uu g))%nat.
Hypothesis Hsize : length (s_P g) = (s_sv g * s_su g)%nat.
Hypothesis Hdim : Forall (fun pt => length pt = d) (s_P g).
Hypothesis Htol : (0 <= tol2)%R.
Hypothesis Hsep : forall i, (k - s_pu g < i <= k - s)%nat -> (knR (s_Uu g) i < t < knR (s_Uu g) (i + s_pu g))%R.

(* the surface after operations.insert_knot(surf, [t, None], [1, 0]) *)
Let g' : @surf R :=
  mkS (s_pu g) (s_pv g) (knot_insertion_kv (s_Uu g) t k 1) (s_Uv g) (s_su g + 1) (s_sv g) (surf_net_u Rops g t 1 s k).

Lemma col_dim j : (j < s_sv g)%nat -> Forall (fun pt => length pt = d) (col_u g j).
Proof.
  intros Hj. unfold col_u. rewrite Forall_forall. intros x Hx. apply in_map_iff in Hx.
  destruct Hx as (u_ & <- & Hu). apply in_seq in Hu. rewrite Forall_forall in Hdim. apply Hdim. unfold getp.
  apply nth_In. rewrite Hsize. nia.
Qed.

Lemma col_length j : length (col_u g j) = s_su g.
Proof. unfold col_u. rewrite map_length, seq_length. reflexivity. Qed.

Lemma col_of_inserted j : (j < s_sv g)%nat ->
  map (fun u_ => getp (s_P g') (j + s_sv g' * u_)) (seq 0 (s_su g')) =
  knot_insertion Rops (s_pu g) (s_Uu g) (col_u g j) t 1 s k.
Proof.
  intros Hj. cbn [g' s_P s_sv s_su].
  apply nth_ext with (d := []) (d' := []).
  - rewrite map_length, seq_length. rewrite (knot_insertion1_length Rops); try assumption; rewrite col_length; [lia|exact Hk].
  - intros n Hn. rewrite map_length, seq_length in Hn. rewrite InsertDirR.nth_map_seq by exact Hn.
    rewrite (surf_net_u_col Rops g t 1 s k n j); try lia. reflexivity.
Qed.

Theorem surf_remove1_insert1_u :
  surf_rem_u Rops tol2 g' t 1 (S s) (S k) = s_P g.
Proof.
  unfold surf_rem_u.
  assert (E : forall j, (j < s_sv g)%nat ->
     knot_removal Rops (pdim (s_P g')) tol2 (s_pu g') (s_Uu g')
       (map (fun u_ => getp (s_P g') (j + s_sv g' * u_)) (seq 0 (s_su g'))) t 1 (S s) (S k) = col_u g j).
  { intros j Hj. rewrite col_of_inserted by exact Hj. cbn [g' s_pu s_Uu].
    apply remove1_insert1_model with (d := d); try assumption.
    - rewrite col_length. exact Hk.
    - apply col_dim. exact Hj. }
  cbn [g' s_su s_sv] in *. replace (s_su g + 1 - 1)%nat with (s_su g) by lia.
  set (tmp := flat_map _ (seq 0 (s_sv g))).
  assert (Htmp : forall i j, (i < s_su g)%nat -> (j < s_sv g)%nat -> getp tmp (i + s_su g * j) = getp (s_P g) (j + s_sv g * i)).
  { intros i j Hi Hj. unfold tmp. unfold getp at 1.
    rewrite (nth_flat_map_const _ (s_su g)); try assumption.
    2:{ intros j' Hj'. rewrite E by exact Hj'. apply col_length. }
    rewrite E by exact Hj. unfold col_u. rewrite InsertDirR.nth_map_seq by exact Hi. reflexivity. }
  unfold flip_ctrlpts_u.
  apply nth_ext with (d := []) (d' := []).
  - rewrite (flat_map_length_const _ (s_sv g)); [rewrite Hsize; reflexivity|].
    intros i Hi. rewrite map_length, seq_length. reflexivity.
  - intros n Hn.
    rewrite (flat_map_length_const _ (s_sv g)) in Hn by (intros i Hi; rewrite map_length, seq_length; reflexivity).
    assert (Hsv : (0 < s_sv g)%nat) by lia.
    pose proof (Nat.div_mod n (s_sv g) ltac:(lia)) as Hdm.
    pose proof (Nat.mod_upper_bound n (s_sv g) ltac:(lia)) as Hmod.
    assert (Hq : (n / s_sv g < s_su g)%nat) by (apply Nat.div_lt_upper_bound; lia).
    rewrite Hdm at 1. rewrite (Nat.add_comm (s_sv g * (n / s_sv g))).
    rewrite (nth_flat_map_const _ (s_sv g)); try assumption.
    2:{ intros i Hi. rewrite map_length, seq_length. reflexivity. }
    rewrite InsertDirR.nth_map_seq by exact Hmod.
    replace (n / s_sv g + n mod s_sv g * s_su g)%nat with (n / s_sv g + s_su g * (n mod s_sv g))%nat by lia.
    rewrite Htmp by assumption. unfold getp. f_equal. lia.
Qed.
End SurfU.
