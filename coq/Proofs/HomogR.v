(* Homogeneous (weighted) control points: component lemmas and lifting of linear functionals to
   homogeneous coordinates.  Used by C18 (rational hull) and C10 (rational shapes under affine maps). *)
From Coq Require Import List Reals Lra Lia Arith Bool.
From NV Require Import Scalar.Ops Model.Common Model.Basis Model.Knots Model.Eval Model.Homog Proofs.LinComb.
Import ListNotations.
Open Scope R_scope.

Lemma hom_point_length (pt : list R) w : length (hom_point Rops pt w) = S (length pt).
Proof. unfold hom_point. rewrite app_length, map_length. cbn. lia. Qed.
Lemma removelast_hom (pt : list R) w : removelast (hom_point Rops pt w) = map (fun c => c * w) pt.
Proof. unfold hom_point. apply removelast_last. Qed.
Lemma last_hom (pt : list R) w : last (hom_point Rops pt w) 0 = w.
Proof. unfold hom_point. apply last_last. Qed.
Lemma hom_combine_length (P : list (list R)) (W : list R) : length W = length P -> length (hom_combine Rops P W) = length P.
Proof. intros H. unfold hom_combine. rewrite map_length, combine_length. lia. Qed.
Lemma pt_at_hom (P : list (list R)) (W : list R) i : (i < length P)%nat -> length W = length P ->
  pt_at (hom_combine Rops P W) i = hom_point Rops (pt_at P i) (nth i W 0).
Proof.
  intros Hi HW. unfold pt_at, hom_combine.
  rewrite (nth_indep _ [] ((fun pw => hom_point Rops (fst pw) (snd pw)) ([], 0))) by (rewrite map_length, combine_length; lia).
  rewrite (map_nth (fun pw => hom_point Rops (fst pw) (snd pw))). rewrite combine_nth by lia. reflexivity.
Qed.

(* vectors of length dim+1 split into body and last coordinate *)
Lemma split_last (v : list R) dim : length v = S dim -> v = removelast v ++ [last v 0] /\ length (removelast v) = dim.
Proof.
  intros H. assert (v <> []) by (intro E; subst; discriminate).
  split; [apply app_removelast_last; assumption|].
  pose proof (app_removelast_last 0 H0) as E. apply (f_equal (@length R)) in E. rewrite app_length in E. cbn in E. lia.
Qed.
Lemma axpy_app k (x y : list R) s t : length x = length y ->
  axpy Rops k (x ++ [s]) (y ++ [t]) = axpy Rops k x y ++ [t + k * s].
Proof.
  intros H. unfold axpy. revert y H. induction x as [|a x IH]; intros [|b y] H; cbn [length] in H; try discriminate.
  - reflexivity.
  - cbn [app combine map fst snd]. f_equal. apply IH. lia.
Qed.

Lemma vzero_snoc dim : vzero Rops (S dim) = vzero Rops dim ++ [0].
Proof. unfold vzero. cbn [o0 Rops]. induction dim; [reflexivity|]. cbn [repeat app] in *. rewrite <- IHdim. reflexivity. Qed.

(* phi (body) + a * (last coordinate) is a linear functional on dim+1 vectors *)
Lemma linfun_lift dim phi a : linfun dim phi -> linfun (S dim) (fun v => phi (removelast v) + a * last v 0).
Proof.
  intros [H0 H]. split.
  - rewrite vzero_snoc, removelast_last, last_last, H0. lra.
  - intros k pt acc Hp Ha. cbv beta.
    destruct (split_last pt dim Hp) as [Ep Lp]. destruct (split_last acc dim Ha) as [Ea La].
    assert (E : axpy Rops k pt acc = axpy Rops k (removelast pt) (removelast acc) ++ [last acc 0 + k * last pt 0]).
    { rewrite Ep, Ea at 1. apply axpy_app. lia. }
    rewrite E, removelast_last, last_last. rewrite H by assumption. lra.
Qed.

(* homogeneity of linear functionals, in the two forms the code uses: c * w and c / w *)
Lemma axpy_zero_scale k (x : list R) : axpy Rops k x (vzero Rops (length x)) = map (fun c => c * k) x.
Proof.
  unfold axpy, vzero. induction x as [|a x IH]; [reflexivity|]. cbn [length repeat combine map fst snd]. rewrite IH. f_equal. rsimp. lra.
Qed.
Lemma linfun_mul dim phi k x : linfun dim phi -> length x = dim -> phi (map (fun c => c * k) x) = k * phi x.
Proof.
  intros [H0 H] Hx. rewrite <- axpy_zero_scale. rewrite Hx. rewrite H; auto using vzero_length. rewrite H0. lra.
Qed.
Lemma linfun_div dim phi w x : linfun dim phi -> length x = dim -> phi (map (fun c => c / w) x) = phi x / w.
Proof.
  intros Hl Hx. rewrite (map_ext _ (fun c => c * / w)) by (intros; unfold Rdiv; reflexivity).
  rewrite (linfun_mul dim) by assumption. unfold Rdiv. lra.
Qed.

(* the rational projection through a linear functional *)
Lemma linfun_project dim phi v : linfun dim phi -> length v = S dim ->
  phi (project Rops v) = phi (removelast v) / last v 0.
Proof.
  intros Hl Hv. unfold project. cbn [o0 Rops]. destruct (split_last v dim Hv) as [_ L].
  change (map (fun c : R => odiv Rops c (last v 0)) (removelast v)) with (map (fun c => c / last v 0) (removelast v)).
  apply (linfun_div dim); assumption.
Qed.

(* lo <= phi (project v) <= hi  from the two lifted functionals and a positive weight *)
Lemma project_bounds dim phi v lo hi : linfun dim phi -> length v = S dim -> 0 < last v 0 ->
  0 <= phi (removelast v) + (- lo) * last v 0 -> 0 <= (fun x => - phi x) (removelast v) + hi * last v 0 ->
  lo <= phi (project Rops v) <= hi.
Proof.
  intros Hl Hv Hw H1 H2. rewrite (linfun_project dim) by assumption.
  cbv beta in H2. set (A := phi (removelast v)) in *. set (w := last v 0) in *.
  split.
  - apply Rmult_le_reg_r with w; [exact Hw|]. unfold Rdiv. rewrite Rmult_assoc, Rinv_l by lra. lra.
  - apply Rmult_le_reg_r with w; [exact Hw|]. unfold Rdiv. rewrite Rmult_assoc, Rinv_l by lra. lra.
Qed.

(* values of the lifted functionals on a homogeneous point *)
Lemma lift_hom dim phi a pt w : linfun dim phi -> length pt = dim ->
  phi (removelast (hom_point Rops pt w)) + a * last (hom_point Rops pt w) 0 = w * (phi pt + a).
Proof. intros Hl Hp. rewrite removelast_hom, last_hom. change (fun c : R => omul Rops c w) with (fun c => c * w). rewrite (linfun_mul dim) by assumption. lra. Qed.
