(* C03/C17: binary span search = linear span search (under the explicit tolerance precondition). *)
From Coq Require Import List Reals Lra Lia Arith Bool.
From NV Require Import Scalar.Ops Model.Common Model.Basis Proofs.BasisR Proofs.EvalR.
Import ListNotations.
Open Scope R_scope.

Lemma div2_bounds a b : (a <= b)%nat -> (a <= Nat.div2 (a + b) <= b)%nat /\ ((a < b)%nat -> (Nat.div2 (a + b) < b)%nat).
Proof.
  intros H. rewrite Nat.div2_div.
  pose proof (Nat.div_mod (a + b) 2 ltac:(lia)) as E. pose proof (Nat.mod_upper_bound (a + b) 2 ltac:(lia)) as M.
  split; [split|intros]; lia.
Qed.

Section Bin.
Variables (U : list R) (u : R).
Hypothesis Usorted : sortedR U.

(* unique non-empty half-open interval containing u *)
Lemma span_unique k k' : (k + 1 < length U)%nat -> (k' + 1 < length U)%nat ->
  knR U k <= u < knR U (k + 1) -> knR U k' <= u < knR U (k' + 1) -> k = k'.
Proof.
  intros HL HL' [H1 H2] [H3 H4].
  destruct (lt_eq_lt_dec k k') as [[Hlt|He]|Hgt]; [|exact He|].
  - assert (knR U (k + 1) <= knR U k') by (apply Usorted; lia). lra.
  - assert (knR U (k' + 1) <= knR U k) by (apply Usorted; lia). lra.
Qed.

Lemma loop_spec fuel : forall low high mid,
  (low < high)%nat -> (low <= mid <= high)%nat -> (low < mid \/ high = S low)%nat -> (high < length U)%nat ->
  knR U low <= u < knR U high ->
  (high - low + (if Nat.eqb mid high then 1 else 0) < fuel)%nat ->
  exists k, binsearch_loop Rops fuel U u low high mid = Some k /\ (low <= k < high)%nat /\ knR U k <= u < knR U (k + 1).
Proof.
  induction fuel as [|f IH]; intros low high mid Hlh Hm Hinv HL [Hlo Hhi] Hf; [lia|].
  cbn [binsearch_loop]. rsimp. unfold Rltb, Rleb.
  destruct (Rlt_dec u (knR U mid)) as [Hlt|Hge]; cbn [orb].
  - (* u < U_mid : high := mid *)
    assert (Hlm : (low < mid)%nat).
    { destruct (Nat.eq_dec low mid) as [E|E]; [subst; lra|lia]. }
    destruct (div2_bounds low mid ltac:(lia)) as [Hb1 Hb2]. specialize (Hb2 Hlm).
    destruct (IH low mid (Nat.div2 (low + mid))) as [k [E [Hk Hi]]]; try lia; try (split; lra).
    + destruct (Nat.eq_dec mid (S low)) as [E|E]; [right; exact E|left].
      rewrite Nat.div2_div. pose proof (Nat.div_mod (low + mid) 2 ltac:(lia)). pose proof (Nat.mod_upper_bound (low + mid) 2 ltac:(lia)). lia.
    + destruct (Nat.eqb_spec (Nat.div2 (low + mid)) mid); [lia|].
      destruct (Nat.eqb_spec mid high); lia.
    + exists k. split; [exact E|]. split; [lia|exact Hi].
  - destruct (Rle_dec (knR U (S mid)) u) as [Hle|Hgt].
    + (* U_{mid+1} <= u : low := mid *)
      assert (Hmh : (S mid < high)%nat).
      { assert (mid <> high) by (intros ->; lra).
        destruct (le_lt_dec high (S mid)) as [E|E]; [|exact E].
        assert (knR U high <= knR U (S mid)) by (apply Usorted; lia). lra. }
      assert (Hlm : (low < mid)%nat) by lia.
      destruct (div2_bounds mid high ltac:(lia)) as [Hb1 Hb2]. specialize (Hb2 ltac:(lia)).
      destruct (IH mid high (Nat.div2 (mid + high))) as [k [E [Hk Hi]]]; try lia; try (split; lra).
      * left. rewrite Nat.div2_div. pose proof (Nat.div_mod (mid + high) 2 ltac:(lia)). pose proof (Nat.mod_upper_bound (mid + high) 2 ltac:(lia)). lia.
      * destruct (Nat.eqb_spec (Nat.div2 (mid + high)) high); [lia|]. destruct (Nat.eqb_spec mid high); lia.
      * exists k. split; [exact E|]. split; [lia|exact Hi].
    + (* found *)
      exists mid. split; [reflexivity|]. split.
      * split; [lia|]. destruct (Nat.eq_dec mid high) as [E|E]; [subst; lra|lia].
      * replace (mid + 1)%nat with (S mid) by lia. split; lra.
Qed.

(* [G] for every u >= U_p the binary search terminates within its fuel and returns the span of the linear search *)
Theorem binsearch_eq_linear (tol : R) (p num : nat) :
  (p < num)%nat -> (num < length U)%nat -> knR U p <= u ->
  find_span_binsearch Rops tol p U num u = Some (find_span_linear Rops p U num u).
Proof.
  intros Hp HL Hlo. unfold find_span_binsearch.
  replace (S (Nat.pred num)) with num by lia. rsimp. unfold Rleb.
  destruct (Rle_dec (knR U num) u) as [Hend|Hin].
  - (* at or beyond the domain end: both return num - 1 *)
    f_equal. pose proof (find_span_linear_spec U u p num Hp HL Hlo) as H. cbn zeta in H.
    destruct H as [Hk [_ [Hlt|[Hk' _]]]].
    + exfalso. assert (knR U (S (find_span_linear Rops p U num u)) <= knR U num) by (apply Usorted; lia). lra.
    + lia.
  - assert (Hu : knR U p <= u < knR U num) by lra.
    destruct (div2_bounds p (S num) ltac:(lia)) as [Hb1 Hb2].
    assert (Hmid : (p < Nat.div2 (S (p + num)) <= num)%nat).
    { rewrite Nat.div2_div. pose proof (Nat.div_mod (S (p + num)) 2 ltac:(lia)). pose proof (Nat.mod_upper_bound (S (p + num)) 2 ltac:(lia)). lia. }
    destruct (loop_spec (S (S (length U))) p num (Nat.div2 (S (p + num)))) as [k [E [Hk Hi]]]; try lia; try exact Hu.
    + destruct (Nat.eqb_spec (Nat.div2 (S (p + num))) num); lia.
    + rewrite E. f_equal.
      destruct (span_facts U u p num Hp HL Hu) as [Hk' Hi']. cbn zeta in *.
      apply span_unique; try lia; assumption.
Qed.
End Bin.
