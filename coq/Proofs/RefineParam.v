(* C05: two corollaries of the parametricity of Model.KnotRefine.refine_g in the point type:
   - the returned knot vector does not depend on the control points (only on their number);
   - A5.4 on rows of points (volumes, refine_rows) is fibre-wise A5.4 on points (refine_pts). *)
From Coq Require Import List Reals Lia Arith.
From Param Require Import Param.
From NV Require Import Scalar.Ops Model.Common Model.Basis Model.KnotIns Model.InsertKnot Model.KnotRefine
  Proofs.KnotInsR Proofs.KnotInsN.
Import ListNotations.
Local Open Scope nat_scope.

Parametricity Recursive refine_g.

Lemma ops_R_eq : ops_R R R (fun x y => x = y) Rops Rops.
Proof.
  constructor; try reflexivity; try (intros a a' -> b b' ->; reflexivity);
  intros a a' -> b b' ->; apply bool_R_eq; reflexivity.
Qed.

Lemma list_R_eq_refl {A} (l : list A) : list_R A A (fun x y => x = y) l l.
Proof. induction l; constructor; auto. Qed.
Lemma list_R_eq_inv {A} (l l' : list A) : list_R A A (fun x y => x = y) l l' -> l = l'.
Proof. induction 1 as [|? ? e]; [reflexivity|]. subst. reflexivity. Qed.

Lemma list_R_nth {A B} (RR : A -> B -> Prop) (dA : A) (dB : B) (l1 : list A) (l2 : list B) :
  list_R A B RR l1 l2 -> length l1 = length l2 /\ forall i, i < length l1 -> RR (nth i l1 dA) (nth i l2 dB).
Proof.
  induction 1 as [|a b r l1 l2 H [IH1 IH2]]; cbn [length]; [split; [reflexivity|intros; lia]|].
  split; [lia|]. intros [|i] Hi; cbn [nth]; [exact r|]. apply IH2. lia.
Qed.

Lemma list_R_of_nth {A B} (RR : A -> B -> Prop) (dA : A) (dB : B) : forall (l1 : list A) (l2 : list B),
  length l1 = length l2 -> (forall i, i < length l1 -> RR (nth i l1 dA) (nth i l2 dB)) -> list_R A B RR l1 l2.
Proof.
  induction l1 as [|a l1 IH]; intros [|b l2] HL H; cbn [length] in *; try lia; constructor.
  - apply (H 0). lia.
  - apply IH; [lia|]. intros i Hi. apply (H (S i)). lia.
Qed.

(* ---------- the knot vector depends on the number of control points only ---------- *)
Theorem refine_kv_indep {A B} (lerpA : R -> A -> A -> A) (dA : A) (lerpB : R -> B -> B -> B) (dB : B)
    tol p U (P : list A) (P' : list B) X : length P = length P' ->
  snd (refine_g Rops lerpA dA tol p U P X) = snd (refine_g Rops lerpB dB tol p U P' X).
Proof.
  intros HL.
  pose proof (refine_g_R R R (fun x y => x = y) Rops Rops ops_R_eq A B (fun _ _ => True) lerpA lerpB
                (fun _ _ _ _ _ _ _ _ _ => I) dA dB I tol tol eq_refl p p (nat_R_refl p) U U (list_R_eq_refl U)
                P P' (list_R_of_nth (fun _ _ => True) dA dB P P' HL (fun _ _ => I)) X X (list_R_eq_refl X)) as H.
  destruct H as [Q1 Q2 HQ V1 V2 HV]. cbn [snd]. apply list_R_eq_inv. exact HV.
Qed.

(* ---------- rows of points: fibre-wise the point algorithm ---------- *)
Lemma lerp_row_nth_ idx alpha (a b : list (list R)) : idx < length a -> idx < length b ->
  nth idx (lerp_row Rops alpha a b) [] = lerp Rops alpha (nth idx a []) (nth idx b []).
Proof.
  intros Ha Hb. unfold lerp_row.
  set (f := fun ab : list R * list R => lerp Rops alpha (fst ab) (snd ab)).
  rewrite (nth_indep _ [] (f ([], []))) by (rewrite map_length, combine_length; lia).
  rewrite (map_nth f). rewrite combine_nth_lt by lia. reflexivity.
Qed.
Lemma lerp_row_length_ alpha (a b : list (list R)) : length (lerp_row Rops alpha a b) = Nat.min (length a) (length b).
Proof. unfold lerp_row. rewrite map_length, combine_length. reflexivity. Qed.
Lemma nth_nil_ {B} (i : nat) (d : B) : nth i (@nil B) d = d.
Proof. destruct i; reflexivity. Qed.
Lemma fibre_nth_ (C : list (list (list R))) idx i : nth i (map (fun row => nth idx row []) C) [] = nth idx (nth i C []) [].
Proof.
  rewrite <- (nth_nil_ (B:=list R) idx []) at 1.
  apply (map_nth (fun row : list (list R) => nth idx row []) C [] i).
Qed.

Definition fibre_of (idx : nat) (C : list (list (list R))) : list (list R) := map (fun row => nth idx row []) C.

Section Rows.
Variables (tol : R) (p : nat) (U : list R) (C : list (list (list R))) (X : list R) (m idx : nat).
Hypothesis Hrows : forall i, i < length C -> length (nth i C []) = m.
Hypothesis Hidx : idx < m.

(* a row and its idx-th point; the empty row (never written slot) corresponds to the empty point *)
Definition RowPt (row : list (list R)) (pt : list R) : Prop := nth idx row [] = pt /\ (row = [] \/ length row = m).

Lemma RowPt_lerp : forall (t1 t2 : R), t1 = t2 -> forall a1 a2, RowPt a1 a2 -> forall b1 b2, RowPt b1 b2 ->
  RowPt (lerp_row Rops t1 a1 b1) (lerp Rops t2 a2 b2).
Proof.
  intros t1 t2 -> a1 a2 [Ea Ha] b1 b2 [Eb Hb]. unfold RowPt.
  destruct Ha as [->|Ha].
  { rewrite nth_nil_ in Ea. subst a2. cbn. split; [apply nth_nil_|left; reflexivity]. }
  destruct Hb as [->|Hb].
  { rewrite nth_nil_ in Eb. subst b2. unfold lerp_row, lerp. rewrite !combine_nil. cbn [map]. split; [apply nth_nil_|left; reflexivity]. }
  split.
  - rewrite lerp_row_nth_ by lia. rewrite Ea, Eb. reflexivity.
  - right. rewrite lerp_row_length_, Ha, Hb. apply Nat.min_id.
Qed.

Theorem refine_rows_fibre :
  let '(Qr, Vr) := refine_rows Rops tol p U C X in
  let '(Qp, Vp) := refine_pts Rops tol p U (fibre_of idx C) X in
  Vr = Vp /\ length Qr = length Qp /\
  forall i, i < length Qr -> nth idx (nth i Qr []) [] = nth i Qp [] /\ (nth i Qr [] = [] \/ length (nth i Qr []) = m).
Proof.
  assert (HC : list_R _ _ RowPt C (fibre_of idx C)).
  { apply (list_R_of_nth RowPt [] []).
    - unfold fibre_of. rewrite map_length. reflexivity.
    - intros i Hi. split; [|right; apply Hrows; exact Hi].
      unfold fibre_of. symmetry. apply fibre_nth_. }
  pose proof (refine_g_R R R (fun x y => x = y) Rops Rops ops_R_eq _ _ RowPt (lerp_row Rops) (lerp Rops) RowPt_lerp
                [] [] (conj (nth_nil_ idx []) (or_introl eq_refl))
                tol tol eq_refl p p (nat_R_refl p) U U (list_R_eq_refl U) C (fibre_of idx C) HC X X (list_R_eq_refl X)) as H.
  unfold refine_rows, refine_pts.
  destruct H as [Q1 Q2 HQ V1 V2 HV].
  split; [apply list_R_eq_inv; exact HV|].
  destruct (list_R_nth RowPt [] [] Q1 Q2 HQ) as [HL Hn]. split; [exact HL|exact Hn].
Qed.
End Rows.

(* ---------- the number of returned control points depends on the number of control points only ---------- *)
Theorem refine_len_indep {A B} (lerpA : R -> A -> A -> A) (dA : A) (lerpB : R -> B -> B -> B) (dB : B)
    tol p U (P : list A) (P' : list B) X : length P = length P' ->
  length (fst (refine_g Rops lerpA dA tol p U P X)) = length (fst (refine_g Rops lerpB dB tol p U P' X)).
Proof.
  intros HL.
  pose proof (refine_g_R R R (fun x y => x = y) Rops Rops ops_R_eq A B (fun _ _ => True) lerpA lerpB
                (fun _ _ _ _ _ _ _ _ _ => I) dA dB I tol tol eq_refl p p (nat_R_refl p) U U (list_R_eq_refl U)
                P P' (list_R_of_nth (fun _ _ => True) dA dB P P' HL (fun _ _ => I)) X X (list_R_eq_refl X)) as H.
  destruct H as [Q1 Q2 HQ V1 V2 HV]. cbn [fst]. apply (list_R_nth (fun _ _ => True) dA dB Q1 Q2 HQ).
Qed.
