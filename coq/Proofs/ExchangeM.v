(* C14: smesh / vmesh / txt / csv round trips and the documented row / column order, at the real instance. *)
From Coq Require Import List Arith Bool Lia Reals Lra String.
From NV Require Import Scalar.Ops Model.Common Model.Knots Model.Layout Model.Exchange
  Proofs.LayoutP Proofs.LayoutR Proofs.LayoutC Proofs.ExchangeP Proofs.ExchangeR.
Import ListNotations.
Open Scope list_scope.
Notation length := List.length (only parsing).

Section M.
Context {Sx : Type} (pr prf : R -> Sx) (pa : Sx -> R) (Hpr : forall x, pa (pr x) = x) (Hprf : forall x, pa (prf x) = x).
Context (d2 d3 : R).
Notation K := Rops.
Open Scope R_scope.

Definition unw (p : list R) : list R := map (fun c => odiv K c (lastc K p)) (removelast p) ++ [lastc K p].
Lemma gcw_map (P : list (list R)) : gen_ctrlpts_weights K P = map unw P.
Proof. reflexivity. Qed.

Lemma parse_frow (l : list R) : map (tok_num K pa) (frow prf l) = l.
Proof. unfold frow. rewrite map_map. apply map_id_in. intros x _. cbn [tok_num]. apply Hprf. Qed.
Lemma parse_frows (L : list (list R)) : map (map (tok_num K pa)) (map (frow prf) L) = L.
Proof. rewrite map_map. apply map_id_in. intros l _. apply parse_frow. Qed.

Lemma nth_map_in {X Y} (f : X -> Y) l k d d' : (k < length l)%nat -> nth k (map f l) d = f (nth k l d').
Proof. intros H. rewrite nth_indep with (d' := f d') by (rewrite map_length; exact H). apply map_nth. Qed.

(* ------------------------------------------------------------------ smesh *)
Definition wf_srf_geo (s : srf (T:=R)) : Prop :=
  s_pu s <> 0%nat /\ s_pv s <> 0%nat /\ (s_pu s + 1 <= s_su s)%nat /\ (s_pv s + 1 <= s_sv s)%nat /\
  length (s_pts s) = (s_su s * s_sv s)%nat /\ wf_pts (s_rat s) 3 (s_pts s) /\
  wf_kv (s_pu s) (s_Uu s) (s_su s) /\ wf_kv (s_pv s) (s_Uv s) (s_sv s).
(* what a mesh file gives back: the rational form of the shape with default delta, no trims, no sense flag *)
Definition mesh_srf (s : srf (T:=R)) : srf (T:=R) :=
  mkS true (s_pu s) (s_pv s) (s_Uu s) (s_Uv s) (s_su s) (s_sv s) (homogR (s_rat s) (s_pts s)) d2 d2 None [].

Lemma firstn_app_exact {X} (A B : list X) n : length A = n -> firstn n (A ++ B) = A.
Proof. intros <-. rewrite firstn_app, Nat.sub_diag, firstn_all. cbn. apply app_nil_r. Qed.

(* reading back one surface block: unweighted u-fastest rows -> the homogeneous v-fastest net *)
Lemma mesh_block_back (Hm : list (list R)) su sv : length Hm = (su * sv)%nat -> (forall p, In p Hm -> pt_ok p) ->
  flip_ctrlpts_u_res [] (map unw (flip_ctrlpts [] Hm su sv)) su sv = Ok (map unw Hm) /\
  gen_ctrlptsw K (map unw Hm) = Hm.
Proof.
  intros HL Hok. split.
  - unfold flip_ctrlpts_u_res. rewrite map_length, flip_ctrlpts_length, Nat.leb_refl. f_equal.
    rewrite (flip_ctrlpts_u_map unw [] []) by apply flip_ctrlpts_length. rewrite flip_u_flip by exact HL. reflexivity.
  - rewrite <- gcw_map. apply gen_w_unw. exact Hok.
Qed.

Theorem import_export_smesh1 (s : srf (T:=R)) : wf_srf_geo s -> dimension (s_rat s) (s_pts s) = 3%nat ->
  import_surf_mesh K pa d2 (export_smesh1 K prf s) = Ok (mesh_srf s).
Proof.
  intros (Hpu & Hpv & Hsu & Hsv & HL & Hp & Hku & Hkv) Hdim. unfold import_surf_mesh.
  change (cell_int (export_smesh1 K prf s) 0 0) with (Ok (dimension (s_rat s) (s_pts s))). rewrite Hdim. cbn [res_bind Nat.eqb negb].
  change (cell_int (export_smesh1 K prf s) 1 0) with (Ok (s_pu s)). change (cell_int (export_smesh1 K prf s) 1 1) with (Ok (s_pv s)).
  change (cell_int (export_smesh1 K prf s) 2 0) with (Ok (s_su s)). change (cell_int (export_smesh1 K prf s) 2 1) with (Ok (s_sv s)).
  cbn [res_bind]. rewrite !set_degree_ok by assumption. cbn [res_bind].
  change (nums_row K pa (export_smesh1 K prf s) 3) with (Ok (map (tok_num K pa) (frow prf (s_Uu s)))).
  change (nums_row K pa (export_smesh1 K prf s) 4) with (Ok (map (tok_num K pa) (frow prf (s_Uv s)))).
  rewrite !parse_frow.
  assert (Hsl : slice_rows (export_smesh1 K prf s) 5 (s_su s * s_sv s) =
                map (frow prf) (map unw (flip_ctrlpts [] (homogR (s_rat s) (s_pts s)) (s_su s) (s_sv s)))).
  { unfold slice_rows, export_smesh1. cbn [app skipn]. rewrite homog_homogR, gcw_map.
    apply firstn_app_exact. rewrite !map_length. apply flip_ctrlpts_length. }
  rewrite Hsl, parse_frows.
  pose proof (wf_homog_ok _ _ _ Hp) as Hok. destruct (wf_homog_lens _ _ _ Hp) as (A & B & C).
  destruct (mesh_block_back (homogR (s_rat s) (s_pts s)) (s_su s) (s_sv s)) as [E1 E2];
    [rewrite homogR_length; exact HL|exact Hok|].
  rewrite E1. cbn [res_bind]. rewrite E2.
  rewrite set_pts_ok; try assumption.
  2:{ intros dg [<-|[<-|[]]]; assumption. }
  2:{ intros ds [<-|[<-|[]]]; cbn [fst snd]; assumption. }
  cbn [res_bind]. rewrite homogR_length, HL, Nat.ltb_irrefl. cbn [res_bind].
  rewrite !set_kv_ok by assumption. cbn [res_bind]. reflexivity.
Qed.

Theorem smesh_roundtrip (l : list (srf (T:=R))) :
  (forall s, In s l -> wf_srf_geo s /\ dimension (s_rat s) (s_pts s) = 3%nat) ->
  import_smesh K pa d2 (export_smesh K prf l) = Ok (map mesh_srf l).
Proof.
  intros H. unfold import_smesh, export_smesh. rewrite mapM_map. apply mapM_ok.
  intros s Hs. destruct (H s Hs). apply import_export_smesh1; assumption.
Qed.

(* documented order: after the 5 header rows, the row of point (u,v) is row u + size_u*v (u varies fastest) and
   holds (x, y, z, w) = the unweighted coordinates and the weight of the homogeneous point idx2 u v *)
Theorem smesh_order (s : srf (T:=R)) u v : length (s_pts s) = (s_su s * s_sv s)%nat -> (u < s_su s)%nat -> (v < s_sv s)%nat ->
  nth (5 + (u + s_su s * v)) (export_smesh1 K prf s) [] = frow prf (unw (nth (idx2 (s_sv s) u v) (homogR (s_rat s) (s_pts s)) [])) /\
  nth 0 (export_smesh1 K prf s) [] = [TI (dimension (s_rat s) (s_pts s))] /\
  nth 1 (export_smesh1 K prf s) [] = [TI (s_pu s); TI (s_pv s)] /\ nth 2 (export_smesh1 K prf s) [] = [TI (s_su s); TI (s_sv s)] /\
  nth 3 (export_smesh1 K prf s) [] = frow prf (s_Uu s) /\ nth 4 (export_smesh1 K prf s) [] = frow prf (s_Uv s).
Proof.
  intros HL Hu Hv. split; [|repeat split; reflexivity].
  unfold export_smesh1. cbn [app plus nth]. rewrite homog_homogR, gcw_map.
  assert (Hk : (u + s_su s * v < s_su s * s_sv s)%nat) by nia.
  rewrite app_nth1 by (rewrite !map_length, flip_ctrlpts_length; exact Hk).
  rewrite (nth_map_in (frow prf) _ _ [] []) by (rewrite map_length, flip_ctrlpts_length; exact Hk). f_equal.
  rewrite (nth_map_in unw _ _ [] []) by (rewrite flip_ctrlpts_length; exact Hk). f_equal.
  apply (flip_ctrlpts_nth (A:=list R) []); assumption.
Qed.

(* ------------------------------------------------------------------ vmesh *)
Definition wf_vol_geo (v : vlm (T:=R)) : Prop :=
  v_pu v <> 0%nat /\ v_pv v <> 0%nat /\ v_pw v <> 0%nat /\
  (v_pu v + 1 <= v_su v)%nat /\ (v_pv v + 1 <= v_sv v)%nat /\ (v_pw v + 1 <= v_sw v)%nat /\
  length (v_pts v) = (v_su v * v_sv v * v_sw v)%nat /\ wf_pts (v_rat v) 4 (v_pts v) /\
  wf_kv (v_pu v) (v_Uu v) (v_su v) /\ wf_kv (v_pv v) (v_Uv v) (v_sv v) /\ wf_kv (v_pw v) (v_Uw v) (v_sw v).
Definition mesh_vol (v : vlm (T:=R)) : vlm (T:=R) :=
  mkV true (v_pu v) (v_pv v) (v_pw v) (v_Uu v) (v_Uv v) (v_Uw v) (v_su v) (v_sv v) (v_sw v) (homogR (v_rat v) (v_pts v)) d3 d3 d3.

Lemma length_concat_uniform {X} (L : list (list X)) n : (forall l, In l L -> length l = n) -> length (List.concat L) = (length L * n)%nat.
Proof.
  induction L as [|l L IH]; intros H; [reflexivity|]. cbn [List.concat length]. rewrite app_length, IH by (intros; apply H; right; assumption).
  rewrite (H l) by (left; reflexivity). reflexivity.
Qed.
Lemma nth_concat_uniform {X} (L : list (list X)) n i j d : (forall l, In l L -> length l = n) -> (i < length L)%nat -> (j < n)%nat ->
  nth (j + n * i) (List.concat L) d = nth j (nth i L []) d.
Proof.
  revert i. induction L as [|l L IH]; intros i H Hi Hj; [cbn in Hi; lia|].
  assert (Hl : length l = n) by (apply H; left; reflexivity). cbn [List.concat]. destruct i as [|i].
  - rewrite Nat.mul_0_r, Nat.add_0_r. cbn [nth]. apply app_nth1. lia.
  - cbn [nth]. rewrite app_nth2 by nia. replace (j + n * S i - length l)%nat with (j + n * i)%nat by nia.
    apply IH; [intros; apply H; right; assumption|cbn in Hi; lia|exact Hj].
Qed.

Definition vblock (Hm : list (list R)) su sv sw : list (list R) :=
  flat_map (fun lay => flip_ctrlpts [] lay su sv) (layers sw (su * sv) Hm).
Lemma vblock_length Hm su sv sw : length (vblock Hm su sv sw) = (su * sv * sw)%nat.
Proof.
  unfold vblock. rewrite flat_map_concat_map. rewrite length_concat_uniform with (n := (su * sv)%nat).
  - rewrite map_length, layers_count. ring.
  - intros l Hl. apply in_map_iff in Hl. destruct Hl as (lay & <- & _). apply flip_ctrlpts_length.
Qed.

Lemma layers_vblock Hm su sv sw : layers sw (su * sv) (vblock Hm su sv sw) = map (fun lay => flip_ctrlpts [] lay su sv) (layers sw (su * sv) Hm).
Proof.
  unfold vblock. rewrite flat_map_concat_map.
  set (L := map (fun lay => flip_ctrlpts [] lay su sv) (layers sw (su * sv) Hm)).
  replace sw with (length L) at 1 by (unfold L; rewrite map_length; apply layers_count).
  apply layers_concat. intros l Hl. unfold L in Hl. apply in_map_iff in Hl. destruct Hl as (lay & <- & _). apply flip_ctrlpts_length.
Qed.

Lemma vmesh_block_back (Hm : list (list R)) su sv sw : length Hm = (su * sv * sw)%nat -> (forall p, In p Hm -> pt_ok p) ->
  res_bind (mapM (fun lay => flip_ctrlpts_u_res [] lay su sv) (layers sw (su * sv) (map unw (vblock Hm su sv sw))))
           (fun fls => Ok (gen_ctrlptsw K (List.concat fls))) = Ok Hm.
Proof.
  intros HL Hok. rewrite layers_map, layers_vblock, !mapM_map.
  rewrite (mapM_ok _ (map unw)).
  - cbn [res_bind]. f_equal. rewrite <- concat_map. rewrite concat_layers by (rewrite HL; ring).
    rewrite <- gcw_map. apply gen_w_unw. exact Hok.
  - intros lay Hlay. assert (Hl : length lay = (su * sv)%nat) by (eapply layers_length_each; [|exact Hlay]; rewrite HL; ring).
    unfold flip_ctrlpts_u_res. rewrite map_length, flip_ctrlpts_length, Nat.leb_refl. f_equal.
    rewrite (flip_ctrlpts_u_map unw [] []) by apply flip_ctrlpts_length. rewrite flip_u_flip by exact Hl. reflexivity.
Qed.

Theorem import_export_vmesh1 (v : vlm (T:=R)) : wf_vol_geo v -> dimension (v_rat v) (v_pts v) = 3%nat ->
  import_vol_mesh K pa d3 (export_vmesh1 K prf v) = Ok (mesh_vol v).
Proof.
  intros (Hpu & Hpv & Hpw & Hsu & Hsv & Hsw & HL & Hp & Hku & Hkv & Hkw) Hdim. unfold import_vol_mesh.
  change (cell_int (export_vmesh1 K prf v) 0 0) with (Ok (dimension (v_rat v) (v_pts v))). rewrite Hdim. cbn [res_bind Nat.eqb negb].
  change (cell_int (export_vmesh1 K prf v) 1 0) with (Ok (v_pu v)). change (cell_int (export_vmesh1 K prf v) 1 1) with (Ok (v_pv v)).
  change (cell_int (export_vmesh1 K prf v) 1 2) with (Ok (v_pw v)).
  change (cell_int (export_vmesh1 K prf v) 2 0) with (Ok (v_su v)). change (cell_int (export_vmesh1 K prf v) 2 1) with (Ok (v_sv v)).
  change (cell_int (export_vmesh1 K prf v) 2 2) with (Ok (v_sw v)).
  cbn [res_bind]. rewrite !set_degree_ok by assumption. cbn [res_bind].
  change (nums_row K pa (export_vmesh1 K prf v) 3) with (Ok (map (tok_num K pa) (frow prf (v_Uu v)))).
  change (nums_row K pa (export_vmesh1 K prf v) 4) with (Ok (map (tok_num K pa) (frow prf (v_Uv v)))).
  change (nums_row K pa (export_vmesh1 K prf v) 5) with (Ok (map (tok_num K pa) (frow prf (v_Uw v)))).
  rewrite !parse_frow.
  assert (Hsl : slice_rows (export_vmesh1 K prf v) 6 (v_su v * v_sv v * v_sw v) =
                map (frow prf) (map unw (vblock (homogR (v_rat v) (v_pts v)) (v_su v) (v_sv v) (v_sw v)))).
  { unfold slice_rows, export_vmesh1. cbn [app skipn]. rewrite homog_homogR, gcw_map.
    apply firstn_app_exact. rewrite !map_length. apply vblock_length. }
  rewrite Hsl, parse_frows.
  pose proof (wf_homog_ok _ _ _ Hp) as Hok. destruct (wf_homog_lens _ _ _ Hp) as (A & B & C).
  pose proof (vmesh_block_back (homogR (v_rat v) (v_pts v)) (v_su v) (v_sv v) (v_sw v)) as E.
  rewrite homogR_length in E. specialize (E HL Hok).
  destruct (mapM _ _) as [fls| |] eqn:Em; cbn [res_bind] in E |- *; try discriminate.
  inversion E as [E']. rewrite E'.
  rewrite set_pts_ok; try assumption.
  2:{ intros dg [<-|[<-|[<-|[]]]]; assumption. }
  2:{ intros ds [<-|[<-|[<-|[]]]]; cbn [fst snd]; assumption. }
  cbn [res_bind]. rewrite !set_kv_ok by assumption. cbn [res_bind]. reflexivity.
Qed.

Theorem vmesh_roundtrip (l : list (vlm (T:=R))) :
  (forall v, In v l -> wf_vol_geo v /\ dimension (v_rat v) (v_pts v) = 3%nat) ->
  import_vmesh K pa d3 (export_vmesh K prf l) = Ok (map mesh_vol l).
Proof.
  intros H. unfold import_vmesh, export_vmesh. rewrite mapM_map. apply mapM_ok.
  intros v Hv. destruct (H v Hv). apply import_export_vmesh1; assumption.
Qed.

Lemma nth_firstn_lt {X} (l : list X) n i d : (i < n)%nat -> nth i (firstn n l) d = nth i l d.
Proof. revert n i; induction l as [|x l IH]; intros [|n] [|i] H; cbn; try lia; auto. apply IH. lia. Qed.
Lemma nth_skipn_add {X} (l : list X) n i d : nth i (skipn n l) d = nth (n + i) l d.
Proof. revert l; induction n as [|n IH]; intros l; [reflexivity|]. destruct l as [|x l]; [destruct i; reflexivity|]. cbn. apply IH. Qed.

(* documented order: after the 6 header rows, the row of point (u,v,w) is row u + size_u*(v + size_v*w): u fastest, then v,
   then the w layers one after the other *)
Theorem vmesh_order (b : vlm (T:=R)) u v w : length (v_pts b) = (v_su b * v_sv b * v_sw b)%nat ->
  (u < v_su b)%nat -> (v < v_sv b)%nat -> (w < v_sw b)%nat ->
  nth (6 + (u + v_su b * (v + v_sv b * w))) (export_vmesh1 K prf b) [] =
    frow prf (unw (nth (idx3 (v_su b) (v_sv b) u v w) (homogR (v_rat b) (v_pts b)) [])).
Proof.
  intros HL Hu Hv Hw. unfold export_vmesh1. cbn [app plus nth]. rewrite homog_homogR, gcw_map.
  fold (vblock (homogR (v_rat b) (v_pts b)) (v_su b) (v_sv b) (v_sw b)).
  set (Hm := homogR (v_rat b) (v_pts b)). assert (HLm : length Hm = (v_su b * v_sv b * v_sw b)%nat) by (unfold Hm; rewrite homogR_length; exact HL).
  assert (Hk : (u + v_su b * (v + v_sv b * w) < v_su b * v_sv b * v_sw b)%nat).
  { assert (v + v_sv b * w < v_sv b * v_sw b)%nat by nia. nia. }
  rewrite app_nth1 by (rewrite !map_length, vblock_length; exact Hk).
  rewrite (nth_map_in (frow prf) _ _ [] []) by (rewrite map_length, vblock_length; exact Hk). f_equal.
  rewrite (nth_map_in unw _ _ [] []) by (rewrite vblock_length; exact Hk). f_equal.
  unfold vblock. rewrite flat_map_concat_map.
  replace (u + v_su b * (v + v_sv b * w))%nat with ((u + v_su b * v) + (v_su b * v_sv b) * w)%nat by ring.
  rewrite nth_concat_uniform with (n := (v_su b * v_sv b)%nat).
  - rewrite (nth_map_in (fun lay => flip_ctrlpts [] lay (v_su b) (v_sv b)) _ _ [] []) by (rewrite layers_count; exact Hw).
    etransitivity; [apply (flip_ctrlpts_nth (A:=list R) [] _ _ _ u v); assumption|].
    unfold layers. rewrite nth_map_seq by exact Hw. unfold at_.
    assert (Hi : (idx2 (v_sv b) u v < v_su b * v_sv b)%nat) by (apply idx2_lt; assumption).
    rewrite nth_firstn_lt by exact Hi. rewrite nth_skipn_add. f_equal. unfold idx2, idx3. ring.
  - intros l Hl. apply in_map_iff in Hl. destruct Hl as (lay & <- & _). apply flip_ctrlpts_length.
  - rewrite map_length, layers_count. exact Hw.
  - nia.
Qed.

(* ------------------------------------------------------------------ txt / csv *)
Lemma codec_pts (P : list (list R)) : map (map pa) (map (map pr) P) = P.
Proof. rewrite map_map. apply map_id_in. intros p _. rewrite map_map. apply map_id_in. intros x _. apply Hpr. Qed.

Theorem txt1_roundtrip (pts : list (list R)) : import_txt1 pa (export_txt1 pr pts) = pts.
Proof. apply codec_pts. Qed.

Lemma last_map_seq {X} (f : nat -> X) n d : (0 < n)%nat -> last (map f (seq 0 n)) d = f (n - 1)%nat.
Proof.
  intros H. destruct n as [|m]; [lia|]. rewrite seq_S, map_app. cbn [map plus]. rewrite last_last. f_equal. lia.
Qed.

Theorem txt2_roundtrip su sv (pts : list (list R)) : (0 < su)%nat -> length pts = (su * sv)%nat ->
  import_txt2 pa (export_txt2 pr su sv pts) = (pts, su, sv).
Proof.
  intros Hsu HL. unfold import_txt2, export_txt2. rewrite map_length, seq_length.
  rewrite last_map_seq by exact Hsu. rewrite map_length, seq_length. f_equal. f_equal.
  rewrite flat_map_map.
  transitivity (tab2 su sv (fun i j => nth (j + sv * i) pts [])).
  - unfold tab2. apply flat_map_ext. intros i. rewrite map_map. apply map_ext. intros j. rewrite map_map. apply map_id_in. intros x _. apply Hpr.
  - apply tab2_eq with (d := []); [exact HL|]. reflexivity.
Qed.
(* documented order of the 2-D text file: row = u index, cell within the row = v index *)
Theorem txt2_order su sv (pts : list (list R)) u v : (u < su)%nat -> (v < sv)%nat ->
  nth v (nth u (export_txt2 pr su sv pts) []) [] = map pr (nth (idx2 sv u v) pts []).
Proof. intros Hu Hv. unfold export_txt2. rewrite nth_map_seq by exact Hu. rewrite nth_map_seq by exact Hv. reflexivity. Qed.

(* without any hypothesis on the codec: every number comes back as parse (print x), nothing else changes *)
Theorem txt_csv_any_codec (pts : list (list R)) :
  import_txt1 pa (export_txt1 pr pts) = map (map (fun x => pa (pr x))) pts /\
  import_csv pa (export_csv pr pts) = map (map (fun x => pa (pr x))) pts.
Proof.
  unfold import_txt1, export_txt1, import_csv, export_csv. cbn [snd]. rewrite !map_map.
  split; apply map_ext; intros; apply map_map.
Qed.

Theorem csv_roundtrip (pts : list (list R)) :
  import_csv pa (export_csv pr pts) = pts /\ fst (export_csv pr pts) = seq 1 (length (hd [] pts)).
Proof. split; [apply codec_pts|reflexivity]. Qed.
End M.
