(* C02 [B]: A4.4 (rational surface derivatives) satisfies the two-variable Leibniz identity of  A = w * S
     sum_{i<=k} sum_{j<=l} C(k,i) C(l,j) w^(i,j) S^(k-i,l-j) = A^(k,l)
   for every entry of the computed square, orders 2 and 3 (so for all mixed partials with k, l <= 3), on a
   symbolic array of numerator / weight derivatives (one coordinate + weight; coordinates are independent).
   Hence SKL[k][l] is the (k,l) partial derivative of A/w whenever the inputs are the partials of A and w. *)
From Coq Require Import List Reals Lra Lia Arith Bool.
From NV Require Import Scalar.Ops Model.Common Model.Eval Model.Degree Model.Derivs Proofs.DerivsR.
Import ListNotations.
Open Scope R_scope.

Definition SKLw_sym (a w : nat -> nat -> R) (n : nat) : list (list (list R)) :=
  map (fun k => map (fun l => [a k l; w k l]) (seq 0 (S n))) (seq 0 (S n)).

Definition leibniz2 (w : nat -> nat -> R) (s : nat -> nat -> R) (k l : nat) : R :=
  lsum (seq 0 (S k)) (fun i => lsum (seq 0 (S l)) (fun j => INR (binom k i) * INR (binom l j) * w i j * s (k - i)%nat (l - j)%nat)).

Ltac rcbv := cbv -[Rplus Rminus Rmult Rdiv Rinv Ropp IZR INR].

Theorem rat_surface_leibniz_order2 : forall a w : nat -> nat -> R, w 0%nat 0%nat <> 0 ->
  let SK := rat_surface_derivs Rops 2 (SKLw_sym a w 2) 2 in
  forall k l, (k <= 2)%nat -> (l <= 2)%nat -> leibniz2 w (fun k l => nth 0 (get3 SK k l) 0) k l = a k l.
Proof.
  intros a w Hw SK k l Hk Hl.
  assert (k = 0 \/ k = 1 \/ k = 2)%nat as Hk' by lia. assert (l = 0 \/ l = 1 \/ l = 2)%nat as Hl' by lia.
  destruct Hk' as [-> | [-> | ->]]; destruct Hl' as [-> | [-> | ->]]; unfold SK; rcbv; cbn [INR]; field; exact Hw.
Qed.

Theorem rat_surface_leibniz_order3 : forall a w : nat -> nat -> R, w 0%nat 0%nat <> 0 ->
  let SK := rat_surface_derivs Rops 2 (SKLw_sym a w 3) 3 in
  forall k l, (k <= 3)%nat -> (l <= 3)%nat -> leibniz2 w (fun k l => nth 0 (get3 SK k l) 0) k l = a k l.
Proof.
  intros a w Hw SK k l Hk Hl.
  assert (k = 0 \/ k = 1 \/ k = 2 \/ k = 3)%nat as Hk' by lia. assert (l = 0 \/ l = 1 \/ l = 2 \/ l = 3)%nat as Hl' by lia.
  destruct Hk' as [-> | [-> | [-> | ->]]]; destruct Hl' as [-> | [-> | [-> | ->]]]; unfold SK; rcbv; cbn [INR]; field; exact Hw.
Qed.
