(* removal_exact_when_test_is_zero: for ANY net Q (not necessarily produced by an insertion), if the Eq. 5.30
   test distance of one removal step is exactly 0, then inserting the removed knot again into the result of
   knot_removal (num = 1) reproduces Q exactly.  Together with C04 (insertion preserves the curve) this says the
   removal did not change the curve. *)
From Coq Require Import List Reals Lra Lia Arith Bool.
From NV Require Import Scalar.Ops Model.Common Model.Basis Model.KnotIns Model.InsertKnot Model.KnotRem
  Proofs.BasisR Proofs.KnotInsR Proofs.KnotRemR.
Import ListNotations.
Open Scope R_scope.

(* ---------------------------------------------------------------- point algebra *)
Lemma unlerp_i_length a (q prev : list R) : length q = length prev -> length (unlerp_i Rops a q prev) = length q.
Proof. intros H. unfold unlerp_i. rewrite map_length, combine_length. lia. Qed.
Lemma unlerp_j_length a (q next : list R) : length q = length next -> length (unlerp_j Rops a q next) = length q.
Proof. intros H. unfold unlerp_j. rewrite map_length, combine_length. lia. Qed.

Lemma lerp_unlerp_i a : a <> 0 -> forall q prev : list R, length q = length prev ->
  lerp Rops a prev (unlerp_i Rops a q prev) = q.
Proof.
  intros Ha. induction q as [|q0 q IH]; intros [|p0 prev] H; cbn in H; try discriminate; try reflexivity.
  unfold lerp, unlerp_i in *. cbn [combine map fst snd]. rsimp. f_equal.
  - field. exact Ha.
  - apply IH. lia.
Qed.

Lemma lerp_unlerp_j a : 1 - a <> 0 -> forall q next : list R, length q = length next ->
  lerp Rops a (unlerp_j Rops a q next) next = q.
Proof.
  intros Ha. induction q as [|q0 q IH]; intros [|n0 next] H; cbn in H; try discriminate; try reflexivity.
  unfold lerp, unlerp_j in *. cbn [combine map fst snd]. rsimp. f_equal.
  - field. exact Ha.
  - apply IH. lia.
Qed.

Lemma sumsq_nonneg : forall x y : list R, 0 <= dist2 Rops x y.
Proof.
  induction x as [|x0 x IH]; intros [|y0 y]; unfold dist2; cbn [combine map sumT fst snd]; rsimp; try lra.
  specialize (IH y). unfold dist2 in IH. rsimp.
  pose proof (Rle_0_sqr (y0 - x0)) as Hs. unfold Rsqr in Hs.
  set (S0 := sumT Rops _) in *. clearbody S0. lra.
Qed.

Lemma dist2_zero_eq : forall x y : list R, length x = length y -> dist2 Rops x y = 0 -> x = y.
Proof.
  induction x as [|x0 x IH]; intros [|y0 y] H E; cbn in H; try discriminate; try reflexivity.
  unfold dist2 in E. cbn [combine map sumT fst snd] in E. rsimp.
  pose proof (sumsq_nonneg x y) as Hn. unfold dist2 in Hn. rsimp.
  pose proof (Rle_0_sqr (y0 - x0)) as Hs. unfold Rsqr in Hs.
  set (S0 := sumT Rops _) in *.
  assert (H0 : (y0 - x0) * (y0 - x0) = 0) by lra.
  assert (H1 : S0 = 0) by lra.
  f_equal.
  - apply Rmult_integral in H0. lra.
  - apply IH; [lia|]. unfold dist2. exact H1.
Qed.

Lemma mix_length a (x y : list R) : length x = length y -> length (mix Rops a x y) = length x.
Proof. intros H. unfold mix. rewrite map_length, combine_length. lia. Qed.

(* knot_removal_kv with r = 1: the knot at index `span` is dropped *)
Lemma rem_kv1_nth (U : list R) span i : (span < length U)%nat ->
  knR (knot_removal_kv U span 1) i = if Nat.ltb i span then knR U i else knR U (S i).
Proof.
  intros H. unfold knot_removal_kv, kn. change (Nat.ltb 1 1) with false. cbv iota. replace (S span - 1)%nat with span by lia.
  destruct (Nat.ltb_spec i span).
  - rewrite app_nth1 by (rewrite firstn_length; lia). apply nth_firstn_lt. lia.
  - rewrite app_nth2 by (rewrite firstn_length; lia). rewrite firstn_length.
    replace (Nat.min span (length U)) with span by lia. rewrite nth_skipn_add. f_equal. lia.
Qed.

Section Exact.
Variables (td : nat) (tol2 : R) (p : nat) (Ub : list R) (Q : list (list R)) (u : R) (s r d : nat).
Hypothesis Hs1 : (1 <= s)%nat.
Hypothesis Hsp : (s <= p)%nat.
Hypothesis Hr : (p + 1 <= r)%nat.
Hypothesis HrQ : (r - s + 1 < length Q)%nat.
Hypothesis HrU : (r < length Ub)%nat.
Hypothesis Hdim : Forall (fun pt => length pt = d) Q.
Hypothesis Htd : (d <= td)%nat.
Hypothesis Htol : 0 <= tol2.
(* every alpha of Eq. 5.28 lies strictly between 0 and 1 *)
Hypothesis Hsep : forall i, (r - p <= i <= r - s)%nat -> knR Ub i < u < knR Ub (i + p + 1).
(* the removability test finds distance exactly 0 *)
Hypothesis Htest : rem_test Rops td p Ub u r s Q 0 = 0.

Let first := (r - p)%nat.
Let lst := (r - s)%nat.
Let a (i : nat) : R := rem_alpha_i Rops Ub u p 0 i.
Let c := Nat.div2 (S (lst - first)).

Lemma alpha_j_i j : rem_alpha_j Rops Ub u p 0 j = a j.
Proof. unfold a, rem_alpha_j, rem_alpha_i. rewrite Nat.sub_0_r, Nat.add_0_r. reflexivity. Qed.

Lemma a_ne i : (first <= i <= lst)%nat -> a i <> 0 /\ 1 - a i <> 0.
Proof.
  intros H. unfold first, lst in H. destruct (Hsep i) as [H1 H2]; [lia|].
  unfold a, rem_alpha_i. rsimp. rewrite Nat.add_0_r. split.
  - intro E. apply Rmult_integral in E. destruct E as [E|E]; [lra|].
    apply Rinv_neq_0_compat in E; [exact E|lra].
  - intro E. assert (E2 : (knR Ub (i + p + 1) - u) / (knR Ub (i + p + 1) - knR Ub i) = 0).
    { rewrite <- E. field. lra. }
    apply Rmult_integral in E2. destruct E2 as [E2|E2]; [lra|].
    apply Rinv_neq_0_compat in E2; [exact E2|lra].
Qed.

Lemma Qdim i : (i < length Q)%nat -> length (getp Q i) = d.
Proof. intros H. unfold getp. rewrite Forall_forall in Hdim. apply Hdim. apply nth_In. exact H. Qed.

(* values of the two sweeps as functions of the number of steps *)
Fixpoint Lv (m : nat) : list R :=
  match m with O => getp Q (first - 1) | S m' => unlerp_i Rops (a (first + m')) (getp Q (first + m')) (Lv m') end.
Fixpoint Rv (m : nat) : list R :=
  match m with O => getp Q (S lst) | S m' => unlerp_j Rops (a (lst - m')) (getp Q (lst - m')) (Rv m') end.

Lemma Lv_len m : (first + m <= S lst)%nat -> length (Lv m) = d.
Proof.
  induction m as [|m IH]; intros H; cbn [Lv].
  - apply Qdim. unfold first, lst in *. lia.
  - rewrite unlerp_i_length; [apply Qdim; unfold first, lst in *; lia|].
    rewrite IH by lia. apply Qdim. unfold first, lst in *. lia.
Qed.
Lemma Rv_len m : (first + m <= S lst)%nat -> length (Rv m) = d.
Proof.
  induction m as [|m IH]; intros H; cbn [Rv].
  - apply Qdim. unfold first, lst in *. lia.
  - rewrite unlerp_j_length; [apply Qdim; unfold first, lst in *; lia|].
    rewrite IH by lia. apply Qdim. unfold first, lst in *. lia.
Qed.

Lemma left_id m : (first + m <= lst)%nat -> lerp Rops (a (first + m)) (Lv m) (Lv (S m)) = getp Q (first + m).
Proof.
  intros H. cbn [Lv]. apply lerp_unlerp_i; [apply a_ne; lia|].
  rewrite Lv_len by lia. apply Qdim. unfold first, lst in *. lia.
Qed.
Lemma right_id m : (first + m <= lst)%nat -> lerp Rops (a (lst - m)) (Rv (S m)) (Rv m) = getp Q (lst - m).
Proof.
  intros H. cbn [Rv]. apply lerp_unlerp_j; [apply a_ne; lia|].
  rewrite Rv_len by lia. apply Qdim. unfold first, lst in *. lia.
Qed.

Lemma lsweep_Lv : forall n m0, lsweep Rops p Ub u 0 Q (first + m0) (Lv m0) n = map (fun m => Lv (S m)) (seq m0 n).
Proof.
  induction n as [|n IH]; intros m0; [reflexivity|].
  cbn [lsweep seq map]. fold (a (first + m0)). f_equal.
  specialize (IH (S m0)). replace (first + S m0)%nat with (S (first + m0)) in IH by lia. exact IH.
Qed.
Lemma rsweep_Rv : forall n m0, (m0 + n <= S lst)%nat ->
  rsweep Rops p Ub u 0 Q (lst - m0) (Rv m0) n = map (fun m => Rv (S m)) (seq m0 n).
Proof.
  induction n as [|n IH]; intros m0 H; [reflexivity|].
  cbn [rsweep seq map]. rewrite alpha_j_i. f_equal.
  specialize (IH (S m0)). replace (lst - S m0)%nat with (Nat.pred (lst - m0)) in IH by lia. apply IH. lia.
Qed.

Lemma last_Lv n : last (map (fun m => Lv (S m)) (seq 0 n)) (Lv 0) = Lv n.
Proof. destruct n as [|n]; [reflexivity|]. rewrite seq_S_end, map_app. cbn [map]. rewrite last_last. reflexivity. Qed.
Lemma last_Rv n : last (map (fun m => Rv (S m)) (seq 0 n)) (Rv 0) = Rv n.
Proof. destruct n as [|n]; [reflexivity|]. rewrite seq_S_end, map_app. cbn [map]. rewrite last_last. reflexivity. Qed.

Lemma c_cases : ((lst - first = 2 * c /\ first + c = lst - c) \/ (lst - first + 1 = 2 * c /\ 1 <= c /\ first + c = lst - c + 1))%nat.
Proof. unfold c. pose proof (div2_spec (S (lst - first))). unfold first, lst in *. lia. Qed.

(* what the hypothesis on the test distance says *)
Lemma test_meaning :
  (lst - first = 2 * c -> lerp Rops (a (first + c)) (Lv c) (Rv c) = getp Q (first + c))%nat /\
  (lst - first + 1 = 2 * c -> Lv c = Rv c)%nat.
Proof.
  pose proof Htest as E. unfold rem_test in E.
  replace (r - p - 0)%nat with first in E by (unfold first; lia).
  replace (r - s + 0)%nat with lst in E by (unfold lst; lia).
  unfold sweep_count in E. rewrite Nat.sub_0_r in E. fold c in E. cbv zeta in E.
  change (getp Q (first - 1)) with (Lv 0) in E. change (getp Q (S lst)) with (Rv 0) in E.
  pose proof (lsweep_Lv c 0) as HL. rewrite Nat.add_0_r in HL. rewrite HL in E.
  pose proof (rsweep_Rv c 0) as HR. rewrite Nat.sub_0_r in HR. rewrite HR in E by (destruct c_cases; lia).
  rewrite last_Lv, last_Rv in E.
  assert (HLc : length (Lv c) = d) by (apply Lv_len; destruct c_cases; lia).
  assert (HRc : length (Rv c) = d) by (apply Rv_len; destruct c_cases; lia).
  rewrite (firstn_all2 (Lv c)) in E by lia. rewrite (firstn_all2 (Rv c)) in E by lia.
  split; intros Hc.
  - destruct (Nat.ltb_spec (lst - c) (first + c + 0)) as [Hb|Hb]; [lia|].
    assert (HQ : length (getp Q (first + c)) = d) by (apply Qdim; unfold first, lst in *; lia).
    rewrite (firstn_all2 (getp Q (first + c))) in E by lia.
    fold (a (first + c)) in E. rewrite mix_lerp in E.
    symmetry. apply dist2_zero_eq; [|exact E]. rewrite lerp_length by lia. lia.
  - destruct (Nat.ltb_spec (lst - c) (first + c + 0)) as [Hb|Hb]; [|lia].
    apply dist2_zero_eq; [lia|exact E].
Qed.

(* the array after the removal step, by slot *)
Lemma step_slot idx : (idx < length Q)%nat ->
  getp (rem_step Rops td tol2 p Ub u r s Q 0) idx =
    if andb (Nat.leb first idx) (Nat.ltb idx (first + c)) then Lv (S (idx - first))
    else if andb (Nat.ltb (lst - c) idx) (Nat.leb idx lst) then Rv (S (lst - idx))
    else getp Q idx.
Proof.
  intros Hidx. unfold rem_step. rewrite Htest. cbn [oleb Rops]. rewrite (Rleb_true 0 tol2) by exact Htol.
  replace (r - p - 0)%nat with first by (unfold first; lia).
  replace (r - s + 0)%nat with lst by (unfold lst; lia).
  unfold sweep_count. rewrite Nat.sub_0_r. fold c. cbv zeta.
  change (getp Q (first - 1)) with (Lv 0). change (getp Q (S lst)) with (Rv 0).
  pose proof (lsweep_Lv c 0) as HL. rewrite Nat.add_0_r in HL. rewrite HL.
  pose proof (rsweep_Rv c 0) as HR. rewrite Nat.sub_0_r in HR. rewrite HR by (destruct c_cases; lia).
  unfold getp at 1. rewrite nth_map_seq by exact Hidx.
  destruct (andb (Nat.leb first idx) (Nat.ltb idx (first + c))) eqn:E1.
  - apply andb_prop in E1. destruct E1 as [E1 E2]. apply Nat.leb_le in E1. apply Nat.ltb_lt in E2.
    rewrite nth_map_seq by lia. reflexivity.
  - destruct (andb (Nat.ltb (lst - c) idx) (Nat.leb idx lst)) eqn:E3; [|reflexivity].
    apply andb_prop in E3. destruct E3 as [E3 E4]. apply Nat.ltb_lt in E3. apply Nat.leb_le in E4.
    rewrite nth_map_seq by lia. reflexivity.
Qed.

Let Pw := rem_step Rops td tol2 p Ub u r s Q 0.
Let j0 := Nat.div2 (2 * r - s - p).
Let P' := knot_removal Rops td tol2 p Ub Q u 1 s r.
Let U' := knot_removal_kv Ub r 1.

Lemma j0_cases : ((lst - first = 2 * c /\ j0 = first + c) \/ (lst - first + 1 = 2 * c /\ j0 + 1 = first + c))%nat.
Proof. unfold j0. pose proof (div2_spec (2 * r - s - p)). destruct c_cases; unfold first, lst in *; lia. Qed.

Lemma P'_eq : P' = firstn j0 Pw ++ skipn (S j0) Pw.
Proof.
  unfold P', knot_removal. cbn [Nat.ltb Nat.leb seq fold_left Nat.div2 Nat.sub].
  rewrite Nat.add_0_r, Nat.sub_0_r. reflexivity.
Qed.

Lemma Pw_length : length Pw = length Q.
Proof. unfold Pw. apply rem_step_length. Qed.

Lemma P'_length : S (length P') = length Q.
Proof.
  rewrite P'_eq, app_length, firstn_length, skipn_length, Pw_length.
  destruct j0_cases; unfold first, lst in *; lia.
Qed.

Lemma P'_nth n : getp P' n = if Nat.ltb n j0 then getp Pw n else getp Pw (S n).
Proof.
  unfold getp. rewrite P'_eq.
  assert (Hj : (j0 < length Pw)%nat) by (rewrite Pw_length; destruct j0_cases; unfold first, lst in *; lia).
  destruct (Nat.ltb_spec n j0).
  - rewrite app_nth1 by (rewrite firstn_length; lia). apply nth_firstn_lt. lia.
  - rewrite app_nth2 by (rewrite firstn_length; lia). rewrite firstn_length.
    replace (Nat.min j0 (length Pw)) with j0 by lia. rewrite nth_skipn_add. f_equal. lia.
Qed.

(* re-inserting u into the result gives back Q *)
Theorem reinsert_after_removal : insert1_net p U' P' u (s - 1) (r - 1) = Q.
Proof.
  pose proof test_meaning as [Teven Todd].
  apply nth_ext with (d := []) (d' := []).
  - unfold insert1_net. rewrite map_length, seq_length. apply P'_length.
  - intros idx Hidx. unfold insert1_net in Hidx. rewrite map_length, seq_length in Hidx.
    unfold insert1_net. rewrite nth_map_seq by exact Hidx. rewrite P'_length in Hidx.
    replace (r - 1 - p)%nat with (first - 1)%nat by (unfold first; lia).
    replace (r - 1 - (s - 1))%nat with lst by (unfold lst; lia).
    assert (Hf1 : (1 <= first)%nat) by (unfold first; lia).
    assert (Hfl : (first <= lst)%nat) by (unfold first, lst; lia).
    destruct (Nat.leb_spec idx (first - 1)) as [H1|H1].
    { (* left of the window *)
      rewrite P'_nth. destruct (Nat.ltb_spec idx j0) as [H2|H2]; [|destruct j0_cases; lia].
      unfold Pw. rewrite step_slot by lia.
      destruct (Nat.leb_spec first idx); [lia|]. cbn [andb].
      destruct (Nat.ltb_spec (lst - c) idx); [destruct c_cases; lia|]. reflexivity. }
    destruct (Nat.leb_spec idx lst) as [H3|H3].
    2:{ (* right of the window *)
      rewrite P'_nth. destruct (Nat.ltb_spec (idx - 1) j0) as [H2|H2]; [destruct j0_cases; lia|].
      replace (S (idx - 1)) with idx by lia.
      unfold Pw. rewrite step_slot by lia.
      destruct (Nat.ltb_spec idx (first + c)); [destruct c_cases; lia|]. rewrite andb_false_r.
      destruct (Nat.leb_spec idx lst); [lia|]. rewrite andb_false_r. reflexivity. }
    (* inside the window: the insertion alpha is the removal alpha *)
    assert (Ha : ins_alpha Rops U' u (r - 1) (idx - (first - 1 + 1)) (first - 1 + 1) = a idx).
    { unfold ins_alpha, a, rem_alpha_i. rsimp.
      replace (first - 1 + 1 + (idx - (first - 1 + 1)))%nat with idx by lia.
      replace (S (idx - (first - 1 + 1) + (r - 1))) with (idx + p)%nat by (unfold first in *; lia).
      unfold U'. rewrite !rem_kv1_nth by exact HrU.
      destruct (Nat.ltb_spec idx r); [|unfold lst in *; lia].
      destruct (Nat.ltb_spec (idx + p) r); [unfold first in *; lia|].
      replace (idx + p + 1 + 0)%nat with (S (idx + p)) by lia. reflexivity. }
    replace (r - 1 - p + 1)%nat with (first - 1 + 1)%nat by (unfold first; lia).
    rewrite Ha. rewrite !P'_nth. unfold Pw.
    assert (Hi1 : (idx - 1 < length Q)%nat) by lia.
    assert (Hi2 : (S idx < length Q)%nat) by (unfold lst in *; lia).
    destruct j0_cases as [[Hc Hj]|[Hc Hj]].
    + (* even window: the middle slot first + c is dropped *)
      destruct (Nat.lt_trichotomy idx (first + c)) as [Hlt|[Heq|Hgt]].
      * destruct (Nat.ltb_spec (idx - 1) j0); [|lia]. destruct (Nat.ltb_spec idx j0); [|lia].
        rewrite !step_slot by lia.
        destruct (Nat.leb_spec first idx); [|lia]. destruct (Nat.ltb_spec idx (first + c)); [|lia]. cbn [andb].
        destruct (Nat.leb_spec first (idx - 1)) as [H5|H5].
        -- destruct (Nat.ltb_spec (idx - 1) (first + c)); [|lia]. cbn [andb].
           replace (S (idx - 1 - first)) with (idx - first)%nat by lia.
           pose proof (left_id (idx - first)) as HL. replace (first + (idx - first))%nat with idx in HL by lia. apply HL. lia.
        -- cbn [andb]. destruct (Nat.ltb_spec (lst - c) (idx - 1)); [lia|]. cbn [andb].
           assert (idx = first) by lia. subst idx. rewrite Nat.sub_diag.
           pose proof (left_id 0) as HL. rewrite Nat.add_0_r in HL. apply HL. lia.
      * subst idx. destruct (Nat.ltb_spec (first + c - 1) j0); [|lia]. destruct (Nat.ltb_spec (first + c) j0); [lia|].
        rewrite !step_slot by lia.
        assert (HLprev : (if andb (Nat.leb first (first + c - 1)) (Nat.ltb (first + c - 1) (first + c)) then Lv (S (first + c - 1 - first))
                          else if andb (Nat.ltb (lst - c) (first + c - 1)) (Nat.leb (first + c - 1) lst) then Rv (S (lst - (first + c - 1)))
                          else getp Q (first + c - 1)) = Lv c).
        { destruct (Nat.leb_spec first (first + c - 1)) as [H5|H5].
          - destruct (Nat.ltb_spec (first + c - 1) (first + c)); [|lia]. cbn [andb]. f_equal. lia.
          - cbn [andb]. destruct (Nat.ltb_spec (lst - c) (first + c - 1)); [lia|]. cbn [andb].
            assert (Hc0 : c = 0%nat) by lia. rewrite Hc0, Nat.add_0_r. reflexivity. }
        rewrite HLprev.
        assert (HRnext : (if andb (Nat.leb first (S (first + c))) (Nat.ltb (S (first + c)) (first + c)) then Lv (S (S (first + c) - first))
                          else if andb (Nat.ltb (lst - c) (S (first + c))) (Nat.leb (S (first + c)) lst) then Rv (S (lst - S (first + c)))
                          else getp Q (S (first + c))) = Rv c).
        { destruct (Nat.ltb_spec (S (first + c)) (first + c)); [lia|]. rewrite andb_false_r.
          destruct (Nat.ltb_spec (lst - c) (S (first + c))); [|lia].
          destruct (Nat.leb_spec (S (first + c)) lst) as [H6|H6]; cbn [andb].
          - f_equal. lia.
          - assert (Hc0 : c = 0%nat) by lia. rewrite Hc0, Nat.add_0_r. cbn [Rv]. f_equal. lia. }
        rewrite HRnext. apply Teven. exact Hc.
      * destruct (Nat.ltb_spec (idx - 1) j0); [lia|]. destruct (Nat.ltb_spec idx j0); [lia|].
        replace (S (idx - 1)) with idx by lia.
        rewrite !step_slot by lia.
        destruct (Nat.ltb_spec idx (first + c)); [lia|]. rewrite andb_false_r.
        destruct (Nat.ltb_spec (lst - c) idx); [|lia]. destruct (Nat.leb_spec idx lst); [|lia]. cbn [andb].
        destruct (Nat.ltb_spec (S idx) (first + c)); [lia|]. rewrite andb_false_r.
        destruct (Nat.ltb_spec (lst - c) (S idx)); [|lia].
        pose proof (right_id (lst - idx)) as HR. replace (lst - (lst - idx))%nat with idx in HR by lia.
        destruct (Nat.leb_spec (S idx) lst) as [Hx7|Hx7]; cbn [andb].
        -- replace (S (lst - S idx)) with (lst - idx)%nat by lia. apply HR. lia.
        -- assert (idx = lst) by lia. subst idx. rewrite Nat.sub_diag in *. cbn [Rv] in HR |- *. apply HR. lia.
    + (* odd window: the two candidates for slot first + c - 1 coincide, the left one is dropped *)
      assert (Hc1 : (1 <= c)%nat) by (destruct c_cases; lia).
      pose proof (Todd Hc) as Heq.
      destruct (Nat.lt_trichotomy idx (first + c - 1)) as [Hlt|[He|Hgt]].
      * destruct (Nat.ltb_spec (idx - 1) j0); [|lia]. destruct (Nat.ltb_spec idx j0); [|lia].
        rewrite !step_slot by lia.
        destruct (Nat.leb_spec first idx); [|lia]. destruct (Nat.ltb_spec idx (first + c)); [|lia]. cbn [andb].
        destruct (Nat.leb_spec first (idx - 1)) as [H5|H5].
        -- destruct (Nat.ltb_spec (idx - 1) (first + c)); [|lia]. cbn [andb].
           replace (S (idx - 1 - first)) with (idx - first)%nat by lia.
           pose proof (left_id (idx - first)) as HL. replace (first + (idx - first))%nat with idx in HL by lia. apply HL. lia.
        -- cbn [andb]. destruct (Nat.ltb_spec (lst - c) (idx - 1)); [lia|]. cbn [andb].
           assert (idx = first) by lia. subst idx. rewrite Nat.sub_diag.
           pose proof (left_id 0) as HL. rewrite Nat.add_0_r in HL. apply HL. lia.
      * subst idx. destruct (Nat.ltb_spec (first + c - 1 - 1) j0); [|lia]. destruct (Nat.ltb_spec (first + c - 1) j0); [lia|].
        rewrite !step_slot by lia.
        replace (S (first + c - 1)) with (first + c)%nat by lia.
        (* slot first + c holds Rv c = Lv c *)
        assert (HRnext : (if andb (Nat.leb first (first + c)) (Nat.ltb (first + c) (first + c)) then Lv (S (first + c - first))
                          else if andb (Nat.ltb (lst - c) (first + c)) (Nat.leb (first + c) lst) then Rv (S (lst - (first + c)))
                          else getp Q (first + c)) = Lv c).
        { destruct (Nat.ltb_spec (first + c) (first + c)); [lia|]. rewrite andb_false_r.
          destruct (Nat.ltb_spec (lst - c) (first + c)); [|lia].
          destruct (Nat.leb_spec (first + c) lst); [|lia]. cbn [andb]. rewrite Heq. f_equal. lia. }
        rewrite HRnext.
        pose proof (left_id (c - 1)) as HL. replace (S (c - 1)) with c in HL by lia.
        replace (first + (c - 1))%nat with (first + c - 1)%nat in HL by lia.
        destruct (Nat.leb_spec first (first + c - 1 - 1)) as [H5|H5].
        -- destruct (Nat.ltb_spec (first + c - 1 - 1) (first + c)); [|lia]. cbn [andb].
           replace (S (first + c - 1 - 1 - first)) with (c - 1)%nat by lia. apply HL. lia.
        -- cbn [andb]. destruct (Nat.ltb_spec (lst - c) (first + c - 1 - 1)); [lia|]. cbn [andb].
           assert (Hc1' : c = 1%nat) by lia. rewrite Hc1' in *. cbn [Nat.sub] in HL.
           replace (first + 1 - 1 - 1)%nat with (first - 1)%nat by lia. apply HL. lia.
      * destruct (Nat.ltb_spec (idx - 1) j0); [lia|]. destruct (Nat.ltb_spec idx j0); [lia|].
        replace (S (idx - 1)) with idx by lia.
        rewrite !step_slot by lia.
        destruct (Nat.ltb_spec idx (first + c)); [lia|]. rewrite andb_false_r.
        destruct (Nat.ltb_spec (lst - c) idx); [|lia]. destruct (Nat.leb_spec idx lst); [|lia]. cbn [andb].
        destruct (Nat.ltb_spec (S idx) (first + c)); [lia|]. rewrite andb_false_r.
        destruct (Nat.ltb_spec (lst - c) (S idx)); [|lia].
        pose proof (right_id (lst - idx)) as HR. replace (lst - (lst - idx))%nat with idx in HR by lia.
        destruct (Nat.leb_spec (S idx) lst) as [Hx7|Hx7]; cbn [andb].
        -- replace (S (lst - S idx)) with (lst - idx)%nat by lia. apply HR. lia.
        -- assert (idx = lst) by lia. subst idx. rewrite Nat.sub_diag in *. cbn [Rv] in HR |- *. apply HR. lia.
Qed.
End Exact.

(* model level: helpers.knot_insertion applied to the result of helpers.knot_removal gives back the net before removal *)
Theorem removal_exact_when_test_is_zero td tol2 p (Ub : list R) (Q : list (list R)) u s r d :
  (1 <= s <= p)%nat -> (p + 1 <= r)%nat -> (r - s + 1 < length Q)%nat -> (r < length Q)%nat -> (r < length Ub)%nat ->
  Forall (fun pt => length pt = d) Q -> (d <= td)%nat -> 0 <= tol2 ->
  (forall i, (r - p <= i <= r - s)%nat -> knR Ub i < u < knR Ub (i + p + 1)) ->
  rem_test Rops td p Ub u r s Q 0 = 0 ->
  knot_insertion Rops p (knot_removal_kv Ub r 1) (knot_removal Rops td tol2 p Ub Q u 1 s r) u 1 (s - 1) (r - 1) = Q.
Proof.
  intros [Hs1 Hsp] Hr HrQ HrQ' HrU Hdim Htd Htol Hsep Htest.
  pose proof (P'_length td tol2 p Ub Q u s r d Hs1 Hsp Hr HrQ HrU Htd) as HL.
  rewrite insert1_net_is_model; try lia.
  eapply reinsert_after_removal; eassumption.
Qed.

Theorem removal_exact_when_test_is_zero_sorted td tol2 p (Ub : list R) (Q : list (list R)) u s r d :
  sortedR Ub -> (1 <= s <= p)%nat -> (p + 1 <= r)%nat -> (r - s + 1 < length Q)%nat -> (r < length Q)%nat -> (r + p < length Ub)%nat ->
  knR Ub (r - s) < u -> u < knR Ub (r + 1) ->
  Forall (fun pt => length pt = d) Q -> (d <= td)%nat -> 0 <= tol2 ->
  rem_test Rops td p Ub u r s Q 0 = 0 ->
  knot_insertion Rops p (knot_removal_kv Ub r 1) (knot_removal Rops td tol2 p Ub Q u 1 s r) u 1 (s - 1) (r - 1) = Q.
Proof.
  intros HS Hs Hr HrQ HrQ' HrU H1 H2 Hdim Htd Htol Htest.
  eapply removal_exact_when_test_is_zero; eauto; try lia.
  intros i Hi. split.
  - apply Rle_lt_trans with (knR Ub (r - s)); [apply HS; lia|exact H1].
  - apply Rlt_le_trans with (knR Ub (r + 1)); [exact H2|apply HS; lia].
Qed.
