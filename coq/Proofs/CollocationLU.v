(* C11 / C16: the collocation matrix of global curve interpolation (fitting._build_coeff_matrix with the averaged
   knot vector of compute_knot_vector, Eq 9.8, and strictly increasing parameters 0 = u_0 < .. < u_{n-1} = 1)
   has only non-zero -- in fact strictly positive -- Doolittle pivots, for EVERY degree 1 <= p < n and every size n.
   Hence linalg.lu_solve (no pivoting) always returns the control points and the interpolation conditions hold
   without any hypothesis on the pivots.

   Chain:  Schoenberg-Whitney for the averaged knots (schoenberg_whitney, diag_pos)
        -> the model's matrix is [N_{j,p}(u_i)] with last row e_{n-1} (A_entry, A_last; band structure A_band)
        -> every leading principal minor of the transpose is > 0 (Proofs/BsplineTP.v: total positivity by knot insertion)
        -> every Doolittle pivot is > 0 (Proofs/CollocDet.v: minors = products of pivots). *)
From Coq Require Import List Reals Lra Lia Arith Bool.
From NV Require Import Scalar.Ops Model.Common Model.Basis Model.Knots Model.Eval Model.LinAlg Model.Fit
  Proofs.Boehm Proofs.BasisR Proofs.KnotsR Proofs.EvalR Proofs.LinAlgSums Proofs.LinAlgR Proofs.LinAlgSolve
  Proofs.LinAlgPivot Proofs.LinAlgDet Proofs.LinAlgSDD Proofs.LinAlgDetGen Proofs.FitR
  Proofs.BsplinePos Proofs.CollocDet Proofs.BsplineTP.
Import ListNotations.
Open Scope R_scope.

(* ------------------------------------------------------------------ small facts *)
Lemma sumr_lt_const a m f c : (0 < m)%nat -> (forall i, (a <= i < a + m)%nat -> f i < c) -> sumR a m f < INR m * c.
Proof.
  revert a. induction m as [|m IH]; intros a Hm H; [lia|].
  rewrite sumr_cons. assert (f a < c) by (apply H; lia). destruct m as [|m].
  - rewrite sumr_0. cbn [INR]. lra.
  - assert (sumR (S a) (S m) f < INR (S m) * c) by (apply IH; [lia|intros; apply H; lia]).
    rewrite (S_INR (S m)). lra.
Qed.
Lemma sumr_gt_const a m f c : (0 < m)%nat -> (forall i, (a <= i < a + m)%nat -> c < f i) -> INR m * c < sumR a m f.
Proof.
  revert a. induction m as [|m IH]; intros a Hm H; [lia|].
  rewrite sumr_cons. assert (c < f a) by (apply H; lia). destruct m as [|m].
  - rewrite sumr_0. cbn [INR]. lra.
  - assert (INR (S m) * c < sumR (S a) (S m) f) by (apply IH; [lia|intros; apply H; lia]).
    rewrite (S_INR (S m)). lra.
Qed.
Lemma pairwise_sortedR (l : list R) : (forall i, (S i < length l)%nat -> nth i l 0 <= nth (S i) l 0) -> sortedR l.
Proof.
  intros H i j [Hij Hj]. unfold kn. cbn [o0 Rops]. induction j as [|j IH]; [replace i with 0%nat by lia; lra|].
  destruct (Nat.eq_dec i (S j)) as [->|Hne]; [lra|].
  apply Rle_trans with (nth j l 0); [apply IH; lia|apply H; lia].
Qed.
Lemma sumT_pos (l : list R) : l <> [] -> (forall x, In x l -> 0 < x) -> 0 < sumT Rops l.
Proof.
  induction l as [|x l IH]; intros Hne H; [congruence|]. cbn [sumT]. rsimp.
  assert (0 < x) by (apply H; left; reflexivity). destruct l as [|y l]; [cbn [sumT]; rsimp; lra|].
  assert (0 < sumT Rops (y :: l)) by (apply IH; [congruence|intros; apply H; right; assumption]). lra.
Qed.

Lemma sumf_nth_sumT (l : list R) : sumf (fun k => nth k l 0 * 1) (length l) = sumT Rops l.
Proof.
  induction l as [|x l IH] using rev_ind; [reflexivity|].
  rewrite app_length. cbn [length]. rewrite Nat.add_1_r. cbn [sumf].
  rewrite sumT_app. cbn [sumT]. rsimp. rewrite app_nth2 by lia. rewrite Nat.sub_diag. cbn [nth].
  rewrite (sumf_ext _ (fun k => nth k l 0 * 1)) by (intros k Hk; rewrite app_nth1 by exact Hk; reflexivity).
  rewrite IH. lra.
Qed.

(* A2.2 at the right end of the domain: all right(r) vanish, the basis function row is (0, .., 0, 1) *)
Lemma inner_right_end (Uk : list R) span u j : forall Nold r saved,
  (forall r', (r <= r' < r + length Nold)%nat ->
     Basis.right Rops Uk span u (S r') = 0 /\ Basis.left Rops Uk span u (j - r') <> 0) ->
  Basis.inner Rops Uk span u j r Nold saved = saved :: Nold.
Proof.
  induction Nold as [|x rest IH]; intros r saved H; cbn [Basis.inner]; [reflexivity|].
  destruct (H r ltac:(cbn [length]; lia)) as [R0 L0]. rsimp. rewrite R0.
  rewrite IH by (intros r' Hr'; apply H; cbn [length]; lia).
  f_equal; [lra|]. f_equal. field. exact L0.
Qed.
Lemma bf_right_end (Uk : list R) span u : forall q,
  (forall r, (1 <= r <= q)%nat -> Basis.right Rops Uk span u r = 0) ->
  (forall r, (1 <= r <= q)%nat -> Basis.left Rops Uk span u r <> 0) ->
  basis_function Rops q Uk span u = repeat 0 q ++ [1].
Proof.
  induction q as [|q IH]; intros HR HLf; [reflexivity|].
  cbn [basis_function]. rewrite IH by (intros; first [apply HR|apply HLf]; lia).
  rewrite inner_right_end; [reflexivity|].
  intros r' Hr'. rewrite app_length, repeat_length in Hr'. cbn [length] in Hr'.
  split; [apply HR; lia|apply HLf; lia].
Qed.
Lemma nth_unit_last q r : nth r (repeat 0 q ++ [1]) 0 = if Nat.eqb r q then 1 else 0.
Proof.
  destruct (Nat.eqb_spec r q) as [->|Hne].
  - rewrite app_nth2 by (rewrite repeat_length; lia). rewrite repeat_length, Nat.sub_diag. reflexivity.
  - destruct (lt_dec r q) as [Hlt|Hge].
    + rewrite app_nth1 by (rewrite repeat_length; exact Hlt). apply nth_repeat.
    + apply nth_overflow. rewrite app_length, repeat_length. cbn [length]. lia.
Qed.

(* ------------------------------------------------------------------ the interpolation setting *)
Section Colloc.
Variables (p n : nat) (uk : list R).
Hypothesis Hp : (1 <= p < n)%nat.
Hypothesis HL : length uk = n.
Hypothesis H0 : nth 0 uk 0 = 0.
Hypothesis H1 : nth (n - 1) uk 0 = 1.
Hypothesis Hinc : forall i, (S i < n)%nat -> nth i uk 0 < nth (S i) uk 0.

Definition tpar (i : nat) : R := nth i uk 0.
Definition ckv : list R := compute_knot_vector Rops p n uk.
Definition cU : nat -> R := Ufun ckv.
Definition cA : list (list R) := build_coeff_matrix Rops p ckv uk n.
Notation t := tpar. Notation kv := ckv. Notation U := cU. Notation A := cA.

Lemma t_strict : forall b a, (a < b)%nat -> (b < n)%nat -> t a < t b.
Proof.
  induction b as [|b IH]; intros a Hab Hb; [lia|].
  destruct (Nat.eq_dec a b) as [->|]; [apply Hinc; lia|].
  apply Rlt_trans with (t b); [apply IH; lia|apply Hinc; lia].
Qed.
Lemma t_range i : (i < n)%nat -> 0 <= t i <= 1.
Proof.
  intros Hi. split.
  - destruct (Nat.eq_dec i 0) as [->|]; [unfold t; lra|]. pose proof (t_strict i 0 ltac:(lia) Hi). unfold t in *. lra.
  - destruct (Nat.eq_dec i (n - 1)) as [->|]; [unfold t; lra|]. pose proof (t_strict (n - 1) i ltac:(lia) ltac:(lia)). unfold t in *. lra.
Qed.
Lemma t_pos i : (0 < i < n)%nat -> 0 < t i.
Proof. intros Hi. pose proof (t_strict i 0 ltac:(lia) ltac:(lia)). unfold t in *. lra. Qed.
Lemma t_lt1 i : (i < n - 1)%nat -> t i < 1.
Proof. intros Hi. pose proof (t_strict (n - 1) i ltac:(lia) ltac:(lia)). unfold t in *. lra. Qed.

Lemma Hmono : forall i, (S i < n)%nat -> nth i uk 0 <= nth (S i) uk 0.
Proof. intros i Hi. left. apply Hinc, Hi. Qed.

(* ---- the averaged knots *)
Lemma INRp_pos : 0 < INR p. Proof. apply lt_0_INR. lia. Qed.
Lemma avgk_lt i c : (forall j, (S i <= j < S i + p)%nat -> t j < c) -> avgk p uk i < c.
Proof.
  intros H. unfold avgk. pose proof INRp_pos as Hq.
  assert (S : sumR (S i) p (fun j => nth j uk 0) < INR p * c) by (apply sumr_lt_const; [lia|exact H]).
  replace c with (1 / INR p * (INR p * c)) by (field; lra).
  apply Rmult_lt_compat_l; [apply Rdiv_lt_0_compat; lra|exact S].
Qed.
Lemma avgk_gt i c : (forall j, (S i <= j < S i + p)%nat -> c < t j) -> c < avgk p uk i.
Proof.
  intros H. unfold avgk. pose proof INRp_pos as Hq.
  assert (S : INR p * c < sumR (S i) p (fun j => nth j uk 0)) by (apply sumr_gt_const; [lia|exact H]).
  replace c with (1 / INR p * (INR p * c)) at 1 by (field; lra).
  apply Rmult_lt_compat_l; [apply Rdiv_lt_0_compat; lra|exact S].
Qed.
Lemma kvf_low i : (i <= p)%nat -> kvf p n uk i = 0.
Proof. intros H. unfold kvf. destruct (Nat.leb_spec i p); [reflexivity|lia]. Qed.
Lemma kvf_mid i : (p < i < n)%nat -> kvf p n uk i = avgk p uk (i - S p).
Proof. intros H. unfold kvf. destruct (Nat.leb_spec i p); [lia|]. destruct (Nat.ltb_spec i n); [reflexivity|lia]. Qed.
Lemma kvf_high i : (n <= i)%nat -> kvf p n uk i = 1.
Proof. intros H. unfold kvf. destruct (Nat.leb_spec i p); [lia|]. destruct (Nat.ltb_spec i n); [lia|reflexivity]. Qed.
Lemma kvf_lt_t j : (p < j < n)%nat -> kvf p n uk j < t j.
Proof. intros Hj. rewrite kvf_mid by exact Hj. apply avgk_lt. intros l Hl. apply t_strict; lia. Qed.
Lemma kvf_gt_t j : (j + p + 1 < n)%nat -> t j < kvf p n uk (j + p + 1).
Proof.
  intros Hj. rewrite kvf_mid by lia. replace (j + p + 1 - S p)%nat with j by lia.
  apply avgk_gt. intros l Hl. apply t_strict; lia.
Qed.

Lemma kv_len : length kv = (n + p + 1)%nat.
Proof. apply kv_length; assumption. Qed.
Lemma kv_val i : (i < n + p + 1)%nat -> knR kv i = kvf p n uk i.
Proof. intros Hi. unfold kn. cbn [o0 Rops]. apply kv_nth; assumption. Qed.
Lemma kv_sorted : sortedR kv.
Proof.
  apply pairwise_sortedR. intros i Hi. rewrite kv_len in Hi.
  destruct (averaged_knots_valid p n uk Hp HL H0 H1 Hmono) as (_ & _ & _ & _ & Hpair). apply Hpair, Hi.
Qed.
Lemma U_sorted : sortedF U.
Proof. intros i. apply Ufun_sorted, kv_sorted. Qed.
Lemma U_val i : (i < n + p + 1)%nat -> U i = kvf p n uk i.
Proof. intros Hi. unfold U. rewrite Ufun_in by (rewrite kv_len; exact Hi). apply kv_val, Hi. Qed.

(* [G] Schoenberg-Whitney for the averaged knot vector: u_j <= ubar_j <= u_{j+p+1}, strictly except at the two ends *)
Theorem schoenberg_whitney j : (j < n)%nat ->
  U j <= t j <= U (j + p + 1)%nat /\ ((0 < j)%nat -> U j < t j) /\ ((j < n - 1)%nat -> t j < U (j + p + 1)%nat).
Proof.
  intros Hj. rewrite !U_val by lia. pose proof (t_range j Hj) as Rg.
  assert (Lo : kvf p n uk j <= t j /\ ((0 < j)%nat -> kvf p n uk j < t j)).
  { destruct (le_lt_dec j p) as [Hle|Hgt].
    - rewrite kvf_low by exact Hle. split; [lra|]. intros Hpos. apply t_pos. lia.
    - pose proof (kvf_lt_t j ltac:(lia)). split; [lra|intros _; assumption]. }
  assert (Hi : t j <= kvf p n uk (j + p + 1) /\ ((j < n - 1)%nat -> t j < kvf p n uk (j + p + 1))).
  { destruct (le_lt_dec n (j + p + 1)) as [Hge|Hlt].
    - rewrite kvf_high by exact Hge. split; [lra|]. intros Hlt. apply t_lt1, Hlt.
    - pose proof (kvf_gt_t j Hlt). split; [lra|intros _; assumption]. }
  tauto.
Qed.

(* [G] every diagonal entry N_{j,p}(ubar_j), j < n-1, is strictly positive (the last one is the end convention, A_last) *)
Theorem diag_pos j : (j < n - 1)%nat -> 0 < N U p j (t j).
Proof.
  intros Hj. destruct (schoenberg_whitney j ltac:(lia)) as (_ & Lo & Hi). specialize (Hi Hj).
  apply (N_pos U U_sorted). destruct (Nat.eq_dec j 0) as [->|Hne]; [right|left; split; [apply Lo; lia|exact Hi]].
  assert (E0 : t 0 = 0) by exact H0.
  split; [rewrite U_val, kvf_low by lia; lra|]. split; [rewrite U_val, kvf_low by lia; lra|exact Hi].
Qed.

Lemma t_inrange i : (i < n - 1)%nat -> exists s, U s <= t i < U (S s).
Proof.
  intros Hi. destruct (find_span_fun U n (t i)) as (s & _ & Hs); [|exists s; exact Hs].
  rewrite !U_val by lia. rewrite kvf_low, kvf_high by lia. pose proof (t_range i ltac:(lia)). pose proof (t_lt1 i Hi). lra.
Qed.

(* ---- the model's matrix *)
Lemma cA_length : length A = n.
Proof. unfold A, build_coeff_matrix. rewrite map_length, seq_length. reflexivity. Qed.
Lemma span_spec i : (i < n)%nat -> let s := find_span_linear Rops p kv n (t i) in
  (p <= s < n)%nat /\ knR kv s <= t i /\ (t i < knR kv (S s) \/ s = (n - 1)%nat /\ knR kv n <= t i).
Proof.
  intros Hi. apply (find_span_linear_spec kv (t i) p n); [lia|rewrite kv_len; lia|].
  rewrite kv_val, kvf_low by lia. apply t_range, Hi.
Qed.
Lemma cA_row i : (i < n)%nat -> nth i A [] = coeff_row Rops p kv n (t i).
Proof. intros Hi. unfold A, build_coeff_matrix. rewrite nth_map_seq by exact Hi. reflexivity. Qed.

(* [G] rows 0 .. n-2 of the model's matrix are the Cox-de Boor values *)
Theorem A_entry i j : (i < n - 1)%nat -> (j < n)%nat -> g2 A i j = N U p j (t i).
Proof.
  intros Hi Hj. destruct (span_spec i ltac:(lia)) as (Hs & Hlo & Hhi).
  set (s := find_span_linear Rops p kv n (t i)) in *.
  assert (Hup : t i < knR kv (s + 1)).
  { replace (s + 1)%nat with (S s) by lia. destruct Hhi as [H|[_ H]]; [exact H|].
    rewrite kv_val, kvf_high in H by lia. pose proof (t_lt1 i Hi). lra. }
  unfold get2. rewrite cA_row by lia. change (o0 Rops) with 0. rewrite coeff_row_nth by (first [exact Hs|exact Hj]). fold s.
  destruct (Nat.leb_spec (s - p) j) as [Ha|Ha]; cbn [andb].
  - destruct (Nat.leb_spec j s) as [Hb|Hb].
    + rewrite (bf_is_cox_de_boor_list kv (t i) s kv_sorted (conj Hlo Hup) p) by (rewrite ?kv_len; lia).
      replace (s - p + (j - (s - p)))%nat with j by lia. reflexivity.
    + symmetry. apply (N_support U U_sorted). left.
      pose proof (U_mono U U_sorted (s + 1) j ltac:(lia)) as M.
      assert (E1 : U (s + 1)%nat = knR kv (s + 1)) by (unfold cU; apply Ufun_in; rewrite kv_len; lia).
      rewrite E1 in M. lra.
  - symmetry. apply (N_support U U_sorted). right.
    pose proof (U_mono U U_sorted (j + p + 1) s ltac:(lia)) as M.
    assert (E1 : U s = knR kv s) by (unfold cU; apply Ufun_in; rewrite kv_len; lia).
    rewrite E1 in M. lra.
Qed.

(* [G] the last row is e_{n-1} (end convention of find_span / basis_function at u = 1) *)
Theorem A_last j : (j < n)%nat -> g2 A (n - 1) j = if Nat.eqb j (n - 1) then 1 else 0.
Proof.
  intros Hj. destruct (span_spec (n - 1) ltac:(lia)) as (Hs & Hlo & Hhi).
  set (s := find_span_linear Rops p kv n (t (n - 1))) in *.
  assert (Et : t (n - 1) = 1) by exact H1.
  assert (Es : s = (n - 1)%nat).
  { destruct Hhi as [H|[H _]]; [|exact H]. exfalso.
    pose proof (kv_sorted (S s) n ltac:(rewrite kv_len; lia)) as M. rewrite (kv_val n), kvf_high in M by lia. lra. }
  unfold get2. rewrite cA_row by lia. change (o0 Rops) with 0. rewrite coeff_row_nth by (first [exact Hs|exact Hj]). fold s.
  rewrite Es, Et.
  rewrite (bf_right_end kv (n - 1) 1 p).
  - rewrite nth_unit_last. destruct (Nat.leb_spec (n - 1 - p) j) as [Ha|Ha]; cbn [andb].
    + destruct (Nat.leb_spec j (n - 1)) as [Hb|Hb]; [|lia].
      destruct (Nat.eqb_spec (j - (n - 1 - p)) p), (Nat.eqb_spec j (n - 1)); try lia; reflexivity.
    + destruct (Nat.eqb_spec j (n - 1)); [lia|reflexivity].
  - intros r Hr. unfold Basis.right. rsimp. rewrite kv_val, kvf_high by lia. lra.
  - intros r Hr. unfold Basis.left. rsimp. rewrite kv_val by lia.
    destruct (le_lt_dec (n - 1 + 1 - r) p) as [Hle|Hgt]; [rewrite kvf_low by exact Hle; lra|].
    pose proof (kvf_lt_t (n - 1 + 1 - r) ltac:(lia)). pose proof (t_range (n - 1 + 1 - r) ltac:(lia)). lra.
Qed.

(* [G] band structure, non-negativity, row sums: row i has its non-zeros in the window span_i - p .. span_i *)
Theorem A_band i j : (i < n)%nat -> (j < n)%nat ->
  let s := find_span_linear Rops p kv n (t i) in
  (p <= s < n)%nat /\ ((j < s - p \/ s < j)%nat -> g2 A i j = 0) /\ 0 <= g2 A i j.
Proof.
  intros Hi Hj s. destruct (span_spec i Hi) as (Hs & Hlo & Hhi). fold s in Hs, Hlo, Hhi.
  split; [exact Hs|]. split.
  - intros Hout. unfold get2. rewrite cA_row by lia. change (o0 Rops) with 0.
    rewrite coeff_row_nth by (first [exact Hs|exact Hj]). fold s.
    destruct (Nat.leb_spec (s - p) j); destruct (Nat.leb_spec j s); cbn [andb]; try reflexivity. lia.
  - destruct (Nat.eq_dec i (n - 1)) as [->|Hne].
    + rewrite A_last by exact Hj. destruct (Nat.eqb j (n - 1)); lra.
    + rewrite A_entry by lia. apply (N_nonneg U U_sorted).
Qed.
Theorem A_first_row j : (j < n)%nat -> g2 A 0 j = if Nat.eqb j 0 then 1 else 0.
Proof.
  intros Hj. rewrite A_entry by lia. assert (E0 : t 0 = 0) by exact H0. rewrite E0.
  assert (Hk : U (0 + 1)%nat = 0 /\ U (0 + p)%nat <= 0 < U (0 + p + 1)%nat).
  { destruct (schoenberg_whitney 0 ltac:(lia)) as (_ & _ & Hi). specialize (Hi ltac:(lia)). rewrite E0 in Hi.
    rewrite !U_val by lia. rewrite !kvf_low by lia. rewrite U_val in Hi by lia. split; [reflexivity|]. split; [lra|exact Hi]. }
  destruct Hk as [K1 K2].
  destruct (Nat.eqb_spec j 0) as [->|Hne].
  - apply (N_one_full U U_sorted p 0 0); [lia|exact K1|exact K2].
  - apply (N_zero_full U U_sorted p 0 0 j); [lia|exact K1|exact K2|exact Hne].
Qed.
Theorem A_row_sum i : (i < n)%nat -> sumR 0 n (fun j => g2 A i j) = 1.
Proof.
  intros Hi. destruct (span_spec i Hi) as (Hs & Hlo & Hhi).
  set (s := find_span_linear Rops p kv n (t i)) in *.
  destruct (Nat.eq_dec i (n - 1)) as [->|Hne].
  - rewrite (sumr_single 0 n (n - 1)); [rewrite A_last, Nat.eqb_refl by lia; reflexivity|lia|].
    intros j Hj Hjn. rewrite A_last by lia. destruct (Nat.eqb_spec j (n - 1)); [contradiction|reflexivity].
  - assert (Hup : t i < knR kv (s + 1)).
    { replace (s + 1)%nat with (S s) by lia. destruct Hhi as [H|[_ H]]; [exact H|].
      rewrite kv_val, kvf_high in H by lia. pose proof (t_lt1 i ltac:(lia)). lra. }
    rewrite (sumr_ext 0 n _ (fun j => nth j (coeff_row Rops p kv n (t i)) 0 * 1)).
    2:{ intros j Hj. unfold get2. rewrite cA_row by lia. change (o0 Rops) with 0. lra. }
    rewrite (coeff_row_dot p n kv (t i) Hs (fun _ => 1)). fold s.
    pose proof (bf_partition_unity kv (t i) s kv_sorted (conj Hlo Hup) p ltac:(lia) ltac:(rewrite kv_len; lia)) as PU.
    rewrite <- sumf_nth_sumT in PU. rewrite (bf_length kv (t i) s p) in PU. exact PU.
Qed.

(* ---- leading principal minors (of the transpose) *)
Lemma leading_minor_low m : (m < n - 1)%nat -> 0 < leibF (S m) (fun j i => g2 A i j).
Proof.
  intros Hm.
  rewrite (leibF_ext (S m) _ (fun j i => N U p ((fun x => x) j) (t i))).
  2:{ intros j i Hj Hi. apply A_entry; lia. }
  apply (collocation_minor_pos p (S m) U t (fun x => x)); try lia.
  - apply U_sorted.
  - intros i Hi. apply (t_strict (S i) i); lia.
  - intros i Hi. apply t_inrange. lia.
  - intros j Hj. apply diag_pos. lia.
Qed.
(* [G] every leading principal minor of the collocation matrix is strictly positive *)
Theorem leading_minor_pos m : (m < n)%nat -> 0 < leibF (S m) (fun j i => g2 A i j).
Proof.
  intros Hm. destruct (Nat.eq_dec m (n - 1)) as [->|Hne]; [|apply leading_minor_low; lia].
  rewrite leibF_last_col_unit.
  - replace (n - 1)%nat with (S (n - 2)) by lia. apply leading_minor_low. lia.
  - intros j Hj. rewrite A_last by lia. destruct (Nat.eqb_spec j (n - 1)); [lia|reflexivity].
  - rewrite A_last, Nat.eqb_refl by lia. reflexivity.
Qed.

(* [G] every Doolittle pivot of the collocation matrix is non-zero *)
Theorem pivots_nonzero : forall i, (i < n)%nat -> g2 (snd (doolittle Rops A)) i i <> 0.
Proof.
  rewrite <- cA_length. apply doolittle_pivots_from_minors. intros m Hm. rewrite cA_length in Hm.
  pose proof (leading_minor_pos m Hm). lra.
Qed.
(* [G] ... in fact strictly positive (ratio of consecutive leading minors) *)
Theorem pivots_positive : forall i, (i < n)%nat -> 0 < g2 (snd (doolittle Rops A)) i i.
Proof.
  intros i Hi.
  assert (Mp : forall m, (m < n)%nat -> leibF (S m) (fun j i => g2 A i j) = prodf (fun i => g2 (snd (doolittle Rops A)) i i) (S m)).
  { intros m Hm. change (snd (doolittle Rops A)) with (snd (doolittle_cols Rops A)).
    apply (minors_are_pivot_products (fun r j => g2 (fst (doolittle_cols Rops A)) j r) (g2 (snd (doolittle_cols Rops A))) (g2 A) (length A)).
    - intros a b. apply doolittle_U_eq.
    - intros a b. apply doolittle_L_eq.
    - rewrite cA_length. apply pivots_nonzero.
    - rewrite cA_length. exact Hm. }
  pose proof (leading_minor_pos i Hi) as P1. rewrite (Mp i Hi) in P1. cbn [prodf] in P1.
  assert (P0 : 0 < prodf (fun i => g2 (snd (doolittle Rops A)) i i) i).
  { destruct i as [|i]; [cbn [prodf]; lra|]. rewrite <- (Mp i) by lia. apply leading_minor_pos. lia. }
  destruct (Rle_dec (g2 (snd (doolittle Rops A)) i i) 0) as [Hle|Hgt]; [|lra].
  exfalso. assert (prodf (fun i => g2 (snd (doolittle Rops A)) i i) i * g2 (snd (doolittle Rops A)) i i <= 0); [|lra].
  rewrite <- (Rmult_0_r (prodf (fun i => g2 (snd (doolittle Rops A)) i i) i)). apply Rmult_le_compat_l; lra.
Qed.
End Colloc.

(* ------------------------------------------------------------------ the statements for Props/C11.v and Props/C16.v *)
(* [G] = Props/C11.v C11_collocation_pivots_nonzero_full, literally *)
Theorem collocation_pivots_nonzero : forall (p n : nat) (uk : list R), (1 <= p < n)%nat -> length uk = n ->
  nth 0 uk 0 = 0 -> nth (n - 1) uk 0 = 1 -> (forall i, (S i < n)%nat -> nth i uk 0 < nth (S i) uk 0) ->
  forall i, (i < n)%nat -> g2 (snd (doolittle Rops (build_coeff_matrix Rops p (compute_knot_vector Rops p n uk) uk n))) i i <> 0.
Proof. intros p n uk Hp HL H0 H1 Hinc. exact (pivots_nonzero p n uk Hp HL H0 H1 Hinc). Qed.
Print Assumptions collocation_pivots_nonzero.

(* [G] strictly positive pivots *)
Theorem collocation_pivots_positive : forall (p n : nat) (uk : list R), (1 <= p < n)%nat -> length uk = n ->
  nth 0 uk 0 = 0 -> nth (n - 1) uk 0 = 1 -> (forall i, (S i < n)%nat -> nth i uk 0 < nth (S i) uk 0) ->
  forall i, (i < n)%nat -> 0 < g2 (snd (doolittle Rops (build_coeff_matrix Rops p (compute_knot_vector Rops p n uk) uk n))) i i.
Proof. intros p n uk Hp HL H0 H1 Hinc. exact (pivots_positive p n uk Hp HL H0 H1 Hinc). Qed.
Print Assumptions collocation_pivots_positive.

(* [G] the collocation matrix: square, rows 0..n-2 = Cox-de Boor values on the knot function, last row e_{n-1}, first row e_0,
   entries >= 0, zero outside the window of the span, rows sum to 1, positive diagonal (Schoenberg-Whitney) *)
Theorem collocation_matrix_structure : forall (p n : nat) (uk : list R), (1 <= p < n)%nat -> length uk = n ->
  nth 0 uk 0 = 0 -> nth (n - 1) uk 0 = 1 -> (forall i, (S i < n)%nat -> nth i uk 0 < nth (S i) uk 0) ->
  let kv := compute_knot_vector Rops p n uk in let A := build_coeff_matrix Rops p kv uk n in
  length A = n /\
  (forall i j, (i < n - 1)%nat -> (j < n)%nat -> g2 A i j = N (Ufun kv) p j (nth i uk 0)) /\
  (forall j, (j < n)%nat -> g2 A 0 j = if Nat.eqb j 0 then 1 else 0) /\
  (forall j, (j < n)%nat -> g2 A (n - 1) j = if Nat.eqb j (n - 1) then 1 else 0) /\
  (forall i j, (i < n)%nat -> (j < n)%nat -> let s := find_span_linear Rops p kv n (nth i uk 0) in
      (p <= s < n)%nat /\ ((j < s - p \/ s < j)%nat -> g2 A i j = 0) /\ 0 <= g2 A i j) /\
  (forall i, (i < n)%nat -> sumR 0 n (fun j => g2 A i j) = 1) /\
  (forall j, (j < n)%nat -> 0 < g2 A j j).
Proof.
  intros p n uk Hp HL H0 H1 Hinc kv A.
  split; [exact (cA_length p n uk)|]. split; [exact (A_entry p n uk Hp HL H0 H1 Hinc)|].
  split; [exact (A_first_row p n uk Hp HL H0 H1 Hinc)|].
  split; [exact (A_last p n uk Hp HL H0 H1 Hinc)|]. split; [exact (A_band p n uk Hp HL H0 H1 Hinc)|].
  split; [exact (A_row_sum p n uk Hp HL H0 H1 Hinc)|].
  intros j Hj. destruct (Nat.eq_dec j (n - 1)) as [->|Hne].
  - unfold A, kv. rewrite (A_last p n uk Hp HL H0 H1 Hinc) by lia. rewrite Nat.eqb_refl. lra.
  - unfold A, kv. rewrite (A_entry p n uk Hp HL H0 H1 Hinc) by lia. apply (diag_pos p n uk Hp HL H0 H1 Hinc). lia.
Qed.
Print Assumptions collocation_matrix_structure.

(* [G] Schoenberg-Whitney for the averaged knot vector, on the knot list *)
Theorem averaged_knots_schoenberg_whitney : forall (p n : nat) (uk : list R), (1 <= p < n)%nat -> length uk = n ->
  nth 0 uk 0 = 0 -> nth (n - 1) uk 0 = 1 -> (forall i, (S i < n)%nat -> nth i uk 0 < nth (S i) uk 0) ->
  let kv := compute_knot_vector Rops p n uk in
  forall j, (j < n)%nat ->
    nth j kv 0 <= nth j uk 0 <= nth (j + p + 1) kv 0 /\
    ((0 < j)%nat -> nth j kv 0 < nth j uk 0) /\ ((j < n - 1)%nat -> nth j uk 0 < nth (j + p + 1) kv 0).
Proof.
  intros p n uk Hp HL H0 H1 Hinc kv j Hj.
  pose proof (schoenberg_whitney p n uk Hp HL H0 H1 Hinc j Hj) as SW.
  unfold cU, ckv, tpar in SW. rewrite !Ufun_in in SW by (rewrite (kv_length p n uk Hp HL); lia). exact SW.
Qed.
Print Assumptions averaged_knots_schoenberg_whitney.

(* [G] every leading principal minor is > 0 (Leibniz determinants of the top-left blocks of the transpose) *)
Theorem collocation_leading_minors_positive : forall (p n : nat) (uk : list R), (1 <= p < n)%nat -> length uk = n ->
  nth 0 uk 0 = 0 -> nth (n - 1) uk 0 = 1 -> (forall i, (S i < n)%nat -> nth i uk 0 < nth (S i) uk 0) ->
  forall m, (m < n)%nat ->
    0 < leibF (S m) (fun j i => g2 (build_coeff_matrix Rops p (compute_knot_vector Rops p n uk) uk n) i j).
Proof. intros p n uk Hp HL H0 H1 Hinc. exact (leading_minor_pos p n uk Hp HL H0 H1 Hinc). Qed.

(* ------------------------------------------------------------------ consequences: the solver always returns, interpolation holds *)
(* [G] C16, collocation half: lu_solve (no pivoting) returns a solution of the collocation system for every right-hand side *)
Theorem lu_solve_collocation_correct : forall (p n dim : nat) (uk : list R) (b : list (list R)), (1 <= p < n)%nat -> length uk = n ->
  nth 0 uk 0 = 0 -> nth (n - 1) uk 0 = 1 -> (forall i, (S i < n)%nat -> nth i uk 0 < nth (S i) uk 0) -> rect n dim b ->
  let A := build_coeff_matrix Rops p (compute_knot_vector Rops p n uk) uk n in
  exists X, lu_solve Rops A b = Ok X /\ rect n dim X /\
    forall i c, (i < n)%nat -> (c < dim)%nat -> sumR 0 n (fun k => g2 A i k * g2 X k c) = g2 b i c.
Proof.
  intros p n dim uk b Hp HL H0 H1 Hinc Hb A.
  assert (LA : length A = n) by exact (cA_length p n uk).
  assert (Hspans : forall i, (i < n)%nat ->
     (p <= find_span_linear Rops p (compute_knot_vector Rops p n uk) n (nth i uk 0%R) < n)%nat).
  { intros i Hi. exact (proj1 (span_spec p n uk Hp HL H0 H1 Hinc i Hi)). }
  assert (Hsq : is_square A = true).
  { unfold is_square. apply forallb_forall. intros row Hin. destruct (In_nth _ _ [] Hin) as [i [Hi <-]].
    rewrite LA in *. unfold A. rewrite A_row by exact Hi. rewrite coeff_row_length by (apply Hspans, Hi). apply Nat.eqb_refl. }
  destruct (lu_solve_correct A b dim) as (X & EX & RX & HX); rewrite ?LA; try assumption; [lia| |].
  - apply collocation_pivots_nonzero; assumption.
  - rewrite LA in RX, HX. exists X. split; [exact EX|]. split; [exact RX|exact HX].
Qed.
Print Assumptions lu_solve_collocation_correct.

(* [G] C11: one interpolation solve with the averaged knot vector, NO pivot hypothesis *)
Theorem interp_1d_averaged_conditions : forall (p n dim : nat) (uk : list R) (pts : list (list R)), (1 <= p < n)%nat -> length uk = n ->
  nth 0 uk 0 = 0 -> nth (n - 1) uk 0 = 1 -> (forall i, (S i < n)%nat -> nth i uk 0 < nth (S i) uk 0) -> rect n dim pts ->
  let kv := compute_knot_vector Rops p n uk in
  exists P, interp_1d Rops p kv uk pts = Ok P /\ rect n dim P /\
    forall i d, (i < n)%nat -> (d < dim)%nat -> nth d (curve_point Rops dim p kv P (nth i uk 0)) 0 = g2 pts i d.
Proof.
  intros p n dim uk pts Hp HL H0 H1 Hinc Hpts kv.
  apply interp_1d_conditions; [lia|exact Hpts| |].
  - intros i Hi. exact (proj1 (span_spec p n uk Hp HL H0 H1 Hinc i Hi)).
  - apply collocation_pivots_nonzero; assumption.
Qed.
Print Assumptions interp_1d_averaged_conditions.

(* [G] C11: interpolate_curve on data with strictly positive chords (distinct consecutive points; chord-length or centripetal):
   a curve is returned and it passes through every data point at its parameter.  No hypothesis on the pivots. *)
Theorem interpolate_curve_interpolates : forall (pts : list (list R)) (p dim : nat) (cds : list R),
  let n := length pts in
  length cds = (n - 1)%nat -> (1 <= p < n)%nat -> rect n dim pts -> (forall x, In x cds -> 0 < x) ->
  exists uk P, compute_params_curve Rops cds = Ok uk /\
    interpolate_curve Rops pts p cds = Ok (P, compute_knot_vector Rops p n uk) /\ rect n dim P /\
    nth 0 uk 0 = 0 /\ nth (n - 1) uk 0 = 1 /\
    forall k d, (k < n)%nat -> (d < dim)%nat ->
      nth d (curve_point Rops dim p (compute_knot_vector Rops p n uk) P (nth k uk 0)) 0 = g2 pts k d.
Proof.
  intros pts p dim cds n Hc Hp Hpts Hpos.
  assert (Hnn : forall x, In x cds -> 0 <= x) by (intros x Hx; left; apply Hpos, Hx).
  assert (Hsum : 0 < sumT Rops cds).
  { apply sumT_pos; [|exact Hpos]. intros E. rewrite E in Hc. cbn in Hc. lia. }
  apply interpolate_curve_correct; try assumption.
  intros uk Euk.
  destruct (params_spec cds Hnn Hsum) as (uk' & Euk' & Luk & U0 & U1 & _ & Ustrict & _).
  rewrite Euk in Euk'. injection Euk' as <-.
  fold n. apply collocation_pivots_nonzero; try assumption.
  - lia.
  - replace (n - 1)%nat with (length cds) by lia. exact U1.
  - intros i Hi. apply (Ustrict Hpos). lia.
Qed.
Print Assumptions interpolate_curve_interpolates.
