(* Analytic reading of DersGeneral.v: the rows of helpers.basis_function_ders (A2.3) are successive TRUE derivatives
   (standard library derivable_pt_lim) - all degrees, sorted knot vectors with any multiplicities, orders <= degree.

   For a fixed span the map  u |-> ders[k][r]  is the k-th derivative of the polynomial piece of N_{span-p+r,p};
   so it is differentiable at every real x with derivative ders[k+1][r] (ders_rows_derivable), and row 0 coincides with
   the Cox-de Boor function on the half-open span (ders_row0_is_N).  Hence, inside the span, row k is the k-th
   derivative of N_{span-p+r,p} (ders_kth_deriv_on), with right derivatives at the left knot. *)
From Coq Require Import List Reals Lra Lia Arith Bool.
From NV Require Import Scalar.Ops Model.Common Model.Basis Proofs.Boehm Proofs.BasisR
                       Proofs.DerivAnalytic Proofs.DersEq210 Proofs.DersNdu Proofs.DersGeneral.
Import ListNotations.
Open Scope R_scope.

Section Analytic.
Variables (U : list R) (span : nat) (p : nat) (order : nat).
Hypothesis Usorted : sortedR U.
Hypothesis Hp : (p <= span)%nat.
Hypothesis HL : (span + p < length U)%nat.
Hypothesis HL1 : (span + 1 < length U)%nat.
Hypothesis Ho : (order <= p)%nat.

(* entry (k, r) of the table as a function of the parameter, the span being fixed *)
Definition ders_entry (k r : nat) (y : R) : R := nth r (nth k (basis_function_ders Rops p U span y order) []) 0.

Notation V := (Ufun U).
Notation i r := (span - p + r)%nat.

(* each row is, everywhere, the derivative of the previous row *)
Theorem ders_rows_derivable k r x :
  (S k <= order)%nat -> (r <= p)%nat ->
  derivable_pt_lim (ders_entry k r) x (ders_entry (S k) r x).
Proof.
  intros Hk Hr. unfold ders_entry at 2.
  rewrite (ders_general_pieces U span p Usorted Hp HL HL1 x order (S k) r) by lia.
  apply (dl_ext (dNk V span k p (i r))).
  - intros y. unfold ders_entry. symmetry.
    apply (ders_general_pieces U span p Usorted Hp HL HL1 y order k r); lia.
  - apply dNk_deriv. apply Ufun_sorted. exact Usorted.
Qed.

(* row 0 is the Cox-de Boor function on the half-open span *)
Theorem ders_row0_is_N r x :
  knR U span <= x < knR U (span + 1) -> (r <= p)%nat -> ders_entry 0 r x = N V p (i r) x.
Proof.
  intros Hx Hr. unfold ders_entry.
  rewrite (ders_general U span p Usorted Hp HL HL1 x order 0 r) by (try assumption; lia). reflexivity.
Qed.

Lemma open_span_fun x : V span < x < V (S span) -> knR U span <= x < knR U (span + 1).
Proof. replace (S span) with (span + 1)%nat by lia. rewrite !Ufun_in by lia. lra. Qed.

(* inside the span, row k is the k-th derivative of N_{span-p+r,p} *)
Theorem ders_kth_deriv_on k r :
  (k <= order)%nat -> (r <= p)%nat ->
  kth_deriv_on (V span) (V (S span)) k (fun x => N V p (i r) x) (ders_entry k r).
Proof.
  intros Hk Hr. destruct k as [|k]; cbn [kth_deriv_on].
  - intros x Hx. apply ders_row0_is_N; [apply open_span_fun; exact Hx|exact Hr].
  - exists (fun x => dN V k p (i r) x). split.
    + apply dN_iterated. apply Ufun_sorted. exact Usorted.
    + intros x Hx. unfold ders_entry.
      rewrite (ders_general U span p Usorted Hp HL HL1 x order (S k) r)
        by (try assumption; try lia; apply open_span_fun; exact Hx).
      apply (dN_is_kth_derivative V (Ufun_sorted U Usorted) span). exact Hx.
Qed.

(* first derivative, spelled out: row 1 is the derivative of the basis function *)
Corollary ders_row1_is_derivative r x :
  (1 <= order)%nat -> (r <= p)%nat -> V span < x < V (S span) ->
  derivable_pt_lim (fun y => N V p (i r) y) x (ders_entry 1 r x).
Proof.
  intros H1 Hr Hx. unfold ders_entry.
  rewrite (ders_general U span p Usorted Hp HL HL1 x order 1 r)
    by (try assumption; try lia; apply open_span_fun; exact Hx).
  apply (dN1_is_derivative V (Ufun_sorted U Usorted) span). exact Hx.
Qed.

(* on the half-open span, in particular at the left knot: right derivatives of the spec functions *)
Theorem ders_right_derivative k r x :
  (S k <= order)%nat -> (r <= p)%nat -> knR U span <= x < knR U (span + 1) ->
  right_derivable_pt_lim (fun y => dN V k p (i r) y) x (ders_entry (S k) r x).
Proof.
  intros Hk Hr Hx. unfold ders_entry.
  rewrite (ders_general U span p Usorted Hp HL HL1 x order (S k) r) by (try assumption; lia).
  apply (dN_right_derivative V (Ufun_sorted U Usorted) span). replace (S span) with (span + 1)%nat by lia. rewrite !Ufun_in by lia. exact Hx.
Qed.
End Analytic.

Print Assumptions ders_rows_derivable.
Print Assumptions ders_kth_deriv_on.
Print Assumptions ders_row1_is_derivative.
Print Assumptions ders_right_derivative.
