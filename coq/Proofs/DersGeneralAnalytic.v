(* Analytic reading of DersGeneral.v: the rows of helpers.basis_function_ders (A2.3) are successive TRUE derivatives
   (standard library derivable_pt_lim) - ALL degrees, sorted knot vectors with any multiplicities, orders <= degree.
   General-degree versions of T4 of Proofs/DerivLink.v (same statement shapes, bound 1 <= p <= 5 removed, any order <= p).

   For a fixed span the map  u |-> ders[k][r]  is the k-th derivative of the polynomial piece of N_{span-p+r,p}: it is
   differentiable at EVERY real x with derivative ders[k+1][r] (ders_consecutive_rows_general - also outside the span
   and at its two knots, e.g. at the closed right end of the domain where geomdl evaluates with the last span), and row 0
   coincides with the Cox-de Boor function on the half-open span.  Hence, inside the span, row k is the k-th derivative
   of N_{span-p+r,p} (ders_is_true_derivative_general). *)
From Coq Require Import List Reals Lra Lia Arith Bool.
From NV Require Import Scalar.Ops Model.Common Model.Basis Proofs.Boehm Proofs.BasisR
                       Proofs.DerivAnalytic Proofs.DersEq210 Proofs.DersNdu Proofs.DersGeneral.
Import ListNotations.
Open Scope R_scope.

Lemma kth_deriv_on_ext' a b j f : forall g h, (forall x, a < x < b -> h x = g x) ->
  kth_deriv_on a b j f g -> kth_deriv_on a b j f h.
Proof.
  destruct j as [|j]; cbn [kth_deriv_on]; intros g h E H.
  - intros x Hx. rewrite E by exact Hx. apply H. exact Hx.
  - destruct H as (g' & H1 & H2). exists g'. split; [exact H1|]. intros x Hx. rewrite E by exact Hx. apply H2. exact Hx.
Qed.

Section Analytic.
Variables (U : list R) (span : nat) (p : nat) (order : nat).
Hypothesis Usorted : sortedR U.
Hypothesis Hp : (p <= span)%nat.
Hypothesis HL : (span + p < length U)%nat.
Hypothesis HL1 : (span + 1 < length U)%nat.
Hypothesis Ho : (order <= p)%nat.

Notation V := (Ufun U).
Notation entry k r := (fun y : R => nth r (nth k (basis_function_ders Rops p U span y order) []) 0).

Let Vs := Ufun_sorted U Usorted.
Let Ek : Ufun U span = knR U span. Proof. apply Ufun_in. lia. Qed.
Let Ek1 : Ufun U (S span) = knR U (span + 1). Proof. rewrite Ufun_in by lia. f_equal. lia. Qed.

(* each row is, at every real u, the derivative of the previous row (the span argument being fixed) *)
Theorem ders_consecutive_rows_general k r u :
  (S k <= order)%nat -> (r <= p)%nat ->
  derivable_pt_lim (entry k r) u (entry (S k) r u).
Proof.
  intros Hk Hr. cbv beta.
  rewrite (ders_general_pieces U span p Usorted Hp HL HL1 u order (S k) r) by lia.
  apply (dl_ext (dNk V span k p (span - p + r))).
  - intros y. symmetry. apply (ders_general_pieces U span p Usorted Hp HL HL1 y order k r); lia.
  - apply dNk_deriv. exact Vs.
Qed.

Corollary ders_right_derivative_general k r u :
  (S k <= order)%nat -> (r <= p)%nat ->
  right_derivable_pt_lim (entry k r) u (entry (S k) r u).
Proof. intros Hk Hr. apply dl_right_of_two_sided. apply ders_consecutive_rows_general; assumption. Qed.

Corollary ders_right_derivative_at_knot_general k r :
  (S k <= order)%nat -> (r <= p)%nat ->
  right_derivable_pt_lim (entry k r) (knR U span) (entry (S k) r (knR U span)).
Proof. apply ders_right_derivative_general. Qed.

(* inside the span, row k is the k-th derivative of N_{span-p+r,p} *)
Theorem ders_is_true_derivative_general k r :
  (k <= order)%nat -> (r <= p)%nat ->
  kth_deriv_on (knR U span) (knR U (span + 1)) k (fun x => N V p (span - p + r) x) (entry k r).
Proof.
  intros Hk Hr.
  apply (kth_deriv_on_ext' _ _ _ _ (fun x => dN V k p (span - p + r) x)).
  - intros x Hx. apply (ders_general U span p Usorted Hp HL HL1); try assumption. lra.
  - rewrite <- Ek, <- Ek1. apply dN_iterated. exact Vs.
Qed.

(* first derivative, spelled out: row 1 is the derivative of the basis function *)
Corollary ders_row1_is_derivative_general r u :
  (1 <= order)%nat -> (r <= p)%nat -> knR U span < u < knR U (span + 1) ->
  derivable_pt_lim (fun y => N V p (span - p + r) y) u (entry 1 r u).
Proof.
  intros H1 Hr Hu. cbv beta.
  rewrite (ders_general U span p Usorted Hp HL HL1 u order 1 r) by (try assumption; try lia; lra).
  apply (dN1_is_derivative V Vs span). rewrite Ek, Ek1. exact Hu.
Qed.
End Analytic.

Check ders_consecutive_rows_general.
Check ders_right_derivative_general.
Check ders_right_derivative_at_knot_general.
Check ders_is_true_derivative_general.
Check ders_row1_is_derivative_general.
Print Assumptions ders_consecutive_rows_general.
Print Assumptions ders_right_derivative_general.
Print Assumptions ders_is_true_derivative_general.
Print Assumptions ders_row1_is_derivative_general.

(* sanity (non-vacuity): degree 6 (beyond the brute-force bound), a knot vector with a double interior knot;
   the hypotheses are satisfiable *)
Example ders_general_sanity : forall u, 1 < u < 2 ->
  let U := [0; 0; 0; 0; 0; 0; 0; 1; 1; 2; 3; 3; 3; 3; 3; 3; 3] in
  derivable_pt_lim (fun x => N (Ufun U) 6 (8 - 6 + 2) x) u
                   (nth 2 (nth 1 (basis_function_ders Rops 6 U 8 u 3) []) 0).
Proof.
  intros u Hu U. subst U.
  apply (ders_row1_is_derivative_general _ 8 6 3); try (cbn [length]; lia).
  - intros i j H. cbn [length] in H.
    do 17 (destruct i as [|i]; [do 17 (destruct j as [|j]; [first [exfalso; lia | cbn [kn nth]; rsimp; lra]|]); exfalso; lia|]).
    exfalso; lia.
  - cbn [kn nth Nat.add]. exact Hu.
Qed.
