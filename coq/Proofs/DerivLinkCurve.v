(* T5: the non-rational curve derivative evaluator A3.2 (CurveEvaluator.derivatives, Model.Derivs.curve_derivs)
   returns, for degrees 1..5, the analytic derivatives of the curve  C(x) = sum_i N_{i,p}(x) P_i  (sum over ALL
   control points, EvalR.curve_def), coordinate-wise, on every non-empty knot span of the domain.

   Ingredients: Proofs/DerivLink.v (A2.3 rows = Eq. 2.9 = analytic derivatives, degrees 1..5),
   a prefix lemma (the rows of A2.3 do not depend on the requested order), EvalR (folds of axpy, support windows),
   DerivAnalytic.curve_dN_is_kth_derivative (term-wise differentiation). *)
From Coq Require Import List Reals Lra Lia Arith Bool.
From NV Require Import Scalar.Ops Model.Common Model.Basis Model.Knots Model.Eval Model.Degree Model.Derivs
  Proofs.Boehm Proofs.BasisR Proofs.BasisOneR Proofs.DerivAnalytic Proofs.EvalR Proofs.DerivLink.
Import ListNotations.
Open Scope R_scope.

Lemma nth_map_seq_g {A} (f : nat -> A) a n k d : (k < n)%nat -> nth k (map f (seq a n)) d = f (a + k)%nat.
Proof.
  intros H. rewrite (nth_indep _ d (f 0%nat)) by (rewrite map_length, seq_length; exact H).
  rewrite map_nth. rewrite seq_nth by exact H. reflexivity.
Qed.

(* ------------------------------------------------------------------------------------------------ *)
(* loops that only append to an output list: the output of a shorter run is a prefix                 *)
Section Prefix.
Context {S A : Type} (F : S * list A -> nat -> S * list A).
Hypothesis Fapp : forall st k, exists d, snd (F st k) = snd st ++ [d].

Lemma fold_snd_length : forall n a st, length (snd (fold_left F (seq a n) st)) = (length (snd st) + n)%nat.
Proof.
  induction n as [|n IH]; intros a st; cbn [seq fold_left]; [lia|].
  rewrite IH. destruct (Fapp st a) as [d E]. rewrite E, app_length. cbn [length]. lia.
Qed.

Lemma fold_snd_keep : forall n a st j d, (j < length (snd st))%nat ->
  nth j (snd (fold_left F (seq a n) st)) d = nth j (snd st) d.
Proof.
  induction n as [|n IH]; intros a st j d Hj; cbn [seq fold_left]; [reflexivity|].
  destruct (Fapp st a) as [x E].
  rewrite IH by (rewrite E, app_length; lia). rewrite E. apply app_nth1. exact Hj.
Qed.

Lemma fold_snd_prefix a n1 n2 st j d : (n1 <= n2)%nat -> (j < length (snd st) + n1)%nat ->
  nth j (snd (fold_left F (seq a n1) st)) d = nth j (snd (fold_left F (seq a n2) st)) d.
Proof.
  intros Hn Hj. replace n2 with (n1 + (n2 - n1))%nat by lia.
  rewrite seq_app, fold_left_app. symmetry. apply fold_snd_keep. rewrite fold_snd_length. exact Hj.
Qed.
End Prefix.

(* A2.3: row k does not depend on the requested order (k <= order) *)
Section DersOrder.
Variables (p : nat) (U : list R) (span : nat) (u : R).

Lemma ders_for_r_prefix ndu r o1 o2 j d : (o1 <= o2)%nat -> (j < o1)%nat ->
  nth j (ders_for_r Rops p o1 ndu r) d = nth j (ders_for_r Rops p o2 ndu r) d.
Proof.
  intros Ho Hj. unfold ders_for_r.
  match goal with |- context [fold_left ?f (seq 1 o1) ?i] => set (F := f); set (st0 := i) end.
  assert (E : forall o, (let '(_, _, _, out) := fold_left F (seq 1 o) st0 in out) = snd (fold_left F (seq 1 o) st0)).
  { intros o. destruct (fold_left F (seq 1 o) st0) as [[[? ?] ?] ?]. reflexivity. }
  rewrite !E. apply fold_snd_prefix; [|exact Ho|cbn [snd length]; lia].
  intros [[[a s1] s2] out] k. unfold F. cbn [snd].
  repeat match goal with |- context [match ?e with pair _ _ => _ end] => destruct e end.
  cbn [snd]. eexists. reflexivity.
Qed.

Lemma facs_prefix o1 o2 j d : (o1 <= o2)%nat -> (j < o1)%nat ->
  nth j (snd (fold_left (fun (st : R * list R) k => let '(f, acc) := st in
                 (omul Rops f (ofnat Rops (Nat.sub p k)), acc ++ [f])) (seq 1 o1) (ofnat Rops p, []))) d
  = nth j (snd (fold_left (fun (st : R * list R) k => let '(f, acc) := st in
                 (omul Rops f (ofnat Rops (Nat.sub p k)), acc ++ [f])) (seq 1 o2) (ofnat Rops p, []))) d.
Proof.
  intros Ho Hj. apply fold_snd_prefix; [|exact Ho|cbn [snd length]; lia].
  intros [f acc] k. cbn [snd]. eexists. reflexivity.
Qed.

Theorem basis_function_ders_row_order_indep o1 o2 k : (k <= o1)%nat -> (o1 <= o2)%nat ->
  nth k (basis_function_ders Rops p U span u o1) [] = nth k (basis_function_ders Rops p U span u o2) [].
Proof.
  intros Hk Ho. unfold basis_function_ders. destruct k as [|k]; [reflexivity|]. cbn [nth].
  rewrite !nth_map_seq_g by lia. cbn [Nat.add Nat.pred].
  apply map_ext_in. intros r Hr. apply in_seq in Hr.
  rewrite !nth_map_seq_g by lia. cbn [Nat.add].
  rewrite (ders_for_r_prefix _ r o1 o2 k) by lia.
 
  rewrite (facs_prefix o1 o2 k) by lia. reflexivity.
Qed.
End DersOrder.

(* ------------------------------------------------------------------------------------------------ *)
(* facts about the Eq. 2.9 specification                                                             *)
Lemma dNa_above_degree (V : nat -> R) : forall j p i u, (p < j)%nat -> dNa V j p i u = 0.
Proof.
  induction j as [|j IH]; intros p i u H; [lia|].
  destruct p as [|q]; [reflexivity|]. rewrite DerivAnalytic.dN_SS, !IH by lia. unfold Rdiv. ring.
Qed.

Lemma dNa_outside U j p i u k : sortedR U -> (k + 1 < length U)%nat -> knR U k <= u < knR U (k + 1) ->
  (i + p + 1 <= k \/ k < i)%nat -> dNa (Ufun U) j p i u = 0.
Proof.
  intros Hs HL [H1 H2] [Hi|Hi]; apply (dNa_support (Ufun U) (Ufun_sorted U Hs)).
  - right. assert (Ufun U (i + p + 1) <= Ufun U k) by (apply Ufun_mono; [exact Hs|lia]).
    rewrite (Ufun_in U k) in H by lia. lra.
  - left. assert (Ufun U (k + 1) <= Ufun U i) by (apply Ufun_mono; [exact Hs|lia]).
    rewrite (Ufun_in U (k+1)) in H by lia. lra.
Qed.

(* the k-th derivative of the curve by Eq. 2.9: sum over ALL control points *)
Definition curve_dk (U : list R) (p : nat) (P : list (list R)) (k d : nat) (u : R) : R :=
  sumf (fun i => dNa (Ufun U) k p i u * coord P i d) (length P).

Lemma curve_dk_0 U p P d u : curve_dk U p P 0 d u = curve_def U p P d u.
Proof. reflexivity. Qed.

(* ------------------------------------------------------------------------------------------------ *)
(* T5  [B: degrees 1..5; every clamped-or-not sorted knot vector, every parameter of the half-open   *)
(*     domain, every requested order]  A3.2 = sum_i dN^{(k)}_{i,p}(u) P_i                             *)
Section CurveDerivs.
Variables (U : list R) (P : list (list R)) (p dim : nat).
Hypothesis Usorted : sortedR U.
Hypothesis Hwf : wf_net P dim.
Hypothesis Hp5 : (1 <= p <= 5)%nat.
Hypothesis Hp : (p < length P)%nat.
Hypothesis HL : length U = (length P + p + 1)%nat.

Theorem curve_derivs_is_dN_sum_deg_le_5 u order k :
  knR U p <= u < knR U (length P) -> (k <= order)%nat ->
  let CK := curve_derivs Rops dim p U P u order in
  length (nth k CK []) = dim /\
  forall d, (d < dim)%nat -> nth d (nth k CK []) 0 = curve_dk U p P k d u.
Proof.
  intros Hu Hk. cbn zeta. set (n := length P) in *.
  unfold curve_derivs. fold n. rewrite nth_map_seq_g by lia. cbn [Nat.add].
  destruct (Nat.leb_spec k (Nat.min p order)) as [Hkd|Hkd].
  - destruct (span_facts U u p n Hp ltac:(lia) Hu) as [Hk1 Hk2].
    set (span := find_span_linear Rops p U n u) in *.
    rewrite (basis_function_ders_row_order_indep p U span u (Nat.min p order) p k) by lia.
    destruct (curve_point_at_sum dim p P span (nth k (basis_function_ders Rops p U span u p) []) Hwf
                ltac:(lia) ltac:(lia)) as [HLr Hn]. cbn zeta in *.
    split; [exact HLr|]. intros d Hd. rewrite Hn by exact Hd.
    unfold curve_dk. fold n. rewrite (sumf_window _ (span - p) (S p) n); try lia.
    + apply sumf_ext. intros j Hj. f_equal.
      apply ders_is_dN_deg_le_5; try assumption; lia.
    + intros i Hi. rewrite (dNa_outside U k p i u span Usorted ltac:(lia) Hk2) by lia. ring.
    + intros i Hi. rewrite (dNa_outside U k p i u span Usorted ltac:(lia) Hk2) by lia. ring.
  - split; [apply vzero_length|]. intros d Hd. rewrite vzero_nth.
    unfold curve_dk. symmetry. apply sumf_zero. intros i _. rewrite dNa_above_degree by lia. ring.
Qed.

(* object level (BSpline.Curve.derivatives with the default evaluator, non-rational) *)
Corollary Curve_derivatives_is_dN_sum_deg_le_5 normalize u order CK k d :
  Curve_derivatives Rops normalize false false dim p U P u order = Ok CK ->
  knR U p <= u < knR U (length P) -> (k <= order)%nat -> (d < dim)%nat ->
  nth d (nth k CK []) 0 = curve_dk U p P k d u.
Proof.
  unfold Curve_derivatives. destruct (andb normalize _); [discriminate|].
  intros E Hu Hk Hd. injection E as <-.
  apply (curve_derivs_is_dN_sum_deg_le_5 u order k Hu Hk). exact Hd.
Qed.

(* ---- analytic meaning ---- *)
Let Vs := Ufun_sorted U Usorted.

Lemma curve_dk_iterated s k d :
  kth_deriv_on (Ufun U s) (Ufun U (S s)) k (fun x => curve_def U p P d x) (fun x => curve_dk U p P k d x).
Proof.
  induction k as [|k IH]; cbn [kth_deriv_on].
  - intros x _. reflexivity.
  - exists (fun x => curve_dk U p P k d x). split; [exact IH|]. intros x Hx.
    unfold curve_dk. apply (curve_dN_is_kth_derivative (Ufun U) Vs s). exact Hx.
Qed.

Section Span.
Variable s : nat.                       (* a knot span of the domain *)
Hypothesis Hs : (p <= s < length P)%nat.

Let Es : Ufun U s = knR U s. Proof. apply Ufun_in. lia. Qed.
Let Es1 : Ufun U (S s) = knR U (s + 1). Proof. rewrite Ufun_in by lia. f_equal. lia. Qed.
Let dom x : knR U s <= x < knR U (s + 1) -> knR U p <= x < knR U (length P).
Proof.
  intros Hx. assert (knR U p <= knR U s) by (apply Usorted; lia).
  assert (knR U (s + 1) <= knR U (length P)) by (apply Usorted; lia). lra.
Qed.

(* coordinate d of CK[k], as a function of the parameter, is a k-th iterated analytic derivative of
   coordinate d of the curve on the open span (U_s, U_{s+1}) *)
Theorem curve_derivs_is_true_derivative_deg_le_5 order k d : (k <= order)%nat -> (d < dim)%nat ->
  kth_deriv_on (knR U s) (knR U (s + 1)) k
    (fun x => curve_def U p P d x)
    (fun x => nth d (nth k (curve_derivs Rops dim p U P x order) []) 0).
Proof.
  intros Hk Hd.
  apply (kth_deriv_on_ext _ _ _ _ (fun x => curve_dk U p P k d x)).
  - intros x Hx. apply (curve_derivs_is_dN_sum_deg_le_5 x order k); [apply dom; lra|exact Hk|exact Hd].
  - rewrite <- Es, <- Es1. apply curve_dk_iterated.
Qed.

(* one step: CK[k+1](u) is the derivative at u of x |-> CK[k](x), coordinate-wise, inside the span *)
Theorem curve_derivs_consecutive_deg_le_5 order k d u : (S k <= order)%nat -> (d < dim)%nat ->
  knR U s < u < knR U (s + 1) ->
  derivable_pt_lim (fun x => nth d (nth k (curve_derivs Rops dim p U P x order) []) 0) u
                   (nth d (nth (S k) (curve_derivs Rops dim p U P u order) []) 0).
Proof.
  intros Hk Hd Hu.
  apply (dl_local (fun x => curve_dk U p P k d x) _ (knR U s) (knR U (s + 1))); [exact Hu| |].
  - intros y Hy. symmetry.
    apply (curve_derivs_is_dN_sum_deg_le_5 y order k); [apply dom; lra|lia|exact Hd].
  - rewrite (proj2 (curve_derivs_is_dN_sum_deg_le_5 u order (S k) ltac:(apply dom; lra) Hk) d Hd).
    unfold curve_dk. apply (curve_dN_is_kth_derivative (Ufun U) Vs s). rewrite Es, Es1. exact Hu.
Qed.

(* right derivative on the half-open span, in particular at the knot U_s *)
Theorem curve_derivs_right_derivative_deg_le_5 order k d u : (S k <= order)%nat -> (d < dim)%nat ->
  knR U s <= u < knR U (s + 1) ->
  right_derivable_pt_lim (fun x => nth d (nth k (curve_derivs Rops dim p U P x order) []) 0) u
                         (nth d (nth (S k) (curve_derivs Rops dim p U P u order) []) 0).
Proof.
  intros Hk Hd Hu.
  apply (rdl_local (fun x => curve_dk U p P k d x) _ (knR U (s + 1))); [lra| |].
  - intros y Hy. symmetry.
    apply (curve_derivs_is_dN_sum_deg_le_5 y order k); [apply dom; lra|lia|exact Hd].
  - rewrite (proj2 (curve_derivs_is_dN_sum_deg_le_5 u order (S k) ltac:(apply dom; lra) Hk) d Hd).
    unfold curve_dk. apply (curve_dN_right_derivative (Ufun U) Vs s). rewrite Es, Es1. exact Hu.
Qed.

(* first derivative of the evaluated point: CK[1] is the derivative of x |-> curve_point x *)
Corollary curve_tangent_is_derivative_deg_le_5 order d u : (1 <= order)%nat -> (d < dim)%nat ->
  knR U s < u < knR U (s + 1) ->
  derivable_pt_lim (fun x => nth d (curve_point Rops dim p U P x) 0) u
                   (nth d (nth 1 (curve_derivs Rops dim p U P u order) []) 0).
Proof.
  intros Ho Hd Hu.
  apply (dl_local (fun x => curve_def U p P d x) _ (knR U s) (knR U (s + 1))); [exact Hu| |].
  - intros y Hy. symmetry.
    apply (curve_point_is_definition U P p dim y Usorted Hwf Hp HL); [apply dom; lra|exact Hd].
  - rewrite (proj2 (curve_derivs_is_dN_sum_deg_le_5 u order 1 ltac:(apply dom; lra) Ho) d Hd).
    unfold curve_dk, curve_def.
    apply (curve_dN_is_kth_derivative (Ufun U) Vs s 0). rewrite Es, Es1. exact Hu.
Qed.
End Span.
End CurveDerivs.

Check basis_function_ders_row_order_indep.
Check curve_derivs_is_dN_sum_deg_le_5.
Check Curve_derivatives_is_dN_sum_deg_le_5.
Check curve_derivs_is_true_derivative_deg_le_5.
Check curve_derivs_consecutive_deg_le_5.
Check curve_derivs_right_derivative_deg_le_5.
Check curve_tangent_is_derivative_deg_le_5.

Print Assumptions basis_function_ders_row_order_indep.
Print Assumptions curve_derivs_is_dN_sum_deg_le_5.
Print Assumptions Curve_derivatives_is_dN_sum_deg_le_5.
Print Assumptions curve_derivs_is_true_derivative_deg_le_5.
Print Assumptions curve_derivs_consecutive_deg_le_5.
Print Assumptions curve_derivs_right_derivative_deg_le_5.
Print Assumptions curve_tangent_is_derivative_deg_le_5.

(* sanity (non-vacuity): a quadratic curve with an interior knot; the hypotheses are satisfiable *)
Example curve_tangent_sanity :
  let U := [0; 0; 0; 1; 2; 2; 2] in let P := [[0; 0]; [1; 2]; [3; 2]; [4; 0]] in
  forall u, 0 < u < 1 ->
  derivable_pt_lim (fun x => nth 0 (curve_point Rops 2 2 U P x) 0) u
                   (nth 0 (nth 1 (curve_derivs Rops 2 2 U P u 1) []) 0).
Proof.
  intros U P u Hu. subst U P.
  apply (curve_tangent_is_derivative_deg_le_5 _ _ 2 2) with (s := 2%nat); try (cbn [length]; lia).
  - intros i j H. cbn [length] in H.
    do 7 (destruct i as [|i]; [do 7 (destruct j as [|j]; [first [exfalso; lia | cbn [kn nth]; rsimp; lra]|]); exfalso; lia|]). exfalso; lia.
  - intros i H. cbn [length] in H. do 4 (destruct i as [|i]; [reflexivity|]). lia.
  - cbn [kn nth Nat.add]. exact Hu.
Qed.
